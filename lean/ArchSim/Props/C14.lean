/-
C14 — "Printed instruction text re-assembles to the same instruction."

Printer: `Rv.Instr.repr`; parser: `Asm.parseLine`; back end: `Asm.instantiate` / `Asm.buildInstrs`;
whole pipeline: `Asm.load`. The hypotheses on an instruction object are collected in
`Rv.Instr.Canon addr i` (Lemmas/C14Main.lean): register numbers below 32, stored immediate in the
range of its format, unused fields zero, `jal`: `aux` the even absolute target and
`imm = sextImm 21 (aux - addr)`; CSR forms: `aux ≥ 0`. `canon_of_instantiate` shows that these are
exactly the objects the assembler builds from numeric operands.

FINDING (second sentence of C14 is false as stated): a branch or jump to `label+0x<odd>` is
assembled without a parity check, its printed form has an odd numeric operand, and re-assembling that
is rejected with `ParserOddImmediateException` (`listing_not_reassemblable_odd_offset`; confirmed on
the Python code with `beq x0, x0, l+0x1`). `listing_fixpoint` is the statement that does hold.
-/
import ArchSim.Lemmas.C14Canon
namespace ArchSim.Props.C14
open ArchSim ArchSim.PP ArchSim.Rv ArchSim.Asm ArchSim.Lemmas.C14

/-- Numerals: the decimal text the printer produces for an integer `v` (any `v` with at most 4300
    digits, in particular every 64-bit value) is read back by the immediate pattern as `v`, consuming
    exactly the numeral, whenever the next character is not a digit, `x` or `b` (or the text ends). -/
theorem numeral_roundtrip_dec (v : Int) (rest : List Char) (hv : v.natAbs < 10 ^ 4300)
    (hr : ∀ c ∈ rest.head?, isNum c = false ∧ c ≠ 'x' ∧ c ≠ 'b') :
    pImm ((intToDec v).toList ++ rest) = .ok v rest :=
  pImm_decTxt v rest hv hr

/-- Numerals: the lower-case hexadecimal text `0x…` printed for a csr number `n` is read back as `n`
    when the next character is not a hexadecimal digit. -/
theorem numeral_roundtrip_hex (n : Nat) (rest : List Char) (hr : ∀ c ∈ rest.head?, isHexNum c = false) :
    pImm (("0x" ++ hexLower n).toList ++ rest) = .ok (n : Int) rest := by
  have := pImm_hexTxt n rest hr
  simpa [hexTxt, hexLower_toList] using this

/-- Registers: `x<n>` is read back as register `n` for each of the 32 register numbers, when the
    next character is not a digit. -/
theorem register_roundtrip (n : Nat) (hn : n < 32) (rest : List Char) (hr : ∀ c ∈ rest.head?, isNum c = false) :
    pReg (("x" ++ toString n).toList ++ rest) = .ok n rest := by
  have := pReg_regTxt n hn rest hr
  simpa [regTxt] using this

/-- Main round trip. For every canonical instruction `i` other than `fence`, placed at any address
    `addr`: the text printed for `i` is tokenized as one label-free entry, and the assembler back end
    builds from that entry, at the same address and for any label table, exactly the instruction `i`
    (same operation, registers, immediate and auxiliary field). -/
theorem repr_roundtrip (i : Instr) (addr : Int) (hc : i.Canon addr) (hf : i.op ≠ .fence) :
    ∃ tok, parseLine i.repr.toList = some tok ∧ tok.lbl = none ∧
      ∀ (ls : Labels) (k : Nat) (line : String), buildInstrs ls [(k, line, tok.item)] addr = .ok [i] := by
  obtain ⟨it, hp, hb⟩ := roundtrip_core i addr hc hf
  refine ⟨_, hp, rfl, ?_⟩
  intro ls k line
  rcases hb with ⟨_, hit, hi⟩ | ⟨_, hit, hi⟩ | ⟨_, _, pi, hit, hi⟩
  · simp [hit, buildInstrs, Except.map, hi]
  · simp [hit, buildInstrs, Except.map, hi]
  · simp [hit, buildInstrs, Except.map, hi ls k line]

/-- The same round trip with the syntax tree made explicit: `ecall`/`ebreak` come back as the bare
    words (which `buildInstrs` turns into the same objects), every other printed form comes back as
    a grouped syntax tree `pi` that `instantiate` maps to `i` at address `addr` for any label table. -/
theorem repr_roundtrip_tree (i : Instr) (addr : Int) (hc : i.Canon addr) (hf : i.op ≠ .fence) :
    ∃ tok, parseLine i.repr.toList = some tok ∧ tok.lbl = none ∧
      ((i.op = .ecall ∧ tok.item = .str "ecall" ∧ i = { op := .ecall }) ∨
       (i.op = .ebreak ∧ tok.item = .str "ebreak" ∧ i = { op := .ebreak, imm := 1 }) ∨
       (i.op ≠ .ecall ∧ i.op ≠ .ebreak ∧ ∃ pi, tok.item = .grp pi ∧
          ∀ (ls : Labels) (k : Nat) (line : String), instantiate ls addr k line pi = .ok i)) := by
  obtain ⟨it, hp, hb⟩ := roundtrip_core i addr hc hf
  exact ⟨_, hp, rfl, hb⟩

/-- The canonical instructions are what the assembler builds: every instruction object
    `instantiate` produces from a numeric-operand syntax tree of the grammar (`NumericForm`: mnemonic
    of the alternative, registers below 32, csr number not negative) is canonical at its address —
    out-of-range immediates are wrapped by the constructors into the canonical range. -/
theorem canon_of_instantiate (ls : Labels) (addr : Int) (k : Nat) (line : String) (pi : PInstr) (i : Instr)
    (hg : NumericForm pi) (h : instantiate ls addr k line pi = .ok i) : i.Canon addr :=
  instantiate_canon ls addr k line pi i hg h

/-- Listing fixpoint. For a program of at most 4096 canonical non-`fence` instructions, the k-th at
    address 4k, loading the text made of their printed forms joined by newlines succeeds and stores
    exactly the same instruction list (hence prints the same listing again). -/
theorem listing_fixpoint (s : St) (prog : List Instr) (hlen : prog.length ≤ 4096)
    (hc : ∀ k (hk : k < prog.length), prog[k].Canon (4 * k) ∧ prog[k].op ≠ .fence) :
    (load s (String.intercalate "\n" (prog.map Instr.repr))).err = none ∧
    (load s (String.intercalate "\n" (prog.map Instr.repr))).st.imem.prog = prog := by
  apply load_listing s prog hlen
  · apply canonFrom_of_forall
    intro k hk
    simpa using hc k hk
  · intro i hi
    obtain ⟨k, hk, rfl⟩ := List.getElem_of_mem hi
    exact lineOk_repr _ _ (hc k hk).1

/-- FINDING: the listing of a loaded program need not re-assemble. The object the assembler builds
    for `beq x0, x0, l+0x1` (label `l` at address 4, instruction at address 0) prints as
    `beq x0, x0, 5`; that text is tokenized as a numeric branch, which the back end rejects with
    `ParserOddImmediateException` at the same address, for every label table. -/
theorem listing_not_reassemblable_odd_offset :
    ∃ (ls : Labels) (pi : PInstr) (i : Instr),
      instantiate ls 0 1 "beq x0, x0, l+0x1" pi = .ok i ∧ i.op ≠ .fence ∧
      ∃ tok, parseLine i.repr.toList = some tok ∧
        ∀ (ls' : Labels) (k : Nat) (line : String),
          buildInstrs ls' [(k, line, tok.item)] 0 = .error (.parser "ParserOddImmediateException" k line) :=
  ⟨[("l", 4)], .btypeLabel "beq" 0 0 "l" 1, oddBranch, oddBranch_built, by decide, _, oddBranch_parse,
    fun ls' k line => oddBranch_rebuild ls' k line⟩

/-! ### non-vacuity -/

/-- `sw x3, 8(x2)` at address 12 is canonical. -/
example : ({ op := .sw, rs1 := 2, rs2 := 3, imm := 8 } : Instr).Canon 12 := by
  simp [Instr.Canon, Op.ty]

/-- `jal x1, 24` at address 8 (displacement 16) is canonical. -/
example : ({ op := .jal, rd := 1, imm := 16, aux := 8 + 16 } : Instr).Canon 8 :=
  canon_jal_of_range 8 1 16 (by decide) (by decide) (by decide) (by decide) (by decide)
    (small_natAbs _ (by decide) (by decide))

/-- `csrrwi x1, 0x300, 5` is canonical. -/
example : ({ op := .csrrwi, rd := 1, imm := 5, aux := 768 } : Instr).Canon 0 := by
  simp [Instr.Canon, Op.ty]

/-- A three-instruction program satisfying the hypotheses of `listing_fixpoint`. -/
example :
    let prog : List Instr := [{ op := .addi, rd := 1, rs1 := 0, imm := -5 }, { op := .ecall },
      { op := .beq, rs1 := 1, rs2 := 2, imm := -8 }]
    prog.length ≤ 4096 ∧ ∀ k (hk : k < prog.length), prog[k].Canon (4 * k) ∧ prog[k].op ≠ .fence := by
  intro prog
  refine ⟨by decide, ?_⟩
  intro k hk
  have : k = 0 ∨ k = 1 ∨ k = 2 := by simp [prog] at hk; omega
  rcases this with rfl | rfl | rfl <;> simp [prog, Instr.Canon, Op.ty]

/-- A numeric-operand syntax tree of the grammar (hypothesis of `canon_of_instantiate`). -/
example : NumericForm (.rri "addi" 1 2 5000) := by
  simp [NumericForm, normalIMn]

end ArchSim.Props.C14
