/-
C14 — "Printed instruction text re-assembles to the same instruction."

Printer: `Rv.Instr.repr`; parser: `Asm.parseLine`; back end: `Asm.instantiate` / `Asm.buildInstrs`;
whole pipeline: `Asm.load`. The hypotheses on an instruction object are collected in
`Rv.Instr.Canon addr i` (Lemmas/C14Main.lean): register numbers below 32, stored immediate in the
range of its format, unused fields zero, `jal`: `aux` the even absolute target and
`imm = sextImm 21 (aux - addr)`; CSR forms: `aux ≥ 0`. `canon_of_instantiate` shows that these are
exactly the objects the assembler builds from numeric operands.

An odd label displacement (`beq x0, x0, l+0x1`) used to be assembled without a parity check and printed
a form that does not re-assemble; since the repair of `_convert_label_or_imm` it is rejected with
`ParserOddImmediateException` (C04 `branch_label_odd_rejected`), and every object the assembler builds —
label operands included — is canonical (`canon_of_instantiate`), so the listing of every built program
whose instructions can be printed re-assembles to the same program (`loaded_listing_fixpoint`, and
`built_listing_fixpoint` for the instruction pass alone). `grammar_sound` shows that the trees the line
grammar returns satisfy `GrammarForm`.
-/
import ArchSim.Lemmas.C14Loaded
namespace ArchSim.Props.C14
open ArchSim ArchSim.PP ArchSim.Rv ArchSim.Asm ArchSim.Lemmas.C14

/-- Numerals: the decimal text the printer produces for an integer `v` (any `v` with at most 4300
    digits, in particular every 64-bit value) is read back by the immediate pattern as `v`, consuming
    exactly the numeral, whenever the next character is not a digit, `x` or `b` (or the text ends). -/
theorem numeral_roundtrip_dec (v : Int) (rest : List Char) (hv : v.natAbs < 10 ^ 4300)
    (hr : ∀ c ∈ rest.head?, isNum c = false ∧ c ≠ 'x' ∧ c ≠ 'b') :
    pImm ((intToDec v).toList ++ rest) = .ok v rest :=
  pImm_decTxt v rest hv hr

/-- Numerals: the lower-case hexadecimal text `0x…` printed for a csr number `n` is read back as `n`
    when the next character is not a hexadecimal digit. -/
theorem numeral_roundtrip_hex (n : Nat) (rest : List Char) (hr : ∀ c ∈ rest.head?, isHexNum c = false) :
    pImm (("0x" ++ hexLower n).toList ++ rest) = .ok (n : Int) rest := by
  have := pImm_hexTxt n rest hr
  simpa [hexTxt, hexLower_toList] using this

/-- Registers: `x<n>` is read back as register `n` for each of the 32 register numbers, when the
    next character is not a digit. -/
theorem register_roundtrip (n : Nat) (hn : n < 32) (rest : List Char) (hr : ∀ c ∈ rest.head?, isNum c = false) :
    pReg (("x" ++ toString n).toList ++ rest) = .ok n rest := by
  have := pReg_regTxt n hn rest hr
  simpa [regTxt] using this

/-- Main round trip. For every canonical instruction `i` other than `fence`, placed at any address
    `addr`: the text printed for `i` is tokenized as one label-free entry, and the assembler back end
    builds from that entry, at the same address and for any label table, exactly the instruction `i`
    (same operation, registers, immediate and auxiliary field). -/
theorem repr_roundtrip (i : Instr) (addr : Int) (hc : i.Canon addr) (hf : i.op ≠ .fence) :
    ∃ tok, parseLine i.repr.toList = some tok ∧ tok.lbl = none ∧
      ∀ (ls : Labels) (k : Nat) (line : String), buildInstrs ls [(k, line, tok.item)] addr = .ok [i] := by
  obtain ⟨it, hp, hb⟩ := roundtrip_core i addr hc hf
  refine ⟨_, hp, rfl, ?_⟩
  intro ls k line
  rcases hb with ⟨_, hit, hi⟩ | ⟨_, hit, hi⟩ | ⟨_, _, pi, hit, hi⟩
  · simp [hit, buildInstrs, Except.map, hi]
  · simp [hit, buildInstrs, Except.map, hi]
  · simp [hit, buildInstrs, Except.map, hi ls k line]

/-- The same round trip with the syntax tree made explicit: `ecall`/`ebreak` come back as the bare
    words (which `buildInstrs` turns into the same objects), every other printed form comes back as
    a grouped syntax tree `pi` that `instantiate` maps to `i` at address `addr` for any label table. -/
theorem repr_roundtrip_tree (i : Instr) (addr : Int) (hc : i.Canon addr) (hf : i.op ≠ .fence) :
    ∃ tok, parseLine i.repr.toList = some tok ∧ tok.lbl = none ∧
      ((i.op = .ecall ∧ tok.item = .str "ecall" ∧ i = { op := .ecall }) ∨
       (i.op = .ebreak ∧ tok.item = .str "ebreak" ∧ i = { op := .ebreak, imm := 1 }) ∨
       (i.op ≠ .ecall ∧ i.op ≠ .ebreak ∧ ∃ pi, tok.item = .grp pi ∧
          ∀ (ls : Labels) (k : Nat) (line : String), instantiate ls addr k line pi = .ok i)) := by
  obtain ⟨it, hp, hb⟩ := roundtrip_core i addr hc hf
  exact ⟨_, hp, rfl, hb⟩

/-- The canonical instructions are what the assembler builds: every instruction object `instantiate`
    produces, at an even address and for any label table, from a syntax tree of the grammar
    (`GrammarForm`: mnemonic of the alternative, registers below 32 — numeric AND label operands) is
    canonical at its address, provided it is printable (`Printable`: not `fence`, csr number not
    negative, `jal` target of at most 4300 digits). Out-of-range immediates are wrapped by the
    constructors into the canonical range; a label displacement is even because odd ones are rejected. -/
theorem canon_of_instantiate (ls : Labels) (addr : Int) (k : Nat) (line : String) (pi : PInstr) (i : Instr)
    (hg : GrammarForm pi) (haddr : addr % 2 = 0) (h : instantiate ls addr k line pi = .ok i)
    (hp : Printable i) : i.Canon addr :=
  instantiate_canon_all ls addr k line pi i hg haddr h hp

/-- The numeric-operand case with the conditions stated on the tree (`NumericForm`: csr number not
    negative, absolute `jal` target of at most 4300 digits; `fence` allowed), at any address. -/
theorem canon_of_instantiate_numeric (ls : Labels) (addr : Int) (k : Nat) (line : String) (pi : PInstr)
    (i : Instr) (hg : NumericForm pi) (h : instantiate ls addr k line pi = .ok i) : i.Canon addr :=
  instantiate_canon ls addr k line pi i hg h

/-- Listing fixpoint. For a program of at most 4096 canonical non-`fence` instructions, the k-th at
    address 4k, loading the text made of their printed forms joined by newlines succeeds and stores
    exactly the same instruction list (hence prints the same listing again). -/
theorem listing_fixpoint (s : St) (prog : List Instr) (hlen : prog.length ≤ 4096)
    (hc : ∀ k (hk : k < prog.length), prog[k].Canon (4 * k) ∧ prog[k].op ≠ .fence) :
    (load s (String.intercalate "\n" (prog.map Instr.repr))).err = none ∧
    (load s (String.intercalate "\n" (prog.map Instr.repr))).st.imem.prog = prog := by
  apply load_listing s prog hlen
  · apply canonFrom_of_forall
    intro k hk
    simpa using hc k hk
  · intro i hi
    obtain ⟨k, hk, rfl⟩ := List.getElem_of_mem hi
    exact lineOk_repr _ _ (hc k hk).1

/-- Listing fixpoint for built programs. Let `prog` be what the instruction pass builds from address 0,
    with any label table, from an expanded listing whose grouped entries are trees of the grammar
    (label operands included). If `prog` fits the instruction memory and its instructions are printable
    (no `fence`, no negative csr number, `jal` targets of at most 4300 digits), then loading the text made
    of the printed forms joined by newlines succeeds and stores exactly `prog` again. -/
theorem built_listing_fixpoint (s : St) (ls : Labels) (es : List TEntry) (prog : List Instr)
    (hg : ∀ e ∈ es, ∀ pi, e.2.2 = .grp pi → GrammarForm pi)
    (h : buildInstrs ls es 0 = .ok prog) (hlen : prog.length ≤ 4096) (hp : ∀ i ∈ prog, Printable i) :
    (load s (String.intercalate "\n" (prog.map Instr.repr))).err = none ∧
    (load s (String.intercalate "\n" (prog.map Instr.repr))).st.imem.prog = prog :=
  built_listing s ls es prog hg h hlen hp

/-- Soundness of the line grammar: whenever `parseLine` returns a grouped instruction, its syntax tree is
    a `GrammarForm` — the mnemonic is one of the symbols of the alternative that produced it and every
    register number is below 32 (the hypothesis of `canon_of_instantiate` / `built_listing_fixpoint`). -/
theorem grammar_sound (l : List Char) (t : Tok) (pi : PInstr) (h : parseLine l = some t)
    (hpi : t.item = .grp pi) : GrammarForm pi :=
  parseLine_form h pi hpi

/-- Every successfully loaded program is built from trees of the grammar: there are a label table and an
    expanded listing with only `GrammarForm` trees from which the instruction pass, started at address 0,
    builds exactly the stored program; and the program has at most 4096 instructions. -/
theorem loaded_program_built (s : St) (text : String) (h : (load s text).err = none) :
    ∃ ls es, (∀ e ∈ es, ∀ pi, e.2.2 = .grp pi → GrammarForm pi) ∧
      buildInstrs ls es 0 = .ok (load s text).st.imem.prog ∧ (load s text).st.imem.prog.length ≤ 4096 :=
  load_ok_built s text h

/-- Listing fixpoint for loaded programs (the second sentence of C14). If `load s text` succeeds with
    program `prog` — ANY source text: labels, `label+offset` operands, pseudo-instructions, data — and
    every instruction of `prog` is printable (no `fence`, no csr instruction with a negative csr number,
    `jal` targets of at most 4300 decimal digits), then loading the listing of `prog` (the printed forms
    joined by newlines), in any simulator state `s'`, succeeds and stores exactly `prog` again. -/
theorem loaded_listing_fixpoint (s s' : St) (text : String) (prog : List Instr)
    (h : (load s text).err = none) (hprog : (load s text).st.imem.prog = prog)
    (hp : ∀ i ∈ prog, i.op ≠ .fence ∧ (i.op.ty = .csr ∨ i.op.ty = .csri → 0 ≤ i.aux) ∧
      (i.op = .jal → i.aux.natAbs < 10 ^ 4300)) :
    (load s' (String.intercalate "\n" (prog.map Instr.repr))).err = none ∧
    (load s' (String.intercalate "\n" (prog.map Instr.repr))).st.imem.prog = prog := by
  subst hprog
  exact loaded_listing s s' text h hp

/-! ### non-vacuity -/

/-- `sw x3, 8(x2)` at address 12 is canonical. -/
example : ({ op := .sw, rs1 := 2, rs2 := 3, imm := 8 } : Instr).Canon 12 := by
  simp [Instr.Canon, Op.ty]

/-- `jal x1, 24` at address 8 (displacement 16) is canonical. -/
example : ({ op := .jal, rd := 1, imm := 16, aux := 8 + 16 } : Instr).Canon 8 :=
  canon_jal_of_range 8 1 16 (by decide) (by decide) (by decide) (by decide) (by decide)
    (small_natAbs _ (by decide) (by decide))

/-- `csrrwi x1, 0x300, 5` is canonical. -/
example : ({ op := .csrrwi, rd := 1, imm := 5, aux := 768 } : Instr).Canon 0 := by
  simp [Instr.Canon, Op.ty]

/-- A three-instruction program satisfying the hypotheses of `listing_fixpoint`. -/
example :
    let prog : List Instr := [{ op := .addi, rd := 1, rs1 := 0, imm := -5 }, { op := .ecall },
      { op := .beq, rs1 := 1, rs2 := 2, imm := -8 }]
    prog.length ≤ 4096 ∧ ∀ k (hk : k < prog.length), prog[k].Canon (4 * k) ∧ prog[k].op ≠ .fence := by
  intro prog
  refine ⟨by decide, ?_⟩
  intro k hk
  have : k = 0 ∨ k = 1 ∨ k = 2 := by simp [prog] at hk; omega
  rcases this with rfl | rfl | rfl <;> simp [prog, Instr.Canon, Op.ty]

/-- A numeric-operand syntax tree of the grammar (hypothesis of `canon_of_instantiate_numeric`). -/
example : NumericForm (.rri "addi" 1 2 5000) := by
  simp [NumericForm, normalIMn]

/-- Label-operand trees of the grammar (hypothesis of `canon_of_instantiate`). -/
example : GrammarForm (.btypeLabel "beq" 0 0 "l" 4) ∧ GrammarForm (.jalLabel 1 "l" 0) := by
  simp [GrammarForm, bMn]

/-- Hypotheses of `canon_of_instantiate` for `jal x1, l` at address 8 with `l` at 0: built, printable. -/
example : instantiate [("l", 0)] 8 3 "jal x1, l" (.jalLabel 1 "l" 0) = .ok { op := .jal, rd := 1, imm := -8 } ∧
    Printable { op := .jal, rd := 1, imm := -8 } :=
  ⟨by rfl, by decide, by simp [Op.ty], fun _ => small_natAbs _ (by decide) (by decide)⟩

/-- Hypotheses of `built_listing_fixpoint` for the listing `l: / beq x0, x0, l+0x4 / jal x1, l`. -/
example :
    let es : List TEntry := [(1, "l:", .str "l"), (2, "beq x0, x0, l+0x4", .grp (.btypeLabel "beq" 0 0 "l" 4)),
      (3, "jal x1, l", .grp (.jalLabel 1 "l" 0))]
    let prog : List Instr := [{ op := .beq, imm := 4 }, { op := .jal, rd := 1, imm := -4 }]
    (∀ e ∈ es, ∀ pi, e.2.2 = .grp pi → GrammarForm pi) ∧ buildInstrs [("l", 0)] es 0 = .ok prog ∧
      prog.length ≤ 4096 ∧ ∀ i ∈ prog, Printable i := by
  intro es prog
  refine ⟨?_, by rfl, by decide, ?_⟩
  · intro e he pi hpi
    simp only [es, List.mem_cons, List.not_mem_nil, or_false] at he
    rcases he with rfl | rfl | rfl
    · cases hpi
    · cases hpi; simp [GrammarForm, bMn]
    · cases hpi; simp [GrammarForm]
  · intro i hi
    simp only [prog, List.mem_cons, List.not_mem_nil, or_false] at hi
    rcases hi with rfl | rfl
    · exact ⟨by decide, by simp [Op.ty], fun h => by cases h⟩
    · exact ⟨by decide, by simp [Op.ty], fun _ => small_natAbs _ (by decide) (by decide)⟩

/-- Hypotheses of `loaded_listing_fixpoint`: the listing text of the three-instruction program above loads
    without error (by `listing_fixpoint`) and its program is printable. -/
example (s : St) :
    let prog : List Instr := [{ op := .addi, rd := 1, rs1 := 0, imm := -5 }, { op := .ecall },
      { op := .beq, rs1 := 1, rs2 := 2, imm := -8 }]
    let text := String.intercalate "\n" (prog.map Instr.repr)
    (load s text).err = none ∧ (load s text).st.imem.prog = prog ∧ ∀ i ∈ prog, Printable i := by
  intro prog text
  have hfix := listing_fixpoint s prog (by decide) (by
    intro k hk
    have : k = 0 ∨ k = 1 ∨ k = 2 := by simp [prog] at hk; omega
    rcases this with rfl | rfl | rfl <;> simp [prog, Instr.Canon, Op.ty])
  refine ⟨hfix.1, hfix.2, ?_⟩
  intro i hi
  simp only [prog, List.mem_cons, List.not_mem_nil, or_false] at hi
  rcases hi with rfl | rfl | rfl <;> exact ⟨by decide, by simp [Op.ty], fun h => by cases h⟩

end ArchSim.Props.C14
