import ArchSim.Model.Asm
namespace ArchSim.Props.C14
open ArchSim.Rv
/-- `ecall` and `ebreak` print as their bare mnemonic. -/
theorem repr_ecall : ({ op := .ecall } : Instr).repr = "ecall" := by decide
end ArchSim.Props.C14
