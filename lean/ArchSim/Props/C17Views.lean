/-
C17 — the displayed TABLES (register table, data-memory table, TOY registers, TOY memory table).

`ArchSim/Model/Views.lean` models the four inspection functions as structured values; the driver only
renders them to text.  The theorems below say what every row of these tables SHOWS, using the
independent string readers of `Spec/Digits.lean` packaged in `Spec/Shown.lean`:

  `Shows n r u`       the four strings of `r` (binary, unsigned decimal, hex, signed decimal) all denote
                      the `n`-bit pattern `u < 2^n` (signed string: `u` read in two's complement), with
                      exactly `n` binary / `⌈n/4⌉` hex digits grouped by 8 / 2 from the right;
  `ShowsAddr w s a`   `s` is `"0x"` followed by upper-case hex digits denoting `a` (exactly `w` of them
                      when `a < 16^w`).

All theorems hold for EVERY state (any register contents, any memory with any configuration, any TOY
state); the ones about well-formed memories (`WF`, the invariant of every memory reached by writes,
`C18.wf_preserved`) say so.  Property theorems only; helper lemmas are in `Lemmas/C17Views*.lean`.
-/
import ArchSim.Lemmas.C17ViewsEx
import ArchSim.Lemmas.C17ViewsToyInv
import ArchSim.Lemmas.C01Defs

namespace ArchSim.Props.C17Views
open ArchSim ArchSim.Mem ArchSim.Views ArchSim.Fmt ArchSim.Toy
open ArchSim.Spec.Digits ArchSim.Spec.Shown ArchSim.Spec.ByteStore
open ArchSim.Lemmas.C17Views ArchSim.Lemmas.C18

/-! ## 0  The formatter shows the value -/

/-- Every output of the formatter shows the `n`-bit two's-complement pattern of its input: all four
strings denote `number mod 2^n` (the signed one its two's-complement reading), for every width
`n ≥ 1` and every integer `number`. -/
theorem formatter_shows (n : Nat) (hn : 1 ≤ n) (number : Int) :
    Shows n (nBitRepr number n) (unsignedVal n number) :=
  nBitRepr_shows n hn number

example : Shows 12 ⟨"1111 11111111", "4095", "F FF", "-1"⟩ 4095 := by
  have h := formatter_shows 12 (by decide) (-1)
  rwa [show nBitRepr (-1) 12 = ⟨"1111 11111111", "4095", "F FF", "-1"⟩ by decide,
    show unsignedVal 12 (-1) = 4095 by decide] at h

/-! ## 1  RISC-V register table -/

/-- The register table has exactly 32 rows, and row `r` is the 32-bit formatter output for register `r`. -/
theorem regTable_rows (regs : Nat → Nat) :
    (regTable regs).length = 32 ∧
    ∀ r, r < 32 → (regTable regs)[r]? = some (nBitRepr (regs r) 32) :=
  ⟨regTable_length regs, regTable_getElem? regs⟩

/-- What is displayed: row `r` of the register table shows the 32-bit pattern of register `r`
(`regs r mod 2^32`, which is `regs r` itself for every register value below `2^32`): 32 binary digits
in 4 groups of 8, the unsigned decimal, 8 hex digits in 4 groups of 2, and the signed decimal of the
two's-complement reading. -/
theorem regTable_shows (regs : Nat → Nat) (r : Nat) (hr : r < 32) :
    ∃ row, (regTable regs)[r]? = some row ∧ Shows 32 row (regs r % 2 ^ 32) ∧
      (regs r < 2 ^ 32 → Shows 32 row (regs r)) := by
  refine ⟨_, regTable_getElem? regs r hr, nBitRepr_shows_nat 32 (by decide) _, fun h => ?_⟩
  exact nBitRepr_shows_lt 32 (by decide) _ h

-- non-vacuity: a register file with x1 = 5, x2 = 2^32 - 1 (i.e. -1), everything else 0
example : (regTable (fun r => if r = 1 then 5 else if r = 2 then 4294967295 else 0))[2]?
    = some ⟨"11111111 11111111 11111111 11111111", "4294967295", "FF FF FF FF", "-1"⟩ := by decide
example : (regTable (fun r => if r = 1 then 5 else if r = 2 then 4294967295 else 0))[1]?
    = some ⟨"00000000 00000000 00000000 00000101", "5", "00 00 00 05", "5"⟩ := by decide

/-! ## 2  RISC-V data-memory table -/

/-- (a) The addresses of the data-memory table are strictly ascending (in particular no address is
listed twice), and there are exactly as many rows as the backing store has distinct aligned keys. -/
theorem dataTable_ascending (m : Mem) (rows : List DataRow) (h : dataTable m = .ok rows) :
    (rows.map (·.addr)).Pairwise (· < ·) ∧ (rows.map (·.addr)).Perm (reprKeys m 32) := by
  obtain ⟨l, hl, rfl⟩ := dataTable_ok h
  rw [map_addr_dataRow]
  exact ⟨sortedEntries_lt hl, sortedEntries_perm hl⟩

/-- (b) Which addresses are listed: `a` occurs in the table iff `a` is a multiple of the number `k` of
cells per word (`k = 32 / cellBits`, 4 for byte cells) and one of the cells `a, …, a+k-1` is a key of
the backing store, i.e. has been written.  Any memory, any configuration with at most 32-bit cells. -/
theorem dataTable_addresses (m : Mem) (rows : List DataRow) (h : dataTable m = .ok rows)
    (hk : 0 < cellsOf m.cfg 32) (a : Int) :
    a ∈ rows.map (·.addr) ↔
      a % (cellsOf m.cfg 32 : Int) = 0 ∧ ∃ i : Nat, i < cellsOf m.cfg 32 ∧ a + (i : Int) ∈ m.keys := by
  obtain ⟨l, hl, rfl⟩ := dataTable_ok h
  rw [map_addr_dataRow, sortedEntries_mem_fst hl, reprKeys_aligned_iff m 32 hk]

/-- (b) for byte cells (the RISC-V data memory): `a` is listed iff `a` is word-aligned and at least one
of the bytes `a, a+1, a+2, a+3` has been written. -/
theorem dataTable_addresses_bytes (m : Mem) (rows : List DataRow) (h : dataTable m = .ok rows)
    (hc : m.cfg.cellBits = 8) (a : Int) :
    a ∈ rows.map (·.addr) ↔ a % 4 = 0 ∧ ∃ i : Nat, i < 4 ∧ a + (i : Int) ∈ m.keys := by
  have hk : cellsOf m.cfg 32 = 4 := by simp [cellsOf, hc]
  have := dataTable_addresses m rows h (by omega) a
  rwa [hk] at this

/-- (a)+(b) determine the address column completely: it is THE strictly ascending list of the
word-aligned addresses whose word contains a written cell — any strictly ascending list with exactly
these members is equal to it. -/
theorem dataTable_addresses_determined (m : Mem) (rows : List DataRow) (h : dataTable m = .ok rows)
    (hk : 0 < cellsOf m.cfg 32) (L : List Int) (hL : L.Pairwise (· < ·))
    (hmem : ∀ a, a ∈ L ↔
      a % (cellsOf m.cfg 32 : Int) = 0 ∧ ∃ i : Nat, i < cellsOf m.cfg 32 ∧ a + (i : Int) ∈ m.keys) :
    rows.map (·.addr) = L :=
  eq_of_sorted_of_mem_iff _ _ (dataTable_ascending m rows h).1 hL
    (fun a => (dataTable_addresses m rows h hk a).trans (hmem a).symm)

/-- (c) What a row shows: the word the accessor `read_word` returns at the row's address NOW
(`Mem.read m 32 addr = some (ok w)`), in all four strings at width 32; and the address text is `0x`
followed by the upper-case hex digits of the address, exactly 8 of them for addresses below `2^32`. -/
theorem dataTable_row (m : Mem) (rows : List DataRow) (h : dataTable m = .ok rows)
    (hb : m.cfg.cellBits ≤ 32) (row : DataRow) (hrow : row ∈ rows) :
    ∃ w, Mem.read m 32 row.addr = some (.ok w) ∧ Shows 32 row.reprs w ∧
      ShowsAddr 8 row.addrText row.addr.toNat := by
  obtain ⟨l, hl, rfl⟩ := dataTable_ok h
  obtain ⟨p, hp, rfl⟩ := mem_map_dataRow hrow
  obtain ⟨hr, hlt⟩ := sortedEntries_read hl hb p hp
  exact ⟨p.2, hr, nBitRepr_shows_lt 32 (by decide) p.2 hlt, addrText_shows 8 (by decide) p.1⟩

/-- (d) When the table fails: exactly when the word read at one of its (aligned) keys fails, and then
with the address error of such a read (`C18.range_error` says which address that error carries). -/
theorem dataTable_error (m : Mem) :
    (∀ e, dataTable m = .error e →
      ∃ a, a ∈ reprKeys m 32 ∧ readN m a (cellsOf m.cfg 32) = .error e) ∧
    ((∃ e, dataTable m = .error e) ↔
      ∃ a, a ∈ reprKeys m 32 ∧ ∃ e, readN m a (cellsOf m.cfg 32) = .error e) := by
  have h1 : ∀ e, dataTable m = .error e →
      ∃ a, a ∈ reprKeys m 32 ∧ readN m a (cellsOf m.cfg 32) = .error e :=
    fun e he => sortedEntries_error ((dataTable_error_iff m e).mp he)
  refine ⟨h1, ?_, ?_⟩
  · rintro ⟨e, he⟩
    obtain ⟨a, ha, hr⟩ := h1 e he
    exact ⟨a, ha, e, hr⟩
  · rintro ⟨a, ha, e, hr⟩
    cases hs : sortedEntries m 32 with
    | error e' => exact ⟨e', (dataTable_error_iff m e').mpr hs⟩
    | ok l =>
      obtain ⟨p, hp, hpa⟩ := List.mem_map.mp ((sortedEntries_mem_fst hs a).mpr ha)
      obtain ⟨v, hv, _⟩ := sortedEntries_val hs p hp
      rw [hpa, hr] at hv; cases hv

/-- The RISC-V data memory (configuration `riscvCfg`, well-formed as every memory reached by writes
is — `C18.wf_preserved`, `C01.invariant_preserved`): the table never fails; every listed address is a
word-aligned data address in `[16384, 2^32)`; the row shows, at width 32, the little-endian
composition of the four bytes stored NOW at `a, a+1, a+2, a+3` (0 for bytes never written); and the
address text is `0x` followed by exactly 8 upper-case hex digits denoting `a`. -/
theorem dataTable_riscv (m : Mem) (hc : m.cfg = riscvCfg) (hwf : WF m) :
    ∃ rows, dataTable m = .ok rows ∧ ∀ row ∈ rows,
      16384 ≤ row.addr ∧ row.addr < 4294967296 ∧ row.addr % 4 = 0 ∧
      Shows 32 row.reprs (m.cells row.addr + m.cells (row.addr + 1) * 256
        + m.cells (row.addr + 2) * 65536 + m.cells (row.addr + 3) * 16777216) ∧
      ∃ ds, row.addrText.toList = '0' :: 'x' :: ds ∧ ds.length = 8 ∧
        (∀ c ∈ ds, isUpperHexDigit c) ∧ (ofDigits 16 ds).map Int.ofNat = some row.addr := by
  obtain ⟨l, hl⟩ := riscv_sortedEntries_exists m hc hwf
  refine ⟨_, dataTable_of_ok hl, fun row hrow => ?_⟩
  obtain ⟨p, hp, rfl⟩ := mem_map_dataRow hrow
  have hkey := (sortedEntries_mem_fst hl p.1).mp (List.mem_map_of_mem hp)
  obtain ⟨h1, h2, h3, _⟩ := riscv_reprKeys_ok m hc hwf p.1 hkey
  have hcb : m.cfg.cellBits ≤ 32 := by rw [hc]; decide
  obtain ⟨_, hlt⟩ := sortedEntries_read hl hcb p hp
  have hsh : Shows 32 (dataRow p).reprs p.2 := nBitRepr_shows_lt 32 (by decide) p.2 hlt
  have hb := riscv_sortedEntries_bytes hc hwf hl p hp
  obtain ⟨ds, hds, hval, hup, hlen⟩ := addrText_shows 8 (by decide) p.1
  have h8 : ds.length = 8 := hlen (by omega)
  refine ⟨h1, h2, h3, ?_, ds, hds, h8, hup, ?_⟩
  · show Shows 32 (dataRow p).reprs (m.cells p.1 + m.cells (p.1 + 1) * 256
      + m.cells (p.1 + 2) * 65536 + m.cells (p.1 + 3) * 16777216)
    rw [← hb]; exact hsh
  · rw [hval]; simp only [Option.map_some, Option.some.injEq]
    show ((p.1.toNat : Nat) : Int) = p.1
    omega

-- non-vacuity: three bytes in two words, written in DESCENDING address order (16394, 16393, 16385);
-- the table comes out ascending, one row per word
example : exMem.cfg = riscvCfg ∧ WF exMem ∧ exMem.keys = [16394, 16393, 16385] :=
  ⟨rfl, exMem_wf, exMem_keys⟩
example : dataTable exMem = .ok
    [⟨16384, "0x00004000", ⟨"00000000 00000000 10000000 00000000", "32768", "00 00 80 00", "32768"⟩⟩,
     ⟨16392, "0x00004008",
       ⟨"00000000 10101011 01111111 00000000", "11239168", "00 AB 7F 00", "11239168"⟩⟩] := by
  rw [dataTable_of_ok (sortedEntries_of_ok exMem_entries), exMem_sorted]
  exact congrArg Except.ok (by decide)
-- the hypotheses of `dataTable_addresses` / `dataTable_row`
example : 0 < cellsOf exMem.cfg 32 ∧ exMem.cfg.cellBits ≤ 32 ∧ exMem.cfg.cellBits = 8 := by decide

-- the hypotheses of `dataTable_addresses_determined` with `L = [16384, 16392]`
example : ∀ a : Int, a ∈ [(16384 : Int), 16392] ↔
    a % (cellsOf exMem.cfg 32 : Int) = 0 ∧
      ∃ i : Nat, i < cellsOf exMem.cfg 32 ∧ a + (i : Int) ∈ exMem.keys := by
  intro a
  rw [exMem_keys, show cellsOf exMem.cfg 32 = 4 from rfl]
  simp only [List.mem_cons, List.not_mem_nil, or_false]
  constructor
  · rintro (rfl | rfl) <;> exact ⟨by decide, 1, by decide, by decide⟩
  · rintro ⟨h4, i, hi, hm⟩; omega

/-- LIMIT of the address text (not reachable for the two real memories, whose keys are never
negative): the model prints `addr.toNat`, so a negative address would be shown as `0x00000000`,
whereas Python's `"{:08X}".format(-4)` is `"-0000004"`.  `ShowsAddr` above is therefore stated for
`addr.toNat`, and `dataTable_riscv` / `toyMemTable_wf` prove `0 ≤ addr`. -/
theorem addrText_negative : addrText 8 (-4) = "0x00000000" := by decide

/-! ## 3  TOY register view -/

/-- The TOY register view: accumulator (16 bit) and program counter (12 bit) are given exactly when a
program is loaded (`max_pc ≥ 0`), the instruction register (16 bit, the encoding of the loaded
instruction) exactly when an instruction is loaded; otherwise the entry is empty (`none`, Python's
tuple of four empty strings). -/
theorem toyRegs_rows (t : TSim) :
    (hasInstructions t = true ↔ ∃ mp, t.s.maxPc = some mp ∧ 0 ≤ mp) ∧
    (hasInstructions t = true → (toyRegs t).accu = some (nBitRepr t.s.accu 16) ∧
      (toyRegs t).pc = some (nBitRepr t.s.pc 12)) ∧
    (hasInstructions t = false → (toyRegs t).accu = none ∧ (toyRegs t).pc = none) ∧
    (∀ i, t.s.loaded = some i → (toyRegs t).ir = some (nBitRepr (encode i) 16)) ∧
    (t.s.loaded = none → (toyRegs t).ir = none) := by
  refine ⟨?_, fun h => ?_, fun h => ?_, fun i h => ?_, fun h => ?_⟩
  · unfold hasInstructions
    cases t.s.maxPc with
    | none => simp
    | some mp => simp
  · simp [toyRegs, h]
  · simp [toyRegs, h]
  · simp [toyRegs, h]
  · simp [toyRegs, h]

/-- What is displayed: with a program loaded the accumulator entry shows the accumulator at width 16
and the program-counter entry shows the program counter at width 12 (the values themselves, as they
are below `2^16` / `2^12` in every reachable state; in general their 16 / 12-bit patterns); the
instruction-register entry shows the 16-bit encoding `opcode * 4096 + address` of the loaded
instruction. -/
theorem toyRegs_shows (t : TSim) :
    (hasInstructions t = true →
      ∃ ra rp, (toyRegs t).accu = some ra ∧ Shows 16 ra (t.s.accu % 65536) ∧
               (toyRegs t).pc = some rp ∧ Shows 12 rp (t.s.pc % 4096)) ∧
    (∀ i, t.s.loaded = some i →
      ∃ r, (toyRegs t).ir = some r ∧ Shows 16 r ((i.opcode * 4096 + i.addr) % 65536)) := by
  obtain ⟨_, h1, _, h3, _⟩ := toyRegs_rows t
  refine ⟨fun h => ?_, fun i hi => ?_⟩
  · exact ⟨_, _, (h1 h).1, nBitRepr_shows_nat 16 (by decide) _, (h1 h).2,
      nBitRepr_shows_nat 12 (by decide) _⟩
  · exact ⟨_, h3 i hi, nBitRepr_shows_nat 16 (by decide) _⟩

-- non-vacuity: the state after loading `LDA 5; ADD 6; STO 7` and running the first cycle
example : toyRegs exToy =
    { accu := some ⟨"00000000 00000001", "1", "00 01", "1"⟩
      pc := some ⟨"0000 00000001", "1", "0 01", "1"⟩
      ir := some ⟨"00010000 00000101", "4101", "10 05", "4101"⟩ } := by decide
example : toyRegs {} = { accu := none, pc := none, ir := none } := by decide

/-! ## 4  TOY memory table -/

/-- The addresses of the TOY memory table are strictly ascending, one row per table key. -/
theorem toyMemTable_ascending (t : TSim) (rows : List ToyRow) (h : toyMemTable t = .ok rows) :
    (rows.map (·.addr)).Pairwise (· < ·) ∧ (rows.map (·.addr)).Perm (reprKeys t.s.mem 16) := by
  obtain ⟨l, hl, rfl⟩ := toyMemTable_ok h
  rw [map_addr_toyRow]
  exact ⟨sortedEntries_lt hl, sortedEntries_perm hl⟩

/-- Which addresses are listed (TOY memory: one 16-bit cell per word): exactly the addresses that
have been written (by the loader or by `STO`). -/
theorem toyMemTable_addresses (t : TSim) (rows : List ToyRow) (h : toyMemTable t = .ok rows)
    (hc : t.s.mem.cfg = toyCfg) (a : Int) :
    a ∈ rows.map (·.addr) ↔ a ∈ t.s.mem.keys := by
  obtain ⟨l, hl, rfl⟩ := toyMemTable_ok h
  rw [map_addr_toyRow, sortedEntries_mem_fst hl, toy_reprKeys_ok _ hc]

/-- What a row shows: the word the accessor `read_halfword` returns at the row's address NOW, in all
four strings at width 16; the address text is `0x` and the hex digits of the address, exactly 3 for
addresses below `4096 = 16^3`. -/
theorem toyMemTable_row (t : TSim) (rows : List ToyRow) (h : toyMemTable t = .ok rows)
    (hb : t.s.mem.cfg.cellBits ≤ 16) (row : ToyRow) (hrow : row ∈ rows) :
    ∃ w, Mem.read t.s.mem 16 row.addr = some (.ok w) ∧ Shows 16 row.reprs w ∧
      ShowsAddr 3 row.addrText row.addr.toNat := by
  obtain ⟨l, hl, rfl⟩ := toyMemTable_ok h
  obtain ⟨p, hp, rfl⟩ := mem_map_toyRow hrow
  obtain ⟨hr, hlt⟩ := sortedEntries_read hl hb p hp
  exact ⟨p.2, hr, nBitRepr_shows_lt 16 (by decide) p.2 hlt, addrText_shows 3 (by decide) p.1⟩

/-- The instruction column: for a row at an address `≤ max_pc` it is the text of the instruction the
row's word `w` decodes to — the mnemonic, followed by `" 0x"` and exactly three upper-case hex digits
denoting the 12-bit address section for the opcodes 0–7 (`STO … XOR`), the bare mnemonic otherwise —
and this is never the placeholder; for every other row (address `> max_pc`, or no program) it is the
placeholder `"-"`. -/
theorem toyMemTable_instr (t : TSim) (rows : List ToyRow) (h : toyMemTable t = .ok rows)
    (hb : t.s.mem.cfg.cellBits ≤ 16) (row : ToyRow) (hrow : row ∈ rows) :
    ∃ w, Mem.read t.s.mem 16 row.addr = some (.ok w) ∧
      ((∃ mp, t.s.maxPc = some mp ∧ row.addr ≤ mp) →
        row.instr = (if (decode w).opcode ≤ 7
          then mnemonic (decode w).opcode ++ " 0x" ++ upHex 3 (decode w).addr
          else mnemonic (decode w).opcode) ∧
        row.instr ≠ "-" ∧
        ofDigits 16 (upHex 3 (decode w).addr).toList = some (w % 4096) ∧
        (upHex 3 (decode w).addr).toList.length = 3) ∧
      ((¬ ∃ mp, t.s.maxPc = some mp ∧ row.addr ≤ mp) → row.instr = "-") := by
  obtain ⟨l, hl, rfl⟩ := toyMemTable_ok h
  obtain ⟨p, hp, rfl⟩ := mem_map_toyRow hrow
  obtain ⟨hr, _⟩ := sortedEntries_read hl hb p hp
  refine ⟨p.2, hr, fun hin => ?_, fun hout => ?_⟩
  · have hi : isInstrAddr t p.1 = true := (isInstrAddr_iff t p.1).mpr hin
    have he : (toyRow t p).instr = toyInstrRepr p.2 := by simp [toyRow, instrText, hi]
    refine ⟨by rw [he, toyInstrRepr_eq], by rw [he]; exact toyInstrRepr_ne_dash _, ?_, ?_⟩
    · exact (upHex_spec 3 _).1
    · exact (upHex_spec 3 _).2.2 (by decide) (decode_bounds p.2).2
  · have hi : isInstrAddr t p.1 = false := by
      rw [Bool.eq_false_iff]; exact fun hc => hout ((isInstrAddr_iff t p.1).mp hc)
    simp [toyRow, instrText, hi]

/-- The cycle column: a row carries a mark exactly when its address is the address of the current
instruction; the mark is `"1"` when the next cycle to run is the second one, else `"2"`; and at most
one row of the table carries a mark. -/
theorem toyMemTable_mark (t : TSim) (rows : List ToyRow) (h : toyMemTable t = .ok rows) :
    (∀ row ∈ rows,
      (row.mark ≠ "" ↔ 0 ≤ row.addr ∧ t.s.addrCur = some row.addr.toNat) ∧
      (row.mark ≠ "" → row.mark = if t.nextCycle = 2 then "1" else "2")) ∧
    (∀ r₁ ∈ rows, ∀ r₂ ∈ rows, r₁.mark ≠ "" → r₂.mark ≠ "" → r₁ = r₂) := by
  have hasc := (toyMemTable_ascending t rows h).1
  obtain ⟨l, hl, rfl⟩ := toyMemTable_ok h
  have key : ∀ row ∈ l.map (toyRow t),
      (row.mark ≠ "" ↔ 0 ≤ row.addr ∧ t.s.addrCur = some row.addr.toNat) ∧
      (row.mark ≠ "" → row.mark = if t.nextCycle = 2 then "1" else "2") := by
    intro row hrow
    obtain ⟨p, _, rfl⟩ := mem_map_toyRow hrow
    by_cases hcur : isCurrent t p.1 = true
    · have hm : (toyRow t p).mark = cycleText t := by simp [toyRow, hcur]
      rw [hm]
      exact ⟨⟨fun _ => (isCurrent_iff t p.1).mp hcur, fun _ => cycleText_ne_empty t⟩, fun _ => rfl⟩
    · have hm : (toyRow t p).mark = "" := by simp [toyRow, hcur]
      rw [hm]
      exact ⟨⟨fun hne => absurd rfl hne, fun hc => absurd ((isCurrent_iff t p.1).mpr hc) hcur⟩,
        fun hne => absurd rfl hne⟩
  refine ⟨key, fun r₁ h₁ r₂ h₂ m₁ m₂ => ?_⟩
  obtain ⟨n₁, c₁⟩ := ((key r₁ h₁).1).mp m₁
  obtain ⟨n₂, c₂⟩ := ((key r₂ h₂).1).mp m₂
  apply eq_of_key_eq (·.addr) _ hasc r₁ r₂ h₁ h₂
  have : r₁.addr.toNat = r₂.addr.toNat := Option.some.inj (c₁.symm.trans c₂)
  show r₁.addr = r₂.addr
  omega

/-- The TOY memory of every reachable state (configuration `toyCfg`, well-formed — see
`toy_memory_invariant`): the table never fails; the listed addresses are exactly the written ones, all
in `[0, 4096)`; the row at `a` shows, at width 16, the word stored NOW in cell `a`; and the address
text is `0x` followed by exactly 3 upper-case hex digits denoting `a`. -/
theorem toyMemTable_wf (t : TSim) (hc : t.s.mem.cfg = toyCfg) (hwf : WF t.s.mem) :
    ∃ rows, toyMemTable t = .ok rows ∧ ∀ row ∈ rows,
      row.addr ∈ t.s.mem.keys ∧ 0 ≤ row.addr ∧ row.addr < 4096 ∧
      Shows 16 row.reprs (t.s.mem.cells row.addr) ∧
      ∃ ds, row.addrText.toList = '0' :: 'x' :: ds ∧ ds.length = 3 ∧
        (∀ c ∈ ds, isUpperHexDigit c) ∧ (ofDigits 16 ds).map Int.ofNat = some row.addr := by
  obtain ⟨l, hl⟩ := toy_sortedEntries_exists t.s.mem hc hwf
  refine ⟨_, toyMemTable_of_ok hl, fun row hrow => ?_⟩
  obtain ⟨p, hp, rfl⟩ := mem_map_toyRow hrow
  obtain ⟨hk, h0, h1, hv⟩ := toy_sortedEntries_cell hc hwf hl p hp
  have hcb : t.s.mem.cfg.cellBits ≤ 16 := by rw [hc]; decide
  obtain ⟨_, hlt⟩ := sortedEntries_read hl hcb p hp
  have hsh : Shows 16 (toyRow t p).reprs p.2 := nBitRepr_shows_lt 16 (by decide) p.2 hlt
  obtain ⟨ds, hds, hval, hup, hlen⟩ := addrText_shows 3 (by decide) p.1
  have h3 : ds.length = 3 := hlen (by omega)
  refine ⟨hk, h0, h1, ?_, ds, hds, h3, hup, ?_⟩
  · show Shows 16 (toyRow t p).reprs (t.s.mem.cells p.1)
    rw [← hv]; exact hsh
  · rw [hval]; simp only [Option.map_some, Option.some.injEq]
    show ((p.1.toNat : Nat) : Int) = p.1
    omega

-- non-vacuity: data words at 6 and 5 written first (descending), then `LDA 5; ADD 6; STO 7` at 0..2,
-- first cycle of the first instruction executed: rows ascending, instruction text exactly on the rows
-- 0..2 = max_pc, the cycle mark "1" on row 0 only
example : exToy.s.mem.keys = [6, 5, 0, 1, 2] ∧ exToy.s.maxPc = some 2 ∧ exToy.s.addrCur = some 0 ∧
    exToy.nextCycle = 2 := ⟨exToy_keys, exToy_state.1, exToy_state.2.1, exToy_state.2.2.1⟩
example : toyMemTable exToy = .ok
    [⟨0, "0x000", ⟨"00010000 00000101", "4101", "10 05", "4101"⟩, "LDA 0x005", "1"⟩,
     ⟨1, "0x001", ⟨"00110000 00000110", "12294", "30 06", "12294"⟩, "ADD 0x006", ""⟩,
     ⟨2, "0x002", ⟨"00000000 00000111", "7", "00 07", "7"⟩, "STO 0x007", ""⟩,
     ⟨5, "0x005", ⟨"00000000 00000001", "1", "00 01", "1"⟩, "-", ""⟩,
     ⟨6, "0x006", ⟨"11111111 11111111", "65535", "FF FF", "-1"⟩, "-", ""⟩] := by
  rw [toyMemTable_of_ok (sortedEntries_of_ok exToy_entries), exToy_sorted]
  exact congrArg Except.ok (by decide)
example : exToy.s.mem.cfg = toyCfg ∧ WF exToy.s.mem :=
  MemOk_call _ .first (MemOk_loadImage _ _ _)

/-! ## 5  The hypotheses hold in every reachable state -/

/-- TOY: the memory of a freshly loaded program image has the TOY configuration and is well-formed,
and every call of the stepping API (first cycle, second cycle, step, single step) and `run` keep it
so.  Hence `toyMemTable_wf` applies to every state reached by an arbitrary program. -/
theorem toy_memory_invariant :
    (∀ (t : TSim) instrs data,
      (loadImage t instrs data).s.mem.cfg = toyCfg ∧ WF (loadImage t instrs data).s.mem) ∧
    (∀ (t : TSim) c, (t.s.mem.cfg = toyCfg ∧ WF t.s.mem) →
      ((call t c).t.s.mem.cfg = toyCfg ∧ WF (call t c).t.s.mem)) ∧
    (∀ n (t : TSim), (t.s.mem.cfg = toyCfg ∧ WF t.s.mem) →
      ((Toy.run n t).s.mem.cfg = toyCfg ∧ WF (Toy.run n t).s.mem)) :=
  ⟨MemOk_loadImage, fun t c h => MemOk_call t c h, fun n t h => MemOk_run n t h⟩

/-- RISC-V: in every state satisfying the invariant `StOK` of the single-cycle simulation (flat byte
memory, 32-bit register values; established at load and preserved by every step,
`C01.invariant_preserved`) the register table shows exactly the register values and the data-memory
table exists with the properties of `dataTable_riscv`. -/
theorem riscv_tables_reachable (s : Rv.St) (hs : ArchSim.Lemmas.C01.StOK s) :
    (∀ r, r < 32 → ∃ row, (regTable s.regs)[r]? = some row ∧ Shows 32 row (s.regs r)) ∧
    ∃ rows, dataTable s.mem.backing = .ok rows ∧
      (rows.map (·.addr)).Pairwise (· < ·) ∧
      (∀ a, a ∈ rows.map (·.addr) ↔ a % 4 = 0 ∧ ∃ i : Nat, i < 4 ∧ a + (i : Int) ∈ s.mem.backing.keys) ∧
      ∀ row ∈ rows, Shows 32 row.reprs (s.mem.backing.cells row.addr
        + s.mem.backing.cells (row.addr + 1) * 256 + s.mem.backing.cells (row.addr + 2) * 65536
        + s.mem.backing.cells (row.addr + 3) * 16777216) := by
  obtain ⟨m, hm, hc, hwf⟩ := hs.flat
  have hb : s.mem.backing = m := by rw [hm]; rfl
  rw [hb]
  refine ⟨fun r hr => ?_, ?_⟩
  · obtain ⟨row, h1, _, h3⟩ := regTable_shows s.regs r hr
    exact ⟨row, h1, h3 (hs.regs_lt r)⟩
  · obtain ⟨rows, hrows, hall⟩ := dataTable_riscv m hc hwf
    refine ⟨rows, hrows, (dataTable_ascending m rows hrows).1, fun a => ?_, fun row hrow => ?_⟩
    · exact dataTable_addresses_bytes m rows hrows (by rw [hc]; rfl) a
    · exact (hall row hrow).2.2.2.1

end ArchSim.Props.C17Views
