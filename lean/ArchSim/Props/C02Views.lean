/-
C02, the REPORTED counters — the counter lines of `get_performance_metrics_str()` as modelled by `SimViews.metricsLines`
(`Model/SimViews.lean`; the driver renders them and the check compares them with the real text after every snapshot).

`C02Main.pipe_equals_single_cycle` proves that the two modes end with equal retired-instruction, taken-branch and
procedure-call COUNTERS.  A user reads them in the metrics text.  The theorems here say that every counter line is its
label followed by decimal digits that read back as the counter (independent digit reader, `Spec/Digits.lean`), and — composed
with the main theorem — that a five-stage run and the single-cycle run of the same program DISPLAY the same three lines.
Property theorems only; helper lemmas are in `Lemmas/SimViews.lean`.
-/
import ArchSim.Lemmas.SimViews
import ArchSim.Props.C02Main

namespace ArchSim.Props.C02Views
open ArchSim ArchSim.Rv ArchSim.Pipe ArchSim.SimViews ArchSim.Spec.Digits ArchSim.Lemmas.SimViews

/-- A metrics line: the label, decimal digits that denote `v`, and the given trailer. -/
def LineShows (line label : String) (v : Nat) (trailer : String) : Prop :=
  ∃ ds : List Char, line = label ++ String.ofList ds ++ trailer ∧ ofDigits 10 ds = some v

/-- The six counter lines, in the order they are printed, each denoting its counter of the state. -/
theorem metrics_report (s : St) :
    ∃ l1 l2 l3 l4 l5 l6, metricsLines s = [l1, l2, l3, l4, l5, l6] ∧
      LineShows l1 "instructions: " s.instrs " " ∧ LineShows l2 "branches: " s.branches "" ∧
      LineShows l3 "procedures: " s.procs "" ∧ LineShows l4 "cycles: " s.cycles "" ∧
      LineShows l5 "stalls: " s.stalls "" ∧ LineShows l6 "flushes: " s.flushes "" := by
  have d := fun n => ArchSim.Lemmas.C17.ofDigits_natStr 10 (by decide) (by decide) n
  exact ⟨_, _, _, _, _, _, rfl, ⟨_, rfl, d _⟩, ⟨_, by simp, d _⟩, ⟨_, by simp, d _⟩, ⟨_, by simp, d _⟩,
    ⟨_, by simp, d _⟩, ⟨_, by simp, d _⟩⟩

/-- The first three lines depend on the three architectural counters only. -/
theorem counter_lines_eq (s t : St) (h1 : s.instrs = t.instrs) (h2 : s.branches = t.branches) (h3 : s.procs = t.procs) :
    (metricsLines s).take 3 = (metricsLines t).take 3 := by
  simp [metricsLines, h1, h2, h3]

/-- DISPLAYED equivalence (C02).  Under the hypotheses of `pipe_equals_single_cycle`: when the five-stage loop with hazard
    detection stops after `n` cycles without a fault, the single-cycle loop stops after some `k ≤ n` steps and the metrics
    text of the two final states shows the same `instructions`, `branches` and `procedures` lines. -/
theorem displayed_counters_equal (prog : List Instr) (hP : ProgWF prog) (st : St)
    (hS : SOK prog st) (hx : st.exitCode = none) (n : Nat)
    (hr : runOK n (PSt.init st true))
    (hd : isDone (pipeRun n (PSt.init st true)) = true)
    (hprev : ∀ m, m < n → isDone (pipeRun m (PSt.init st true)) = false) :
    ∃ k, k ≤ n ∧ singleDone (singleRun k st) = true ∧
      (metricsLines (pipeRun n (PSt.init st true)).st).take 3 =
      (metricsLines (singleRun k st)).take 3 := by
  obtain ⟨k, hk, _, h2, _, _, _, _, h7, h8, h9, _⟩ :=
    ArchSim.Props.C02Main.pipe_equals_single_cycle prog hP st hS hx n hr hd hprev
  exact ⟨k, hk, h2, counter_lines_eq _ _ h7 h8 h9⟩

/-! ### non-vacuity -/
example : metricsLines { Asm.freshSt with instrs := 4, branches := 1, procs := 1, cycles := 14, stalls := 1, flushes := 2 } =
    ["instructions: 4 ", "branches: 1", "procedures: 1", "cycles: 14", "stalls: 1", "flushes: 2"] := by decide

end ArchSim.Props.C02Views
