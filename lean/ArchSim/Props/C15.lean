import ArchSim.Model.Asm
namespace ArchSim.Props.C15
open ArchSim.PP
/-- Line numbers are positive: an empty text has no lines. -/
theorem splitLines_nil : splitLines [] = [] := by
  simp [splitLines, splitLines.go]
end ArchSim.Props.C15
