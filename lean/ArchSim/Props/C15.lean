/-
C15 — Loading a program either succeeds or fails with a parser error that names an existing line
of the text (or with the dedicated memory error); loading terminates; every run-time failure is
reported with the address and the instruction that failed.

Models: `Model/Asm.lean` (`Asm.load`), `Model/ToyAsm.lean` (`ToyAsm.load`), `Model/PP.lean`
(`splitLines`, `pyStrip`, the scanners), `Model/Rv.lean` (`singleStep`), `Model/Pipe.lean`
(`Pipe.step`), `Model/Sim.lean` (`Sim.step`).

In the models every exception the Python can raise is a value of the error type (`AsmErr`,
`Rv.Fault`); there is no constructor for "any other exception".  The theorems below are the
quantitative content: *which* line a parser error names, *which* kinds occur, *where* the memory
error comes from, that the fuel of the two fuel-driven scanners never runs out, and *which*
address / instruction a run-time fault carries.

Helper definitions (in `Lemmas/C15*.lean`):
* `LatchOK im l` — a non-empty latch `l` holds the instruction that `im` stores at its address;
* `ImemOK im` — at most 4096 instructions and, if there is an instruction cache, the C11 invariant;
* `PipeOK p` — `ImemOK` and `LatchOK` for the five pipeline registers and the two registers preserved
  during a stall;
* `FetchOK s` — the fetch at `pc` returns the instruction stored there;
* `FaultFits regs i f` — the fault `f` is one that instruction `i` can raise.
-/
import ArchSim.Lemmas.C15Toy
import ArchSim.Lemmas.C15Outcomes
import ArchSim.Lemmas.C15Fuel
import ArchSim.Lemmas.C15Pipe
import ArchSim.Lemmas.C15Examples

namespace ArchSim.Props.C15
open ArchSim ArchSim.PP ArchSim.Rv ArchSim.Lemmas.C15

/-! ### 1, 2. A parser error names an existing line -/

/-- `_sanitize` (shared by both assemblers): every sanitized line is `(k, l)` where `k` is the 1-based
    index of a line of `text.splitlines()` and `l` is that line with its trailing comment removed,
    stripped; the line numbers are strictly increasing (so no line is reported twice). -/
theorem sanitize_spec (text : String) :
    (∀ k l, (k, l) ∈ Asm.sanitize text →
      1 ≤ k ∧ k ≤ (splitLines text.toList).length ∧
      ∃ raw, (splitLines text.toList)[k - 1]? = some raw ∧ l = pyStrip (raw.takeWhile (· != '#'))) ∧
    ((Asm.sanitize text).map Prod.fst).Pairwise (· < ·) ∧
    ToyAsm.sanitize text = Asm.sanitize text :=
  ⟨fun _ _ h => sanitize_mem' h, sanitize_sorted text, rfl⟩

/-- RISC-V: whatever the text and the state, a parser error of `load_program` carries a line number
    `k` with `1 ≤ k ≤ number of lines of the text`, and its `line` field is exactly line `k` of the
    text with the comment removed and stripped. -/
theorem riscv_error_line_exists (s : St) (text kind : String) (k : Nat) (line : String)
    (h : (Asm.load s text).err = some (.parser kind k line)) :
    1 ≤ k ∧ k ≤ (splitLines text.toList).length ∧
    ∃ raw, (splitLines text.toList)[k - 1]? = some raw ∧
      line = String.ofList (pyStrip (raw.takeWhile (· != '#'))) := by
  rcases load_err_shape s text h with ⟨k', line', kind', hsrc, _, he⟩ | ⟨a, he⟩
  · cases he; exact hsrc.lineOf
  · cases he

/-- TOY: the same for `ToySimulation.load_program`. -/
theorem toy_error_line_exists (t : ArchSim.Toy.TSim) (text kind : String) (k : Nat) (line : String)
    (h : (ToyAsm.load t text).2 = some (.parser kind k line)) :
    1 ≤ k ∧ k ≤ (splitLines text.toList).length ∧
    ∃ raw, (splitLines text.toList)[k - 1]? = some raw ∧
      line = String.ofList (pyStrip (raw.takeWhile (· != '#'))) := by
  rcases Toy.load_err_shape t text h with ⟨k', line', kind', hsrc, _, he⟩ | ⟨he, _⟩
  · cases he; exact hsrc.lineOf
  · cases he

/-! ### 3. The possible outcomes of loading -/

/-- RISC-V: loading succeeds, or fails with a parser error of one of exactly eight kinds, or with
    the memory-address error. -/
theorem load_outcomes_riscv (s : St) (text : String) :
    (Asm.load s text).err = none ∨
    (∃ kind k line, (Asm.load s text).err = some (.parser kind k line) ∧
      kind ∈ ["ParserSyntaxException", "ParserDirectiveException", "ParserDataSyntaxException",
              "ParserDataDuplicateException", "ParserVariableException", "DuplicateLabelException",
              "ParserLabelException", "ParserOddImmediateException"]) ∨
    (∃ a, (Asm.load s text).err = some (.memAddr a)) := by
  cases h : (Asm.load s text).err with
  | none => exact .inl rfl
  | some e =>
    rcases load_err_shape s text h with ⟨k, line, kind, _, hk, he⟩ | ⟨a, he⟩
    · exact .inr (.inl ⟨kind, k, line, by rw [he], hk⟩)
    · exact .inr (.inr ⟨a, by rw [he]⟩)

/-- RISC-V, origin of the memory error (data memory configured as `RiscvArchitecturalState` does):
    tokenizing and segmenting succeeded, and either the data pass failed on a direct write whose
    32-bit-wrapped address `a` lies below the data range (`0 ≤ a < 16384`), or all passes succeeded
    and the program has more than 4096 instructions (`a = 16384`, the first address past the
    instruction memory). -/
theorem riscv_memory_error_origin (s : St) (text : String) (a : Int)
    (hcfg : s.mem.backing.cfg = Mem.riscvCfg)
    (h : (Asm.load s text).err = some (.memAddr a)) :
    ∃ toks data text', Asm.tokenize (Asm.sanitize text) = .ok toks ∧ Asm.segment toks = .ok (data, text') ∧
      ∃ d, d = Asm.writeData data { mem := s.mem.reset, vars := [], ctr := 16384, err := none } ∧
        ((d.err = some (.memAddr a) ∧ 0 ≤ a ∧ a < 16384) ∨
         (d.err = none ∧ a = 16384 ∧
           ∃ expanded pending ls instrs,
             Asm.expandAll d.vars
               (text'.map (fun (x : Asm.Entry) => ((x.1, x.2.1, x.2.2.item) : Asm.TEntry))) = .ok expanded ∧
             Asm.processLabels expanded pending [] 0 = .ok ls ∧
             Asm.buildInstrs ls expanded 0 = .ok instrs ∧ instrs.length > 4096)) :=
  load_memAddr_origin s text hcfg h

/-- TOY: loading succeeds, or fails with a parser error of one of exactly five kinds, or with the
    memory-size error `MemorySizeError(4096)`; the latter only when the declared data words alone, or
    data words plus instructions, exceed the 4096 words of memory.  (`memAddr` never occurs.) -/
theorem load_outcomes_toy (t : ArchSim.Toy.TSim) (text : String) :
    (ToyAsm.load t text).2 = none ∨
    (∃ kind k line, (ToyAsm.load t text).2 = some (.parser kind k line) ∧
      kind ∈ ["ParserSyntaxException", "ParserDirectiveException", "DuplicateLabelException",
              "ParserDataSyntaxException", "ParserLabelException"]) ∨
    ((ToyAsm.load t text).2 = some (.memSize 4096) ∧
      ∃ toks data text', ToyAsm.tokenize (ToyAsm.sanitize text) = .ok toks ∧
        ToyAsm.segment toks = .ok (data, text') ∧
        (4096 < Toy.dataWords data ∨
         ∃ ls is, ToyAsm.buildInstrs text' ls = .ok is ∧ 4096 < Toy.dataWords data + is.length)) := by
  cases h : (ToyAsm.load t text).2 with
  | none => exact .inl rfl
  | some e =>
    rcases Toy.load_err_shape t text h with ⟨k, line, kind, _, hk, he⟩ | ⟨he, horigin⟩
    · exact .inr (.inl ⟨kind, k, line, by rw [he], hk⟩)
    · exact .inr (.inr ⟨by rw [he], horigin⟩)

/-! ### 4. Loading terminates -/

/-- The models are total functions (Lean's termination checker accepts every definition). The only places where
    termination is bought with fuel are the comma-separated value lists (`pMoreImms`, `pMoreValues`)
    and the body of a quoted string (`quotedBody`); they are called with fuel = remaining input length
    (`+ 1`).  With that much fuel it never runs out: any amount of extra fuel gives the same result. -/
theorem totality :
    (∀ (fuel extra : Nat) (i : Inp) (acc : List Int), i.length ≤ fuel →
      Asm.pMoreImms (fuel + extra) i acc = Asm.pMoreImms fuel i acc) ∧
    (∀ (fuel extra : Nat) (i : Inp) (acc : List String), i.length ≤ fuel →
      ToyAsm.pMoreValues (fuel + extra) i acc = ToyAsm.pMoreValues fuel i acc) ∧
    (∀ (q : Char) (fuel extra : Nat) (i : Inp) (acc : List Char), i.length ≤ fuel →
      Asm.quotedBody q (fuel + extra) i acc = Asm.quotedBody q fuel i acc) :=
  ⟨fun fuel extra i acc h => pMoreImms_fuel_add fuel extra i acc h,
   fun fuel extra i acc h => pMoreValues_fuel_add fuel extra i acc h,
   fun q fuel extra i acc h => quotedBody_fuel_add q fuel extra i acc h⟩

/-! ### 5. Run-time failures, single-stage mode -/

/-- Whenever `singleStep` reports a fault `(a, f)`, `a` is the program counter of the step and an
    instruction is stored there. No hypothesis on the state. -/
theorem single_fault_at_pc (s : St) (a : Int) (f : Fault) (h : (singleStep s).fault = some (a, f)) :
    a = s.pc ∧ ∃ i, s.imem.instrAt a = some i :=
  singleStep_fault_pc h

/-- `RiscvSimulation.step()` in single-stage mode raises exactly when the simulation is not done and
    the single-cycle step faults; the `InstructionExecutionException` then carries the program
    counter of the step, the instruction stored at that address (it exists), and the fault. -/
theorem runtime_error_typed_single (sim : Sim.RSim) (h5 : sim.five = false) (a : Int)
    (oi : Option Instr) (f : Fault) :
    (Sim.step sim).fault = some (a, oi, f) ↔
      (Sim.isDone sim = false ∧ (singleStep sim.p.st).fault = some (a, f) ∧ a = sim.p.st.pc ∧
        ∃ i, oi = some i ∧ sim.p.st.imem.instrAt a = some i) := by
  rw [simStep_single_fault h5]
  constructor
  · rintro ⟨hd, hf, ho⟩
    obtain ⟨hpc, i, hi⟩ := singleStep_fault_pc hf
    exact ⟨hd, hf, hpc, i, by rw [ho, hi], hi⟩
  · rintro ⟨hd, hf, _, i, ho, hi⟩
    exact ⟨hd, hf, by rw [ho, hi]⟩

/-- The kind of the fault fits the instruction at `pc` (when the fetch returns that instruction):
    not-implemented only for `ebreak`/`fence`; unmodelled only for the CSR instructions; an invalid
    ecall code only for `ecall`, the code being `a7` and not one of the nine service codes; a memory
    error only for loads, stores and the print-string ecall. -/
theorem runtime_error_kind_single (s : St) (a : Int) (f : Fault) (i : Instr) (hf : FetchOK s)
    (hi : s.imem.instrAt s.pc = some i) (h : (singleStep s).fault = some (a, f)) :
    match f with
    | .notImplemented => i.op = .ebreak ∨ i.op = .fence
    | .unmodelled => i.op.ty = .csr ∨ i.op.ty = .csri
    | .ecallCode c => i.op = .ecall ∧ c = s.regs 17 ∧ c ∉ [1, 2, 4, 11, 34, 35, 36, 10, 93]
    | .mem _ => i.op.ty = .memI ∨ i.op.ty = .s ∨ (i.op = .ecall ∧ s.regs 17 = 4) := by
  have := singleStep_fault_fits hf hi h
  cases f <;> exact this

/-- `FetchOK` holds for the instruction memories the loader produces: uncached with at most 4096
    instructions, or cached under the C11 invariant. -/
theorem fetchOK_of_loader (s : St) (hl : s.imem.prog.length ≤ 4096)
    (hc : ∀ c, s.imem.cache = some c → ArchSim.Lemmas.C11.IInv s.imem c) : FetchOK s := by
  cases hcache : s.imem.cache with
  | none => exact fetchOK_uncached hcache hl
  | some c => exact fetchOK_cached hcache (hc c hcache) hl

/-! ### 6. Run-time failures, five-stage mode -/

/-- Whenever `Pipeline.step` raises in five-stage mode, the reported address and instruction are
    those of the *input* register of the stage that raised: the EX stage (input `exInput p`: the ID/EX
    register, or the preserved one during a stall) or, if EX did not raise, the MEM stage (input
    `memInput p`).  The fault is a memory-system error or, in EX for an `ecall`, an invalid code. -/
theorem runtime_error_typed_five (p : Pipe.PSt) (f : Pipe.PFault) (h : (Pipe.step p).fault = some f) :
    (∃ d, Pipe.exInput p = some d ∧ f.addr = d.addr ∧ f.instr = d.instr ∧
      (Pipe.exStage (exState p) (Pipe.exInput p) p.l2 p.l3).fault = some f ∧
      ((∃ e, f.fault = .mem e) ∨ (∃ c, f.fault = .ecallCode c ∧ f.instr.op = .ecall))) ∨
    (∃ e, Pipe.memInput p = some e ∧ f.addr = e.addr ∧ f.instr = e.instr ∧
      (Pipe.exStage (exState p) (Pipe.exInput p) p.l2 p.l3).fault = none ∧
      (Pipe.memStage (Pipe.exStage (exState p) (Pipe.exInput p) p.l2 p.l3).st (Pipe.memInput p)).fault = some f ∧
      ∃ e', f.fault = .mem e') := by
  rcases step_fault_cases h with h1 | ⟨h0, h2⟩
  · obtain ⟨d, hd, ha, hi⟩ := exStage_fault h1
    refine .inl ⟨d, hd, ha, hi, h1, ?_⟩
    rcases exStage_fault_kind h1 with hk | ⟨c, hc, hop, _⟩
    · exact .inl hk
    · exact .inr ⟨c, hc, hop⟩
  · obtain ⟨e, he, ha, hi⟩ := memStage_fault h2
    exact .inr ⟨e, he, ha, hi, h0, h2, memStage_fault_kind h2⟩

/-- `RiscvSimulation.step()` in five-stage mode raises exactly when the simulation is not done and
    `Pipeline.step` raises, and reports that fault's address, instruction and kind. -/
theorem runtime_error_reported_five (sim : Sim.RSim) (h5 : sim.five = true) (a : Int)
    (oi : Option Instr) (f : Fault) :
    (Sim.step sim).fault = some (a, oi, f) ↔
      (Sim.isDone sim = false ∧ ∃ pf, (Pipe.step sim.p).fault = some pf ∧ a = pf.addr ∧
        oi = some pf.instr ∧ f = pf.fault) :=
  simStep_five_fault h5

/-- The latch invariant holds initially (empty pipeline) … -/
theorem latch_invariant_init (st : St) (hazard : Bool) (h : ImemOK st.imem) :
    PipeOK (Pipe.PSt.init st hazard) :=
  init_ok h hazard

/-- … the loader establishes its instruction-memory part (whatever the text, also when loading
    fails), provided the cache configuration suits the policy … -/
theorem loader_establishes_imemOK (s : St) (text : String)
    (hc : ∀ c, s.imem.cache = some c → ArchSim.Lemmas.C09.AssocOK c.isLru c.geo.assoc) :
    ImemOK (Asm.load s text).st.imem :=
  load_imemOK s text hc

/-- … and every `Pipeline.step` preserves it, for all five pipeline registers and the registers
    preserved during a stall — also when the step raises. -/
theorem latch_invariant_step (p : Pipe.PSt) (h : PipeOK p) : PipeOK (Pipe.step p).p :=
  step_ok h

/-- Hence, in every state reached from an empty pipeline by any number of steps, a raised fault
    carries an address and the instruction stored at that address. -/
theorem runtime_error_instr_at_addr_five (st : St) (hazard : Bool) (h : ImemOK st.imem) (n : Nat)
    (f : Pipe.PFault) (hf : (Pipe.step (pipeRun n (Pipe.PSt.init st hazard))).fault = some f) :
    (pipeRun n (Pipe.PSt.init st hazard)).st.imem.instrAt f.addr = some f.instr :=
  step_fault_instrAt (pipeRun_ok (init_ok h hazard) n) hf

/-- The same for any state that satisfies the invariant. -/
theorem runtime_error_instr_at_addr_five_inv (p : Pipe.PSt) (h : PipeOK p) (f : Pipe.PFault)
    (hf : (Pipe.step p).fault = some f) : p.st.imem.instrAt f.addr = some f.instr :=
  step_fault_instrAt h hf

/-! ### Non-vacuity -/

/-- A three-line text whose second line cannot be tokenized: both loaders report line 2 and the
    line without its comment, stripped. -/
example : Ex.exText = "# demo\n  foo bar # c\nnop" := rfl
example (s : St) : (Asm.load s Ex.exText).err = some (.parser "ParserSyntaxException" 2 "foo bar") :=
  Ex.ex_load s
example (t : ArchSim.Toy.TSim) :
    (ToyAsm.load t Ex.exText).2 = some (.parser "ParserSyntaxException" 2 "foo bar") :=
  Ex.toy_ex_load t
/-- … and that is what `riscv_error_line_exists` predicts: line 2 of 3 is `"  foo bar # c"`. -/
example : (splitLines Ex.exText.toList).length = 3 ∧
    (splitLines Ex.exText.toList)[2 - 1]? = some "  foo bar # c".toList ∧
    String.ofList (pyStrip ("  foo bar # c".toList.takeWhile (· != '#'))) = "foo bar" := by decide
/-- The sanitized lines of the example: the comment line is dropped, numbering is that of the text. -/
example : Asm.sanitize Ex.exText = [(2, "foo bar".toList), (3, "nop".toList)] := Ex.ex_sanitize

/-- The state the memory-error theorem is about: the data memory of `RiscvArchitecturalState`. -/
example : Asm.freshSt.mem.backing.cfg = Mem.riscvCfg := rfl

/-- Fuel: with fuel ≥ input length the whole list is read; with too little fuel the scanner would
    stop early (so the bound in `totality` is not vacuous). -/
example : Asm.pMoreImms 6 ", 1, 2".toList [0] = ([0, 1, 2], []) := by decide
example : Asm.pMoreImms 1 ", 1, 2".toList [0] = ([0, 1], ", 2".toList) := by decide
example : ToyAsm.pMoreValues 9 ", 0x1F, 7".toList ["1"] = (["1", "0x1F", "7"], []) := by decide
example : Asm.quotedBody '"' 6 "a\\\"b\" x".toList [] = ("a\\\"b".toList, "\" x".toList) := by decide

/-- A faulting single step: `lw x1, 0(x0)` at address 0 reads below the data range. -/
example : (singleStep Ex.faultSt).fault = some (0, .mem (.addr 0)) := Ex.single_fault
example : Ex.faultSt.imem.instrAt 0 = some Ex.lwInstr := by decide
example : FetchOK Ex.faultSt := fetchOK_uncached rfl (by decide)
example : (Sim.step { five := false, p := Pipe.PSt.init Ex.faultSt false }).fault
    = some (0, some Ex.lwInstr, .mem (.addr 0)) := by decide

/-- A faulting pipeline step (the MEM stage raises for the `lw` in the EX/MEM register), in a state
    that satisfies the invariant. -/
example : (Pipe.step Ex.faultPipe).fault = some ⟨0, Ex.lwInstr, .mem (.addr 0)⟩ := Ex.pipe_fault
example : PipeOK Ex.faultPipe := by
  have him : ImemOK Ex.faultSt.imem := ⟨by decide, fun c h => by cases h⟩
  refine ⟨him, latchOK_none _, latchOK_none _, ?_, latchOK_none _, latchOK_none _,
    fun _ h => (by cases h), fun _ h => (by cases h)⟩
  intro x hx
  cases hx
  decide

/-- The invariant is a genuine hypothesis: `load_program` resets the two memories but not the
    pipeline registers, so after reloading (here: the empty program, which loads without error) in
    the middle of a run a register still holds an instruction of the *old* program; the fault raised
    for it carries that instruction and its old address, where the new instruction memory stores
    nothing. -/
example : (Sim.load { five := true, p := Ex.faultPipe } "").2 = none ∧
    Ex.reloaded.p.st.imem.prog = [] ∧
    (Pipe.step Ex.reloaded.p).fault = some ⟨0, Ex.lwInstr, .mem (.addr 0)⟩ ∧
    Ex.reloaded.p.st.imem.instrAt 0 = none := Ex.reloaded_stale

end ArchSim.Props.C15
