/-
C11 (program-level clause), end to end: for EVERY source text the assembler accepts and EVERY instruction-cache
configuration, the loaded program gives the same results with the instruction cache as without it, in both pipeline
modes. No `EqC` / `IInv` / `ProgOK` hypothesis is left; the hypotheses about the five-stage RUNS stay.

Property theorems only (plus non-vacuity examples); helper lemmas: `ArchSim/Lemmas/E2E*.lean`.
`s0` = the state before the load; `withICache s0 c` = `s0` with the instruction cache `c`; `s` / `t` = the states
after loading the same text without / with the instruction cache. `load` resets the instruction cache it finds
(`ICache.reset`: same configuration, contents and counters cleared).
-/
import ArchSim.Props.C11Prog
import ArchSim.Props.C04Asm
import ArchSim.Lemmas.E2EICache

namespace ArchSim.Props.C11Asm
open ArchSim ArchSim.Rv ArchSim.Asm ArchSim.Cache ArchSim.Pipe ArchSim.Lemmas.E2E
open ArchSim.Lemmas.C09 ArchSim.Lemmas.C11 ArchSim.Lemmas.C11Prog

/-- START STATES. Loading ANY text into `s0` (no instruction cache) and into `s0` with an instruction cache `c` of an
    admissible associativity (`AssocOK`): same error, same program; the two loaded states agree on everything but
    the instruction cache (`EqC`), the loaded cache is the reset cache `c.reset`, and it satisfies C11's invariant
    `IInv` — the hypotheses of all C11Prog theorems. -/
theorem loaded_icache_state (s0 : St) (hc : s0.imem.cache = none) (c : ICache) (ha : AssocOK c.isLru c.geo.assoc)
    (text : String) :
    (load (withICache s0 c) text).err = (load s0 text).err ∧
    EqC (load s0 text).st (load (withICache s0 c) text).st ∧
    (load s0 text).st.imem.prog = (load (withICache s0 c) text).st.imem.prog ∧
    (load s0 text).st.imem.cache = none ∧
    (load (withICache s0 c) text).st.imem.cache = some c.reset ∧
    IInv (load (withICache s0 c) text).st.imem c.reset := by
  obtain ⟨he, hst⟩ := load_withICache s0 c text
  have hn : (load s0 text).st.imem.cache = none := by rw [load_imem s0 text hc]
  refine ⟨he, ?_, ?_, hn, ?_, ?_⟩
  · rw [hst]; exact ⟨rfl, rfl, rfl, rfl, rfl, rfl, rfl, rfl, rfl, rfl⟩
  · rw [hst]
  · rw [hst]
  · exact ArchSim.Props.C11.inv_init _ c.isLru c.geo c.penalty ha

/-- END TO END (C11Prog B, single-cycle mode). For every accepted text and every number `n` of single-cycle steps:
    instruction cache off versus on, the registers, data memory system, output, exit code, pc and the instruction /
    branch / procedure counters are equal, `is_done()` agrees and the next step raises the same fault (or none).
    No condition on the instructions (CSR forms, `fence`, `ebreak` included). -/
theorem assembled_icache_run_equal (s0 : St) (hc : s0.imem.cache = none) (c : ICache)
    (ha : AssocOK c.isLru c.geo.assoc) (text : String) (s t : St) (hs : s = (load s0 text).st)
    (ht : t = (load (withICache s0 c) text).st) (h : (load s0 text).err = none) (n : Nat) :
    (Lemmas.C11.singleRun n s).regs = (Lemmas.C11.singleRun n t).regs ∧
    (Lemmas.C11.singleRun n s).mem = (Lemmas.C11.singleRun n t).mem ∧
    (Lemmas.C11.singleRun n s).output = (Lemmas.C11.singleRun n t).output ∧
    (Lemmas.C11.singleRun n s).exitCode = (Lemmas.C11.singleRun n t).exitCode ∧
    (Lemmas.C11.singleRun n s).pc = (Lemmas.C11.singleRun n t).pc ∧
    (Lemmas.C11.singleRun n s).instrs = (Lemmas.C11.singleRun n t).instrs ∧
    (Lemmas.C11.singleRun n s).branches = (Lemmas.C11.singleRun n t).branches ∧
    (Lemmas.C11.singleRun n s).procs = (Lemmas.C11.singleRun n t).procs ∧
    singleDone (Lemmas.C11.singleRun n s) = singleDone (Lemmas.C11.singleRun n t) ∧
    (singleStep (Lemmas.C11.singleRun n s)).fault = (singleStep (Lemmas.C11.singleRun n t)).fault := by
  subst hs ht
  obtain ⟨_, h1, h2, h3, h4, h5⟩ := loaded_icache_state s0 hc c ha text
  exact ArchSim.Props.C11Prog.icache_run_equal h1 h2 h3 (load_objs s0 text h).2 h4 h5 n

/-- END TO END (C11Prog C, five-stage mode). For every accepted text (no condition on the instructions): if the
    five-stage loop stops without a fault after `n` cycles without the instruction cache and after `m` cycles with
    it, the final registers, data memory system, output, exit code, retired / branch / procedure counts and pc are
    the same (`SimP`), and the same instruction addresses retire in the same order. -/
theorem assembled_icache_five_stage_results (s0 : St) (hc : s0.imem.cache = none) (hx : s0.exitCode = none)
    (c : ICache) (ha : AssocOK c.isLru c.geo.assoc) (text : String) (s t : St) (hs : s = (load s0 text).st)
    (ht : t = (load (withICache s0 c) text).st) (h : (load s0 text).err = none)
    (n : Nat) (hrn : runOK n (PSt.init s true)) (hdn : isDone (pipeRun n (PSt.init s true)) = true)
    (hpn : ∀ j, j < n → isDone (pipeRun j (PSt.init s true)) = false)
    (m : Nat) (hrm : runOK m (PSt.init t true)) (hdm : isDone (pipeRun m (PSt.init t true)) = true)
    (hpm : ∀ j, j < m → isDone (pipeRun j (PSt.init t true)) = false) :
    SimP (pipeRun n (PSt.init s true)).st (pipeRun m (PSt.init t true)).st ∧
      retireLog n (PSt.init s true) = retireLog m (PSt.init t true) := by
  subst hs ht
  obtain ⟨_, h1, h2, h3, h4, h5⟩ := loaded_icache_state s0 hc c ha text
  obtain ⟨r1, r2, _⟩ := ArchSim.Props.C11Prog.icache_five_stage_results h1 h2 h3 (load_objs s0 text h).2 h4 h5
    (load_pipeProgOK s0 text h) (by rw [load_exitCode]; exact hx) n hrn hdn hpn m hrm hdm hpm
  exact ⟨r1, r2⟩

/-! ### non-vacuity (the example text `asmText` of `Lemmas/E2EEx.lean`; instruction cache: one set, one way,
two-word blocks, LRU, penalty 7 — `exCache1` of `Lemmas/C11ProgPipe.lean`) -/

section
open ArchSim.Lemmas.E2E.Ex

/-- Hypotheses of `loaded_icache_state` / `assembled_icache_run_equal` for the example. -/
example : freshSt.imem.cache = none ∧ freshSt.exitCode = none ∧ AssocOK exCache1.isLru exCache1.geo.assoc ∧
    (load freshSt asmText).err = none :=
  ⟨rfl, rfl, ⟨by decide, fun h => by cases h⟩, load_asmText.1⟩

/-- Hypotheses of `assembled_icache_five_stage_results` for the example: both five-stage loops run 14 fault-free
    calls of `step()` and are done exactly then. -/
example : runOK 14 (PSt.init (load freshSt asmText).st true) ∧
    isDone (pipeRun 14 (PSt.init (load freshSt asmText).st true)) = true ∧
    (∀ j, j < 14 → isDone (pipeRun j (PSt.init (load freshSt asmText).st true)) = false) ∧
    runOK 14 (PSt.init (load (withICache freshSt exCache1) asmText).st true) ∧
    isDone (pipeRun 14 (PSt.init (load (withICache freshSt exCache1) asmText).st true)) = true ∧
    (∀ j, j < 14 → isDone (pipeRun j (PSt.init (load (withICache freshSt exCache1) asmText).st true)) = false) := by
  rw [load_asmText_icache, load_asmText_st]; decide

/-- What the two runs compute: exit code 7 in both; the instruction-cache miss penalties show in the cycle counter
    only (14 cycles without, 35 with the cache). -/
example : (pipeRun 14 (PSt.init (load freshSt asmText).st true)).st.exitCode = some 7 ∧
    (pipeRun 14 (PSt.init (load (withICache freshSt exCache1) asmText).st true)).st.exitCode = some 7 ∧
    (pipeRun 14 (PSt.init (load freshSt asmText).st true)).st.cycles = 14 ∧
    (pipeRun 14 (PSt.init (load (withICache freshSt exCache1) asmText).st true)).st.cycles = 35 := by
  rw [load_asmText_icache, load_asmText_st]; decide

end

end ArchSim.Props.C11Asm
