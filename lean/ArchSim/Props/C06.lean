import ArchSim.Model.Toy
namespace ArchSim.Props.C06
open ArchSim.Toy
/-- Decoding never produces an opcode above 12. -/
theorem decode_opcode_le (w : Nat) : (decode w).opcode ≤ 12 := by
  unfold decode; simp only; split <;> omega
end ArchSim.Props.C06
