/-
C06 — TOY execution matches the reference accumulator machine, including self-modification.

The reference machine is `ArchSim/Spec/ToyRef.lean` (`RefSt`, `refStep`, `refInit`): 4096 × 16-bit
memory, 16-bit accumulator and 12-bit pc as `BitVec`s, one instruction per step, fetched from
memory when executed. The simulator model (`ArchSim/Model/Toy.lean`) keeps a pre-loaded instruction
object and a pre-incremented pc and splits each instruction into two half-cycles.

`abs` (abstraction at instruction boundaries) and `BInv` (boundary invariant: `next_cycle = 1`, TOY
memory configuration, `accu < 2^16`, `pc < 2^12`, and the loaded instruction — if any — is the
decoding of the *current* memory word at `pc − 1`) are defined in `ArchSim/Lemmas/ToyRefine.lean`.
`stepT t = (stepCall t).t` is the state after `step()`, `iter f n` is `n`-fold iteration.

Finding on the "stale instruction register" question: there is no divergence. The instruction
register is reloaded in the *second* half-cycle, after the store of the first half-cycle, and
nothing writes memory between that reload and the execution of the reloaded instruction; so at
every instruction boundary the register equals the decoding of the current memory word (this is
the last clause of `BInv`, proved invariant in `toy_refines`). The invariant is necessary, not an
artefact: see the `example` after `toy_refines` (a state whose register disagrees with memory
does *not* refine the reference machine).

Property theorems only.
-/
import ArchSim.Lemmas.ToyCorollaries

namespace ArchSim.Props.C06
open ArchSim ArchSim.Toy ArchSim.ToyRef

/-- Refinement. From any instruction-boundary state satisfying `BInv`, for every number `n` of
    `step()` calls: the abstraction of the simulator state equals `n` steps of the reference
    machine from the abstraction of the start state (accumulator, pc, whole memory, `maxPc`,
    halted flag, instruction/cycle/branch counters); the invariant still holds (in particular the
    instruction register is never stale); `is_done()` is the reference machine's `halted`; and none
    of the `step()` calls raises. No bound on `n`, the program or the memory image. -/
theorem toy_refines (t : TSim) (h : BInv t) (n : Nat) :
    abs (iter stepT n t) = iter refStep n (abs t) ∧
    BInv (iter stepT n t) ∧
    isDone (iter stepT n t) = (iter refStep n (abs t)).halted ∧
    (stepCall (iter stepT n t)).err = false := by
  have h1 := iter_refines h n
  have h2 := BInv_iter h n
  refine ⟨h1, h2, ?_, ?_⟩
  · rw [← h1]; rfl
  · rw [stepCall_boundary h2.1]

/-- Non-vacuity: the self-modifying `demoSelfMod` (`LDA 4; STO 2; NOP; NOP`, `mem[4] = 0x9000`) satisfies `BInv`; after three steps the overwritten
    instruction has executed as `INC` (accumulator `0x9001`), and after four it is done. -/
example : BInv demoSelfMod ∧ (iter stepT 3 demoSelfMod).s.accu = 0x9001 ∧ isDone (iter stepT 3 demoSelfMod) = false ∧
    isDone (iter stepT 4 demoSelfMod) = true := by decide

/-- The invariant is needed: a boundary state whose instruction register (`INC`) disagrees with
    the memory word it was supposedly loaded from (`NOP`) takes a step that the reference machine
    does not take. Such a state is unreachable through the API (by `toy_refines`). -/
example : ∃ t : TSim, t.nextCycle = 1 ∧ ¬ BInv t ∧ (abs (stepT t)).accu ≠ (refStep (abs t)).accu :=
  ⟨{ s := { (loadImage {} [⟨12, 0⟩] []).s with loaded := some ⟨9, 0⟩ } }, by decide⟩

/-- One step, spelled out (the case `n = 1` of `toy_refines` without iteration): one `step()` of
    the simulator is one instruction of the reference machine. -/
theorem toy_step_refines (t : TSim) (h : BInv t) :
    abs (stepCall t).t = refStep (abs t) ∧ BInv (stepCall t).t ∧ (stepCall t).err = false :=
  ⟨(step_refines h).1, (step_refines h).2, by rw [stepCall_boundary h.1]⟩

/-- Programs. For every instruction list of at most 4096 instructions whose first element is a
    proper instruction object (opcode ≤ 12, address < 4096 — what the assembler constructs) and
    every list of data words, loaded into a simulation object at a boundary: the loaded state
    satisfies `BInv`, its abstraction is the reference machine's initial state `refInit`
    (accumulator 0, pc 0, instruction `k` at address `k` over the data words, halted iff the
    program is empty), and therefore `n` calls of `step()` — or `run()` with fuel `n` — end in a
    state whose abstraction is `n` reference steps from `refInit`. -/
theorem toy_refines_program (t0 : TSim) (instrs : List TInstr) (data : List (Nat × Nat))
    (h1 : t0.nextCycle = 1) (hlen : instrs.length ≤ 4096)
    (hhead : ∀ i, instrs.head? = some i → i.opcode ≤ 12 ∧ i.addr < 4096) (n : Nat) :
    BInv (loadImage t0 instrs data) ∧
    abs (loadImage t0 instrs data) = refInit instrs.length (fun k => encode (instrs.getD k default)) data ∧
    abs (iter stepT n (loadImage t0 instrs data))
      = iter refStep n (refInit instrs.length (fun k => encode (instrs.getD k default)) data) ∧
    abs (run n (loadImage t0 instrs data))
      = iter refStep n (refInit instrs.length (fun k => encode (instrs.getD k default)) data) := by
  have hb := BInv_loadImage t0 h1 instrs data hlen hhead
  have ha := abs_loadImage t0 instrs data hlen
  have hr := iter_refines hb n
  rw [ha] at hr
  exact ⟨hb, ha, hr, by rw [run_eq_iter_all hb.1, hr]⟩

/-- Non-vacuity: `demoSelfMod` is such a load. -/
example : demoSelfMod = loadImage {} [⟨1, 4⟩, ⟨0, 2⟩, ⟨12, 0⟩, ⟨12, 0⟩] [(4, 0x9000)] ∧
    ([⟨1, 4⟩, ⟨0, 2⟩, ⟨12, 0⟩, ⟨12, 0⟩] : List TInstr).length ≤ 4096 := ⟨rfl, by decide⟩

/-- Counters. From any boundary state, across any number `n` of `step()` calls: a step on a
    running simulation counts exactly one instruction and two cycles, a step on a finished one
    changes nothing; hence the cycles added are exactly twice the instructions added, at most `n`
    instructions are added, and exactly `n` if the simulation is still running after them. -/
theorem cycles_two_per_instruction (t : TSim) (h1 : t.nextCycle = 1) (n : Nat) :
    (isDone t = false → (stepT t).s.instrs = t.s.instrs + 1 ∧ (stepT t).s.cycles = t.s.cycles + 2) ∧
    (isDone t = true → stepT t = t) ∧
    (iter stepT n t).s.cycles + 2 * t.s.instrs = t.s.cycles + 2 * (iter stepT n t).s.instrs ∧
    t.s.instrs ≤ (iter stepT n t).s.instrs ∧ (iter stepT n t).s.instrs ≤ t.s.instrs + n ∧
    (isDone (iter stepT n t) = false → (iter stepT n t).s.instrs = t.s.instrs + n) := by
  have ⟨a, b, c⟩ := iter_counters h1 n
  exact ⟨(stepT_counters h1).1, (stepT_counters h1).2, c, a, b, iter_instrs_running h1 n⟩

example : (iter stepT 9 demoSelfMod).s.instrs = 4 ∧ (iter stepT 9 demoSelfMod).s.cycles = 8 := by decide

/-- Stores into the program area change what executes next: if the loaded instruction is `STO a`
    with `a` the address of the next instruction (and that address is still inside the program),
    then after the step the loaded instruction is the decoding of the accumulator, not of the old
    memory word. (The general statement — every fetch sees all earlier stores — is the refinement
    itself, since `refStep` fetches from memory.) -/
theorem store_seen_by_next_fetch (t : TSim) (h : BInv t) (i : TInstr) (hl : t.s.loaded = some i)
    (hop : i.opcode = 0) (haddr : i.addr = t.s.pc) (hin : (t.s.pc : Int) ≤ t.s.maxPc.getD (-1)) :
    (stepCall t).t.s.loaded = some (decode t.s.accu) :=
  sto_next h hl hop haddr hin

/-- Non-vacuity: after one step `demoSelfMod` is exactly in this situation, and the `NOP` at address 2
    is replaced by `INC` in the instruction register. -/
example : let t := stepT demoSelfMod
    BInv t ∧ t.s.loaded = some ⟨0, 2⟩ ∧ t.s.pc = 2 ∧ (t.s.pc : Int) ≤ t.s.maxPc.getD (-1) ∧
    (stepT t).s.loaded = some ⟨9, 0⟩ := by decide

/-- The reference machine's documented effects on sample values (sanity of the specification):
    ADD and INC wrap at 2^16, SUB and DEC wrap below 0, NOT is the 16-bit complement, opcodes 12–15
    do nothing, and the pc wraps at 2^12. -/
example : alu 3 0xFFFF 2 = 1 ∧ alu 9 0xFFFF 0 = 0 ∧ alu 4 0 1 = 0xFFFF ∧ alu 10 0 0 = 0xFFFF ∧
    alu 8 0x00FF 0 = 0xFF00 ∧ alu 12 7 9 = 7 ∧ alu 15 7 9 = 7 ∧ (0xFFF : BitVec 12) + 1 = 0 := by decide

end ArchSim.Props.C06
