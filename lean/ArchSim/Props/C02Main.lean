/-
C02, composed: the five-stage pipeline with hazard detection is equivalent to single-cycle mode.

`ArchSim/Props/C02.lean` (control half) relates the pipeline (`Pipe.step`) to the sequential reference
machine `Pipe.seqStep`; `ArchSim/Props/C02Split.lean` (data-path half, `split_agrees`) shows that one
step of that reference machine is one `Rv.singleStep`. Here the two are composed: every statement is
about `Pipe.step` (five-stage mode) and `Rv.singleStep` (single-cycle mode) only.

Hypotheses (all decidable-looking, satisfied by every freshly loaded simulation):
  `ProgWF prog`   at most 4096 instructions, each `Instr.WF` (supported op, 5-bit register numbers,
                  stored immediate in its constructor's range, `ecall` fields as constructed);
  `SOK prog st`   uncached instruction memory holding `prog`; C01's `StOK`: flat RISC-V data memory
                  with byte cells, register values `< 2^32`, `x0 = 0`, `0 ≤ pc < 2^32`;
  `st.exitCode = none`.
`singleRun k st` = `k` iterations of `(singleStep ·).st`; `singleTrace k st` = the addresses of the
instructions these steps execute; `pipeRun`, `runOK`, `retireLog` as in the control half.
-/
import ArchSim.Lemmas.C02Compose
import ArchSim.Props.C02

namespace ArchSim.Props.C02Main
open ArchSim ArchSim.Rv ArchSim.Pipe

/-- One step of the control half's sequential reference machine IS one single-cycle step: same
    fault, and without a fault the same state (full `St` equality). -/
theorem seqStep_is_singleStep (prog : List Instr) (hP : ProgWF prog) (s : St) (hS : SOK prog s) :
    seqFault s = (singleStep s).fault ∧ ((singleStep s).fault = none → seqStep s = (singleStep s).st) :=
  seq_eq_single prog hP s hS

/-- The hypotheses are an invariant of single-cycle runs. -/
theorem sok_preserved (prog : List Instr) (hP : ProgWF prog) (s : St) (hS : SOK prog s) :
    SOK prog (singleStep s).st := SOK_step prog hP s hS

/-- MAIN THEOREM (C02). If the five-stage simulation loop `while not is_done(): step()` with hazard
    detection stops after `n` cycles without a fault, then the single-cycle loop
    `while not is_done(): step()` from the same initial state stops after `k ≤ n` steps without a
    fault (`k` is the first step at which single-cycle mode is done), and the two final states have
    the same registers, data memory, console output, exit code, retired-instruction count,
    taken-branch count, procedure-call count and pc; moreover the sequence of addresses leaving the
    five-stage write-back stage is exactly the sequence of addresses single-cycle mode executes. -/
theorem pipe_equals_single_cycle (prog : List Instr) (hP : ProgWF prog) (st : St) (hS : SOK prog st)
    (hx : st.exitCode = none) (n : Nat) (hr : runOK n (PSt.init st true))
    (hd : isDone (pipeRun n (PSt.init st true)) = true)
    (hprev : ∀ m, m < n → isDone (pipeRun m (PSt.init st true)) = false) :
    ∃ k, k ≤ n ∧
      (∀ j, j < k → (singleStep (singleRun j st)).fault = none ∧ singleDone (singleRun j st) = false) ∧
      singleDone (singleRun k st) = true ∧
      (pipeRun n (PSt.init st true)).st.regs = (singleRun k st).regs ∧
      (pipeRun n (PSt.init st true)).st.mem = (singleRun k st).mem ∧
      (pipeRun n (PSt.init st true)).st.output = (singleRun k st).output ∧
      (pipeRun n (PSt.init st true)).st.exitCode = (singleRun k st).exitCode ∧
      (pipeRun n (PSt.init st true)).st.instrs = (singleRun k st).instrs ∧
      (pipeRun n (PSt.init st true)).st.branches = (singleRun k st).branches ∧
      (pipeRun n (PSt.init st true)).st.procs = (singleRun k st).procs ∧
      (pipeRun n (PSt.init st true)).st.pc = (singleRun k st).pc ∧
      retireLog n (PSt.init st true) = singleTrace k st := by
  obtain ⟨k, hk, h1, h2, h3, h4⟩ := final_state_single prog hP st hS hx n hr hd hprev
  exact ⟨k, hk, h1, h2, h3.1.regs, h3.1.mem, h3.1.output, h3.1.exitCode, h3.1.instrs, h3.1.branches,
    h3.1.procs, h3.2, h4⟩

/-- TERMINATION (C02): if single-cycle mode, after `kstar` fault-free steps, is done or raises a
    fault in its next step, five-stage mode has raised a fault or is done after at most
    `5 * (kstar + 2)` cycles. -/
theorem pipe_terminates_when_single_does (prog : List Instr) (hP : ProgWF prog) (st : St)
    (hS : SOK prog st) (kstar : Nat)
    (hnf : ∀ j, j < kstar → (singleStep (singleRun j st)).fault = none)
    (hh : singleDone (singleRun kstar st) = true ∨ (singleStep (singleRun kstar st)).fault.isSome = true) :
    ∃ N, N ≤ 5 * (kstar + 2) ∧
      (¬ runOK N (PSt.init st true) ∨ isDone (pipeRun N (PSt.init st true)) = true) :=
  terminates_single prog hP st hS kstar hnf hh

/-- FAULT AGREEMENT (C02): if cycle `n + 1` of five-stage mode is the first to report a fault, for
    the instruction at address `a`, then single-cycle mode executes `k ≤ n` steps without fault and
    its next step reports the same fault for the instruction at the same address `a`; the five-stage
    registers and console output at the moment of the fault are those of single-cycle mode at that
    point (before the faulting instruction). -/
theorem fault_agrees_single_cycle (prog : List Instr) (hP : ProgWF prog) (st : St) (hS : SOK prog st)
    (n : Nat) (hr : runOK n (PSt.init st true)) (ft : PFault)
    (hft : (step (pipeRun n (PSt.init st true))).fault = some ft) :
    ∃ k, k ≤ n ∧ (∀ j, j < k → (singleStep (singleRun j st)).fault = none) ∧
      (singleStep (singleRun k st)).fault = some (ft.addr, ft.fault) ∧ (singleRun k st).pc = ft.addr ∧
      (step (pipeRun n (PSt.init st true))).p.st.regs = (singleRun k st).regs ∧
      (step (pipeRun n (PSt.init st true))).p.st.output = (singleRun k st).output :=
  fault_agrees_single prog hP st hS n hr ft hft

/-! ### Non-vacuity: the example program of the control half (RAW interlock, store/load, taken
branch with a squashed instruction, exiting ECALL). -/

open ArchSim.Props.C02 in
example : ProgWF exProg := ⟨by decide, by decide⟩

open ArchSim.Props.C02 in
example : SOK exProg exSt :=
  ⟨rfl, ⟨⟨_, rfl, rfl, ArchSim.Lemmas.C18.WF_empty _⟩, fun _ => by show (0 : Nat) < 4294967296; decide, rfl,
    by decide, by decide⟩⟩

open ArchSim.Props.C02 in
/-- Single-cycle mode is done after 8 fault-free steps on the example, with the same 8 addresses the
    five-stage write-back stage retires. -/
example : singleDone (singleRun 8 exSt) = true ∧ singleTrace 8 exSt = [0, 4, 8, 12, 16, 20, 28, 32] := by
  decide

end ArchSim.Props.C02Main
