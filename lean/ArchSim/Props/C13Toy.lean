/-
C13 (TOY part) — lifecycle of a `ToySimulation`: done is stable, `run` equals stepping until
done, `step()` returns false exactly when the simulation is done afterwards, an empty program is
done immediately, and a load into a not-started simulation equals a load into a fresh one.

Property theorems only; definitions (`Inv`, `stepT`, `stepRet`, `loads`) and lemmas are in
`ArchSim/Lemmas/ToyStep.lean` and `ArchSim/Lemmas/ToyLife.lean`.
-/
import ArchSim.Lemmas.ToyLife

namespace ArchSim.Props.C13Toy
open ArchSim ArchSim.Toy

/-- Once done, every API call (`step`, both half-cycles, `single_step`) returns normally with the
    whole simulation state unchanged (so it stays done), any sequence of calls leaves it
    unchanged, and `run()` with any fuel leaves it unchanged. `Inv` is the sequencing invariant
    that every reachable state satisfies (`C20.inv_initial`, `C20.call_classified`); `run` needs
    no invariant. -/
theorem done_stable (t : TSim) (hd : isDone t = true) :
    (Inv t → ∀ c, call t c = ⟨t, false⟩) ∧
    (Inv t → ∀ cs, calls t cs = t) ∧
    (∀ n, run n t = t) := by
  have h1 : Inv t → ∀ c, call t c = ⟨t, false⟩ := by
    intro h c
    rw [call_spec h c]
    cases c <;> simp [weight, rejected, hd]
  refine ⟨h1, ?_, run_done hd⟩
  intro h cs
  induction cs with
  | nil => rfl
  | cons c cs ih => simp only [calls, h1 h c]; exact ih

/-- Non-vacuity: the demo program `demoInc` is done after three steps, in a state satisfying `Inv`. -/
example : isDone (run 3 demoInc) = true ∧ Inv (run 3 demoInc) := by decide

/-- `step()` returns `not is_done()` evaluated after the step (`stepRet`): it returns false
    exactly when the simulation is done afterwards; and at an instruction boundary it never
    raises. -/
theorem step_result (t : TSim) :
    (stepRet t = false ↔ isDone (stepCall t).t = true) ∧
    (t.nextCycle = 1 → (stepCall t).err = false) := by
  refine ⟨by simp [stepRet], fun h1 => by rw [stepCall_boundary h1]⟩

/-- Both return values occur: the first step of `demoInc` returns true, the third false. -/
example : stepRet demoInc = true ∧ stepRet (run 2 demoInc) = false := by decide

/-- `run()` is `step()` repeated until done. With fuel `n`: `run n t` equals `step` iterated `k`
    times, where no state before the `k`-th is done and — unless the fuel ran out (`k = n`) — the
    `k`-th is done; at an instruction boundary this is the same as `step` iterated `n` times
    (steps after done being no-ops); and the result does not depend on the fuel once it is done. -/
theorem run_eq_iterate (t : TSim) (n : Nat) :
    (∃ k, k ≤ n ∧ run n t = iter stepT k t ∧ (∀ j, j < k → isDone (iter stepT j t) = false) ∧
      (k < n → isDone (iter stepT k t) = true)) ∧
    (t.nextCycle = 1 → run n t = iter stepT n t) ∧
    (isDone (run n t) = true → ∀ m, n ≤ m → run m t = run n t) :=
  ⟨run_iter n t, fun h1 => run_eq_iter_all h1 n, fun hd _ hm => run_fuel hd hm⟩

/-- Non-vacuity: fuel 3 suffices for `demoInc`, fuel 2 does not. -/
example : isDone (run 3 demoInc) = true ∧ isDone (run 2 demoInc) = false ∧ demoInc.nextCycle = 1 := by decide

/-- A program with no instructions is done immediately (whatever data it declares, whatever the
    simulation object it is loaded into). -/
theorem empty_done (t : TSim) (data : List (Nat × Nat)) : isDone (loadImage t [] data) = true := by
  unfold loadImage; rfl

/-- Loading depends only on `next_cycle` and `has_started` of the simulation object: into any
    simulation at a boundary that has not started — whatever its architectural state, in
    particular after any sequence `earlier` of loads into a new simulation — `load_program` gives
    exactly the state it gives on a new simulation; and loads never change `next_cycle` or
    `has_started`. -/
theorem reload_fresh (instrs : List TInstr) (data : List (Nat × Nat)) :
    (∀ t : TSim, t.nextCycle = 1 → t.started = false → loadImage t instrs data = loadImage {} instrs data) ∧
    (∀ earlier, loadImage (loads {} earlier) instrs data = loadImage {} instrs data) ∧
    (∀ t earlier, (loads t earlier).nextCycle = t.nextCycle ∧ (loads t earlier).started = t.started) := by
  refine ⟨fun t h1 hs => loadImage_fresh h1 hs instrs data, ?_, fun t e => loads_keep t e⟩
  intro earlier
  have := loads_keep {} earlier
  exact loadImage_fresh this.1 this.2 instrs data

/-- Non-vacuity / sharpness: after the simulation has started, a reload is *not* a fresh load
    (`has_started` stays set). -/
example : (loadImage (run 1 demoInc) [] []).started = true ∧ (loadImage {} [] []).started = false := by
  decide

end ArchSim.Props.C13Toy
