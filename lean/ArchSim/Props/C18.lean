/-
C18 — flat (uncached) data memory = byte-addressed little-endian store.

Property theorems only (plus non-vacuity examples); helper lemmas live in `ArchSim/Lemmas/C18*.lean`,
the history-defined cell map `B` and `run` in `ArchSim/Spec/ByteStore.lean`.

All theorems hold for EVERY configuration `Cfg` (any cell width, address width, range, wrap on or
off; the hypothesis `cellBits > 0` turned out not to be needed anywhere), every history, every address
(negative ones included) and every value; `riscvCfg` and `toyCfg` instances are corollaries at the end.

Vocabulary (from the spec):  `cellOk c a i` = cell `i` of an access at `a` has its wrapped address
inside `[lo, hi)`;  `firstBad c a n` = index of the first cell of an `n`-cell access that is not;
`cellVal c v i` = `i`-th little-endian digit of `v`;  `leSum c n f = Σ_{i<n} f i * 2^(i*cellBits)`.
-/
import ArchSim.Lemmas.C18Repr

namespace ArchSim.Props.C18
open ArchSim.Mem ArchSim.Spec.ByteStore ArchSim.Lemmas.C18

/-! ## 1–2  The memory after any history of writes is the history-defined cell map -/

/-- A fresh memory reads zero in every in-range cell. -/
theorem empty_reads_zero (c : Cfg) (a : Int) (h : inRange c (wrapAddr c a) = true) :
    readCell (Mem.empty c) a = .ok 0 := by
  simp [readCell, h, Mem.empty]

/-- Writes never change the configuration. -/
theorem run_cfg (c : Cfg) (h : List Op) : (run c h).cfg = c := by
  rw [run_eq, applyCells_cfg]; rfl

/-- After any history `h` of byte/half-word/word writes (at any addresses, failed and truncated ones
    included) every cell of the model memory holds `B h x`: the value stored last at `x`, 0 if none. -/
theorem run_cells (c : Cfg) (h : List Op) (x : Int) : (run c h).cells x = B c h x := by
  rw [run_eq, applyCells_cells]; rfl

/-- The key list of the memory (the Python dict's keys) is exactly the set of cells the history has
    stored to. -/
theorem run_keys (c : Cfg) (h : List Op) (x : Int) : x ∈ (run c h).keys ↔ written c h x := by
  rw [run_eq, applyCells_keys_mem]
  simp [Mem.empty, written]

/-- The key list never contains a duplicate. -/
theorem run_keys_nodup (c : Cfg) (h : List Op) : (run c h).keys.Nodup :=
  (WF_run c h).keys_nodup

/-- "The history has stored to cell `x`" spelled out: some write in the history has a cell index `i`
    before its first out-of-range cell whose wrapped address is `x`. -/
theorem written_iff (c : Cfg) (h : List Op) (x : Int) :
    written c h x ↔ ∃ bits a v, Op.write bits a v ∈ h ∧
      ∃ i : Nat, i < firstBad c a (cellsOf c bits) ∧ x = wrapAddr c (a + (i : Int)) := by
  simp only [written, trace, List.mem_map, List.mem_flatMap]
  constructor
  · rintro ⟨p, ⟨op, hop, hp⟩, rfl⟩
    cases op with
    | write bits a v =>
      simp only [opCells, okIdx_eq_range, List.mem_map, List.mem_range] at hp
      obtain ⟨i, hi, rfl⟩ := hp
      exact ⟨bits, a, v, hop, i, hi, rfl⟩
  · rintro ⟨bits, a, v, hop, i, hi, rfl⟩
    refine ⟨(wrapAddr c (a + (i : Int)), cellVal c v i), ⟨_, hop, ?_⟩, rfl⟩
    simp only [opCells, okIdx_eq_range, List.mem_map, List.mem_range]
    exact ⟨i, hi, rfl⟩

/-- The empty history: every cell is 0. -/
theorem B_nil (c : Cfg) (x : Int) : B c [] x = 0 := rfl

/-- Recursion equation of `B`: appending a write leaves a cell it does not store to unchanged. -/
theorem B_snoc_other (c : Cfg) (h : List Op) (bits : Nat) (a : Int) (v : Nat) (x : Int)
    (hx : ∀ i : Nat, i < firstBad c a (cellsOf c bits) → wrapAddr c (a + (i : Int)) ≠ x) :
    B c (h ++ [Op.write bits a v]) x = B c h x := by
  simp only [B, lastVal_eq, trace_append, List.foldl_append]
  apply foldl_pick_not_mem
  simp only [trace, List.flatMap_cons, List.flatMap_nil, List.append_nil, opCells, okIdx_eq_range,
    List.map_map, List.mem_map, List.mem_range, not_exists, not_and]
  intro i hi
  exact hx i hi

/-- Recursion equation of `B`: after appending a write, stored cell `i` (before the first
    out-of-range cell, and not overwritten by a later cell of the same write) holds the `i`-th
    little-endian digit of the value. -/
theorem B_snoc_written (c : Cfg) (h : List Op) (bits : Nat) (a : Int) (v : Nat) (i : Nat)
    (hi : i < firstBad c a (cellsOf c bits))
    (hd : ∀ j : Nat, i < j → j < firstBad c a (cellsOf c bits) →
      wrapAddr c (a + (j : Int)) ≠ wrapAddr c (a + (i : Int))) :
    B c (h ++ [Op.write bits a v]) (wrapAddr c (a + (i : Int))) = cellVal c v i := by
  simp only [B, lastVal_eq, trace_append, List.foldl_append]
  simp only [trace, List.flatMap_cons, List.flatMap_nil, List.append_nil, opCells, okIdx_eq_range]
  exact foldl_pick_range _ (fun j => wrapAddr c (a + (j : Int))) (cellVal c v) _ i hi hd

/-- Invariant: every stored cell fits the cell width (each store is reduced `% 2^cellBits`). -/
theorem cell_bound (c : Cfg) (h : List Op) (x : Int) : B c h x < 2 ^ c.cellBits := by
  rw [← run_cells]
  have := (WF_run c h).cells_lt x
  rwa [run_cfg] at this

/-- A cell never stored to reads 0. -/
theorem unwritten_zero (c : Cfg) (h : List Op) (x : Int) (hx : ¬ written c h x) : B c h x = 0 := by
  rw [← run_cells]
  exact (WF_run c h).cells_zero x (fun hk => hx ((run_keys c h x).mp hk))

/-- Only in-range cell addresses are ever stored to. -/
theorem written_inRange (c : Cfg) (h : List Op) (x : Int) (hx : written c h x) : inRange c x = true := by
  have := (WF_run c h).keys_inRange x ((run_keys c h x).mpr hx)
  rwa [run_cfg] at this

/-- The same invariants for any memory reached from any well-formed memory by one `writeN`
    (`WF m`: cells < 2^cellBits, keys duplicate-free and in range, cells outside the keys are 0). -/
theorem wf_preserved (m : Mem) (a : Int) (n v : Nat) (hm : WF m) : WF (writeN m a n v).1 :=
  WF_writeN m a n v hm

/-! ## 3  Reads return the little-endian composition of the last-written cells -/

/-- `readN` on any memory: if all `n` wrapped cell addresses are in range the result is
    `Σ_{i<n} cells(wrap(a+i)) * 2^(i*cellBits)`. -/
theorem readN_compose (m : Mem) (a : Int) (n : Nat) (hok : ∀ i, i < n → cellOk m.cfg a i = true) :
    readN m a n = .ok (leSum m.cfg n (fun i => m.cells (wrapAddr m.cfg (a + (i : Int))))) :=
  readN_ok m a n hok

/-- After any history, a read of `bits` bits (`n = bits / cellBits` cells) at any address `a` whose `n`
    wrapped cell addresses are all in range returns `Σ_{i<n} B h (wrap(a+i)) * 2^(i*cellBits)` — the
    composition of the most recently written cells, zero where never written.  (The final truncation
    to `bits` bits is a no-op by `cell_bound`.) -/
theorem read_spec (c : Cfg) (h : List Op) (bits : Nat) (a : Int) (hb : c.cellBits ≤ bits)
    (hok : ∀ i, i < cellsOf c bits → cellOk c a i = true) :
    read (run c h) bits a =
      some (.ok (leSum c (cellsOf c bits) (fun i => B c h (wrapAddr c (a + (i : Int)))))) := by
  have hwf := WF_run c h
  simp only [Mem.read, run_cfg, show ¬ c.cellBits > bits by omega, if_false]
  rw [readN_ok (run c h) a _ (by rw [run_cfg]; exact hok)]
  simp only [Except.map, run_cfg]
  rw [leSum_mod_bits c bits _ (fun i _ => by have := hwf.cells_lt (wrapAddr c (a + (i : Int))); rwa [run_cfg] at this)]
  rw [leSum_congr c _ _ (fun i => B c h (wrapAddr c (a + (i : Int)))) (fun i _ => run_cells c h _)]

/-- The same for any well-formed memory (not necessarily presented as a history): the accessor of
    width `bits` returns the little-endian composition of the stored cells, untruncated. -/
theorem read_wf (m : Mem) (hm : WF m) (bits : Nat) (a : Int) (hb : m.cfg.cellBits ≤ bits)
    (hok : ∀ i, i < cellsOf m.cfg bits → cellOk m.cfg a i = true) :
    read m bits a =
      some (.ok (leSum m.cfg (cellsOf m.cfg bits) (fun i => m.cells (wrapAddr m.cfg (a + (i : Int)))))) := by
  simp only [Mem.read, show ¬ m.cfg.cellBits > bits by omega, if_false]
  rw [readN_ok m a _ hok]
  simp only [Except.map]
  rw [leSum_mod_bits m.cfg bits _ (fun i _ => hm.cells_lt _)]

/-- The value `read_spec` returns fits `bits` bits. -/
theorem read_spec_lt (c : Cfg) (h : List Op) (bits : Nat) (a : Int) :
    leSum c (cellsOf c bits) (fun i => B c h (wrapAddr c (a + (i : Int)))) < 2 ^ bits :=
  Nat.lt_of_lt_of_le (leSum_lt c _ _ (fun i _ => cell_bound c h _))
    (Nat.pow_le_pow_right (by omega) (cellsOf_mul_le c bits))

/-- An access narrower than a cell is unsupported (`UnsupportedFunctionError`), read and write. -/
theorem narrow_unsupported (m : Mem) (bits : Nat) (a : Int) (v : Nat) (hb : bits < m.cfg.cellBits) :
    read m bits a = none ∧ write m bits a v = none := by
  simp [Mem.read, Mem.write, hb]

/-! ## 4  Little-endian round trip -/

/-- Compose ∘ decompose: `Σ_{i<n} ((v / 2^(i*c)) % 2^c) * 2^(i*c) = v % 2^(n*c)`, for every `n`. -/
theorem le_compose_decompose (c : Cfg) (n v : Nat) :
    leSum c n (cellVal c v) = v % 2 ^ (n * c.cellBits) :=
  leSum_cellVal c n v

/-- Write `n` cells then read them back, for EVERY `n` and every memory: if the `n` wrapped cell
    addresses are in range and pairwise distinct, the read returns `v % 2^(n*cellBits)`
    (`= v` when `v < 2^(n*cellBits)`). -/
theorem le_roundtrip (m : Mem) (a : Int) (n v : Nat)
    (hok : ∀ i, i < n → cellOk m.cfg a i = true)
    (hd : ∀ i j : Nat, i < n → j < n →
      wrapAddr m.cfg (a + (i : Int)) = wrapAddr m.cfg (a + (j : Int)) → i = j) :
    readN (writeN m a n v).1 a n = .ok (v % 2 ^ (n * m.cfg.cellBits)) ∧ (writeN m a n v).2 = none :=
  ⟨roundtrip m a n v hok hd, writeN_all_ok m a n v hok⟩

/-- The wrapped cell addresses of one access are pairwise distinct whenever the memory does not wrap,
    or the access has at most `2^addrBits` cells (always the case in practice). -/
theorem cells_distinct (c : Cfg) (a : Int) (n : Nat)
    (h : c.overflow = false ∨ (n : Int) ≤ (2 : Int) ^ c.addrBits) :
    ∀ i j : Nat, i < n → j < n → wrapAddr c (a + (i : Int)) = wrapAddr c (a + (j : Int)) → i = j :=
  wrap_inj c a n h

/-- The public accessors: `write_X(a, v)` then `read_X(a)` returns `v % 2^bits` when `bits` is a
    multiple of the cell width, all cells of the access are in range and distinct. -/
theorem write_read (m : Mem) (bits : Nat) (a : Int) (v : Nat)
    (hb : m.cfg.cellBits ≤ bits) (hdvd : m.cfg.cellBits ∣ bits)
    (hok : ∀ i, i < cellsOf m.cfg bits → cellOk m.cfg a i = true)
    (hd : m.cfg.overflow = false ∨ (cellsOf m.cfg bits : Int) ≤ (2 : Int) ^ m.cfg.addrBits) :
    ∃ m', write m bits a v = some (m', none) ∧ read m' bits a = some (.ok (v % 2 ^ bits)) := by
  refine ⟨(writeN m a (cellsOf m.cfg bits) v).1, ?_, ?_⟩
  · simp only [Mem.write, show ¬ m.cfg.cellBits > bits by omega, if_false]
    rw [← writeN_all_ok m a _ v hok]
  · simp only [Mem.read, writeN_cfg, show ¬ m.cfg.cellBits > bits by omega, if_false]
    rw [roundtrip m a _ v hok (wrap_inj _ a _ hd)]
    have : cellsOf m.cfg bits * m.cfg.cellBits = bits := Nat.div_mul_cancel hdvd
    simp [Except.map, this]

/-- History form: after any history, a write followed by a read of the same width at the same address
    returns the written value (reduced to the width). -/
theorem read_after_write (c : Cfg) (h : List Op) (bits : Nat) (a : Int) (v : Nat)
    (hb : c.cellBits ≤ bits) (hdvd : c.cellBits ∣ bits)
    (hok : ∀ i, i < cellsOf c bits → cellOk c a i = true)
    (hd : c.overflow = false ∨ (cellsOf c bits : Int) ≤ (2 : Int) ^ c.addrBits) :
    read (run c (h ++ [Op.write bits a v])) bits a = some (.ok (v % 2 ^ bits)) := by
  have hc := run_cfg c h
  obtain ⟨m', hw, hr⟩ := write_read (run c h) bits a v (by rw [hc]; exact hb) (by rw [hc]; exact hdvd)
    (by rw [hc]; exact hok) (by rw [hc]; exact hd)
  rw [run_append]
  simp only [applyOp, hw]
  exact hr

/-- A write (complete or truncated) changes no cell other than the ones it addresses. -/
theorem write_frame (m : Mem) (a : Int) (n v : Nat) (x : Int)
    (hx : ∀ i : Nat, i < n → wrapAddr m.cfg (a + (i : Int)) ≠ x) :
    (writeN m a n v).1.cells x = m.cells x :=
  writeN_cells_other m a n v x hx

/-! ## 5  Addresses are taken modulo 2^addrBits -/

/-- With address overflow enabled, a read at `a + k * 2^addrBits` (any `k : Int`, any `a`, negative
    included) is the read at `a`: same value or same error. -/
theorem wrap_alias_read (m : Mem) (hov : m.cfg.overflow = true) (a k : Int) (n : Nat) :
    readN m (a + k * (2 : Int) ^ m.cfg.addrBits) n = readN m a n :=
  readNFrom_alias m hov a k n 0

/-- With address overflow enabled, a write at `a + k * 2^addrBits` is the write at `a`: same resulting
    memory (cells and key list) and same error. -/
theorem wrap_alias_write (m : Mem) (hov : m.cfg.overflow = true) (a k : Int) (n v : Nat) :
    writeN m (a + k * (2 : Int) ^ m.cfg.addrBits) n v = writeN m a n v :=
  writeNFrom_alias m hov a k n 0 v

/-- The same for the public accessors of every width. -/
theorem wrap_alias (m : Mem) (hov : m.cfg.overflow = true) (a k : Int) (bits v : Nat) :
    read m bits (a + k * (2 : Int) ^ m.cfg.addrBits) = read m bits a ∧
    write m bits (a + k * (2 : Int) ^ m.cfg.addrBits) v = write m bits a v := by
  simp only [Mem.read, Mem.write, wrap_alias_read m hov, wrap_alias_write m hov, and_self]

/-! ## 6  Range errors, truncated writes, no-op outside the range -/

/-- A read one of whose wrapped cell addresses is outside `[lo, hi)` returns the address error
    carrying the FIRST such wrapped address (`j` = index of the first out-of-range cell). -/
theorem range_error_read (m : Mem) (a : Int) (n j : Nat) (hj : j < n)
    (hok : ∀ i, i < j → cellOk m.cfg a i = true) (hbad : cellOk m.cfg a j = false) :
    readN m a n = .error ⟨wrapAddr m.cfg (a + (j : Int))⟩ :=
  readN_err m a n j hj hok hbad

/-- A write whose first out-of-range cell is cell `j` returns the address error carrying that wrapped
    address, and the memory it leaves is exactly the memory after writing the first `j` cells
    (truncated write, as the Python loop does). -/
theorem range_error_write (m : Mem) (a : Int) (n j v : Nat) (hj : j < n)
    (hok : ∀ i, i < j → cellOk m.cfg a i = true) (hbad : cellOk m.cfg a j = false) :
    writeN m a n v = ((writeN m a j v).1, some ⟨wrapAddr m.cfg (a + (j : Int))⟩) :=
  writeN_err m a n j v hj hok hbad

/-- Total form: ANY access touching an out-of-range cell fails, read and write, with the error
    carrying the wrapped address of cell `firstBad`; `firstBad` is the least out-of-range index. -/
theorem range_error (m : Mem) (a : Int) (n v : Nat) (i : Nat) (hi : i < n)
    (hbad : cellOk m.cfg a i = false) :
    firstBad m.cfg a n ≤ i ∧ cellOk m.cfg a (firstBad m.cfg a n) = false ∧
    readN m a n = .error ⟨wrapAddr m.cfg (a + (firstBad m.cfg a n : Nat))⟩ ∧
    (writeN m a n v).2 = some ⟨wrapAddr m.cfg (a + (firstBad m.cfg a n : Nat))⟩ := by
  obtain ⟨h1, h2, h3⟩ := firstBad_spec m.cfg a n
  have hlt := firstBad_lt_of_bad m.cfg a n i hi hbad
  refine ⟨?_, h3 hlt, readN_err m a n _ hlt h2 (h3 hlt), ?_⟩
  · rcases Nat.lt_or_ge i (firstBad m.cfg a n) with h | h
    · have := h2 i h; rw [hbad] at this; cases this
    · exact h
  · rw [writeN_err m a n _ v hlt h2 (h3 hlt)]

/-- The public accessors: same statement for `read`/`write` of any supported width. -/
theorem range_error_access (m : Mem) (bits : Nat) (a : Int) (v : Nat) (hb : m.cfg.cellBits ≤ bits)
    (i : Nat) (hi : i < cellsOf m.cfg bits) (hbad : cellOk m.cfg a i = false) :
    read m bits a = some (.error ⟨wrapAddr m.cfg (a + (firstBad m.cfg a (cellsOf m.cfg bits) : Nat))⟩) ∧
    ∃ m', write m bits a v =
      some (m', some ⟨wrapAddr m.cfg (a + (firstBad m.cfg a (cellsOf m.cfg bits) : Nat))⟩) := by
  obtain ⟨_, _, hr, hw⟩ := range_error m a (cellsOf m.cfg bits) v i hi hbad
  simp only [Mem.read, Mem.write, show ¬ m.cfg.cellBits > bits by omega, if_false, hr, Except.map]
  exact ⟨trivial, (writeN m a (cellsOf m.cfg bits) v).1, by rw [← hw]⟩

/-- If the FIRST touched cell is out of range (in particular when the access lies entirely outside
    the valid range) the write returns the memory unchanged — cells and key list — and the error. -/
theorem outside_noop (m : Mem) (a : Int) (n v : Nat) (hn : 0 < n) (hbad : cellOk m.cfg a 0 = false) :
    writeN m a n v = (m, some ⟨wrapAddr m.cfg a⟩) :=
  writeN_first_bad m a n v hn hbad

/-- Witness that the restriction to "first cell out of range" is necessary: a word write straddling
    the top of the RISC-V memory raises the address error (for wrapped address 0) AND has already
    stored its first two bytes. -/
theorem straddling_write_stores_prefix :
    (writeN (Mem.empty riscvCfg) 4294967294 4 0xCAFEF00D).2 = some ⟨0⟩ ∧
    (writeN (Mem.empty riscvCfg) 4294967294 4 0xCAFEF00D).1.cells 4294967295 = 0xF0 ∧
    (writeN (Mem.empty riscvCfg) 4294967294 4 0xCAFEF00D).1.keys = [4294967294, 4294967295] := by
  decide

/-- History form of `outside_noop`: such a write does not change the history-defined map. -/
theorem outside_noop_history (c : Cfg) (h : List Op) (bits : Nat) (a : Int) (v : Nat)
    (hbad : cellOk c a 0 = false) :
    run c (h ++ [Op.write bits a v]) = run c h := by
  rw [run_append]
  simp only [applyOp, Mem.write]
  by_cases hb : (run c h).cfg.cellBits > bits
  · simp [hb]
  · simp only [hb, if_false]
    by_cases hn : 0 < cellsOf (run c h).cfg bits
    · rw [outside_noop (run c h) a _ v hn (by rw [run_cfg]; exact hbad)]
    · have : cellsOf (run c h).cfg bits = 0 := by omega
      rw [this]; rfl

/-! ## 7  The two concrete memories -/

/-- RISC-V: addresses are taken modulo 2^32 (reads and writes of every width, any `k`, negative `a`). -/
theorem riscv_wrap_alias (m : Mem) (hc : m.cfg = riscvCfg) (a k : Int) (bits v : Nat) :
    read m bits (a + k * 4294967296) = read m bits a ∧
    write m bits (a + k * 4294967296) v = write m bits a v := by
  have := wrap_alias m (by rw [hc]; rfl) a k bits v
  rw [hc] at this
  simpa [riscvCfg] using this

/-- RISC-V: an access (byte, half-word, word; read or write) touching an address whose wrapped value
    is below the first data address 16384 raises an address error. -/
theorem riscv_below_data_error (m : Mem) (hc : m.cfg = riscvCfg) (bits : Nat) (hb : 8 ≤ bits)
    (a : Int) (v : Nat) (i : Nat) (hi : i < bits / 8) (hlow : (a + (i : Int)) % 4294967296 < 16384) :
    (∃ e, read m bits a = some (.error e) ∧ e.address < 16384) ∧
    (∃ m' e, write m bits a v = some (m', some e) ∧ e.address < 16384) := by
  have hbad : cellOk m.cfg a i = false := by
    rw [hc, Bool.eq_false_iff, ne_eq, riscv_cellOk_iff]; omega
  have hi' : i < cellsOf m.cfg bits := by rw [hc]; exact hi
  obtain ⟨hr, m', hw⟩ := range_error_access m bits a v (by rw [hc]; exact hb) i hi' hbad
  obtain ⟨_, hfb, _, _⟩ := range_error m a (cellsOf m.cfg bits) v i hi' hbad
  have hlt : (wrapAddr m.cfg (a + (firstBad m.cfg a (cellsOf m.cfg bits) : Nat))) < 16384 := by
    rw [hc] at hfb ⊢
    rw [Bool.eq_false_iff, ne_eq, riscv_cellOk_iff] at hfb
    rw [riscv_wrap]; omega
  exact ⟨⟨_, hr, hlt⟩, ⟨m', _, hw, hlt⟩⟩

/-- RISC-V: byte / half-word / word write then read at any address whose bytes all lie in the data
    range returns the value (mod 2^bits); unaligned addresses included. -/
theorem riscv_roundtrip (m : Mem) (hc : m.cfg = riscvCfg) (bits : Nat)
    (hbits : bits = 8 ∨ bits = 16 ∨ bits = 32) (a : Int) (v : Nat)
    (hok : ∀ i : Nat, i < bits / 8 → 16384 ≤ (a + (i : Int)) % 4294967296) :
    ∃ m', write m bits a v = some (m', none) ∧ read m' bits a = some (.ok (v % 2 ^ bits)) := by
  apply write_read m bits a v
  · rw [hc]; show 8 ≤ bits; omega
  · rw [hc]; show 8 ∣ bits; rcases hbits with rfl | rfl | rfl <;> decide
  · rw [hc]; intro i hi; rw [riscv_cellOk_iff]; exact hok i hi
  · right; rw [hc]; show ((bits / 8 : Nat) : Int) ≤ (2 : Int) ^ 32
    rw [pow32]; rcases hbits with rfl | rfl | rfl <;> decide

/-- TOY: address 4096 and every negative address give the address error (16-bit access), and the
    write leaves the memory unchanged. -/
theorem toy_outside_error (m : Mem) (hc : m.cfg = toyCfg) (a : Int) (v : Nat)
    (ha : a < 0 ∨ 4096 ≤ a) :
    read m 16 a = some (.error ⟨a⟩) ∧ write m 16 a v = some (m, some ⟨a⟩) := by
  have hbad : cellOk m.cfg a 0 = false := by
    rw [hc, Bool.eq_false_iff, ne_eq, toy_cellOk_iff]; omega
  have hn : cellsOf m.cfg 16 = 1 := by rw [hc]; rfl
  have hw : wrapAddr m.cfg a = a := by rw [hc, toy_wrap]
  constructor
  · simp only [Mem.read, hn]
    rw [range_error_read m a 1 0 (by omega) (fun i hi => absurd hi (Nat.not_lt_zero _)) hbad]
    simp [hc, toyCfg, Except.map, wrapAddr]
  · simp only [Mem.write, hn]
    rw [outside_noop m a 1 v (by omega) hbad, hw]
    simp [hc, toyCfg]

/-- TOY: there is no wrap-around: address `a + 4096` is not an alias of `a`. -/
theorem toy_no_wrap (m : Mem) (hc : m.cfg = toyCfg) (a : Int) (ha : 0 ≤ a ∧ a < 4096) :
    read m 16 (a + 4096) = some (.error ⟨a + 4096⟩) ∧ read m 16 a = some (.ok (m.cells a % 65536)) := by
  refine ⟨(toy_outside_error m hc (a + 4096) 0 (by omega)).1, ?_⟩
  have hn : cellsOf m.cfg 16 = 1 := by rw [hc]; rfl
  simp only [Mem.read, hn]
  rw [readN_ok m a 1 (by intro i hi; rw [hc, toy_cellOk_iff]; omega)]
  simp [hc, toyCfg, Except.map, wrapAddr, leSum]

/-- TOY: a 16-bit write then read at `0 ≤ a < 4096` returns `v % 65536`; 8-bit accesses are
    unsupported. -/
theorem toy_roundtrip (m : Mem) (hc : m.cfg = toyCfg) (a : Int) (v : Nat) (ha : 0 ≤ a ∧ a < 4096) :
    (∃ m', write m 16 a v = some (m', none) ∧ read m' 16 a = some (.ok (v % 65536))) ∧
    read m 8 a = none ∧ write m 8 a v = none := by
  refine ⟨?_, narrow_unsupported m 8 a v (by rw [hc]; decide)⟩
  apply write_read m 16 a v
  · rw [hc]; decide
  · rw [hc]; exact Nat.dvd_refl _
  · rw [hc]; intro i hi
    have : i = 0 := by simp only [cellsOf, toyCfg] at hi; omega
    subst this; rw [toy_cellOk_iff]; omega
  · left; rw [hc]; rfl

/-! ## 8  The memory table -/

/-- The table's keys are exactly the aligned addresses `a - a % k` of the stored keys
    (`k = bits / cellBits`). -/
theorem reprKeys_mem (m : Mem) (bits : Nat) (x : Int) :
    x ∈ reprKeys m bits ↔ ∃ a, a ∈ m.keys ∧ x = a - a % (cellsOf m.cfg bits : Int) := by
  simp [reprKeys, reprKeysAux_mem]

/-- Each table key appears once. -/
theorem reprKeys_nodup (m : Mem) (bits : Nat) : (reprKeys m bits).Nodup :=
  reprKeysAux_nodup _ _ _ List.nodup_nil

/-- The table's keys come in first-seen order: they are the aligned stored keys with later duplicates
    erased. -/
theorem reprKeys_first_seen (m : Mem) (bits : Nat) :
    reprKeys m bits = (m.keys.map (fun a => a - a % (cellsOf m.cfg bits : Int))).eraseDups := by
  rw [reprKeys, reprKeysAux_eq_loop]
  rfl

/-- If every table key can be read, the table lists, for each key in order, the value `readN`
    returns there (truncated to `bits` bits). -/
theorem reprEntries_ok (m : Mem) (bits : Nat) (f : Int → Nat)
    (h : ∀ a, a ∈ reprKeys m bits → readN m a (cellsOf m.cfg bits) = .ok (f a)) :
    reprEntries m bits = .ok ((reprKeys m bits).map (fun a => (a, f a % 2 ^ bits))) := by
  rw [reprEntries_eq]
  exact foldr_entryStep_ok m bits f _ h

/-- Conversely, a table that is returned has exactly the table keys in order, each paired with the
    value `readN` returns at that key. -/
theorem reprEntries_sound (m : Mem) (bits : Nat) (r : List (Int × Nat))
    (h : reprEntries m bits = .ok r) :
    r.map Prod.fst = reprKeys m bits ∧
      ∀ p, p ∈ r → ∃ v, readN m p.1 (cellsOf m.cfg bits) = .ok v ∧ p.2 = v % 2 ^ bits :=
  foldr_entryStep_inv m bits _ r h

/-- The table fails only with the address error of the read of one of its keys. -/
theorem reprEntries_error (m : Mem) (bits : Nat) (e : AddrErr) (h : reprEntries m bits = .error e) :
    ∃ a, a ∈ reprKeys m bits ∧ readN m a (cellsOf m.cfg bits) = .error e :=
  foldr_entryStep_err m bits _ e h

/-- RISC-V after any history: the byte / half-word / word / double-word table never fails, and each
    entry is the little-endian composition of the history-defined bytes of its aligned block. -/
theorem riscv_reprEntries (h : List Op) (bits : Nat)
    (hbits : bits = 8 ∨ bits = 16 ∨ bits = 32 ∨ bits = 64) :
    reprEntries (run riscvCfg h) bits =
      .ok ((reprKeys (run riscvCfg h) bits).map (fun a =>
        (a, leSum riscvCfg (bits / 8) (fun i => B riscvCfg h (wrapAddr riscvCfg (a + (i : Int))))))) := by
  have hwf := WF_run riscvCfg h
  have hc := run_cfg riscvCfg h
  have hk : cellsOf (run riscvCfg h).cfg bits = bits / 8 := by rw [hc]; rfl
  rw [reprEntries_ok (run riscvCfg h) bits
    (fun a => leSum riscvCfg (bits / 8) (fun i => B riscvCfg h (wrapAddr riscvCfg (a + (i : Int)))))]
  · congr 1
    apply List.map_congr_left
    intro a _
    congr 1
    exact Nat.mod_eq_of_lt (read_spec_lt riscvCfg h bits a)
  · intro x hx
    obtain ⟨y, hy, rfl⟩ := (reprKeys_mem _ _ _).mp hx
    have hyr := hwf.keys_inRange y hy
    rw [hk] at *
    rw [readN_ok _ _ _ (by
      intro i hi; rw [hc]
      exact riscv_aligned_ok y (bits / 8) (by rcases hbits with rfl | rfl | rfl | rfl <;> simp) (by rwa [hc] at hyr) i hi)]
    rw [hc]
    congr 1
    exact leSum_congr _ _ _ _ (fun i _ => run_cells riscvCfg h _)

/-- TOY after any history: the 16-bit table never fails; its keys are the stored addresses in
    insertion order and each entry is the last value written there. -/
theorem toy_reprEntries (h : List Op) :
    reprKeys (run toyCfg h) 16 = (run toyCfg h).keys ∧
    reprEntries (run toyCfg h) 16 = .ok ((run toyCfg h).keys.map (fun a => (a, B toyCfg h a))) := by
  have hwf := WF_run toyCfg h
  have hc := run_cfg toyCfg h
  have hk : cellsOf (run toyCfg h).cfg 16 = 1 := by rw [hc]; rfl
  have hkeys : reprKeys (run toyCfg h) 16 = (run toyCfg h).keys := by
    rw [reprKeys, hk]
    exact reprKeysAux_id _ _ _ (fun a _ => by omega) (by simpa using hwf.keys_nodup)
  refine ⟨hkeys, ?_⟩
  rw [reprEntries_ok (run toyCfg h) 16 (fun a => B toyCfg h a), hkeys]
  · congr 1
    apply List.map_congr_left
    intro a _
    congr 1
    have := cell_bound toyCfg h a
    exact Nat.mod_eq_of_lt (by simpa [toyCfg] using this)
  · intro x hx
    rw [hkeys] at hx
    have hxr := hwf.keys_inRange x hx
    rw [hc] at hxr
    simp only [toy_inRange, Bool.and_eq_true, decide_eq_true_eq] at hxr
    rw [hk, readN_ok _ x 1 (by intro i hi; rw [hc, toy_cellOk_iff]; omega)]
    simp [hc, leSum, toy_wrap, run_cells]

/-! ## Non-vacuity: concrete instances of the hypotheses and of the statements -/

-- hypotheses of `read_spec`, `le_roundtrip`, `riscv_roundtrip`: all four bytes of an unaligned word in range
example : ∀ i, i < cellsOf riscvCfg 32 → cellOk riscvCfg 16386 i = true := by
  intro i hi; rw [riscv_cellOk_iff]; simp only [cellsOf, riscvCfg] at hi; omega
-- … and distinct
example : riscvCfg.overflow = false ∨ ((cellsOf riscvCfg 32 : Nat) : Int) ≤ (2 : Int) ^ riscvCfg.addrBits := by
  right; decide
-- hypotheses of `range_error_read/write` with j = 2: a word at 2^32-2 has two good bytes, then wraps to 0
example : (∀ i, i < 2 → cellOk riscvCfg 4294967294 i = true) ∧ cellOk riscvCfg 4294967294 2 = false := by
  constructor
  · intro i hi; rw [riscv_cellOk_iff]; omega
  · decide
-- hypothesis of `outside_noop`
example : cellOk riscvCfg 100 0 = false ∧ cellOk toyCfg 4096 0 = false ∧ cellOk toyCfg (-1) 0 = false := by
  decide
-- the history-defined map and the model agree on concrete cells (instances of `run_cells`), the
-- truncated write stored exactly two bytes, the failing write nothing
example : B riscvCfg exHist 16387 = 0xAA ∧ B riscvCfg exHist 16384 = 0xEF ∧ B riscvCfg exHist 16385 = 0x02
    ∧ B riscvCfg exHist 16386 = 0x01 ∧ B riscvCfg exHist 4294967295 = 0xF0 ∧ B riscvCfg exHist 100 = 0 := by
  decide
example : (run riscvCfg exHist).keys = [16386, 16387, 16388, 16389, 16384, 16385, 4294967294, 4294967295] := by
  decide
-- an instance of `read_spec`: an aligned word read composes bytes written by three different writes
example : ArchSim.Mem.read (run riscvCfg exHist) 32 16384 = some (.ok 0xAA0102EF) := rfl
-- hypothesis of `wrap_alias*`
example : riscvCfg.overflow = true := rfl
-- the memory table of that history (instances of `reprKeys_*`, `riscv_reprEntries`)
example : reprKeys (run riscvCfg exHist) 32 = [16384, 16388, 4294967292] := by decide
example : reprEntries (run riscvCfg exHist) 32 =
    .ok [(16384, 0xAA0102EF), (16388, 0x1122), (4294967292, 0xF00D0000)] := rfl
-- a TOY history
example : B toyCfg [.write 16 4095 0x1FFFF, .write 16 4096 5, .write 8 0 1] 4095 = 0xFFFF
    ∧ (run toyCfg [.write 16 4095 0x1FFFF, .write 16 4096 5, .write 8 0 1]).keys = [4095] := by
  decide
-- `WF` is satisfiable by a non-empty memory
example : WF (run riscvCfg exHist) := WF_run _ _

end ArchSim.Props.C18
