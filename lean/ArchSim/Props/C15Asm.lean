/-
C15 (run-time failures), end to end: for EVERY source text — accepted or not, any instruction — every run-time fault of
the loaded program, in single-cycle and in five-stage mode, carries the address of an instruction of the LOADED PROGRAM
and exactly that instruction; and the kind of the fault fits the instruction. The hypotheses `FetchOK`, `ImemOK`,
`PipeOK` of the C15 fault-typing statements are discharged by the loader; no well-formedness hypothesis on program or
state is left. The only side condition is on the CONFIGURATION: `ICacheOK s` — the instruction cache of `s`, if it
has one, has an associativity that suits its policy (what the Python constructor asserts; trivially true without
instruction cache, e.g. in the power-on state).

Property theorems only (plus non-vacuity examples); helper lemmas: `ArchSim/Lemmas/E2E2Fault.lean`.
`singleRun k st`: `k` single-cycle steps; `pipeRun n p`: `n` five-stage cycles (the state after a raising cycle is the
one Python leaves); `Sim.load` / `Sim.step` / `Sim.stepS`: `RiscvSimulation.load_program` / `step` / the simulation
after a `step()` call, raised or not.
-/
import ArchSim.Props.C15
import ArchSim.Props.C04Asm
import ArchSim.Lemmas.E2E2Fault
import ArchSim.Lemmas.E2E2Ex

namespace ArchSim.Props.C15Asm
open ArchSim ArchSim.Rv ArchSim.Asm ArchSim.Pipe ArchSim.Lemmas.E2E ArchSim.Lemmas.E2E2

/-- SINGLE-CYCLE MODE. Load ANY text into ANY state `s` with an admissible instruction cache (or none; any data
    memory system). If, after ANY number `k` of single-cycle steps, the next step reports the fault `(a, f)`, then
    `a` is the pc of that step; the LOADED program stores an instruction `i` at `a` — `a` is a non-negative multiple
    of 4, `i` is entry `a / 4` of the stored list; and the kind of the fault fits `i`: not-implemented only for
    `ebreak` / `fence`, unmodelled only for CSR instructions, an invalid ecall code only for `ecall` (the code being
    `a7`, not one of the nine service codes), a memory error only for loads, stores and the print-string ecall. -/
theorem assembled_fault_single (s : St) (text : String) (hc : ICacheOK s) (k : Nat) (a : Int) (f : Fault)
    (hf : (singleStep (singleRun k (load s text).st)).fault = some (a, f)) :
    a = (singleRun k (load s text).st).pc ∧
    ∃ i, (load s text).st.imem.instrAt a = some i ∧ 0 ≤ a ∧ a % 4 = 0 ∧
      (load s text).st.imem.prog[(a / 4).toNat]? = some i ∧ i ∈ (load s text).st.imem.prog ∧
      match f with
      | .notImplemented => i.op = .ebreak ∨ i.op = .fence
      | .unmodelled => i.op.ty = .csr ∨ i.op.ty = .csri
      | .ecallCode c => i.op = .ecall ∧ c = (singleRun k (load s text).st).regs 17 ∧
          c ∉ [1, 2, 4, 11, 34, 35, 36, 10, 93]
      | .mem _ => i.op.ty = .memI ∨ i.op.ty = .s ∨
          (i.op = .ecall ∧ (singleRun k (load s text).st).regs 17 = 4) := by
  obtain ⟨him, hprog⟩ := singleRun_imemOK (ArchSim.Lemmas.C15.load_imemOK s text hc) k
  obtain ⟨hpc, i, hi⟩ := ArchSim.Props.C15.single_fault_at_pc _ a f hf
  have hi' : (load s text).st.imem.instrAt a = some i := by rw [← instrAt_prog hprog a]; exact hi
  obtain ⟨h0, h4, _, hget, hmem⟩ := ArchSim.Lemmas.E2E2.instrAt_mem hi'
  refine ⟨hpc, i, hi', h0, h4, hget, hmem, ?_⟩
  have hk := ArchSim.Props.C15.runtime_error_kind_single _ a f i (fetchOK_of_imemOK him)
    (by rw [← hpc]; exact hi) hf
  cases f <;> exact hk

/-- FIVE-STAGE MODE. Load ANY text into ANY state `s` with an admissible instruction cache (or none) and start the
    empty pipeline (hazard detection on or off). If, after ANY number `n` of cycles (faulting or not), the next
    cycle raises the fault `ft`, then the LOADED program stores exactly the reported instruction `ft.instr` at the
    reported address `ft.addr` (entry `ft.addr / 4` of the stored list), and the fault is a memory-system error or,
    for an `ecall`, an invalid service code. -/
theorem assembled_fault_five (s : St) (text : String) (hc : ICacheOK s) (hz : Bool) (n : Nat) (ft : PFault)
    (hf : (Pipe.step (pipeRun n (PSt.init (load s text).st hz))).fault = some ft) :
    (load s text).st.imem.instrAt ft.addr = some ft.instr ∧ 0 ≤ ft.addr ∧ ft.addr % 4 = 0 ∧
    (load s text).st.imem.prog[(ft.addr / 4).toNat]? = some ft.instr ∧
    ft.instr ∈ (load s text).st.imem.prog ∧
    ((∃ e, ft.fault = .mem e) ∨ (∃ c, ft.fault = .ecallCode c ∧ ft.instr.op = .ecall)) := by
  have hok := pipeRun_ok n _ (load_pipeOK s text hc hz)
  have hi := ArchSim.Props.C15.runtime_error_instr_at_addr_five_inv _ hok ft hf
  rw [instrAt_prog (load_pipeRun_prog s text hc hz n)] at hi
  obtain ⟨h0, h4, _, hget, hmem⟩ := ArchSim.Lemmas.E2E2.instrAt_mem hi
  refine ⟨hi, h0, h4, hget, hmem, ?_⟩
  rcases ArchSim.Props.C15.runtime_error_typed_five _ ft hf with ⟨d, _, _, _, _, hk⟩ | ⟨e, _, _, _, _, _, e', he'⟩
  · exact hk
  · exact .inl ⟨e', he'⟩

/-- THE SIMULATION API, BOTH MODES. Let `sim` be a `RiscvSimulation` (single-stage or five-stage) whose pipeline
    registers are empty — a new simulation, or one that has only been loaded into — with an admissible instruction
    cache (or none). After `load_program(text)` for ANY text and ANY number `k` of `step()` calls (raising or not), if
    the next `step()` raises an `InstructionExecutionException (a, oi, f)`, then it carries an instruction
    (`oi = some i`) and the program stored by THAT load has exactly `i` at address `a`. -/
theorem assembled_sim_fault (sim : Sim.RSim) (text : String) (hc : ICacheOK sim.p.st)
    (he : sim.p.l0 = none ∧ sim.p.l1 = none ∧ sim.p.l2 = none ∧ sim.p.l3 = none ∧ sim.p.l4 = none ∧
      sim.p.stalled = none)
    (k : Nat) (a : Int) (oi : Option Instr) (f : Fault)
    (hf : (Sim.step (iter Sim.stepS k (Sim.load sim text).1)).fault = some (a, oi, f)) :
    ∃ i, oi = some i ∧ (load sim.p.st text).st.imem.instrAt a = some i ∧ 0 ≤ a ∧ a % 4 = 0 ∧
      (load sim.p.st text).st.imem.prog[(a / 4).toNat]? = some i ∧ i ∈ (load sim.p.st text).st.imem.prog := by
  have hok := simIter_ok (simLoad_ok sim text hc he) k
  obtain ⟨i, ho, hi⟩ := sim_fault_instr hok hf
  rw [instrAt_prog hok.prog] at hi
  obtain ⟨h0, h4, _, hget, hmem⟩ := ArchSim.Lemmas.E2E2.instrAt_mem hi
  exact ⟨i, ho, hi, h0, h4, hget, hmem⟩

/-! ### non-vacuity (the text `faultText` of `Lemmas/E2E2Ex.lean`: its second instruction loads from address 0, below
the data range) -/

section
open ArchSim.Lemmas.E2E2.Ex

example : faultText = "addi x2, x0, 1\nlw x1, 0(x0)" := faultText_eq

/-- Hypothesis `ICacheOK` for the power-on state, and for a state with an instruction cache. -/
example : ICacheOK freshSt ∧ ICacheOK cacheSt := ⟨icacheOK_none rfl, cacheSt_icacheOK⟩

/-- Hypothesis of `assembled_fault_single`: after one step the next single-cycle step faults at address 4 … -/
example : (singleStep (singleRun 1 (load freshSt faultText).st)).fault = some (4, .mem (.addr 0)) := by
  rw [load_faultText_st]; decide

/-- … and the conclusion, evaluated: the loaded program stores the `lw` at address 4 = entry 1. -/
example : (load freshSt faultText).st.imem.instrAt 4 = some { op := .lw, rd := 1, rs1 := 0, imm := 0 } := by
  rw [load_faultText_st]; decide

/-- Hypothesis of `assembled_fault_five`: after 4 cycles the next cycle raises for the `lw` in MEM. -/
example : (Pipe.step (pipeRun 4 (PSt.init (load freshSt faultText).st true))).fault =
    some ⟨4, { op := .lw, rd := 1, rs1 := 0, imm := 0 }, .mem (.addr 0)⟩ := by
  rw [load_faultText_st]; decide

/-- Hypotheses of `assembled_sim_fault` for a new five-stage simulation: empty registers, and the fifth `step()`
    after the load raises with address 4 and the `lw`. -/
example : (Sim.step (iter Sim.stepS 4 (Sim.load { five := true, p := PSt.init freshSt true } faultText).1)).fault =
    some (4, some { op := .lw, rd := 1, rs1 := 0, imm := 0 }, .mem (.addr 0)) := by
  have e : (Sim.load { five := true, p := PSt.init freshSt true } faultText).1 =
      { five := true, p := PSt.init (progSt faultProg) true } := by
    show ({ five := true, p := { PSt.init freshSt true with st := (load freshSt faultText).st } } : Sim.RSim) = _
    rw [load_faultText_st]; rfl
  rw [e]; decide

end

end ArchSim.Props.C15Asm
