/-
C17 — Displayed values are faithful in all four number representations (formatter part).

`Fmt.nBitRepr number n` models `get_n_bit_representations(number, n)` of
`architecture_simulator/util/integer_representations.py`.  The theorems below read the four produced
strings back with the *independent* readers of `ArchSim/Spec/Digits.lean` (`ofDigits`, `parseSigned`,
`stripSpaces`, `splitSpaces`, `IsRightGrouping`) and state that they denote the `n`-bit
two's-complement value of `number`, for EVERY width `n ≥ 1` and EVERY integer `number`
(negative and over-wide inputs included).

  `unsignedVal n number = (number % 2^n).toNat`              the bit pattern as a natural number
  `signedVal n number   = if u ≥ 2^(n-1) then u - 2^n else u`   its two's-complement reading

Property theorems only; helper lemmas live in `ArchSim/Lemmas/C17*.lean`.
(The tables built from the formatter — register table, data-memory table, TOY views — are in
`Props/C17Views.lean`.)
-/
import ArchSim.Model.Fmt
import ArchSim.Spec.Digits
import ArchSim.Lemmas.C17Main

namespace ArchSim.Props.C17
open ArchSim.Fmt ArchSim.Spec.Digits ArchSim.Lemmas.C17

/-! ### what value is displayed -/

/-- The value the displays are measured against is the two's-complement one: the unsigned value is
the `n`-bit pattern of `number` (`BitVec.ofInt n number` read as a natural number, so `< 2^n`), the
signed value is the same pattern read as a signed integer; it lies in `[-2^(n-1), 2^(n-1))` and is
congruent to `number` modulo `2^n`. -/
theorem value_is_twos_complement (n : Nat) (hn : 1 ≤ n) (number : Int) :
    unsignedVal n number = (BitVec.ofInt n number).toNat ∧
    signedVal n number = (BitVec.ofInt n number).toInt ∧
    unsignedVal n number < 2 ^ n ∧
    -(2 : Int) ^ (n - 1) ≤ signedVal n number ∧ signedVal n number < (2 : Int) ^ (n - 1) ∧
    (signedVal n number - number) % (2 : Int) ^ n = 0 :=
  ⟨unsignedVal_eq_bitVec n number, signedVal_eq_bitVec n hn number, unsignedVal_lt n number,
    signedVal_range n hn number⟩

example : unsignedVal 12 (-1) = 4095 ∧ signedVal 12 (-1) = -1 ∧ signedVal 12 2048 = -2048 := by decide

/-! ### digit round trips -/

/-- Heart of the formatter: for every base from 2 to 16 and EVERY natural number `m`, the digit string
produced by `natStr` (Python `format(m, 'b' | 'd' | 'X')`) reads back as `m`; it has no leading zero
unless `m = 0` (then it is `"0"`); and after zero padding to width `w` it has exactly `w` digits and
still reads back as `m`, whenever `m < base ^ w`. -/
theorem natStr_round_trip (base : Nat) (hb : 2 ≤ base) (hb' : base ≤ 16) (m : Nat) :
    ofDigits base (natStr base m) = some m ∧
    (m ≠ 0 → (natStr base m).head? ≠ some '0') ∧
    (m = 0 → natStr base m = ['0']) ∧
    ∀ w, 1 ≤ w → m < base ^ w →
      ofDigits base (padLeft w (natStr base m)) = some m ∧ (padLeft w (natStr base m)).length = w :=
  ⟨ofDigits_natStr base hb hb' m, natStr_head_ne_zero base hb hb' m,
    fun h => h ▸ natStr_zero base, fun w hw hm => padded_natStr base hb hb' w m hw hm⟩

example : natStr 16 48879 = "BEEF".toList ∧ padLeft 8 (natStr 2 5) = "00000101".toList := by decide

/-- The signed-decimal printer (Python `str(x)`) round-trips for every integer. -/
theorem intStr_round_trip (x : Int) : parseSigned (intStr x) = some x :=
  parseSigned_intStr x

example : intStr (-2048) = "-2048".toList := by decide

/-! ### characterisation of `groupify` -/

/-- `groupify g s` only inserts spaces: deleting the spaces of the output gives `s` back (for a
space-free `s`; in general it gives `s` without its spaces). -/
theorem groupify_strip (g : Nat) (hg : 1 ≤ g) (s : List Char) :
    stripSpaces (groupify g s) = stripSpaces s ∧ (' ' ∉ s → stripSpaces (groupify g s) = s) :=
  ⟨stripSpaces_groupify g hg s, stripSpaces_groupify_of_no_space g hg s⟩

/-- `groupify g s` puts the spaces after every `g` characters counted from the right: for non-empty,
space-free `s`, cutting the output at its spaces gives pieces that concatenate to `s`, all of length
exactly `g` except the first, whose length is between 1 and `g`.  Consequently the list of piece
lengths is `[len - g*k, g, …, g]` with `k = (len - 1) / g` copies of `g`. -/
theorem groupify_split (g : Nat) (hg : 1 ≤ g) (s : List Char) (hs : s ≠ []) (hsp : ' ' ∉ s) :
    IsRightGrouping g s (splitSpaces (groupify g s)) ∧
    (splitSpaces (groupify g s)).map List.length
      = (s.length - g * ((s.length - 1) / g)) :: List.replicate ((s.length - 1) / g) g :=
  ⟨splitSpaces_groupify g hg s hs hsp,
    IsRightGrouping.map_length hg (splitSpaces_groupify g hg s hs hsp)⟩

example : groupify 4 "1110000".toList = "111 0000".toList ∧
    splitSpaces (groupify 4 "1110000".toList) = ["111".toList, "0000".toList] := by decide

/-! ### the four strings of `get_n_bit_representations` -/

/-- Binary string: after deleting the group separators it consists of exactly `n` characters, and
read as a base-2 numeral (most significant digit first) it is the unsigned `n`-bit value. -/
theorem bin_denotes (n : Nat) (hn : 1 ≤ n) (number : Int) :
    ofDigits 2 (stripSpaces (nBitRepr number n).bin.toList) = some (unsignedVal n number) ∧
    (stripSpaces (nBitRepr number n).bin.toList).length = n := by
  rw [bin_strip]
  exact padded_natStr 2 (by decide) (by decide) n _ hn (unsignedVal_lt n number)

/-- Binary string, grouping: it is `groupify 8` of its `n` digits, and cutting it at the spaces gives
groups of exactly 8 digits except the leftmost, which has 1 to 8 (separator after every 8 digits
counted from the right). -/
theorem bin_grouping (n : Nat) (number : Int) :
    (nBitRepr number n).bin.toList = groupify 8 (stripSpaces (nBitRepr number n).bin.toList) ∧
    IsRightGrouping 8 (stripSpaces (nBitRepr number n).bin.toList)
      (splitSpaces (nBitRepr number n).bin.toList) := by
  rw [bin_strip]
  refine ⟨nBitRepr_bin number n, ?_⟩
  rw [nBitRepr_bin]
  exact splitSpaces_groupify 8 (by decide) _
    (padLeft_ne_nil _ _ (natStr_ne_nil _ _))
    (padded_natStr_no_space 2 (by decide) (by decide) _ _)

/-- Unsigned-decimal string: it contains only decimal digits, reads as the unsigned `n`-bit value, and
has no leading zero unless the value is 0 (then it is exactly `"0"`). -/
theorem udec_denotes (n : Nat) (number : Int) :
    ofDigits 10 (nBitRepr number n).udec.toList = some (unsignedVal n number) ∧
    (unsignedVal n number ≠ 0 → (nBitRepr number n).udec.toList.head? ≠ some '0') ∧
    (unsignedVal n number = 0 → (nBitRepr number n).udec.toList = ['0']) := by
  rw [nBitRepr_udec]
  exact ⟨ofDigits_natStr 10 (by decide) (by decide) _,
    natStr_head_ne_zero 10 (by decide) (by decide) _, fun h => h ▸ natStr_zero 10⟩

/-- Hexadecimal string: after deleting the separators it has exactly `⌈n/4⌉ = (n+3)/4` characters,
each an upper-case hex digit (`0-9`, `A-F`), and read in base 16 it is the unsigned `n`-bit value. -/
theorem hex_denotes (n : Nat) (hn : 1 ≤ n) (number : Int) :
    ofDigits 16 (stripSpaces (nBitRepr number n).hex.toList) = some (unsignedVal n number) ∧
    (stripSpaces (nBitRepr number n).hex.toList).length = (n + 3) / 4 ∧
    ∀ c ∈ stripSpaces (nBitRepr number n).hex.toList, isUpperHexDigit c := by
  rw [hex_strip]
  have h := padded_natStr 16 (by decide) (by decide) ((n + 3) / 4) _ (by omega)
    (unsignedVal_lt_hex n number)
  exact ⟨h.1, h.2, padded_natStr_upperHex 16 (by decide) (by decide) _ _⟩

/-- Hexadecimal string, grouping: it is `groupify 2` of its digits, and cutting it at the spaces gives
groups of exactly 2 digits except the leftmost, which has 1 or 2. -/
theorem hex_grouping (n : Nat) (number : Int) :
    (nBitRepr number n).hex.toList = groupify 2 (stripSpaces (nBitRepr number n).hex.toList) ∧
    IsRightGrouping 2 (stripSpaces (nBitRepr number n).hex.toList)
      (splitSpaces (nBitRepr number n).hex.toList) := by
  rw [hex_strip]
  refine ⟨nBitRepr_hex number n, ?_⟩
  rw [nBitRepr_hex]
  exact splitSpaces_groupify 2 (by decide) _
    (padLeft_ne_nil _ _ (natStr_ne_nil _ _))
    (padded_natStr_no_space 16 (by decide) (by decide) _ _)

/-- Signed-decimal string: an optional minus sign followed by decimal digits, denoting the
two's-complement reading of the `n`-bit value (`u - 2^n` if `u ≥ 2^(n-1)`, else `u`). -/
theorem sdec_denotes (n : Nat) (number : Int) :
    parseSigned (nBitRepr number n).sdec.toList = some (signedVal n number) ∧
    signedVal n number =
      (if unsignedVal n number ≥ 2 ^ (n - 1) then (unsignedVal n number : Int) - (2 : Int) ^ n
       else (unsignedVal n number : Int)) := by
  rw [nBitRepr_sdec]
  exact ⟨parseSigned_intStr _, rfl⟩

-- non-vacuity: the hypotheses are only `1 ≤ n`; concrete instances (negative and over-wide inputs)
example : nBitRepr (-1) 12 = ⟨"1111 11111111", "4095", "F FF", "-1"⟩ := by decide
example : nBitRepr 70000 16 = ⟨"00010001 01110000", "4464", "11 70", "4464"⟩ := by decide
example : nBitRepr (-2147483648) 32 =
    ⟨"10000000 00000000 00000000 00000000", "2147483648", "80 00 00 00", "-2147483648"⟩ := by decide
example : nBitRepr 5 1 = ⟨"1", "1", "1", "-1"⟩ := by decide

/-! ### the widths used by the inspection functions -/

/-- RISC-V registers and data-memory words (32 bits, `get_32_bit_representations`): the binary string
is 4 groups of 8 binary digits, the hex string 4 groups of 2 upper-case hex digits, both denote the
unsigned value `number mod 2^32`, as does the decimal string; the signed string denotes that value
read in 32-bit two's complement. -/
theorem repr32 (number : Int) :
    let r := nBitRepr number 32
    let u := unsignedVal 32 number
    ofDigits 2 (stripSpaces r.bin.toList) = some u ∧
    (splitSpaces r.bin.toList).map List.length = [8, 8, 8, 8] ∧
    ofDigits 10 r.udec.toList = some u ∧
    ofDigits 16 (stripSpaces r.hex.toList) = some u ∧
    (splitSpaces r.hex.toList).map List.length = [2, 2, 2, 2] ∧
    parseSigned r.sdec.toList = some (if u ≥ 2147483648 then (u : Int) - 4294967296 else u) ∧
    u = (BitVec.ofInt 32 number).toNat ∧
    (if u ≥ 2147483648 then (u : Int) - 4294967296 else u) = (BitVec.ofInt 32 number).toInt := by
  intro r u
  have hb := IsRightGrouping.map_length (by decide) (bin_grouping 32 number).2
  have hh := IsRightGrouping.map_length (by decide) (hex_grouping 32 number).2
  rw [(bin_denotes 32 (by decide) number).2] at hb
  rw [(hex_denotes 32 (by decide) number).2.1] at hh
  exact ⟨(bin_denotes 32 (by decide) number).1, hb, (udec_denotes 32 number).1,
    (hex_denotes 32 (by decide) number).1, hh, (sdec_denotes 32 number).1,
    unsignedVal_eq_bitVec 32 number, signedVal_eq_bitVec 32 (by decide) number⟩

/-- TOY accumulator, instruction register and memory words (16 bits,
`get_16_bit_representations`): 2 groups of 8 binary digits, 2 groups of 2 hex digits, all four
strings denote the value in 16-bit two's complement. -/
theorem repr16 (number : Int) :
    let r := nBitRepr number 16
    let u := unsignedVal 16 number
    ofDigits 2 (stripSpaces r.bin.toList) = some u ∧
    (splitSpaces r.bin.toList).map List.length = [8, 8] ∧
    ofDigits 10 r.udec.toList = some u ∧
    ofDigits 16 (stripSpaces r.hex.toList) = some u ∧
    (splitSpaces r.hex.toList).map List.length = [2, 2] ∧
    parseSigned r.sdec.toList = some (if u ≥ 32768 then (u : Int) - 65536 else u) ∧
    u = (BitVec.ofInt 16 number).toNat ∧
    (if u ≥ 32768 then (u : Int) - 65536 else u) = (BitVec.ofInt 16 number).toInt := by
  intro r u
  have hb := IsRightGrouping.map_length (by decide) (bin_grouping 16 number).2
  have hh := IsRightGrouping.map_length (by decide) (hex_grouping 16 number).2
  rw [(bin_denotes 16 (by decide) number).2] at hb
  rw [(hex_denotes 16 (by decide) number).2.1] at hh
  exact ⟨(bin_denotes 16 (by decide) number).1, hb, (udec_denotes 16 number).1,
    (hex_denotes 16 (by decide) number).1, hh, (sdec_denotes 16 number).1,
    unsignedVal_eq_bitVec 16 number, signedVal_eq_bitVec 16 (by decide) number⟩

/-- TOY program counter and addresses (12 bits, `get_12_bit_representations`): the binary string is a
group of 4 digits followed by a group of 8, the hex string one digit followed by a group of 2, all
four strings denote the value in 12-bit two's complement. -/
theorem repr12 (number : Int) :
    let r := nBitRepr number 12
    let u := unsignedVal 12 number
    ofDigits 2 (stripSpaces r.bin.toList) = some u ∧
    (splitSpaces r.bin.toList).map List.length = [4, 8] ∧
    ofDigits 10 r.udec.toList = some u ∧
    ofDigits 16 (stripSpaces r.hex.toList) = some u ∧
    (splitSpaces r.hex.toList).map List.length = [1, 2] ∧
    parseSigned r.sdec.toList = some (if u ≥ 2048 then (u : Int) - 4096 else u) ∧
    u = (BitVec.ofInt 12 number).toNat ∧
    (if u ≥ 2048 then (u : Int) - 4096 else u) = (BitVec.ofInt 12 number).toInt := by
  intro r u
  have hb := IsRightGrouping.map_length (by decide) (bin_grouping 12 number).2
  have hh := IsRightGrouping.map_length (by decide) (hex_grouping 12 number).2
  rw [(bin_denotes 12 (by decide) number).2] at hb
  rw [(hex_denotes 12 (by decide) number).2.1] at hh
  exact ⟨(bin_denotes 12 (by decide) number).1, hb, (udec_denotes 12 number).1,
    (hex_denotes 12 (by decide) number).1, hh, (sdec_denotes 12 number).1,
    unsignedVal_eq_bitVec 12 number, signedVal_eq_bitVec 12 (by decide) number⟩

example : unsignedVal 32 (-5) = 4294967291 ∧ unsignedVal 16 70000 = 4464 ∧
    unsignedVal 12 (-2048) = 2048 := by decide

end ArchSim.Props.C17
