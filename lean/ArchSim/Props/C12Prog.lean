/-
C12, last clause and program level — "The memory table shown to the user is therefore always current
under write-through and may lag under write-back only for resident blocks."

Property theorems only (plus non-vacuity examples).  Definitions and helper lemmas:
`ArchSim/Lemmas/C12Prog{Mem,Table,WT,Evo,WB,Cov,Rows,Rel,Step,Top,Ex}.lean`.

The table.  `get_data_memory_entries` (riscv_simulation.py) calls `wordwise_repr()` on the memory system,
which both cache systems forward to the BACKING `Memory`; the rows are then sorted by address and
formatted (C17).  In the model the unsorted rows are `reprEntries mem 32 : Except AddrErr (List (Int × Nat))`
(`Memory.wordwise_repr`, C18): one row `(word address, 32-bit value)` per word containing a stored cell,
in first-stored order (`Mem.keys` = the Python dict's insertion order).  For a memory system
`ms : Rv.MemSys`, `dataTable ms = reprEntries ms.backing 32` (Lemmas/C12ProgTop).

Vocabulary of C03 / C12: `CInv`, `PolicyOK`, `logical`, `resident`, `runOps`, `flatOps` (the flat reference
memory fed the same history: accepted writes are performed with `Mem.write`, everything else is skipped),
`preload`; of C03Prog: `CacheRel`, `StepAccepted`, `RunAccepted`, `singleRun`, `simN`, `pipeRun`.
New here:
  * `Cov s m` (Lemmas/C12ProgCov): every cell the flat memory `m` has stored is a stored cell of the
    backing memory of `s` or lies in a resident block.  Holds whenever `s.mem = m` (power-on, preloads).
  * `MRelT w mc mf` (Lemmas/C12ProgRel): `mc = .cached l s`, `mf = .flat m`, `CRep l s m` (the relation of
    C03Prog: both invariants, `logical s = cells of m`), `s.wt = w`, and the table invariant `TRep s m`:
    `s.wt = true → s.mem = m` and `Cov s m`.
  * `residentAt ms a`: the block of `a` is resident in the data cache of `ms`.
-/
import ArchSim.Lemmas.C12ProgEx

namespace ArchSim.Props.C12Prog
open ArchSim ArchSim.Cache ArchSim.Mem ArchSim.Rv ArchSim.Spec.CacheAbs ArchSim.Spec.TagCache
open ArchSim.Lemmas.C03 ArchSim.Lemmas.C03Prog ArchSim.Lemmas.C12Prog

variable {σ : Type} {P : PolicyOps σ} {WFp : σ → Prop}

/-! ## 1  Write-through, operation level: the table is the one of the flat run -/

/-- Write-through, any geometry and policy, ANY history (accepted and rejected operations) from any
    state satisfying the invariant: the backing memory of the cached system EQUALS, as a structure —
    same cells, same stored keys in the same insertion order — the flat reference memory fed the same
    history from the same starting memory.  (Reads and block fills never write to the backing store,
    a rejected write does not touch it, an accepted write performs exactly the flat `Mem.write`.) -/
theorem wt_backing_is_flat_memory {s : DSys σ} (hP : PolicyOK P s.geo.assoc WFp) (hs : CInv WFp s)
    (hwt : s.wt = true) (ops : List Spec.CacheAbs.Op) (ho : ∀ o, o ∈ ops → o.wf) :
    (runOps P s ops).1.mem = (flatOps s.mem ops).1 :=
  wt_history_mem hP hs hwt ops ho

/-- Hence the memory table under write-through is literally the table of the flat run — same rows,
    same values, same order — and it never fails. -/
theorem wt_table_current {s : DSys σ} (hP : PolicyOK P s.geo.assoc WFp) (hs : CInv WFp s)
    (hwt : s.wt = true) (ops : List Spec.CacheAbs.Op) (ho : ∀ o, o ∈ ops → o.wf) :
    reprEntries (runOps P s ops).1.mem 32 = reprEntries (flatOps s.mem ops).1 32 ∧
      ∃ r, reprEntries (runOps P s ops).1.mem 32 = .ok r := by
  have hr : Repr WFp s s.mem := ⟨hs, CInvS_memOK hs.toCInvS, hs.wtc hwt⟩
  obtain ⟨⟨h1, _, _⟩, _⟩ := history_agrees hP hr ops ho
  exact ⟨by rw [wt_history_mem hP hs hwt ops ho], _, table_eq (CInvS_memOK h1.toCInvS)⟩

/-- The same from power-on for the simulator's policies: every admissible geometry, LRU or PLRU, any
    miss penalty, any `.data` preload `h`, any history: the write-through system's backing memory is
    the flat memory `run riscvCfg h` fed the same history, and so is its table. -/
theorem wt_table_current_from_reset (g : Geo) (hg : GeoOK g) (isLru : Bool) (penalty : Nat)
    (hplru : isLru = false → ∃ d, g.assoc = 2 ^ d) (h : List Spec.ByteStore.Op)
    (ops : List Spec.CacheAbs.Op) (ho : ∀ o, o ∈ ops → o.wf) :
    (runOps (polOps isLru)
        (preload (DSys.init (polOps isLru) true g penalty (Mem.empty riscvCfg)) h) ops).1.mem =
      (flatOps (Spec.ByteStore.run riscvCfg h) ops).1 ∧
    reprEntries (runOps (polOps isLru)
        (preload (DSys.init (polOps isLru) true g penalty (Mem.empty riscvCfg)) h) ops).1.mem 32 =
      reprEntries (flatOps (Spec.ByteStore.run riscvCfg h) ops).1 32 := by
  have hP := pol_ok isLru g.assoc hg.assoc hplru
  obtain ⟨h1, h2, _⟩ := ArchSim.Props.C03.preload_inv (P := polOps isLru) g hg hP true penalty h
  obtain ⟨_, _, e3, e4⟩ := preload_spec (DSys.init (polOps isLru) true g penalty (Mem.empty riscvCfg)) h
  have e := wt_history_mem (by rw [e3]; exact hP) h1 e4 ops ho
  rw [h2] at e
  exact ⟨e, by rw [e]⟩

/-! ## 2  Write-back (indeed either policy), operation level: the table lags only on resident blocks -/

/-- Rows that are shown are current outside resident blocks.  After ANY history from a state that
    represents the flat memory `m`, the table of the backing store never fails, and every row `(a, v)`
    of it whose word `a` does NOT belong to a resident block shows the value the flat reference memory
    holds at that word (`read_word(a)` on the flat memory returns `v`). -/
theorem wb_table_row_current {s : DSys σ} (hP : PolicyOK P s.geo.assoc WFp) (hs : CInv WFp s) {m : Mem}
    (hm : MemOK m) (hL : ∀ a, logical s a = m.cells ((wrap32 a : Nat) : Int))
    (ops : List Spec.CacheAbs.Op) (ho : ∀ o, o ∈ ops → o.wf) :
    ∃ rb, reprEntries (runOps P s ops).1.mem 32 = .ok rb ∧
      ∀ a v, (a, v) ∈ rb → resident (runOps P s ops).1 a = false →
        Mem.read (flatOps m ops).1 32 a = some (.ok v) := by
  obtain ⟨⟨h1, h2, h3⟩, _⟩ := history_agrees hP ⟨hs, hm, hL⟩ ops ho
  exact ⟨_, table_eq (CInvS_memOK h1.toCInvS), fun a v hav hnr =>
    backing_row_current h1.toCInvS h2 h3 _ (table_eq (CInvS_memOK h1.toCInvS)) a v hav hnr⟩

/-- Rows can be missing or stale only for words of resident blocks.  If moreover the starting state
    covers `m` (`Cov s m`) and, in case it is write-through, its backing memory is `m` (both hold when
    `s.mem = m`: power-on, preloads), then after ANY history every row `(a, v)` of the FLAT run's table
    either is a row of the backing store's table — same address, same value — or its word `a` belongs
    to a resident block.  So {flat rows} ⊆ {backing rows} ∪ {words of resident blocks}. -/
theorem wb_flat_row_covered {s : DSys σ} (hP : PolicyOK P s.geo.assoc WFp) (hs : CInv WFp s) {m : Mem}
    (hm : MemOK m) (hL : ∀ a, logical s a = m.cells ((wrap32 a : Nat) : Int))
    (hw : s.wt = true → s.mem = m) (hc : Cov s m)
    (ops : List Spec.CacheAbs.Op) (ho : ∀ o, o ∈ ops → o.wf) :
    ∃ rb rf, reprEntries (runOps P s ops).1.mem 32 = .ok rb ∧ reprEntries (flatOps m ops).1 32 = .ok rf ∧
      ∀ a v, (a, v) ∈ rf → resident (runOps P s ops).1 a = true ∨ (a, v) ∈ rb := by
  obtain ⟨⟨h1, h2, h3⟩, _⟩ := history_agrees hP ⟨hs, hm, hL⟩ ops ho
  have ht := TRep.history hP ⟨hs, hm, hL⟩ ⟨hw, hc⟩ ops ho
  refine ⟨_, _, table_eq (CInvS_memOK h1.toCInvS), table_eq h2, fun a v hav => ?_⟩
  rcases flat_row_covered h1.toCInvS h2 h3 ht.cov _ (table_eq h2) a v hav with h | ⟨rb, e, hin⟩
  · exact Or.inl h
  · rw [table_eq (CInvS_memOK h1.toCInvS)] at e
    rw [Except.ok.inj e]
    exact Or.inr hin

/-- Both directions from power-on, for the simulator's policies and EITHER write policy: every
    admissible geometry, LRU or PLRU, any miss penalty, any `.data` preload, any history.  Both tables
    are returned; a backing row outside resident blocks shows the flat value; a flat row is a backing
    row unless its word is resident. -/
theorem table_lags_only_resident_from_reset (g : Geo) (hg : GeoOK g) (wt isLru : Bool) (penalty : Nat)
    (hplru : isLru = false → ∃ d, g.assoc = 2 ^ d) (h : List Spec.ByteStore.Op)
    (ops : List Spec.CacheAbs.Op) (ho : ∀ o, o ∈ ops → o.wf) :
    ∃ rb rf,
      reprEntries (runOps (polOps isLru)
        (preload (DSys.init (polOps isLru) wt g penalty (Mem.empty riscvCfg)) h) ops).1.mem 32 = .ok rb ∧
      reprEntries (flatOps (Spec.ByteStore.run riscvCfg h) ops).1 32 = .ok rf ∧
      (∀ a v, (a, v) ∈ rb →
        resident (runOps (polOps isLru)
          (preload (DSys.init (polOps isLru) wt g penalty (Mem.empty riscvCfg)) h) ops).1 a = false →
        Mem.read (flatOps (Spec.ByteStore.run riscvCfg h) ops).1 32 a = some (.ok v)) ∧
      (∀ a v, (a, v) ∈ rf →
        resident (runOps (polOps isLru)
          (preload (DSys.init (polOps isLru) wt g penalty (Mem.empty riscvCfg)) h) ops).1 a = true ∨
        (a, v) ∈ rb) := by
  have hP := pol_ok isLru g.assoc hg.assoc hplru
  obtain ⟨h1, h2, h3⟩ := ArchSim.Props.C03.preload_inv (P := polOps isLru) g hg hP wt penalty h
  obtain ⟨_, _, e3, _⟩ := preload_spec (DSys.init (polOps isLru) wt g penalty (Mem.empty riscvCfg)) h
  have hL : ∀ a, logical (preload (DSys.init (polOps isLru) wt g penalty (Mem.empty riscvCfg)) h) a =
      (Spec.ByteStore.run riscvCfg h).cells ((wrap32 a : Nat) : Int) := by
    intro a
    rw [h3 a, ArchSim.Lemmas.C18.run_eq, ArchSim.Lemmas.C18.applyCells_cells]; rfl
  have hP' : PolicyOK (polOps isLru)
      (preload (DSys.init (polOps isLru) wt g penalty (Mem.empty riscvCfg)) h).geo.assoc
      (Repl.Pol.WF g.assoc) := by
    rw [e3]; exact hP
  obtain ⟨rb, e1, c1⟩ := wb_table_row_current hP' h1 (MemOK_run h) hL ops ho
  obtain ⟨rb', rf, e1', e2, c2⟩ := wb_flat_row_covered hP' h1 (MemOK_run h) hL (fun _ => h2)
    (TRep.of_eq h2).cov ops ho
  rw [e1] at e1'
  rw [← Except.ok.inj e1'] at c2
  exact ⟨rb, rf, e1, e2, c1, c2⟩

/-- The converse inclusion is FALSE under write-back: the backing store's table can list rows the flat
    run's table does not have.  Witness (one set, one way, one-word blocks, LRU, empty memory): two
    READS.  The first fills the block of 0x4000 — every filled block is marked dirty — the second evicts
    it, so the block is written back and the user's table lists `(0x4000, 0)` although nothing was ever
    written; the flat table is empty.  (The row's value is still current, as `wb_table_row_current`
    says: the flat memory reads 0 there.)  Under write-through the tables coincide (both empty). -/
theorem wb_backing_rows_not_in_flat :
    ∃ (g : Geo) (ops : List Spec.CacheAbs.Op), GeoOK g ∧ (∀ o, o ∈ ops → o.wf ∧ o.accepted) ∧
      reprEntries (runOps lruOps (DSys.init lruOps false g 0 (Mem.empty riscvCfg)) ops).1.mem 32 =
        .ok [(0x4000, 0)] ∧
      reprEntries (flatOps (Mem.empty riscvCfg) ops).1 32 = .ok [] ∧
      resident (runOps lruOps (DSys.init lruOps false g 0 (Mem.empty riscvCfg)) ops).1 0x4000 = false ∧
      Mem.read (flatOps (Mem.empty riscvCfg) ops).1 32 0x4000 = some (.ok 0) ∧
      reprEntries (runOps lruOps (DSys.init lruOps true g 0 (Mem.empty riscvCfg)) ops).1.mem 32 = .ok [] :=
  ⟨Ex.g1, Ex.exReads, Ex.g1_ok, by decide, by decide, by decide, by decide, by decide, by decide⟩

/-- Under write-back not even the ORDER of the common rows is that of the flat run (so the structural
    equality of §1 is specific to write-through): on the two-set direct-mapped cache `exGeo`, four word
    writes whose blocks are evicted in another order than they were written, then two reads that
    evict the rest.  Both tables have the same four rows, in different insertion order — which is why
    only the address-sorted table the GUI builds is comparable. -/
theorem wb_row_order_differs :
    reprEntries (runOps lruOps (DSys.init lruOps false exGeo 0 (Mem.empty riscvCfg)) Ex.exOrder).1.mem 32 =
        .ok [(0x4004, 2), (0x4000, 1), (0x4008, 4), (0x400C, 3)] ∧
      reprEntries (flatOps (Mem.empty riscvCfg) Ex.exOrder).1 32 =
        .ok [(0x4000, 1), (0x4004, 2), (0x400C, 3), (0x4008, 4)] ∧
      reprEntries (runOps lruOps (DSys.init lruOps true exGeo 0 (Mem.empty riscvCfg)) Ex.exOrder).1.mem 32 =
        .ok [(0x4000, 1), (0x4004, 2), (0x400C, 3), (0x4008, 4)] := by
  decide

/-! ## 3  Program level -/

/-- Power-on.  The data-memory systems of the two initial states of C03Prog `rel_init` — a fresh cache
    system (any admissible geometry, LRU/PLRU, either write policy `wt`, any penalty) after the `.data`
    preloads `h`, and the flat memory after the same preloads — satisfy `MRelT wt`. -/
theorem table_rel_init (g : Geo) (hg : GeoOK g) (l : Bool) (ha : ArchSim.Lemmas.C09.AssocOK l g.assoc)
    (wt : Bool) (penalty : Nat) (h : List Spec.ByteStore.Op) :
    MRelT wt (.cached l (preload (DSys.init (polOps l) wt g penalty (Mem.empty riscvCfg)) h))
      (.flat (Spec.ByteStore.run riscvCfg h)) :=
  mrelT_init g hg l ha wt penalty h

/-- One `Pipeline.step()` in single-cycle mode whose flat counterpart performs accepted accesses keeps
    `MRelT` (every instruction; loads with their display re-read, stores, print-string). -/
theorem step_preserves_table_rel {w : Bool} {sc sf : St} (h : CacheRel sc sf)
    (ht : MRelT w sc.mem sf.mem) (hacc : StepAccepted sf) :
    MRelT w (singleStep sc).st.mem (singleStep sf).st.mem :=
  singleStep_relT h ht hacc

/-- WRITE-THROUGH, single-cycle runs.  Along any run of a program whose accesses are accepted, after
    every number `n` of steps the backing store of the write-through data cache IS the flat data memory
    of the flat run at the same step, so the memory table shown to the user equals the flat run's. -/
theorem wt_table_current_along_run {sc sf : St} (h : CacheRel sc sf) (ht : MRelT true sc.mem sf.mem)
    (n : Nat) (hacc : ∀ j, j < n → StepAccepted (singleRun j sf)) :
    (singleRun n sc).mem.backing = (singleRun n sf).mem.backing ∧
      dataTable (singleRun n sc).mem = dataTable (singleRun n sf).mem :=
  (singleRun_relT h ht n hacc).table_eq_wt

/-- EITHER POLICY (the content is for write-back), single-cycle runs.  After every number `n` of steps
    both tables are returned; every row `(a, v)` of the user's table whose word is not in a resident
    block shows the value the flat run's memory holds at `a`; and every row of the flat run's table is
    a row of the user's table unless its word is in a resident block. -/
theorem table_lags_only_resident_along_run {w : Bool} {sc sf : St} (h : CacheRel sc sf)
    (ht : MRelT w sc.mem sf.mem) (n : Nat) (hacc : ∀ j, j < n → StepAccepted (singleRun j sf)) :
    ∃ rb rf, dataTable (singleRun n sc).mem = .ok rb ∧ dataTable (singleRun n sf).mem = .ok rf ∧
      (∀ a v, (a, v) ∈ rb → residentAt (singleRun n sc).mem a = false →
        Mem.read (singleRun n sf).mem.backing 32 a = some (.ok v)) ∧
      (∀ a v, (a, v) ∈ rf → residentAt (singleRun n sc).mem a = true ∨ (a, v) ∈ rb) :=
  (singleRun_relT h ht n hacc).rows

/-- The simulation loop itself (`C01.simN n` = `n` calls of `RiscvSimulation.step()`: no step once
    `is_done()`, stop at the first fault), every state in which the flat loop takes a step performing
    accepted accesses: after every `n` the relation `MRelT` holds, hence — write-through — the user's
    table equals the flat run's, and — either policy — the two row statements hold. -/
theorem table_along_sim {w : Bool} {sc sf : St} (h : CacheRel sc sf) (ht : MRelT w sc.mem sf.mem)
    (hacc : ∀ j, singleDone (ArchSim.Lemmas.C01.simN j sf).st = false →
      StepAccepted (ArchSim.Lemmas.C01.simN j sf).st) (n : Nat) :
    (w = true → (ArchSim.Lemmas.C01.simN n sc).st.mem.backing = (ArchSim.Lemmas.C01.simN n sf).st.mem.backing ∧
      dataTable (ArchSim.Lemmas.C01.simN n sc).st.mem = dataTable (ArchSim.Lemmas.C01.simN n sf).st.mem) ∧
    ∃ rb rf, dataTable (ArchSim.Lemmas.C01.simN n sc).st.mem = .ok rb ∧
      dataTable (ArchSim.Lemmas.C01.simN n sf).st.mem = .ok rf ∧
      (∀ a v, (a, v) ∈ rb → residentAt (ArchSim.Lemmas.C01.simN n sc).st.mem a = false →
        Mem.read (ArchSim.Lemmas.C01.simN n sf).st.mem.backing 32 a = some (.ok v)) ∧
      (∀ a v, (a, v) ∈ rf → residentAt (ArchSim.Lemmas.C01.simN n sc).st.mem a = true ∨ (a, v) ∈ rb) := by
  have hr := simN_relT n h ht hacc
  refine ⟨fun hw => ?_, hr.rows⟩
  subst hw
  exact hr.table_eq_wt

/-- FIVE-STAGE PIPELINE.  Same hypotheses as C03Prog `five_stage_cached_equals_flat` (well-formed
    program without instruction cache, `StOK`, no exit code yet, `RunAccepted` on the flat single-cycle
    run, both five-stage loops stop without a fault after `nc` resp. `nf` cycles).  At the end of the
    two runs: with a write-through data cache the backing store is the flat run's final memory and the
    user's table equals the flat run's; with either policy a row of the user's table outside resident
    blocks shows the flat value and a row of the flat table is a row of the user's table unless its
    word is resident. -/
theorem table_five_stage {w : Bool} {sc sf : St} (h : CacheRel sc sf) (ht : MRelT w sc.mem sf.mem)
    (prog : List Instr) (hp : ProgWF prog) (him : sf.imem = { prog := prog, cache := none })
    (hs : ArchSim.Lemmas.C01.StOK sf) (hx : sf.exitCode = none) (hacc : RunAccepted sf)
    (nc : Nat) (hrc : Pipe.runOK nc (Pipe.PSt.init sc true))
    (hdc : Pipe.isDone (Pipe.pipeRun nc (Pipe.PSt.init sc true)) = true)
    (hpc : ∀ m, m < nc → Pipe.isDone (Pipe.pipeRun m (Pipe.PSt.init sc true)) = false)
    (nf : Nat) (hrf : Pipe.runOK nf (Pipe.PSt.init sf true))
    (hdf : Pipe.isDone (Pipe.pipeRun nf (Pipe.PSt.init sf true)) = true)
    (hpf : ∀ m, m < nf → Pipe.isDone (Pipe.pipeRun m (Pipe.PSt.init sf true)) = false) :
    (w = true →
      (Pipe.pipeRun nc (Pipe.PSt.init sc true)).st.mem.backing =
        (Pipe.pipeRun nf (Pipe.PSt.init sf true)).st.mem.backing ∧
      dataTable (Pipe.pipeRun nc (Pipe.PSt.init sc true)).st.mem =
        dataTable (Pipe.pipeRun nf (Pipe.PSt.init sf true)).st.mem) ∧
    ∃ rb rf, dataTable (Pipe.pipeRun nc (Pipe.PSt.init sc true)).st.mem = .ok rb ∧
      dataTable (Pipe.pipeRun nf (Pipe.PSt.init sf true)).st.mem = .ok rf ∧
      (∀ a v, (a, v) ∈ rb → residentAt (Pipe.pipeRun nc (Pipe.PSt.init sc true)).st.mem a = false →
        Mem.read (Pipe.pipeRun nf (Pipe.PSt.init sf true)).st.mem.backing 32 a = some (.ok v)) ∧
      (∀ a v, (a, v) ∈ rf →
        residentAt (Pipe.pipeRun nc (Pipe.PSt.init sc true)).st.mem a = true ∨ (a, v) ∈ rb) := by
  have hr := five_stage_relT h ht prog hp him hs hx hacc nc hrc hdc hpc nf hrf hdf hpf
  refine ⟨fun hw => ?_, hr.rows⟩
  subst hw
  exact hr.table_eq_wt

/-! ## Non-vacuity -/

section
open ArchSim.Lemmas.C12Prog.Ex

-- the hypotheses of §1 / §2 are satisfiable: geometry, policy, initial invariant (either write policy),
-- coverage of the initial state, a well-formed history with accepted and rejected operations
example : GeoOK g1 := g1_ok
example : PolicyOK lruOps g1.assoc (Repl.Pol.WF g1.assoc) := lru_ok _ (by decide)
example (wt : Bool) : CInv (Repl.Pol.WF 1) (DSys.init lruOps wt g1 3 (Mem.empty riscvCfg)) :=
  (ArchSim.Props.C03.init_inv g1 g1_ok (lru_ok _ (by decide)) wt 3).1
example (wt : Bool) : Cov (DSys.init lruOps wt g1 3 (Mem.empty riscvCfg)) (Mem.empty riscvCfg) :=
  (TRep.of_eq rfl).cov
example (wt : Bool) : (DSys.init lruOps wt g1 3 (Mem.empty riscvCfg)).mem = Mem.empty riscvCfg := rfl
example : ∀ o, o ∈ exH → o.wf := by decide
example : exH.map (fun o => decide o.accepted) = [true, true, true, true, true, false, false] := by decide

-- the history `exH` on the one-set, one-way, one-word cache (write, hit / fill, write with eviction,
-- hit, half-word write into the resident block, two rejected writes).
-- WRITE-THROUGH: the user's table IS the flat table, and the stored keys come in the same order
example :
    reprEntries (runOps lruOps (DSys.init lruOps true g1 3 (Mem.empty riscvCfg)) exH).1.mem 32 =
      .ok [(0x4000, 0x11), (0x4004, 0xBEEF0022)] ∧
    reprEntries (flatOps (Mem.empty riscvCfg) exH).1 32 = .ok [(0x4000, 0x11), (0x4004, 0xBEEF0022)] ∧
    (runOps lruOps (DSys.init lruOps true g1 3 (Mem.empty riscvCfg)) exH).1.mem.keys =
      (flatOps (Mem.empty riscvCfg) exH).1.keys := by decide
-- WRITE-BACK: the evicted block of 0x4000 has been written back and its row is current; the row of
-- 0x4004 is missing — exactly the resident block; nothing else differs
example :
    reprEntries (runOps lruOps (DSys.init lruOps false g1 3 (Mem.empty riscvCfg)) exH).1.mem 32 =
      .ok [(0x4000, 0x11)] ∧
    resident (runOps lruOps (DSys.init lruOps false g1 3 (Mem.empty riscvCfg)) exH).1 0x4000 = false ∧
    Mem.read (flatOps (Mem.empty riscvCfg) exH).1 32 0x4000 = some (.ok 0x11) ∧
    resident (runOps lruOps (DSys.init lruOps false g1 3 (Mem.empty riscvCfg)) exH).1 0x4004 = true ∧
    logical (runOps lruOps (DSys.init lruOps false g1 3 (Mem.empty riscvCfg)) exH).1 0x4006 = 0xEF := by
  decide
-- … and a stale (not missing) row under write-back: overwrite 0x4000 while its block is resident again
example :
    reprEntries (runOps lruOps (DSys.init lruOps false g1 3 (Mem.empty riscvCfg))
      (exH ++ [.read 32 0x4000 true, .write 8 0x4000 0x77])).1.mem 32 =
      .ok [(0x4000, 0x11), (0x4004, 0xBEEF0022)] ∧
    reprEntries (flatOps (Mem.empty riscvCfg) (exH ++ [.read 32 0x4000 true, .write 8 0x4000 0x77])).1 32 =
      .ok [(0x4000, 0x77), (0x4004, 0xBEEF0022)] ∧
    resident (runOps lruOps (DSys.init lruOps false g1 3 (Mem.empty riscvCfg))
      (exH ++ [.read 32 0x4000 true, .write 8 0x4000 0x77])).1 0x4000 = true := by decide

-- PROGRAM LEVEL: the example program of C03Prog (`lui x5,4; addi x1,x0,5; sw x1,0(x5); lw x3,0(x5);
-- lbu x2,1(x5); addi a7,x0,10; ecall`) on the one-set, one-way, one-word LRU cache, write-back (`sc`)
-- and write-through (`scWT`), versus flat memory (`sf`).
open ArchSim.Lemmas.C03Prog.Ex in
example : CacheRel sc sf ∧ MRelT false sc.mem sf.mem ∧ CacheRel scWT sf ∧ MRelT true scWT.mem sf.mem ∧
    ∀ j, j < 7 → StepAccepted (singleRun j sf) := ⟨rel0, trelWB, relWT, trelWT, acc7⟩

-- write-through, after the run (and after the store, step 3): the user's table is the flat run's
open ArchSim.Lemmas.C03Prog.Ex in
example : dataTable (singleRun 7 scWT).mem = .ok [(0x4000, 5)] ∧ dataTable (singleRun 7 sf).mem = .ok [(0x4000, 5)] ∧
    dataTable (singleRun 3 scWT).mem = .ok [(0x4000, 5)] ∧ dataTable (singleRun 2 scWT).mem = .ok [] := by
  decide

-- write-back: the stored word never leaves the cache, so the user's table stays EMPTY while the flat
-- run's table lists (0x4000, 5): the row is missing, and its block is resident
open ArchSim.Lemmas.C03Prog.Ex in
example : dataTable (singleRun 7 sc).mem = .ok [] ∧ dataTable (singleRun 7 sf).mem = .ok [(0x4000, 5)] ∧
    residentAt (singleRun 7 sc).mem 0x4000 = true := by decide

-- five-stage mode: the hypotheses of `table_five_stage` hold for the example (write-back: C03Prog's
-- examples; write-through: below), both pipelines stop after 15 calls of `step()`
open ArchSim.Lemmas.C03Prog.Ex in
example : ProgWF prog ∧ sf.imem = { prog := prog, cache := none } ∧ ArchSim.Lemmas.C01.StOK sf ∧
    sf.exitCode = none ∧ RunAccepted sf := ⟨progWF, rfl, stOK_sf, rfl, runAccepted_sf⟩
open ArchSim.Lemmas.C03Prog.Ex in
example : Pipe.runOK 15 (Pipe.PSt.init scWT true) ∧
    Pipe.isDone (Pipe.pipeRun 15 (Pipe.PSt.init scWT true)) = true ∧
    (∀ m, m < 15 → Pipe.isDone (Pipe.pipeRun m (Pipe.PSt.init scWT true)) = false) ∧
    Pipe.runOK 15 (Pipe.PSt.init sf true) ∧ Pipe.isDone (Pipe.pipeRun 15 (Pipe.PSt.init sf true)) = true ∧
    (∀ m, m < 15 → Pipe.isDone (Pipe.pipeRun m (Pipe.PSt.init sf true)) = false) := by decide
open ArchSim.Lemmas.C03Prog.Ex in
example : dataTable (Pipe.pipeRun 15 (Pipe.PSt.init scWT true)).st.mem = .ok [(0x4000, 5)] ∧
    dataTable (Pipe.pipeRun 15 (Pipe.PSt.init sf true)).st.mem = .ok [(0x4000, 5)] ∧
    dataTable (Pipe.pipeRun 15 (Pipe.PSt.init sc true)).st.mem = .ok [] ∧
    residentAt (Pipe.pipeRun 15 (Pipe.PSt.init sc true)).st.mem 0x4000 = true := by decide

end

end ArchSim.Props.C12Prog
