import ArchSim.Model.Sim
namespace ArchSim.Props.C13
open ArchSim ArchSim.Sim
/-- Once a RISC-V simulation reports done, `step()` changes nothing and returns `False`. -/
theorem done_step_noop (s : RSim) (h : isDone s = true) :
    (step s).sim = s ∧ (step s).ret = false ∧ (step s).fault = none := by
  simp [step, h]
end ArchSim.Props.C13
