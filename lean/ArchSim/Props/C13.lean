/-
C13 (RISC-V part) — lifecycle of a `RiscvSimulation` in both modes (single-stage `five = false`,
five-stage `five = true`): done is stable under `step`/`run`, `step()` returns `not is_done()`,
`run()` is `step()` iterated (and does not depend on the fuel of the model once it has finished),
a program without instructions is done immediately, and `load_program` after any earlier loads
(successful or failed) equals the load alone — in particular on a simulation that has not started
it equals the load into a new simulation. The TOY part is `ArchSim/Props/C13Toy.lean`.

Property theorems and non-vacuity examples only; definitions (`stepS`, `iterStep`, `Call`, `calls`,
`fresh`, `loads`, `DirectReach`, `resetSt`, `loadFrom`; the example simulations `nopSim`, `exitSim`,
`exitFull`) and lemmas are in
`ArchSim/Lemmas/C13Life.lean` and `ArchSim/Lemmas/C13Load.lean`.
-/
import ArchSim.Lemmas.C13Life
import ArchSim.Lemmas.C13Load

namespace ArchSim.Props.C13
open ArchSim ArchSim.Sim

/-! ### 1. done is stable -/

/-- Once a RISC-V simulation reports done, `step()` changes nothing and returns `False`. -/
theorem done_step_noop (s : RSim) (h : isDone s = true) :
    (step s).sim = s ∧ (step s).ret = false ∧ (step s).fault = none := by
  simp [step, h]

/-- Once a simulation (either mode, any state) reports done: `step()` leaves the whole simulation
    object unchanged (architectural state, counters, output, latches, `has_started`), returns
    `False` and does not raise; `run()` with any fuel leaves it unchanged, takes 0 steps and does
    not raise; hence any sequence of `step`/`run` calls leaves it unchanged and it stays done. -/
theorem done_stable (s : RSim) (h : isDone s = true) :
    ((step s).sim = s ∧ (step s).ret = false ∧ (step s).fault = none) ∧
    (∀ fuel, run fuel s = (s, 0, none)) ∧
    (∀ cs : List Call, calls s cs = s ∧ isDone (calls s cs) = true) := by
  refine ⟨by simp [step_done h], run_done h, fun cs => ?_⟩
  rw [calls_done h cs]
  exact ⟨rfl, h⟩

/-- Non-vacuity: `nop` is done after one step (single-stage) resp. five steps (five-stage), and
    was not done before. -/
example : isDone (nopSim false) = false ∧ isDone (run 5 (nopSim false)).1 = true ∧
          isDone (nopSim true) = false ∧ isDone (run 9 (nopSim true)).1 = true := by decide

/-- Stability of done after an exit ecall (five-stage mode): whatever is still in the pipeline
    registers — younger instructions fetched behind the ecall included — a state with an exit code
    is done, every `step`/`run` call leaves it unchanged, and it keeps its exit code. -/
theorem exit_done_stable (s : RSim) (c : Int) (h5 : s.five = true) (hx : s.p.st.exitCode = some c) :
    isDone s = true ∧ (step s).sim = s ∧ (step s).ret = false ∧ (step s).fault = none ∧
    (∀ fuel, run fuel s = (s, 0, none)) ∧
    (∀ cs : List Call, calls s cs = s ∧ (calls s cs).p.st.exitCode = some c) := by
  have hd : isDone s = true := by simp [isDone, h5, Pipe.isDone, hx]
  obtain ⟨⟨h1, h2, h3⟩, h4, h6⟩ := done_stable s hd
  refine ⟨hd, h1, h2, h3, h4, fun cs => ?_⟩
  rw [(h6 cs).1]
  exact ⟨rfl, hx⟩

/-- The same in single-stage mode. -/
theorem exit_done_stable_single (s : RSim) (c : Int) (h5 : s.five = false) (hx : s.p.st.exitCode = some c) :
    isDone s = true ∧ (step s).sim = s ∧ (step s).ret = false ∧ (step s).fault = none ∧
    (∀ fuel, run fuel s = (s, 0, none)) ∧
    (∀ cs : List Call, calls s cs = s ∧ (calls s cs).p.st.exitCode = some c) := by
  have hd : isDone s = true := by simp [isDone, h5, Rv.singleDone, hx]
  obtain ⟨⟨h1, h2, h3⟩, h4, h6⟩ := done_stable s hd
  refine ⟨hd, h1, h2, h3, h4, fun cs => ?_⟩
  rw [(h6 cs).1]
  exact ⟨rfl, hx⟩

/-- Non-vacuity: `li a7, 10; ecall; nop; nop` ends with exit code 0 although an instruction exists
    at the final pc (so it is done *only* because of the exit code) in both modes; and `exitFull` is
    a state with an exit code and all four latches occupied. -/
example : (run 20 (exitSim true)).1.p.st.exitCode = some 0 ∧
          ((run 20 (exitSim true)).1.p.st.imem.instrAt (run 20 (exitSim true)).1.p.st.pc).isSome = true ∧
          (run 20 (exitSim false)).1.p.st.exitCode = some 0 ∧
          ((run 20 (exitSim false)).1.p.st.imem.instrAt (run 20 (exitSim false)).1.p.st.pc).isSome = true ∧
          exitFull.five = true ∧ exitFull.p.st.exitCode = some 0 ∧ exitFull.p.l0.isSome = true := by decide

/-! ### 2. the return value of `step()` -/

/-- `step()` returns `not is_done()` evaluated after the step: whenever it does not raise — also
    when the simulation was already done — it returns false exactly when the simulation is done
    afterwards. (When the step raises nothing is returned; the model records `false`.) -/
theorem step_result (s : RSim) :
    ((step s).fault = none → (step s).ret = !isDone (step s).sim) ∧
    ((step s).fault = none → ((step s).ret = false ↔ isDone (step s).sim = true)) ∧
    ((step s).fault ≠ none → (step s).ret = false) := by
  refine ⟨step_ret s, fun hf => ?_, step_ret_fault s⟩
  rw [step_ret s hf]
  cases isDone (step s).sim <;> simp

/-- Both return values occur, in both modes: the first step of the five-stage `nop` returns true,
    its fifth false; the only step of the single-stage `nop` returns false, the first step of the
    single-stage `exitSim` true. -/
example : (step (nopSim true)).ret = true ∧ (step (run 4 (nopSim true)).1).ret = false ∧
          (step (nopSim false)).ret = false ∧ (step (exitSim false)).ret = true ∧
          (step (nopSim true)).fault = none ∧ (step (nopSim false)).fault = none := by decide

/-! ### 3. `run()` is `step()` iterated -/

/-- `run()` reaches the state of calling `step()` until done. With fuel `n`:
    (a) the final state is `iterStep n s` — `step` applied while the simulation is not done and no
        step has raised;
    (b) precisely: `run n s` is `step` applied `k ≤ n` times, `k` is the returned step count, none of
        the states before the `k`-th is done and none of these steps raises, and either no
        exception is returned, the final state is the `k`-th iterate and it is done unless the fuel
        ran out (`k = n`), or the `(k+1)`-th step raises, that exception is returned and the final
        state is the state after the raising step;
    (c) fuel independence: once a run has ended in a done state without an exception, every larger
        fuel gives the same state, the same count and no exception (so the fuel of the model is
        immaterial for terminating programs); the same holds for a run that raised;
    (d) a second `run()` after a finished one changes nothing. -/
theorem run_eq_iterate (s : RSim) (n : Nat) :
    (run n s).1 = iterStep n s ∧
    (∃ k, k ≤ n ∧ (run n s).2.1 = k ∧
      (∀ j, j < k → isDone (iter stepS j s) = false ∧ (step (iter stepS j s)).fault = none) ∧
      (((run n s).2.2 = none ∧ (run n s).1 = iter stepS k s ∧ (k < n → isDone (iter stepS k s) = true)) ∨
       (∃ f, (run n s).2.2 = some f ∧ k < n ∧ isDone (iter stepS k s) = false ∧
          (step (iter stepS k s)).fault = some f ∧ (run n s).1 = iter stepS (k + 1) s))) ∧
    (isDone (run n s).1 = true → (run n s).2.2 = none → ∀ m, n ≤ m → run m s = run n s) ∧
    (∀ f, (run n s).2.2 = some f → ∀ m, n ≤ m → run m s = run n s) ∧
    (isDone (run n s).1 = true → ∀ m, run m (run n s).1 = ((run n s).1, 0, none)) :=
  ⟨run_eq_iterStep n s, run_iter n s, fun hd hf _ hm => run_fuel hd hf hm,
   fun _ hf _ hm => run_fuel_fault hf hm, fun hd m => run_run hd m⟩

/-- Non-vacuity: fuel 5 suffices for the five-stage `nop` (5 steps), fuel 4 does not; the
    single-stage run of `exitSim` takes 2 steps. -/
example : isDone (run 5 (nopSim true)).1 = true ∧ (run 5 (nopSim true)).2.1 = 5 ∧
          (run 5 (nopSim true)).2.2 = none ∧ isDone (run 4 (nopSim true)).1 = false ∧
          isDone (run 7 (exitSim false)).1 = true ∧ (run 7 (exitSim false)).2.1 = 2 := by decide

/-! ### 4. a program without instructions is done immediately -/

/-- A simulation whose instruction memory holds no instruction is done as soon as its four
    pipeline registers are empty (five-stage mode; nothing more is needed in single-stage mode) —
    whatever pc, registers, exit code, data memory it has. In particular a new simulation is done,
    and so is any simulation with empty pipeline registers (e.g. a new one, or one that has only
    been loaded into) after loading a text that yields no instruction. -/
theorem empty_done :
    (∀ s : RSim, s.p.st.imem.prog = [] →
      (s.five = true → s.p.l0 = none ∧ s.p.l1 = none ∧ s.p.l2 = none ∧ s.p.l3 = none) → isDone s = true) ∧
    (∀ five hazard ms ic, isDone (fresh five hazard ms ic) = true) ∧
    (∀ five hazard ms ic (earlier : List String) (text : String),
      (Asm.load (loads (fresh five hazard ms ic) earlier).p.st text).st.imem.prog = [] →
      isDone (load (loads (fresh five hazard ms ic) earlier) text).1 = true) := by
  refine ⟨isDone_of_prog_nil, fresh_isDone, ?_⟩
  intro five hazard ms ic earlier text hp
  refine load_empty_done _ _ hp (fun _ => ?_)
  obtain ⟨_, _, _, h0, h1, h2, h3, _⟩ := loads_frame (fresh five hazard ms ic) earlier
  rw [h0, h1, h2, h3]
  exact ⟨rfl, rfl, rfl, rfl⟩

/-- Non-vacuity: the empty text and a comment-only text give an empty program, and the simulation
    is done after loading them, in both modes. -/
example : (Asm.load (fresh true true flat0 none).p.st "").st.imem.prog = [] ∧
          (Asm.load (fresh false true flat0 none).p.st "# nothing\n  \n").st.imem.prog = [] ∧
          isDone (load (fresh true true flat0 none) "").1 = true ∧
          isDone (load (fresh false true flat0 none) "# nothing\n  \n").1 = true := by decide

/-! ### 5. reload = fresh load -/

/-- `load_program` after earlier loads is the load alone. For every simulation `s` (either mode,
    any memory system, any state) and all texts:
    (a) `load t2` after `load t1` — whether `t1` loaded, or failed in any pass, possibly after
        writing part of its data — gives the same simulation and the same error as `load t2`;
    (b) the same after any list of earlier loads;
    (c) hence on a simulation that has not started — a new one after any earlier loads — the load
        equals the load into a new simulation, and the simulation still has not started;
    (d) a load depends on the architectural state only through its reset: two states with the
        same `resetSt` load identically. -/
theorem reload_fresh :
    (∀ (s : RSim) (t1 t2 : String), load (load s t1).1 t2 = load s t2) ∧
    (∀ (s : RSim) (earlier : List String) (t : String), load (loads s earlier) t = load s t) ∧
    (∀ five hazard ms ic (earlier : List String) (t : String),
      load (loads (fresh five hazard ms ic) earlier) t = load (fresh five hazard ms ic) t ∧
      (load (loads (fresh five hazard ms ic) earlier) t).1.started = false) ∧
    (∀ (st st' : Rv.St) (t : String), Asm.resetSt st = Asm.resetSt st' → Asm.load st t = Asm.load st' t) :=
  ⟨load_load, load_loads,
   fun five hazard ms ic earlier t => ⟨load_loads _ earlier t, by rw [load_loads]; rfl⟩,
   fun _ _ t h => Asm.load_congr h t⟩

/-- What a load touches: registers, pc, output, exit code, all performance counters, the mode,
    `has_started`, the pipeline registers and the stall bookkeeping are unchanged; the instruction
    cache is reset (counters included); the data memory is the *reset* data memory followed by
    direct writes only (so the data-cache counters are as before the load). -/
theorem load_frame (s : RSim) (t : String) :
    let s' := (load s t).1
    (s'.five = s.five ∧ s'.started = s.started ∧ s'.p.hazard = s.p.hazard ∧ s'.p.l0 = s.p.l0 ∧ s'.p.l1 = s.p.l1 ∧
      s'.p.l2 = s.p.l2 ∧ s'.p.l3 = s.p.l3 ∧ s'.p.l4 = s.p.l4 ∧ s'.p.stalled = s.p.stalled) ∧
    (s'.p.st.regs = s.p.st.regs ∧ s'.p.st.pc = s.p.st.pc ∧ s'.p.st.output = s.p.st.output ∧
      s'.p.st.exitCode = s.p.st.exitCode ∧ s'.p.st.cycles = s.p.st.cycles ∧ s'.p.st.instrs = s.p.st.instrs ∧
      s'.p.st.branches = s.p.st.branches ∧ s'.p.st.procs = s.p.st.procs ∧ s'.p.st.stalls = s.p.st.stalls ∧
      s'.p.st.flushes = s.p.st.flushes) ∧
    s'.p.st.imem.cache = s.p.st.imem.cache.map Rv.ICache.reset ∧
    Asm.DirectReach s.p.st.mem.reset s'.p.st.mem ∧
    Asm.dCounters s'.p.st.mem = Asm.dCounters s.p.st.mem := by
  intro s'
  obtain ⟨h1, h2, h3, h4, h5, h6, h7, h8, h9, h10, h11, h12⟩ := Asm.load_frame s.p.st t
  exact ⟨load_frame_sim s t, ⟨h1, h2, h3, h4, h5, h6, h7, h8, h9, h10⟩, h11, h12, Asm.load_dCounters s.p.st t⟩

/-- Sharpness of `reload_fresh` (c): after the simulation has run, a reload is *not* a load into a
    new simulation — pc, counters and `has_started` persist (here after the single-stage `nop`). -/
example : (load (run 5 (nopSim false)).1 "").1.p.st.pc = 4 ∧ (load (run 5 (nopSim false)).1 "").1.started = true ∧
          (load (run 5 (nopSim false)).1 "").1.p.st.cycles = 1 ∧
          (load (fresh false true flat0 none) "").1.p.st.pc = 0 := by decide

end ArchSim.Props.C13
