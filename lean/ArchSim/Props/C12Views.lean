/-
C12, the DATA-CACHE TABLE the simulator shows — `RiscvSimulation.get_data_cache_entries()` as modelled by
`CacheViews.dataCacheTable` (`Model/CacheViews.lean`; the driver renders it and the check compares it with the real
getter after every step).

`C12.lean` / `C12Prog.lean` speak about the logical contents, the backing store and the memory table.  The theorems here
say what the CACHE table shows in every state that satisfies the representation invariant (i.e. after any history,
`C03.history_refines`): one row per set with its index text, one block row per way; an invalid way is blank (empty
cells, a tag of spaces); a valid way lists, for every word `j` of the block, the address `base + 4j` as 8 hex digits and
a decimal text that reads back as the word whose four bytes are the LOGICAL bytes at that address — the cache table is
always current; under write-through that word is also what the backing store (hence the memory table) holds.
Property theorems only; helper lemmas are in `Lemmas/SimViews.lean`, `Lemmas/CacheViews.lean` and the C03 lemma files.
-/
import ArchSim.Lemmas.CacheViews
import ArchSim.Lemmas.SimViews
import ArchSim.Props.C12

namespace ArchSim.Props.C12Views
open ArchSim ArchSim.Cache ArchSim.Mem ArchSim.Spec.CacheAbs ArchSim.Spec.Digits ArchSim.CacheViews
open ArchSim.Lemmas.C03 ArchSim.Lemmas.C12 ArchSim.Lemmas.SimViews ArchSim.Lemmas.C17Views ArchSim.Lemmas.CacheViews

variable {WFp : Repl.Pol → Prop}

/-- Shape of the table: one row per set, in set order; row `k` carries the index text `0x` + hex digits that read
    back as `k`, one block row per way, and the replacement status of the set's policy. -/
theorem table_shape {α : Type} (g : Geo) (showVal : α → String) (sets : List (CSet Repl.Pol α)) :
    (cacheTable g showVal sets).length = sets.length ∧
    ∀ (k : Nat) (cs : CSet Repl.Pol α), sets[k]? = some cs →
      ∃ row ds, (cacheTable g showVal sets)[k]? = some row ∧
        row.index.toList = '0' :: 'x' :: ds ∧ ofDigits 16 ds = some k ∧
        row.blocks = cs.ways.map (blockRow g showVal) ∧ row.status = statusOf cs.pol := by
  refine ⟨by simp [cacheTable], fun k cs hk => ?_⟩
  refine ⟨setRow g showVal k cs, (Views.upHex ((g.idxBits + 3) / 4) k).toList, ?_, ?_, (upHex_spec _ k).1, rfl, rfl⟩
  · simp [cacheTable, List.getElem?_mapIdx, hk]
  · simp [setRow, toHexStr]

/-- An invalid way is shown blank: valid bit `0`, one pair of empty strings per word of a block, and a tag of
    30 spaces (the tag width of the default address a never-written block carries). -/
theorem invalid_way_blank {α : Type} (g : Geo) (showVal : α → String) (w : Way α) (h : w.valid = false) :
    (blockRow g showVal w).valid = "0" ∧
    (blockRow g showVal w).cells = List.replicate (2 ^ g.blkBits) ("", "") ∧
    (blockRow g showVal w).tag.toList = List.replicate 30 ' ' := by
  rw [blockRow_invalid g showVal w h]
  exact ⟨rfl, rfl, by simp⟩

/-- A valid way of a data cache that satisfies the representation invariant: valid and dirty bit are shown as `1`
    (every block write marks the block dirty), the tag text is `0x` + hex digits that read back as the tag, and cell
    `j` shows the address `base + 4j` as exactly 8 hex digits and a decimal text that reads back as the word `v` whose
    byte lanes are the logical bytes at `base + 4j .. base + 4j + 3` — the current contents of the memory as the
    program sees it. -/
theorem valid_way_current {s : DSys Repl.Pol} (hs : CInvS WFp s) {k i : Nat} {cs : CSet Repl.Pol Nat} {w : Way Nat}
    (hk : s.sets[k]? = some cs) (hi : cs.ways[i]? = some w) (hv : w.valid = true) :
    (blockRow s.geo showWord w).valid = "1" ∧ (blockRow s.geo showWord w).dirty = "1" ∧
    (∃ ds, (blockRow s.geo showWord w).tag.toList = '0' :: 'x' :: ds ∧ ofDigits 16 ds = some w.tag) ∧
    (blockRow s.geo showWord w).cells.length = 2 ^ s.geo.blkBits ∧
    ∀ j, j < 2 ^ s.geo.blkBits → ∃ cell v, (blockRow s.geo showWord w).cells[j]? = some cell ∧
      ofDigits 16 cell.1.toList = some (w.base + 4 * j) ∧ cell.1.toList.length = 8 ∧
      ofDigits 10 cell.2.toList = some v ∧
      ∀ l, l < 4 → logical s ((w.base + 4 * j + l : Nat) : Int) = byteOf v l := by
  have hok := (hs.sets.set k cs hk).ways i w hi
  have hlen := hok.len hv
  have hd : w.dirty = true := by rw [hok.dirty, hv]
  rw [blockRow_valid s.geo showWord w hv]
  refine ⟨rfl, by simp [hd, bitStr], ?_, by simp [hlen], ?_⟩
  · refine ⟨(Views.upHex ((tagBits s.geo + 3) / 4) w.tag).toList, ?_, (upHex_spec _ _).1⟩
    simp [toHexStr]
  · intro j hj
    have hjl : j < w.vals.length := by rw [hlen]; exact hj
    have hhi := hok.hi hv
    rw [pow_blk] at hhi
    refine ⟨(toHexStr (w.base + j * 4) 32, showWord w.vals[j]), w.vals[j], ?_, ?_, ?_, dec_spec _, ?_⟩
    · simp [List.getElem?_mapIdx, List.getElem?_eq_getElem hjl]
    · have : w.base + j * 4 = w.base + 4 * j := by omega
      simp only [toHexStr, this]
      exact (upHex_spec 8 _).1
    · simp only [toHexStr]
      exact (upHex_spec 8 _).2.2 (by decide) (by
        have : (16 : Nat) ^ 8 = 4294967296 := by decide
        omega)
    · intro l hl
      rw [logical_of_way hs hk hi hv j l hj hl]
      simp [wordAt, List.getD_eq_getElem?_getD, List.getElem?_eq_getElem hjl]

/-- Under write-through the word a valid cell shows is also the word the backing store holds at that address — the
    cache table and the memory table agree on every resident block. -/
theorem write_through_cell_is_backing {s : DSys Repl.Pol} (hs : CInv WFp s) (hwt : s.wt = true) {k i : Nat}
    {cs : CSet Repl.Pol Nat} {w : Way Nat} (hk : s.sets[k]? = some cs) (hi : cs.ways[i]? = some w)
    (hv : w.valid = true) (j : Nat) (hj : j < 2 ^ s.geo.blkBits) :
    ∃ cell v, (blockRow s.geo showWord w).cells[j]? = some cell ∧ ofDigits 10 cell.2.toList = some v ∧
      Mem.read s.mem 32 (((w.base + 4 * j : Nat) : Int)) = some (.ok v) := by
  have hok := (hs.sets.set k cs hk).ways i w hi
  have hlen := hok.len hv
  have hjl : j < w.vals.length := by rw [hlen]; exact hj
  rw [blockRow_valid s.geo showWord w hv]
  refine ⟨(toHexStr (w.base + j * 4) 32, showWord w.vals[j]), w.vals[j], ?_, dec_spec _, ?_⟩
  · simp [List.getElem?_mapIdx, List.getElem?_eq_getElem hjl]
  · rw [resident_backed hs hwt hk hi hv j hj]
    simp [wordAt, List.getD_eq_getElem?_getD, List.getElem?_eq_getElem hjl]

/-- Without a data cache the getter returns `None`; with one, the table of its sets. -/
theorem dataCacheTable_cases (m : Rv.MemSys) :
    (∀ mem, m = .flat mem → dataCacheTable m = none) ∧
    (∀ l s, m = .cached l s → dataCacheTable m = some (cacheTable s.geo showWord s.sets)) :=
  ⟨fun _ h => by subst h; rfl, fun _ _ h => by subst h; rfl⟩

/-! ### non-vacuity -/

-- one valid way of a two-word block at 0x4008 holding 7 and 300
example : blockRow ⟨1, 1, 1⟩ showWord { valid := true, dirty := true, tag := 1024, base := 16392, vals := [7, 300] } =
    { valid := "1", dirty := "1", cells := [("00004008", "7"), ("0000400C", "300")], tag := "0x0000400" } := by decide
example : (blockRow ⟨1, 1, 1⟩ showWord (Way.empty : Way Nat)).cells = [("", ""), ("", "")] := by decide

end ArchSim.Props.C12Views
