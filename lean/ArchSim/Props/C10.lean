/-
C10 — Replacement policies: LRU evicts the least recently used, PLRU follows its tree.
Property theorems only; helper lemmas live in `ArchSim/Lemmas/`.
-/
import ArchSim.Model.Repl

namespace ArchSim.Props.C10
open ArchSim.Repl

/-- Accessing the same block twice in a row leaves the LRU state unchanged. -/
theorem lru_access_idem (l l' : List Nat) (i : Nat) (hn : l.Nodup) (h : lruAccess l i = some l') :
    lruAccess l' i = some l' := by
  unfold lruAccess at h
  split at h
  · rename_i hi
    cases h
    unfold lruAccess
    have hni : i ∉ l.erase i := by
      intro hc
      exact (List.Nodup.mem_erase_iff hn).mp hc |>.1 rfl
    simp [List.erase_append_right _ hni]
  · cases h

end ArchSim.Props.C10
