/-
C10 — Replacement policies: LRU evicts the least recently used, PLRU follows its tree.

"For every associativity and every history of block accesses within a set, LRU chooses as victim the
block whose last access is oldest (blocks never accessed first, in index order) and reports block ages
consistent with that order; PLRU chooses the block reached by following its tree bits from the root,
and each access sets every bit on the accessed block's path to point away from it. Accessing the same
block twice in a row leaves the policy state unchanged."

Property theorems only; helper lemmas live in `ArchSim/Lemmas/C10*.lean`, the specification
vocabulary (`lruRun`, `age`; `PTree`, `absTree`, `victimT`, `accessT`, `pointsAway`, `path`, `PlruWF`,
`plruRun`) in `ArchSim/Spec/LruAge.lean` and `ArchSim/Spec/PlruTree.lean`, `Pol.WF` in
`ArchSim/Lemmas/C10Pol.lean`.
-/
import ArchSim.Model.Repl
import ArchSim.Spec.LruAge
import ArchSim.Spec.PlruTree
import ArchSim.Lemmas.C10Lru
import ArchSim.Lemmas.C10Plru
import ArchSim.Lemmas.C10Pol

namespace ArchSim.Props.C10
open ArchSim.Repl ArchSim.Spec.Lru ArchSim.Spec.Plru ArchSim.Lemmas.C10

/-! ## LRU — every associativity, every finite history of in-range accesses -/

/-- The age key really is "time of the last access, never-accessed ways first in index order":
    a way that does not occur in the history has key `i`; a way whose last occurrence is at
    position `t` (it is `h[t]` and occurs nowhere later) has key `assoc + t`. -/
theorem lru_age_meaning (assoc : Nat) (h : List Nat) (i : Nat) :
    (i ∉ h → age assoc h i = i) ∧
    (∀ t, h[t]? = some i → (∀ t', t < t' → h[t']? ≠ some i) → age assoc h i = assoc + t) := by
  constructor
  · intro hi; simp [age, lastOcc_eq_none.mpr hi]
  · intro t h1 h2; simp [age, lastOcc_eq_some.mpr ⟨h1, h2⟩]

/-- The LRU run over any history of in-range ways never raises, and its state is a permutation of
    `0 … assoc-1`: no duplicates, and `i` is in the list exactly when `i < assoc`. -/
theorem lru_run_perm (assoc : Nat) (h : List Nat) (hh : ∀ x ∈ h, x < assoc) :
    ∃ s, lruRun assoc h = some s ∧ s.Perm (List.range assoc) ∧ s.Nodup ∧ s.length = assoc ∧
      ∀ i, i ∈ s ↔ i < assoc := by
  obtain ⟨s, hs, hp, _⟩ := lruRun_inv assoc h hh
  refine ⟨s, hs, hp, hp.nodup_iff.mpr List.nodup_range, by simpa using hp.length_eq, ?_⟩
  intro i; rw [hp.mem_iff, List.mem_range]

/-- The LRU list is strictly sorted by the age key computed from the history alone
    (oldest first). -/
theorem lru_state_sorted_by_age (assoc : Nat) (h s : List Nat) (hh : ∀ x ∈ h, x < assoc)
    (hs : lruRun assoc h = some s) :
    s.Pairwise (fun a b => age assoc h a < age assoc h b) := by
  obtain ⟨s', hs', _, hsort⟩ := lruRun_inv assoc h hh
  rw [hs] at hs'; cases hs'; exact hsort

/-- LRU's victim is the way whose last access is oldest (never-accessed ways first, in index order):
    it exists, is a way of the set, minimises the age key, and is the *unique* minimiser. -/
theorem lru_victim_oldest (assoc : Nat) (h s : List Nat) (ha : 0 < assoc)
    (hh : ∀ x ∈ h, x < assoc) (hs : lruRun assoc h = some s) :
    ∃ v, lruVictim s = some v ∧ v < assoc ∧
      (∀ j, j < assoc → age assoc h v ≤ age assoc h j) ∧
      (∀ j, j < assoc → j ≠ v → age assoc h v < age assoc h j) := by
  obtain ⟨s', hs', hp, hsort⟩ := lruRun_inv assoc h hh
  rw [hs] at hs'; cases hs'
  obtain ⟨v, h1, h2, _, h4⟩ := head_minimises hp hsort ha
  refine ⟨v, h1, h2, ?_, h4⟩
  intro j hj
  by_cases e : j = v
  · subst e; exact Nat.le_refl _
  · exact Nat.le_of_lt (h4 j hj e)

/-- `get_repr` reports ages consistent with that order: the reported list is a permutation of
    `0 … assoc-1`, way `i` has a smaller reported value than way `j` exactly when `i` is older than
    `j`, and the victim is reported as `0`. -/
theorem lru_repr_consistent (assoc : Nat) (h s : List Nat) (hh : ∀ x ∈ h, x < assoc)
    (hs : lruRun assoc h = some s) :
    (lruRepr s).Perm (List.range assoc) ∧
    (∀ i j, i < assoc → j < assoc →
      ∃ ri rj, (lruRepr s)[i]? = some ri ∧ (lruRepr s)[j]? = some rj ∧
        (ri < rj ↔ age assoc h i < age assoc h j)) ∧
    (∀ v, lruVictim s = some v → (lruRepr s)[v]? = some 0) := by
  obtain ⟨s', hs', hp, hsort⟩ := lruRun_inv assoc h hh
  rw [hs] at hs'; cases hs'
  refine ⟨lruRepr_perm hp, fun i j hi hj => lruRepr_consistent hp hsort hi hj, ?_⟩
  intro v hv
  cases s with
  | nil => cases hv
  | cons w r =>
    simp only [lruVictim, List.head?_cons, Option.some.injEq] at hv
    subst hv
    have hw : w < (w :: r).length := by
      have : w < assoc := List.mem_range.mp (hp.mem_iff.mp (by simp))
      rw [hp.length_eq]; simpa using this
    rw [lruRepr_getElem? _ hw]; simp

/-- Accessing the same block twice in a row leaves the LRU state unchanged
    (any duplicate-free state, in particular every reachable one). -/
theorem lru_access_idem (l l' : List Nat) (i : Nat) (hn : l.Nodup) (h : lruAccess l i = some l') :
    lruAccess l' i = some l' :=
  lruAccess_idem hn h

/-- Run form of idempotence: a history ending in `i, i` leaves the same state as the history ending
    in a single `i`. -/
theorem lru_access_idem_run (assoc : Nat) (h : List Nat) (i : Nat)
    (hh : ∀ x ∈ h, x < assoc) (hi : i < assoc) :
    lruRun assoc (h ++ [i] ++ [i]) = lruRun assoc (h ++ [i]) ∧ (lruRun assoc (h ++ [i])).isSome := by
  obtain ⟨s, hs, hp, _⟩ := lruRun_inv assoc (h ++ [i]) (by
    intro x hx
    rcases List.mem_append.mp hx with hx | hx
    · exact hh x hx
    · have : x = i := by simpa using hx
      exact this ▸ hi)
  obtain ⟨s0, hs0, hp0, _⟩ := lruRun_inv assoc h hh
  have hacc : lruAccess s0 i = some s := by simpa [lruRun_snoc, hs0] using hs
  have := lruAccess_idem (hp0.nodup_iff.mpr List.nodup_range) hacc
  refine ⟨?_, by simp [hs]⟩
  rw [lruRun_snoc, hs]; simpa using this

/-- Non-vacuity: a concrete 4-way history with repeats; way 3 is never accessed and is the victim. -/
example : (∀ x ∈ [2, 0, 2, 1], x < 4) ∧ lruRun 4 [2, 0, 2, 1] = some [3, 0, 2, 1] ∧
    lruVictim [3, 0, 2, 1] = some 3 ∧ lruRepr [3, 0, 2, 1] = [1, 3, 2, 0] ∧
    (List.range 4).map (age 4 [2, 0, 2, 1]) = [5, 7, 6, 3] := by decide

example : [3, 0, 2, 1].Nodup ∧ lruAccess [3, 0, 2, 1] 0 = some [3, 2, 1, 0] := by decide

/-! ## PLRU — every depth `d`, associativity `2^d`, every reachable state -/

/-- The constructor's state for associativity `2^d` is well formed; in particular
    `tree_depth = int(log2(2^d)) = d`. -/
theorem plru_init_wf (d : Nat) :
    PlruWF d (plruInit (2 ^ d)) ∧ (plruInit (2 ^ d)).depth = d ∧ log2 (2 ^ d) = d :=
  ⟨plruInit_wf d, log2_two_pow d, log2_two_pow d⟩

/-- The PLRU run over any history of in-range ways never raises; the state stays well formed
    (depth `d`, associativity `2^d`, bit list of length `2^d - 1`). -/
theorem plru_run_wf (d : Nat) (h : List Nat) (hh : ∀ x ∈ h, x < 2 ^ d) :
    ∃ p, plruRun d h = some p ∧ PlruWF d p ∧ p.tree.length = 2 ^ d - 1 := by
  obtain ⟨p, h1, h2⟩ := plruRunFrom_wf (plruInit_wf d) h hh
  exact ⟨p, h1, h2, h2.2.2⟩

/-- Tree abstraction, victim: `get_next_to_replace` never raises and returns the leaf reached by
    following the tree bits from the root; it is a way of the set. -/
theorem plru_victim_follows_tree (d : Nat) (p : Plru) (hp : PlruWF d p) :
    plruVictim p = some (victimT (absTree d p)) ∧ victimT (absTree d p) < 2 ^ d :=
  ⟨plruVictim_eq hp, victimT_lt _⟩

/-- Tree abstraction, access: the bottom-up loop of `access` never raises on an in-range way, keeps
    the state well formed, and on the abstract tree is the top-down recursion `accessT`; afterwards
    every bit on the root-to-leaf path of the accessed way points away from it. -/
theorem plru_access_refines_tree (d : Nat) (p : Plru) (i : Nat) (hp : PlruWF d p) (hi : i < 2 ^ d) :
    ∃ p', plruAccess p i = some p' ∧ PlruWF d p' ∧
      absTree d p' = accessT (absTree d p) i ∧ pointsAway (absTree d p') i := by
  have ha := plruAccess_eq hp hi
  have habs := absTree_plruAccess hp hi ha
  exact ⟨_, ha, plruAccess_wf hp hi ha, habs, habs ▸ pointsAway_accessT _ _⟩

/-- Every bit that is not on the root-to-leaf path of the accessed way is unchanged by `access`
    (heap-array level; `path d i` lists the heap indices of the path's inner nodes). -/
theorem plru_access_frame (d : Nat) (p p' : Plru) (i n : Nat) (hp : PlruWF d p) (hi : i < 2 ^ d)
    (h : plruAccess p i = some p') (hn : n ∉ path d i) : p'.tree[n]? = p.tree[n]? := by
  rw [plruAccess_eq hp hi] at h
  cases h
  exact accessTD_getElem?_of_not_path hn

/-- The `path` of the frame theorem is exactly the set of nodes the loop of `access` assigns: with
    1-based heap indices the loop variable starts at `index + assoc = 2^d + i` and is halved once per
    iteration, `d` times; the nodes written are `(2^d + i) / 2^m - 1` for `m = 1 … d`. -/
theorem plru_path_is_loop_path (d i n : Nat) (hi : i < 2 ^ d) :
    n ∈ path d i ↔ ∃ m, 1 ≤ m ∧ m ≤ d ∧ n + 1 = (2 ^ d + i) / 2 ^ m :=
  mem_path_iff d i n hi

/-- For `d ≥ 1` the way just accessed is never the next victim. -/
theorem plru_victim_ne_accessed (d : Nat) (p p' : Plru) (i : Nat) (hd : 0 < d) (hp : PlruWF d p)
    (hi : i < 2 ^ d) (h : plruAccess p i = some p') :
    ∃ v, plruVictim p' = some v ∧ v < 2 ^ d ∧ v ≠ i := by
  have hw' := plruAccess_wf hp hi h
  refine ⟨_, plruVictim_eq hw', victimT_lt _, ?_⟩
  rw [absTree_plruAccess hp hi h]
  exact victimT_accessT_ne hd _ i

/-- Accessing the same block twice in a row leaves the PLRU state unchanged. -/
theorem plru_access_idem (d : Nat) (p p' : Plru) (i : Nat) (hp : PlruWF d p) (hi : i < 2 ^ d)
    (h : plruAccess p i = some p') : plruAccess p' i = some p' := by
  have hw' := plruAccess_wf hp hi h
  rw [plruAccess_eq hp hi] at h
  cases h
  rw [plruAccess_eq hw' hi]
  simp only [accessTD_idem]

/-- Run form of idempotence: a history ending in `i, i` leaves the same state as the history ending
    in a single `i` (and neither run raises). -/
theorem plru_access_idem_run (d : Nat) (h : List Nat) (i : Nat)
    (hh : ∀ x ∈ h, x < 2 ^ d) (hi : i < 2 ^ d) :
    plruRun d (h ++ [i] ++ [i]) = plruRun d (h ++ [i]) ∧ (plruRun d (h ++ [i])).isSome := by
  obtain ⟨p0, h0, hw0⟩ := plruRunFrom_wf (plruInit_wf d) h hh
  have ha := plruAccess_eq hw0 hi
  have hw1 := plruAccess_wf hw0 hi ha
  have h1 : plruRun d (h ++ [i]) = some { p0 with tree := accessTD d 0 i p0.tree } := by
    unfold plruRun
    rw [plruRunFrom_snoc, h0]; simpa using ha
  refine ⟨?_, by simp [h1]⟩
  unfold plruRun at h1 ⊢
  rw [plruRunFrom_snoc, h1]
  simp only [Option.bind_some]
  rw [plruAccess_eq hw1 hi]
  simp only [accessTD_idem]

/-- Non-vacuity: an 8-way PLRU after a concrete history; access of way 5 and the next victim. -/
example : (∀ x ∈ [5, 0, 6], x < 2 ^ 3) ∧ PlruWF 3 (plruInit (2 ^ 3)) ∧
    (plruRun 3 [5, 0, 6]).map (·.tree) = some [false, true, false, true, false, false, true] ∧
    (plruRun 3 [5, 0, 6]).bind plruVictim = some 2 ∧
    path 3 5 = [0, 2, 5] := by decide

/-- Non-vacuity for the single-step theorems: a well-formed non-initial state, an in-range way, a
    successful access that changes the state, and the resulting victim. -/
example :
    let p : Plru := ⟨8, 3, [false, true, false, true, false, false, true]⟩
    let p' : Plru := ⟨8, 3, [true, true, false, false, false, false, true]⟩
    PlruWF 3 p ∧ 1 < 2 ^ 3 ∧ plruAccess p 1 = some p' ∧ p' ≠ p ∧ plruVictim p' = some 4 ∧
      1 ∉ path 3 5 := by decide

/-! ## The policy as the cache uses it (`Pol`) -/

/-- Every policy the cache constructs is well formed (PLRU needs a power-of-two associativity, as
    its constructor asserts). -/
theorem pol_init_wf (isLru : Bool) (assoc : Nat) (h : isLru = false → ∃ d, assoc = 2 ^ d) :
    Pol.WF assoc (Pol.init isLru assoc) :=
  Pol.WF_init isLru assoc h

/-- On a well-formed policy state, `access` with an in-range way never raises and keeps the state
    well formed. -/
theorem pol_access_total (assoc : Nat) (p : Pol) (i : Nat) (hp : Pol.WF assoc p) (hi : i < assoc) :
    ∃ p', p.access i = some p' ∧ Pol.WF assoc p' :=
  hp.access hi

/-- On a well-formed policy state of a non-empty set, `victim` never raises and is a way of the set. -/
theorem pol_victim_total (assoc : Nat) (p : Pol) (hp : Pol.WF assoc p) (ha : 0 < assoc) :
    ∃ v, p.victim = some v ∧ v < assoc :=
  hp.victim ha

/-- Accessing the same block twice in a row leaves the policy state unchanged (LRU and PLRU). -/
theorem pol_access_idem (assoc : Nat) (p p' : Pol) (i : Nat) (hp : Pol.WF assoc p)
    (h : p.access i = some p') : p'.access i = some p' :=
  hp.access_idem h

/-- For associativity ≥ 2 the way just accessed is never the next victim (LRU and PLRU). -/
theorem pol_victim_ne_accessed (assoc : Nat) (p p' : Pol) (i : Nat) (hp : Pol.WF assoc p)
    (ha : 2 ≤ assoc) (hi : i < assoc) (h : p.access i = some p') : p'.victim ≠ some i :=
  hp.victim_access_ne ha hi h

/-- Non-vacuity: both constructors give well-formed states; an access and a victim. -/
example : Pol.WF 4 (Pol.init true 4) ∧ Pol.WF 4 (Pol.init false 4) ∧
    ((Pol.init false 4).access 1).bind Pol.victim = some 2 ∧
    ((Pol.init true 4).access 0).bind Pol.victim = some 1 := by decide

end ArchSim.Props.C10
