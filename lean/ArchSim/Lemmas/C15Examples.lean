/-
C15 — concrete instances for the non-vacuity examples of `Props/C15.lean`.
`one_of` sorts its symbols with `mergeSort` (well-founded recursion, opaque to `decide`), so a failing
`one_of` is shown through membership: no symbol matches.
-/
import ArchSim.Model.Sim
import ArchSim.Model.ToyAsm

namespace ArchSim.Lemmas.C15.Ex
open ArchSim ArchSim.PP ArchSim.Asm

theorem go_fail (i : Inp) (l : List String) (h : ∀ s ∈ l, rePrefix s.toList i = none) :
    oneOfCaseless.go i l = .fail := by
  induction l with
  | nil => rfl
  | cons s ss ih =>
    unfold oneOfCaseless.go
    rw [h s (by simp)]
    exact ih (fun s' hs' => h s' (by simp [hs']))

/-- a caseless `one_of` none of whose symbols matches fails -/
theorem oneOfCaseless_fail {syms : List String} {i : Inp}
    (h : ∀ s ∈ syms, rePrefix s.toList (skipWs i) = none) : oneOfCaseless syms i = .fail := by
  unfold oneOfCaseless
  apply go_fail
  intro s hs
  exact h s (by simpa [longestFirst, List.mem_mergeSort] using hs)

/-- the erroneous line of the example -/
def badLine : List Char := "foo bar".toList

theorem h_rtype : pRType badLine = .fail := by
  unfold pRType; rw [oneOfCaseless_fail (by decide)]; rfl
theorem h_utype : pUType badLine = .fail := by
  unfold pUType; rw [oneOfCaseless_fail (by decide)]; rfl
theorem h_btype : pBType badLine = .fail := by
  unfold pBType; rw [oneOfCaseless_fail (by decide)]; rfl
theorem h_memory : pMemory badLine = .fail := by
  unfold pMemory; rw [oneOfCaseless_fail (by decide)]; rfl
theorem h_mempseudo : pMemPseudo badLine = .fail := by
  unfold pMemPseudo; rw [oneOfCaseless_fail (by decide)]; rfl
theorem h_spseudo : pSPseudo badLine = .fail := by
  unfold pSPseudo; rw [oneOfCaseless_fail (by decide)]; rfl
theorem h_csr : pCsr badLine = .fail := by
  unfold pCsr; rw [oneOfCaseless_fail (by decide)]; rfl
theorem h_csri : pCsri badLine = .fail := by
  unfold pCsri; rw [oneOfCaseless_fail (by decide)]; rfl
theorem h_rri : pRegRegImm badLine = .fail := by
  unfold pRegRegImm; rw [oneOfCaseless_fail (by decide)]; rfl
theorem h_mv : pMv badLine = .fail := by
  unfold pMv; rw [oneOfCaseless_fail (by decide)]; rfl
theorem h_fence : pFence badLine = .fail := by rfl
theorem h_jal : pJal badLine = .fail := by rfl
theorem h_li : pLi badLine = .fail := by rfl

theorem h_ecall : first [fun k => (caselessLit "ecall" k).map (fun _ => Item.str "ecall"),
                        fun k => (caselessLit "ebreak" k).map (fun _ => Item.str "ebreak")] badLine = .fail := by
  rfl
theorem h_nop : (caselessLit "nop" badLine).map (fun _ => Item.str "nop") = .fail := by rfl

theorem h_body : pInstrBody badLine = .fail := by
  unfold pInstrBody orLongest
  simp only [List.map, h_rtype, h_utype, h_btype, h_memory, h_mempseudo, h_spseudo, h_csr, h_csri, h_rri,
    h_mv, h_fence, h_jal, h_li, R.map]
  rfl

theorem h_parse : parseLine badLine = none := by
  have h1 : pDirective badLine = .fail := by rfl
  have h2 : pVarDecl badLine = .fail := by rfl
  have h3 : pStrDecl badLine = .fail := by rfl
  have h4 : pZeroDecl badLine = .fail := by rfl
  have h5 : pInstruction badLine = .fail := by
    unfold pInstruction
    have : opt pLabelDecl badLine = .ok none badLine := by rfl
    rw [this]
    simp only [R.bind, h_body, R.map]
  have h6 : (pLabelDecl badLine).map (fun l => ({ lbl := none, item := Item.str l } : Tok)) = .fail := by rfl
  unfold parseLine orLongest
  simp only [List.map, h1, h2, h3, h4, h5, h6]
  rfl

/-- the three-line example text -/
def exText : String := "# demo\n  foo bar # c\nnop"

theorem ex_sanitize : sanitize exText = [(2, badLine), (3, "nop".toList)] := by decide

theorem ex_load (s : Rv.St) : (Asm.load s exText).err = some (.parser "ParserSyntaxException" 2 "foo bar") := by
  unfold Asm.load
  simp only [ex_sanitize, tokenize, h_parse]
  rfl

/-! ### TOY -/

theorem toy_parse : ToyAsm.parseLine badLine = none := by
  have h1 : ToyAsm.pDirective badLine = .fail := by rfl
  have h2 : ToyAsm.pVarDecl badLine = .fail := by rfl
  have ha : ToyAsm.pAddrInstr none badLine = .fail := by
    unfold ToyAsm.pAddrInstr; rw [oneOfCaseless_fail (by decide)]; rfl
  have hb : ToyAsm.pNoAddrInstr none badLine = .fail := by
    unfold ToyAsm.pNoAddrInstr; rw [oneOfCaseless_fail (by decide)]; rfl
  have h3 : ToyAsm.pInstruction badLine = .fail := by
    unfold ToyAsm.pInstruction
    have : opt ToyAsm.pLabelDecl badLine = .ok none badLine := by rfl
    rw [this]
    simp only [R.bind, orLongest, List.map, ha, hb]
    rfl
  have h4 : (ToyAsm.pLabelDecl badLine).map ToyAsm.TStmt.label = .fail := by rfl
  unfold ToyAsm.parseLine orLongest
  simp only [List.map, h1, h2, h3, h4]
  rfl

theorem toy_ex_load (t : ArchSim.Toy.TSim) :
    (ToyAsm.load t exText).2 = some (.parser "ParserSyntaxException" 2 "foo bar") := by
  unfold ToyAsm.load
  have : ToyAsm.sanitize exText = [(2, badLine), (3, "nop".toList)] := ex_sanitize
  simp only [this, ToyAsm.tokenize, toy_parse]
  rfl

/-! ### run-time faults -/

/-- a one-instruction program: `lw x1, 0(x0)` reads address 0, below the data range -/
def lwInstr : Rv.Instr := { op := .lw, rd := 1, rs1 := 0, imm := 0 }
def faultSt : Rv.St := { Asm.freshSt with imem := { prog := [lwInstr], cache := none } }

theorem single_fault : (Rv.singleStep faultSt).fault = some (0, .mem (.addr 0)) := by decide

/-- the same instruction in the EX/MEM latch of an otherwise empty pipeline -/
def faultPipe : Pipe.PSt :=
  { Pipe.PSt.init faultSt false with
    l2 := some { instr := lwInstr, addr := 0, pc4 := 4, result := some 0 } }

theorem pipe_fault : (Pipe.step faultPipe).fault = some ⟨0, lwInstr, .mem (.addr 0)⟩ := by decide

/-- `load_program` does not clear the pipeline registers: reloading (here the empty program) while
    the `lw` is in flight leaves it in the EX/MEM register. -/
def reloaded : Sim.RSim := (Sim.load { five := true, p := faultPipe } "").1

theorem reloaded_stale : (Sim.load { five := true, p := faultPipe } "").2 = none ∧
    reloaded.p.st.imem.prog = [] ∧
    (Pipe.step reloaded.p).fault = some ⟨0, lwInstr, .mem (.addr 0)⟩ ∧
    reloaded.p.st.imem.instrAt 0 = none := by decide

end ArchSim.Lemmas.C15.Ex
