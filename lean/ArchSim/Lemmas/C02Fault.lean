/-
C02 (control half), part 15: a fault raised by a stage is the fault the abstraction predicts.
-/
import ArchSim.Lemmas.C02Main

namespace ArchSim.Pipe
open ArchSim ArchSim.Rv

/-- The ALU never fails on a latch decoded by ID from a well-formed instruction. -/
theorem aluCompute_some (d : Latch) (regs : Nat → Nat) (hrr : d.rr = accessRegs d.instr regs)
    (hok : InstrOK d.instr) : aluCompute d.instr (aluIn1 d) (aluIn2 d) ≠ none := by
  have hs := hok.2
  cases hop : d.instr.op <;>
    simp [aluCompute, aluIn1, aluIn2, ctlOf, accessRegs, hrr, hop, Op.ty] <;>
    (try (rw [hop] at hs; simp at hs; omega))

end ArchSim.Pipe

namespace ArchSim.Pipe
open ArchSim ArchSim.Rv

theorem ecallRun_fault_output (s : St) (d : Latch) (ft : PFault) (h : (ecallRun s d).fault = some ft) :
    (ecallRun s d).st.output = s.output := by
  unfold ecallRun at h ⊢
  split <;> simp_all

/-- A fault raised by EX: it is an ECALL with nothing older in flight; the abstraction is the
    physical state, stuck at that ECALL with that fault. -/
theorem ex_fault_local (p : PSt) (hI : PInv p) (ft : PFault) (h : (exOut p).fault = some ft) :
    absC p = ⟨p.st, some (ft.addr, some ft.fault), []⟩ ∧ (exOut p).st.regs = p.st.regs ∧
      (exOut p).st.output = p.st.output := by
  obtain ⟨hok, _, hrr⟩ := exInput_ok p hI
  cases hd : exInput p with
  | none => unfold exOut at h; rw [hd] at h; cases h
  | some d =>
    by_cases hop : d.instr.op = .ecall
    · cases hw : ecallMustWait d p.l2 p.l3
      · obtain ⟨hm, hl3⟩ := exec_mode p hI d hd hw
        have hrun : exOut p = ecallRun (wbOut p).1 d := by
          unfold exOut; rw [hd]; exact exStage_ecall_go _ d _ _ hop hw
        have hs2 : Sim p.st (wbOut p).1 := by
          have := wbOut_sim p hI; rw [hl3] at this; exact this
        obtain ⟨e1, _, e3⟩ := ecallRun_sim hs2 d
        have hgo : exStage p.st (some d) none none = ecallRun p.st d :=
          exStage_ecall_go p.st d none none hop (ecallMustWait_none d)
        have hf : (exStage p.st (some d) none none).fault = some ft := by rw [hgo, e3, ← hrun]; exact h
        have hc : cEX p.st (some d) = ⟨p.st, some (ft.addr, some ft.fault), []⟩ := by
          unfold cEX; rw [hf]; rfl
        refine ⟨?_, ?_, ?_⟩
        · rw [absC_eq, older_exec p hm hl3, bind_pure, hd, hc]; rfl
        · rw [hrun, ecallRun_regs]; exact hs2.regs.symm
        · rw [hrun] at h ⊢; rw [ecallRun_fault_output _ _ ft h]; exact hs2.output.symm
      · unfold exOut at h; rw [hd, exStage_ecall_wait _ d _ _ hop hw] at h; cases h
    · exfalso
      unfold exOut at h; rw [hd, exStage_nonecall _ d _ _ hop] at h
      obtain ⟨regs, hr⟩ := hrr d hd
      have := aluCompute_some d regs hr (hok d hd)
      split at h
      · rename_i heq; exact this heq
      · cases h

end ArchSim.Pipe

namespace ArchSim.Pipe
open ArchSim ArchSim.Rv

@[simp] theorem memStage_output (s : St) (l : Option Latch) : (memStage s l).st.output = s.output := by
  cases l with
  | none => rfl
  | some m => unfold memStage; simp only []; repeat' split <;> try rfl

theorem memInput_some_l2 (p : PSt) (e : Latch) (h : memInput p = some e) : p.l2 = some e := by
  unfold memInput at h; split at h
  · exact h
  · split at h
    · cases h
    · exact h

/-- A fault raised by MEM: the abstraction is stuck at that instruction with that fault, in the state
    after the write-back of the MEM/WB latch. -/
theorem mem_fault_local (p : PSt) (hI : PInv p) (ft : PFault) (h : (memOut p).fault = some ft) :
    absC p = ⟨(wbStage p.st p.l3).1, some (ft.addr, some ft.fault), latchLog p.l3⟩ ∧
      (memOut p).st.regs = (wbStage p.st p.l3).1.regs ∧
      (memOut p).st.output = (wbStage p.st p.l3).1.output := by
  cases hm : memInput p with
  | none => unfold memOut at h; rw [hm] at h; cases h
  | some e =>
    have hl2 := memInput_some_l2 p e hm
    have hx : latchExit p.l3 = false := by
      cases hx : latchExit p.l3 with
      | false => rfl
      | true => rw [hI.e3 hx] at hl2; cases hl2
    have hsx : (exOut p).st = (wbOut p).1 := by
      rcases exOut_cases p hI with h' | ⟨_, _, _, _, h', _⟩
      · exact h'
      · rw [hm] at h'; cases h'
    have hsim := wbOut_sim p hI
    have hmo : memOut p = memStage (wbOut p).1 (memInput p) := by unfold memOut; rw [hsx]
    obtain ⟨m1, _, m3⟩ := memStage_sim hsim (memInput p)
    have hf : (memStage (wbStage p.st p.l3).1 (memInput p)).fault = some ft := by rw [m3, ← hmo]; exact h
    have hc : cMEM (wbStage p.st p.l3).1 (memInput p) none =
        ⟨(wbStage p.st p.l3).1, some (ft.addr, some ft.fault), []⟩ := by
      unfold cMEM; rw [hf]; rfl
    refine ⟨?_, ?_, ?_⟩
    · have ho : older p = ⟨(wbStage p.st p.l3).1, some (ft.addr, some ft.fault), latchLog p.l3⟩ := by
        unfold older; rw [cWB_noexit _ _ hx, bind_logged, hc]
        simp [Comp.prefixLog]
      rw [absC_eq, ho]; rfl
    · rw [hmo, memStage_regs]; exact hsim.regs.symm
    · rw [hmo, memStage_output]; exact hsim.output.symm

end ArchSim.Pipe

namespace ArchSim.Pipe
open ArchSim ArchSim.Rv

/-- A fault reported by `step`: the abstraction is stuck in front of exactly that instruction with
    exactly that fault, and the physical registers and output at the moment of the fault are those
    of the abstraction (the sequential state before the faulting instruction). -/
theorem fault_local (p : PSt) (hI : PInv p) (ft : PFault) (h : (step p).fault = some ft) :
    absF p = some (ft.addr, ft.fault) ∧ (abs p).pc = ft.addr ∧
      (step p).p.st.regs = (abs p).regs ∧ (step p).p.st.output = (abs p).output := by
  rw [step_eq] at h ⊢
  cases hex : (exOut p).fault with
  | some f =>
    rw [hex] at h; simp only [] at h ⊢
    cases h
    obtain ⟨ha, hr, ho⟩ := ex_fault_local p hI _ hex
    unfold absF abs; rw [ha]
    exact ⟨rfl, rfl, hr, ho⟩
  | none =>
    rw [hex] at h; simp only [] at h ⊢
    cases hme : (memOut p).fault with
    | some f =>
      rw [hme] at h; simp only [] at h ⊢
      cases h
      obtain ⟨ha, hr, ho⟩ := mem_fault_local p hI _ hme
      unfold absF abs; rw [ha]
      exact ⟨rfl, rfl, hr, ho⟩
    | none => rw [hme] at h; cases h

end ArchSim.Pipe
