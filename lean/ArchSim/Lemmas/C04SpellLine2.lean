/-
C04 (spelling independence), part 10: blanks at the start of a line are invisible to `parseLine`; the letter
case of the mnemonic of a line is invisible to `parseLine`.
-/
import ArchSim.Lemmas.C04SpellLine

namespace ArchSim.Lemmas.C04Spell
open ArchSim ArchSim.PP ArchSim.Rv ArchSim.Asm ArchSim.Lemmas.C14

/-! ### leading blanks -/

theorem oneOfCaseless_ws (syms : List String) (ws i : List Char) (h : AllWs ws) :
    oneOfCaseless syms (ws ++ i) = oneOfCaseless syms i := by
  unfold oneOfCaseless
  simp only [skipWs_append ws i h]

theorem caselessLit_ws (kw : String) (ws i : List Char) (h : AllWs ws) :
    caselessLit kw (ws ++ i) = caselessLit kw i := by
  unfold caselessLit
  simp only [skipWs_append ws i h]

theorem pInstrBody_ws (ws i : List Char) (h : AllWs ws) : pInstrBody (ws ++ i) = pInstrBody i := by
  unfold pInstrBody
  apply orLongest_congr
  intro p hp
  simp only [List.mem_cons, List.not_mem_nil, or_false] at hp
  rcases hp with rfl | rfl | rfl | rfl | rfl | rfl | rfl | rfl | rfl | rfl | rfl | rfl | rfl | rfl | rfl
  · simp only [pRType, oneOfCaseless_ws _ ws i h]
  · simp only [pUType, oneOfCaseless_ws _ ws i h]
  · simp only [pBType, oneOfCaseless_ws _ ws i h]
  · simp only [pMemory, oneOfCaseless_ws _ ws i h]
  · simp only [pMemPseudo, oneOfCaseless_ws _ ws i h]
  · simp only [pSPseudo, oneOfCaseless_ws _ ws i h]
  · simp only [pCsr, oneOfCaseless_ws _ ws i h]
  · simp only [pCsri, oneOfCaseless_ws _ ws i h]
  · simp only [pRegRegImm, oneOfCaseless_ws _ ws i h]
  · simp only [pFence, caselessLit_ws _ ws i h]
  · simp only [pJal, caselessLit_ws _ ws i h]
  · simp only [first, caselessLit_ws _ ws i h]
  · simp only [caselessLit_ws _ ws i h]
  · simp only [pLi, caselessLit_ws _ ws i h]
  · simp only [pMv, oneOfCaseless_ws _ ws i h]

theorem pLabel_ws (ws i : List Char) (h : AllWs ws) : pLabel (ws ++ i) = pLabel i := word_ws _ _ ws i h

theorem pLabelDecl_ws (ws i : List Char) (h : AllWs ws) : pLabelDecl (ws ++ i) = pLabelDecl i := by
  simp only [pLabelDecl, pLabel_ws ws i h]

theorem pInstruction_ws (ws i : List Char) (h : AllWs ws) : pInstruction (ws ++ i) = pInstruction i := by
  simp only [pInstruction, opt, pLabelDecl_ws ws i h]
  cases pLabelDecl i with
  | ok a r => rfl
  | abort => rfl
  | fail => simp only [bind_ok, pInstrBody_ws ws i h]

/-- Blanks (spaces, tabs) at the start of a line never change how it is tokenized. -/
theorem parseLine_ws (ws l : List Char) (h : AllWs ws) : parseLine (ws ++ l) = parseLine l := by
  unfold parseLine
  rw [orLongest_congr _ (ws ++ l) l]
  intro p hp
  simp only [List.mem_cons, List.not_mem_nil, or_false] at hp
  rcases hp with rfl | rfl | rfl | rfl | rfl | rfl
  · simp only [pDirective, lit_ws _ ws l h]
  · simp only [pVarDecl, pLabel_ws ws l h]
  · simp only [pStrDecl, pLabel_ws ws l h]
  · simp only [pZeroDecl, pLabel_ws ws l h]
  · exact pInstruction_ws ws l h
  · simp only [pLabelDecl_ws ws l h]

/-! ### the letter case of the mnemonic -/

/-- What follows the mnemonic on the line: nothing, or an ASCII character that is no letter, digit or
    underscore; and the next non-blank character is not a colon (the word is not a label). -/
structure LineSep (rest : Inp) : Prop where
  ascii : ∀ c ∈ rest.head?, c.toNat < 128 ∧ isLabelBody c = false
  colon : (skipWs rest).head? ≠ some ':'

theorem LineSep.mnSep {rest : Inp} (h : LineSep rest) : MnSep rest := by
  intro c hc
  obtain ⟨h1, h2⟩ := h.ascii c hc
  refine ⟨h1, ?_⟩
  simp only [isLabelBody, isAlnum, Bool.or_eq_false_iff] at h2
  exact h2.1.1

theorem LineSep.tokEnd {rest : Inp} (h : LineSep rest) : TokEnd rest := fun c hc => (h.ascii c hc).2

theorem lineSep_nil : LineSep [] := ⟨by simp, by simp⟩

/-- a blank and then anything but a colon: the usual case -/
theorem lineSep_ws (c : Char) (r : Inp) (hc : isWs c = true) (hr : (skipWs r).head? ≠ some ':') :
    LineSep (c :: r) := by
  refine ⟨?_, ?_⟩
  · intro d hd
    simp only [List.head?_cons, Option.mem_def, Option.some.injEq] at hd
    subst hd
    exact ⟨(mnSep_ws c r hc c (by simp)).1, isWs_not_labelBody c hc⟩
  · have : skipWs (c :: r) = skipWs r := by simp [skipWs, hc]
    rw [this]; exact hr

theorem pLabel_var (w' w rest : List Char) (hv : CaseVar w' w) (hne : w ≠ []) (ht : TokEnd rest) :
    pLabel (w' ++ rest) = .ok (String.ofList w') rest := by
  cases w' with
  | nil => exact absurd hv.nil_iff hne
  | cons c cs =>
    have hc := letter_facts c (hv.letters c (by simp))
    have hcs : ∀ d ∈ cs, isLabelBody d = true :=
      fun d hd => (letter_facts d (hv.letters d (by simp [hd]))).2.2.2.2.2.2.2
    simp only [pLabel, word, List.cons_append, skipWs_cons_of_not_ws c _ hc.2.1, wordAdj, hc.2.2.2.2.2.2.1,
      if_true, takeWhile_class isLabelBody cs rest hcs ht, dropWhile_class isLabelBody cs rest hcs ht]

theorem pColon_fail (rest : Inp) (h : (skipWs rest).head? ≠ some ':') : pColon rest = .fail := by
  simp only [pColon, lit]
  cases hs : skipWs rest with
  | nil => simp [stripPrefix]
  | cons c r =>
    rw [hs] at h
    have : c ≠ ':' := by simpa using h
    simp [stripPrefix, Ne.symm this]

theorem pDirective_var (w' w rest : List Char) (hv : CaseVar w' w) (hne : w ≠ []) :
    pDirective (w' ++ rest) = .fail := by
  cases w' with
  | nil => exact absurd hv.nil_iff hne
  | cons c cs =>
    have hc := letter_facts c (hv.letters c (by simp))
    simp [pDirective, lit, skipWs_cons_of_not_ws c _ hc.2.1, stripPrefix, Ne.symm hc.2.2.2.2.2.1]

/-- Mnemonics are case-insensitive, for whole lines: writing the mnemonic `m` at the start of the line in
    any mixture of upper and lower case gives the same token (same tree, same canonical mnemonic). -/
theorem parseLine_cv (m : String) (hm : m ∈ mnWords) (w' rest : List Char) (hv : CaseVar w' m.toList)
    (hs : LineSep rest) : parseLine (w' ++ rest) = parseLine (m.toList ++ rest) := by
  have hne := (mnWords_low m hm).2
  have hv0 : CaseVar m.toList m.toList := CaseVar.refl hv.2
  have hc := pColon_fail rest hs.colon
  have key : ∀ u, CaseVar u m.toList →
      pDirective (u ++ rest) = .fail ∧ pVarDecl (u ++ rest) = .fail ∧ pStrDecl (u ++ rest) = .fail ∧
      pZeroDecl (u ++ rest) = .fail ∧ pLabelDecl (u ++ rest) = .fail ∧
      pInstruction (u ++ rest) = (pInstrBody (u ++ rest)).map fun it => { lbl := none, item := it } := by
    intro u hu
    have hl := pLabel_var u m.toList rest hu hne hs.tokEnd
    have h4 : pLabelDecl (u ++ rest) = .fail := by simp only [pLabelDecl, hl, hc, bind_ok, map_fail]
    refine ⟨pDirective_var u m.toList rest hu hne, ?_, ?_, ?_, h4, ?_⟩
    · simp only [pVarDecl, hl, hc, bind_ok, bind_fail]
    · simp only [pStrDecl, hl, hc, bind_ok, bind_fail]
    · simp only [pZeroDecl, hl, hc, bind_ok, bind_fail]
    · simp only [pInstruction, opt, h4, bind_ok]
  obtain ⟨a1, a2, a3, a4, a5, a6⟩ := key w' hv
  obtain ⟨b1, b2, b3, b4, b5, b6⟩ := key m.toList hv0
  unfold parseLine
  rw [orLongest_congr _ (w' ++ rest) (m.toList ++ rest)]
  intro p hp
  simp only [List.mem_cons, List.not_mem_nil, or_false] at hp
  rcases hp with rfl | rfl | rfl | rfl | rfl | rfl
  · rw [a1, b1]
  · rw [a2, b2]
  · rw [a3, b3]
  · rw [a4, b4]
  · rw [a6, b6, pInstrBody_cv m hm w' rest hv hs.mnSep hs.tokEnd]
  · simp only [a5, b5]

end ArchSim.Lemmas.C04Spell
