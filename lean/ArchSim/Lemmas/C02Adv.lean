/-
C02 (control half), part 11: per-stage advance lemmas for a cycle without flush.
-/
import ArchSim.Lemmas.C02AbsStep

namespace ArchSim.Pipe
open ArchSim ArchSim.Rv

theorem bind_sim2 {pre : List Int} {c d : Comp} {f g : St → Comp} (h : CSimL pre c d)
    (hfg : d.red = none → CSim (f c.st) (g d.st)) : CSimL pre (c.bind f) (d.bind g) := by
  unfold Comp.bind
  obtain ⟨hr, hs, hl⟩ := h
  rw [hr]
  cases hd : d.red with
  | none =>
    have := hfg hd
    exact ⟨this.1, this.2, by rw [← List.append_assoc, hl, ← this.3]; rfl⟩
  | some a => exact ⟨hr, hs, hl⟩

/-- EX advance of an instruction that is not an ECALL: the new EX/MEM latch does not depend on the
    state, so completing it from MEM is completing the ID/EX latch from EX. -/
theorem cEX_eq_cMEM_nonecall (s' : St) (d : Latch) (l2 l3 : Option Latch) (hop : d.instr.op ≠ .ecall)
    (hf : (exStage s' (some d) l2 l3).fault = none) (s : St) :
    cEX s (some d) = cMEM s (exStage s' (some d) l2 l3).latch none := by
  rw [exStage_nonecall s' d l2 l3 hop] at hf ⊢
  have h0 : exStage s (some d) none none = _ := exStage_nonecall s d none none hop
  cases hal : aluCompute d.instr (aluIn1 d) (aluIn2 d) with
  | none => rw [hal] at hf; cases hf
  | some cr =>
    obtain ⟨c, r⟩ := cr
    rw [hal] at h0
    have hf0 : (exStage s (some d) none none).fault = none := by rw [h0]
    rw [cEX_nofault _ _ hf0, h0]
    rfl

/-- The physical state after the stages, when EX left the state alone. -/
theorem exOut_latch_of_none (p : PSt) (h : exInput p = none) : (exOut p).latch = none := by
  unfold exOut; rw [h]; rfl

end ArchSim.Pipe

namespace ArchSim.Pipe
open ArchSim ArchSim.Rv

/-- EX advance (the new EX/MEM latch is not a waiting ECALL, no flush): completing the new MEM/WB and
    EX/MEM latches from the new physical state = completing the three oldest entries before. -/
theorem ex_advance (p : PSt) (hI : PInv p) (hex : (exOut p).fault = none) (hme : (memOut p).fault = none)
    (h4 : latchFlush (wbOut p).2 = none) (h3 : latchFlush (memOut p).latch = none)
    (h2 : latchFlush (exOut p).latch = none) (hns : latchStall (exOut p).latch = false)
    (s' : St) (hs' : Sim s' (memOut p).st) :
    CSimL (latchLog p.l3) ((cWB s' (memOut p).latch none).bind (fun s => cMEM s (exOut p).latch none))
      ((older p).bind (fun s => cEX s (exInput p))) := by
  have hx := latchExit_of_wbflush_none p h4
  -- the case where EX leaves the state alone
  have noexec : (exOut p).st = (wbOut p).1 →
      (∀ s t, Sim s t → CSim (cMEM s (exOut p).latch none) (cEX t (exInput p))) →
      CSimL (latchLog p.l3) ((cWB s' (memOut p).latch none).bind (fun s => cMEM s (exOut p).latch none))
        ((older p).bind (fun s => cEX s (exInput p))) := by
    intro hsx hpt
    have hold := older_noexec p hI hx hsx hme
    rw [h3] at hold
    exact bind_sim (CSimL.trans_left (cWB_sim hs' _ _) hold) hpt
  cases hd : exInput p with
  | none =>
    have hn2 := exOut_latch_of_none p hd
    apply (hd ▸ noexec) (by unfold exOut; rw [hd]; rfl)
    intro s t hst
    rw [hn2]; exact ⟨rfl, hst, rfl⟩
  | some d =>
    by_cases hop : d.instr.op = .ecall
    · cases hw : ecallMustWait d p.l2 p.l3
      · -- the ECALL runs
        have hrun : exOut p = ecallRun (wbOut p).1 d := by
          unfold exOut; rw [hd]; exact exStage_ecall_go _ d _ _ hop hw
        obtain ⟨hm, hl3⟩ := exec_mode p hI d hd hw
        have hc := exec_commutes p hI hex d hd hop hrun hm hl3
        rw [h2, hd] at hc
        rw [(memOut_latch_eq_none p hme).2 hm, cWB_none, finishC_none, bind_pure, hl3]
        exact (cMEM_sim hs' _ _).trans hc.symm
      · -- a waiting ECALL: excluded
        have hl := exStage_ecall_wait (wbOut p).1 d p.l2 p.l3 hop hw
        unfold exOut at hns; rw [hd, hl] at hns; simp at hns
    · have hfd : (exStage (wbOut p).1 (some d) p.l2 p.l3).fault = none := by
        have := hex; unfold exOut at this; rw [hd] at this; exact this
      apply (hd ▸ noexec)
      · unfold exOut; rw [hd, exStage_nonecall _ d _ _ hop]; split <;> rfl
      · intro s t hst
        rw [cEX_eq_cMEM_nonecall (wbOut p).1 d p.l2 p.l3 hop hfd t]
        unfold exOut; rw [hd]
        exact cMEM_sim hst _ _

end ArchSim.Pipe

namespace ArchSim.Pipe
open ArchSim ArchSim.Rv

/-- A waiting ECALL in EX: the two oldest entries advance, EX leaves the state alone. -/
theorem ex_wait (p : PSt) (hI : PInv p) (hex : (exOut p).fault = none) (hme : (memOut p).fault = none)
    (h4 : latchFlush (wbOut p).2 = none) (h3 : latchFlush (memOut p).latch = none)
    (hst : latchStall (exOut p).latch = true) (s' : St) (hs' : Sim s' (memOut p).st) :
    CSimL (latchLog p.l3) (cWB s' (memOut p).latch none) (older p) := by
  obtain ⟨d, hd, hop, hw⟩ := exOut_stall p hex hst
  have hsx : (exOut p).st = (wbOut p).1 := by
    unfold exOut; rw [hd, exStage_ecall_wait _ d _ _ hop hw]
  have hold := older_noexec p hI (latchExit_of_wbflush_none p h4) hsx hme
  rw [h3] at hold
  exact CSimL.trans_left (cWB_sim hs' _ _) hold

theorem bind_regs_frame (c : Comp) (f : St → Comp) (r : Nat) (h : ∀ s, (f s).st.regs r = s.regs r) :
    (c.bind f).st.regs r = c.st.regs r := by
  unfold Comp.bind
  cases c.red with
  | none => exact h _
  | some a => rfl

/-- Registers not written by the entries in MEM and EX have, after completing the three oldest
    entries, the value ID reads this cycle (after WB). -/
theorem mid_regs (p : PSt) (hI : PInv p) (r : Nat) (h2 : ¬ writes (memInput p) r)
    (h1 : ¬ writes (exInput p) r) :
    ((older p).bind (fun s => cEX s (exInput p))).st.regs r = (wbOut p).1.regs r := by
  rw [bind_regs_frame _ _ r (fun s => cEX_regs_frame s _ r h1)]
  unfold older
  rw [bind_regs_frame _ _ r (fun s => cMEM_regs_frame s _ _ r h2)]
  unfold cWB
  rw [finishC_st, (wbOut_sim p hI).regs]

end ArchSim.Pipe

namespace ArchSim.Pipe
open ArchSim ArchSim.Rv

/-- No read-after-write hazard in decode: in an unstalled cycle in which ID raises no stall signal,
    the instruction in ID reads no register that the instructions in EX and MEM will still write.
    With hazard detection on this always holds (`rawFree_of_hazard`); with detection off it is the
    hazard-freedom condition on the program (C08). -/
def RawFree (p : PSt) : Prop :=
  p.stalled = none → latchStall (idOut p) = false → ∀ f, p.l0 = some f → ∀ r,
    ((accessRegs f.instr (wbOut p).1.regs).a1 = some r ∨ (accessRegs f.instr (wbOut p).1.regs).a2 = some r) →
    ¬ writes p.l1 r ∧ ¬ writes p.l2 r

/-- With hazard detection on, "no stall signal" means exactly that the decode-stage interlock found
    no dependency on the two older latches. -/
theorem rawFree_of_hazard (p : PSt) (hI : PInv p) (hz : p.hazard = true) : RawFree p := by
  intro hs hn1 f h0 r hr
  have hid : idInput p = p.l0 := by simp [idInput, hs]
  unfold idOut at hn1
  rw [hid, h0, idStage_some, latchStall_some] at hn1
  simp only [idStall, hz, Bool.true_and, Bool.or_eq_false_iff] at hn1
  exact ⟨not_writes_of_no_hazard _ p.l1 hI.w1 hn1.1 r hr, not_writes_of_no_hazard _ p.l2 hI.w2 hn1.2 r hr⟩

/-- THE INTERLOCK LEMMA. In an unstalled cycle in which ID signals no hazard, the values ID read are
    those a sequential execution reads after the older in-flight instructions completed: the decoded
    latch is final. -/
theorem id_advance_unstalled (p : PSt) (hI : PInv p) (hz : RawFree p) (hs : p.stalled = none)
    (hn1 : latchStall (idOut p) = false) :
    cEX ((older p).bind (fun s => cEX s (exInput p))).st (idOut p) =
      cID ((older p).bind (fun s => cEX s (exInput p))).st p.l0 := by
  have hid : idInput p = p.l0 := by simp [idInput, hs]
  have hei : exInput p = p.l1 := by simp [exInput, hs]
  have hmi : memInput p = p.l2 := by simp [memInput, hs]
  have hraw := hz hs hn1
  unfold idOut
  rw [hid]
  cases h0 : p.l0 with
  | none => rfl
  | some f =>
    apply cEX_idStage
    apply accessRegs_congr
    intro r hr
    obtain ⟨w1, w2⟩ := hraw f h0 r hr
    rw [mid_regs p hI r (hmi ▸ w2) (hei ▸ w1)]

end ArchSim.Pipe

namespace ArchSim.Pipe
open ArchSim ArchSim.Rv

/-- Last stalled cycle: nothing that writes a register is left in MEM / EX, so the re-decoded
    latch is final. -/
theorem id_advance_final (p : PSt) (hI : PInv p) (h2 : ∀ r, ¬ writes (memInput p) r)
    (h1 : ∀ r, ¬ writes (exInput p) r) :
    cEX ((older p).bind (fun s => cEX s (exInput p))).st (idOut p) =
      cID ((older p).bind (fun s => cEX s (exInput p))).st (idInput p) := by
  unfold idOut
  cases h0 : idInput p with
  | none => rfl
  | some f =>
    apply cEX_idStage
    apply accessRegs_congr
    intro r _
    rw [mid_regs p hI r (h2 r) (h1 r)]

/-- A flagged ECALL latch writes no register (`rd = 0`). -/
theorem ecall_not_writes (l : Option Latch) (hok : LatchOK l) (hw : WregOK l)
    (he : ∀ x, l = some x → x.instr.op = .ecall) (r : Nat) : ¬ writes l r := by
  rintro ⟨x, hx, hxw, hr⟩
  have h1 := hw x hx
  have h2 := (hok x hx).1 (he x hx)
  rw [hxw] at h1
  simp [writeReg, he x hx, Op.ty, h2] at h1
  exact hr h1

end ArchSim.Pipe
