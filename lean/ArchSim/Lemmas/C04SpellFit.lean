/-
C04 (spelling independence, part 2): the positive chains of C04SpellChain with the size limit only for the decimal
number style (`NumFits`). Generated from C04SpellChain by renaming; the proofs are the same.
-/
import ArchSim.Lemmas.C04SpellVar6

namespace ArchSim.Lemmas.C04Spell
open ArchSim ArchSim.PP ArchSim.Rv ArchSim.Asm ArchSim.Lemmas.C14

section chains
variable (g w1 w2 w3 w4 tr : List Char) (hg : AllWs g) (hgne : g ≠ []) (h1 : AllWs w1) (h2 : AllWs w2)
  (h3 : AllWs w3) (h4 : AllWs w4) (htr : AllWs tr)

include hg hgne h1 h2 h3 h4 htr in
theorem chainF_RRI (op : Op) (h : cls op = .imm3 ∨ cls op = .jalr ∨ cls op = .b) (a b : Nat) (v : Int)
    (ha : a < 32) (hb : b < 32)  (s1 s2 : RegStyle) (sn : NumStyle) (hv : NumFits sn v) :
    pRegRegImm (mn op ++ tReg g s1 a (tSep w1 ',' (tReg w2 s2 b (tSep w3 ',' (tNum w4 sn v tr)))))
      = .ok (.rri op.mnemonic a b v) tr := by
  have h8 := stage_exact L8 low_8 op (ex8 op (by rcases h with h | h | h <;> simp [h]))
    (tReg g s1 a (tSep w1 ',' (tReg w2 s2 b (tSep w3 ',' (tNum w4 sn v tr))))) (mnSep_tReg g _ _ _ hg hgne)
  rw [L8] at h8
  simp only [pRegRegImm, h8, bind_ok,
    pReg_tReg g s1 a _ hg ha (tokEnd_tSep w1 ',' _ h1 comma_nlb), pComma_tSep w1 _ h1,
    pReg_tReg w2 s2 b _ h2 hb (tokEnd_tSep w3 ',' _ h3 comma_nlb), pComma_tSep w3 _ h3,
    pImm_tNum_fits w4 sn v _ h4 hv (tokEnd_allWs tr htr), map_ok]

include hg hgne h1 h2 h3 h4 in
/-- `mn r, imm ( r )` with blanks `w3` before `(`, `w4` after it and `w5` before `)` -/
theorem chainF_MEM (w5 : List Char) (h5 : AllWs w5) (op : Op) (h : cls op = .load ∨ cls op = .store) (a b : Nat)
    (v : Int) (ha : a < 32) (hb : b < 32)  (s1 s2 : RegStyle) (sn : NumStyle) (hv : NumFits sn v) :
    pMemory (mn op ++ tReg g s1 a (tSep w1 ',' (tNum w2 sn v (tSep w3 '(' (tReg w4 s2 b (tSep w5 ')' tr))))))
      = .ok (.mem op.mnemonic a v b) tr := by
  have h3' := stage_exact L3 low_3 op (ex3 op (by rcases h with h | h <;> simp [h]))
    (tReg g s1 a (tSep w1 ',' (tNum w2 sn v (tSep w3 '(' (tReg w4 s2 b (tSep w5 ')' tr))))))
    (mnSep_tReg g _ _ _ hg hgne)
  rw [L3] at h3'
  simp only [pMemory, h3', bind_ok,
    pReg_tReg g s1 a _ hg ha (tokEnd_tSep w1 ',' _ h1 comma_nlb), pComma_tSep w1 _ h1,
    pImm_tNum_fits w2 sn v _ h2 hv (tokEnd_tSep w3 '(' _ h3 lparen_nlb), lparen_tSep w3 _ h3,
    pReg_tReg w4 s2 b _ h4 hb (tokEnd_tSep w5 ')' _ h5 rparen_nlb), rparen_tSep w5 _ h5, map_ok]

include hg hgne h1 h2 htr in
theorem chainF_U (op : Op) (h : cls op = .u) (a : Nat) (v : Int) (ha : a < 32) 
    (s1 : RegStyle) (sn : NumStyle) (hv : NumFits sn v) :
    pUType (mn op ++ tReg g s1 a (tSep w1 ',' (tNum w2 sn v tr))) = .ok (.utype op.mnemonic a v) tr := by
  simp only [pUType, stage_exact uMn low_u op (ex1 op h) _ (mnSep_tReg g _ _ _ hg hgne), bind_ok,
    pReg_tReg g s1 a _ hg ha (tokEnd_tSep w1 ',' _ h1 comma_nlb), pComma_tSep w1 _ h1,
    pImm_tNum_fits w2 sn v _ h2 hv (tokEnd_allWs tr htr), map_ok]

include hg hgne h1 h2 htr in
theorem chainF_J (a : Nat) (v : Int) (ha : a < 32)  (s1 : RegStyle) (sn : NumStyle) (hv : NumFits sn v) :
    pJal (mn .jal ++ tReg g s1 a (tSep w1 ',' (tNum w2 sn v tr))) = .ok (.jalImm a v) tr := by
  have hk : caselessLit "jal" (mn .jal ++ tReg g s1 a (tSep w1 ',' (tNum w2 sn v tr)))
      = .ok () (tReg g s1 a (tSep w1 ',' (tNum w2 sn v tr))) := by
    rw [kwStage "jal" (by decide) .jal _ (mnSep_tReg g _ _ _ hg hgne)]
    rfl
  simp only [pJal, hk, bind_ok, pReg_tReg g s1 a _ hg ha (tokEnd_tSep w1 ',' _ h1 comma_nlb),
    pComma_tSep w1 _ h1]
  rw [orLongest_eq]
  simp only [List.map_cons, List.map_nil, pImm_tNum_fits w2 sn v _ h2 hv (tokEnd_allWs tr htr), map_ok,
    pLabel_fail_tNum w2 sn v tr h2, bind_fail]
  rfl

include hg hgne h1 h2 h3 h4 htr in
theorem chainF_CSR (op : Op) (h : cls op = .csr) (a b : Nat) (n : Int) (ha : a < 32) (hb : b < 32)
     (s1 s2 : RegStyle) (sn : NumStyle) (hn : NumFits sn n) :
    pCsr (mn op ++ tReg g s1 a (tSep w1 ',' (tNum w2 sn n (tSep w3 ',' (tReg w4 s2 b tr)))))
      = .ok (.csr op.mnemonic a n b) tr := by
  simp only [pCsr, stage_exact csrMn low_csr op (ex6 op h) _ (mnSep_tReg g _ _ _ hg hgne), bind_ok,
    pReg_tReg g s1 a _ hg ha (tokEnd_tSep w1 ',' _ h1 comma_nlb), pComma_tSep w1 _ h1,
    pImm_tNum_fits w2 sn n _ h2 hn (tokEnd_tSep w3 ',' _ h3 comma_nlb), pComma_tSep w3 _ h3,
    pReg_tReg w4 s2 b _ h4 hb (tokEnd_allWs tr htr), map_ok]

include hg hgne h1 h2 h3 h4 htr in
theorem chainF_CSRI (op : Op) (h : cls op = .csri) (a : Nat) (n v : Int) (ha : a < 32)
    (s1 : RegStyle) (sn sv : NumStyle) (hn : NumFits sn n) (hv : NumFits sv v) :
    pCsri (mn op ++ tReg g s1 a (tSep w1 ',' (tNum w2 sn n (tSep w3 ',' (tNum w4 sv v tr)))))
      = .ok (.csri op.mnemonic a n v) tr := by
  simp only [pCsri, stage_exact csriMn low_csri op (ex7 op h) _ (mnSep_tReg g _ _ _ hg hgne), bind_ok,
    pReg_tReg g s1 a _ hg ha (tokEnd_tSep w1 ',' _ h1 comma_nlb), pComma_tSep w1 _ h1,
    pImm_tNum_fits w2 sn n _ h2 hn (tokEnd_tSep w3 ',' _ h3 comma_nlb), pComma_tSep w3 _ h3,
    pImm_tNum_fits w4 sv v _ h4 hv (tokEnd_allWs tr htr), map_ok]

end chains

end ArchSim.Lemmas.C04Spell
