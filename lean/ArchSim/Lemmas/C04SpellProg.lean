/-
C04 (spelling independence), part 23: whole programs. A text whose entries are the instructions of a canonical
program, each line in its own spelling, loads to exactly that program.
-/
import ArchSim.Lemmas.C04SpellRepr
import ArchSim.Lemmas.C14Load

namespace ArchSim.Lemmas.C04Spell
open ArchSim ArchSim.PP ArchSim.Rv ArchSim.Asm ArchSim.Lemmas.C14

theorem tokenize_good_sp (nl : List (Nat × List Char)) (prog : List Instr) (sps : List Spelling) (addr : Int)
    (hl : nl.map (·.2) = List.zipWith render sps prog) (hlen : sps.length = prog.length)
    (hc : CanonFrom addr prog) (haux : ∀ i ∈ prog, i.aux.natAbs < 10 ^ 4300) :
    ∃ es, tokenize nl = .ok es ∧ Good addr es prog := by
  induction nl generalizing prog sps addr with
  | nil =>
    cases prog with
    | nil => exact ⟨[], rfl, trivial⟩
    | cons i is =>
      cases sps with
      | nil => simp at hlen
      | cons sp sps => simp at hl
  | cons p nl ih =>
    cases prog with
    | nil => cases sps <;> simp at hl
    | cons i is =>
      cases sps with
      | nil => simp at hlen
      | cons sp sps =>
        obtain ⟨k, l⟩ := p
        simp only [List.map_cons, List.zipWith_cons_cons, List.cons.injEq] at hl
        obtain ⟨hl1, hl2⟩ := hl
        obtain ⟨hci, hf, hcs⟩ := hc
        obtain ⟨_, hp, hb⟩ := render_roundtrip sp i addr hci hf (haux i (by simp))
        obtain ⟨es, hes, hg⟩ := ih is sps (addr + 4) hl2 (by simpa using hlen) hcs
          (fun j hj => haux j (by simp [hj]))
        refine ⟨(k, String.ofList l, { lbl := none, item := itemOf i }) :: es, ?_, rfl, hb, hg⟩
        simp only [tokenize, hl1, hp, hes]

/-- `load` on good entries (the tail of `C14.load_of_lines`). -/
theorem load_of_good (s : St) (text : String) (prog : List Instr) (es : List Entry)
    (hes : tokenize (sanitize text) = .ok es) (hg : Good 0 es prog) (hlen : prog.length ≤ 4096) :
    (load s text).err = none ∧ (load s text).st.imem.prog = prog := by
  have h1 := segment_good hg
  have h2 := pending_good hg
  have h3 := expandAll_good [] hg
  have h4 := processLabels_good hg [] 0
  have h5 := buildInstrs_good hg []
  simp only [tentriesOf] at h3 h4 h5
  have hnot : ¬ prog.length > 4096 := by omega
  unfold load
  simp only [hes, h1, h2, writeData, h3, h4, h5, hnot, if_false, and_self]

/-- Program-level spelling independence: if the entries of `text` are the instructions of the canonical
    program `prog`, line `k` written in the spelling `sps[k]`, then `load` succeeds and stores `prog`. -/
theorem load_spelled (s : St) (text : String) (prog : List Instr) (sps : List Spelling)
    (hl : (sanitize text).map (·.2) = List.zipWith render sps prog) (hlen : sps.length = prog.length)
    (hc : CanonFrom 0 prog) (haux : ∀ i ∈ prog, i.aux.natAbs < 10 ^ 4300) (hsize : prog.length ≤ 4096) :
    (load s text).err = none ∧ (load s text).st.imem.prog = prog := by
  obtain ⟨es, hes, hg⟩ := tokenize_good_sp (sanitize text) prog sps 0 hl hlen hc haux
  exact load_of_good s text prog es hes hg hsize

end ArchSim.Lemmas.C04Spell
