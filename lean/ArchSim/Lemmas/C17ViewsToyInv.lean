/-
C17 (tables) — helper lemmas, part 8: every TOY state reached by loading a program and calling the
stepping API has a well-formed memory with the TOY configuration (`ToyOk`).
-/
import ArchSim.Lemmas.C17ViewsRows
import ArchSim.Lemmas.ToyLoad

namespace ArchSim.Lemmas.C17Views
open ArchSim ArchSim.Mem ArchSim.Views ArchSim.Toy ArchSim.Lemmas.C18

/-- The memory is a TOY memory satisfying the invariant of all memories reached by writes. -/
def MemOk (m : Mem) : Prop := m.cfg = toyCfg ∧ WF m

theorem MemOk_empty : MemOk (Mem.empty toyCfg) := ⟨rfl, WF_empty toyCfg⟩

theorem MemOk_writeN (m : Mem) (h : MemOk m) (a : Int) (n v : Nat) : MemOk (writeN m a n v).1 :=
  ⟨by rw [writeN_cfg]; exact h.1, WF_writeN m a n v h.2⟩

theorem MemOk_wr (s : TSt) (h : MemOk s.mem) (a v : Nat) : MemOk (wr s a v) := by
  unfold wr Mem.write
  by_cases hb : s.mem.cfg.cellBits > 16
  · simp only [hb, if_true]; exact h
  · simp only [hb, if_false]; exact MemOk_writeN _ h _ _ _

theorem behavior_mem (i : TInstr) (s : TSt) :
    (behavior i s).mem = s.mem ∨ (behavior i s).mem = wr s i.addr s.accu := by
  unfold behavior
  simp only []
  split <;> first | (left; rfl) | (right; rfl) | (split <;> (left; rfl))

theorem MemOk_behavior (i : TInstr) (s : TSt) (h : MemOk s.mem) : MemOk (behavior i s).mem := by
  rcases behavior_mem i s with h' | h' <;> rw [h']
  · exact h
  · exact MemOk_wr s h _ _

theorem MemOk_firstCycle (t : TSim) (h : MemOk t.s.mem) : MemOk (firstCycle t).t.s.mem := by
  unfold firstCycle
  split
  · exact h
  · split
    · exact h
    · exact MemOk_behavior _ _ h

theorem MemOk_secondCycle (t : TSim) (h : MemOk t.s.mem) : MemOk (secondCycle t).t.s.mem := by
  unfold secondCycle
  split
  · exact h
  · split
    · exact h
    · exact h

/-- Every call of the stepping API preserves the memory invariant. -/
theorem MemOk_call (t : TSim) (c : Call) (h : MemOk t.s.mem) : MemOk (call t c).t.s.mem := by
  cases c with
  | first => exact MemOk_firstCycle t h
  | second => exact MemOk_secondCycle t h
  | step =>
    simp only [call, stepCall]
    split
    · exact h
    · split
      · exact MemOk_firstCycle t h
      · exact MemOk_secondCycle _ (MemOk_firstCycle t h)
  | single =>
    simp only [call, singleCall]
    split
    · exact MemOk_firstCycle t h
    · exact MemOk_secondCycle t h

theorem MemOk_run (n : Nat) (t : TSim) (h : MemOk t.s.mem) : MemOk (run n t).s.mem := by
  induction n generalizing t with
  | zero => exact h
  | succ n ih =>
    rw [run]
    split
    · exact h
    · exact ih _ (MemOk_call t .step h)

/-! ### loading a program image -/

theorem MemOk_foldl_dataStep (data : List (Nat × Nat)) (m : Mem) (h : MemOk m) :
    MemOk (data.foldl dataStep m) := by
  induction data generalizing m with
  | nil => exact h
  | cons av data ih => exact ih _ (MemOk_writeN m h _ _ _)

theorem MemOk_writeInstrs (is : List TInstr) (m : Mem) (k : Nat) (h : MemOk m) :
    MemOk (loadImage.writeInstrs m k is) := by
  induction is generalizing m k with
  | nil => exact h
  | cons i is ih =>
    simp only [loadImage.writeInstrs]
    exact ih _ _ (MemOk_writeN m h _ _ _)

/-- A freshly loaded program image has a well-formed TOY memory. -/
theorem MemOk_loadImage (t : TSim) (instrs : List TInstr) (data : List (Nat × Nat)) :
    MemOk (loadImage t instrs data).s.mem := by
  rw [loadImage_mem]
  exact MemOk_writeInstrs _ _ _ (MemOk_foldl_dataStep _ _ MemOk_empty)

end ArchSim.Lemmas.C17Views
