/-
C02 (control half), part 6: `PInv` is preserved by a non-faulting `step`.
-/
import ArchSim.Lemmas.C02Finish

namespace ArchSim.Pipe
open ArchSim ArchSim.Rv

@[simp] theorem tick_imem (p : PSt) : (tick p).imem = p.st.imem := rfl
@[simp] theorem tick_pc (p : PSt) : (tick p).pc = p.st.pc := rfl

theorem ifOut_stalled (p : PSt) (st : Stall) (h : p.stalled = some st) : ifOut p = (tick p, p.l0) := by
  simp [ifOut, h]

theorem ifOut_noinstr (p : PSt) (h : p.stalled = none) (hn : noInstr p.st) : ifOut p = (tick p, none) := by
  simp only [ifOut, h]; exact ifStage_noinstr _ hn

theorem ifOut_instr (p : PSt) (h : p.stalled = none) (i : Instr) (hi : p.st.imem.instrAt p.st.pc = some i)
    (hs : FetchSound p.st.imem) :
    ifOut p =
      ({ tick p with imem := (p.st.imem.fetch p.st.pc).imem,
                     cycles := (tick p).cycles + (p.st.imem.fetch p.st.pc).extra, pc := p.st.pc + 4 },
       some { instr := i, addr := p.st.pc, pc4 := p.st.pc + 4 }) := by
  simp only [ifOut, h]; exact ifStage_instr (tick p) i hi hs

/-- Summary of the IF stage under the invariant. -/
theorem ifOut_facts (p : PSt) (hc : ICoh p.st.imem) (hp : ProgOK p.st.imem) (h0 : LatchOK p.l0) :
    ICoh (ifOut p).1.imem ∧ (ifOut p).1.imem.prog = p.st.imem.prog ∧ LatchOK (ifOut p).2 := by
  cases hst : p.stalled with
  | some st => rw [ifOut_stalled p st hst]; exact ⟨hc, rfl, h0⟩
  | none =>
    cases hi : p.st.imem.instrAt p.st.pc with
    | none => rw [ifOut_noinstr p hst hi]; exact ⟨hc, rfl, by simp⟩
    | some i =>
      rw [ifOut_instr p hst i hi hc.fetchSound]
      refine ⟨hc.fetch _, (hc.fetchSound _ _ hi).2, ?_⟩
      intro x hx; cases hx; exact hp _ _ hi

/-- The physical instruction memory and pc after the stages are those after IF. -/
theorem memOut_imem (p : PSt) : (memOut p).st.imem = (ifOut p).1.imem := by
  simp [memOut, exOut, wbOut]
theorem memOut_pc (p : PSt) : (memOut p).st.pc = (ifOut p).1.pc := by
  simp [memOut, exOut, wbOut]

theorem stallBump_imem (k : Option Nat) (s : St) : (stallBump k s).imem = s.imem := by
  unfold stallBump; split <;> rfl
theorem stallBump_pc (k : Option Nat) (s : St) : (stallBump k s).pc = s.pc := by
  unfold stallBump; split <;> rfl
@[simp] theorem flushSt_imem (s : St) (a : Int) : (flushSt s a).imem = s.imem := rfl

end ArchSim.Pipe

namespace ArchSim.Pipe
open ArchSim ArchSim.Rv

theorem nextStall_ok (p : PSt) (hI : PInv p) (picked : Option Nat) (st' : Stall)
    (h : nextStall p.stalled picked p.l0 p.l1 = some st') :
    LatchOK st'.p0 ∧ LatchOK st'.p1 ∧ WregOK st'.p1 ∧ RrOK st'.p1 := by
  cases hs : p.stalled with
  | none =>
    rw [hs] at h
    cases picked with
    | none => simp at h
    | some k =>
      rw [nextStall_none_some] at h; cases h
      refine ⟨LatchOK_setFlag hI.ok0, ?_, ?_, ?_⟩
      · simp only []; split
        · exact LatchOK_setFlag hI.ok1
        · simp
      · simp only []; split
        · exact WregOK_setFlag hI.w1
        · simp
      · simp only []; split
        · exact RrOK_setFlag hI.r1
        · simp
  | some st =>
    rw [hs] at h
    have hS := hI.okS st hs
    cases picked with
    | none =>
      rw [nextStall_some_none] at h
      split at h
      · cases h
      · cases h; exact hS
    | some k =>
      simp only [nextStall] at h
      split at h
      · cases h
      · cases h; exact hS

theorem idInput_ok (p : PSt) (hI : PInv p) : LatchOK (idInput p) := by
  unfold idInput; split
  · exact hI.ok0
  · rename_i st hs; exact (hI.okS st hs).1

theorem exInput_ok (p : PSt) (hI : PInv p) : LatchOK (exInput p) ∧ WregOK (exInput p) ∧ RrOK (exInput p) := by
  unfold exInput; split
  · exact ⟨hI.ok1, hI.w1, hI.r1⟩
  · rename_i st hs
    split
    · simp
    · exact (hI.okS st hs).2

theorem memInput_x (p : PSt) (hI : PInv p) : ExitIsEcall (memInput p) ∧ WregOK (memInput p) := by
  unfold memInput; split
  · exact ⟨hI.x2, hI.w2⟩
  · split
    · simp
    · exact ⟨hI.x2, hI.w2⟩

end ArchSim.Pipe

namespace ArchSim.Pipe
open ArchSim ArchSim.Rv

/-- All clauses of `PInv` except `e3` and `shape` follow from where the new fields come from. -/
theorem PInv_of_parts (p o : PSt) (hI : PInv p) (hex : (exOut p).fault = none)
    (himem : o.st.imem = (ifOut p).1.imem)
    (h0 : o.l0 = none ∨ o.l0 = (ifOut p).2) (h1 : o.l1 = none ∨ o.l1 = idOut p)
    (h2 : o.l2 = none ∨ o.l2 = (exOut p).latch)
    (hst : o.stalled = none ∨ ∃ k, o.stalled = nextStall p.stalled k p.l0 p.l1)
    (he3 : latchExit o.l3 = true → o.l2 = none) (hshape : Shape o) : PInv o := by
  obtain ⟨hc, hp, hn0⟩ := ifOut_facts p hI.icoh hI.progOK hI.ok0
  refine ⟨?_, ?_, ?_, ?_, ?_, ?_, ?_, ?_, ?_, ?_, he3, hshape⟩
  · rw [himem]; exact ProgOK_congr hp.symm hI.progOK
  · rw [himem]; exact hc
  · rcases h0 with h | h <;> rw [h]
    · simp
    · exact hn0
  · rcases h1 with h | h <;> rw [h]
    · simp
    · exact idStage_latchOK _ _ _ _ (idInput_ok p hI)
  · intro st' hs'
    rcases hst with h | ⟨k, h⟩
    · rw [h] at hs'; cases hs'
    · rw [h] at hs'; exact nextStall_ok p hI k st' hs'
  · rcases h1 with h | h <;> rw [h]
    · simp
    · exact idStage_wregOK _ _ _ _ _
  · rcases h1 with h | h <;> rw [h]
    · simp
    · exact idStage_unflagged _ _ _ _ _
  · rcases h1 with h | h <;> rw [h]
    · simp
    · exact idStage_rrOK _ _ _ _ _
  · rcases h2 with h | h <;> rw [h]
    · simp
    · exact exStage_wregOK _ _ _ (exInput_ok p hI).2.1 hex
  · rcases h2 with h | h <;> rw [h]
    · simp
    · exact exStage_exitIsEcall _ _ _ _ hex

end ArchSim.Pipe

namespace ArchSim.Pipe
open ArchSim ArchSim.Rv

/-- An exit latch leaving MEM raises a flush. -/
theorem memOut_exit_flush (p : PSt) (hI : PInv p) (hme : (memOut p).fault = none)
    (hx : latchExit (memOut p).latch = true) : (latchFlush (memOut p).latch).isSome = true := by
  unfold memOut at hx hme ⊢
  cases hm : memInput p with
  | none => rw [hm] at hx; simp at hx
  | some e =>
    rw [hm] at hx hme
    obtain ⟨m, hml, hi, _, _, _, hxe, hfl⟩ := memStage_facts _ e hme
    rw [hml] at hx ⊢
    simp only [latchExit_some, latchFlush_some] at hx ⊢
    rw [hxe] at hx
    have hop := (memInput_x p hI).1 e hm hx
    rw [hfl, memFlush_exit e hop hx]; rfl

theorem PInv_flush4 (p : PSt) (hI : PInv p) (hex : (exOut p).fault = none) (a : Int)
    (h4 : latchFlush (wbOut p).2 = some a) :
    PInv (finishStep p (memOut p).st (ifOut p).2 (idOut p) (exOut p).latch (memOut p).latch (wbOut p).2) := by
  rw [finishStep_flush4 _ _ _ _ _ _ _ a h4]
  apply PInv_of_parts p _ hI hex
  · simp [stallBump_imem, memOut_imem]
  · exact Or.inl rfl
  · exact Or.inl rfl
  · exact Or.inl rfl
  · exact Or.inl rfl
  · intro _; rfl
  · simp [Shape]

theorem PInv_flush3 (p : PSt) (hI : PInv p) (hex : (exOut p).fault = none) (a : Int)
    (h4 : latchFlush (wbOut p).2 = none) (h3 : latchFlush (memOut p).latch = some a) :
    PInv (finishStep p (memOut p).st (ifOut p).2 (idOut p) (exOut p).latch (memOut p).latch (wbOut p).2) := by
  rw [finishStep_flush3 _ _ _ _ _ _ _ a h4 h3]
  apply PInv_of_parts p _ hI hex
  · simp [stallBump_imem, memOut_imem]
  · exact Or.inl rfl
  · exact Or.inl rfl
  · exact Or.inl rfl
  · exact Or.inl rfl
  · intro _; rfl
  · simp [Shape]

end ArchSim.Pipe

namespace ArchSim.Pipe
open ArchSim ArchSim.Rv

theorem exOut_flush (p : PSt) (hex : (exOut p).fault = none) (a : Int)
    (h2 : latchFlush (exOut p).latch = some a) :
    ∃ d, exInput p = some d ∧ d.instr.op = .ecall ∧ ecallMustWait d p.l2 p.l3 = false ∧
      latchStall (exOut p).latch = false := by
  unfold exOut at hex h2 ⊢
  cases hd : exInput p with
  | none => rw [hd] at h2; simp at h2
  | some d =>
    rw [hd] at hex h2
    obtain ⟨e, he, _, _, _, _, hfl, hxe, hst⟩ := exStage_facts _ d p.l2 p.l3 hex
    rw [he] at h2 ⊢
    simp only [latchFlush_some, latchStall_some] at h2 ⊢
    have hx : e.exitCode.isSome = true := by rw [← hfl, h2]; rfl
    obtain ⟨hop, hw⟩ := hxe hx
    refine ⟨d, rfl, hop, hw, ?_⟩
    cases hs : e.stall with
    | false => rfl
    | true => have := (hst.1 hs).2; rw [hw] at this; cases this

theorem exOut_stall (p : PSt) (hex : (exOut p).fault = none)
    (h2 : latchStall (exOut p).latch = true) :
    ∃ d, exInput p = some d ∧ d.instr.op = .ecall ∧ ecallMustWait d p.l2 p.l3 = true := by
  unfold exOut at hex h2
  cases hd : exInput p with
  | none => rw [hd] at h2; simp at h2
  | some d =>
    rw [hd] at hex h2
    obtain ⟨e, he, _, _, _, _, _, _, hst⟩ := exStage_facts _ d p.l2 p.l3 hex
    rw [he] at h2
    exact ⟨d, rfl, hst.1 h2⟩

theorem exOut_latch_eq_none (p : PSt) (hex : (exOut p).fault = none) :
    (exOut p).latch = none ↔ exInput p = none := exStage_latch_eq_none _ _ _ _ hex

theorem memOut_latch_eq_none (p : PSt) (hme : (memOut p).fault = none) :
    (memOut p).latch = none ↔ memInput p = none := memStage_latch_eq_none _ _ hme

theorem idOut_eq_none (p : PSt) : idOut p = none ↔ idInput p = none := idStage_eq_none _ _ _ _ _

end ArchSim.Pipe

namespace ArchSim.Pipe
open ArchSim ArchSim.Rv

/-- When EX raises a flush (an exit ECALL ran), nothing older is in flight and no stall survives. -/
theorem flush2_mode (p : PSt) (hI : PInv p) (hex : (exOut p).fault = none) (a : Int)
    (h2 : latchFlush (exOut p).latch = some a) :
    memInput p = none ∧ p.l3 = none ∧
    dropLowStall (nextStall p.stalled (pickStall p.stalled (idOut p) (exOut p).latch) p.l0 p.l1) = none := by
  obtain ⟨d, hd, hop, hw, hns⟩ := exOut_flush p hex a h2
  have hsh := hI.shape
  unfold Shape at hsh
  cases hs : p.stalled with
  | none =>
    rw [hs] at hsh
    have hd1 : p.l1 = some d := by simpa [exInput, hs] using hd
    have hf := hI.f1 d hd1
    simp [ecallMustWait, hf] at hw
    refine ⟨by simp [memInput, hs, hw.1], hw.2, ?_⟩
    rw [pickStall_none, hns]
    cases latchStall (idOut p) <;> simp [nextStall_none_some, dropLowStall]
  | some st =>
    rw [hs] at hsh
    rcases hsh with ⟨hk, _, _⟩ | ⟨hk, hrem, ⟨e, hp1, hfl, _⟩, _, _⟩
    · simp [exInput, hs, hk] at hd
    · have hde : d = e := by simpa [exInput, hs, hk, hp1] using hd.symm
      subst hde
      simp [ecallMustWait, hfl] at hw
      rcases hrem with ⟨_, h3⟩ | ⟨hr, h3⟩
      · rw [hw] at h3; cases h3
      · refine ⟨by simp [memInput, hs, hk], hw, ?_⟩
        rw [pickStall_k2 st hk, nextStall_some_none]
        simp [hr, dropLowStall]

theorem PInv_flush2 (p : PSt) (hI : PInv p) (hex : (exOut p).fault = none) (hme : (memOut p).fault = none)
    (a : Int) (h4 : latchFlush (wbOut p).2 = none) (h3 : latchFlush (memOut p).latch = none)
    (h2 : latchFlush (exOut p).latch = some a) :
    PInv (finishStep p (memOut p).st (ifOut p).2 (idOut p) (exOut p).latch (memOut p).latch (wbOut p).2) := by
  rw [finishStep_flush2 _ _ _ _ _ _ _ a h4 h3 h2]
  obtain ⟨hm, _, hst⟩ := flush2_mode p hI hex a h2
  rw [hst]
  have hn3 : (memOut p).latch = none := (memOut_latch_eq_none p hme).2 hm
  apply PInv_of_parts p _ hI hex
  · simp [stallBump_imem, memOut_imem]
  · exact Or.inl rfl
  · exact Or.inl rfl
  · exact Or.inr rfl
  · exact Or.inl rfl
  · simp [hn3]
  · simp [Shape]

end ArchSim.Pipe

namespace ArchSim.Pipe
open ArchSim ArchSim.Rv

theorem n0_unstalled (p : PSt) (hI : PInv p) (hs : p.stalled = none) :
    ((ifOut p).2 = none ↔ noInstr p.st) := by
  cases hi : p.st.imem.instrAt p.st.pc with
  | none => rw [ifOut_noinstr p hs hi]; simp [noInstr, hi]
  | some i => rw [ifOut_instr p hs i hi hI.icoh.fetchSound]; simp [noInstr, hi]

/-- If IF delivers a bubble, there is no instruction at the pc of the next state either. -/
theorem noInstr_out (p : PSt) (hI : PInv p) (s' : St) (himem : s'.imem = (ifOut p).1.imem)
    (hpc : s'.pc = (ifOut p).1.pc) (hn : (ifOut p).2 = none)
    (hst : ∀ st, p.stalled = some st → (p.l0 = none → noInstr p.st)) : noInstr s' := by
  cases hs : p.stalled with
  | none =>
    have hni := (n0_unstalled p hI hs).1 hn
    rw [ifOut_noinstr p hs hni] at himem hpc
    unfold noInstr at hni ⊢
    rw [himem, hpc]; exact hni
  | some st =>
    rw [ifOut_stalled p st hs] at himem hpc hn
    have hni := hst st hs hn
    unfold noInstr at hni ⊢
    rw [himem, hpc]; exact hni

end ArchSim.Pipe

namespace ArchSim.Pipe
open ArchSim ArchSim.Rv

/-- Shape after an unstalled cycle without flush. -/
theorem Shape_noflush_unstalled (p : PSt) (hI : PInv p) (hex : (exOut p).fault = none)
    (hme : (memOut p).fault = none) (hs : p.stalled = none) (s' : St) (n4 : Option Latch)
    (himem : s'.imem = (ifOut p).1.imem) (hpc : s'.pc = (ifOut p).1.pc) :
    Shape { p with st := s', l0 := (ifOut p).2, l1 := idOut p, l2 := (exOut p).latch, l3 := (memOut p).latch,
                   l4 := n4,
                   stalled := nextStall p.stalled (pickStall p.stalled (idOut p) (exOut p).latch) p.l0 p.l1 } := by
  have hsh := hI.shape
  unfold Shape at hsh; rw [hs] at hsh
  obtain ⟨i1, i2, i3⟩ := hsh
  have e1 : idOut p = none ↔ p.l0 = none := by rw [idOut_eq_none]; simp [idInput, hs]
  have e2 : (exOut p).latch = none ↔ p.l1 = none := by rw [exOut_latch_eq_none p hex]; simp [exInput, hs]
  have e3 : (memOut p).latch = none ↔ p.l2 = none := by rw [memOut_latch_eq_none p hme]; simp [memInput, hs]
  have hno : (ifOut p).2 = none → noInstr s' := fun hn =>
    noInstr_out p hI s' himem hpc hn (by intro st h; rw [hs] at h; cases h)
  have hn0 := n0_unstalled p hI hs
  rw [hs, pickStall_none]
  by_cases hst2 : latchStall (exOut p).latch = true
  · -- an ECALL starts draining
    obtain ⟨d, hd, hop, hw⟩ := exOut_stall p hex hst2
    have hd1 : p.l1 = some d := by simpa [exInput, hs] using hd
    have hf := hI.f1 d hd1
    simp only [hst2, if_true, nextStall_none_some]
    unfold Shape; dsimp only
    right
    refine ⟨rfl, Or.inl ⟨rfl, ?_⟩, ⟨{ d with flagged := true }, by simp [hd1], rfl, hop⟩, hno, ?_, ?_⟩
    rotate_right
    · cases hn : (exOut p).latch with
      | none => rw [hn] at hst2; cases hst2
      | some _ => rfl
    · -- the MEM latch is occupied
      cases h2 : p.l2 with
      | none =>
        have h3 := i1 (by simp [hd1]) h2
        simp [ecallMustWait, hf, h2, h3] at hw
      | some e =>
        cases hm : (memOut p).latch with
        | none => rw [e3.1 hm] at h2; cases h2
        | some _ => rfl
    · intro h0
      have h0' : p.l0 = none := by simpa using h0
      rcases i3 h0' with h | h
      · exact hn0.2 h
      · rw [hd1] at h; cases h
  · simp only [hst2, Bool.false_eq_true, if_false]
    by_cases hst1 : latchStall (idOut p) = true
    · simp only [hst1, if_true, nextStall_none_some]
      unfold Shape; dsimp only
      left
      have hl0 : p.l0.isSome = true := by
        cases h : p.l0 with
        | none => rw [e1.2 h] at hst1; cases hst1
        | some _ => rfl
      refine ⟨rfl, Or.inl rfl, hno, by simpa using hl0, ?_⟩
      unfold idOut; rw [idStage_isSome]; simpa [idInput, hs] using hl0
    · simp only [hst1, Bool.false_eq_true, if_false, nextStall_none_none]
      unfold Shape; dsimp only
      refine ⟨?_, ?_, ?_⟩
      · intro h1 h2; rw [e3]; apply i2 _ (e2.1 h2)
        cases h : p.l0 with
        | none => rw [e1.2 h] at h1; cases h1
        | some _ => rfl
      · intro h0 h1; rw [e2]
        have := e1.1 h1
        rcases i3 this with h | h
        · rw [hn0.2 h] at h0; cases h0
        · exact h
      · intro h0; exact Or.inl (hno h0)

end ArchSim.Pipe

namespace ArchSim.Pipe
open ArchSim ArchSim.Rv

/-- Shape after a stalled cycle without flush. -/
theorem Shape_noflush_stalled (p : PSt) (hI : PInv p) (hex : (exOut p).fault = none)
    (hme : (memOut p).fault = none) (st : Stall) (hs : p.stalled = some st) (s' : St) (n4 : Option Latch)
    (himem : s'.imem = (ifOut p).1.imem) (hpc : s'.pc = (ifOut p).1.pc) :
    Shape { p with st := s', l0 := (ifOut p).2, l1 := idOut p, l2 := (exOut p).latch, l3 := (memOut p).latch,
                   l4 := n4,
                   stalled := nextStall p.stalled (pickStall p.stalled (idOut p) (exOut p).latch) p.l0 p.l1 } := by
  have hsh := hI.shape
  unfold Shape at hsh; rw [hs] at hsh
  have hn0 : (ifOut p).2 = p.l0 := by rw [ifOut_stalled p st hs]
  have e1 : idOut p = none ↔ st.p0 = none := by rw [idOut_eq_none]; simp [idInput, hs]
  rw [hs]
  rcases hsh with ⟨hk, hrem, s3, hp0, _⟩ | ⟨hk, hrem, hef, s3, s4, _⟩
  · -- ID stall
    have hno : (ifOut p).2 = none → noInstr s' := fun hn =>
      noInstr_out p hI s' himem hpc hn (by intro st' h; rw [hs] at h; cases h; exact s3)
    have e2 : (exOut p).latch = none := by rw [exOut_latch_eq_none p hex]; simp [exInput, hs, hk]
    rw [pickStall_k1 st hk, e2]
    simp only [latchStall_none, Bool.false_eq_true, if_false, nextStall_some_none]
    rcases hrem with hr | ⟨hr, h2⟩
    · simp only [hr]
      unfold Shape; dsimp only
      left
      refine ⟨hk, Or.inr ⟨rfl, rfl⟩, hno, hp0, ?_⟩
      unfold idOut; rw [idStage_isSome]; simpa [idInput, hs] using hp0
    · have e3 : (memOut p).latch = none := by rw [memOut_latch_eq_none p hme]; simp [memInput, hs, hk, h2]
      simp only [hr]
      unfold Shape; dsimp only
      rw [e3]
      exact ⟨fun _ _ => rfl, fun _ _ => rfl, fun h => Or.inl (hno h)⟩
  · -- EX stall
    have hno : (ifOut p).2 = none → noInstr s' := fun hn =>
      noInstr_out p hI s' himem hpc hn (by intro st' h; rw [hs] at h; cases h; exact s3)
    have e3 : (memOut p).latch = none := by rw [memOut_latch_eq_none p hme]; simp [memInput, hs, hk]
    rw [pickStall_k2 st hk, nextStall_some_none, e3]
    rcases hrem with ⟨hr, _⟩ | ⟨hr, _⟩
    · simp only [hr]
      unfold Shape; dsimp only
      right
      refine ⟨hk, Or.inr ⟨rfl, rfl⟩, hef, hno, fun h => by rw [hn0]; exact s4 h, ?_⟩
      obtain ⟨e, hp1, _, _⟩ := hef
      cases hn : (exOut p).latch with
      | none =>
        have := (exOut_latch_eq_none p hex).1 hn
        simp [exInput, hs, hk, hp1] at this
      | some _ => rfl
    · simp only [hr]
      unfold Shape; dsimp only
      refine ⟨fun _ _ => rfl, ?_, fun h => Or.inl (hno h)⟩
      intro h0 h1
      rw [hn0, s4 (e1.1 h1)] at h0; cases h0

end ArchSim.Pipe

namespace ArchSim.Pipe
open ArchSim ArchSim.Rv

theorem PInv_noflush (p : PSt) (hI : PInv p) (hex : (exOut p).fault = none) (hme : (memOut p).fault = none)
    (h4 : latchFlush (wbOut p).2 = none) (h3 : latchFlush (memOut p).latch = none)
    (h2 : latchFlush (exOut p).latch = none) :
    PInv (finishStep p (memOut p).st (ifOut p).2 (idOut p) (exOut p).latch (memOut p).latch (wbOut p).2) := by
  rw [finishStep_noflush _ _ _ _ _ _ _ h4 h3 h2]
  apply PInv_of_parts p _ hI hex
  · simp [stallBump_imem, memOut_imem]
  · exact Or.inr rfl
  · exact Or.inr rfl
  · exact Or.inr rfl
  · exact Or.inr ⟨_, rfl⟩
  · intro hx
    have := memOut_exit_flush p hI hme hx
    rw [h3] at this; cases this
  · rcases Option.eq_none_or_eq_some p.stalled with hs | ⟨st, hs⟩
    ·
      refine Shape_noflush_unstalled p hI hex hme hs _ _ ?_ ?_
      · simp [stallBump_imem, memOut_imem]
      · simp [stallBump_pc, memOut_pc]
    ·
      refine Shape_noflush_stalled p hI hex hme st hs _ _ ?_ ?_
      · simp [stallBump_imem, memOut_imem]
      · simp [stallBump_pc, memOut_pc]

/-- The shape invariant is preserved by every non-faulting cycle. -/
theorem PInv_step (p : PSt) (hI : PInv p) (hf : (step p).fault = none) : PInv (step p).p := by
  obtain ⟨hex, hme⟩ := (step_fault_none_iff p).1 hf
  rw [step_nofault p hex hme]
  dsimp only
  cases h4 : latchFlush (wbOut p).2 with
  | some a => exact PInv_flush4 p hI hex a h4
  | none =>
    cases h3 : latchFlush (memOut p).latch with
    | some a => exact PInv_flush3 p hI hex a h4 h3
    | none =>
      cases h2 : latchFlush (exOut p).latch with
      | some a => exact PInv_flush2 p hI hex hme a h4 h3 h2
      | none => exact PInv_noflush p hI hex hme h4 h3 h2

end ArchSim.Pipe
