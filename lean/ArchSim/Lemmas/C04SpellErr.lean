/-
C04 (spelling independence, part 2), error case 1: renumbering the source lines by an injective `g` commutes with
`tokenize`, `segment`, the label pass — success AND failure; an error keeps its kind and line text, its line
number is renumbered.
-/
import ArchSim.Lemmas.C04SpellLoad

namespace ArchSim.Lemmas.C04Spell
open ArchSim ArchSim.PP ArchSim.Asm ArchSim.Rv
open ArchSim.Lemmas.C05 (renE renT renP segStep seg0 segment_cons find_renP filter_renP)
open ArchSim.Lemmas.C04 (isLabel processLabels_cons_label processLabels_cons_other)

/-- an error with its line number renumbered -/
def renErr (g : Nat → Nat) : AsmErr → AsmErr
  | .parser kind k line => .parser kind (g k) line
  | .memAddr a => .memAddr a

/-- a pass result under renumbering: `f` on the value, `renErr` on the error -/
def renX {α β : Type} (g : Nat → Nat) (f : α → β) : Except AsmErr α → Except AsmErr β
  | .ok a => .ok (f a)
  | .error e => .error (renErr g e)

theorem tokenize_ren (g : Nat → Nat) (sl : List (Nat × List Char)) :
    tokenize (sl.map (renL g)) = renX g (List.map (renE g)) (tokenize sl) := by
  induction sl with
  | nil => rfl
  | cons p rest ih =>
    obtain ⟨k, l⟩ := p
    simp only [List.map_cons, renL, tokenize, ih]
    cases parseLine l with
    | none => rfl
    | some t =>
      cases tokenize rest with
      | error e => rfl
      | ok es => rfl

/-! ### `segment` -/

theorem segStep_ren (g : Nat → Nat) (hg : ∀ a b, g a = g b → a = b) (s : Seg) (e : Entry) :
    segStep (.ok (renSeg g s)) (renE g e) = renX g (renSeg g) (segStep (.ok s) e) := by
  cases h : segStep (.ok s) e with
  | ok s' => exact segStep_renum g hg s s' e h
  | error x =>
    simp only [segStep, isDir_renE] at h ⊢
    by_cases hd : isDir "data" e = true
    · simp only [hd, if_true] at h ⊢
      by_cases hx : (!s.dataExists) = true
      · simp only [hx, if_true] at h; cases h
      · have : ¬ (!(renSeg g s).dataExists) = true := hx
        simp only [hx, this, if_false, Bool.false_eq_true] at h ⊢
        cases h; rfl
    · simp only [hd, Bool.false_eq_true, if_false] at h ⊢
      by_cases ht : isDir "text" e = true
      · simp only [ht, if_true] at h ⊢
        by_cases hx : (!s.textExists) = true
        · simp only [hx, if_true] at h; cases h
        · have : ¬ (!(renSeg g s).textExists) = true := hx
          simp only [hx, this, if_false, Bool.false_eq_true] at h ⊢
          cases h; rfl
      · simp only [ht, Bool.false_eq_true, if_false] at h; cases h

theorem foldl_segStep_ren (g : Nat → Nat) (hg : ∀ a b, g a = g b → a = b) (l : List Entry) (s : Seg) :
    (l.map (renE g)).foldl segStep (.ok (renSeg g s)) = renX g (renSeg g) (l.foldl segStep (.ok s)) := by
  induction l generalizing s with
  | nil => rfl
  | cons e l ih =>
    simp only [List.map_cons, List.foldl_cons, segStep_ren g hg s e]
    cases segStep (.ok s) e with
    | ok s1 => exact ih s1
    | error x => simp only [renX, foldl_segStep_error]

def renPair (g : Nat → Nat) (p : List Entry × List Entry) : List Entry × List Entry :=
  (p.1.map (renE g), p.2.map (renE g))

theorem segment_ren (g : Nat → Nat) (hg : ∀ a b, g a = g b → a = b) (toks : List Entry) :
    segment (toks.map (renE g)) = renX g (renPair g) (segment toks) := by
  cases toks with
  | nil => rfl
  | cons first rest =>
    rw [List.map_cons, segment_cons, segment_cons, seg0_renum, foldl_segStep_ren g hg]
    cases rest.foldl segStep (.ok (seg0 first rest)) with
    | ok s => rfl
    | error x => rfl

/-! ### the label pass -/

theorem addLabel_ren (g : Nat → Nat) (ls : Labels) (n : String) (v : Int) (k : Nat) (line : String) :
    addLabel ls n v (g k) line = renX g id (addLabel ls n v k line) := by
  simp only [addLabel]
  split <;> rfl

theorem processLabels_ren (g : Nat → Nat) (hg : ∀ a b, g a = g b → a = b) (es : List TEntry)
    (pending : List (Nat × String)) (ls : Labels) (addr : Int) :
    processLabels (es.map (renT g)) (pending.map (renP g)) ls addr
      = renX g id (processLabels es pending ls addr) := by
  induction es generalizing pending ls addr with
  | nil => rfl
  | cons e rest ih =>
    obtain ⟨k, line, it⟩ := e
    simp only [List.map_cons, renT]
    by_cases hl : isLabel it = true
    · obtain ⟨s, hs⟩ : ∃ s, it = .str s := by
        cases it with
        | str s => exact ⟨s, rfl⟩
        | grp pi => cases hl
        | varDecl n ty vals => cases hl
        | strDecl n b => cases hl
        | zeroDecl n c => cases hl
        | directive d => cases hl
      rw [processLabels_cons_label k line it rest pending ls addr s hs hl,
        processLabels_cons_label (g k) line it _ _ ls addr s hs hl, addLabel_ren]
      cases addLabel ls s addr k line with
      | error x => rfl
      | ok ls1 => exact ih pending ls1 addr
    · have hl' : isLabel it = false := by simpa using hl
      rw [processLabels_cons_other k line it rest pending ls addr hl',
        processLabels_cons_other (g k) line it _ _ ls addr hl', find_renP g hg, filter_renP g hg]
      cases pending.find? (fun p => p.1 == k) with
      | none => exact ih pending ls _
      | some q =>
        obtain ⟨k0, l⟩ := q
        simp only [Option.map_some, renP, addLabel_ren]
        cases addLabel ls l addr k line with
        | error x => rfl
        | ok ls1 => exact ih _ ls1 _

end ArchSim.Lemmas.C04Spell
