/-
C11 helper lemmas: the instruction cache.  Address arithmetic of `decode`, the block
`iBlockFromMem` fetches, the invariant `IInv` (every valid way holds exactly the block of
instruction memory its tag and set index name), explicit forms of `IMem.fetch` on a hit and on a
miss, transparency, and the erasure to the tag-only reference cache.
-/
import ArchSim.Lemmas.C09Pol

namespace ArchSim.Lemmas.C11
open ArchSim ArchSim.Cache ArchSim.Rv ArchSim.Repl ArchSim.Spec.TagCache ArchSim.Lemmas.C09

/-! ### Address arithmetic -/

/-- Base address of the block with tag `t` in set `k`. -/
def blockBaseOf (g : Geo) (t k : Nat) : Nat := (t * 2 ^ g.idxBits + k) * 2 ^ (2 + g.blkBits)

theorem decode_blockBase (g : Geo) (a : Int) :
    (decode g.idxBits g.blkBits a).blockBase =
      blockBaseOf g (decode g.idxBits g.blkBits a).tag (decode g.idxBits g.blkBits a).setIdx := by
  have hp : 2 ^ (g.idxBits + g.blkBits + 2) = 2 ^ (2 + g.blkBits) * 2 ^ g.idxBits := by
    rw [← Nat.pow_add]; congr 1; omega
  simp only [decode, blockBaseOf, hp, ← Nat.div_div_eq_div_mul, Nat.add_comm g.blkBits 2]
  rw [Nat.div_add_mod']

/-- Block base + word offset = the word-aligned wrapped address. -/
theorem decode_base_off (g : Geo) (a : Int) :
    (decode g.idxBits g.blkBits a).blockBase + 4 * (decode g.idxBits g.blkBits a).blockOff =
      wrap32 a - wrap32 a % 4 := by
  simp only [decode]
  generalize wrap32 a = full
  have h1 : full / 2 ^ (2 + g.blkBits) = full / 4 / 2 ^ g.blkBits := by
    rw [Nat.pow_add, Nat.div_div_eq_div_mul]
  have h2 : (2 : Nat) ^ (2 + g.blkBits) = 2 ^ g.blkBits * 4 := by
    rw [Nat.pow_add, Nat.mul_comm]
  rw [h1, h2, ← Nat.mul_assoc, Nat.mul_comm 4, ← Nat.add_mul, Nat.div_add_mod']
  omega

theorem decode_blockOff_lt (g : Geo) (a : Int) : (decode g.idxBits g.blkBits a).blockOff < g.words := by
  simp only [decode, Geo.words]
  exact Nat.mod_lt _ (Nat.two_pow_pos _)

/-! ### The block fetched from instruction memory -/

theorem iBlockFromMem_get (im : IMem) (base : Nat) (n i k : Nat) (hk : k < n) :
    (iBlockFromMem im base n i)[k]? = some (im.instrAt ((base : Int) + 4 * ((i + k : Nat) : Int))) := by
  induction n generalizing i k with
  | zero => omega
  | succ n ih =>
    cases k with
    | zero => simp [iBlockFromMem]
    | succ k =>
      simp only [iBlockFromMem, List.getElem?_cons_succ]
      rw [ih (i + 1) k (by omega)]
      congr 3
      omega

theorem iBlockFromMem_congr {im im' : IMem} (h : im'.prog = im.prog) (base n i : Nat) :
    iBlockFromMem im' base n i = iBlockFromMem im base n i := by
  induction n generalizing i with
  | zero => rfl
  | succ n ih =>
    simp only [iBlockFromMem, ih]
    congr 1
    simp only [IMem.instrAt, h]

/-- The word the fetch selects from the block of `pc` is the instruction at the word-aligned wrapped
    `pc`. -/
theorem block_select (im : IMem) (g : Geo) (pc : Int) :
    ((iBlockFromMem im (decode g.idxBits g.blkBits pc).blockBase g.words 0)[(decode g.idxBits g.blkBits pc).blockOff]?).getD none
      = im.instrAt ((wrap32 pc - wrap32 pc % 4 : Nat) : Int) := by
  rw [iBlockFromMem_get im _ _ 0 _ (decode_blockOff_lt g pc), Option.getD_some, ← decode_base_off g pc]
  congr 1
  simp

/-! ### Invariant -/

structure ISetOK (im : IMem) (g : Geo) (k : Nat) (cs : CSet Pol (Option Instr)) : Prop where
  nways : cs.ways.length = g.assoc
  pol   : Pol.WF g.assoc cs.pol
  ways  : ∀ w ∈ cs.ways, w.valid = true →
            w.base = blockBaseOf g w.tag k ∧ w.vals = iBlockFromMem im w.base g.words 0

/-- Invariant of the instruction cache `c` of instruction memory `im`: the right number of sets and
    ways, well-formed policy states, and every valid way holds exactly the block of `im` its tag and
    set index name. -/
structure IInv (im : IMem) (c : ICache) : Prop where
  assoc : AssocOK c.isLru c.geo.assoc
  nsets : c.sets.length = 2 ^ c.geo.idxBits
  sets  : ∀ k cs, c.sets[k]? = some cs → ISetOK im c.geo k cs

/-- The initial (or reset) cache satisfies the invariant for *every* program. -/
theorem IInv_init (im : IMem) (isLru : Bool) (g : Geo) (penalty : Nat) (ha : AssocOK isLru g.assoc) :
    IInv im (ICache.init isLru g penalty) where
  assoc := ha
  nsets := by simp [ICache.init, initSets]
  sets := by
    intro k cs hk
    simp only [ICache.init, initSets] at hk
    have hmem := List.mem_of_getElem? hk
    rw [List.eq_of_mem_replicate hmem]
    refine ⟨by simp only [List.length_replicate]; rfl, ?_, ?_⟩
    · show Pol.WF g.assoc ((polOps isLru).init g.assoc)
      exact (polOps_ok ha).init
    · intro w hw hv
      rw [List.eq_of_mem_replicate hw] at hv
      cases hv

theorem IInv.congr {im im' : IMem} {c : ICache} (h : IInv im c) (hp : im'.prog = im.prog) :
    IInv im' c where
  assoc := h.assoc
  nsets := h.nsets
  sets := by
    intro k cs hk
    obtain ⟨h1, h2, h3⟩ := h.sets k cs hk
    refine ⟨h1, h2, fun w hw hv => ?_⟩
    obtain ⟨h4, h5⟩ := h3 w hw hv
    exact ⟨h4, by rw [h5, iBlockFromMem_congr hp]⟩

theorem IInv.getSet {im : IMem} {c : ICache} (h : IInv im c) (pc : Int) :
    ∃ cs, c.sets[(decode c.geo.idxBits c.geo.blkBits pc).setIdx]? = some cs ∧
      ISetOK im c.geo (decode c.geo.idxBits c.geo.blkBits pc).setIdx cs := by
  have hlt := decode_setIdx_lt c.geo.idxBits c.geo.blkBits pc
  rw [← h.nsets] at hlt
  exact ⟨_, List.getElem?_eq_getElem hlt, h.sets _ _ (List.getElem?_eq_getElem hlt)⟩

/-- Replacing the set a fetch went to. -/
theorem IInv.update {im : IMem} {c : ICache} (h : IInv im c) (idx : Nat)
    {cs' : CSet Pol (Option Instr)} (hcs : ISetOK im c.geo idx cs') (hits accesses : Nat)
    (lastHit : Bool) :
    IInv im { c with sets := c.sets.set idx cs', hits := hits, accesses := accesses,
                     lastHit := lastHit } where
  assoc := h.assoc
  nsets := by simp [h.nsets]
  sets := by
    intro k cs hk
    simp only [List.getElem?_set] at hk
    split at hk
    · rename_i hik
      split at hk
      · cases hk; exact hik ▸ hcs
      · cases hk
    · exact h.sets k cs hk

/-- The way `findWay` finds is valid and carries the tag. -/
theorem findWay_valid {α : Type} {ways : List (Way α)} {t i : Nat} (h : findWay ways t = some i) :
    ∃ w, ways[i]? = some w ∧ w ∈ ways ∧ w.valid = true ∧ w.tag = t := by
  have hi := findWay_lt h
  have ht := findWay_tag h
  rw [List.getElem?_map, List.getElem?_eq_getElem hi] at ht
  simp only [Option.map_some, Option.some.injEq, eraseWay] at ht
  refine ⟨ways[i], List.getElem?_eq_getElem hi, List.getElem_mem hi, ?_⟩
  split at ht
  · rename_i hv
    exact ⟨hv, by simpa using ht⟩
  · cases ht

/-! ### Explicit forms of `fetch` -/

section Forms
variable {im : IMem} {c : ICache} {pc : Int} {cs : CSet Pol (Option Instr)}

/-- The cache after a hit / a miss that replaced set `idx` by `cs'`. -/
def hitCache (c : ICache) (idx : Nat) (cs' : CSet Pol (Option Instr)) : ICache :=
  { c with sets := c.sets.set idx cs', accesses := c.accesses + 1, hits := c.hits + 1, lastHit := true }

def missCache (c : ICache) (idx : Nat) (cs' : CSet Pol (Option Instr)) : ICache :=
  { c with sets := c.sets.set idx cs', accesses := c.accesses + 1, lastHit := false }

theorem fetch_hit {i : Nat} {p : Pol} {d : DAddr} (hd : d = decode c.geo.idxBits c.geo.blkBits pc)
    (hc : im.cache = some c) (hs : c.sets[d.setIdx]? = some cs)
    (hf : findWay cs.ways d.tag = some i) (ha : (polOps c.isLru).access cs.pol i = some p) :
    im.fetch pc =
      { imem := { im with cache := some (hitCache c d.setIdx { cs with pol := p }) },
        res := .ok ((((cs.ways[i]?.map (·.vals)).getD [])[d.blockOff]?).getD none),
        extra := 0 } := by
  subst hd
  simp only [IMem.fetch, hc, readBlock_hit hs hf ha, hitCache]

theorem fetch_miss {v : Nat} {p : Pol} {old : Way (Option Instr)} {d : DAddr}
    (hd : d = decode c.geo.idxBits c.geo.blkBits pc) (hc : im.cache = some c)
    (hs : c.sets[d.setIdx]? = some cs) (hf : findWay cs.ways d.tag = none)
    (hv : (polOps c.isLru).victim cs.pol = some v) (ho : cs.ways[v]? = some old)
    (ha : (polOps c.isLru).access cs.pol v = some p) :
    im.fetch pc =
      { imem := { im with cache := some (missCache c d.setIdx
          { ways := cs.ways.set v (newWay d (iBlockFromMem im d.blockBase c.geo.words 0)), pol := p }) },
        res := .ok (((iBlockFromMem im d.blockBase c.geo.words 0)[d.blockOff]?).getD none),
        extra := c.penalty } := by
  subst hd
  simp only [IMem.fetch, hc, readBlock_miss hs hf, writeBlock_miss _ hs hf hv ho ha, missCache]

end Forms

/-! ### One fetch: transparency, invariant, accounting -/

/-- Everything about one fetch through the cache. -/
structure FetchSpec (im : IMem) (c : ICache) (pc : Int) (o : FetchOut) : Prop where
  res      : o.res = .ok (im.instrAt ((wrap32 pc - wrap32 pc % 4 : Nat) : Int))
  imem     : ∃ c', o.imem = { im with cache := some c' } ∧ IInv im c' ∧
               eraseI c' = (refRead (polOps c.isLru) (eraseI c) pc true).cache ∧
               c'.isLru = c.isLru
  extra    : o.extra = (refRead (polOps c.isLru) (eraseI c) pc true).extra

theorem refRead_eraseI (c : ICache) (pc : Int) {S' : List (CSet Pol (Option Instr))} {hit : Bool}
    (h : lookupSets (polOps c.isLru) (c.sets.map eraseSet) (decode c.geo.idxBits c.geo.blkBits pc) true
          = (S'.map eraseSet, hit)) :
    refRead (polOps c.isLru) (eraseI c) pc true =
      { cache := eraseI { c with sets := S', accesses := c.accesses + 1,
                                 hits := c.hits + (if hit then 1 else 0), lastHit := hit },
        miss := !hit,
        extra := if !hit then c.penalty else 0 } := by
  have h' : lookupSets (polOps c.isLru) (eraseI c).sets
      (decode (eraseI c).geo.idxBits (eraseI c).geo.blkBits pc) true = (S'.map eraseSet, hit) := h
  simp only [refRead, h']
  cases hit <;> rfl

theorem fetch_spec {im : IMem} {c : ICache} (hc : im.cache = some c) (hinv : IInv im c) (pc : Int) :
    FetchSpec im c pc (im.fetch pc) := by
  obtain ⟨cs, hs, hcs⟩ := hinv.getSet pc
  have hP := polOps_ok hinv.assoc
  cases hf : findWay cs.ways (decode c.geo.idxBits c.geo.blkBits pc).tag with
  | some i =>
    have hi : i < c.geo.assoc := hcs.nways ▸ findWay_lt hf
    obtain ⟨p, hp, hokp⟩ := hP.access cs.pol i hcs.pol hi
    obtain ⟨w, hw, hwm, hwv, hwt⟩ := findWay_valid hf
    obtain ⟨hbase, hvals⟩ := hcs.ways w hwm hwv
    rw [fetch_hit rfl hc hs hf hp]
    refine ⟨?_, ⟨_, rfl, ?_, ?_, rfl⟩, ?_⟩
    · simp only [hw, Option.map_some, Option.getD_some]
      rw [hvals, hbase, hwt, ← decode_blockBase, block_select]
    · exact hinv.update _ (show ISetOK im c.geo _ { cs with pol := p } from ⟨hcs.nways, hokp, hcs.ways⟩) _ _ _
    · rw [refRead_eraseI c pc (lookupSets_hit true hs hf hp)]
      rfl
    · rw [refRead_eraseI c pc (lookupSets_hit true hs hf hp)]
      rfl
  | none =>
    obtain ⟨v, hv, hvlt⟩ := hP.victim cs.pol hcs.pol
    obtain ⟨p, hp, hokp⟩ := hP.access cs.pol v hcs.pol hvlt
    have hvl : v < cs.ways.length := hcs.nways ▸ hvlt
    have ho : cs.ways[v]? = some cs.ways[v] := List.getElem?_eq_getElem hvl
    rw [fetch_miss rfl hc hs hf hv ho hp]
    refine ⟨?_, ⟨_, rfl, ?_, ?_, rfl⟩, ?_⟩
    · simp only
      rw [block_select]
    · refine hinv.update _ ⟨by simp [hcs.nways], hokp, ?_⟩ _ _ _
      intro w hw hwv
      rcases List.mem_or_eq_of_mem_set hw with h1 | h1
      · exact hcs.ways w h1 hwv
      · subst h1
        exact ⟨decode_blockBase c.geo pc, rfl⟩
    · rw [refRead_eraseI c pc (lookupSets_miss_alloc (iBlockFromMem im (decode c.geo.idxBits c.geo.blkBits pc).blockBase c.geo.words 0) hs hf hv hp)]
      rfl
    · rw [refRead_eraseI c pc (lookupSets_miss_alloc (iBlockFromMem im (decode c.geo.idxBits c.geo.blkBits pc).blockBase c.geo.words 0) hs hf hv hp)]
      rfl

/-- For the pcs at which the stages fetch the aligned wrapped address is `pc` itself. -/
theorem aligned_wrap {pc : Int} (h0 : 0 ≤ pc) (h1 : pc < 4294967296) (h4 : pc % 4 = 0) :
    ((wrap32 pc - wrap32 pc % 4 : Nat) : Int) = pc := by
  unfold wrap32
  omega

/-! ### Sequences of fetches -/

theorem fetchRun_spec {im : IMem} {c : ICache} (hc : im.cache = some c) (hinv : IInv im c)
    (pcs : List Int) :
    ∃ c', (fetchRun im pcs).1 = { im with cache := some c' } ∧ IInv im c' ∧ c'.isLru = c.isLru ∧
      eraseI c' = (refRun (polOps c.isLru) (eraseI c) (fetchOps pcs)).1 ∧
      (fetchRun im pcs).2 = (refRun (polOps c.isLru) (eraseI c) (fetchOps pcs)).2.1 := by
  induction pcs generalizing im c with
  | nil =>
    refine ⟨c, ?_, hinv, rfl, rfl, rfl⟩
    cases im; simp only [fetchRun] at *; rw [hc]
  | cons pc pcs ih =>
    obtain ⟨_, ⟨c1, h1, hinv1, he1, hl1⟩, hx⟩ := fetch_spec hc hinv pc
    have hprog : ({ im with cache := some c1 } : IMem).prog = im.prog := rfl
    obtain ⟨c', h2, hinv2, hl2, he2, hx2⟩ :=
      ih (im := { im with cache := some c1 }) (c := c1) rfl (hinv1.congr hprog)
    refine ⟨c', ?_, hinv2.congr hprog.symm, hl2.trans hl1, ?_, ?_⟩
    · simp only [fetchRun, h1, h2]
    · simp only [fetchOps, List.map_cons, refRun, refOp]
      rw [he2, he1, hl1]; rfl
    · simp only [fetchOps, List.map_cons, refRun, refOp, fetchRun, h1]
      rw [hx2, hx, he1, hl1]; rfl

theorem fetchOps_counted (pcs : List Int) : ((fetchOps pcs).filter Op.counted).length = pcs.length := by
  induction pcs with
  | nil => rfl
  | cons pc pcs ih =>
    have : fetchOps (pc :: pcs) = Op.read 32 pc true :: fetchOps pcs := rfl
    rw [this, List.filter_cons_of_pos (by rfl), List.length_cons, ih, List.length_cons]

end ArchSim.Lemmas.C11
