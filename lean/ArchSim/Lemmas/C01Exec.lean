/-
C01 helper lemmas, part 2: per-instruction refinement for the instructions that touch only registers
and the program counter (R-type incl. "M", I-type ALU, shifts, LUI/AUIPC, JAL/JALR, branches).

Every lemma has the same shape: for a well-formed instruction `i` with the given mnemonic and a state
`s` satisfying `StOK`, abstracting the model's `execOne i s` gives exactly `RvSpec.exec i (α s)`.
-/
import ArchSim.Lemmas.C01Defs
import ArchSim.Lemmas.C01Arith

namespace ArchSim.Lemmas.C01
open ArchSim ArchSim.Rv ArchSim.Spec.RvSpec

/-! ### registers and pc under the abstraction -/

theorem α_get (s : St) (h : StOK s) (r : Nat) (hr : r < 32) : (α s).get r = W (s.regs r) := by
  simp only [SpecSt.get, α, αRegs, Nat.mod_eq_of_lt hr]
  split
  · rename_i h0; subst h0; rw [h.x0]; rfl
  · simp only [Fin.ofNat, Nat.mod_eq_of_lt hr]

theorem α_setReg (s : St) (rd v : Nat) (hr : rd < 32) :
    α (s.setReg rd v) = (α s).set rd (W v) := by
  simp only [SpecSt.set, α, St.setReg, Nat.mod_eq_of_lt hr]
  split
  · rename_i h0; subst h0
    congr 1
    funext k
    simp [αRegs, Rv.setReg]
  · rename_i h0
    congr 1
    funext k
    simp only [αRegs, Rv.setReg]
    have : (k = Fin.ofNat 32 rd) ↔ (k.val = rd ∧ 0 < rd ∧ rd < 32) := by
      rw [Fin.ext_iff]; simp only [Fin.ofNat, Nat.mod_eq_of_lt hr]; omega
    by_cases hk : k = Fin.ofNat 32 rd
    · rw [if_pos hk, if_pos (this.mp hk)]
    · rw [if_neg hk, if_neg (fun h => hk (this.mpr h))]

theorem α_pc (s : St) (p : Int) : α { s with pc := p } = { α s with pc := BitVec.ofInt 32 p } := rfl

/-- An instruction that only writes `rd`. -/
theorem execOne_wr (i : Instr) (s : St) (v : Nat)
    (h : behavior i s = { st := s.setReg i.rd v, fault := none }) (hrd : i.rd < 32) :
    αBeh (execOne i s) = some (.ok { (α s).set i.rd (W v) with pc := (α s).pc + 4 }) := by
  simp only [execOne, h, αBeh, αOut, α_pc, α_setReg _ _ _ hrd]
  rw [show (s.setReg i.rd v).pc = s.pc from rfl, pc_next]
  rfl

/-! ### R-type -/

theorem behavior_r (i : Instr) (s : St) (hty : i.op.ty = .r) :
    behavior i s = { st := s.setReg i.rd (aluRR i.op (s.regs i.rs1) (s.regs i.rs2)), fault := none } := by
  simp only [behavior, hty]

theorem execOne_r (i : Instr) (s : St) (hty : i.op.ty = .r) (hrd : i.rd < 32) :
    αBeh (execOne i s) = some (.ok { (α s).set i.rd (W (aluRR i.op (s.regs i.rs1) (s.regs i.rs2))) with
      pc := (α s).pc + 4 }) :=
  execOne_wr i s _ (behavior_r i s hty) hrd

theorem exec_add (i : Instr) (s : St) (hi : InstrWF i) (hs : StOK s) (hop : i.op = .add) :
    αBeh (execOne i s) = some (exec i (α s)) := by
  rw [execOne_r i s (by rw [hop]; rfl) hi.rd, hop]
  simp only [exec, hop, α_get s hs _ hi.rs1, α_get s hs _ hi.rs2, alu_add]

theorem exec_sub (i : Instr) (s : St) (hi : InstrWF i) (hs : StOK s) (hop : i.op = .sub) :
    αBeh (execOne i s) = some (exec i (α s)) := by
  rw [execOne_r i s (by rw [hop]; rfl) hi.rd, hop]
  simp only [exec, hop, α_get s hs _ hi.rs1, α_get s hs _ hi.rs2, alu_sub]

theorem exec_sll (i : Instr) (s : St) (hi : InstrWF i) (hs : StOK s) (hop : i.op = .sll) :
    αBeh (execOne i s) = some (exec i (α s)) := by
  rw [execOne_r i s (by rw [hop]; rfl) hi.rd, hop]
  simp only [exec, hop, α_get s hs _ hi.rs1, α_get s hs _ hi.rs2, alu_sll]

theorem exec_slt (i : Instr) (s : St) (hi : InstrWF i) (hs : StOK s) (hop : i.op = .slt) :
    αBeh (execOne i s) = some (exec i (α s)) := by
  rw [execOne_r i s (by rw [hop]; rfl) hi.rd, hop]
  simp only [exec, hop, α_get s hs _ hi.rs1, α_get s hs _ hi.rs2, alu_slt]

theorem exec_sltu (i : Instr) (s : St) (hi : InstrWF i) (hs : StOK s) (hop : i.op = .sltu) :
    αBeh (execOne i s) = some (exec i (α s)) := by
  rw [execOne_r i s (by rw [hop]; rfl) hi.rd, hop]
  simp only [exec, hop, α_get s hs _ hi.rs1, α_get s hs _ hi.rs2, alu_sltu _ _ (hs.regs_lt _) (hs.regs_lt _)]

theorem exec_xor (i : Instr) (s : St) (hi : InstrWF i) (hs : StOK s) (hop : i.op = .xor) :
    αBeh (execOne i s) = some (exec i (α s)) := by
  rw [execOne_r i s (by rw [hop]; rfl) hi.rd, hop]
  simp only [exec, hop, α_get s hs _ hi.rs1, α_get s hs _ hi.rs2, alu_xor]

theorem exec_srl (i : Instr) (s : St) (hi : InstrWF i) (hs : StOK s) (hop : i.op = .srl) :
    αBeh (execOne i s) = some (exec i (α s)) := by
  rw [execOne_r i s (by rw [hop]; rfl) hi.rd, hop]
  simp only [exec, hop, α_get s hs _ hi.rs1, α_get s hs _ hi.rs2, alu_srl _ _ (hs.regs_lt _)]

theorem exec_sra (i : Instr) (s : St) (hi : InstrWF i) (hs : StOK s) (hop : i.op = .sra) :
    αBeh (execOne i s) = some (exec i (α s)) := by
  rw [execOne_r i s (by rw [hop]; rfl) hi.rd, hop]
  simp only [exec, hop, α_get s hs _ hi.rs1, α_get s hs _ hi.rs2, alu_sra]

theorem exec_or (i : Instr) (s : St) (hi : InstrWF i) (hs : StOK s) (hop : i.op = .or) :
    αBeh (execOne i s) = some (exec i (α s)) := by
  rw [execOne_r i s (by rw [hop]; rfl) hi.rd, hop]
  simp only [exec, hop, α_get s hs _ hi.rs1, α_get s hs _ hi.rs2, alu_or]

theorem exec_and (i : Instr) (s : St) (hi : InstrWF i) (hs : StOK s) (hop : i.op = .and) :
    αBeh (execOne i s) = some (exec i (α s)) := by
  rw [execOne_r i s (by rw [hop]; rfl) hi.rd, hop]
  simp only [exec, hop, α_get s hs _ hi.rs1, α_get s hs _ hi.rs2, alu_and]

theorem exec_mul (i : Instr) (s : St) (hi : InstrWF i) (hs : StOK s) (hop : i.op = .mul) :
    αBeh (execOne i s) = some (exec i (α s)) := by
  rw [execOne_r i s (by rw [hop]; rfl) hi.rd, hop]
  simp only [exec, hop, α_get s hs _ hi.rs1, α_get s hs _ hi.rs2, alu_mul]

theorem exec_mulh (i : Instr) (s : St) (hi : InstrWF i) (hs : StOK s) (hop : i.op = .mulh) :
    αBeh (execOne i s) = some (exec i (α s)) := by
  rw [execOne_r i s (by rw [hop]; rfl) hi.rd, hop]
  simp only [exec, hop, α_get s hs _ hi.rs1, α_get s hs _ hi.rs2, alu_mulh]

theorem exec_mulhu (i : Instr) (s : St) (hi : InstrWF i) (hs : StOK s) (hop : i.op = .mulhu) :
    αBeh (execOne i s) = some (exec i (α s)) := by
  rw [execOne_r i s (by rw [hop]; rfl) hi.rd, hop]
  simp only [exec, hop, α_get s hs _ hi.rs1, α_get s hs _ hi.rs2, alu_mulhu _ _ (hs.regs_lt _) (hs.regs_lt _)]

theorem exec_mulhsu (i : Instr) (s : St) (hi : InstrWF i) (hs : StOK s) (hop : i.op = .mulhsu) :
    αBeh (execOne i s) = some (exec i (α s)) := by
  rw [execOne_r i s (by rw [hop]; rfl) hi.rd, hop]
  simp only [exec, hop, α_get s hs _ hi.rs1, α_get s hs _ hi.rs2, alu_mulhsu _ _ (hs.regs_lt _)]

theorem exec_div (i : Instr) (s : St) (hi : InstrWF i) (hs : StOK s) (hop : i.op = .div) :
    αBeh (execOne i s) = some (exec i (α s)) := by
  rw [execOne_r i s (by rw [hop]; rfl) hi.rd, hop]
  simp only [exec, hop, α_get s hs _ hi.rs1, α_get s hs _ hi.rs2, alu_div _ _ (hs.regs_lt _)]

theorem exec_divu (i : Instr) (s : St) (hi : InstrWF i) (hs : StOK s) (hop : i.op = .divu) :
    αBeh (execOne i s) = some (exec i (α s)) := by
  rw [execOne_r i s (by rw [hop]; rfl) hi.rd, hop]
  simp only [exec, hop, α_get s hs _ hi.rs1, α_get s hs _ hi.rs2, alu_divu _ _ (hs.regs_lt _) (hs.regs_lt _)]

theorem exec_rem (i : Instr) (s : St) (hi : InstrWF i) (hs : StOK s) (hop : i.op = .rem) :
    αBeh (execOne i s) = some (exec i (α s)) := by
  rw [execOne_r i s (by rw [hop]; rfl) hi.rd, hop]
  simp only [exec, hop, α_get s hs _ hi.rs1, α_get s hs _ hi.rs2, alu_rem _ _ (hs.regs_lt _)]

theorem exec_remu (i : Instr) (s : St) (hi : InstrWF i) (hs : StOK s) (hop : i.op = .remu) :
    αBeh (execOne i s) = some (exec i (α s)) := by
  rw [execOne_r i s (by rw [hop]; rfl) hi.rd, hop]
  simp only [exec, hop, α_get s hs _ hi.rs1, α_get s hs _ hi.rs2, alu_remu _ _ (hs.regs_lt _) (hs.regs_lt _)]

/-! ### I-type ALU -/

theorem behavior_i (i : Instr) (s : St) (hty : i.op.ty = .i) (h1 : i.op ≠ .jalr) (h2 : i.op ≠ .ecall)
    (h3 : i.op ≠ .ebreak) :
    behavior i s = { st := s.setReg i.rd (aluRI i.op (s.regs i.rs1) i.imm), fault := none } := by
  simp only [behavior, hty, h1, h2, h3, if_false]

theorem execOne_i (i : Instr) (s : St) (hty : i.op.ty = .i) (h1 : i.op ≠ .jalr) (h2 : i.op ≠ .ecall)
    (h3 : i.op ≠ .ebreak) (hrd : i.rd < 32) :
    αBeh (execOne i s) = some (.ok { (α s).set i.rd (W (aluRI i.op (s.regs i.rs1) i.imm)) with
      pc := (α s).pc + 4 }) :=
  execOne_wr i s _ (behavior_i i s hty h1 h2 h3) hrd

theorem immI_W (i : Instr) (h : -2048 ≤ i.imm ∧ i.imm < 2048) : immI i = W (wrapU i.imm) := by
  rw [W_wrapU, immI_eq i h]

theorem exec_addi (i : Instr) (s : St) (hi : InstrWF i) (hs : StOK s) (hop : i.op = .addi) :
    αBeh (execOne i s) = some (exec i (α s)) := by
  have himm : -2048 ≤ i.imm ∧ i.imm < 2048 := by have := hi.imm; rw [hop] at this; exact this
  rw [execOne_i i s (by rw [hop]; rfl) (by rw [hop]; decide) (by rw [hop]; decide) (by rw [hop]; decide) hi.rd, hop]
  simp only [exec, hop, α_get s hs _ hi.rs1, immI_W i himm, aluRI_addi, alu_add]

theorem exec_slti (i : Instr) (s : St) (hi : InstrWF i) (hs : StOK s) (hop : i.op = .slti) :
    αBeh (execOne i s) = some (exec i (α s)) := by
  have himm : -2048 ≤ i.imm ∧ i.imm < 2048 := by have := hi.imm; rw [hop] at this; exact this
  rw [execOne_i i s (by rw [hop]; rfl) (by rw [hop]; decide) (by rw [hop]; decide) (by rw [hop]; decide) hi.rd, hop]
  simp only [exec, hop, α_get s hs _ hi.rs1, immI_W i himm, aluRI_slti, alu_slt]

theorem exec_sltiu (i : Instr) (s : St) (hi : InstrWF i) (hs : StOK s) (hop : i.op = .sltiu) :
    αBeh (execOne i s) = some (exec i (α s)) := by
  have himm : -2048 ≤ i.imm ∧ i.imm < 2048 := by have := hi.imm; rw [hop] at this; exact this
  rw [execOne_i i s (by rw [hop]; rfl) (by rw [hop]; decide) (by rw [hop]; decide) (by rw [hop]; decide) hi.rd, hop]
  simp only [exec, hop, α_get s hs _ hi.rs1, immI_W i himm, aluRI_sltiu, alu_sltu _ _ (hs.regs_lt _) (wrapU_lt _)]

theorem exec_xori (i : Instr) (s : St) (hi : InstrWF i) (hs : StOK s) (hop : i.op = .xori) :
    αBeh (execOne i s) = some (exec i (α s)) := by
  have himm : -2048 ≤ i.imm ∧ i.imm < 2048 := by have := hi.imm; rw [hop] at this; exact this
  rw [execOne_i i s (by rw [hop]; rfl) (by rw [hop]; decide) (by rw [hop]; decide) (by rw [hop]; decide) hi.rd, hop]
  simp only [exec, hop, α_get s hs _ hi.rs1, immI_W i himm, aluRI_xori, alu_xor]

theorem exec_ori (i : Instr) (s : St) (hi : InstrWF i) (hs : StOK s) (hop : i.op = .ori) :
    αBeh (execOne i s) = some (exec i (α s)) := by
  have himm : -2048 ≤ i.imm ∧ i.imm < 2048 := by have := hi.imm; rw [hop] at this; exact this
  rw [execOne_i i s (by rw [hop]; rfl) (by rw [hop]; decide) (by rw [hop]; decide) (by rw [hop]; decide) hi.rd, hop]
  simp only [exec, hop, α_get s hs _ hi.rs1, immI_W i himm, aluRI_ori, alu_or]

theorem exec_andi (i : Instr) (s : St) (hi : InstrWF i) (hs : StOK s) (hop : i.op = .andi) :
    αBeh (execOne i s) = some (exec i (α s)) := by
  have himm : -2048 ≤ i.imm ∧ i.imm < 2048 := by have := hi.imm; rw [hop] at this; exact this
  rw [execOne_i i s (by rw [hop]; rfl) (by rw [hop]; decide) (by rw [hop]; decide) (by rw [hop]; decide) hi.rd, hop]
  simp only [exec, hop, α_get s hs _ hi.rs1, immI_W i himm, aluRI_andi, alu_and]

/-! ### shifts by an immediate -/

theorem behavior_shiftI (i : Instr) (s : St) (hty : i.op.ty = .shiftI) :
    behavior i s = { st := s.setReg i.rd (aluRI i.op (s.regs i.rs1) i.imm), fault := none } := by
  simp only [behavior, hty]

theorem execOne_shiftI (i : Instr) (s : St) (hty : i.op.ty = .shiftI) (hrd : i.rd < 32) :
    αBeh (execOne i s) = some (.ok { (α s).set i.rd (W (aluRI i.op (s.regs i.rs1) i.imm)) with
      pc := (α s).pc + 4 }) :=
  execOne_wr i s _ (behavior_shiftI i s hty) hrd

theorem exec_slli (i : Instr) (s : St) (hi : InstrWF i) (hs : StOK s) (hop : i.op = .slli) :
    αBeh (execOne i s) = some (exec i (α s)) := by
  have himm : 0 ≤ i.imm ∧ i.imm < 32 := by have := hi.imm; rw [hop] at this; exact this
  rw [execOne_shiftI i s (by rw [hop]; rfl) hi.rd, hop]
  simp only [exec, hop, α_get s hs _ hi.rs1, shamtI_eq i himm, aluRI_slli _ _ himm]

theorem exec_srli (i : Instr) (s : St) (hi : InstrWF i) (hs : StOK s) (hop : i.op = .srli) :
    αBeh (execOne i s) = some (exec i (α s)) := by
  have himm : 0 ≤ i.imm ∧ i.imm < 32 := by have := hi.imm; rw [hop] at this; exact this
  rw [execOne_shiftI i s (by rw [hop]; rfl) hi.rd, hop]
  simp only [exec, hop, α_get s hs _ hi.rs1, shamtI_eq i himm, aluRI_srli _ _ himm (hs.regs_lt _)]

theorem exec_srai (i : Instr) (s : St) (hi : InstrWF i) (hs : StOK s) (hop : i.op = .srai) :
    αBeh (execOne i s) = some (exec i (α s)) := by
  have himm : 0 ≤ i.imm ∧ i.imm < 32 := by have := hi.imm; rw [hop] at this; exact this
  rw [execOne_shiftI i s (by rw [hop]; rfl) hi.rd, hop]
  simp only [exec, hop, α_get s hs _ hi.rs1, shamtI_eq i himm, aluRI_srai _ _ himm]

/-! ### LUI, AUIPC -/

theorem exec_lui (i : Instr) (s : St) (hi : InstrWF i) (_hs : StOK s) (hop : i.op = .lui) :
    αBeh (execOne i s) = some (exec i (α s)) := by
  rw [execOne_wr i s (wrapU (i.imm * 4096)) (by simp only [behavior, hop, Op.ty, if_true]) hi.rd]
  simp only [exec, hop, immU_eq, W_wrapU]

theorem exec_auipc (i : Instr) (s : St) (hi : InstrWF i) (_hs : StOK s) (hop : i.op = .auipc) :
    αBeh (execOne i s) = some (exec i (α s)) := by
  rw [execOne_wr i s (wrapU (s.pc + i.imm * 4096))
    (by simp only [behavior, hop, Op.ty]; rfl) hi.rd]
  simp only [exec, hop, immU_eq, auipc_val]
  rfl

/-! ### JAL, JALR -/

theorem exec_jal (i : Instr) (s : St) (hi : InstrWF i) (_hs : StOK s) (hop : i.op = .jal) :
    αBeh (execOne i s) = some (exec i (α s)) := by
  have himm : -1048576 ≤ i.imm ∧ i.imm < 1048576 := by have := hi.imm; rw [hop] at this; exact this
  have hb : behavior i s = { st := { s.setReg i.rd (wrapU (s.pc + 4)) with
      pc := s.pc + (i.imm - 4), procs := s.procs + 1 }, fault := none } := by
    simp only [behavior, hop, Op.ty]; rfl
  simp only [execOne, hb, αBeh, αOut, exec, hop, immJ_eq i himm]
  rw [show ∀ (t : St) (p : Int) (q : Nat), α { t with pc := p, procs := q } =
      { α t with pc := BitVec.ofInt 32 p } from fun _ _ _ => rfl,
    α_setReg _ _ _ hi.rd, pc_rel, link]
  rfl

theorem exec_jalr (i : Instr) (s : St) (hi : InstrWF i) (hs : StOK s) (hop : i.op = .jalr) :
    αBeh (execOne i s) = some (exec i (α s)) := by
  have himm : -2048 ≤ i.imm ∧ i.imm < 2048 := by have := hi.imm; rw [hop] at this; exact this
  have hb : behavior i s = { st := { s.setReg i.rd (wrapU (s.pc + 4)) with
      pc := ((wrapU (toS (s.regs i.rs1) + sextBits 16 (wrapU i.imm)) -
        wrapU (toS (s.regs i.rs1) + sextBits 16 (wrapU i.imm)) % 2 : Nat) : Int) - 4 }, fault := none } := by
    simp only [behavior, hop, Op.ty, if_true]
  simp only [execOne, hb, αBeh, αOut, exec, hop, immI_eq i himm, α_get s hs _ hi.rs1]
  rw [α_pc, α_setReg _ _ _ hi.rd, jalr_pc _ _ himm, link]
  rfl

/-! ### branches -/

theorem execOne_b (i : Instr) (s : St) (hty : i.op.ty = .b) (himm : -4096 ≤ i.imm ∧ i.imm < 4096) :
    αBeh (execOne i s) = some (.ok { α s with pc :=
      (if (branchCond i.op (s.regs i.rs1) (s.regs i.rs2)) = true then (α s).pc + immB i else (α s).pc + 4) }) := by
  by_cases hc : branchCond i.op (s.regs i.rs1) (s.regs i.rs2) = true
  · have hb : behavior i s =
        { st := { s with pc := s.pc + (i.imm - 4), branches := s.branches + 1 }, fault := none } := by
      simp only [behavior, hty, hc, if_true]
    simp only [execOne, hb, hc, if_true, αBeh, αOut, immB_eq i himm]
    rw [show ∀ (t : St) (p : Int) (q : Nat), α { t with pc := p, branches := q } =
      { α t with pc := BitVec.ofInt 32 p } from fun _ _ _ => rfl, pc_rel]
    rfl
  · have hb : behavior i s = { st := s, fault := none } := by
      simp only [behavior, hty, hc]; rfl
    simp only [execOne, hb, hc, αBeh, αOut, α_pc, pc_next]
    rfl

theorem exec_beq (i : Instr) (s : St) (hi : InstrWF i) (hs : StOK s) (hop : i.op = .beq) :
    αBeh (execOne i s) = some (exec i (α s)) := by
  have himm : -4096 ≤ i.imm ∧ i.imm < 4096 := by have := hi.imm; rw [hop] at this; exact this
  rw [execOne_b i s (by rw [hop]; rfl) himm, hop]
  simp only [exec, hop, α_get s hs _ hi.rs1, α_get s hs _ hi.rs2, br_beq _ _ (hs.regs_lt _) (hs.regs_lt _)]

theorem exec_bne (i : Instr) (s : St) (hi : InstrWF i) (hs : StOK s) (hop : i.op = .bne) :
    αBeh (execOne i s) = some (exec i (α s)) := by
  have himm : -4096 ≤ i.imm ∧ i.imm < 4096 := by have := hi.imm; rw [hop] at this; exact this
  rw [execOne_b i s (by rw [hop]; rfl) himm, hop]
  simp only [exec, hop, α_get s hs _ hi.rs1, α_get s hs _ hi.rs2, br_bne _ _ (hs.regs_lt _) (hs.regs_lt _)]

theorem exec_blt (i : Instr) (s : St) (hi : InstrWF i) (hs : StOK s) (hop : i.op = .blt) :
    αBeh (execOne i s) = some (exec i (α s)) := by
  have himm : -4096 ≤ i.imm ∧ i.imm < 4096 := by have := hi.imm; rw [hop] at this; exact this
  rw [execOne_b i s (by rw [hop]; rfl) himm, hop]
  simp only [exec, hop, α_get s hs _ hi.rs1, α_get s hs _ hi.rs2, br_blt]

theorem exec_bge (i : Instr) (s : St) (hi : InstrWF i) (hs : StOK s) (hop : i.op = .bge) :
    αBeh (execOne i s) = some (exec i (α s)) := by
  have himm : -4096 ≤ i.imm ∧ i.imm < 4096 := by have := hi.imm; rw [hop] at this; exact this
  rw [execOne_b i s (by rw [hop]; rfl) himm, hop]
  simp only [exec, hop, α_get s hs _ hi.rs1, α_get s hs _ hi.rs2, br_bge]

theorem exec_bltu (i : Instr) (s : St) (hi : InstrWF i) (hs : StOK s) (hop : i.op = .bltu) :
    αBeh (execOne i s) = some (exec i (α s)) := by
  have himm : -4096 ≤ i.imm ∧ i.imm < 4096 := by have := hi.imm; rw [hop] at this; exact this
  rw [execOne_b i s (by rw [hop]; rfl) himm, hop]
  simp only [exec, hop, α_get s hs _ hi.rs1, α_get s hs _ hi.rs2, br_bltu _ _ (hs.regs_lt _) (hs.regs_lt _)]

theorem exec_bgeu (i : Instr) (s : St) (hi : InstrWF i) (hs : StOK s) (hop : i.op = .bgeu) :
    αBeh (execOne i s) = some (exec i (α s)) := by
  have himm : -4096 ≤ i.imm ∧ i.imm < 4096 := by have := hi.imm; rw [hop] at this; exact this
  rw [execOne_b i s (by rw [hop]; rfl) himm, hop]
  simp only [exec, hop, α_get s hs _ hi.rs1, α_get s hs _ hi.rs2, br_bgeu _ _ (hs.regs_lt _) (hs.regs_lt _)]

end ArchSim.Lemmas.C01
