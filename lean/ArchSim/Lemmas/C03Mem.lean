/-
C03 helper lemmas, part 4: the backing RISC-V memory — single accesses in Nat-addressed form and the
block transfers `readBlockFromMem` / `writeBlockToMem`.
-/
import ArchSim.Lemmas.C03Lanes
import ArchSim.Lemmas.C03Addr
import ArchSim.Lemmas.C18Repr

namespace ArchSim.Lemmas.C03
open ArchSim ArchSim.Cache ArchSim.Mem ArchSim.Spec.ByteStore ArchSim.Lemmas.C18 ArchSim.Spec.CacheAbs

/-- Backing memory well formed: the RISC-V configuration and the C18 invariant. -/
structure MemOK (m : Mem) : Prop where
  cfg : m.cfg = riscvCfg
  wf  : WF m

theorem MemOK.cells_lt {m : Mem} (h : MemOK m) (x : Int) : m.cells x < 256 := by
  have := h.wf.cells_lt x
  rw [h.cfg] at this
  exact this

theorem cellOk_riscv (A : Int) (i : Nat) (h1 : 16384 ≤ wrap32 A) (h2 : wrap32 A + i < 4294967296) :
    cellOk riscvCfg A i = true := by
  rw [riscv_cellOk_iff]
  have := wrap32_cast A
  have := wrap32_lt A
  omega

theorem cellBad_riscv (A : Int) (h1 : wrap32 A < 16384) : cellOk riscvCfg A 0 = false := by
  rw [Bool.eq_false_iff, ne_eq, riscv_cellOk_iff]
  have := wrap32_cast A
  simp only [Int.natCast_zero, Int.add_zero]
  omega

theorem wrapAddr_add (A : Int) (i : Nat) (h2 : wrap32 A + i < 4294967296) :
    wrapAddr riscvCfg (A + (i : Int)) = ((wrap32 A + i : Nat) : Int) := by
  rw [wrapAddr_riscv, wrap32_add_lt A i h2]

/-! ### single accesses -/

theorem cellsOf_riscv (bits : Nat) : cellsOf riscvCfg bits = bits / 8 := rfl

/-- A flat read all of whose bytes are valid data addresses (no wrap inside the access). -/
theorem read_riscv {m : Mem} (hm : MemOK m) (bits : Nat) (hb : widthOK bits) (A : Int)
    (h1 : 16384 ≤ wrap32 A) (h2 : wrap32 A + bits / 8 ≤ 4294967296) :
    Mem.read m bits A =
      some (.ok (leSum riscvCfg (bits / 8) (fun i => m.cells ((wrap32 A + i : Nat) : Int)))) := by
  have h8 : 8 ≤ bits := by rcases hb with rfl | rfl | rfl <;> decide
  have h8' : ¬ m.cfg.cellBits > bits := by rw [hm.cfg]; show ¬ 8 > bits; omega
  simp only [Mem.read, h8', if_false]
  rw [readN_ok m A _ (by
    rw [hm.cfg]; intro i hi; rw [cellsOf_riscv] at hi; exact cellOk_riscv A i h1 (by omega))]
  simp only [Except.map]
  rw [leSum_mod_bits m.cfg bits _ (fun i _ => hm.wf.cells_lt _)]
  rw [hm.cfg, cellsOf_riscv]
  congr 2
  apply leSum_congr
  intro i hi
  rw [wrapAddr_add A i (by omega)]

/-- A flat write all of whose bytes are valid data addresses: it succeeds, stores the little-endian
    bytes of `v` and changes nothing else (only the configuration matters here). -/
theorem write_riscv_cfg {m : Mem} (hc : m.cfg = riscvCfg) (bits : Nat) (hb : widthOK bits) (A : Int)
    (v : Nat) (h1 : 16384 ≤ wrap32 A) (h2 : wrap32 A + bits / 8 ≤ 4294967296) :
    ∃ m', Mem.write m bits A v = some (m', none) ∧ m'.cfg = riscvCfg ∧ (WF m → WF m') ∧
      (∀ i, i < bits / 8 → m'.cells ((wrap32 A + i : Nat) : Int) = byteOf v i) ∧
      (∀ z : Int, (z < (wrap32 A : Nat) ∨ ((wrap32 A + bits / 8 : Nat) : Int) ≤ z) →
        m'.cells z = m.cells z) := by
  have h8 : ¬ m.cfg.cellBits > bits := by
    rw [hc]; rcases hb with rfl | rfl | rfl <;> decide
  have hn : cellsOf m.cfg bits = bits / 8 := by rw [hc]; rfl
  have hok : ∀ i, i < bits / 8 → cellOk m.cfg A i = true := by
    intro i hi; rw [hc]; exact cellOk_riscv A i h1 (by omega)
  have hn4 : bits / 8 ≤ 4 := by rcases hb with rfl | rfl | rfl <;> decide
  refine ⟨(writeN m A (bits / 8) v).1, ?_, ?_, fun hwf => WF_writeN m A _ v hwf, ?_, ?_⟩
  · simp only [Mem.write, h8, if_false, hn]
    rw [← writeN_all_ok m A _ v hok]
  · rw [writeN_cfg]; exact hc
  · intro i hi
    have := writeN_cells_written m A (bits / 8) v i hi hok (by
      intro j hij hj
      rw [hc, wrapAddr_add A j (by omega), wrapAddr_add A i (by omega)]
      omega)
    rw [hc, wrapAddr_add A i (by omega)] at this
    exact this
  · intro z hz
    apply writeN_cells_other
    intro i hi
    rw [hc, wrapAddr_add A i (by omega)]
    omega

theorem write_riscv {m : Mem} (hm : MemOK m) (bits : Nat) (hb : widthOK bits) (A : Int) (v : Nat)
    (h1 : 16384 ≤ wrap32 A) (h2 : wrap32 A + bits / 8 ≤ 4294967296) :
    ∃ m', Mem.write m bits A v = some (m', none) ∧ MemOK m' ∧
      (∀ i, i < bits / 8 → m'.cells ((wrap32 A + i : Nat) : Int) = byteOf v i) ∧
      (∀ z : Int, (z < (wrap32 A : Nat) ∨ ((wrap32 A + bits / 8 : Nat) : Int) ≤ z) →
        m'.cells z = m.cells z) := by
  obtain ⟨m', e1, e2, e3, e4, e5⟩ := write_riscv_cfg hm.cfg bits hb A v h1 h2
  exact ⟨m', e1, ⟨e2, e3 hm.wf⟩, e4, e5⟩

/-- A flat read all of whose bytes are valid data addresses, for any memory with the RISC-V
    configuration whose cells fit a byte. -/
theorem read_riscv_cfg {m : Mem} (hc : m.cfg = riscvCfg) (hlt : ∀ x, m.cells x < 256) (bits : Nat)
    (hb : widthOK bits) (A : Int) (h1 : 16384 ≤ wrap32 A) (h2 : wrap32 A + bits / 8 ≤ 4294967296) :
    Mem.read m bits A =
      some (.ok (leSum riscvCfg (bits / 8) (fun i => m.cells ((wrap32 A + i : Nat) : Int)))) := by
  have h8 : 8 ≤ bits := by rcases hb with rfl | rfl | rfl <;> decide
  have h8' : ¬ m.cfg.cellBits > bits := by rw [hc]; show ¬ 8 > bits; omega
  simp only [Mem.read, h8', if_false]
  rw [readN_ok m A _ (by
    rw [hc]; intro i hi; rw [cellsOf_riscv] at hi; exact cellOk_riscv A i h1 (by omega))]
  simp only [Except.map]
  rw [leSum_mod_bits m.cfg bits _ (fun i _ => by rw [hc]; exact hlt _)]
  rw [hc, cellsOf_riscv]
  refine congrArg some (congrArg Except.ok ?_)
  apply leSum_congr
  intro i hi
  rw [wrapAddr_add A i (by omega)]

/-- A flat access whose first byte is below the data range fails and changes nothing. -/
theorem read_riscv_bad {m : Mem} (hm : MemOK m) (bits : Nat) (hb : widthOK bits) (A : Int)
    (h1 : wrap32 A < 16384) :
    Mem.read m bits A = some (.error ⟨((wrap32 A : Nat) : Int)⟩) := by
  have h8 : ¬ m.cfg.cellBits > bits := by
    rw [hm.cfg]; rcases hb with rfl | rfl | rfl <;> decide
  have hn : 0 < bits / 8 := by rcases hb with rfl | rfl | rfl <;> decide
  simp only [Mem.read, h8, if_false]
  rw [readN_err m A _ 0 (by rw [hm.cfg]; exact hn) (fun i hi => absurd hi (Nat.not_lt_zero _))
    (by rw [hm.cfg]; exact cellBad_riscv A h1)]
  simp only [Except.map, hm.cfg, Int.natCast_zero, Int.add_zero, wrapAddr_riscv]

theorem write_riscv_bad {m : Mem} (hm : MemOK m) (bits : Nat) (hb : widthOK bits) (A : Int) (v : Nat)
    (h1 : wrap32 A < 16384) :
    Mem.write m bits A v = some (m, some ⟨((wrap32 A : Nat) : Int)⟩) := by
  have h8 : ¬ m.cfg.cellBits > bits := by
    rw [hm.cfg]; rcases hb with rfl | rfl | rfl <;> decide
  have hn : 0 < bits / 8 := by rcases hb with rfl | rfl | rfl <;> decide
  simp only [Mem.write, h8, if_false]
  rw [writeN_first_bad m A _ v (by rw [hm.cfg]; exact hn) (by rw [hm.cfg]; exact cellBad_riscv A h1)]
  rw [hm.cfg, wrapAddr_riscv]

/-! ### words of the backing memory -/

/-- The word stored at byte address `y` (little-endian composition of four cells). -/
def memWord (m : Mem) (y : Nat) : Nat :=
  m.cells ((y : Nat) : Int) + m.cells ((y + 1 : Nat) : Int) * 256 +
    m.cells ((y + 2 : Nat) : Int) * 65536 + m.cells ((y + 3 : Nat) : Int) * 16777216

theorem memWord_lt {m : Mem} (hm : MemOK m) (y : Nat) : memWord m y < 4294967296 :=
  compose_lt _ _ _ _ (hm.cells_lt _) (hm.cells_lt _) (hm.cells_lt _) (hm.cells_lt _)

theorem byteOf_memWord {m : Mem} (hm : MemOK m) (y i : Nat) (hi : i < 4) :
    byteOf (memWord m y) i = m.cells ((y + i : Nat) : Int) := by
  unfold memWord
  rw [byteOf_compose _ _ _ _ i (hm.cells_lt _) (hm.cells_lt _) (hm.cells_lt _) (hm.cells_lt _) hi]
  have h : i = 0 ∨ i = 1 ∨ i = 2 ∨ i = 3 := by omega
  rcases h with rfl | rfl | rfl | rfl
  · rw [if_pos rfl]; rfl
  · rw [if_neg (by decide), if_pos rfl]
  · rw [if_neg (by decide), if_neg (by decide), if_pos rfl]
  · rw [if_neg (by decide), if_neg (by decide), if_neg (by decide)]

theorem read_word_riscv {m : Mem} (hm : MemOK m) (A : Int) (h1 : 16384 ≤ wrap32 A)
    (h2 : wrap32 A + 4 ≤ 4294967296) : Mem.read m 32 A = some (.ok (memWord m (wrap32 A))) := by
  rw [read_riscv hm 32 (Or.inr (Or.inr rfl)) A h1 h2]
  rw [show (32 : Nat) / 8 = 4 from rfl, leSum4]
  rfl

/-! ### block transfers -/

theorem wordAt_cons_zero (w : Nat) (ws : List Nat) : wordAt (w :: ws) 0 = w := rfl
theorem wordAt_cons_succ (w : Nat) (ws : List Nat) (j : Nat) : wordAt (w :: ws) (j + 1) = wordAt ws j := rfl

theorem readBlockFromMem_ok {m : Mem} (hm : MemOK m) (base : Nat) (n i : Nat)
    (h1 : 16384 ≤ base) (h2 : base + 4 * (i + n) ≤ 4294967296) :
    ∃ ws, readBlockFromMem m base n i = .ok ws ∧ ws.length = n ∧
      ∀ j, j < n → wordAt ws j = memWord m (base + 4 * (i + j)) := by
  induction n generalizing i with
  | zero => exact ⟨[], rfl, rfl, fun j hj => absurd hj (Nat.not_lt_zero _)⟩
  | succ n ih =>
    have hA : wrap32 ((base : Int) + 4 * (i : Int)) = base + 4 * i := by
      have := wrap32_nat (base + 4 * i) (by omega)
      rw [← this]; congr 1
    obtain ⟨ws, hws, hlen, hw⟩ := ih (i + 1) (by omega)
    refine ⟨memWord m (base + 4 * i) :: ws, ?_, by rw [List.length_cons, hlen], ?_⟩
    · rw [readBlockFromMem, read_word_riscv hm _ (by rw [hA]; omega) (by rw [hA]; omega), hA]
      simp only
      rw [hws]
    · intro j hj
      cases j with
      | zero => rw [wordAt_cons_zero]; rfl
      | succ j =>
        rw [wordAt_cons_succ, hw j (by omega), show i + 1 + j = i + (j + 1) by omega]

theorem readBlockFromMem_bad {m : Mem} (hm : MemOK m) (base : Nat) (n : Nat) (h1 : base < 16384) :
    readBlockFromMem m base (n + 1) 0 = .error (.addr (base : Int)) := by
  have hA : wrap32 ((base : Int) + 4 * ((0 : Nat) : Int)) = base := by
    have := wrap32_nat base (by omega)
    rw [← this]; congr 1; omega
  rw [readBlockFromMem, read_riscv_bad hm 32 (Or.inr (Or.inr rfl)) _ (by rw [hA]; exact h1), hA]

theorem writeBlockToMem_ok {m : Mem} (hm : MemOK m) (base : Nat) (ws : List Nat) (i : Nat)
    (h1 : 16384 ≤ base) (h2 : base + 4 * (i + ws.length) ≤ 4294967296) :
    ∃ m', writeBlockToMem m base ws i = (m', none) ∧ MemOK m' ∧
      (∀ j l, j < ws.length → l < 4 →
        m'.cells ((base + 4 * (i + j) + l : Nat) : Int) = byteOf (wordAt ws j) l) ∧
      (∀ z : Int, (z < ((base + 4 * i : Nat) : Int) ∨ ((base + 4 * (i + ws.length) : Nat) : Int) ≤ z) →
        m'.cells z = m.cells z) := by
  induction ws generalizing m i with
  | nil => exact ⟨m, rfl, hm, fun j l hj => absurd hj (Nat.not_lt_zero _), fun _ _ => rfl⟩
  | cons w ws ih =>
    simp only [List.length_cons] at h2
    have hA : wrap32 ((base : Int) + 4 * (i : Int)) = base + 4 * i := by
      have := wrap32_nat (base + 4 * i) (by omega)
      rw [← this]; congr 1
    obtain ⟨m1, hw, hm1, hcw, hco⟩ := write_riscv hm 32 (Or.inr (Or.inr rfl)) ((base : Int) + 4 * (i : Int)) w
      (by rw [hA]; omega) (by rw [hA]; omega)
    rw [hA] at hcw hco
    obtain ⟨m', hw', hm', hcw', hco'⟩ := ih hm1 (i + 1) (by omega)
    refine ⟨m', ?_, hm', ?_, ?_⟩
    · rw [writeBlockToMem, hw]; exact hw'
    · intro j l hj hl
      cases j with
      | zero =>
        rw [hco' _ (Or.inl (by omega))]
        exact hcw l (by omega)
      | succ j =>
        have := hcw' j l (by simpa using hj) hl
        rw [show base + 4 * (i + (j + 1)) + l = base + 4 * (i + 1 + j) + l by omega]
        exact this
    · intro z hz
      simp only [List.length_cons] at hz
      rw [hco' z (by omega), hco z (by omega)]

end ArchSim.Lemmas.C03
