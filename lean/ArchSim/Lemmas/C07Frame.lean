/-
C07/C08 helper lemmas, part 2: frame lemmas — which fields of the architectural state each stage can
change. In particular: only WB writes registers, only IF and MEM add (miss-penalty) cycles.
Core Lean only.
-/
import ArchSim.Lemmas.C07Step

namespace ArchSim.Lemmas.C07
open ArchSim ArchSim.Rv ArchSim.Pipe ArchSim.Lemmas.C02Split

/-- Extra cycles of the instruction fetch at the current pc (0 when there is nothing to fetch). -/
def ifExtra (s : St) : Nat :=
  match s.imem.instrAt s.pc with
  | none => 0
  | some _ => (s.imem.fetch s.pc).extra

/-- Extra cycles of the MEM stage's `memory_access` on memory system `ms` (0 for a bubble). -/
def maExtra (ms : MemSys) (inp : Option Latch) : Nat :=
  match inp with
  | none => 0
  | some e =>
    match memoryAccess e.instr e.result e.rr.d2 ms true with
    | none => 0
    | some o => o.extra

/-! ### IF -/

theorem ifStage_cycles (s : St) : (ifStage s).1.cycles = s.cycles + ifExtra s := by
  unfold ifStage ifExtra
  cases h : s.imem.instrAt s.pc with
  | none => simp
  | some i => simp only; split <;> rfl

theorem ifStage_frame (s : St) :
    (ifStage s).1.regs = s.regs ∧ (ifStage s).1.mem = s.mem ∧ (ifStage s).1.output = s.output ∧
    (ifStage s).1.exitCode = s.exitCode ∧ (ifStage s).1.instrs = s.instrs ∧
    (ifStage s).1.branches = s.branches ∧ (ifStage s).1.procs = s.procs ∧
    (ifStage s).1.stalls = s.stalls ∧ (ifStage s).1.flushes = s.flushes := by
  unfold ifStage
  split
  · simp
  · simp only; split <;> simp

theorem ifStage_pc (s : St) :
    (ifStage s).1.pc = if (s.imem.instrAt s.pc).isSome then s.pc + 4 else s.pc := by
  unfold ifStage
  cases h : s.imem.instrAt s.pc with
  | none => simp
  | some i => simp only; split <;> simp

/-! ### WB -/

theorem wbStage_frame (s : St) (l : Option Latch) :
    (wbStage s l).1.pc = s.pc ∧ (wbStage s l).1.mem = s.mem ∧ (wbStage s l).1.imem = s.imem ∧
    (wbStage s l).1.output = s.output ∧ (wbStage s l).1.cycles = s.cycles ∧
    (wbStage s l).1.branches = s.branches ∧ (wbStage s l).1.procs = s.procs ∧
    (wbStage s l).1.stalls = s.stalls ∧ (wbStage s l).1.flushes = s.flushes := by
  cases l with
  | none => simp [wbStage_none]
  | some m => simp [wbStage_some, wbSt]

theorem wbStage_instrs (s : St) (l : Option Latch) :
    (wbStage s l).1.instrs = s.instrs + (if l.isSome then 1 else 0) := by
  cases l with
  | none => simp [wbStage_none]
  | some m => simp [wbStage_some, wbSt]

/-! ### EX -/

theorem exStage_frame (s : St) (inp l2 l3 : Option Latch) :
    (exStage s inp l2 l3).st.regs = s.regs ∧ (exStage s inp l2 l3).st.pc = s.pc ∧
    (exStage s inp l2 l3).st.imem = s.imem ∧ (exStage s inp l2 l3).st.cycles = s.cycles ∧
    (exStage s inp l2 l3).st.instrs = s.instrs ∧ (exStage s inp l2 l3).st.exitCode = s.exitCode ∧
    (exStage s inp l2 l3).st.branches = s.branches ∧ (exStage s inp l2 l3).st.procs = s.procs ∧
    (exStage s inp l2 l3).st.stalls = s.stalls ∧ (exStage s inp l2 l3).st.flushes = s.flushes := by
  unfold exStage
  repeat' split
  all_goals simp

/-- EX changes the memory system only when it runs an ecall service. -/
theorem exStage_mem_nonEcall (s : St) (inp l2 l3 : Option Latch)
    (h : ∀ d, inp = some d → d.instr.op ≠ .ecall) :
    (exStage s inp l2 l3).st = s := by
  cases inp with
  | none => rfl
  | some d =>
    have hd := h d rfl
    unfold exStage
    simp only [hd, if_false]
    split <;> rfl

/-! ### MEM -/

theorem memStage_cycles (s : St) (inp : Option Latch) :
    (memStage s inp).st.cycles = s.cycles + maExtra s.mem inp := by
  unfold memStage maExtra
  cases inp with
  | none => simp
  | some e =>
    simp only
    cases hma : memoryAccess e.instr e.result e.rr.d2 s.mem true with
    | none => simp
    | some o =>
      simp only
      cases o.res with
      | error err => rfl
      | ok rd => simp only; repeat' split
                 all_goals rfl

theorem memStage_frame (s : St) (inp : Option Latch) :
    (memStage s inp).st.regs = s.regs ∧ (memStage s inp).st.pc = s.pc ∧
    (memStage s inp).st.imem = s.imem ∧ (memStage s inp).st.output = s.output ∧
    (memStage s inp).st.exitCode = s.exitCode ∧ (memStage s inp).st.instrs = s.instrs ∧
    (memStage s inp).st.stalls = s.stalls ∧ (memStage s inp).st.flushes = s.flushes := by
  cases inp with
  | none => simp [memStage_none]
  | some e =>
    cases hma : memoryAccess e.instr e.result e.rr.d2 s.mem true with
    | none => simp [memStage_assert s e hma]
    | some o =>
      cases hres : o.res with
      | error err => simp [memStage_error s e o err hma hres, memSt]
      | ok rd =>
        rw [memStage_some s e o rd hma hres]
        unfold memCount memSt
        repeat' split
        all_goals simp

end ArchSim.Lemmas.C07
