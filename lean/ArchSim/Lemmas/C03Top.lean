/-
C03 helper lemmas, part 8: the public operations, one lemma per (operation, acceptance class), in the
uniform shape `Eff`: result, invariant afterwards, logical contents afterwards.
-/
import ArchSim.Lemmas.C03Writes

namespace ArchSim.Lemmas.C03
open ArchSim ArchSim.Cache ArchSim.Mem ArchSim.Spec.ByteStore ArchSim.Lemmas.C18 ArchSim.Spec.CacheAbs

variable {σ : Type} {P : PolicyOps σ} {WFp : σ → Prop}

/-- The operation returned `res`, left a state satisfying the invariant whose logical contents are
    `L`, and did not change geometry or write policy. -/
def Eff (WFp : σ → Prop) (s : DSys σ) (o : Out σ) (res : Except Err Nat) (L : Int → Nat) : Prop :=
  o.res = res ∧ CInv WFp o.sys ∧ (∀ a, logical o.sys a = L a) ∧ o.sys.geo = s.geo ∧ o.sys.wt = s.wt

/-- No block below the data range is ever resident. -/
theorem not_resident_of_bad {s : DSys σ} (hs : CInvS WFp s) (addr : Int) (h : ¬ inData addr) :
    lookup s.sets (dec s addr).setIdx (dec s addr).tag = none := by
  cases hlk : lookup s.sets (dec s addr).setIdx (dec s addr).tag with
  | none => rfl
  | some w =>
    exfalso
    obtain ⟨_, hok, hv, ht⟩ := lookup_some_valid hs.sets hlk
    have h1 := hok.lo hv
    have h2 := hok.base hv
    rw [ht] at h2
    have h3 : ((dec s addr).tag * 2 ^ s.geo.idxBits + (dec s addr).setIdx) * 2 ^ (s.geo.blkBits + 2) =
      (dec s addr).blockBase := decode_base _ _ _
    have h4 : wrap32 addr = (dec s addr).blockBase + 4 * (dec s addr).blockOff + (dec s addr).byteOff :=
      decode_full_eq _ _ _
    unfold inData at h
    omega

theorem words_succ (g : Geo) : ∃ n, g.words = n + 1 :=
  ⟨2 ^ g.blkBits - 1, by have := pow_pos2 g.blkBits; unfold Geo.words; omega⟩

/-! ### reads -/

theorem read_accepted {s : DSys σ} (hP : PolicyOK P s.geo.assoc WFp) (hs : CInv WFp s)
    (bits : Nat) (addr : Int) (counted : Bool) (hb : widthOK bits) (hw : inWord bits addr)
    (hin : inData addr) :
    Eff WFp s (s.read P bits addr counted)
      (.ok (leSum riscvCfg (bits / 8) (fun i => logical s (addr + (i : Int))))) (logical s) := by
  obtain ⟨vals, h1, h2, h3, h4, h5, h6, h7⟩ := read_inData hP hs bits addr counted hin
  refine ⟨?_, h4, h5, h6, h7⟩
  have hoff : (dec s addr).byteOff + bits / 8 ≤ 4 := hw
  rw [h1, fromBlock_ok bits (dec s addr) vals hb hoff h2]
  refine congrArg Except.ok ?_
  apply leSum_congr
  intro i hi
  exact h3 i (by omega)

theorem read_crossing {s : DSys σ} (hP : PolicyOK P s.geo.assoc WFp) (hs : CInv WFp s)
    (bits : Nat) (addr : Int) (counted : Bool) (hb : widthOK bits) (hw : ¬ inWord bits addr)
    (hin : inData addr) :
    Eff WFp s (s.read P bits addr counted)
      (.error (.byteOffset (wrap32 addr % 4) (if bits = 16 then 2 else 0))) (logical s) := by
  obtain ⟨vals, h1, _, _, h4, h5, h6, h7⟩ := read_inData hP hs bits addr counted hin
  refine ⟨?_, h4, h5, h6, h7⟩
  have hoff : ¬ (dec s addr).byteOff + bits / 8 ≤ 4 := hw
  rw [h1, fromBlock_crossing bits (dec s addr) vals hb hoff (decode_byteOff_lt _ _ _)]
  rfl

theorem read_bad {s : DSys σ} (hP : PolicyOK P s.geo.assoc WFp) (hs : CInv WFp s)
    (bits : Nat) (addr : Int) (counted : Bool) (hin : ¬ inData addr) :
    Eff WFp s (s.read P bits addr counted)
      (.error (.addr (((dec s addr).blockBase : Nat) : Int))) (logical s) := by
  have hk : (dec s addr).setIdx < 2 ^ s.geo.idxBits := decode_setIdx_lt _ _ _
  obtain ⟨sets1, hrb, hsets1, hl1⟩ := readBlock_spec hP hs.sets (dec s addr) hk
  obtain ⟨hs1, hlog1⟩ := CInv_transfer hs { s with sets := sets1 } rfl rfl rfl hsets1 hl1
  rw [not_resident_of_bad hs.toCInvS addr hin] at hrb
  have hrb' : readBlock P s.sets (decode s.geo.idxBits s.geo.blkBits addr) = .ok (sets1, none) := hrb
  obtain ⟨n, hn⟩ := words_succ s.geo
  have hbase : (dec s addr).blockBase < 16384 := by
    have h4 : wrap32 addr = (dec s addr).blockBase + 4 * (dec s addr).blockOff + (dec s addr).byteOff :=
      decode_full_eq _ _ _
    unfold inData at hin
    omega
  have hf := readBlockFromMem_bad (CInvS_memOK hs.toCInvS) (dec s addr).blockBase n hbase
  rw [← hn] at hf
  have hf' : readBlockFromMem s.mem (decode s.geo.idxBits s.geo.blkBits addr).blockBase s.geo.words 0 =
    .error (.addr (((dec s addr).blockBase : Nat) : Int)) := hf
  unfold Eff DSys.read DSys.readBlockSys
  simp only [hrb', hf']
  exact ⟨trivial, hs1, hlog1, trivial, trivial⟩

/-! ### write-back writes -/

theorem writeWB_accepted {s : DSys σ} (hP : PolicyOK P s.geo.assoc WFp) (hs : CInv WFp s)
    (hwt : s.wt = false) (bits : Nat) (addr : Int) (v : Nat) (hb : widthOK bits)
    (hw : inWord bits addr) (hin : inData addr) (hv : v < 2 ^ bits) :
    Eff WFp s (s.writeWB P bits addr v) (.ok 0) (updBytes (logical s) addr (bits / 8) v) := by
  have hk : (dec s addr).setIdx < 2 ^ s.geo.idxBits := decode_setIdx_lt _ _ _
  obtain ⟨sets1, hrb, hsets1, hl1⟩ := readBlock_spec hP hs.sets (dec s addr) hk
  cases hlk : lookup s.sets (dec s addr).setIdx (dec s addr).tag with
  | some w =>
    rw [hlk] at hrb
    obtain ⟨c1, c2, c3⟩ := hit_spec hs addr w hlk
    rw [writeWB_hit s bits addr v sets1 w.vals hrb]
    exact wbFinish_ok hP hs hwt sets1 hsets1 hl1 bits addr v true hb hw hin hv w.vals c1 c2 c3
  | none =>
    rw [hlk] at hrb
    obtain ⟨ws, hf, c1, c2, c3⟩ := fetch_spec hs addr hin hlk
    rw [writeWB_miss s bits addr v sets1 ws hrb hf]
    exact wbFinish_ok hP hs hwt sets1 hsets1 hl1 bits addr v false hb hw hin hv ws c1 c2 c3

theorem writeWB_crossing {s : DSys σ} (hP : PolicyOK P s.geo.assoc WFp) (hs : CInv WFp s)
    (bits : Nat) (addr : Int) (v : Nat) (hb : widthOK bits)
    (hw : ¬ inWord bits addr) (hin : inData addr) :
    Eff WFp s (s.writeWB P bits addr v)
      (.error (.byteOffset (wrap32 addr % 4) (if bits = 16 then 2 else 0))) (logical s) := by
  have hk : (dec s addr).setIdx < 2 ^ s.geo.idxBits := decode_setIdx_lt _ _ _
  obtain ⟨sets1, hrb, hsets1, hl1⟩ := readBlock_spec hP hs.sets (dec s addr) hk
  cases hlk : lookup s.sets (dec s addr).setIdx (dec s addr).tag with
  | some w =>
    rw [hlk] at hrb
    rw [writeWB_hit s bits addr v sets1 w.vals hrb]
    exact wbFinish_crossing hs sets1 hsets1 hl1 bits addr v true hb hw w.vals
  | none =>
    rw [hlk] at hrb
    obtain ⟨ws, hf, _, _, _⟩ := fetch_spec hs addr hin hlk
    rw [writeWB_miss s bits addr v sets1 ws hrb hf]
    exact wbFinish_crossing hs sets1 hsets1 hl1 bits addr v false hb hw ws

theorem writeWB_bad {s : DSys σ} (hP : PolicyOK P s.geo.assoc WFp) (hs : CInv WFp s)
    (bits : Nat) (addr : Int) (v : Nat) (hin : ¬ inData addr) :
    Eff WFp s (s.writeWB P bits addr v)
      (.error (.addr (((dec s addr).blockBase : Nat) : Int))) (logical s) := by
  have hk : (dec s addr).setIdx < 2 ^ s.geo.idxBits := decode_setIdx_lt _ _ _
  obtain ⟨sets1, hrb, hsets1, hl1⟩ := readBlock_spec hP hs.sets (dec s addr) hk
  obtain ⟨hs1, hlog1⟩ := CInv_transfer hs { s with sets := sets1 } rfl rfl rfl hsets1 hl1
  rw [not_resident_of_bad hs.toCInvS addr hin] at hrb
  obtain ⟨n, hn⟩ := words_succ s.geo
  have hbase : (dec s addr).blockBase < 16384 := by
    have h4 : wrap32 addr = (dec s addr).blockBase + 4 * (dec s addr).blockOff + (dec s addr).byteOff :=
      decode_full_eq _ _ _
    unfold inData at hin
    omega
  have hf := readBlockFromMem_bad (CInvS_memOK hs.toCInvS) (dec s addr).blockBase n hbase
  rw [← hn] at hf
  rw [writeWB_miss_err s bits addr v sets1 _ hrb hf]
  exact ⟨rfl, hs1, hlog1, rfl, rfl⟩

/-! ### write-through writes -/

theorem writeWT_accepted {s : DSys σ} (hP : PolicyOK P s.geo.assoc WFp) (hs : CInv WFp s)
    (hwt : s.wt = true) (bits : Nat) (addr : Int) (v : Nat) (hb : widthOK bits)
    (hw : inWord bits addr) (hin : inData addr) (hv : v < 2 ^ bits) :
    Eff WFp s (s.writeWT P bits addr v) (.ok 0) (updBytes (logical s) addr (bits / 8) v) := by
  have hk : (dec s addr).setIdx < 2 ^ s.geo.idxBits := decode_setIdx_lt _ _ _
  obtain ⟨sets1, hrb, hsets1, hl1⟩ := readBlock_spec hP hs.sets (dec s addr) hk
  have hoff : (dec s addr).byteOff + bits / 8 ≤ 4 := hw
  have hLm : logical s = fun a => s.mem.cells ((wrap32 a : Nat) : Int) := funext (hs.wtc hwt)
  cases hlk : lookup s.sets (dec s addr).setIdx (dec s addr).tag with
  | some w =>
    rw [hlk] at hrb
    obtain ⟨hlen, hlt, hbytes⟩ := hit_spec hs addr w hlk
    obtain ⟨hs1, hlog1⟩ := CInv_transfer hs { s with sets := sets1 } rfl rfl rfl hsets1 hl1
    have hbo : (dec s addr).blockOff < w.vals.length := by
      rw [hlen]; exact decode_blockOff_lt _ _ _
    have hwlt := wordAt_lt w.vals (dec s addr).blockOff hlt
    obtain ⟨sets2, displaced, m', hwb, _, _, _, hall⟩ :=
      putBlock_spec (s := { s with sets := sets1 }) hP hs1 addr hin
        (w.vals.set (dec s addr).blockOff
          (newWord bits (dec s addr).byteOff (wordAt w.vals (dec s addr).blockOff) v))
        (by rw [List.length_set]; exact hlen)
        (mem_set_lt w.vals _ _ hlt (newWord_lt bits _ _ v hb hoff hwlt hv))
    have hwb' : writeBlock P sets1 (dec s addr) (w.vals.set (dec s addr).blockOff
        (newWord bits (dec s addr).byteOff (wordAt w.vals (dec s addr).blockOff) v)) =
        .ok (sets2, _, displaced) := hwb
    rw [writeWT_hit s bits addr v sets1 w.vals hrb, intoBlock_ok bits (dec s addr) w.vals v hb hoff]
    simp only
    rw [hwb']
    simp only
    obtain ⟨c1, _, c3⟩ := hall { wtCount s sets1 true with sets := sets2 } rfl rfl (by
      show s.mem = if s.wt = true then s.mem else m'
      rw [if_pos hwt])
    have hlog2 : ∀ a, logical { wtCount s sets1 true with sets := sets2 } a =
        updBytes (logical s) addr (bits / 8) v a :=
      upd_eq s.geo.idxBits s.geo.blkBits addr bits v hb hw hv (logical s) _ w.vals hbo
        hwlt hbytes (fun a => by rw [c3 a, hlog1 a])
    obtain ⟨r1, r2, r3, r4, r5⟩ := wtStore_ok (WFp := WFp) c1 bits addr v 0 hb hw hin
      (fun a _ => by rw [hlog2 a, hLm]; rfl)
    refine ⟨r1, r2, ?_, r4, r5⟩
    intro a
    rw [r3 a, hLm]
    rfl
  | none =>
    rw [hlk] at hrb
    obtain ⟨hs2, hlog2⟩ := CInv_transfer hs (wtCount s sets1 false) rfl rfl rfl hsets1 hl1
    rw [writeWT_miss s bits addr v sets1 hrb, laneErr_ok bits (dec s addr) hb hoff]
    simp only
    obtain ⟨r1, r2, r3, r4, r5⟩ := wtStore_ok (WFp := WFp) hs2.toCInvS bits addr v s.penalty hb hw hin
      (fun a hr => by
        rw [hlog2 a, hs.wtc hwt a]
        unfold updBytes
        rw [if_neg]
        · rfl
        · intro hc
          obtain ⟨e1, e2, _⟩ := (inAccess_iff s.geo.idxBits s.geo.blkBits addr a (bits / 8) hw).mp hc
          unfold resident at hr
          have : lookup (wtCount s sets1 false).sets (dec s a).setIdx (dec s a).tag = none := by
            show lookup sets1 _ _ = none
            rw [hl1, e1, e2]; exact hlk
          have hr' : (lookup (wtCount s sets1 false).sets (dec s a).setIdx (dec s a).tag).isSome = true := hr
          rw [this] at hr'
          cases hr')
    refine ⟨r1, r2, ?_, r4, r5⟩
    intro a
    rw [r3 a, hLm]
    rfl

theorem writeWT_crossing {s : DSys σ} (hP : PolicyOK P s.geo.assoc WFp) (hs : CInv WFp s)
    (bits : Nat) (addr : Int) (v : Nat) (hb : widthOK bits) (hw : ¬ inWord bits addr) :
    Eff WFp s (s.writeWT P bits addr v)
      (.error (.byteOffset (wrap32 addr % 4) (if bits = 16 then 2 else 0))) (logical s) := by
  have hk : (dec s addr).setIdx < 2 ^ s.geo.idxBits := decode_setIdx_lt _ _ _
  obtain ⟨sets1, hrb, hsets1, hl1⟩ := readBlock_spec hP hs.sets (dec s addr) hk
  have hoff : ¬ (dec s addr).byteOff + bits / 8 ≤ 4 := hw
  cases hlk : lookup s.sets (dec s addr).setIdx (dec s addr).tag with
  | some w =>
    rw [hlk] at hrb
    obtain ⟨hs2, hlog2⟩ := CInv_transfer hs (wtCount s sets1 true) rfl rfl rfl hsets1 hl1
    rw [writeWT_hit s bits addr v sets1 w.vals hrb,
      intoBlock_crossing bits (dec s addr) w.vals v hb hoff (decode_byteOff_lt _ _ _)]
    exact ⟨rfl, hs2, hlog2, rfl, rfl⟩
  | none =>
    rw [hlk] at hrb
    obtain ⟨hs2, hlog2⟩ := CInv_transfer hs (wtCount s sets1 false) rfl rfl rfl hsets1 hl1
    rw [writeWT_miss s bits addr v sets1 hrb,
      laneErr_crossing bits (dec s addr) hb hoff (decode_byteOff_lt _ _ _)]
    exact ⟨rfl, hs2, hlog2, rfl, rfl⟩

theorem writeWT_bad {s : DSys σ} (hP : PolicyOK P s.geo.assoc WFp) (hs : CInv WFp s)
    (bits : Nat) (addr : Int) (v : Nat) (hb : widthOK bits) (hw : inWord bits addr)
    (hin : ¬ inData addr) :
    Eff WFp s (s.writeWT P bits addr v) (.error (.addr ((wrap32 addr : Nat) : Int))) (logical s) := by
  have hk : (dec s addr).setIdx < 2 ^ s.geo.idxBits := decode_setIdx_lt _ _ _
  obtain ⟨sets1, hrb, hsets1, hl1⟩ := readBlock_spec hP hs.sets (dec s addr) hk
  have hoff : (dec s addr).byteOff + bits / 8 ≤ 4 := hw
  rw [not_resident_of_bad hs.toCInvS addr hin] at hrb
  obtain ⟨hs2, hlog2⟩ := CInv_transfer hs (wtCount s sets1 false) rfl rfl rfl hsets1 hl1
  rw [writeWT_miss s bits addr v sets1 hrb, laneErr_ok bits (dec s addr) hb hoff]
  simp only
  rw [wtStore_bad hs2.toCInvS bits addr v s.penalty hb hin]
  exact ⟨rfl, hs2, hlog2, rfl, rfl⟩

end ArchSim.Lemmas.C03
