/-
C04 (spelling independence, part 2): `li rd, imm` without the 4300-digit bound for hexadecimal / binary numerals.
-/
import ArchSim.Lemmas.C04SpellVar5

namespace ArchSim.Lemmas.C04Spell
open ArchSim ArchSim.PP ArchSim.Rv ArchSim.Asm ArchSim.Lemmas.C14

/-- the value fits the style: only the decimal spelling has a size limit -/
def NumFits (st : NumStyle) (v : Int) : Prop :=
  match st with
  | .dec => v.natAbs < 10 ^ 4300
  | _ => True

theorem pImm_tNum_fits (w : List Char) (st : NumStyle) (v : Int) (rest : List Char) (hw : AllWs w)
    (hv : NumFits st v) (hr : TokEnd rest) : pImm (tNum w st v rest) = .ok v rest := by
  cases st with
  | dec => exact pImm_numSp .dec v w rest hw hv hr
  | hex z up => exact pImm_numSp_radix (.hex z up) (by intro h; cases h) v w rest hw hr
  | bin z => exact pImm_numSp_radix (.bin z) (by intro h; cases h) v w rest hw hr

theorem bodyP_li_fits (g w1 w2 tr : List Char) (hg : AllWs g) (hgne : g ≠ []) (h1 : AllWs w1) (h2 : AllWs w2)
    (htr : AllWs tr) (a : Nat) (v : Int) (ha : a < 32) (s1 : RegStyle) (sn : NumStyle) (hv : NumFits sn v) :
    pInstrBody ("li".toList ++ tReg g s1 a (tSep w1 ',' (tNum w2 sn v tr))) = .ok (.grp (.li a v)) tr := by
  have hr := mnSep_tReg g s1 a (tSep w1 ',' (tNum w2 sn v tr)) hg hgne
  have hp := pseudo_li
  have hk : caselessLit "li" ("li".toList ++ tReg g s1 a (tSep w1 ',' (tNum w2 sn v tr)))
      = .ok () (tReg g s1 a (tSep w1 ',' (tNum w2 sn v tr))) := by
    rw [kwStageW "li" (by decide) _ hp.word _ hr]; rfl
  have hli : pLi ("li".toList ++ tReg g s1 a (tSep w1 ',' (tNum w2 sn v tr))) = .ok (.li a v) tr := by
    simp only [pLi, hk, bind_ok, pReg_tReg g s1 a _ hg ha (tokEnd_tSep w1 ',' _ h1 comma_nlb),
      pComma_tSep w1 _ h1, pImm_tNum_fits w2 sn v _ h2 hv (tokEnd_allWs tr htr), map_ok]
  have h4 : pMemPseudo ("li".toList ++ tReg g s1 a (tSep w1 ',' (tNum w2 sn v tr))) = .fail := by
    have := stageW_none L4 low_4 _ hp.word (by decide) _ hr
    rw [L4] at this
    simp only [pMemPseudo, this, bind_fail]
  have h14 : pMv ("li".toList ++ tReg g s1 a (tSep w1 ',' (tNum w2 sn v tr))) = .fail := by
    simp only [pMv, stageW_none ["mv"] low_mv _ hp.word (by decide) _ hr, bind_fail]
  have h12 : caselessLit "nop" ("li".toList ++ tReg g s1 a (tSep w1 ',' (tNum w2 sn v tr))) = .fail :=
    kwStageW_none "nop" (by decide) _ hp.word _ hr (by decide)
  rw [pInstrBody_eq]
  simp only [alts, List.map_cons, List.map_nil, hli, h4, h14, h12, pw_RType hp _ hr, pw_UType hp _ hr,
    pw_BType hp _ hr, pw_Memory hp _ hr, pw_SPseudo hp _ hr, pw_Csr hp _ hr, pw_Csri hp _ hr,
    pw_RegRegImm hp _ hr, pw_Fence hp _ hr, pw_Jal hp _ hr, pw_Env hp _ hr, map_ok, map_fail]
  rfl

theorem line_li_fits (p : LinePre) (hp : p.Ok) (sel : Nat → Bool) (g w1 w2 tr : List Char) (hg : AllWs g)
    (hgne : g ≠ []) (h1 : AllWs w1) (h2 : AllWs w2) (htr : AllWs tr) (a : Nat) (v : Int) (ha : a < 32)
    (s1 : RegStyle) (sn : NumStyle) (hv : NumFits sn v) :
    parseLine (p.txt (recase sel "li".toList ++ tReg g s1 a (tSep w1 ',' (tNum w2 sn v tr))))
      = some { lbl := p.lbl, item := .grp (.li a v) } :=
  parseLine_pre_word p hp "li" (by decide) sel _ (lineSep_tReg g s1 a _ hg hgne ha) _ tr htr
    (by simp only [tReg, tSep, tNum, List.length_append, List.length_cons]; omega)
    (bodyP_li_fits g w1 w2 tr hg hgne h1 h2 htr a v ha s1 sn hv)

end ArchSim.Lemmas.C04Spell
