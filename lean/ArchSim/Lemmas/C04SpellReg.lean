/-
C04 (spelling independence), part 1: registers. Every ABI name of `abiNames` and every `x<n>` is read by
`pReg` as its register number; blanks in front of a token are skipped by every scanner.
-/
import ArchSim.Lemmas.C14Num

namespace ArchSim.Lemmas.C04Spell
open ArchSim ArchSim.PP ArchSim.Rv ArchSim.Asm ArchSim.Lemmas.C14

/-! ### blanks -/

/-- a run of blanks: spaces, tabs (and the other two default white characters of pyparsing) -/
def AllWs (ws : List Char) : Prop := ∀ c ∈ ws, isWs c = true

theorem allWs_nil : AllWs [] := by intro c hc; cases hc

theorem allWs_append {a b : List Char} (ha : AllWs a) (hb : AllWs b) : AllWs (a ++ b) := by
  intro c hc
  rcases List.mem_append.mp hc with h | h
  · exact ha c h
  · exact hb c h

theorem skipWs_append (ws i : List Char) (h : AllWs ws) : skipWs (ws ++ i) = skipWs i := by
  unfold skipWs
  exact List.dropWhile_append_of_pos h

theorem skipWs_allWs (ws : List Char) (h : AllWs ws) : skipWs ws = [] := by
  have := skipWs_append ws [] h
  simpa using this

theorem oneOf_ws (syms : List String) (ws i : List Char) (h : AllWs ws) : oneOf syms (ws ++ i) = oneOf syms i := by
  unfold oneOf
  simp only [skipWs_append ws i h]

theorem lit_ws (s : String) (ws i : List Char) (h : AllWs ws) : lit s (ws ++ i) = lit s i := by
  unfold lit
  simp only [skipWs_append ws i h]

theorem word_ws (a b : Char → Bool) (ws i : List Char) (h : AllWs ws) : word a b (ws ++ i) = word a b i := by
  unfold word
  simp only [skipWs_append ws i h]

theorem pReg_ws (ws i : List Char) (h : AllWs ws) : pReg (ws ++ i) = pReg i := by
  unfold pReg
  simp only [oneOf_ws _ ws i h, lit_ws _ ws i h]

/-! ### a symbol that is a prefix of `w ++ rest` -/

theorem isPrefixOf_append_split (t w rest : List Char) (h : t.isPrefixOf (w ++ rest) = true) :
    t.isPrefixOf w = true ∨
      (w.isPrefixOf t = true ∧ w.length < t.length ∧ rest.head? = t[w.length]?) := by
  induction t generalizing w with
  | nil => left; simp
  | cons a t ih =>
    cases w with
    | nil =>
      right
      cases rest with
      | nil => simp at h
      | cons c r =>
        simp only [List.nil_append, List.isPrefixOf_cons_cons, Bool.and_eq_true, beq_iff_eq] at h
        simp [h.1]
    | cons b w =>
      simp only [List.cons_append, List.isPrefixOf_cons_cons, Bool.and_eq_true, beq_iff_eq] at h
      rcases ih w h.2 with h1 | ⟨h1, h2, h3⟩
      · left; simp [h.1, h1]
      · right
        refine ⟨by simp [h.1, h1], by simp only [List.length_cons]; omega, ?_⟩
        simpa using h3

theorem isPrefixOf_self_append (w rest : List Char) : w.isPrefixOf (w ++ rest) = true := by
  rw [List.isPrefixOf_iff_prefix]; exact List.prefix_append w rest

theorem isPrefixOf_len (t w : List Char) (h : t.isPrefixOf w = true) : t.length < w.length ∨ t = w := by
  have hp := List.isPrefixOf_iff_prefix.mp h
  have hle := hp.length_le
  by_cases hlt : t.length < w.length
  · exact Or.inl hlt
  · right; exact hp.eq_of_length (by omega)

/-! ### ABI names -/

def abiSyms : List String := abiNames.map (·.1)

/-- What may follow a register name: anything, except that `s1` must not be followed by `0` or `1`
    (`s10`, `s11` are longer names and the longest name wins). -/
def RegEnd (name : String) (rest : Inp) : Prop := name = "s1" → ∀ c ∈ rest.head?, c ≠ '0' ∧ c ≠ '1'

theorem regEnd_of_not_digit (name : String) (rest : Inp) (h : ∀ c ∈ rest.head?, isNum c = false) :
    RegEnd name rest := by
  intro _ c hc
  have := h c hc
  constructor <;> (rintro rfl; exact absurd this (by decide))

theorem abi_prefix_table : ∀ a ∈ abiSyms, ∀ t ∈ abiSyms,
    a.toList.isPrefixOf t.toList = true → a.toList.length < t.toList.length →
      a = "s1" ∧ (t.toList[a.toList.length]? = some '0' ∨ t.toList[a.toList.length]? = some '1') := by
  decide

theorem abi_value_table : ∀ p ∈ abiNames,
    ((abiNames.find? (fun q => q.1 == p.1)).map (·.2)).getD 0 = p.2 := by decide

theorem abi_head_table0 : ∀ a ∈ abiSyms, a.toList ≠ [] ∧ ∀ c ∈ a.toList.head?, isWs c = false := by decide

theorem abi_head_table (a : String) (h : a ∈ abiSyms) : ∃ c tl, a.toList = c :: tl ∧ isWs c = false := by
  obtain ⟨h1, h2⟩ := abi_head_table0 a h
  cases hl : a.toList with
  | nil => exact absurd hl h1
  | cons c tl => exact ⟨c, tl, rfl, h2 c (by simp [hl])⟩

theorem oneOf_abi (name : String) (hmem : name ∈ abiSyms) (rest : Inp) (hr : RegEnd name rest) :
    oneOf abiSyms (name.toList ++ rest) = .ok name rest := by
  obtain ⟨c, tl, hc, hws⟩ := abi_head_table name hmem
  have hskip : skipWs (name.toList ++ rest) = name.toList ++ rest := by
    rw [hc]; exact skipWs_cons_of_not_ws c _ hws
  have hfind : (longestFirst abiSyms).find? (fun s => s.toList.isPrefixOf (name.toList ++ rest)) = some name := by
    apply find_longestFirst_some _ _ _ hmem (isPrefixOf_self_append _ _)
    intro t ht hp
    rcases isPrefixOf_append_split _ _ _ hp with h1 | ⟨h1, h2, h3⟩
    · rcases isPrefixOf_len _ _ h1 with h | h
      · left; rw [← String.length_toList, ← String.length_toList]; exact h
      · right; exact String.toList_inj.mp h
    · exfalso
      obtain ⟨hs1, h01⟩ := abi_prefix_table name hmem t ht h1 h2
      rw [← h3] at h01
      rcases h01 with h | h
      · exact (hr hs1 '0' h).1 rfl
      · exact (hr hs1 '1' h).2 rfl
  unfold oneOf
  simp only [hskip, oneOf_go_eq, hfind, List.drop_left]

/-- Every ABI name is read as its register number. -/
theorem pReg_abi (name : String) (n : Nat) (hmem : (name, n) ∈ abiNames) (rest : Inp) (hr : RegEnd name rest) :
    pReg (name.toList ++ rest) = .ok n rest := by
  have hs : name ∈ abiSyms := List.mem_map.mpr ⟨(name, n), hmem, rfl⟩
  have h := oneOf_abi name hs rest hr
  rw [abiSyms] at h
  have hv := abi_value_table (name, n) hmem
  simp only at hv
  simp only [pReg, h, hv]

theorem abi_total0 : ∀ n < 32, abiNames.any (fun p => p.2 == n) = true := by decide

/-- Every register number has an ABI name. -/
theorem abi_total (n : Nat) (hn : n < 32) : ∃ name, (name, n) ∈ abiNames := by
  have := abi_total0 n hn
  simp only [List.any_eq_true, beq_iff_eq] at this
  obtain ⟨⟨name, m⟩, hmem, rfl⟩ := this
  exact ⟨name, hmem⟩

/-! ### the spellings of a register number -/

/-- how a register operand is written: `x<n>`, its ABI name, or the ABI name with `fp` for register 8 -/
inductive RegStyle where
  | x | abi | fp
deriving DecidableEq, Repr

/-- the (first) ABI name of register `n` -/
def abiOf (n : Nat) : String := ((abiNames.find? (fun p => p.2 == n)).map (·.1)).getD ""

def regSp (st : RegStyle) (n : Nat) : List Char :=
  match st with
  | .x => regTxt n
  | .abi => (abiOf n).toList
  | .fp => if n = 8 then "fp".toList else (abiOf n).toList

theorem abiOf_mem : ∀ n < 32, (abiOf n, n) ∈ abiNames := by decide

theorem fp_mem : ("fp", 8) ∈ abiNames := by decide

/-- Each spelling of register `n`, after any blanks, is read as `n` when no digit follows. -/
theorem pReg_sp (st : RegStyle) (n : Nat) (hn : n < 32) (ws rest : Inp) (hws : AllWs ws)
    (hr : ∀ c ∈ rest.head?, isNum c = false) : pReg (ws ++ (regSp st n ++ rest)) = .ok n rest := by
  rw [pReg_ws ws _ hws]
  cases st with
  | x => exact pReg_regTxt n hn rest hr
  | abi => exact pReg_abi _ n (abiOf_mem n hn) rest (regEnd_of_not_digit _ _ hr)
  | fp =>
    simp only [regSp]
    split
    · next h => subst h; exact pReg_abi "fp" 8 fp_mem rest (regEnd_of_not_digit _ _ hr)
    · exact pReg_abi _ n (abiOf_mem n hn) rest (regEnd_of_not_digit _ _ hr)

/-! ### what is NOT a register: upper-case names -/

theorem upper_not_regInit (c : Char) (h1 : 'A' ≤ c) (h2 : c ≤ 'Z') : isWs c = false ∧ c ∉ regInit := by
  have ht : ∀ n < 91, 65 ≤ n → (isWs (Char.ofNat n) = false ∧ Char.ofNat n ∉ regInit) := by decide
  have hc := Char.ofNat_toNat c
  simp only [Char.le_def, UInt32.le_iff_toNat_le] at h1 h2
  have h3 : c.toNat = c.val.toNat := rfl
  rw [← hc]
  apply ht
  · have : ('Z' : Char).val.toNat = 90 := by decide
    omega
  · have : ('A' : Char).val.toNat = 65 := by decide
    omega

/-- Register names are case-sensitive: nothing that starts with an upper-case letter is a register. -/
theorem pReg_fail_upper (c : Char) (t : Inp) (h1 : 'A' ≤ c) (h2 : c ≤ 'Z') : pReg (c :: t) = .fail :=
  pReg_fail_head c t (upper_not_regInit c h1 h2).1 (upper_not_regInit c h1 h2).2

end ArchSim.Lemmas.C04Spell
