/-
TOY assembler: the combined facts about a successful `loadToks` (memory image, data placement,
label resolution, independence of the segment order).
-/
import ArchSim.Lemmas.ToyAsmLoad
import ArchSim.Lemmas.ToyAsmSegment

namespace ArchSim.ToyAsm
open ArchSim ArchSim.PP ArchSim.Toy

variable {t : Toy.TSim} {toks : List Entry}

/-! ### memory image -/

theorem LoadOk.dataSpec (h : LoadOk t toks) :
    DataSpec (segData toks) (dataInit (codeLabels toks)) (dataOut toks) :=
  writeData_spec _ _ rfl (by simp [dataInit]) h.dataOk

/-- Code and data fit side by side. -/
theorem LoadOk.size (h : LoadOk t toks) : (instrsOf toks).length + dataSize (segData toks) ≤ 4096 := by
  have h1 := h.fits
  have h2 := h.dataSpec.last
  simp only [dataInit] at h2
  omega

theorem LoadOk.mem_cells (h : LoadOk t toks) (x : Int) :
    (loadToks t toks).1.s.mem.cells x =
      if 0 ≤ x ∧ x < (instrsOf toks).length
      then encode ((instrsOf toks).getD x.toNat default) % 65536
      else (dataOut toks).mem.cells x := by
  have hsz := h.size
  rw [h.image, loadImage_mem, imageMem]
  have hm : (dataOut toks).mem =
      (dataWords 4095 (segData toks)).foldl dataStep (Mem.Mem.empty Mem.toyCfg) :=
    writeData_mem_eq_foldl _ _ h.dataOk
  rw [← hm]
  have := writeInstrs_cells (instrsOf toks) (dataOut toks).mem h.dataSpec.cfg 0 (by omega) x
  rw [this]
  simp only [Int.natCast_zero, Int.zero_add, Int.sub_zero]

/-- Instruction `i` is at address `i`. -/
theorem LoadOk.instr_cell (h : LoadOk t toks) (i : Nat) (hi : i < (instrsOf toks).length) :
    (loadToks t toks).1.s.mem.cells (i : Int) = encode (instrsOf toks)[i] % 65536 := by
  rw [h.mem_cells, if_pos (by omega)]
  simp [List.getD_eq_getElem?_getD, List.getElem?_eq_getElem hi]

/-- The word at address `i` is exactly the encoding of instruction `i` and decodes back to it. -/
theorem LoadOk.instr_word (h : LoadOk t toks) (i : Nat) (hi : i < (instrsOf toks).length) :
    (loadToks t toks).1.s.mem.cells (i : Int) = encode (instrsOf toks)[i] ∧
    decode ((loadToks t toks).1.s.mem.cells (i : Int)) = (instrsOf toks)[i] := by
  obtain ⟨ho, ha⟩ := buildInstrs_wf _ _ _ h.build _ (List.getElem_mem hi)
  have hlt : encode (instrsOf toks)[i] < 65536 := by simp only [encode]; omega
  rw [h.instr_cell i hi, Nat.mod_eq_of_lt hlt]
  refine ⟨rfl, ?_⟩
  generalize (instrsOf toks)[i] = ins at ho ha
  obtain ⟨op, a⟩ := ins
  simp only at ho ha
  simp only [encode, decode]
  have h1 : (op * 4096 + a) / 4096 % 16 = op := by omega
  have h2 : (op * 4096 + a) % 4096 = a := by omega
  simp only [h1, h2]
  by_cases hop : op ≤ 11
  · simp [hop]
  · have : op = 12 := by omega
    simp [this]

/-- Above the code the memory is what the data pass left. -/
theorem LoadOk.data_cell (h : LoadOk t toks) (x : Int) (hx : ((instrsOf toks).length : Int) ≤ x) :
    (loadToks t toks).1.s.mem.cells x = (dataOut toks).mem.cells x := by
  rw [h.mem_cells, if_neg (by omega)]

/-- Between the code and the data the memory is zero. -/
theorem LoadOk.gap_cell (h : LoadOk t toks) (x : Int) (hx : ((instrsOf toks).length : Int) ≤ x)
    (hx2 : x < 4096 - dataSize (segData toks)) : (loadToks t toks).1.s.mem.cells x = 0 := by
  rw [h.data_cell x hx]
  have h2 := h.dataSpec.last
  simp only [dataInit] at h2
  rw [h.dataSpec.frame x (by simp only [dataInit]; omega)]
  rfl

/-- The other fields of the loaded state. -/
theorem LoadOk.fields (h : LoadOk t toks) :
    (loadToks t toks).1.s.maxPc = some (((instrsOf toks).length : Int) - 1) ∧
    (loadToks t toks).1.s.loaded = (instrsOf toks)[0]? ∧
    (loadToks t toks).1.s.pc = 1 ∧ (loadToks t toks).1.s.accu = 0 ∧
    (loadToks t toks).1.s.cycles = 0 ∧ (loadToks t toks).1.s.instrs = 0 ∧
    (loadToks t toks).1.s.branches = 0 ∧
    (loadToks t toks).1.nextCycle = t.nextCycle ∧ (loadToks t toks).1.started = t.started := by
  rw [h.image]
  obtain ⟨hpc, hacc, hmax, hld, hcy, hin, hbr⟩ := loadImage_fields t (instrsOf toks) (dataWords 4095 (segData toks))
  obtain ⟨hn, hs⟩ := loadImage_next t (instrsOf toks) (dataWords 4095 (segData toks))
  refine ⟨hmax, ?_, hpc, hacc, hcy, hin, hbr, hn, hs⟩
  rw [hld]; cases instrsOf toks <;> rfl

/-! ### data placement at load level -/

theorem LoadOk.var (h : LoadOk t toks) (j k : Nat) (line name : String) (vals : List String)
    (hj : (segData toks)[j]? = some (k, line, .varDecl name vals)) :
    ((instrsOf toks).length : Int) ≤ 4096 - dataSize ((segData toks).take (j + 1)) ∧
    lookup (allLabels toks) name = some (4096 - dataSize ((segData toks).take (j + 1)) : Int) ∧
    ∀ (e : Nat) (he : e < vals.length),
      (loadToks t toks).1.s.mem.cells (4096 - dataSize ((segData toks).take (j + 1)) + e) =
        valueToInt vals[e] % 65536 := by
  obtain ⟨_, h2, h3⟩ := h.dataSpec.var j k line name vals hj
  have hsz := h.size
  have hle := dataSize_take_le (segData toks) (j + 1)
  have e4096 : (dataInit (codeLabels toks)).last + 1 = 4096 := rfl
  rw [e4096] at h2 h3
  refine ⟨by omega, h2, ?_⟩
  intro e he
  rw [h.data_cell _ (by omega)]
  exact h3 e he

/-! ### label resolution at load level -/

theorem LoadOk.labelSpec (h : LoadOk t toks) : LabelSpec toks [] 0 (codeLabels toks) :=
  processLabels_spec _ _ _ _ h.labels

/-- A label declared on line `j` of the token list is bound to the number of instruction lines
    before it. -/
theorem LoadOk.label (h : LoadOk t toks) (j k : Nat) (line : String) (s : TStmt) (n : String)
    (hj : toks[j]? = some (k, line, s)) (hn : declaredLabel s = some n) :
    lookup (allLabels toks) n = some ((instrCount (toks.take j) : Nat) : Int) := by
  obtain ⟨_, h2⟩ := h.labelSpec.decl j k line s n hj hn
  apply h.dataSpec.keep
  simpa [dataInit] using h2

theorem LoadOk.buildSpec (h : LoadOk t toks) : BuildSpec (segText toks) (allLabels toks) (instrsOf toks) :=
  buildInstrs_spec _ _ _ h.build

theorem isSegDir_noInstr (e : Entry) (h : isSegDir e = true) :
    declaredLabel e.2.2 = none ∧ isInstr e.2.2 = false := by
  simp only [isSegDir, isDir, Bool.or_eq_true, beq_iff_eq] at h
  rcases h with h | h <;> simp [h, declaredLabel, isInstr]

theorem isVarDecl_noInstr (s : TStmt) (h : isVarDecl s = true) :
    declaredLabel s = none ∧ isInstr s = false := by
  cases s <;> simp [isVarDecl, declaredLabel, isInstr] at h ⊢

theorem instrCount_eq_zero (l : List Entry) (h : ∀ e ∈ l, isInstr e.2.2 = false) : instrCount l = 0 := by
  induction l with
  | nil => rfl
  | cons e l ih =>
    simp only [instrCount, h e (by simp), ih (fun x hx => h x (by simp [hx]))]
    simp

theorem take_sandwich (pre text post : List Entry) (p : Nat) (hp : p ≤ text.length) :
    (pre ++ text ++ post).take (pre.length + p) = pre ++ text.take p := by
  rw [List.append_assoc, List.take_append, List.take_of_length_le (by omega)]
  have : pre.length + p - pre.length = p := by omega
  rw [this, List.take_append]
  have : p - text.length = 0 := by omega
  rw [this]
  simp

/-- With distinct line numbers: a label declared on line `p` of the *text segment* is bound to the
    number of instruction lines of the text segment before it, i.e. to the index (= address) of
    the next instruction. -/
theorem LoadOk.text_label (h : LoadOk t toks) (hnd : (toks.map (·.1)).Nodup) (p k : Nat)
    (line : String) (s : TStmt) (n : String)
    (hp : (segText toks)[p]? = some (k, line, s)) (hn : declaredLabel s = some n) :
    lookup (allLabels toks) n = some ((instrCount ((segText toks).take p) : Nat) : Int) := by
  obtain ⟨pre, post, heq, hpre, _⟩ := (segment_shape toks _ _ hnd h.seg).decompose
  have hpre0 : instrCount pre = 0 := by
    apply instrCount_eq_zero
    intro e he
    rcases hpre e he with hd | hd
    · exact (isSegDir_noInstr e hd).2
    · exact (isVarDecl_noInstr _ (h.dataSpec.allVar e hd)).2
  have hplt : p < (segText toks).length := by
    rcases Nat.lt_or_ge p (segText toks).length with hl | hl
    · exact hl
    · rw [List.getElem?_eq_none hl] at hp; cases hp
  have hj : toks[pre.length + p]? = some (k, line, s) := by
    rw [heq, List.append_assoc, List.getElem?_append_right (by omega)]
    have : pre.length + p - pre.length = p := by omega
    rw [this, List.getElem?_append_left hplt]
    exact hp
  have := h.label (pre.length + p) k line s n hj hn
  rw [this]
  have e := congrArg (List.take (pre.length + p)) heq
  rw [take_sandwich pre (segText toks) post p (by omega)] at e
  rw [e, instrCount_append, hpre0, Nat.zero_add]

/-! ### `loadToks` depends on the token list only through `segment` and `processLabels` -/

def loadCore (t : Toy.TSim) (seg : Except AsmErr (List Entry × List Entry)) (lab : Except AsmErr Labels) :
    Toy.TSim × Option AsmErr :=
  let fresh : Toy.TSt := {}
  let t0 := { t with s := fresh }
  match seg with
  | .error e => (t0, some e)
  | .ok (data, text') =>
    match lab with
    | .error e => (t0, some e)
    | .ok ls =>
      let d := writeData data { mem := fresh.mem, labels := ls, last := 4095, err := none }
      let t1 := { t0 with s := { fresh with mem := d.mem } }
      match d.err with
      | some e => (t1, some e)
      | none =>
        match buildInstrs text' d.labels with
        | .error e => (t1, some e)
        | .ok is =>
          if (is.length : Int) - 1 > d.last then (t1, some (.memSize 4096))
          else
            let m := writeInstrs d.mem 0 is
            let s : Toy.TSt := { fresh with mem := m, maxPc := some ((is.length : Int) - 1) }
            let s' := match is with
              | [] => s
              | i :: _ => { s with loaded := some i, vis := { pcOld := some 0, ramOut := some (Toy.encode i % 65536) } }
            ({ t0 with s := s' }, none)

theorem loadToks_eq_core (t : Toy.TSim) (toks : List Entry) :
    loadToks t toks = loadCore t (segment toks) (processLabels toks [] 0) := rfl

/-- Lines that `processLabels` ignores, in front of and behind the text. -/
theorem processLabels_sandwich (pre text post : List Entry)
    (hpre : ∀ e ∈ pre, declaredLabel e.2.2 = none ∧ isInstr e.2.2 = false)
    (hpost : ∀ e ∈ post, declaredLabel e.2.2 = none ∧ isInstr e.2.2 = false) (ls : Labels) (pc : Nat) :
    processLabels (pre ++ (text ++ post)) ls pc = processLabels text ls pc := by
  rw [processLabels_skip pre hpre, processLabels_skip_end post hpost]

/-- The three segment orders give the same `loadToks` result (state *and* error), provided the
    data lines are variable declarations. -/
theorem loadToks_orders (t : Toy.TSim) (dD dT : Entry) (hD : isDir "data" dD = true)
    (hT : isDir "text" dT = true) (data text : List Entry)
    (hd : ∀ e ∈ data, isVarDecl e.2.2 = true) (ht : ∀ e ∈ text, isSegDir e = false)
    (hlineT : ∀ e ∈ data, e.1 ≠ dT.1) (hlineD : ∀ e ∈ text, e.1 ≠ dD.1) :
    loadToks t (dT :: (text ++ dD :: data)) = loadToks t (dD :: (data ++ dT :: text)) ∧
    (text ≠ [] → loadToks t (text ++ dD :: data) = loadToks t (dD :: (data ++ dT :: text))) := by
  have hd' : ∀ e ∈ data, isSegDir e = false := by
    intro e he
    have := hd e he
    simp only [isSegDir, isDir, Bool.or_eq_false_iff, beq_eq_false_iff_ne]
    constructor <;> intro heq <;> simp [heq, isVarDecl] at this
  have hDn := isSegDir_noInstr dD (by simp [isSegDir, hD])
  have hTn := isSegDir_noInstr dT (by simp [isSegDir, hT])
  have hdn : ∀ e ∈ data, declaredLabel e.2.2 = none ∧ isInstr e.2.2 = false :=
    fun e he => isVarDecl_noInstr _ (hd e he)
  have hA : processLabels (dD :: (data ++ dT :: text)) [] 0 = processLabels text [] 0 := by
    have := processLabels_sandwich (dD :: (data ++ [dT])) text [] (by
      intro e he
      simp only [List.mem_cons, List.mem_append, List.not_mem_nil, or_false] at he
      rcases he with rfl | he | rfl
      · exact hDn
      · exact hdn e he
      · exact hTn) (by simp) [] 0
    simpa using this
  have hB : processLabels (dT :: (text ++ dD :: data)) [] 0 = processLabels text [] 0 := by
    have := processLabels_sandwich [dT] text (dD :: data) (by
      intro e he
      simp only [List.mem_singleton] at he; subst he; exact hTn) (by
      intro e he
      rcases List.mem_cons.mp he with rfl | he
      · exact hDn
      · exact hdn e he) [] 0
    simpa using this
  have hC : processLabels (text ++ dD :: data) [] 0 = processLabels text [] 0 := by
    have := processLabels_sandwich [] text (dD :: data) (by simp) (by
      intro e he
      rcases List.mem_cons.mp he with rfl | he
      · exact hDn
      · exact hdn e he) [] 0
    simpa using this
  refine ⟨?_, ?_⟩
  · rw [loadToks_eq_core, loadToks_eq_core, hA, hB,
      segment_data_text dD dT hD hT data text hd' ht hlineT,
      segment_text_data dT dD hT hD text data ht hd' hlineD]
  · intro hne
    rw [loadToks_eq_core, loadToks_eq_core, hA, hC,
      segment_data_text dD dT hD hT data text hd' ht hlineT,
      segment_implicit_text_data dD hD text data hne ht hd' hlineD]

/-- On a successful load the data segment consists of variable declarations. -/
theorem loadToks_ok_data_varDecl (t : Toy.TSim) (toks data text : List Entry)
    (hseg : segment toks = .ok (data, text)) (h : (loadToks t toks).2 = none) :
    ∀ e ∈ data, isVarDecl e.2.2 = true := by
  have hok := loadToks_ok t toks h
  have : segData toks = data := by simp [segData, hseg]
  rw [← this]
  exact hok.dataSpec.allVar

end ArchSim.ToyAsm
