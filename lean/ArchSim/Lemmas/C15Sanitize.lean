/-
C15 — `sanitize`: every sanitized line is `(i+1, strip (uncomment ls[i]))` for a line index `i` of the
text, in increasing order.
-/
import ArchSim.Model.Asm
import ArchSim.Model.ToyAsm

namespace ArchSim.Lemmas.C15
open ArchSim ArchSim.PP

/-- `(k, line)` names an existing line of `text`: `k` is a 1-based index into `splitlines()` and
    `line` is that line with its trailing comment removed, stripped. -/
def LineOf (text : String) (k : Nat) (line : String) : Prop :=
  1 ≤ k ∧ k ≤ (splitLines text.toList).length ∧
    ∃ raw, (splitLines text.toList)[k - 1]? = some raw ∧
      line = String.ofList (pyStrip (raw.takeWhile (· != '#')))

theorem toy_sanitize_eq (text : String) : ToyAsm.sanitize text = Asm.sanitize text := rfl

theorem sanitize_mem' {text : String} {k : Nat} {l : List Char} (h : (k, l) ∈ Asm.sanitize text) :
    1 ≤ k ∧ k ≤ (splitLines text.toList).length ∧
      ∃ raw, (splitLines text.toList)[k - 1]? = some raw ∧ l = pyStrip (raw.takeWhile (· != '#')) := by
  unfold Asm.sanitize at h
  simp only [List.mem_map, List.mem_filter, Prod.exists, Prod.mk.injEq] at h
  obtain ⟨k1, l1, ⟨⟨k0, l0, hz, rfl, rfl⟩, _⟩, rfl, rfl⟩ := h
  obtain ⟨i, hi, he⟩ := List.mem_iff_getElem.1 hz
  rw [List.getElem_zip] at he
  simp only [List.getElem_range, Prod.mk.injEq] at he
  obtain ⟨rfl, rfl⟩ := he
  simp only [List.length_zip, List.length_range, Nat.min_self] at hi
  refine ⟨by omega, by omega, _, ?_, rfl⟩
  simp [hi]

theorem sanitize_mem {text : String} {k : Nat} {l : List Char} (h : (k, l) ∈ Asm.sanitize text) :
    LineOf text k (String.ofList l) := by
  obtain ⟨h1, h2, raw, h3, h4⟩ := sanitize_mem' h
  exact ⟨h1, h2, raw, h3, by rw [h4]⟩

/-- The line numbers of the sanitized lines are strictly increasing (no duplicates). -/
theorem sanitize_sorted (text : String) : ((Asm.sanitize text).map Prod.fst).Pairwise (· < ·) := by
  unfold Asm.sanitize
  simp only [List.map_map]
  have h1 : ∀ (L : List (Nat × List Char)),
      List.map (Prod.fst ∘ fun (x : Nat × List Char) => (x.1, pyStrip (x.2.takeWhile (· != '#')))) L
        = L.map Prod.fst := by
    intro L; apply List.map_congr_left; intro a _; rfl
  rw [h1]
  refine List.Pairwise.sublist (List.Sublist.map _ List.filter_sublist) ?_
  rw [List.map_map]
  have h2 : List.map (Prod.fst ∘ fun (x : Nat × List Char) => (x.1 + 1, x.2))
      ((List.range (splitLines text.toList).length).zip (splitLines text.toList))
      = (List.range (splitLines text.toList).length).map (· + 1) := by
    have : (Prod.fst ∘ fun (x : Nat × List Char) => (x.1 + 1, x.2)) = (· + 1) ∘ Prod.fst := rfl
    rw [this, ← List.map_map, List.map_fst_zip (by simp)]
  rw [h2, List.pairwise_map]
  exact List.Pairwise.imp (fun h => Nat.succ_lt_succ h) List.pairwise_lt_range

end ArchSim.Lemmas.C15
