/-
C09/C11 helper lemmas: the reference cache never holds a tag twice in one set, hence (by the
erasure equations) neither does the model: the valid ways of a set carry pairwise distinct tags.
-/
import ArchSim.Lemmas.C09Run

namespace ArchSim.Lemmas.C09
open ArchSim ArchSim.Cache ArchSim.Spec.TagCache

/-- No tag occurs in two ways. -/
def TagsDistinct (tags : List (Option Nat)) : Prop :=
  ∀ (i j t : Nat), tags[i]? = some (some t) → tags[j]? = some (some t) → i = j

/-- Every set of the reference cache holds pairwise distinct tags. -/
def Distinct {σ : Type} (sets : List (TSet σ)) : Prop := ∀ ts ∈ sets, TagsDistinct ts.tags

theorem findTag_none {tags : List (Option Nat)} {t : Nat} (h : findTag tags t = none) (j : Nat) :
    tags[j]? ≠ some (some t) := by
  unfold findTag at h
  simp only at h
  split at h
  · cases h
  · rename_i hge
    intro hj
    obtain ⟨hjl, hje⟩ := List.getElem?_eq_some_iff.mp hj
    have hall := List.findIdx_eq_length.mp (Nat.le_antisymm List.findIdx_le_length (Nat.le_of_not_lt hge))
    have := hall tags[j] (List.getElem_mem hjl)
    rw [hje] at this
    simp at this

theorem TagsDistinct_set {tags : List (Option Nat)} {t v : Nat} (h : TagsDistinct tags)
    (hn : ∀ j : Nat, tags[j]? ≠ some (some t)) : TagsDistinct (tags.set v (some t)) := by
  intro i j t' hi hj
  rw [List.getElem?_set] at hi hj
  by_cases hvi : v = i
  · by_cases hvj : v = j
    · rw [← hvi, ← hvj]
    · rw [if_pos hvi] at hi
      rw [if_neg hvj] at hj
      split at hi
      · cases hi; exact absurd hj (hn j)
      · cases hi
  · by_cases hvj : v = j
    · rw [if_neg hvi] at hi
      rw [if_pos hvj] at hj
      split at hj
      · cases hj; exact absurd hi (hn i)
      · cases hj
    · rw [if_neg hvi] at hi
      rw [if_neg hvj] at hj
      exact h i j t' hi hj

section
variable {σ : Type} (P : PolicyOps σ)

theorem lookup_distinct (s : TSet σ) (t : Nat) (alloc : Bool) (h : TagsDistinct s.tags) :
    TagsDistinct (s.lookup P t alloc).1.tags := by
  unfold TSet.lookup
  cases hf : findTag s.tags t with
  | some i => exact h
  | none =>
    cases alloc
    · exact h
    · exact TagsDistinct_set h (findTag_none hf)

theorem lookupSets_distinct (sets : List (TSet σ)) (d : DAddr) (alloc : Bool) (h : Distinct sets) :
    Distinct (lookupSets P sets d alloc).1 := by
  unfold lookupSets
  cases hs : sets[d.setIdx]? with
  | none => exact h
  | some s =>
    intro ts hts
    rcases List.mem_or_eq_of_mem_set hts with h1 | h1
    · exact h ts h1
    · rw [h1]; exact lookup_distinct P s d.tag alloc (h s (List.mem_of_getElem? hs))

theorem refOp_distinct (c : TagCache σ) (op : Op) (h : Distinct c.sets) :
    Distinct (refOp P c op).cache.sets := by
  cases op with
  | read b a counted =>
    have := lookupSets_distinct P c.sets (decode c.geo.idxBits c.geo.blkBits a) true h
    cases counted <;> exact this
  | write b a v direct =>
    cases direct
    · exact lookupSets_distinct P c.sets (decode c.geo.idxBits c.geo.blkBits a) (!c.wt) h
    · exact h

theorem refRun_distinct (c : TagCache σ) (ops : List Op) (h : Distinct c.sets) :
    Distinct (refRun P c ops).1.sets := by
  induction ops generalizing c with
  | nil => exact h
  | cons op ops ih => exact ih _ (refOp_distinct P c op h)

theorem init_distinct (wt : Bool) (g : Geo) (penalty : Nat) :
    Distinct (TagCache.init P wt g penalty).sets := by
  intro ts hts
  simp only [TagCache.init] at hts
  rw [List.eq_of_mem_replicate hts]
  intro i j t hi _
  simp only [List.getElem?_replicate] at hi
  split at hi <;> cases hi

end

/-- What `Distinct` of an erased model state says about the model's ways. -/
theorem distinct_ways {σ α : Type} {sets : List (CSet σ α)} (h : Distinct (sets.map eraseSet))
    {cs : CSet σ α} (hcs : cs ∈ sets) {i j : Nat} {wi wj : Way α}
    (hi : cs.ways[i]? = some wi) (hj : cs.ways[j]? = some wj)
    (hvi : wi.valid = true) (hvj : wj.valid = true) (ht : wi.tag = wj.tag) : i = j := by
  have hts : eraseSet cs ∈ sets.map eraseSet := List.mem_map_of_mem hcs
  apply (h _ hts) i j wi.tag
  · simp [eraseSet, List.getElem?_map, hi, eraseWay, hvi]
  · simp [eraseSet, List.getElem?_map, hj, eraseWay, hvj, ht]

end ArchSim.Lemmas.C09
