/-
C03 helper lemmas, part 7: cached writes (`DSys.writeWB`, `DSys.writeWT`) against `logical`.
The model functions are first re-expressed with named tails (`wbFinish`, `wtStore`, `wtCount`).
-/
import ArchSim.Lemmas.C03Ops

namespace ArchSim.Lemmas.C03
open ArchSim ArchSim.Cache ArchSim.Mem ArchSim.Spec.ByteStore ArchSim.Lemmas.C18 ArchSim.Spec.CacheAbs

variable {σ : Type} {P : PolicyOps σ} {WFp : σ → Prop}

/-! ### write-back: the model with a named tail -/

/-- The part of `writeWB` after the current content `block` of the block is known. -/
def wbFinish (P : PolicyOps σ) (s : DSys σ) (sets1 : List (CSet σ Nat)) (d : DAddr) (hit : Bool)
    (bits v : Nat) (block : List Nat) : Out σ :=
  let s1 := { s with sets := sets1 }
  match intoBlock bits d block v with
  | .error e => { sys := s1, res := .error e, extra := 0 }
  | .ok block' =>
    match writeBlock P sets1 d block' with
    | .error e => { sys := s1, res := .error e, extra := 0 }
    | .ok (sets2, _, displaced) =>
      let s2 := { s1 with sets := sets2 }
      let wb : DSys σ × Option Err := match displaced with
        | none => (s2, none)
        | some (b, ws) =>
          match writeBlockToMem s2.mem b ws 0 with
          | (m', e) => ({ s2 with mem := m' }, e)
      match wb with
      | (s3, some e) => { sys := s3, res := .error e, extra := 0 }
      | (s3, none) =>
        { sys := { s3 with hits := s3.hits + (if hit then 1 else 0), lastHit := hit,
                           accesses := s3.accesses + 1 },
          res := .ok 0, extra := if hit then 0 else s.penalty }

theorem writeWB_hit (s : DSys σ) (bits : Nat) (addr : Int) (v : Nat) (sets1 : List (CSet σ Nat))
    (vals : List Nat) (h : readBlock P s.sets (dec s addr) = .ok (sets1, some vals)) :
    s.writeWB P bits addr v = wbFinish P s sets1 (dec s addr) true bits v vals := by
  unfold DSys.writeWB
  simp only [h]
  rfl

theorem writeWB_miss (s : DSys σ) (bits : Nat) (addr : Int) (v : Nat) (sets1 : List (CSet σ Nat))
    (ws : List Nat) (h : readBlock P s.sets (dec s addr) = .ok (sets1, none))
    (h2 : readBlockFromMem s.mem (dec s addr).blockBase s.geo.words 0 = .ok ws) :
    s.writeWB P bits addr v = wbFinish P s sets1 (dec s addr) false bits v ws := by
  unfold DSys.writeWB
  simp only [h, h2]
  rfl

theorem writeWB_miss_err (s : DSys σ) (bits : Nat) (addr : Int) (v : Nat)
    (sets1 : List (CSet σ Nat)) (e : Err)
    (h : readBlock P s.sets (dec s addr) = .ok (sets1, none))
    (h2 : readBlockFromMem s.mem (dec s addr).blockBase s.geo.words 0 = .error e) :
    s.writeWB P bits addr v = { sys := { s with sets := sets1 }, res := .error e, extra := 0 } := by
  unfold DSys.writeWB
  simp only [h, h2]

/-- The tail of an accepted write-back write. -/
theorem wbFinish_ok {s : DSys σ} (hP : PolicyOK P s.geo.assoc WFp) (hs : CInv WFp s)
    (hwt : s.wt = false) (sets1 : List (CSet σ Nat)) (hsets1 : SetsOK s.geo WFp sets1)
    (hl1 : ∀ k t, lookup sets1 k t = lookup s.sets k t) (bits : Nat) (addr : Int) (v : Nat)
    (hit : Bool) (hb : widthOK bits) (hw : inWord bits addr) (hin : inData addr) (hv : v < 2 ^ bits)
    (block : List Nat) (hlen : block.length = 2 ^ s.geo.blkBits)
    (hlt : ∀ x, x ∈ block → x < 4294967296)
    (hbytes : ∀ a, (dec s a).setIdx = (dec s addr).setIdx → (dec s a).tag = (dec s addr).tag →
      byteOf (wordAt block (dec s a).blockOff) (dec s a).byteOff = logical s a) :
    (wbFinish P s sets1 (dec s addr) hit bits v block).res = .ok 0 ∧
    CInv WFp (wbFinish P s sets1 (dec s addr) hit bits v block).sys ∧
    (∀ a, logical (wbFinish P s sets1 (dec s addr) hit bits v block).sys a =
      updBytes (logical s) addr (bits / 8) v a) ∧
    (wbFinish P s sets1 (dec s addr) hit bits v block).sys.geo = s.geo ∧
    (wbFinish P s sets1 (dec s addr) hit bits v block).sys.wt = s.wt := by
  obtain ⟨hs1, hlog1⟩ := CInv_transfer hs { s with sets := sets1 } rfl rfl rfl hsets1 hl1
  have hoff : (dec s addr).byteOff + bits / 8 ≤ 4 := hw
  have hbo : (dec s addr).blockOff < block.length := by
    rw [hlen]; exact decode_blockOff_lt _ _ _
  have hwlt := wordAt_lt block (dec s addr).blockOff hlt
  obtain ⟨sets2, displaced, m', hwb, _, hdnone, hdsome, hall⟩ :=
    putBlock_spec (s := { s with sets := sets1 }) hP hs1 addr hin
      (block.set (dec s addr).blockOff
        (newWord bits (dec s addr).byteOff (wordAt block (dec s addr).blockOff) v))
      (by rw [List.length_set]; exact hlen)
      (mem_set_lt block _ _ hlt (newWord_lt bits _ _ v hb hoff hwlt hv))
  have hwb' : writeBlock P sets1 (dec s addr) (block.set (dec s addr).blockOff
      (newWord bits (dec s addr).byteOff (wordAt block (dec s addr).blockOff) v)) =
      .ok (sets2, _, displaced) := hwb
  have key : ∀ s3 : DSys σ, s3.geo = s.geo → s3.wt = s.wt → s3.sets = sets2 → s3.mem = m' →
      CInv WFp s3 ∧ (∀ a, logical s3 a = updBytes (logical s) addr (bits / 8) v a) := by
    intro s3 hg hwt3 hsets3 hmem3
    obtain ⟨c1, _, c3⟩ := hall s3 hg hsets3 (by
      show s3.mem = if s.wt = true then s.mem else m'
      rw [hwt, hmem3]; rfl)
    refine ⟨⟨c1, ?_⟩, ?_⟩
    · intro h; rw [hwt3, hwt] at h; cases h
    · exact upd_eq s.geo.idxBits s.geo.blkBits addr bits v hb hw hv (logical s) (logical s3) block hbo
        hwlt hbytes (fun a => by rw [c3 a, hlog1 a])
  unfold wbFinish
  rw [intoBlock_ok bits (dec s addr) block v hb hoff]
  simp only
  rw [hwb']
  simp only
  cases hd : displaced with
  | none =>
    simp only
    obtain ⟨k1, k2⟩ := key { s with sets := sets2, hits := s.hits + (if hit = true then 1 else 0), lastHit := hit, accesses := s.accesses + 1 } rfl rfl rfl (hdnone hd).symm
    exact ⟨(by first | rfl | trivial), k1, k2, (by first | rfl | trivial), (by first | rfl | trivial)⟩
  | some bw =>
    obtain ⟨b, ws'⟩ := bw
    have hwbm : writeBlockToMem s.mem b ws' 0 = (m', none) := hdsome b ws' hd
    simp only [hwbm]
    obtain ⟨k1, k2⟩ := key { s with sets := sets2, mem := m', hits := s.hits + (if hit = true then 1 else 0), lastHit := hit, accesses := s.accesses + 1 } rfl rfl rfl rfl
    exact ⟨(by first | rfl | trivial), k1, k2, (by first | rfl | trivial), (by first | rfl | trivial)⟩

/-- The tail of a write-back write that crosses a word boundary. -/
theorem wbFinish_crossing {s : DSys σ} (hs : CInv WFp s)
    (sets1 : List (CSet σ Nat)) (hsets1 : SetsOK s.geo WFp sets1)
    (hl1 : ∀ k t, lookup sets1 k t = lookup s.sets k t) (bits : Nat) (addr : Int) (v : Nat)
    (hit : Bool) (hb : widthOK bits) (hw : ¬ inWord bits addr) (block : List Nat) :
    (wbFinish P s sets1 (dec s addr) hit bits v block).res =
      .error (.byteOffset (dec s addr).byteOff (if bits = 16 then 2 else 0)) ∧
    CInv WFp (wbFinish P s sets1 (dec s addr) hit bits v block).sys ∧
    (∀ a, logical (wbFinish P s sets1 (dec s addr) hit bits v block).sys a = logical s a) ∧
    (wbFinish P s sets1 (dec s addr) hit bits v block).sys.geo = s.geo ∧
    (wbFinish P s sets1 (dec s addr) hit bits v block).sys.wt = s.wt := by
  obtain ⟨hs1, hlog1⟩ := CInv_transfer hs { s with sets := sets1 } rfl rfl rfl hsets1 hl1
  have hoff : ¬ (dec s addr).byteOff + bits / 8 ≤ 4 := hw
  unfold wbFinish
  rw [intoBlock_crossing bits (dec s addr) block v hb hoff (decode_byteOff_lt _ _ _)]
  exact ⟨rfl, hs1, hlog1, rfl, rfl⟩

/-! ### write-through: the model with named parts -/

/-- The state after the counters of a write-through write have been updated. -/
def wtCount (s : DSys σ) (sets1 : List (CSet σ Nat)) (hit : Bool) : DSys σ :=
  { s with sets := sets1, hits := s.hits + (if hit then 1 else 0), lastHit := hit,
           accesses := s.accesses + 1 }

/-- The final store of a write-through write to the lower memory. -/
def wtStore (s2 : DSys σ) (bits : Nat) (addr : Int) (v extra : Nat) : Out σ :=
  match Mem.write s2.mem bits addr v with
  | none => { sys := s2, res := .error .unsupported, extra := extra }
  | some (m', some e) => { sys := { s2 with mem := m' }, res := .error (.addr e.address), extra := extra }
  | some (m', none) => { sys := { s2 with mem := m' }, res := .ok 0, extra := extra }

theorem writeWT_miss (s : DSys σ) (bits : Nat) (addr : Int) (v : Nat) (sets1 : List (CSet σ Nat))
    (h : readBlock P s.sets (dec s addr) = .ok (sets1, none)) :
    s.writeWT P bits addr v =
      match laneErr bits (dec s addr) with
      | some e => { sys := wtCount s sets1 false, res := .error e, extra := s.penalty }
      | none => wtStore (wtCount s sets1 false) bits addr v s.penalty := by
  unfold DSys.writeWT
  simp only [h]
  cases laneErr bits (dec s addr) <;> rfl

theorem writeWT_hit (s : DSys σ) (bits : Nat) (addr : Int) (v : Nat) (sets1 : List (CSet σ Nat))
    (block : List Nat) (h : readBlock P s.sets (dec s addr) = .ok (sets1, some block)) :
    s.writeWT P bits addr v =
      match intoBlock bits (dec s addr) block v with
      | .error e => { sys := wtCount s sets1 true, res := .error e, extra := 0 }
      | .ok block' =>
        match writeBlock P sets1 (dec s addr) block' with
        | .error e => { sys := wtCount s sets1 true, res := .error e, extra := 0 }
        | .ok (sets2, _, _) => wtStore { wtCount s sets1 true with sets := sets2 } bits addr v 0 := by
  unfold DSys.writeWT
  simp only [h]
  cases intoBlock bits (dec s addr) block v with
  | error e => rfl
  | ok block' =>
    simp only
    cases writeBlock P sets1 (dec s addr) block' with
    | error e => rfl
    | ok r => rfl

/-- What a flat write within one word does to the cells, as `updBytes`. -/
theorem cells_upd {m m' : Mem} (addr : Int) (n v : Nat) (_hn : wrap32 addr % 4 + n ≤ 4)
    (h1 : ∀ i, i < n → m'.cells ((wrap32 addr + i : Nat) : Int) = byteOf v i)
    (h2 : ∀ z : Int, (z < ((wrap32 addr : Nat) : Int) ∨ ((wrap32 addr + n : Nat) : Int) ≤ z) →
      m'.cells z = m.cells z) (a : Int) :
    m'.cells ((wrap32 a : Nat) : Int) =
      updBytes (fun a => m.cells ((wrap32 a : Nat) : Int)) addr n v a := by
  unfold updBytes
  by_cases hc : wrap32 addr ≤ wrap32 a ∧ wrap32 a < wrap32 addr + n
  · rw [if_pos hc, ← h1 _ (show wrap32 a - wrap32 addr < n by omega)]
    congr 2; omega
  · rw [if_neg hc]
    apply h2; omega

/-- The final store of an accepted write-through write. -/
theorem wtStore_ok {s2 : DSys σ} (hs2 : CInvS WFp s2) (bits : Nat) (addr : Int) (v extra : Nat)
    (hb : widthOK bits) (hw : inWord bits addr) (hin : inData addr)
    (hres : ∀ a, resident s2 a = true →
      logical s2 a = updBytes (fun a => s2.mem.cells ((wrap32 a : Nat) : Int)) addr (bits / 8) v a) :
    (wtStore s2 bits addr v extra).res = .ok 0 ∧ CInv WFp (wtStore s2 bits addr v extra).sys ∧
    (∀ a, logical (wtStore s2 bits addr v extra).sys a =
      updBytes (fun a => s2.mem.cells ((wrap32 a : Nat) : Int)) addr (bits / 8) v a) ∧
    (wtStore s2 bits addr v extra).sys.geo = s2.geo ∧ (wtStore s2 bits addr v extra).sys.wt = s2.wt := by
  have hx := wrap32_lt addr
  have hw' : wrap32 addr % 4 + bits / 8 ≤ 4 := hw
  obtain ⟨m', hwr, hm'OK, c1, c2⟩ := write_riscv (CInvS_memOK hs2) bits hb addr v hin (by omega)
  have hcells := cells_upd (m := s2.mem) (m' := m') addr (bits / 8) v hw c1 c2
  unfold wtStore
  rw [hwr]
  simp only
  have hlog : ∀ a, logical { s2 with mem := m' } a = m'.cells ((wrap32 a : Nat) : Int) :=
    logical_setMem s2 { s2 with mem := m' } rfl rfl (fun a hr => by rw [hres a hr]; exact (hcells a).symm)
  refine ⟨(by first | rfl | trivial), ⟨⟨hs2.geo, hs2.sets, hm'OK.cfg, hm'OK.wf⟩, fun _ => hlog⟩, ?_, (by first | rfl | trivial), (by first | rfl | trivial)⟩
  intro a
  rw [hlog a, hcells a]

/-- The final store of a write-through write below the data range fails and changes nothing. -/
theorem wtStore_bad {s2 : DSys σ} (hs2 : CInvS WFp s2) (bits : Nat) (addr : Int) (v extra : Nat)
    (hb : widthOK bits) (hin : ¬ inData addr) :
    wtStore s2 bits addr v extra =
      { sys := { s2 with mem := s2.mem }, res := .error (.addr ((wrap32 addr : Nat) : Int)), extra := extra } := by
  unfold wtStore
  rw [write_riscv_bad (CInvS_memOK hs2) bits hb addr v (by unfold inData at hin; omega)]

end ArchSim.Lemmas.C03
