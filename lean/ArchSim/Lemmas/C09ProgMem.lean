/-
C09 (program level), part 1: the invariant `DInv` of the state's cached data memory system (the
representation invariant `CInv` of C03 together with the accounting invariant `Inv` of C09), and
what a SUCCESSFUL read / write through it implies: the access was accepted, the value read is a
32-bit value, the invariant is kept.
-/
import ArchSim.Props.C03
import ArchSim.Lemmas.C09Pol
import ArchSim.Lemmas.C02SplitMem

namespace ArchSim.Lemmas.C09Prog
open ArchSim ArchSim.Cache ArchSim.Rv ArchSim.Repl
open ArchSim.Spec.TagCache (Accepted)
open ArchSim.Spec.CacheAbs (CInv widthOK inWord inData logical)

/-- Invariant of a cached data memory system `.cached l ds` of the architectural state. -/
structure DOK (l : Bool) (ds : DSys Pol) : Prop where
  assoc : C09.AssocOK l ds.geo.assoc
  cinv  : CInv (Pol.WF ds.geo.assoc) ds
  inv   : C09.Inv (Pol.WF ds.geo.assoc) ds

/-- The data memory system is a cached one satisfying `DOK`. -/
def DInv (ms : MemSys) : Prop := ∃ l ds, ms = .cached l ds ∧ DOK l ds

theorem DOK.polOK {l : Bool} {ds : DSys Pol} (h : DOK l ds) :
    Spec.CacheAbs.PolicyOK (polOps l) ds.geo.assoc (Pol.WF ds.geo.assoc) :=
  C03.pol_ok l _ h.assoc.1 h.assoc.2

theorem accepted_iff (bits : Nat) (a : Int) : Accepted bits a ↔ widthOK bits ∧ inWord bits a ∧ inData a :=
  Iff.rfl

/-- Transport of `DOK` to a state with the same geometry. -/
theorem DOK.of_geo {l : Bool} {ds ds' : DSys Pol} (h : DOK l ds) (hg : ds'.geo = ds.geo)
    (hc : CInv (Pol.WF ds.geo.assoc) ds') (hi : C09.Inv (Pol.WF ds.geo.assoc) ds') : DOK l ds' := by
  refine ⟨by rw [hg]; exact h.assoc, ?_, ?_⟩
  · rw [hg]; exact hc
  · rw [hg]; exact hi

/-- A read through the cache that returns a value was accepted, returns a 32-bit value and keeps the
    invariant. -/
theorem read_ok_spec {l : Bool} {ds : DSys Pol} (h : DOK l ds) {bits : Nat} (hb : widthOK bits)
    (a : Int) (counted : Bool) {v : Nat} (hv : (ds.read (polOps l) bits a counted).res = .ok v) :
    Accepted bits a ∧ v < 4294967296 ∧ DOK l (ds.read (polOps l) bits a counted).sys := by
  by_cases hin : inData a
  · by_cases hw : inWord bits a
    · have hacc : Accepted bits a := ⟨hb, hw, hin⟩
      obtain ⟨e1, e2, _, e4, _⟩ := C03.read_accepted h.polOK h.cinv bits a counted hb hw hin
      have hI := (C09.read_sim (C09.polOps_ok h.assoc) h.inv hacc counted).inv
      refine ⟨hacc, ?_, h.of_geo e4 e2 hI⟩
      rw [e1] at hv
      cases hv
      have hlt := C18.leSum_lt Mem.riscvCfg (bits / 8)
        (fun i => logical ds (a + (i : Int))) (fun i _ => C03.logical_lt h.cinv.toCInvS _)
      have : 2 ^ (bits / 8 * Mem.riscvCfg.cellBits) ≤ 4294967296 := by
        rcases hb with rfl | rfl | rfl <;> decide
      omega
    · have := (C03.read_crossing h.polOK h.cinv bits a counted hb hw hin).1
      rw [this] at hv; cases hv
  · have := (C03.read_bad h.polOK h.cinv bits a counted hin).1
    rw [this] at hv; cases hv

/-- A write through the cache that succeeds was accepted and keeps the invariant. -/
theorem write_ok_spec {l : Bool} {ds : DSys Pol} (h : DOK l ds) {bits : Nat} (hb : widthOK bits)
    (a : Int) {v : Nat} (hv : v < 2 ^ bits) {x : Nat}
    (hr : (ds.write (polOps l) bits a v false).res = .ok x) :
    Accepted bits a ∧ DOK l (ds.write (polOps l) bits a v false).sys := by
  by_cases hin : inData a
  · by_cases hw : inWord bits a
    · have hacc : Accepted bits a := ⟨hb, hw, hin⟩
      obtain ⟨_, e2, _, e4, _⟩ := Props.C03.write_refines h.polOK h.cinv bits a v hb hw hin hv
      have hI := (C09.write_sim (C09.polOps_ok h.assoc) (C09.polOps_idem l _) h.inv hacc v).1.inv
      exact ⟨hacc, h.of_geo e4 e2 hI⟩
    · have := (Props.C03.crossing_rejected_write h.polOK h.cinv bits a v hb hw hin).1
      rw [this] at hr; cases hr
  · have := (Props.C03.out_of_range_rejected_write h.polOK h.cinv bits a v hb hin).1
    rw [this] at hr
    repeat' split at hr
    all_goals cases hr

/-! ### The access counter -/

/-- The data-cache access counter of a memory system (0 for the flat memory). -/
def dAcc : MemSys → Nat
  | .flat _ => 0
  | .cached _ ds => ds.accesses

theorem read_acc_accesses {l : Bool} {ds : DSys Pol} (h : DOK l ds) {bits : Nat} {a : Int}
    (hacc : Accepted bits a) (counted : Bool) :
    (ds.read (polOps l) bits a counted).sys.accesses = ds.accesses + (if counted then 1 else 0) := by
  have he := (C09.read_sim (C09.polOps_ok h.assoc) h.inv hacc counted).erase_eq
  have : (Spec.TagCache.erase (ds.read (polOps l) bits a counted).sys).accesses =
      (Spec.TagCache.refRead (polOps l) (Spec.TagCache.erase ds) a counted).cache.accesses := by rw [he]
  rw [show (ds.read (polOps l) bits a counted).sys.accesses =
    (Spec.TagCache.erase (ds.read (polOps l) bits a counted).sys).accesses from rfl, this]
  cases counted <;> rfl

theorem write_acc_accesses {l : Bool} {ds : DSys Pol} (h : DOK l ds) {bits : Nat} {a : Int}
    (hacc : Accepted bits a) (v : Nat) :
    (ds.write (polOps l) bits a v false).sys.accesses = ds.accesses + 1 := by
  have he := (C09.write_sim (C09.polOps_ok h.assoc) (C09.polOps_idem l _) h.inv hacc v).1.erase_eq
  have : (Spec.TagCache.erase (ds.write (polOps l) bits a v false).sys).accesses =
      (Spec.TagCache.refWrite (polOps l) (Spec.TagCache.erase ds) a).cache.accesses := by rw [he]
  rw [show (ds.write (polOps l) bits a v false).sys.accesses =
    (Spec.TagCache.erase (ds.write (polOps l) bits a v false).sys).accesses from rfl, this]
  rfl

/-! ### The hypotheses of the data-path agreement (`C02Split.MemOK`) -/

open ArchSim.Lemmas.C02Split in
/-- `LoadOK` for every cached memory system satisfying the invariant, at every address: a counted
    read that returns a value returns a 32-bit value, and the uncounted re-read of the same address
    returns the same value, changes nothing and adds no cycles. -/
theorem loadOK_cached {l : Bool} {ds : DSys Pol} (h : DOK l ds) {bits : Nat} (hb : widthOK bits)
    (A : Int) : LoadOK (.cached l ds) bits A := by
  intro v hv
  have hv' : (ds.read (polOps l) bits A true).res = .ok v := hv
  obtain ⟨hacc, hlt, _⟩ := read_ok_spec h hb A true hv'
  refine ⟨hlt, ?_⟩
  rw [C09.memsys_reread h.assoc h.inv hacc true rfl, hv]

open ArchSim.Lemmas.C02Split in
theorem writeAlias_cached' {l : Bool} {ds : DSys Pol} (h : DOK l ds) : WriteAlias (.cached l ds) :=
  writeAlias_cached l ds (by rw [h.inv.cfg]; rfl) (by rw [h.inv.cfg]; rfl)

theorem widthOK_accessBits (op : Rv.Op) : widthOK (accessBits op) := by
  unfold accessBits widthOK; split <;> simp

end ArchSim.Lemmas.C09Prog
