/-
C04 (spelling independence, part 2), variable operands 5: whole lines, with and without an in-line label, for the
variable forms and for `li` / `mv` / `nop`.
-/
import ArchSim.Lemmas.C04SpellVar4

namespace ArchSim.Lemmas.C04Spell
open ArchSim ArchSim.PP ArchSim.Rv ArchSim.Asm ArchSim.Lemmas.C14

/-- the optional in-line label in front of an instruction: blanks only, or `lab:` with blanks around -/
inductive LinePre where
  | plain (lead : List Char)
  | labelled (ws1 lab ws2 ws3 : List Char)

def LinePre.Ok : LinePre → Prop
  | .plain lead => AllWs lead
  | .labelled ws1 lab ws2 ws3 => AllWs ws1 ∧ IsLabel lab ∧ AllWs ws2 ∧ AllWs ws3

def LinePre.txt : LinePre → List Char → List Char
  | .plain lead, x => lead ++ x
  | .labelled ws1 lab ws2 ws3, x => labelPrefix ws1 lab ws2 ws3 x

def LinePre.lbl : LinePre → Option String
  | .plain _ => none
  | .labelled _ lab _ _ => some (String.ofList lab)

/-- A line (with or without in-line label) that starts with any case variant of the mnemonic `m` and whose
    instruction body is read completely up to trailing blanks. -/
theorem parseLine_pre_word (p : LinePre) (hp : p.Ok) (m : String) (hm : m ∈ mnWords) (sel : Nat → Bool)
    (X : List Char) (hs : LineSep X) (it : Item) (tr : List Char) (htr : AllWs tr) (hlen : tr.length ≤ X.length)
    (hb : pInstrBody (m.toList ++ X) = .ok it tr) :
    parseLine (p.txt (recase sel m.toList ++ X)) = some { lbl := p.lbl, item := it } := by
  cases p with
  | plain lead => exact parseLine_spelled_word m hm lead hp sel X hs it tr htr hb
  | labelled ws1 lab ws2 ws3 =>
    exact parseLine_labelled_word ws1 lab ws2 ws3 hp.1 hp.2.1 hp.2.2.1 hp.2.2.2 m hm sel X hs it tr htr hlen hb

section
variable (p : LinePre) (hp : p.Ok) (sel : Nat → Bool) (g w1 w2 w3 w4 tr : List Char) (hg : AllWs g) (hgne : g ≠ [])
  (h1 : AllWs w1) (h2 : AllWs w2) (h3 : AllWs w3) (h4 : AllWs w4) (htr : AllWs tr)

include hp hg hgne h1 h2 htr in
theorem line_loadVar (op : Op) (h : cls op = .load) (a : Nat) (ha : a < 32) (s1 : RegStyle) (name : List Char)
    (hl : IsLabel name) (ix : IdxSp) (hi : IdxOk ix) :
    parseLine (p.txt (recase sel (mn op) ++ tReg g s1 a (tSep w1 ',' (tVar w2 name ix tr))))
      = some { lbl := p.lbl, item := .grp (.memPseudo op.mnemonic a (String.ofList name) (idxVal ix)) } :=
  parseLine_pre_word p hp op.mnemonic (mnemonic_mem op) sel _ (lineSep_tReg g s1 a _ hg hgne ha) _ tr htr
    (by simp only [tReg, tSep, tVar, List.length_append, List.length_cons]; omega)
    (bodyS_loadVar g w1 w2 tr hg hgne h1 h2 htr op h a ha s1 name hl ix hi)

include hp hg hgne h1 h2 h3 h4 htr in
theorem line_storeVar (op : Op) (h : cls op = .store) (a b : Nat) (ha : a < 32) (hb : b < 32) (s1 s2 : RegStyle)
    (name : List Char) (hl : IsLabel name) (ix : IdxSp) (hi : IdxOk ix) :
    parseLine (p.txt (recase sel (mn op) ++
        tReg g s1 a (tSep w1 ',' (tVar w2 name ix (tSep w3 ',' (tReg w4 s2 b tr))))))
      = some { lbl := p.lbl, item := .grp (.sPseudo op.mnemonic a (String.ofList name) (idxVal ix) b) } :=
  parseLine_pre_word p hp op.mnemonic (mnemonic_mem op) sel _ (lineSep_tReg g s1 a _ hg hgne ha) _ tr htr
    (by simp only [tReg, tSep, tVar, List.length_append, List.length_cons]; omega)
    (bodyS_storeVar g w1 w2 w3 w4 tr hg hgne h1 h2 h3 h4 htr op h a b ha hb s1 s2 name hl ix hi)

include hp hg hgne h1 h2 htr in
theorem line_la (a : Nat) (ha : a < 32) (s1 : RegStyle) (name : List Char) (hl : IsLabel name) (ix : IdxSp)
    (hi : IdxOk ix) :
    parseLine (p.txt (recase sel "la".toList ++ tReg g s1 a (tSep w1 ',' (tVar w2 name ix tr))))
      = some { lbl := p.lbl, item := .grp (.memPseudo "la" a (String.ofList name) (idxVal ix)) } :=
  parseLine_pre_word p hp "la" (by decide) sel _ (lineSep_tReg g s1 a _ hg hgne ha) _ tr htr
    (by simp only [tReg, tSep, tVar, List.length_append, List.length_cons]; omega)
    (bodyP_la g w1 w2 tr hg hgne h1 h2 htr a ha s1 name hl ix hi)

include hp hg hgne h1 h2 htr in
theorem line_li (a : Nat) (v : Int) (ha : a < 32) (hv : v.natAbs < 10 ^ 4300) (s1 : RegStyle) (sn : NumStyle) :
    parseLine (p.txt (recase sel "li".toList ++ tReg g s1 a (tSep w1 ',' (tNum w2 sn v tr))))
      = some { lbl := p.lbl, item := .grp (.li a v) } :=
  parseLine_pre_word p hp "li" (by decide) sel _ (lineSep_tReg g s1 a _ hg hgne ha) _ tr htr
    (by simp only [tReg, tSep, tNum, List.length_append, List.length_cons]; omega)
    (bodyP_li g w1 w2 tr hg hgne h1 h2 htr a v ha hv s1 sn)

include hp hg hgne h1 h2 htr in
theorem line_mv (a b : Nat) (ha : a < 32) (hb : b < 32) (s1 s2 : RegStyle) :
    parseLine (p.txt (recase sel "mv".toList ++ tReg g s1 a (tSep w1 ',' (tReg w2 s2 b tr))))
      = some { lbl := p.lbl, item := .grp (.mv a b) } :=
  parseLine_pre_word p hp "mv" (by decide) sel _ (lineSep_tReg g s1 a _ hg hgne ha) _ tr htr
    (by simp only [tReg, tSep, List.length_append, List.length_cons]; omega)
    (bodyP_mv g w1 w2 tr hg hgne h1 h2 htr a b ha hb s1 s2)

include hp htr in
theorem line_nop : parseLine (p.txt (recase sel "nop".toList ++ tr)) = some { lbl := p.lbl, item := .str "nop" } :=
  parseLine_pre_word p hp "nop" (by decide) sel tr (lineSep_allWs tr htr) _ tr htr (Nat.le_refl _)
    (bodyP_nop tr htr)

end

theorem line_branch_label (p : LinePre) (hp : p.Ok) (sel : Nat → Bool) (g w1 w2 w3 w4 tr : List Char)
    (hg : AllWs g) (hgne : g ≠ []) (h1 : AllWs w1) (h2 : AllWs w2) (h3 : AllWs w3) (h4 : AllWs w4) (htr : AllWs tr)
    (op : Op) (h : cls op = .b) (a b : Nat) (ha : a < 32) (hb : b < 32) (s1 s2 : RegStyle) (lab : List Char)
    (hl : IsLabel lab) (o : OffSp) (ho : OffOk o) :
    parseLine (p.txt (recase sel (mn op) ++
        tReg g s1 a (tSep w1 ',' (tReg w2 s2 b (tSep w3 ',' (tLab w4 lab (offTxt o ++ tr)))))))
      = some { lbl := p.lbl, item := .grp (.btypeLabel op.mnemonic a b (String.ofList lab) (offVal o)) } :=
  parseLine_pre_word p hp op.mnemonic (mnemonic_mem op) sel _ (lineSep_tReg g s1 a _ hg hgne ha) _ tr htr
    (by simp only [tReg, tSep, tLab, List.length_append, List.length_cons]; omega)
    (bodyS_BL g w1 w2 w3 w4 tr hg hgne h1 h2 h3 h4 htr op h a b ha hb s1 s2 lab hl o ho)

theorem line_jal_label (p : LinePre) (hp : p.Ok) (sel : Nat → Bool) (g w1 w2 tr : List Char)
    (hg : AllWs g) (hgne : g ≠ []) (h1 : AllWs w1) (h2 : AllWs w2) (htr : AllWs tr)
    (a : Nat) (ha : a < 32) (s1 : RegStyle) (lab : List Char) (hl : IsLabel lab) (o : OffSp) (ho : OffOk o) :
    parseLine (p.txt (recase sel "jal".toList ++ tReg g s1 a (tSep w1 ',' (tLab w2 lab (offTxt o ++ tr)))))
      = some { lbl := p.lbl, item := .grp (.jalLabel a (String.ofList lab) (offVal o)) } :=
  parseLine_pre_word p hp "jal" (by decide) sel _ (lineSep_tReg g s1 a _ hg hgne ha) _ tr htr
    (by simp only [tReg, tSep, tLab, List.length_append, List.length_cons]; omega)
    (bodyS_JL g w1 w2 tr hg hgne h1 h2 htr a ha s1 lab hl o ho)

/-- An index that is not `[<decimal digits>]` is not read as an index: after `[` and some (maybe no) digits
    comes a character that is neither a digit nor `]` (`x` of a hexadecimal numeral, a blank, a sign, a letter).
    The variable pattern then stops in front of the `[`. -/
theorem pVariable_bad_index (w name ds : List Char) (c : Char) (r : List Char) (hw : AllWs w) (hl : IsLabel name)
    (hds : ∀ d ∈ ds, isNum d = true) (hc : isNum c = false) (hc2 : c ≠ ']') :
    pVariable (w ++ (name ++ '[' :: (ds ++ c :: r))) = .ok (String.ofList name, none) ('[' :: (ds ++ c :: r)) := by
  have h1 : pLabel (w ++ (name ++ '[' :: (ds ++ c :: r))) = .ok (String.ofList name) ('[' :: (ds ++ c :: r)) :=
    pLabel_tLab w name _ hw hl (tokEnd_cons '[' _ (by decide))
  have hend : ∀ e ∈ (c :: r).head?, isNum e = false := by
    intro e he; simp at he; subst he; exact hc
  have hclose : stripPrefix [']'] (c :: r) = none := by
    simp [stripPrefix, Ne.symm hc2]
  simp only [pVariable, h1, bind_ok, litAdj, show ("[" : String).toList = ['['] from rfl,
    show ("]" : String).toList = [']'] from rfl, stripPrefix, if_true]
  cases ds with
  | nil => simp only [List.nil_append, wordAdj, hc, Bool.false_eq_true, if_false, bind_fail]
  | cons d tl =>
    have htl : ∀ e ∈ tl, isNum e = true := fun e he => hds e (by simp [he])
    simp only [List.cons_append, wordAdj, hds d (by simp), if_true, takeWhile_class isNum tl _ htl hend,
      dropWhile_class isNum tl _ htl hend, bind_ok, hclose, map_fail]
    cases pyIntDec (String.ofList (d :: tl)) <;> rfl

end ArchSim.Lemmas.C04Spell
