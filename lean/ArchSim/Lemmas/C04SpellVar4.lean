/-
C04 (spelling independence, part 2), variable operands 4: `pInstrBody` on store-by-name and `la` lines.
-/
import ArchSim.Lemmas.C04SpellVar3

namespace ArchSim.Lemmas.C04Spell
open ArchSim ArchSim.PP ArchSim.Rv ArchSim.Asm ArchSim.Lemmas.C14

theorem skipWs_tSep (w : List Char) (c : Char) (r : List Char) (hw : AllWs w) (hc : isWs c = false) :
    skipWs (tSep w c r) = c :: r := by
  rw [tSep, skipWs_append w _ hw, skipWs_cons_of_not_ws c r hc]

section
variable (g w1 w2 w3 w4 tr : List Char) (hg : AllWs g) (hgne : g ≠ []) (h1 : AllWs w1) (h2 : AllWs w2)
  (h3 : AllWs w3) (h4 : AllWs w4) (htr : AllWs tr)
include hg hgne h1 h2 h3 h4 htr

/-- `s<x> rs, name, rt` / `s<x> rs, name[i], rt`: the store-by-variable-name alternative wins. -/
theorem bodyS_storeVar (op : Op) (h : cls op = .store) (a b : Nat) (ha : a < 32) (hb : b < 32) (s1 s2 : RegStyle)
    (name : List Char) (hl : IsLabel name) (ix : IdxSp) (hi : IdxOk ix) :
    pInstrBody (mn op ++ tReg g s1 a (tSep w1 ',' (tVar w2 name ix (tSep w3 ',' (tReg w4 s2 b tr)))))
      = .ok (.grp (.sPseudo op.mnemonic a (String.ofList name) (idxVal ix) b)) tr := by
  have hr := mnSep_tReg g s1 a (tSep w1 ',' (tVar w2 name ix (tSep w3 ',' (tReg w4 s2 b tr)))) hg hgne
  have hte : TokEnd (tSep w3 ',' (tReg w4 s2 b tr)) := tokEnd_tSep w3 ',' _ h3 comma_nlb
  have hP : pSPseudo (mn op ++ tReg g s1 a (tSep w1 ',' (tVar w2 name ix (tSep w3 ',' (tReg w4 s2 b tr)))))
      = .ok (.sPseudo op.mnemonic a (String.ofList name) (idxVal ix) b) tr := by
    simp only [pSPseudo, stage_exact sMn low_s op (ex5 op h) _ hr, bind_ok,
      pReg_tReg g s1 a _ hg ha (tokEnd_tSep w1 ',' _ h1 comma_nlb), pComma_tSep w1 _ h1,
      pVariable_tVar w2 name ix _ h2 hl hi hte (tSep_head_ne w3 ',' '[' _ h3 (by decide) (by decide)),
      pComma_tSep w3 _ h3, pReg_tReg w4 s2 b _ h4 hb (tokEnd_allWs tr htr), map_ok]
  have h3' := stage_exact L3 low_3 op (ex3 op (Or.inr (Or.inl h))) _ hr
  rw [L3] at h3'
  have hImm : pImm (tVar w2 name ix (tSep w3 ',' (tReg w4 s2 b tr))) = .fail := pImm_fail_tLab w2 name _ h2 hl
  have hM : pMemory (mn op ++ tReg g s1 a (tSep w1 ',' (tVar w2 name ix (tSep w3 ',' (tReg w4 s2 b tr))))) = .fail := by
    simp only [pMemory, h3', bind_ok, pReg_tReg g s1 a _ hg ha (tokEnd_tSep w1 ',' _ h1 comma_nlb),
      pComma_tSep w1 _ h1, hImm, bind_fail]
  -- what follows the name: the index text and `, rt`
  have f1 : TokEnd (idxTxt ix ++ tSep w3 ',' (tReg w4 s2 b tr)) := tokEnd_idxTxt ix _ hte
  have f2 : ∀ c ∈ (skipWs (idxTxt ix ++ tSep w3 ',' (tReg w4 s2 b tr))).head?, isNum c = false := by
    intro c hc
    cases ix with
    | none =>
      simp only [idxTxt, List.nil_append, skipWs_tSep w3 ',' _ h3 (by decide), List.head?_cons,
        Option.mem_def, Option.some.injEq] at hc
      subst hc; decide
    | some ds =>
      simp only [idxTxt, List.cons_append, skipWs_cons_of_not_ws '[' _ (by decide), List.head?_cons,
        Option.mem_def, Option.some.injEq] at hc
      subst hc; decide
  have f3 : ∀ n : Nat, ((pComma (idxTxt ix ++ tSep w3 ',' (tReg w4 s2 b tr))).bind fun _ r4 =>
      (pImm r4).map fun imm => PInstr.rri op.mnemonic a n imm) = .fail := by
    intro n
    cases ix with
    | none =>
      simp only [idxTxt, List.nil_append, pComma_tSep w3 _ h3, bind_ok, pImm_fail_tReg w4 s2 b tr h4 hb, map_fail]
    | some ds =>
      have : pComma (idxTxt (.some ds) ++ tSep w3 ',' (tReg w4 s2 b tr)) = .fail :=
        pComma_fail_head '[' _ (by decide) (by decide)
      simp only [this, bind_fail]
  have hRR : (pReg (tVar w2 name ix (tSep w3 ',' (tReg w4 s2 b tr)))).bind (fun n r3 => (pComma r3).bind fun _ r4 =>
      (pImm r4).map fun imm => PInstr.rri op.mnemonic a n imm) = .fail :=
    reg_on_label_fail w2 name _ h2 hl f1 f2
      (fun n r3 => (pComma r3).bind fun _ r4 => (pImm r4).map fun imm => PInstr.rri op.mnemonic a n imm)
      (fun n r hc => by simp only [hc, bind_fail]) f3
  have h8 := stage_exact L8 low_8 op (ex8 op (by simp [h])) _ hr
  rw [L8] at h8
  have hI : pRegRegImm (mn op ++ tReg g s1 a (tSep w1 ',' (tVar w2 name ix (tSep w3 ',' (tReg w4 s2 b tr)))))
      = .fail := by
    simp only [pRegRegImm, h8, bind_ok, pReg_tReg g s1 a _ hg ha (tokEnd_tSep w1 ',' _ h1 comma_nlb),
      pComma_tSep w1 _ h1, hRR]
  rw [pInstrBody_eq]
  simp only [alts, List.map_cons, List.map_nil, hP, hM, hI,
    pRType_failS op _ hr (by rw [h]; decide),
    pUType_failS op _ hr (by rw [h]; decide), pBType_failS op _ hr (by rw [h]; decide),
    pMemPseudo_failS op _ hr (by rw [h]; decide) (by rw [h]; decide), pCsr_failS op _ hr (by rw [h]; decide),
    pCsri_failS op _ hr (by rw [h]; decide),
    pFence_failS op _ hr (by rw [h]; decide), pJal_failS op _ hr (by rw [h]; decide) (by rw [h]; decide),
    pEnv_failS op _ hr (by rw [h]; decide) (by rw [h]; decide), pNop_failS op _ hr, pLi_failS op _ hr,
    pMv_failS op _ hr, map_ok, map_fail]
  rfl

end

theorem pseudo_la : PseudoWord "la".toList := by
  refine ⟨⟨by decide, by decide⟩, ?_, ?_, ?_, ?_, ?_, ?_, ?_, ?_, ?_, ?_, ?_, ?_⟩ <;> decide

/-- `la rd, name` / `la rd, name[i]` -/
theorem bodyP_la (g w1 w2 tr : List Char) (hg : AllWs g) (hgne : g ≠ []) (h1 : AllWs w1) (h2 : AllWs w2)
    (htr : AllWs tr) (a : Nat) (ha : a < 32) (s1 : RegStyle) (name : List Char) (hl : IsLabel name) (ix : IdxSp)
    (hi : IdxOk ix) :
    pInstrBody ("la".toList ++ tReg g s1 a (tSep w1 ',' (tVar w2 name ix tr)))
      = .ok (.grp (.memPseudo "la" a (String.ofList name) (idxVal ix))) tr := by
  have hr := mnSep_tReg g s1 a (tSep w1 ',' (tVar w2 name ix tr)) hg hgne
  have hp := pseudo_la
  have h4 := stageW_exact L4 low_4 "la" hp.word (by decide) _ hr
  rw [L4] at h4
  have hP : pMemPseudo ("la".toList ++ tReg g s1 a (tSep w1 ',' (tVar w2 name ix tr)))
      = .ok (.memPseudo "la" a (String.ofList name) (idxVal ix)) tr := by
    simp only [pMemPseudo, h4, bind_ok, pReg_tReg g s1 a _ hg ha (tokEnd_tSep w1 ',' _ h1 comma_nlb),
      pComma_tSep w1 _ h1,
      pVariable_tVar w2 name ix tr h2 hl hi (tokEnd_allWs tr htr) (allWs_head_ne tr htr '[' (by decide)), map_ok]
  have h13 : pLi ("la".toList ++ tReg g s1 a (tSep w1 ',' (tVar w2 name ix tr))) = .fail := by
    simp only [pLi, kwStageW_none "li" (by decide) _ hp.word _ hr (by decide), bind_fail]
  have h14 : pMv ("la".toList ++ tReg g s1 a (tSep w1 ',' (tVar w2 name ix tr))) = .fail := by
    simp only [pMv, stageW_none ["mv"] low_mv _ hp.word (by decide) _ hr, bind_fail]
  have h12 : caselessLit "nop" ("la".toList ++ tReg g s1 a (tSep w1 ',' (tVar w2 name ix tr))) = .fail :=
    kwStageW_none "nop" (by decide) _ hp.word _ hr (by decide)
  rw [pInstrBody_eq]
  simp only [alts, List.map_cons, List.map_nil, hP, h13, h14, h12, pw_RType hp _ hr, pw_UType hp _ hr,
    pw_BType hp _ hr, pw_Memory hp _ hr, pw_SPseudo hp _ hr, pw_Csr hp _ hr, pw_Csri hp _ hr,
    pw_RegRegImm hp _ hr, pw_Fence hp _ hr, pw_Jal hp _ hr, pw_Env hp _ hr, map_ok, map_fail]
  rfl

/-- A line `lab: <mnemonic in any case> X` whose instruction body is read completely up to trailing blanks. -/
theorem parseLine_labelled_word (ws1 lab ws2 ws3 : List Char) (h1 : AllWs ws1) (hl : IsLabel lab) (h2 : AllWs ws2)
    (h3 : AllWs ws3) (m : String) (hm : m ∈ mnWords) (sel : Nat → Bool) (X : List Char) (hs : LineSep X)
    (it : Item) (tr : List Char) (htr : AllWs tr) (hlen : tr.length ≤ X.length)
    (hb : pInstrBody (m.toList ++ X) = .ok it tr) :
    parseLine (labelPrefix ws1 lab ws2 ws3 (recase sel m.toList ++ X))
      = some { lbl := some (String.ofList lab), item := it } := by
  have hlow := mnWords_low m hm
  have hcv := caseVar_recase sel m.toList hlow.1
  have hne : recase sel m.toList ≠ [] := recase_ne_nil _ _ hlow.2
  have hbody : pInstrBody (recase sel m.toList ++ X) = .ok it tr := by
    rw [pInstrBody_cv m hm _ X hcv hs.mnSep hs.tokEnd]; exact hb
  have hend : atEnd tr = true := by simp [atEnd, skipWs_allWs _ htr]
  rw [parseLine_labelled ws1 lab ws2 ws3 h1 hl h2 h3 _ (fun c hc => caseVar_head hcv _ c hc hne) (by simp [hne]),
    hbody]
  have hnl : ¬ (ws3 ++ (recase sel m.toList ++ X)).length < tr.length := by
    simp only [List.length_append]; omega
  simp only [labelledResult, hnl, if_false, hend, if_true]

end ArchSim.Lemmas.C04Spell
