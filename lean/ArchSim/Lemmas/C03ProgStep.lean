/-
C03 (program level), part 3: `process_ecall`, `behavior()` and one single-cycle step on related
states (`CacheRel`), under `AccessOK` / `StepAccepted`.
-/
import ArchSim.Lemmas.C03ProgDefs

namespace ArchSim.Lemmas.C03Prog
open ArchSim ArchSim.Cache ArchSim.Mem ArchSim.Rv ArchSim.Spec.CacheAbs ArchSim.Spec.TagCache
open ArchSim.Lemmas.C02Split

/-! ### `process_ecall` -/

/-- The ecall services that do not touch the data memory (everything but print-string). -/
def ecallPure (code arg : Nat) : EcallRes :=
  if code = 1 then .out (intToDec (toS arg))
  else if code = 2 then .out (floatMarker arg)
  else if code = 11 then .out (String.ofList [Char.ofNat (arg % 128)])
  else if code = 34 then .out ("0x" ++ natToBase 16 (by decide) arg)
  else if code = 35 then .out ("0b" ++ natToBase 2 (by decide) arg)
  else if code = 36 then .out (natToBase 10 (by decide) arg)
  else if code = 10 then .exit 0
  else if code = 93 then .exit arg
  else .invalid code

theorem processEcall_other (s : St) (h4 : s.regs 17 ≠ 4) :
    processEcall s = (s.mem, ecallPure (s.regs 17) (s.regs 10)) := by
  unfold processEcall ecallPure
  simp only [h4, if_false]
  repeat' split
  all_goals rfl

theorem processEcall_print (s : St) (h4 : s.regs 17 = 4) (cs : List Char)
    (h : (printStrLoop printStrFuel s.mem (s.regs 10) []).2 = .ok cs) :
    processEcall s =
      ((printStrLoop printStrFuel s.mem (s.regs 10) []).1, .out (String.ofList cs)) := by
  unfold processEcall
  simp only [h4]
  rcases hl : printStrLoop printStrFuel s.mem (s.regs 10) [] with ⟨m, r⟩
  rw [hl] at h
  simp only at h
  subst h
  simp

/-- `process_ecall` on related states: the same service result, the flat memory unchanged, the relation
    between the memory systems kept. -/
theorem processEcall_rel {sc sf : St} (h : CacheRel sc sf)
    (hp : sf.regs 17 = 4 → PrintOK sf.mem (sf.regs 10)) :
    (processEcall sc).2 = (processEcall sf).2 ∧ (processEcall sf).1 = sf.mem ∧
      MRel (processEcall sc).1 sf.mem := by
  have hr := h.regs
  by_cases h4 : sf.regs 17 = 4
  · obtain ⟨cs, hcs⟩ := hp h4
    obtain ⟨p1, p2, p3⟩ := printStr_rel _ _ _ _ _ cs h.mem hcs
    rw [processEcall_print sf h4 cs hcs,
      processEcall_print sc (by rw [hr]; exact h4) cs (by rw [hr]; exact p1)]
    rw [hr]
    exact ⟨rfl, p2, p3⟩
  · rw [processEcall_other sf h4, processEcall_other sc (by rw [hr]; exact h4), hr]
    exact ⟨rfl, rfl, h.mem⟩

/-! ### `behavior()` -/

/-- Related states in canonical form: the flat-side state is the cached-side state with other memory
    system, cycle, stall and flush counters. -/
theorem CacheRel.canon {sc sf : St} (h : CacheRel sc sf) :
    sf = { sc with mem := sf.mem, cycles := sf.cycles, stalls := sf.stalls, flushes := sf.flushes } := by
  obtain ⟨_, h1, h2, h3, h4, h5, h6, h7, h8⟩ := h
  cases sc; cases sf
  simp only at h1 h2 h3 h4 h5 h6 h7 h8
  subst h1 h2 h3 h4 h5 h6 h7 h8
  rfl

theorem CacheRel.of_canon (sc : St) (mf : MemSys) (c st fl : Nat) (hm : MRel sc.mem mf) :
    CacheRel sc { sc with mem := mf, cycles := c, stalls := st, flushes := fl } :=
  ⟨hm, rfl, rfl, rfl, rfl, rfl, rfl, rfl, rfl⟩

/-- Instructions that do not touch the data memory: `behavior()` commutes with replacing the memory
    system and the cycle / stall / flush counters. -/
theorem behavior_frame (i : Instr) (s : St) (mf : MemSys) (c st fl : Nat)
    (h1 : i.op.ty ≠ .memI) (h2 : i.op.ty ≠ .s) (h3 : i.op ≠ .ecall) :
    behavior i { s with mem := mf, cycles := c, stalls := st, flushes := fl } =
      { st := { (behavior i s).st with mem := mf, cycles := c, stalls := st, flushes := fl },
        fault := (behavior i s).fault } := by
  unfold behavior
  cases hty : i.op.ty <;> simp only [hty, ne_eq, not_true_eq_false, reduceCtorEq] at h1 h2 ⊢
  case b => split <;> rfl
  case u => split <;> rfl
  case i => simp only [h3, if_false]; repeat' split
            all_goals rfl
  all_goals rfl

/-- Instructions that do not touch the data memory leave the memory system alone. -/
theorem behavior_mem_other (i : Instr) (s : St)
    (h1 : i.op.ty ≠ .memI) (h2 : i.op.ty ≠ .s) (h3 : i.op ≠ .ecall) : (behavior i s).st.mem = s.mem := by
  unfold behavior
  cases hty : i.op.ty <;> simp only [hty, ne_eq, not_true_eq_false, reduceCtorEq] at h1 h2 ⊢
  case b => split <;> rfl
  case u => split <;> rfl
  case i => simp only [h3, if_false]; repeat' split
            all_goals rfl
  all_goals rfl

theorem ecall_ty {i : Instr} (h : i.op = .ecall) : i.op.ty = .i := by rw [h]; rfl

/-- `behavior()` on related states, when the data accesses of `i` are accepted: the same fault (none
    for loads and stores), and related states afterwards. -/
theorem behavior_rel (i : Instr) {sc sf : St} (h : CacheRel sc sf) (hacc : AccessOK i sf) :
    (behavior i sc).fault = (behavior i sf).fault ∧ CacheRel (behavior i sc).st (behavior i sf).st := by
  obtain ⟨hL, hS, hE⟩ := hacc
  obtain ⟨mf, c, st, fl, rfl⟩ : ∃ mf c st fl, sf =
      { sc with mem := mf, cycles := c, stalls := st, flushes := fl } := ⟨_, _, _, _, h.canon⟩
  have hm : MRel sc.mem mf := h.mem
  by_cases h1 : i.op.ty = .memI
  · obtain ⟨v, r1, r2, r3⟩ := hm.read (hL h1) true true
    simp only [behavior, h1, r1, r2]
    exact ⟨trivial, CacheRel.of_canon _ _ _ _ _ r3⟩
  by_cases h2 : i.op.ty = .s
  · have hv : sc.regs i.rs2 % 2 ^ accessBits i.op < 2 ^ accessBits i.op :=
      Nat.mod_lt _ (Nat.two_pow_pos _)
    obtain ⟨r1, r2, r3⟩ := hm.write (hS h2) hv
    simp only [behavior, h2, r1, r2]
    exact ⟨trivial, CacheRel.of_canon _ _ _ _ _ r3⟩
  by_cases h3 : i.op = .ecall
  · obtain ⟨p1, p2, p3⟩ := processEcall_rel h (hE h3)
    have hj : Op.ecall ≠ Op.jalr := by decide
    simp only [behavior, h3, hj, if_false, if_true]
    rcases hc : processEcall sc with ⟨mc', rc⟩
    rcases hf : processEcall { sc with mem := mf, cycles := c, stalls := st, flushes := fl } with ⟨mf', rf⟩
    rw [hc, hf] at p1
    rw [hf] at p2
    rw [hc] at p3
    simp only at p1 p2 p3
    subst p1 p2
    cases rc <;> exact ⟨rfl, CacheRel.of_canon _ _ _ _ _ p3⟩
  · rw [behavior_frame i sc mf c st fl h1 h2 h3]
    exact ⟨rfl, CacheRel.of_canon _ _ _ _ _ (by rw [behavior_mem_other i sc h1 h2 h3]; exact hm)⟩

/-! ### the part of `singleStep` after the fetch -/

theorem CacheRel.withMem {sc sf : St} (h : CacheRel sc sf) {mc mf : MemSys} (hm : MRel mc mf)
    (cc cf : Nat) :
    CacheRel { sc with mem := mc, cycles := cc } { sf with mem := mf, cycles := cf } :=
  ⟨hm, h.regs, h.pc, h.imem, h.output, h.exitCode, h.instrs, h.branches, h.procs⟩

theorem CacheRel.withPc {sc sf : St} (h : CacheRel sc sf) :
    CacheRel { sc with pc := (sc.pc + 4) % 4294967296 } { sf with pc := (sf.pc + 4) % 4294967296 } :=
  ⟨h.mem, h.regs, by show (sc.pc + 4) % 4294967296 = (sf.pc + 4) % 4294967296; rw [h.pc], h.imem,
    h.output, h.exitCode, h.instrs, h.branches, h.procs⟩

theorem behavior_load_nofault (i : Instr) (s : St) (hty : i.op.ty = .memI) (v : Nat)
    (hr : (s.mem.read (accessBits i.op) ((s.regs i.rs1 : Int) + i.imm) true).res = .ok v) :
    (behavior i s).fault = none := by
  simp only [behavior, hty, hr]

/-- `singleTail` of a load whose `behavior()` does not raise and whose display re-read succeeds. -/
theorem singleTail_load (i : Instr) (s : St) (hty : i.op.ty = .memI)
    (hf : (behavior i s).fault = none) (o : MaOut) (r : Option Int)
    (hma : memoryAccess i (some ((wrapU (s.regs i.rs1 : Int) : Int) + i.imm)) none (behavior i s).st.mem false
      = some o) (hres : o.res = .ok r) :
    singleTail i s =
      { st := { (behavior i s).st with mem := o.mem, cycles := (behavior i s).st.cycles + o.extra,
                                       pc := ((behavior i s).st.pc + 4) % 4294967296 },
        fault := none } := by
  simp only [singleTail, hf, hty, if_true, accessRegs, hma, hres]

theorem accepted_wrapU {bits : Nat} {r : Nat} {imm : Int} (h : Accepted bits ((r : Int) + imm)) :
    Accepted bits ((wrapU (r : Int) : Int) + imm) := by
  have e : wrap32 ((wrapU (r : Int) : Int) + imm) = wrap32 ((r : Int) + imm) := by
    unfold wrap32 wrapU; omega
  unfold Accepted at h ⊢
  rw [e]; exact h

/-- The part of a single-cycle step after the fetch, on related states, with accepted accesses: the
    same fault and related states afterwards.  For a load the display re-read is an accepted
    (uncounted) read through the cache again: it keeps the relation. -/
theorem singleTail_rel (i : Instr) {sc sf : St} (h : CacheRel sc sf) (hacc : AccessOK i sf) :
    (singleTail i sc).fault = (singleTail i sf).fault ∧
      CacheRel (singleTail i sc).st (singleTail i sf).st := by
  obtain ⟨hf, hb⟩ := behavior_rel i h hacc
  by_cases hty : i.op.ty = .memI
  · have hA := hacc.1 hty
    have hr := h.regs
    obtain ⟨v, r1, r2, _⟩ := h.mem.read hA true true
    have fc : (behavior i sc).fault = none := behavior_load_nofault i sc hty v (by rw [hr]; exact r1)
    have ff : (behavior i sf).fault = none := behavior_load_nofault i sf hty v (by rw [r2])
    have hA' : Accepted (accessBits i.op) ((sc.regs i.rs1 : Int) + i.imm) := by rw [hr]; exact hA
    obtain ⟨v', q1, q2, q3⟩ := hb.mem.read (accepted_wrapU hA') false false
    have mc := memoryAccess_load_ok i hty _ none _ false v' q1
    have mf := memoryAccess_load_ok i hty _ none _ false v' (by rw [q2])
    have hq : ((behavior i sf).st.mem.read (accessBits i.op) ((wrapU (sf.regs i.rs1 : Int) : Int) + i.imm)
        false).mem = (behavior i sf).st.mem := by rw [← hr, q2]
    have q3' := q3
    rw [← hq] at q3'
    rw [hr] at mf
    rw [singleTail_load i sc hty fc _ _ mc rfl, singleTail_load i sf hty ff _ _ mf rfl]
    refine ⟨rfl, ?_⟩
    exact (hb.withMem q3' _ _).withPc
  · rw [singleTail_nonLoad i sc hty, singleTail_nonLoad i sf hty, ← hf, h.pc]
    cases hfc : (behavior i sc).fault with
    | some ft => exact ⟨rfl, hb⟩
    | none => exact ⟨rfl, hb.withPc⟩

/-! ### one single-cycle step -/

/-- The state after the cycle tick, the instruction count and the fetch. -/
def afterFetch (s : St) : St :=
  { s with cycles := s.cycles + 1 + (s.imem.fetch s.pc).extra, instrs := s.instrs + 1,
           imem := (s.imem.fetch s.pc).imem }

theorem singleStep_unfold (s : St) :
    singleStep s =
      match s.imem.instrAt s.pc with
      | none => { st := { s with cycles := s.cycles + 1 }, fault := none }
      | some _ =>
        match (s.imem.fetch s.pc).res with
        | .error e => { st := afterFetch s, fault := some (s.pc, .mem e) }
        | .ok none => { st := afterFetch s, fault := some (s.pc, .notImplemented) }
        | .ok (some i) => singleTail i (afterFetch s) := by
  cases hi : s.imem.instrAt s.pc with
  | none => simp only [singleStep, hi]
  | some j =>
    cases hf : (s.imem.fetch s.pc).res with
    | error e => simp only [singleStep, hi, hf]; rfl
    | ok oi =>
      cases oi with
      | none => simp only [singleStep, hi, hf]; rfl
      | some i => simp only [singleStep, hi, hf]; rfl

theorem CacheRel.afterFetch {sc sf : St} (h : CacheRel sc sf) :
    CacheRel (afterFetch sc) (afterFetch sf) :=
  ⟨h.mem, h.regs, h.pc,
    by show (sc.imem.fetch sc.pc).imem = (sf.imem.fetch sf.pc).imem; rw [h.imem, h.pc],
    h.output, h.exitCode, by show sc.instrs + 1 = sf.instrs + 1; rw [h.instrs], h.branches, h.procs⟩

theorem accessOK_afterFetch {i : Instr} {s : St} (h : AccessOK i s) : AccessOK i (afterFetch s) := h

theorem fetched_some {s : St} {j i : Instr} (h1 : s.imem.instrAt s.pc = some j)
    (h2 : (s.imem.fetch s.pc).res = .ok (some i)) : fetched s = some i := by
  simp only [fetched, h1, h2]

/-- One single-cycle step on related states with accepted accesses: the same fault is reported (none,
    or one that does not involve the data memory: invalid ecall code, unsupported instruction, fetch
    error) and the states afterwards are related. -/
theorem singleStep_rel {sc sf : St} (h : CacheRel sc sf) (hacc : StepAccepted sf) :
    (singleStep sc).fault = (singleStep sf).fault ∧ CacheRel (singleStep sc).st (singleStep sf).st := by
  have hi' : sc.imem.instrAt sc.pc = sf.imem.instrAt sf.pc := by rw [h.imem, h.pc]
  have hf' : (sc.imem.fetch sc.pc).res = (sf.imem.fetch sf.pc).res := by rw [h.imem, h.pc]
  rw [singleStep_unfold sc, singleStep_unfold sf, hi', hf']
  cases hi : sf.imem.instrAt sf.pc with
  | none => exact ⟨rfl, h.withMem h.mem _ _⟩
  | some j =>
    simp only
    cases hf : (sf.imem.fetch sf.pc).res with
    | error e => exact ⟨by rw [h.pc], h.afterFetch⟩
    | ok oi =>
      cases oi with
      | none => exact ⟨by rw [h.pc], h.afterFetch⟩
      | some i => exact singleTail_rel i h.afterFetch (accessOK_afterFetch (hacc i (fetched_some hi hf)))

end ArchSim.Lemmas.C03Prog
