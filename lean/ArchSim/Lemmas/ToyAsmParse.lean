/-
TOY assembler front end: a line `<address mnemonic, any letter case> <numeral>` is tokenised
(`parseLine`) as that instruction with the numeral as its address operand.
-/
import ArchSim.Lemmas.ToyAsmNum

namespace ArchSim.ToyAsm
open ArchSim ArchSim.PP

deriving instance DecidableEq for ArchSim.PP.R

/-- all upper/lower-case spellings of an upper-case word -/
def caseVariants : List Char → List (List Char)
  | [] => [[]]
  | c :: cs => (caseVariants cs).flatMap fun v => [c :: v, toLowerAscii c :: v]

/-- every spelling of every address-type mnemonic, paired with the canonical mnemonic -/
def addrSpellings : List (List Char × String) :=
  addrMnemonics.flatMap fun s => (caseVariants s.toList).map fun v => (v, s)

def sortedAddr : List String := ["STO", "LDA", "BRZ", "ADD", "SUB", "AND", "XOR", "OR"]
def sortedNoAddr : List String := ["NOT", "INC", "DEC", "ZRO", "NOP"]

theorem mnemonic_lengths :
    "STO".length = 3 ∧ "LDA".length = 3 ∧ "BRZ".length = 3 ∧ "ADD".length = 3 ∧ "SUB".length = 3 ∧
    "OR".length = 2 ∧ "AND".length = 3 ∧ "XOR".length = 3 ∧ "NOT".length = 3 ∧ "INC".length = 3 ∧
    "DEC".length = 3 ∧ "ZRO".length = 3 ∧ "NOP".length = 3 := by decide

theorem longestFirst_addr : longestFirst addrMnemonics = sortedAddr := by
  obtain ⟨h1, h2, h3, h4, h5, h6, h7, h8, -, -, -, -, -⟩ := mnemonic_lengths
  simp [longestFirst, addrMnemonics, sortedAddr, List.mergeSort, h1, h2, h3, h4, h5, h6, h7, h8]

theorem longestFirst_noAddr : longestFirst noAddrMnemonics = sortedNoAddr := by
  obtain ⟨-, -, -, -, -, -, -, -, h9, h10, h11, h12, h13⟩ := mnemonic_lengths
  simp [longestFirst, noAddrMnemonics, sortedNoAddr, List.mergeSort, h9, h10, h11, h12, h13]

/-! ### the regex alternation only looks at a bounded prefix -/

theorem rePrefix_append (sym m rest : List Char) (h : sym.length ≤ m.length) :
    rePrefix sym (m ++ rest) = (rePrefix sym m).map (fun p => (p.1, p.2 ++ rest)) := by
  induction sym generalizing m with
  | nil => simp [rePrefix]
  | cons p ps ih =>
    cases m with
    | nil => simp at h
    | cons c cs =>
      simp only [List.length_cons] at h
      simp only [List.cons_append, rePrefix]
      by_cases hm : reCharMatch p c = true
      · simp only [hm, if_true]
        rw [ih cs (by omega)]
        cases rePrefix ps cs <;> rfl
      · simp [hm]

/-- appending to the unread rest of a scanner result -/
def R.extend {α : Type} (rest : Inp) : R α → R α
  | .fail => .fail
  | .abort => .abort
  | .ok a r => .ok a (r ++ rest)

theorem go_append (syms : List String) (m rest : List Char)
    (h : ∀ s ∈ syms, s.toList.length ≤ m.length) :
    oneOfCaseless.go (m ++ rest) syms = R.extend rest (oneOfCaseless.go m syms) := by
  induction syms with
  | nil => rfl
  | cons s ss ih =>
    simp only [oneOfCaseless.go]
    rw [rePrefix_append _ _ _ (h s (by simp))]
    cases hr : rePrefix s.toList m with
    | none => simpa using ih (fun x hx => h x (by simp [hx]))
    | some p =>
      simp only [Option.map_some]
      split <;> rfl

/-! ### the finite table of spellings -/

theorem sorted_lengths : (∀ s ∈ sortedAddr, s.toList.length ≤ 3) ∧ (∀ s ∈ sortedNoAddr, s.toList.length ≤ 3) := by
  decide

/-- What the scanners see on each spelling (followed by one blank). -/
theorem addrSpellings_table : ∀ p ∈ addrSpellings,
    oneOfCaseless.go (p.1 ++ [' ']) sortedAddr = .ok p.2 [' '] ∧
    oneOfCaseless.go (p.1 ++ [' ']) sortedNoAddr = .fail ∧
    3 ≤ (p.1 ++ [' ']).length ∧
    (∀ c ∈ p.1, isLabelBody c = true) ∧
    (∀ c, p.1.head? = some c → isLabelInit c = true ∧ isWs c = false ∧ c ≠ '.') ∧ p.1 ≠ [] := by
  decide

theorem isNum_facts (c : Char) (h : isNum c = true) :
    isWs c = false ∧ isLabelInit c = false ∧ c ≠ ':' ∧ c ≠ '.' := by
  have hws := isNum_not_ws c h
  simp only [isNum, Bool.and_eq_true, decide_eq_true_eq] at h
  have h1 : '0'.toNat ≤ c.toNat := h.1
  have h2 : c.toNat ≤ '9'.toNat := h.2
  have e0 : '0'.toNat = 48 := rfl
  have e9 : '9'.toNat = 57 := rfl
  refine ⟨hws, ?_, ?_, ?_⟩
  · have ea : 'a'.toNat = 97 := rfl
    have eA : 'A'.toNat = 65 := rfl
    have na : ¬ ('a' ≤ c) := by
      intro hle
      have : 'a'.toNat ≤ c.toNat := hle
      omega
    have nA : ¬ ('A' ≤ c) := by
      intro hle
      have : 'A'.toNat ≤ c.toNat := hle
      omega
    have nu : c ≠ '_' := by
      intro heq; subst heq; revert h2; decide
    simp [isLabelInit, isAlpha, na, nA, nu]
  · intro heq; subst heq; revert h2; decide
  · intro heq; subst heq; revert h1; decide

/-- A line consisting of an address mnemonic (any spelling), a blank and a value is tokenised as
    the instruction with that value as address operand. -/
theorem parseLine_addr_value (m : List Char) (s : String) (hp : (m, s) ∈ addrSpellings)
    (c : Char) (cs : List Char) (hc : isNum c = true) (val : String)
    (hval : pValue (' ' :: c :: cs) = .ok val []) :
    parseLine (m ++ ' ' :: c :: cs) = some (.instr none s (some val) none) := by
  obtain ⟨hgo1, hgo2, hlen, hbody, hhead, hne⟩ := addrSpellings_table (m, s) hp
  simp only at hgo1 hgo2 hlen hbody hhead hne
  obtain ⟨hcws, hcinit, hccolon, hcdot⟩ := isNum_facts c hc
  cases m with
  | nil => exact absurd rfl hne
  | cons m0 ms =>
    obtain ⟨hm0init, hm0ws, hm0dot⟩ := hhead m0 rfl
    have hline : (m0 :: ms) ++ ' ' :: c :: cs = m0 :: (ms ++ ' ' :: c :: cs) := rfl
    have hskip : skipWs (m0 :: (ms ++ ' ' :: c :: cs)) = m0 :: (ms ++ ' ' :: c :: cs) := by
      simp [skipWs, List.dropWhile, hm0ws]
    have hskip2 : skipWs (' ' :: c :: cs) = c :: cs := by
      have : isWs ' ' = true := by decide
      simp [skipWs, List.dropWhile, this, hcws]
    have hblank : ∀ x, (' ' :: c :: cs).head? = some x → isLabelBody x = false := by
      intro x hx; simp at hx; subst hx; decide
    -- the scanners on the whole line
    have hdir : pDirective (m0 :: (ms ++ ' ' :: c :: cs)) = .fail := by
      have e : ".".toList = ['.'] := by decide
      have : ¬ ('.' = m0) := fun h => hm0dot h.symm
      simp [pDirective, lit, hskip, e, stripPrefix, this, R.bind]
    have hlabel : pLabel (m0 :: (ms ++ ' ' :: c :: cs)) = .ok (String.ofList (m0 :: ms)) (' ' :: c :: cs) := by
      simp only [pLabel, word, hskip, wordAdj, hm0init, if_true]
      rw [takeWhile_all_append isLabelBody ms _ (fun x hx => hbody x (by simp [hx])) hblank,
        dropWhile_all_append isLabelBody ms _ (fun x hx => hbody x (by simp [hx])) hblank]
    have hcolon : pColon (' ' :: c :: cs) = .fail := by
      have e : ":".toList = [':'] := by decide
      have : ¬ (':' = c) := fun h => hccolon h.symm
      simp [pColon, lit, hskip2, e, stripPrefix, this]
    have hdecl : pLabelDecl (m0 :: (ms ++ ' ' :: c :: cs)) = .fail := by
      simp [pLabelDecl, hlabel, R.bind, hcolon, R.map]
    have hvar : pVarDecl (m0 :: (ms ++ ' ' :: c :: cs)) = .fail := by
      simp [pVarDecl, hlabel, R.bind, hcolon]
    have hone : oneOfCaseless addrMnemonics (m0 :: (ms ++ ' ' :: c :: cs)) = .ok s (' ' :: c :: cs) := by
      have := go_append sortedAddr ((m0 :: ms) ++ [' ']) (c :: cs)
        (fun x hx => Nat.le_trans (sorted_lengths.1 x hx) hlen)
      rw [hgo1] at this
      simp only [oneOfCaseless, hskip, longestFirst_addr]
      simpa [R.extend] using this
    have hnone : oneOfCaseless noAddrMnemonics (m0 :: (ms ++ ' ' :: c :: cs)) = .fail := by
      have := go_append sortedNoAddr ((m0 :: ms) ++ [' ']) (c :: cs)
        (fun x hx => Nat.le_trans (sorted_lengths.2 x hx) hlen)
      rw [hgo2] at this
      simp only [oneOfCaseless, hskip, longestFirst_noAddr]
      simpa [R.extend] using this
    have hlabel2 : pLabel (' ' :: c :: cs) = .fail := by
      simp [pLabel, word, hskip2, wordAdj, hcinit]
    have haddr : pAddrInstr none (m0 :: (ms ++ ' ' :: c :: cs)) =
        .ok (.instr none s (some val) none) [] := by
      simp [pAddrInstr, hone, R.bind, orLongest, hval, hlabel2, R.map]
    have hnoaddr : pNoAddrInstr none (m0 :: (ms ++ ' ' :: c :: cs)) = .fail := by
      simp [pNoAddrInstr, hnone, R.map]
    have hinstr : pInstruction (m0 :: (ms ++ ' ' :: c :: cs)) =
        .ok (.instr none s (some val) none) [] := by
      simp [pInstruction, opt, hdecl, R.bind, orLongest, haddr, hnoaddr]
    rw [hline]
    simp [parseLine, orLongest, hdir, hvar, hinstr, hdecl, R.map, atEnd, skipWs]

/-- … with a decimal numeral of at most 4300 digits. -/
theorem parseLine_addr_dec (m : List Char) (s : String) (hp : (m, s) ∈ addrSpellings)
    (ds : List Char) (hne : ds ≠ []) (hnum : ∀ c ∈ ds, isNum c = true) (hlen : ds.length ≤ 4300) :
    parseLine (m ++ ' ' :: ds) = some (.instr none s (some (String.ofList ds)) none) := by
  cases ds with
  | nil => exact absurd rfl hne
  | cons c cs =>
    have hv := pValue_dec [' '] (c :: cs) [] (by decide) (by simp) hnum hlen (by simp)
    simp only [List.append_nil, List.singleton_append] at hv
    exact parseLine_addr_value m s hp c cs (hnum c (by simp)) _ hv

/-- … with a `0x` numeral of any length. -/
theorem parseLine_addr_hex (m : List Char) (s : String) (hp : (m, s) ∈ addrSpellings)
    (hs : List Char) (hne : hs ≠ []) (hhex : ∀ c ∈ hs, isHexNum c = true) :
    parseLine (m ++ ' ' :: '0' :: 'x' :: hs) =
      some (.instr none s (some ("0x" ++ String.ofList hs)) none) := by
  have hv := pValue_hex [' '] hs [] (by decide) hne hhex (by simp)
  simp only [List.append_nil, List.singleton_append] at hv
  exact parseLine_addr_value m s hp '0' ('x' :: hs) (by decide) _ hv

end ArchSim.ToyAsm
