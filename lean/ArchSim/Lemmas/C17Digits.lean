/-
C17 helper lemmas, part 1: digit strings produced by `Fmt.natStr` / `Fmt.padLeft` read back (with the
independent reader of `Spec/Digits.lean`) as the number they were produced from.
-/
import ArchSim.Model.Fmt
import ArchSim.Spec.Digits

namespace ArchSim.Lemmas.C17
open ArchSim.Fmt ArchSim.Spec.Digits

/-! ### single digits -/

theorem digitVal_digitChar : ∀ d < 16, digitVal (digitChar d) = some d := by decide

theorem digitChar_ne_space : ∀ d < 16, digitChar d ≠ ' ' := by decide

theorem digitChar_upperHex : ∀ d < 16, isUpperHexDigit (digitChar d) := by decide

theorem digitChar_eq_zero_iff : ∀ d < 16, (digitChar d = '0' ↔ d = 0) := by decide

theorem digitVal_space : digitVal ' ' = none := by decide
theorem digitVal_minus : digitVal '-' = none := by decide
theorem digitVal_zero : digitVal '0' = some 0 := by decide

/-! ### Horner evaluation -/

/-- Value of a digit list given least significant digit first. -/
def valRev (base : Nat) : List Nat → Nat
  | [] => 0
  | d :: ds => d + base * valRev base ds

theorem ofDigitsAux_append (base acc : Nat) (s t : List Char) :
    ofDigitsAux base acc (s ++ t) = (ofDigitsAux base acc s).bind (fun v => ofDigitsAux base v t) := by
  induction s generalizing acc with
  | nil => simp [ofDigitsAux]
  | cons c cs ih =>
    simp only [List.cons_append, ofDigitsAux]
    cases digitVal c with
    | none => simp
    | some d =>
      by_cases h : d < base
      · simp [h, ih]
      · simp [h]

theorem ofDigits_eq_aux (base : Nat) (s : List Char) (h : s ≠ []) :
    ofDigits base s = ofDigitsAux base 0 s := by
  cases s with
  | nil => exact absurd rfl h
  | cons c cs => rfl

/-- Reading the reversed, character-mapped digit list gives its value. -/
theorem ofDigitsAux_reverse_map (base : Nat) (hb : base ≤ 16) (ds : List Nat)
    (hds : ∀ d ∈ ds, d < base) :
    ofDigitsAux base 0 (ds.reverse.map digitChar) = some (valRev base ds) := by
  induction ds with
  | nil => simp [ofDigitsAux, valRev]
  | cons d ds ih =>
    have hd : d < base := hds d (by simp)
    have ih' := ih (fun x hx => hds x (by simp [hx]))
    simp only [List.reverse_cons, List.map_append, List.map_cons, List.map_nil,
      ofDigitsAux_append, ih', Option.bind_some, ofDigitsAux,
      digitVal_digitChar d (by omega), hd, if_true, valRev]
    congr 1
    rw [Nat.mul_comm]; omega

/-- Zeros in front do not change the value. -/
theorem ofDigitsAux_replicate_zero (base : Nat) (hb : 0 < base) (k : Nat) (s : List Char) :
    ofDigitsAux base 0 (List.replicate k '0' ++ s) = ofDigitsAux base 0 s := by
  induction k with
  | zero => simp
  | succ k ih =>
    simp only [List.replicate_succ, List.cons_append, ofDigitsAux, digitVal_zero, hb, if_true]
    simpa using ih

/-! ### `digitsRev` -/

theorem digitsRev_lt (base : Nat) (hb : 0 < base) (fuel n : Nat) :
    ∀ d ∈ digitsRev base fuel n, d < base := by
  induction fuel generalizing n with
  | zero => simp [digitsRev]
  | succ fuel ih =>
    unfold digitsRev
    split
    · simp
    · intro d hd
      rcases List.mem_cons.mp hd with rfl | hd
      · exact Nat.mod_lt _ hb
      · exact ih _ d hd

theorem valRev_digitsRev (base : Nat) (hb : 2 ≤ base) (fuel n : Nat) (hf : n < fuel) :
    valRev base (digitsRev base fuel n) = n := by
  induction fuel generalizing n with
  | zero => omega
  | succ fuel ih =>
    unfold digitsRev
    split
    · next h => simp [valRev, h]
    · next h =>
      have hlt : n / base < n := Nat.div_lt_self (by omega) hb
      simp only [valRev]
      rw [ih (n / base) (by omega)]
      exact Nat.mod_add_div n base

theorem digitsRev_length_le (base : Nat) (hb : 0 < base) (fuel n w : Nat) (hn : n < base ^ w) :
    (digitsRev base fuel n).length ≤ w := by
  induction fuel generalizing n w with
  | zero => simp [digitsRev]
  | succ fuel ih =>
    unfold digitsRev
    split
    · simp
    · next h =>
      cases w with
      | zero => simp at hn; omega
      | succ w =>
        have : n / base < base ^ w := by
          rw [Nat.div_lt_iff_lt_mul hb]
          simpa [Nat.pow_succ] using hn
        have := ih (n / base) w this
        simp only [List.length_cons]; omega

theorem digitsRev_ne_nil (base fuel n : Nat) (hn : n ≠ 0) (hf : n < fuel) :
    digitsRev base fuel n ≠ [] := by
  cases fuel with
  | zero => omega
  | succ fuel => unfold digitsRev; simp [hn]

/-- The most significant digit produced is not zero. -/
theorem digitsRev_getLast_ne_zero (base : Nat) (hb : 2 ≤ base) (fuel n : Nat) (hf : n < fuel) :
    ∀ d ∈ (digitsRev base fuel n).getLast?, d ≠ 0 := by
  induction fuel generalizing n with
  | zero => omega
  | succ fuel ih =>
    unfold digitsRev
    split
    · simp
    · next h =>
      have hlt : n / base < n := Nat.div_lt_self (by omega) hb
      by_cases hq : n / base = 0
      · have hfu : digitsRev base fuel (n / base) = [] := by
          rw [hq]; cases fuel <;> simp [digitsRev]
        have hnb : n < base := by
          rcases Nat.lt_or_ge n base with h' | h'
          · exact h'
          · have := (Nat.div_pos_iff (a := n) (b := base)).mpr ⟨by omega, h'⟩; omega
        simp only [hfu, List.getLast?_singleton, Option.mem_def, Option.some.injEq]
        intro d hd; subst hd
        rw [Nat.mod_eq_of_lt hnb]; exact h
      · have hne := digitsRev_ne_nil base fuel (n / base) hq (by omega)
        rw [List.getLast?_cons_of_ne_nil hne]
        exact ih (n / base) (by omega)

/-! ### `natStr` -/

theorem natStr_ne_nil (base n : Nat) : natStr base n ≠ [] := by
  unfold natStr
  split
  · simp
  · next h => simpa using digitsRev_ne_nil base (n + 1) n h (by omega)

/-- **Round trip**: `natStr base m` read in base `base` is `m`, for every `m`. -/
theorem ofDigits_natStr (base : Nat) (hb : 2 ≤ base) (hb' : base ≤ 16) (m : Nat) :
    ofDigits base (natStr base m) = some m := by
  rw [ofDigits_eq_aux _ _ (natStr_ne_nil base m)]
  unfold natStr
  split
  · next h => subst h; simp [ofDigitsAux, digitVal_zero]; omega
  · rw [ofDigitsAux_reverse_map base hb' _ (digitsRev_lt base (by omega) _ _),
      valRev_digitsRev base hb _ _ (by omega)]

theorem natStr_length_le (base : Nat) (hb : 0 < base) (m w : Nat) (hw : 1 ≤ w) (hm : m < base ^ w) :
    (natStr base m).length ≤ w := by
  unfold natStr
  split
  · simpa using hw
  · simpa using digitsRev_length_le base hb (m + 1) m w hm

/-- Every character of `natStr` is the character of a digit below the base. -/
theorem natStr_mem (base : Nat) (hb : 0 < base) (m : Nat) :
    ∀ c ∈ natStr base m, ∃ d < base, c = digitChar d := by
  unfold natStr
  split
  · intro c hc
    refine ⟨0, hb, ?_⟩
    simp at hc; subst hc; decide
  · intro c hc
    simp only [List.mem_map, List.mem_reverse] at hc
    obtain ⟨d, hd, rfl⟩ := hc
    exact ⟨d, digitsRev_lt base hb _ _ d hd, rfl⟩

/-- No leading zero, except for the number zero itself. -/
theorem natStr_head_ne_zero (base : Nat) (hb : 2 ≤ base) (hb' : base ≤ 16) (m : Nat) (hm : m ≠ 0) :
    (natStr base m).head? ≠ some '0' := by
  unfold natStr
  rw [if_neg hm, List.head?_map, List.head?_reverse]
  intro hc
  cases hl : (digitsRev base (m + 1) m).getLast? with
  | none => simp [hl] at hc
  | some d =>
    have hd0 := digitsRev_getLast_ne_zero base hb (m + 1) m (by omega) d (by simp [hl])
    have hdb := digitsRev_lt base (by omega) (m + 1) m d (List.mem_of_getLast? hl)
    simp only [hl, Option.map_some, Option.some.injEq] at hc
    exact hd0 ((digitChar_eq_zero_iff d (by omega)).mp hc)

theorem natStr_zero (base : Nat) : natStr base 0 = ['0'] := by simp [natStr]

/-! ### `padLeft` -/

theorem padLeft_length_eq (w : Nat) (s : List Char) (h : s.length ≤ w) : (padLeft w s).length = w := by
  simp [padLeft]; omega

theorem padLeft_ne_nil (w : Nat) (s : List Char) (h : s ≠ []) : padLeft w s ≠ [] := by
  simp [padLeft, h]

theorem ofDigits_padLeft (base : Nat) (hb : 0 < base) (w : Nat) (s : List Char) (h : s ≠ []) :
    ofDigits base (padLeft w s) = ofDigits base s := by
  rw [ofDigits_eq_aux _ _ (padLeft_ne_nil w s h), ofDigits_eq_aux _ _ h]
  exact ofDigitsAux_replicate_zero base hb _ s

theorem padLeft_mem (w : Nat) (s : List Char) : ∀ c ∈ padLeft w s, c = '0' ∨ c ∈ s := by
  intro c hc
  simp only [padLeft, List.mem_append, List.mem_replicate] at hc
  rcases hc with ⟨_, rfl⟩ | hc
  · exact Or.inl rfl
  · exact Or.inr hc

/-- **Padded round trip**: exactly `w` digits that read back as `m`, for every `m < base ^ w`. -/
theorem padded_natStr (base : Nat) (hb : 2 ≤ base) (hb' : base ≤ 16) (w m : Nat) (hw : 1 ≤ w)
    (hm : m < base ^ w) :
    ofDigits base (padLeft w (natStr base m)) = some m ∧ (padLeft w (natStr base m)).length = w := by
  constructor
  · rw [ofDigits_padLeft base (by omega) w _ (natStr_ne_nil base m), ofDigits_natStr base hb hb' m]
  · exact padLeft_length_eq w _ (natStr_length_le base (by omega) m w hw hm)

theorem padded_natStr_mem (base : Nat) (hb : 0 < base) (w m : Nat) :
    ∀ c ∈ padLeft w (natStr base m), ∃ d < base, c = digitChar d := by
  intro c hc
  rcases padLeft_mem w _ c hc with rfl | hc
  · exact ⟨0, hb, by decide⟩
  · exact natStr_mem base hb m c hc

theorem padded_natStr_no_space (base : Nat) (hb : 0 < base) (hb' : base ≤ 16) (w m : Nat) :
    ' ' ∉ padLeft w (natStr base m) := by
  intro hc
  obtain ⟨d, hd, h⟩ := padded_natStr_mem base hb w m ' ' hc
  exact digitChar_ne_space d (by omega) h.symm

theorem padded_natStr_upperHex (base : Nat) (hb : 0 < base) (hb' : base ≤ 16) (w m : Nat) :
    ∀ c ∈ padLeft w (natStr base m), isUpperHexDigit c := by
  intro c hc
  obtain ⟨d, hd, rfl⟩ := padded_natStr_mem base hb w m c hc
  exact digitChar_upperHex d (by omega)

/-! ### signed decimal -/

theorem parseSigned_of_ofDigits (s : List Char) (v : Nat) (h : ofDigits 10 s = some v) :
    parseSigned s = some (v : Int) := by
  unfold parseSigned
  split
  · next cs =>
    simp [ofDigits, ofDigitsAux, digitVal_minus] at h
  · simp [h]

theorem parseSigned_minus (cs : List Char) (v : Nat) (h : ofDigits 10 cs = some v) :
    parseSigned ('-' :: cs) = some (-(v : Int)) := by
  simp [parseSigned, h]

/-- **Signed round trip**: `intStr x` parses back to `x`, for every integer `x`. -/
theorem parseSigned_intStr (x : Int) : parseSigned (intStr x) = some x := by
  unfold intStr
  split
  · next h =>
    rw [parseSigned_minus _ _ (ofDigits_natStr 10 (by omega) (by omega) _)]
    congr 1; omega
  · next h =>
    rw [parseSigned_of_ofDigits _ _ (ofDigits_natStr 10 (by omega) (by omega) _)]
    congr 1; omega

end ArchSim.Lemmas.C17
