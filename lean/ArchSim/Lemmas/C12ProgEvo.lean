/-
C12 (memory table, program level), part 4: WRITE-BACK.  How one cache primitive changes the pair
(resident blocks, stored cells of the backing memory): `Evo s s'` — no stored cell is ever removed,
and a block that stops being resident has been written back in full, so that all its bytes are
stored cells afterwards.
-/
import ArchSim.Lemmas.C12ProgWT

namespace ArchSim.Lemmas.C12Prog
open ArchSim ArchSim.Cache ArchSim.Mem ArchSim.Spec.ByteStore ArchSim.Lemmas.C18 ArchSim.Spec.CacheAbs
open ArchSim.Lemmas.C03 ArchSim.Lemmas.C12

variable {σ : Type} {P : PolicyOps σ} {WFp : σ → Prop}

/-- From `s` to `s'` no stored cell of the backing memory disappears, and every address that was
    resident is still resident or is now a stored cell of the backing memory. -/
def Evo (s s' : DSys σ) : Prop :=
  KeysSub s.mem s'.mem ∧
    ∀ a, resident s a = true → resident s' a = true ∨ ((wrap32 a : Nat) : Int) ∈ s'.mem.keys

theorem Evo.refl (s : DSys σ) : Evo s s := ⟨KeysSub.refl _, fun _ h => Or.inl h⟩

theorem Evo.trans {a b c : DSys σ} (h1 : Evo a b) (h2 : Evo b c) : Evo a c := by
  refine ⟨h1.1.trans h2.1, fun x hx => ?_⟩
  rcases h1.2 x hx with h | h
  · exact h2.2 x h
  · exact Or.inr (h2.1 _ h)

/-- Same geometry, same backing memory, same lookup function: nothing changed that `Evo` sees. -/
theorem Evo.of_lookup_eq (s s' : DSys σ) (hg : s'.geo = s.geo) (hm : s'.mem = s.mem)
    (hl : ∀ k t, lookup s'.sets k t = lookup s.sets k t) : Evo s s' := by
  refine ⟨by rw [hm]; exact KeysSub.refl _, fun a ha => Or.inl ?_⟩
  unfold resident at ha ⊢
  rw [hg, hl]; exact ha

theorem resident_congr (s s' : DSys σ) (hg : s'.geo = s.geo)
    (hl : ∀ k t, lookup s'.sets k t = lookup s.sets k t) (a : Int) : resident s' a = resident s a := by
  unfold resident
  rw [hg, hl]

/-- Installing a block (as `putBlock_spec`), seen through `Evo`: with the displaced block written
    back (`m'`), every state carrying the new sets and `m'` evolves from `s`, and the block of
    `addr` is resident in it. -/
theorem putBlock_evo {s : DSys σ} (hP : PolicyOK P s.geo.assoc WFp) (hs : CInv WFp s) (addr : Int)
    (hin : inData addr) (vals : List Nat) (hlen : vals.length = 2 ^ s.geo.blkBits)
    (hlt : ∀ x, x ∈ vals → x < 4294967296) (sets2 : List (CSet σ Nat)) (hit : Bool)
    (displaced : Option (Nat × List Nat))
    (hwb : writeBlock P s.sets (dec s addr) vals = .ok (sets2, hit, displaced)) :
    ∃ m', (displaced = none → m' = s.mem) ∧
      (∀ b ws, displaced = some (b, ws) → writeBlockToMem s.mem b ws 0 = (m', none)) ∧
      ∀ s3 : DSys σ, s3.geo = s.geo → s3.sets = sets2 → s3.mem = m' →
        Evo s s3 ∧ resident s3 addr = true := by
  have hk : (dec s addr).setIdx < 2 ^ s.geo.idxBits := decode_setIdx_lt _ _ _
  have hrange := decode_range s.geo.idxBits s.geo.blkBits addr hs.geo.blk hin
  have hnew : WayOK s.geo (dec s addr).setIdx ⟨true, true, (dec s addr).tag, (dec s addr).blockBase, vals⟩ :=
    ⟨rfl, fun _ => (decode_base _ _ _).symm, fun _ => hrange.1, fun _ => hrange.2, fun _ => hlen,
     fun _ => hlt⟩
  obtain ⟨sets', old, hw, _, hold_ok, _, hhit, hl⟩ :=
    writeBlock_spec hP hs.sets (dec s addr) hk vals hnew
  rw [hwb] at hw
  have e1 : sets2 = sets' := by injection hw with h; injection h
  have e3 : displaced = if (lookup s.sets (dec s addr).setIdx (dec s addr).tag).isSome then none
      else if old.valid = true then some (old.base, old.vals) else none := by
    injection hw with h; injection h with _ h; injection h
  subst e1
  have hmOK := CInvS_memOK hs.toCInvS
  -- residency in a state with the new sets
  have hres : ∀ s3 : DSys σ, s3.geo = s.geo → s3.sets = sets2 → ∀ a,
      resident s3 a = (if (dec s a).setIdx = (dec s addr).setIdx ∧ (dec s a).tag = (dec s addr).tag
        then true
        else if (dec s a).setIdx = (dec s addr).setIdx ∧ old.valid = true ∧ (dec s a).tag = old.tag
        then false else resident s a) := by
    intro s3 hg hsets a
    unfold resident
    rw [hg, hsets, hl]
    split
    · rfl
    · split <;> rfl
  by_cases hc : (lookup s.sets (dec s addr).setIdx (dec s addr).tag).isSome = false ∧ old.valid = true
  · -- a valid block is displaced and written back
    have hlen' := hold_ok.len hc.2
    have hhi := hold_ok.hi hc.2
    rw [pow_blk] at hhi
    obtain ⟨m', w1, _, _, _⟩ := writeBlockToMem_ok hmOK old.base old.vals 0 (hold_ok.lo hc.2)
      (by rw [hlen']; omega)
    have hd : displaced = some (old.base, old.vals) := by
      rw [e3, hc.1, if_neg (by decide), if_pos hc.2]
    refine ⟨m', fun h => (by rw [hd] at h; cases h), fun b ws h => ?_, fun s3 hg hsets hmem => ?_⟩
    · rw [hd] at h; cases h; exact w1
    · have hsub : KeysSub s.mem s3.mem := by
        have := writeBlockToMem_keysSub s.mem old.base old.vals 0
        rw [w1] at this; rw [hmem]; exact this
      refine ⟨⟨hsub, fun a ha => ?_⟩, by rw [hres s3 hg hsets addr, if_pos ⟨rfl, rfl⟩]⟩
      rw [hres s3 hg hsets a]
      by_cases c1 : (dec s a).setIdx = (dec s addr).setIdx ∧ (dec s a).tag = (dec s addr).tag
      · rw [if_pos c1]; exact Or.inl rfl
      · rw [if_neg c1]
        by_cases c2 : (dec s a).setIdx = (dec s addr).setIdx ∧ old.valid = true ∧ (dec s a).tag = old.tag
        · right
          have hwa := addr_in_way hold_ok hc.2 a c2.1 c2.2.2
          rw [hwa, hmem]
          have := writeBlockToMem_keys hmOK old.base old.vals 0 (hold_ok.lo hc.2)
            (by rw [hlen']; omega) m' w1 (dec s a).blockOff (dec s a).byteOff
            (by rw [hlen']; exact decode_blockOff_lt _ _ _) (decode_byteOff_lt _ _ _)
          rw [Nat.zero_add] at this
          exact this
        · rw [if_neg c2]; exact Or.inl ha
  · -- hit, or the victim is invalid: nothing is displaced
    have hd : displaced = none := by
      rw [e3]
      cases h1 : (lookup s.sets (dec s addr).setIdx (dec s addr).tag).isSome with
      | true => rfl
      | false =>
        cases h2 : old.valid with
        | false => simp
        | true => exact absurd ⟨h1, h2⟩ hc
    refine ⟨s.mem, fun _ => rfl, fun b ws h => (by rw [hd] at h; cases h), fun s3 hg hsets hmem => ?_⟩
    refine ⟨⟨by rw [hmem]; exact KeysSub.refl _, fun a ha => ?_⟩,
      by rw [hres s3 hg hsets addr, if_pos ⟨rfl, rfl⟩]⟩
    rw [hres s3 hg hsets a]
    by_cases c1 : (dec s a).setIdx = (dec s addr).setIdx ∧ (dec s a).tag = (dec s addr).tag
    · rw [if_pos c1]; exact Or.inl rfl
    · rw [if_neg c1]
      by_cases c2 : (dec s a).setIdx = (dec s addr).setIdx ∧ old.valid = true ∧ (dec s a).tag = old.tag
      · exfalso
        cases h1 : (lookup s.sets (dec s addr).setIdx (dec s addr).tag).isSome with
        | true => exact c1 ⟨c2.1, c2.2.2.trans (hhit h1).2⟩
        | false => exact hc ⟨h1, c2.2.1⟩
      · rw [if_neg c2]; exact Or.inl ha

end ArchSim.Lemmas.C12Prog
