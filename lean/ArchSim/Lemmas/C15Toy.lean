/-
C15 — TOY assembler: the shape of every error of every pass.
-/
import ArchSim.Lemmas.C15Asm

namespace ArchSim.Lemmas.C15.Toy
open ArchSim ArchSim.PP ArchSim.ToyAsm ArchSim.Lemmas.C15

/-! ### tokenize -/

theorem tokenize_err {xs : List (Nat × List Char)} {e : AsmErr} (h : tokenize xs = .error e) :
    ∃ k l, (k, l) ∈ xs ∧ e = .parser "ParserSyntaxException" k (String.ofList l) := by
  induction xs with
  | nil => simp [tokenize] at h
  | cons x rest ih =>
    obtain ⟨k, l⟩ := x
    unfold tokenize at h
    split at h
    · cases h; exact ⟨k, l, by simp, rfl⟩
    · split at h
      · cases h
        rename_i e' he
        obtain ⟨k', l', hm, rfl⟩ := ih he
        exact ⟨k', l', by simp [hm], rfl⟩
      · cases h

theorem tokenize_ok {xs : List (Nat × List Char)} {es : List Entry} (h : tokenize xs = .ok es) :
    ∀ x ∈ es, ∃ l, (x.1, l) ∈ xs ∧ x.2.1 = String.ofList l := by
  induction xs generalizing es with
  | nil => simp [tokenize] at h; subst h; simp
  | cons x rest ih =>
    obtain ⟨k, l⟩ := x
    unfold tokenize at h
    split at h
    · cases h
    · split at h
      · cases h
      · cases h
        rename_i es' he
        intro x hx
        rcases List.mem_cons.1 hx with rfl | hx
        · exact ⟨l, by simp, rfl⟩
        · obtain ⟨l', hm, h2⟩ := ih he x hx
          exact ⟨l', by simp [hm], h2⟩

/-! ### segment -/

def segInit (first : Entry) (rest : List Entry) : Seg :=
  if isDir "data" first then { data := rest, text := [], dataExists := true, textExists := false }
  else if isDir "text" first then { data := [], text := rest, dataExists := false, textExists := true }
  else { data := [], text := first :: rest, dataExists := false, textExists := true }

def segStep (acc : Except AsmErr Seg) (e : Entry) : Except AsmErr Seg :=
  match acc with
  | .error x => .error x
  | .ok s =>
    if isDir "data" e then
      if !s.dataExists then
        let idx := idxOfLine e.1 s.text
        .ok { s with dataExists := true, data := s.text.drop (idx + 1), text := s.text.take idx }
      else .error (.parser "ParserDirectiveException" e.1 e.2.1)
    else if isDir "text" e then
      if !s.textExists then
        let idx := idxOfLine e.1 s.data
        .ok { s with textExists := true, text := s.data.drop (idx + 1), data := s.data.take idx }
      else .error (.parser "ParserDirectiveException" e.1 e.2.1)
    else .ok s

theorem segment_cons (first : Entry) (rest : List Entry) :
    segment (first :: rest) =
      match rest.foldl segStep (.ok (segInit first rest)) with
      | .error x => .error x
      | .ok s => .ok (s.data, s.text) := rfl

/-- Invariant of the `_segment` loop over the entries `toks`. -/
def SegInv (toks : List Entry) : Except AsmErr Seg → Prop
  | .error e => ∃ x ∈ toks, e = .parser "ParserDirectiveException" x.1 x.2.1
  | .ok s => (∀ x ∈ s.data, x ∈ toks) ∧ (∀ x ∈ s.text, x ∈ toks)

theorem segStep_inv (toks : List Entry) (acc : Except AsmErr Seg) (e : Entry) (he : e ∈ toks)
    (h : SegInv toks acc) : SegInv toks (segStep acc e) := by
  unfold segStep
  split
  · exact h
  · rename_i s
    obtain ⟨hd, ht⟩ := h
    split
    · split
      · exact ⟨fun x hx => ht x (List.mem_of_mem_drop hx), fun x hx => ht x (List.mem_of_mem_take hx)⟩
      · exact ⟨e, he, rfl⟩
    · split
      · split
        · exact ⟨fun x hx => hd x (List.mem_of_mem_take hx), fun x hx => hd x (List.mem_of_mem_drop hx)⟩
        · exact ⟨e, he, rfl⟩
      · exact ⟨hd, ht⟩

theorem segment_inv (toks : List Entry) :
    match segment toks with
    | .error e => ∃ x ∈ toks, e = .parser "ParserDirectiveException" x.1 x.2.1
    | .ok (d, t) => (∀ x ∈ d, x ∈ toks) ∧ (∀ x ∈ t, x ∈ toks) := by
  cases toks with
  | nil => simp [segment]
  | cons first rest =>
    rw [segment_cons]
    have h0 : SegInv (first :: rest) (.ok (segInit first rest)) := by
      unfold segInit
      split
      · exact ⟨fun x hx => by simp [hx], fun x hx => by simp at hx⟩
      · split
        · exact ⟨fun x hx => by simp at hx, fun x hx => by simp [hx]⟩
        · exact ⟨fun x hx => by simp at hx, fun x hx => hx⟩
    have := foldl_inv segStep (SegInv (first :: rest)) rest _ h0
      (fun b a ha hb => segStep_inv _ b a (by simp [ha]) hb)
    revert this
    cases rest.foldl segStep (.ok (segInit first rest)) with
    | error e => exact id
    | ok s => exact id

theorem segment_err {toks : List Entry} {e : AsmErr} (h : segment toks = .error e) :
    ∃ x ∈ toks, e = .parser "ParserDirectiveException" x.1 x.2.1 := by
  have := segment_inv toks
  rw [h] at this
  exact this

theorem segment_ok {toks d t : List Entry} (h : segment toks = .ok (d, t)) :
    (∀ x ∈ d, x ∈ toks) ∧ (∀ x ∈ t, x ∈ toks) := by
  have := segment_inv toks
  rw [h] at this
  exact this

/-! ### labels -/

theorem addLabel_err {ls : Labels} {n : String} {v : Int} {k : Nat} {line : String} {e : AsmErr}
    (h : addLabel ls n v k line = .error e) : e = .parser "DuplicateLabelException" k line := by
  unfold addLabel at h
  split at h
  · cases h; rfl
  · cases h

theorem processLabels_err {es : List Entry} {ls : Labels} {pc : Nat} {e : AsmErr}
    (h : processLabels es ls pc = .error e) :
    ∃ x ∈ es, e = .parser "DuplicateLabelException" x.1 x.2.1 := by
  induction es generalizing ls pc with
  | nil => simp [processLabels] at h
  | cons x rest ih =>
    obtain ⟨k, line, st⟩ := x
    have here : ∀ {n v}, addLabel ls n v k line = .error e →
        ∃ x ∈ (k, line, st) :: rest, e = .parser "DuplicateLabelException" x.1 x.2.1 :=
      fun h' => ⟨(k, line, st), by simp, addLabel_err h'⟩
    have there : ∀ {l a}, processLabels rest l a = .error e →
        ∃ x ∈ (k, line, st) :: rest, e = .parser "DuplicateLabelException" x.1 x.2.1 := by
      intro l a h'
      obtain ⟨y, hy, h2⟩ := ih h'
      exact ⟨y, by simp [hy], h2⟩
    unfold processLabels at h
    split at h
    · split at h
      · rename_i e' he'; cases h; exact here he'
      · exact there h
    · split at h
      · rename_i e' he'; cases h; exact here he'
      · exact there h
    · exact there h
    · exact there h

/-! ### data -/

/-- number of data words declared by the entries of the data segment -/
def dataWords : List Entry → Nat
  | [] => 0
  | (_, _, .varDecl _ vals) :: rest => vals.length + dataWords rest
  | _ :: rest => dataWords rest

theorem writeData_ok {data : List Entry} {o : DataOut} (h : (writeData data o).err = none) :
    o.err = none ∧ (writeData data o).last = o.last - (dataWords data : Int) := by
  induction data generalizing o with
  | nil => simp [writeData, dataWords] at h ⊢; exact h
  | cons x rest ih =>
    obtain ⟨k, line, st⟩ := x
    unfold writeData at h ⊢
    split at h
    · rename_i name vals
      simp only at h ⊢
      split at h
      · cases h
      · rename_i hwa
        rw [if_neg hwa]
        split at h
        · cases h
        · rename_i ls hls
          obtain ⟨h1, h2⟩ := ih h
          refine ⟨h1, ?_⟩
          rw [h2]
          simp only [dataWords]
          omega
    · cases h

theorem writeData_err {data : List Entry} {o : DataOut} {e : AsmErr}
    (h : (writeData data o).err = some e) :
    o.err = some e ∨
    (∃ x ∈ data, e = .parser "ParserDataSyntaxException" x.1 x.2.1 ∨
                 e = .parser "DuplicateLabelException" x.1 x.2.1) ∨
    (e = .memSize 4096 ∧ o.last + 1 < (dataWords data : Int)) := by
  induction data generalizing o with
  | nil => left; exact h
  | cons x rest ih =>
    obtain ⟨k, line, st⟩ := x
    unfold writeData at h
    split at h
    · rename_i name vals
      simp only at h
      split at h
      · rename_i hwa
        cases h
        right; right
        refine ⟨rfl, ?_⟩
        simp only [dataWords]; omega
      · rename_i hwa
        split at h
        · rename_i e' he'
          cases h
          right; left
          exact ⟨_, List.mem_cons_self, .inr (addLabel_err he')⟩
        · rcases ih h with h1 | ⟨x, hx, h2⟩ | ⟨h3, h4⟩
          · left; exact h1
          · right; left; exact ⟨x, by simp [hx], h2⟩
          · right; right
            refine ⟨h3, ?_⟩
            simp only [dataWords] at h4 ⊢; omega
    · cases h
      right; left
      exact ⟨_, List.mem_cons_self, .inl rfl⟩

/-! ### instructions -/

theorem buildInstrs_err {es : List Entry} {ls : Labels} {e : AsmErr}
    (h : buildInstrs es ls = .error e) :
    ∃ x ∈ es, e = .parser "ParserDataSyntaxException" x.1 x.2.1 ∨
              e = .parser "ParserLabelException" x.1 x.2.1 := by
  induction es with
  | nil => simp [buildInstrs] at h
  | cons x rest ih =>
    obtain ⟨k, line, st⟩ := x
    have there : buildInstrs rest ls = .error e →
        ∃ x ∈ (k, line, st) :: rest, e = .parser "ParserDataSyntaxException" x.1 x.2.1 ∨
              e = .parser "ParserLabelException" x.1 x.2.1 := by
      intro h'
      obtain ⟨y, hy, h2⟩ := ih h'
      exact ⟨y, by simp [hy], h2⟩
    unfold buildInstrs at h
    split at h
    · cases h; exact ⟨_, List.mem_cons_self, .inl rfl⟩
    · simp only at h
      split at h
      · rename_i e' he'
        cases h
        refine ⟨_, List.mem_cons_self, .inr ?_⟩
        repeat' split at he'
        all_goals first | (cases he'; done) | (cases he'; rfl)
      · split at h
        · rename_i e' he'; cases h; exact there he'
        · cases h
    · exact there h

/-- Which pass produced the error of `ToyAsm.load`. -/
theorem load_err_cases (t : ArchSim.Toy.TSim) (text : String) {e : AsmErr} (h : (ToyAsm.load t text).2 = some e) :
    tokenize (sanitize text) = .error e ∨
    ∃ toks, tokenize (sanitize text) = .ok toks ∧
      (segment toks = .error e ∨
       ∃ data text', segment toks = .ok (data, text') ∧
         (processLabels toks [] 0 = .error e ∨
          ∃ ls, processLabels toks [] 0 = .ok ls ∧
            ∃ d, d = writeData data { mem := ({} : ArchSim.Toy.TSt).mem, labels := ls, last := 4095, err := none } ∧
            (d.err = some e ∨
             (d.err = none ∧
              (buildInstrs text' d.labels = .error e ∨
               ∃ is, buildInstrs text' d.labels = .ok is ∧ (is.length : Int) - 1 > d.last ∧
                 e = .memSize 4096))))) := by
  unfold ToyAsm.load at h
  simp only at h
  split at h
  · rename_i e' he'; cases h; exact .inl he'
  · rename_i toks htoks
    refine .inr ⟨toks, htoks, ?_⟩
    split at h
    · rename_i e' he'; cases h; exact .inl he'
    · rename_i data text' hseg
      refine .inr ⟨data, text', hseg, ?_⟩
      split at h
      · rename_i e' he'; cases h; exact .inl he'
      · rename_i ls hls
        refine .inr ⟨ls, hls, _, rfl, ?_⟩
        split at h
        · rename_i e' he'; cases h; exact .inl he'
        · rename_i hnone
          refine .inr ⟨hnone, ?_⟩
          split at h
          · rename_i e' he'; cases h; exact .inl he'
          · rename_i is his
            split at h
            · rename_i hlen; cases h; exact .inr ⟨is, his, hlen, rfl⟩
            · cases h

/-- `(k, line)` is one of the sanitized lines of `text`. -/
def Src (text : String) (k : Nat) (line : String) : Prop :=
  ∃ l, (k, l) ∈ sanitize text ∧ line = String.ofList l

theorem Src.lineOf {text : String} {k : Nat} {line : String} (h : Src text k line) : LineOf text k line := by
  obtain ⟨l, hm, rfl⟩ := h
  rw [toy_sanitize_eq] at hm
  exact sanitize_mem hm

/-- All the parser-error kinds the TOY model can produce. -/
def toyKinds : List String :=
  ["ParserSyntaxException", "ParserDirectiveException", "DuplicateLabelException",
   "ParserDataSyntaxException", "ParserLabelException"]

/-- The shape of every outcome of `ToyAsm.load`. -/
theorem load_err_shape (t : ArchSim.Toy.TSim) (text : String) {e : AsmErr} (h : (ToyAsm.load t text).2 = some e) :
    (∃ k line kind, Src text k line ∧ kind ∈ toyKinds ∧ e = .parser kind k line) ∨
    (e = .memSize 4096 ∧ ∃ toks data text', tokenize (sanitize text) = .ok toks ∧
        segment toks = .ok (data, text') ∧
        (4096 < dataWords data ∨
         ∃ ls is, buildInstrs text' ls = .ok is ∧ 4096 < dataWords data + is.length)) := by
  rcases load_err_cases t text h with h | ⟨toks, htoks, h⟩
  · obtain ⟨k, l, hm, rfl⟩ := tokenize_err h
    exact .inl ⟨k, _, _, ⟨l, hm, rfl⟩, by simp [toyKinds], rfl⟩
  have hsrc : ∀ x ∈ toks, Src text x.1 x.2.1 := fun x hx => tokenize_ok htoks x hx
  rcases h with h | ⟨data, text', hseg, h⟩
  · obtain ⟨x, hx, rfl⟩ := segment_err h
    exact .inl ⟨_, _, _, hsrc x hx, by simp [toyKinds], rfl⟩
  obtain ⟨hdata, htext⟩ := segment_ok hseg
  rcases h with h | ⟨ls, -, d, hd, h⟩
  · obtain ⟨x, hx, rfl⟩ := processLabels_err h
    exact .inl ⟨_, _, _, hsrc x hx, by simp [toyKinds], rfl⟩
  rcases h with h | ⟨hnone, h⟩
  · rw [hd] at h
    rcases writeData_err h with h | ⟨x, hx, h | h⟩ | ⟨h1, h2⟩
    · cases h
    · exact .inl ⟨_, _, _, hsrc x (hdata x hx), by simp [toyKinds], h⟩
    · exact .inl ⟨_, _, _, hsrc x (hdata x hx), by simp [toyKinds], h⟩
    · refine .inr ⟨h1, toks, data, text', htoks, hseg, .inl ?_⟩
      simp only at h2; omega
  rcases h with h | ⟨is, his, hlen, rfl⟩
  · obtain ⟨x, hx, h | h⟩ := buildInstrs_err h
    · exact .inl ⟨_, _, _, hsrc x (htext x hx), by simp [toyKinds], h⟩
    · exact .inl ⟨_, _, _, hsrc x (htext x hx), by simp [toyKinds], h⟩
  · refine .inr ⟨rfl, toks, data, text', htoks, hseg, .inr ⟨_, is, his, ?_⟩⟩
    rw [hd] at hnone hlen
    have := (writeData_ok hnone).2
    rw [this] at hlen
    simp only at hlen
    omega

end ArchSim.Lemmas.C15.Toy
