/-
C03 (program level), part 5: the relation holds at power-on (after any `.data` preload), and the
instruction `singleStep` executes when there is no instruction cache.
-/
import ArchSim.Lemmas.C03ProgRun

namespace ArchSim.Lemmas.C03Prog
open ArchSim ArchSim.Cache ArchSim.Mem ArchSim.Rv ArchSim.Spec.CacheAbs ArchSim.Spec.TagCache
open ArchSim.Spec.ByteStore

/-- The freshly constructed cache system (any admissible geometry, LRU or PLRU with a suitable
    associativity, write-back or write-through, any miss penalty) after the parser's `.data` preloads
    `h` represents the flat memory after the same preloads. -/
theorem crep_preload (g : Geo) (hg : GeoOK g) (l : Bool) (ha : ArchSim.Lemmas.C09.AssocOK l g.assoc)
    (wt : Bool) (penalty : Nat) (h : List Spec.ByteStore.Op) :
    CRep l (preload (DSys.init (polOps l) wt g penalty (Mem.empty riscvCfg)) h) (run riscvCfg h) := by
  have hP := ArchSim.Lemmas.C03.pol_ok l g.assoc ha.1 ha.2
  obtain ⟨h1, hm, h3⟩ := ArchSim.Props.C03.preload_inv (P := polOps l) g hg hP wt penalty h
  obtain ⟨_, e2, e3, _⟩ :=
    ArchSim.Lemmas.C03.preload_spec (DSys.init (polOps l) wt g penalty (Mem.empty riscvCfg)) h
  have e3' : (preload (DSys.init (polOps l) wt g penalty (Mem.empty riscvCfg)) h).geo = g := e3
  have i9 := ArchSim.Lemmas.C09.Inv_init (P := polOps l) (ok := Repl.Pol.WF g.assoc)
    (g := g) ⟨hg.bits, hg.blk, hg.assoc⟩ (ArchSim.Lemmas.C09.polOps_ok ha) wt penalty
    (Mem.empty riscvCfg) rfl
  refine ⟨by rw [e3']; exact h1, ?_, by rw [e3']; exact ha, ArchSim.Lemmas.C03.MemOK_run h, fun a => ?_⟩
  · rw [e3']
    exact ⟨by rw [e3']; exact i9.geo, by rw [e2, e3']; exact i9.nsets,
      by rw [e2, e3']; exact i9.sets, by rw [hm]; exact (ArchSim.Lemmas.C03.MemOK_run h).cfg⟩
  · rw [h3 a, ArchSim.Lemmas.C18.run_eq, ArchSim.Lemmas.C18.applyCells_cells]
    rfl

/-- Two states that differ only in the data memory (cache system after preloads vs flat memory after
    the same preloads) and in the cycle / stall / flush counters are related. -/
theorem cacheRel_init (s : St) (g : Geo) (hg : GeoOK g) (l : Bool)
    (ha : ArchSim.Lemmas.C09.AssocOK l g.assoc) (wt : Bool) (penalty : Nat)
    (h : List Spec.ByteStore.Op) (c st fl : Nat) :
    CacheRel
      { s with mem := .cached l (preload (DSys.init (polOps l) wt g penalty (Mem.empty riscvCfg)) h) }
      { s with mem := .flat (run riscvCfg h), cycles := c, stalls := st, flushes := fl } :=
  ⟨⟨l, _, _, rfl, rfl, crep_preload g hg l ha wt penalty h⟩, rfl, rfl, rfl, rfl, rfl, rfl, rfl, rfl⟩

/-- Without instruction cache (and a program that fits the instruction memory) the instruction
    `singleStep` executes is the one stored at pc. -/
theorem fetched_uncached (s : St) (hc : s.imem.cache = none) (hl : s.imem.prog.length ≤ 4096) :
    fetched s = s.imem.instrAt s.pc := by
  unfold fetched
  cases hi : s.imem.instrAt s.pc with
  | none => rfl
  | some i =>
    have hb := hi
    unfold IMem.instrAt at hb
    split at hb
    · rename_i hpc
      have hlt : (s.pc / 4).toNat < s.imem.prog.length := by
        rcases Nat.lt_or_ge (s.pc / 4).toNat s.imem.prog.length with h | h
        · exact h
        · rw [List.getElem?_eq_none h] at hb; cases hb
      have h1 : s.pc < 16384 := by omega
      rw [ArchSim.Lemmas.C02Split.fetch_uncached s.imem s.pc i hc hi hpc.1 h1]
    · cases hb

end ArchSim.Lemmas.C03Prog
