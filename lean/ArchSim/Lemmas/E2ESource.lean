/-
End-to-end, part 7: the source-level form of the "supported" side condition. If no line of the source text is
tokenized with one of the mnemonics `ebreak`, `fence`, `csrrw`, `csrrs`, `csrrc`, `csrrwi`, `csrrsi`, `csrrci`, then
every operation of the stored program is in the supported set.
-/
import ArchSim.Lemmas.E2ELoad

namespace ArchSim.Lemmas.E2E
open ArchSim ArchSim.PP ArchSim.Rv ArchSim.Asm ArchSim.Lemmas.C14

/-- the mnemonics outside the supported set -/
def unsupMn : List String := ["ebreak", "fence"] ++ csrMn ++ csriMn

/-- the item does not carry an unsupported mnemonic (`itemMnemonic`: the bare word, or the mnemonic of the tree) -/
def ItemSup (it : Item) : Prop := ∀ m, itemMnemonic it = some m → m ∉ unsupMn

/-- the line is not tokenized with an unsupported mnemonic -/
def LineSupported (l : List Char) : Prop := ∀ t, parseLine l = some t → ItemSup t.item

/-- SOURCE-LEVEL CONDITION: no line of the text (after comment stripping) uses `ebreak`, `fence` or a CSR mnemonic. -/
def SourceSupported (text : String) : Prop := ∀ p ∈ sanitize text, LineSupported p.2

theorem sup_tables : ∀ mn ∈ rrrMn ++ uMn ++ bMn ++ memIMn ++ sMn ++ normalIMn,
    (Op.ofMnemonic mn).all Op.supported = true := by decide

theorem sup_of {mn : String} {op : Op} (hm : mn ∈ rrrMn ++ uMn ++ bMn ++ memIMn ++ sMn ++ normalIMn)
    (ho : Op.ofMnemonic mn = some op) : op.supported = true := by
  have := sup_tables mn hm
  rw [ho] at this
  exact this

theorem mem_sup {mn : String} :
    (mn ∈ rrrMn ∨ mn ∈ uMn ∨ mn ∈ bMn ∨ mn ∈ memIMn ++ sMn ∨ mn ∈ normalIMn ++ memIMn ++ bMn ++ sMn) →
    mn ∈ rrrMn ++ uMn ++ bMn ++ memIMn ++ sMn ++ normalIMn := by
  intro h
  simp only [List.mem_append] at h ⊢
  rcases h with h | h | h | (h | h) | (((h | h) | h) | h) <;> simp [h]

theorem csr_unsup : ∀ mn ∈ csrMn ++ csriMn, mn ∈ unsupMn := by decide

/-- What `instantiate` builds from a tree of the grammar without an unsupported mnemonic is supported. -/
theorem instantiate_supported (ls : Labels) (addr : Int) (k : Nat) (line : String) (pi : PInstr) (i : Instr)
    (hg : GrammarForm pi) (hsup : ItemSup (.grp pi)) (h : instantiate ls addr k line pi = .ok i) :
    i.op.supported = true := by
  cases pi with
  | rtype mn a b c =>
    cases ho : Op.ofMnemonic mn with
    | none => simp [instantiate, ho] at h
    | some op =>
      simp only [instantiate, ho, Except.ok.injEq] at h
      subst h
      exact sup_of (mem_sup (.inl hg.1)) ho
  | utype mn a v =>
    cases ho : Op.ofMnemonic mn with
    | none => simp [instantiate, ho] at h
    | some op =>
      simp only [instantiate, ho, Except.ok.injEq] at h
      subst h
      exact sup_of (mem_sup (.inr (.inl hg.1))) ho
  | mem mn a v b =>
    cases ho : Op.ofMnemonic mn with
    | none => simp [instantiate, ho] at h
    | some op =>
      have hs := sup_of (mem_sup (.inr (.inr (.inr (.inl hg.1))))) ho
      simp only [instantiate, ho] at h
      split at h
      · cases h; exact hs
      · cases h; exact hs
      · cases h; exact hs
      · cases h; exact hs
      · split at h
        · cases h
        · cases h; exact hs
      · cases h
  | rri mn a b v =>
    cases ho : Op.ofMnemonic mn with
    | none => simp [instantiate, ho] at h
    | some op =>
      have hs := sup_of (mem_sup (.inr (.inr (.inr (.inr hg.1))))) ho
      simp only [instantiate, ho] at h
      split at h
      · cases h; exact hs
      · cases h; exact hs
      · cases h; exact hs
      · cases h; exact hs
      · split at h
        · cases h
        · cases h; exact hs
      · cases h
  | btypeLabel mn a b l off =>
    cases ho : Op.ofMnemonic mn with
    | none => simp [instantiate, ho] at h
    | some op =>
      have hs := sup_of (mem_sup (.inr (.inr (.inl hg.1)))) ho
      simp only [instantiate, ho] at h
      split at h
      · cases h
      · cases h; exact hs
  | jalImm a v =>
    simp only [instantiate] at h
    split at h
    · cases h
    · cases h; rfl
  | jalLabel a l off =>
    simp only [instantiate] at h
    split at h
    · cases h
    · cases h; rfl
  | csr mn a c b => exact absurd (csr_unsup mn (List.mem_append_left _ hg.1)) (hsup mn rfl)
  | csri mn a c u => exact absurd (csr_unsup mn (List.mem_append_right _ hg.1)) (hsup mn rfl)
  | fence a b => exact absurd (by decide) (hsup "fence" rfl)
  | memPseudo _ _ _ _ => simp only [instantiate] at h; cases h
  | sPseudo _ _ _ _ _ => simp only [instantiate] at h; cases h
  | li _ _ => simp only [instantiate] at h; cases h
  | mv _ _ => simp only [instantiate] at h; cases h

/-- The program built from trees of the grammar without unsupported mnemonics is in the supported set. -/
theorem buildInstrs_supported (ls : Labels) (es : List TEntry) : ∀ (addr : Int) (prog : List Instr),
    GrammarEntries es → (∀ e ∈ es, ItemSup e.2.2) → buildInstrs ls es addr = .ok prog →
    ∀ i ∈ prog, i.op.supported = true := by
  induction es with
  | nil =>
    intro addr prog _ _ h i hi
    simp only [buildInstrs, Except.ok.injEq] at h
    subst h; cases hi
  | cons e rest ih =>
    obtain ⟨k, line, it⟩ := e
    intro addr prog hg hs h
    have hg' : GrammarEntries rest := fun e he => hg e (List.mem_cons_of_mem _ he)
    have hs' : ∀ e ∈ rest, ItemSup e.2.2 := fun e he => hs e (List.mem_cons_of_mem _ he)
    have hs0 : ItemSup it := hs _ List.mem_cons_self
    cases it with
    | str s =>
      simp only [buildInstrs] at h
      by_cases h1 : s = "ecall"
      · simp only [h1, if_true] at h
        obtain ⟨tl, htl, rfl⟩ := map_ok_inv h
        intro i hi
        rcases List.mem_cons.mp hi with rfl | hi
        · rfl
        · exact ih _ _ hg' hs' htl i hi
      · by_cases h2 : s = "ebreak"
        · subst h2
          exact absurd (by decide) (hs0 "ebreak" rfl)
        · simp only [if_neg h1, if_neg h2] at h
          exact ih _ _ hg' hs' h
    | grp pi =>
      simp only [buildInstrs] at h
      cases hi0 : instantiate ls addr k line pi with
      | error x => rw [hi0] at h; cases h
      | ok i0 =>
        rw [hi0] at h
        obtain ⟨tl, htl, rfl⟩ := map_ok_inv h
        intro i hi
        rcases List.mem_cons.mp hi with rfl | hi
        · exact instantiate_supported ls addr k line pi _ (hg _ List.mem_cons_self pi rfl) hs0 hi0
        · exact ih _ _ hg' hs' htl i hi
    | varDecl n t v => simp only [buildInstrs] at h; cases h
    | strDecl n b => simp only [buildInstrs] at h; cases h
    | zeroDecl n c => simp only [buildInstrs] at h; cases h
    | directive d => simp only [buildInstrs] at h; cases h

theorem sup_lui (a : Nat) (v : Int) : ItemSup (.grp (.utype "lui" a v)) := by
  intro m hm; cases hm; show "lui" ∉ unsupMn; decide

theorem sup_addi (a b : Nat) (v : Int) : ItemSup (.grp (.rri "addi" a b v)) := by
  intro m hm; cases hm; show "addi" ∉ unsupMn; decide

/-- pseudo-instruction expansion introduces no unsupported mnemonic -/
theorem expandOne_sup (vars : Vars) (e : TEntry) (g : List TEntry) (he : ItemSup e.2.2)
    (h : expandOne vars e = .ok g) : ∀ x ∈ g, ItemSup x.2.2 := by
  obtain ⟨k, line, it⟩ := e
  unfold expandOne at h
  simp only at h
  split at h
  · cases h
    intro x hx
    simp only [List.mem_singleton] at hx
    subst hx; exact sup_addi _ _ _
  · split at h
    · cases h
      intro x hx
      simp only [List.mem_cons, List.not_mem_nil, or_false] at hx
      rcases hx with rfl | rfl
      · exact sup_lui _ _
      · exact sup_addi _ _ _
    · cases h
      intro x hx
      simp only [List.mem_singleton] at hx
      subst hx; exact sup_addi _ _ _
  · next mn r1 v idx =>
    have hmn : mn ∉ unsupMn := he mn rfl
    split at h
    · cases h
    · split at h
      · cases h
        intro x hx
        simp only [List.mem_cons, List.not_mem_nil, or_false] at hx
        rcases hx with rfl | rfl
        · exact sup_lui _ _
        · exact sup_addi _ _ _
      · cases h
        intro x hx
        simp only [List.cons_append, List.nil_append, List.mem_cons, List.not_mem_nil, or_false] at hx
        rcases hx with rfl | rfl | rfl
        · exact sup_lui _ _
        · exact sup_addi _ _ _
        · intro m hm; cases hm; exact hmn
  · next mn r1 v idx r2 =>
    have hmn : mn ∉ unsupMn := he mn rfl
    split at h
    · cases h
    · cases h
      intro x hx
      simp only [List.mem_cons, List.not_mem_nil, or_false] at hx
      rcases hx with rfl | rfl | rfl
      · exact sup_lui _ _
      · exact sup_addi _ _ _
      · intro m hm; cases hm; exact hmn
  · cases h
    intro x hx
    simp only [List.mem_singleton] at hx
    subst hx; exact sup_addi _ _ _
  · cases h
    intro x hx
    simp only [List.mem_singleton] at hx
    subst hx; exact he

theorem expandAll_sup (vars : Vars) (es : List TEntry) : ∀ (R : List TEntry),
    (∀ e ∈ es, ItemSup e.2.2) → expandAll vars es = .ok R → ∀ x ∈ R, ItemSup x.2.2 := by
  induction es with
  | nil =>
    intro R _ h x hx
    simp only [expandAll, Except.ok.injEq] at h
    subst h; cases hx
  | cons e rest ih =>
    intro R hes h x hx
    simp only [expandAll] at h
    cases hg : expandOne vars e with
    | error y => rw [hg] at h; cases h
    | ok g =>
      rw [hg] at h
      simp only at h
      cases hr : expandAll vars rest with
      | error y => rw [hr] at h; cases h
      | ok more =>
        rw [hr] at h
        simp only [Except.ok.injEq] at h
        subst h
        rcases List.mem_append.mp hx with hx | hx
        · exact expandOne_sup vars e g (hes e List.mem_cons_self) hg x hx
        · exact ih more (fun e' he' => hes e' (List.mem_cons_of_mem _ he')) hr x hx

theorem tokenize_sup (nl : List (Nat × List Char)) (hnl : ∀ p ∈ nl, LineSupported p.2) :
    ∀ (es : List Entry), tokenize nl = .ok es → ∀ e ∈ es, ItemSup e.2.2.item := by
  induction nl with
  | nil =>
    intro es h e he
    simp only [tokenize, Except.ok.injEq] at h
    subst h; cases he
  | cons p rest ih =>
    obtain ⟨k, l⟩ := p
    intro es h e he
    simp only [tokenize] at h
    cases hp : parseLine l with
    | none => rw [hp] at h; cases h
    | some t =>
      rw [hp] at h
      simp only at h
      cases ht : tokenize rest with
      | error x => rw [ht] at h; cases h
      | ok es' =>
        rw [ht] at h
        simp only [Except.ok.injEq] at h
        subst h
        rcases List.mem_cons.mp he with rfl | he
        · exact hnl (k, l) List.mem_cons_self t hp
        · exact ih (fun p hp' => hnl p (List.mem_cons_of_mem _ hp')) es' ht e he

/-- SOURCE-LEVEL VERSION: a successfully loaded text none of whose lines uses `ebreak`, `fence` or a CSR mnemonic
    stores a program in the supported set. -/
theorem load_supported_of_source (s : St) (text : String) (h : (load s text).err = none)
    (hsrc : SourceSupported text) : AllSupported (load s text).st.imem.prog := by
  rw [C05.load_factors] at h ⊢
  cases htok : tokenize (sanitize text) with
  | error e => rw [htok] at h; simp at h
  | ok toks =>
    rw [htok] at h
    simp only at h ⊢
    cases hseg : segment toks with
    | error e => rw [hseg] at h; simp at h
    | ok p =>
      obtain ⟨data, text'⟩ := p
      rw [hseg] at h
      simp only at h ⊢
      obtain ⟨vars, expanded, ls, hexp, hb, hlen⟩ := loadSeg_ok_prog _ data text' h
      have hmem := segment_text_mem toks data text' hseg
      have hform := expandAll_form vars _ expanded (by
        intro e he
        obtain ⟨x, hx, rfl⟩ := List.mem_map.mp he
        exact tokenize_form _ toks htok x (hmem x hx)) hexp
      have hsup := expandAll_sup vars _ expanded (by
        intro e he
        obtain ⟨x, hx, rfl⟩ := List.mem_map.mp he
        exact tokenize_sup _ hsrc toks htok x (hmem x hx)) hexp
      exact buildInstrs_supported ls expanded 0 _ (fun e he pi hpi => hform e he pi hpi) hsup hb

end ArchSim.Lemmas.E2E
