/-
C04 (spelling independence, part 2), error case 5: two texts with the same entry texts load to the same result up
to the line number of the reported error, which moves along the order-preserving correspondence of the entries.
-/
import ArchSim.Lemmas.C04SpellErr4

namespace ArchSim.Lemmas.C04Spell
open ArchSim ArchSim.PP ArchSim.Asm ArchSim.Rv

/-- the line numbers of the entries of a source text, in order -/
def entryLines (text : String) : List Nat := (sanitize text).map (·.1)

theorem entryLines_length (t1 t2 : String) (h : entryTexts t1 = entryTexts t2) :
    (entryLines t1).length = (entryLines t2).length := by
  have hsnd : (sanitize t1).map (·.2) = (sanitize t2).map (·.2) := by
    rw [sanitize_texts, sanitize_texts]; exact h
  have := congrArg List.length hsnd
  simpa [entryLines] using this

/-- The general form of "comments, blank lines and indentation never change the result": there is an injective
    renumbering `g` that sends the line number of the j-th entry of `t1` to that of the j-th entry of `t2`, and
    loading `t2` gives the result of loading `t1` with the error (if any) renumbered by `g`. -/
theorem load_same_entries_ren (s : St) (t1 t2 : String) (h : entryTexts t1 = entryTexts t2) :
    ∃ g : Nat → Nat, (∀ a b, g a = g b → a = b) ∧ (entryLines t1).map g = entryLines t2 ∧
      load s t2 = renOut g (load s t1) := by
  have hsnd : (sanitize t1).map (·.2) = (sanitize t2).map (·.2) := by
    rw [sanitize_texts, sanitize_texts]; exact h
  have hlen := entryLines_length t1 t2 h
  have hnd2 := nodup_of_sorted _ (sanitize_sorted t2)
  have hnd1 := nodup_of_sorted _ (sanitize_sorted t1)
  let big := (entryLines t2).sum + 1
  let g := remap (entryLines t1) (entryLines t2) big
  have hg : ∀ a b, g a = g b → a = b :=
    remap_injective _ _ big hlen hnd2 (fun k hk => by have := le_sum_of_mem _ k hk; omega)
  have hmap : (entryLines t1).map g = entryLines t2 := remap_map _ _ big hlen hnd1
  refine ⟨g, hg, hmap, load_ren s t1 t2 g hg ?_⟩
  apply pairs_ext
  · rw [List.map_map]
    have : ((fun x : Nat × List Char => x.1) ∘ renL g) = g ∘ (fun x => x.1) := by funext x; rfl
    rw [this, ← List.map_map]
    exact hmap.symm
  · rw [List.map_map]
    have : ((fun x : Nat × List Char => x.2) ∘ renL g) = (fun x => x.2) := by funext x; rfl
    rw [this, hsnd]

theorem renOut_st (g : Nat → Nat) (o : LoadOut) : (renOut g o).st = o.st := rfl
theorem renOut_err (g : Nat → Nat) (o : LoadOut) : (renOut g o).err = o.err.map (renErr g) := rfl

end ArchSim.Lemmas.C04Spell
