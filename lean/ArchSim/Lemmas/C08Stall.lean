/-
C08 helper lemmas, part 1: with hazard detection off no ID stall (`k = 1`) is ever started, the
`stalls` counter counts EX (ecall-drain) stalls only, and `step` never changes the `hazard` flag.
Core Lean only.
-/
import ArchSim.Lemmas.C07Book

namespace ArchSim.Lemmas.C08
open ArchSim ArchSim.Rv ArchSim.Pipe ArchSim.Lemmas.C02Split ArchSim.Lemmas.C07

/-- No decode-stage stall is in progress: a recorded stall, if any, belongs to the EX stage. -/
def NoIdStall (p : PSt) : Prop := ∀ st, p.stalled = some st → st.k = 2

theorem noIdStall_init (s : St) (hz : Bool) : NoIdStall (PSt.init s hz) := by
  intro st h; simp [PSt.init] at h

theorem latchStall_idStage_off (regs : Nat → Nat) (inp l1 l2 : Option Latch) :
    latchStall (idStage false regs inp l1 l2) = false := by
  cases inp <;> simp [idStage, latchStall, idStall]

theorem nID_no_stall (p : PSt) (h : p.hazard = false) : latchStall (nID p) = false := by
  unfold nID; rw [h]; exact latchStall_idStage_off ..

/-- Without an ID stall signal the stall pick-up can only choose the EX stage. -/
theorem pickStall_off (old : Option Stall) (n1 n2 : Option Latch) (h : latchStall n1 = false) :
    pickStall old n1 n2 = none ∨ pickStall old n1 n2 = some 2 := by
  unfold pickStall
  simp only [h, Bool.false_and, Bool.false_eq_true, if_false]
  cases old <;> simp only <;> split <;> simp

theorem stalled1_k2 (p : PSt) (n1 n2 : Option Latch) (h1 : latchStall n1 = false) (hp : NoIdStall p)
    (st : Stall) (h : stalled1 p n1 n2 = some st) : st.k = 2 := by
  rcases pickStall_off p.stalled n1 n2 h1 with hk | hk
  · rw [stalled1_none p n1 n2 hk] at h; exact hp st h
  · rw [stalled1_some p n1 n2 2 hk] at h
    simp at h; subst h
    unfold stallPicked; cases p.stalled <;> rfl

theorem finishStep_noIdStall (p : PSt) (s : St) (n0 n1 n2 n3 n4 : Option Latch)
    (h1 : latchStall n1 = false) (hp : NoIdStall p) : NoIdStall (finishStep p s n0 n1 n2 n3 n4) := by
  intro st hst
  obtain ⟨st1, h1', h2', _⟩ := countDown_some _ _ (finishStep_stalled_some p s n0 n1 n2 n3 n4 st hst)
  have := stalled1_k2 p n1 n2 h1 hp st1 h1'
  rw [h2']; exact this

/-- With hazard detection off, one step never starts a decode stall. -/
theorem step_noIdStall (p : PSt) (hz : p.hazard = false) (hp : NoIdStall p) : NoIdStall (step p).p := by
  rw [step_eq]
  cases h1 : (exO p).fault with
  | some f => exact hp
  | none =>
    cases h2 : (meO p).fault with
    | some f => exact hp
    | none => exact finishStep_noIdStall p _ _ _ _ _ _ (nID_no_stall p hz) hp

theorem step_hazard (p : PSt) : (step p).p.hazard = p.hazard := by
  rw [step_eq]
  cases h1 : (exO p).fault with
  | some f => rfl
  | none =>
    cases h2 : (meO p).fault with
    | some f => rfl
    | none => exact (finishStep_frame _ _ _ _ _ _ _).2.2.2.2.2.2.2.2.2

/-! ### The `stalls` counter -/

theorem sIF_stalls (p : PSt) : (sIF p).stalls = p.st.stalls := by
  unfold sIF
  cases p.stalled with
  | none => simp only [(ifStage_frame _).2.2.2.2.2.2.2.1]; rfl
  | some st => rfl

theorem meO_stalls (p : PSt) : (meO p).st.stalls = p.st.stalls := by
  unfold meO exO sWB
  rw [(memStage_frame _ _).2.2.2.2.2.2.1, (exStage_frame _ _ _ _).2.2.2.2.2.2.2.2.1,
    (wbStage_frame _ _).2.2.2.2.2.2.2.1, sIF_stalls]

theorem exO_stalls (p : PSt) : (exO p).st.stalls = p.st.stalls := by
  unfold exO sWB
  rw [(exStage_frame _ _ _ _).2.2.2.2.2.2.2.2.1, (wbStage_frame _ _).2.2.2.2.2.2.2.1, sIF_stalls]

/-- The `stalls` counter goes up by one exactly in the (non-faulting) cycles that pick up a stall. -/
theorem step_stalls (p : PSt) :
    (step p).p.st.stalls = p.st.stalls +
      (if (step p).fault = none ∧ (pickStall p.stalled (nID p) (exO p).latch).isSome then 1 else 0) := by
  rw [step_eq]
  cases h1 : (exO p).fault with
  | some f => simp [exO_stalls]
  | none =>
    cases h2 : (meO p).fault with
    | some f => simp [meO_stalls]
    | none => simp only [finishStep_stalls, meO_stalls, true_and]

theorem pickStall_off_eq (old : Option Stall) (n1 n2 : Option Latch) (h : latchStall n1 = false)
    (hk : ∀ st, old = some st → st.k = 2) :
    pickStall old n1 n2 = if latchStall n2 && old.isNone then some 2 else none := by
  unfold pickStall
  simp only [h, Bool.false_and, Bool.false_eq_true, if_false]
  cases old with
  | none => simp
  | some st => simp [hk st rfl]

/-- EX raises its stall signal exactly for an ecall that still has to wait for older instructions. -/
theorem exStage_stall_iff (s : St) (inp l2 l3 : Option Latch) :
    latchStall (exStage s inp l2 l3).latch = true ↔
      ∃ d, inp = some d ∧ d.instr.op = .ecall ∧ ecallMustWait d l2 l3 = true := by
  cases inp with
  | none => simp [exStage_none, latchStall]
  | some d =>
    by_cases hop : d.instr.op = .ecall
    · by_cases hw : ecallMustWait d l2 l3 = true
      · rw [exStage_ecall_wait s d l2 l3 hop hw]; simp [latchStall, hop, hw]
      · rw [exStage_ecall_run s d l2 l3 hop (by simpa using hw)]
        unfold ecallRun
        split <;> simp [latchStall, exBase, hw]
    · cases halu : aluCompute d.instr (aluIn1 d) (aluIn2 d) with
      | none => rw [exStage_assert s d l2 l3 halu]; simp [latchStall, hop]
      | some cr =>
        rw [exStage_nonEcall s d l2 l3 cr.1 cr.2 hop halu]; simp [latchStall, exBase, hop]

/-- With hazard detection off the `stalls` counter counts exactly the cycles in which an unstalled
    pipeline sees the EX stage raise its (ecall-drain) stall signal. -/
theorem step_stalls_off (p : PSt) (hz : p.hazard = false) (hp : NoIdStall p) :
    (step p).p.st.stalls = p.st.stalls +
      (if (step p).fault = none ∧ p.stalled = none ∧ latchStall (exO p).latch = true then 1 else 0) := by
  rw [step_stalls, pickStall_off_eq _ _ _ (nID_no_stall p hz) hp]
  cases hs : p.stalled <;> cases hl : latchStall (exO p).latch <;> simp

end ArchSim.Lemmas.C08
