/-
Corollaries of the TOY refinement used in C06: counters, store-then-fetch, error-freeness.
-/
import ArchSim.Lemmas.ToyLoad

namespace ArchSim.Toy
open ArchSim ArchSim.ToyRef

/-- Self-modifying demo for the non-vacuity examples: `LDA 4; STO 2; NOP; NOP` with
    `mem[4] = 0x9000` (the word of `INC`). The store replaces the `NOP` at address 2 by `INC`
    before it is fetched. -/
def demoSelfMod : TSim := loadImage {} [⟨1, 4⟩, ⟨0, 2⟩, ⟨12, 0⟩, ⟨12, 0⟩] [(4, 0x9000)]

instance (t : TSim) : Decidable (BInv t) := by unfold BInv; infer_instance

theorem iter_stepT_next {t : TSim} (h1 : t.nextCycle = 1) (n : Nat) : (iter stepT n t).nextCycle = 1 := by
  induction n generalizing t with
  | zero => exact h1
  | succ n ih => exact ih (stepT_next h1)

/-- One `step()` at a boundary: an executed instruction counts once and costs two cycles; a
    finished simulation counts nothing. -/
theorem stepT_counters {t : TSim} (h1 : t.nextCycle = 1) :
    (isDone t = false → (stepT t).s.instrs = t.s.instrs + 1 ∧ (stepT t).s.cycles = t.s.cycles + 2) ∧
    (isDone t = true → stepT t = t) := by
  refine ⟨?_, fun hd => stepT_done (Inv_of_one h1) hd⟩
  intro hd
  cases hl : t.s.loaded with
  | none => rw [isDone_none hl] at hd; cases hd
  | some i => rw [stepT_some h1 hl]; exact ⟨step_instrs t i, step_cycles t i⟩

theorem iter_counters {t : TSim} (h1 : t.nextCycle = 1) (n : Nat) :
    t.s.instrs ≤ (iter stepT n t).s.instrs ∧
    (iter stepT n t).s.instrs ≤ t.s.instrs + n ∧
    (iter stepT n t).s.cycles + 2 * t.s.instrs = t.s.cycles + 2 * (iter stepT n t).s.instrs := by
  induction n generalizing t with
  | zero => simp
  | succ n ih =>
    have ⟨a, b, c⟩ := ih (stepT_next h1)
    rw [iter_succ]
    cases hd : isDone t with
    | true =>
      rw [(stepT_counters h1).2 hd] at a b c ⊢
      exact ⟨a, by omega, c⟩
    | false =>
      have ⟨e1, e2⟩ := (stepT_counters h1).1 hd
      rw [e1] at a b c; rw [e2] at c
      exact ⟨by omega, by omega, by omega⟩

/-- If the state after `n` steps is not done, all `n` steps executed an instruction. -/
theorem iter_instrs_running {t : TSim} (h1 : t.nextCycle = 1) (n : Nat)
    (hnd : isDone (iter stepT n t) = false) : (iter stepT n t).s.instrs = t.s.instrs + n := by
  induction n generalizing t with
  | zero => rfl
  | succ n ih =>
    cases hd : isDone t with
    | true =>
      rw [iter_succ, (stepT_counters h1).2 hd] at hnd
      rw [iter_fixed stepT t ((stepT_counters h1).2 hd)] at hnd
      rw [hd] at hnd; cases hnd
    | false =>
      rw [iter_succ] at hnd ⊢
      rw [ih (stepT_next h1) hnd, ((stepT_counters h1).1 hd).1]; omega

/-- `STO a` where `a` is the address of the next instruction: the next instruction executed is
    the decoding of the accumulator. -/
theorem sto_next {t : TSim} (h : BInv t) {i : TInstr} (hl : t.s.loaded = some i) (hop : i.opcode = 0)
    (haddr : i.addr = t.s.pc) (hin : (t.s.pc : Int) ≤ t.s.maxPc.getD (-1)) :
    (stepT t).s.loaded = some (decode t.s.accu) := by
  obtain ⟨h1, hc, hacc, hpc, _⟩ := h
  have hn : nextAddr t i = t.s.pc := by simp [nextAddr, takenN, hop]
  have hm : nextMem t i = putCell t.s.mem t.s.pc t.s.accu := by
    simp only [nextMem, hop, if_true]; rw [haddr, wr_toy t.s hc _ hpc]
  rw [stepT_some h1 hl, step_loaded, hn, hm, if_pos hin,
    rdM_toy _ (by simpa using hc) _ hpc, putCell_cells]
  simp [Nat.mod_eq_of_lt hacc]

end ArchSim.Toy
