/-
C14 helper lemmas, part 6: the listing. A specification printer on character lists, the character
classes of printed lines, `splitLines`/`sanitize` on the joined listing, and the passes of `load` on
the re-parsed entries.
-/
import ArchSim.Lemmas.C14Main

namespace ArchSim.Lemmas.C14
open ArchSim ArchSim.PP ArchSim.Rv ArchSim.Asm

/-! ### specification printer -/

/-- The printed form, directly as a list of characters. -/
def reprSpec (i : Instr) : List Char :=
  match i.op.ty with
  | .r => mn i.op ++ ' ' :: (regTxt i.rd ++ ',' :: ' ' :: (regTxt i.rs1 ++ ',' :: ' ' :: regTxt i.rs2))
  | .i =>
    if i.op = .ecall ∨ i.op = .ebreak then mn i.op
    else mn i.op ++ ' ' :: (regTxt i.rd ++ ',' :: ' ' :: (regTxt i.rs1 ++ ',' :: ' ' :: decTxt i.imm))
  | .shiftI => mn i.op ++ ' ' :: (regTxt i.rd ++ ',' :: ' ' :: (regTxt i.rs1 ++ ',' :: ' ' :: decTxt i.imm))
  | .memI => mn i.op ++ ' ' :: (regTxt i.rd ++ ',' :: ' ' :: (decTxt i.imm ++ '(' :: (regTxt i.rs1 ++ [')'])))
  | .s => mn i.op ++ ' ' :: (regTxt i.rs2 ++ ',' :: ' ' :: (decTxt i.imm ++ '(' :: (regTxt i.rs1 ++ [')'])))
  | .b => mn i.op ++ ' ' :: (regTxt i.rs1 ++ ',' :: ' ' :: (regTxt i.rs2 ++ ',' :: ' ' :: decTxt i.imm))
  | .u => mn i.op ++ ' ' :: (regTxt i.rd ++ ',' :: ' ' :: decTxt i.imm)
  | .j => mn i.op ++ ' ' :: (regTxt i.rd ++ ',' :: ' ' :: decTxt i.aux)
  | .fence => mn i.op
  | .csr => mn i.op ++ ' ' :: (regTxt i.rd ++ ',' :: ' ' :: (hexTxt i.aux.toNat ++ ',' :: ' ' :: regTxt i.rs1))
  | .csri => mn i.op ++ ' ' :: (regTxt i.rd ++ ',' :: ' ' :: (hexTxt i.aux.toNat ++ ',' :: ' ' :: decTxt i.imm))

theorem repr_eq_spec (i : Instr) : i.repr.toList = reprSpec i := by
  unfold reprSpec
  cases hty : i.op.ty with
  | r => exact repr_R i hty
  | i =>
    by_cases h : i.op = .ecall ∨ i.op = .ebreak
    · simp only [h, if_true]; exact repr_env i h
    · simp only [h, if_false]
      exact repr_I i hty (fun e => h (Or.inl e)) (fun e => h (Or.inr e))
  | shiftI => exact repr_shift i hty
  | memI => exact repr_load i hty
  | s => exact repr_store i hty
  | b => exact repr_B i hty
  | u => exact repr_U i hty
  | j => exact repr_J i hty
  | fence =>
    have : ∀ op : Op, op.ty = .fence → op = .fence := by intro op; cases op <;> decide
    have hop := this _ hty
    simp only [Instr.repr, mn, hop]
    rfl
  | csr => exact repr_CSR i hty
  | csri => exact repr_CSRI i hty

/-! ### character classes of a printed line -/

def okc (c : Char) : Bool :=
  isLow c || isNum c || c == ' ' || c == ',' || c == '(' || c == ')' || c == '-'

def numList : List Char := "0123456789".toList

theorem isNum_mem (c : Char) (h : isNum c = true) : c ∈ numList := by
  have h1 : ∀ n < 58, 48 ≤ n → Char.ofNat n ∈ numList := by decide
  have hc := Char.ofNat_toNat c
  simp only [isNum, Bool.and_eq_true, decide_eq_true_eq, Char.le_def, UInt32.le_iff_toNat_le] at h
  have h2 : c.toNat = c.val.toNat := rfl
  rw [← hc]
  apply h1
  · have : ('9' : Char).val.toNat = 57 := by decide
    omega
  · have : ('0' : Char).val.toNat = 48 := by decide
    omega

theorem okc_facts (c : Char) (h : okc c = true) :
    isLineBreak c = false ∧ c ≠ '#' ∧ (c ≠ ' ' → pyIsSpace c = false) := by
  have hl : ∀ p ∈ lowList, isLineBreak p = false ∧ p ≠ '#' ∧ (p ≠ ' ' → pyIsSpace p = false) := by decide
  have hn : ∀ p ∈ numList, isLineBreak p = false ∧ p ≠ '#' ∧ (p ≠ ' ' → pyIsSpace p = false) := by decide
  have he : ∀ p ∈ [' ', ',', '(', ')', '-'],
      isLineBreak p = false ∧ p ≠ '#' ∧ (p ≠ ' ' → pyIsSpace p = false) := by decide
  simp only [okc, Bool.or_eq_true, beq_iff_eq] at h
  rcases h with (((((h | h) | h) | h) | h) | h) | h
  · exact hl c (isLow_mem c h)
  · exact hn c (isNum_mem c h)
  all_goals (subst h; exact he _ (by simp))

/-- A printed line: non-empty, made of harmless characters, no blank at either end. -/
structure LineOk (l : List Char) : Prop where
  chars : l.all okc = true
  head : ∀ c ∈ l.head?, c ≠ ' '
  last : ∀ c ∈ l.getLast?, c ≠ ' '
  ne : l ≠ []

theorem mn_all (op : Op) : (mn op).all okc = true := by
  rw [List.all_eq_true]
  intro c hc
  simp [okc, (mn_low op).1 c hc]

theorem regTxt_all (n : Nat) (hn : n < 32) : (regTxt n).all okc = true := by
  rw [List.all_eq_true]
  intro c hc
  rcases regTxt_chars n hn c hc with rfl | h
  · decide
  · simp [okc, h]

theorem decTxt_all (v : Int) : (decTxt v).all okc = true := by
  rw [List.all_eq_true]
  intro c hc
  rcases decTxt_chars v c hc with rfl | h
  · decide
  · simp [okc, h]

theorem hexTxt_all (n : Nat) : (hexTxt n).all okc = true := by
  rw [List.all_eq_true]
  intro c hc
  simp only [hexTxt, List.mem_cons] at hc
  rcases hc with rfl | rfl | hc
  · decide
  · decide
  · rcases hexDigitsLower_chars n c hc with h | h <;> simp [okc, h]

theorem regTxt_ne_nil (n : Nat) : regTxt n ≠ [] := by simp [regTxt]
theorem decTxt_ne_nil (v : Int) : decTxt v ≠ [] := by
  obtain ⟨c, tl, h, _⟩ := decTxt_cons v
  simp [h]

theorem glast_app (A B : List Char) (h : B ≠ []) : (A ++ B).getLast? = B.getLast? := by
  rw [List.getLast?_append]
  cases hl : B.getLast? with
  | none => rw [List.getLast?_eq_none_iff] at hl; exact absurd hl h
  | some x => simp

theorem glast_cons (a : Char) (B : List Char) (h : B ≠ []) : (a :: B).getLast? = B.getLast? :=
  List.getLast?_cons_of_ne_nil h

theorem head_mn_app (op : Op) (X : List Char) : ∀ c ∈ (mn op ++ X).head?, c ≠ ' ' := by
  obtain ⟨hlow, hne⟩ := mn_low op
  cases hm : mn op with
  | nil => exact absurd hm hne
  | cons a as =>
    intro c hc
    simp only [List.cons_append, List.head?_cons, Option.mem_def, Option.some.injEq] at hc
    subst hc
    have := hlow a (by simp [hm])
    rintro rfl
    exact absurd this (by decide)

theorem last_num_ne_space (l : List Char) (h : ∀ c ∈ l.getLast?, isNum c = true) :
    ∀ c ∈ l.getLast?, c ≠ ' ' := by
  intro c hc
  have := h c hc
  rintro rfl
  exact absurd this (by decide)

theorem last_mn (op : Op) : ∀ c ∈ (mn op).getLast?, c ≠ ' ' := by
  intro c hc
  have := (mn_low op).1 c (List.mem_of_getLast? hc)
  rintro rfl
  exact absurd this (by decide)

theorem okc_space : okc ' ' = true := by decide
theorem okc_comma : okc ',' = true := by decide
theorem okc_lp : okc '(' = true := by decide
theorem okc_rp : okc ')' = true := by decide

theorem lineOk_mn (op : Op) : LineOk (mn op) := by
  refine ⟨mn_all op, ?_, last_mn op, (mn_low op).2⟩
  have := head_mn_app op []
  simpa using this

theorem lineOk_app (op : Op) (X : List Char) (hall : X.all okc = true) (hne : X ≠ [])
    (hlast : ∀ c ∈ X.getLast?, c ≠ ' ') : LineOk (mn op ++ X) := by
  refine ⟨by simp [List.all_append, mn_all, hall], head_mn_app op X, ?_, by simp [hne]⟩
  rw [glast_app _ _ hne]; exact hlast

theorem lineOk_spec (i : Instr) (h1 : i.rd < 32) (h2 : i.rs1 < 32) (h3 : i.rs2 < 32) : LineOk (reprSpec i) := by
  have hreg1 := last_num_ne_space _ (regTxt_getLast i.rs1 h2)
  have hreg2 := last_num_ne_space _ (regTxt_getLast i.rs2 h3)
  have hdec := last_num_ne_space _ (decTxt_getLast i.imm)
  have hdeca := last_num_ne_space _ (decTxt_getLast i.aux)
  unfold reprSpec
  split <;> (try split) <;> first
    | exact lineOk_mn _
    | (refine lineOk_app _ _ ?_ (by simp) ?_
       · simp [List.all_append, List.all_cons, regTxt_all, decTxt_all, hexTxt_all, h1, h2, h3,
           okc_space, okc_comma, okc_lp, okc_rp]
       · simp [glast_cons, regTxt_ne_nil, decTxt_ne_nil]
         first | exact hreg1 | exact hreg2 | exact hdec | exact hdeca | done)

end ArchSim.Lemmas.C14
