/-
C04 (spelling independence), part 29: the pseudo-instructions `li`, `mv`, `nop` in any spelling. The mnemonic
stage of every alternative on an arbitrary lower-case word.
-/
import ArchSim.Lemmas.C04SpellLabel

namespace ArchSim.Lemmas.C04Spell
open ArchSim ArchSim.PP ArchSim.Rv ArchSim.Asm ArchSim.Lemmas.C14

/-- a non-empty lower-case word -/
structure LowWord (w : List Char) : Prop where
  low : ∀ c ∈ w, isLow c = true
  ne : w ≠ []

theorem LowWord.cv {w : List Char} (h : LowWord w) : CaseVar w w := CaseVar.refl h.low

theorem stageW_none (L : List String) (hL : LowSyms L) (w : List Char) (hw : LowWord w)
    (h : noMatch L w = true) (rest : Inp) (hr : MnSep rest) : oneOfCaseless L (w ++ rest) = .fail := by
  rw [oneOfCaseless_var L w w rest hL hw.cv hw.ne hr, find_of_noMatch L _ h]

theorem stageW_exact (L : List String) (hL : LowSyms L) (s : String) (hw : LowWord s.toList)
    (h : isBest L s.toList s = true) (rest : Inp) (hr : MnSep rest) :
    oneOfCaseless L (s.toList ++ rest) = .ok s rest := by
  rw [oneOfCaseless_var L s.toList s.toList rest hL hw.cv hw.ne hr, find_of_isBest L _ s h]
  simp

theorem kwStageW (kw : String) (hk : ∀ c ∈ kw.toList, isLow c = true) (w : List Char) (hw : LowWord w)
    (rest : Inp) (hr : MnSep rest) :
    caselessLit kw (w ++ rest) =
      if kw.toList.isPrefixOf w then .ok () (w.drop kw.toList.length ++ rest) else .fail :=
  caselessLit_var kw w w rest hk hw.cv hw.ne hr

theorem kwStageW_none (kw : String) (hk : ∀ c ∈ kw.toList, isLow c = true) (w : List Char) (hw : LowWord w)
    (rest : Inp) (hr : MnSep rest) (h : kw.toList.isPrefixOf w = false) : caselessLit kw (w ++ rest) = .fail := by
  rw [kwStageW kw hk w hw rest hr, h]; rfl

/-- the word matches none of the mnemonic tables and keywords except the listed ones -/
structure PseudoWord (w : List Char) : Prop where
  word : LowWord w
  t0 : noMatch rrrMn w = true
  t1 : noMatch uMn w = true
  t2 : noMatch bMn w = true
  t3 : noMatch L3 w = true
  t5 : noMatch sMn w = true
  t6 : noMatch csrMn w = true
  t7 : noMatch csriMn w = true
  t8 : noMatch L8 w = true
  k1 : ("fence" : String).toList.isPrefixOf w = false
  k2 : ("jal" : String).toList.isPrefixOf w = false
  k3 : ("ecall" : String).toList.isPrefixOf w = false
  k4 : ("ebreak" : String).toList.isPrefixOf w = false

section
variable {w : List Char} (hp : PseudoWord w) (rest : Inp) (hr : MnSep rest)
include hp hr

theorem pw_RType : pRType (w ++ rest) = .fail := by
  simp only [pRType, stageW_none rrrMn low_rrr w hp.word hp.t0 rest hr, bind_fail]
theorem pw_UType : pUType (w ++ rest) = .fail := by
  simp only [pUType, stageW_none uMn low_u w hp.word hp.t1 rest hr, bind_fail]
theorem pw_BType : pBType (w ++ rest) = .fail := by
  simp only [pBType, stageW_none bMn low_b w hp.word hp.t2 rest hr, bind_fail]
theorem pw_Memory : pMemory (w ++ rest) = .fail := by
  have := stageW_none L3 low_3 w hp.word hp.t3 rest hr
  rw [L3] at this
  simp only [pMemory, this, bind_fail]
theorem pw_SPseudo : pSPseudo (w ++ rest) = .fail := by
  simp only [pSPseudo, stageW_none sMn low_s w hp.word hp.t5 rest hr, bind_fail]
theorem pw_Csr : pCsr (w ++ rest) = .fail := by
  simp only [pCsr, stageW_none csrMn low_csr w hp.word hp.t6 rest hr, bind_fail]
theorem pw_Csri : pCsri (w ++ rest) = .fail := by
  simp only [pCsri, stageW_none csriMn low_csri w hp.word hp.t7 rest hr, bind_fail]
theorem pw_RegRegImm : pRegRegImm (w ++ rest) = .fail := by
  have := stageW_none L8 low_8 w hp.word hp.t8 rest hr
  rw [L8] at this
  simp only [pRegRegImm, this, bind_fail]
theorem pw_Fence : pFence (w ++ rest) = .fail := by
  simp only [pFence, kwStageW_none "fence" (by decide) w hp.word rest hr hp.k1, bind_fail]
theorem pw_Jal : pJal (w ++ rest) = .fail := by
  simp only [pJal, kwStageW_none "jal" (by decide) w hp.word rest hr hp.k2, bind_fail]
theorem pw_Env : pEnv (w ++ rest) = .fail := by
  simp only [pEnv, first, kwStageW_none "ecall" (by decide) w hp.word rest hr hp.k3,
    kwStageW_none "ebreak" (by decide) w hp.word rest hr hp.k4, map_fail]

end

theorem pseudo_li : PseudoWord "li".toList := by
  refine ⟨⟨by decide, by decide⟩, ?_, ?_, ?_, ?_, ?_, ?_, ?_, ?_, ?_, ?_, ?_, ?_⟩ <;> decide
theorem pseudo_mv : PseudoWord "mv".toList := by
  refine ⟨⟨by decide, by decide⟩, ?_, ?_, ?_, ?_, ?_, ?_, ?_, ?_, ?_, ?_, ?_, ?_⟩ <;> decide
theorem pseudo_nop : PseudoWord "nop".toList := by
  refine ⟨⟨by decide, by decide⟩, ?_, ?_, ?_, ?_, ?_, ?_, ?_, ?_, ?_, ?_, ?_, ?_⟩ <;> decide

/-- A line that starts (after blanks) with any case variant of the mnemonic `m` and whose instruction body is
    read completely up to trailing blanks. -/
theorem parseLine_spelled_word (m : String) (hm : m ∈ mnWords) (lead : List Char) (hlead : AllWs lead)
    (sel : Nat → Bool) (X : List Char) (hs : LineSep X) (it : Item) (tr : List Char) (htr : AllWs tr)
    (hb : pInstrBody (m.toList ++ X) = .ok it tr) :
    parseLine (lead ++ (recase sel m.toList ++ X)) = some { lbl := none, item := it } := by
  have hlow := mnWords_low m hm
  rw [parseLine_ws lead _ hlead, parseLine_cv m hm _ X (caseVar_recase sel _ hlow.1) hs]
  exact parseLine_of_bodyS m.toList X (CaseVar.refl hlow.1) hlow.2 hs it tr htr hb

section
variable (g w1 w2 tr : List Char) (hg : AllWs g) (hgne : g ≠ []) (h1 : AllWs w1) (h2 : AllWs w2) (htr : AllWs tr)
include hg hgne h1 h2 htr

theorem bodyP_li (a : Nat) (v : Int) (ha : a < 32) (hv : v.natAbs < 10 ^ 4300) (s1 : RegStyle) (sn : NumStyle) :
    pInstrBody ("li".toList ++ tReg g s1 a (tSep w1 ',' (tNum w2 sn v tr))) = .ok (.grp (.li a v)) tr := by
  have hr := mnSep_tReg g s1 a (tSep w1 ',' (tNum w2 sn v tr)) hg hgne
  have hp := pseudo_li
  have hk : caselessLit "li" ("li".toList ++ tReg g s1 a (tSep w1 ',' (tNum w2 sn v tr)))
      = .ok () (tReg g s1 a (tSep w1 ',' (tNum w2 sn v tr))) := by
    rw [kwStageW "li" (by decide) _ hp.word _ hr]; rfl
  have hli : pLi ("li".toList ++ tReg g s1 a (tSep w1 ',' (tNum w2 sn v tr))) = .ok (.li a v) tr := by
    simp only [pLi, hk, bind_ok, pReg_tReg g s1 a _ hg ha (tokEnd_tSep w1 ',' _ h1 comma_nlb),
      pComma_tSep w1 _ h1, pImm_tNum w2 sn v _ h2 hv (tokEnd_allWs tr htr), map_ok]
  have h4 : pMemPseudo ("li".toList ++ tReg g s1 a (tSep w1 ',' (tNum w2 sn v tr))) = .fail := by
    have := stageW_none L4 low_4 _ hp.word (by decide) _ hr
    rw [L4] at this
    simp only [pMemPseudo, this, bind_fail]
  have h14 : pMv ("li".toList ++ tReg g s1 a (tSep w1 ',' (tNum w2 sn v tr))) = .fail := by
    simp only [pMv, stageW_none ["mv"] low_mv _ hp.word (by decide) _ hr, bind_fail]
  have h12 : caselessLit "nop" ("li".toList ++ tReg g s1 a (tSep w1 ',' (tNum w2 sn v tr))) = .fail :=
    kwStageW_none "nop" (by decide) _ hp.word _ hr (by decide)
  rw [pInstrBody_eq]
  simp only [alts, List.map_cons, List.map_nil, hli, h4, h14, h12, pw_RType hp _ hr, pw_UType hp _ hr,
    pw_BType hp _ hr, pw_Memory hp _ hr, pw_SPseudo hp _ hr, pw_Csr hp _ hr, pw_Csri hp _ hr,
    pw_RegRegImm hp _ hr, pw_Fence hp _ hr, pw_Jal hp _ hr, pw_Env hp _ hr, map_ok, map_fail]
  rfl

theorem bodyP_mv (a b : Nat) (ha : a < 32) (hb : b < 32) (s1 s2 : RegStyle) :
    pInstrBody ("mv".toList ++ tReg g s1 a (tSep w1 ',' (tReg w2 s2 b tr))) = .ok (.grp (.mv a b)) tr := by
  have hr := mnSep_tReg g s1 a (tSep w1 ',' (tReg w2 s2 b tr)) hg hgne
  have hp := pseudo_mv
  have hmv : pMv ("mv".toList ++ tReg g s1 a (tSep w1 ',' (tReg w2 s2 b tr))) = .ok (.mv a b) tr := by
    simp only [pMv, stageW_exact ["mv"] low_mv "mv" hp.word (by decide) _ hr, bind_ok,
      pReg_tReg g s1 a _ hg ha (tokEnd_tSep w1 ',' _ h1 comma_nlb), pComma_tSep w1 _ h1,
      pReg_tReg w2 s2 b _ h2 hb (tokEnd_allWs tr htr), map_ok]
  have h4 : pMemPseudo ("mv".toList ++ tReg g s1 a (tSep w1 ',' (tReg w2 s2 b tr))) = .fail := by
    have := stageW_none L4 low_4 _ hp.word (by decide) _ hr
    rw [L4] at this
    simp only [pMemPseudo, this, bind_fail]
  have h13 : pLi ("mv".toList ++ tReg g s1 a (tSep w1 ',' (tReg w2 s2 b tr))) = .fail := by
    simp only [pLi, kwStageW_none "li" (by decide) _ hp.word _ hr (by decide), bind_fail]
  have h12 : caselessLit "nop" ("mv".toList ++ tReg g s1 a (tSep w1 ',' (tReg w2 s2 b tr))) = .fail :=
    kwStageW_none "nop" (by decide) _ hp.word _ hr (by decide)
  rw [pInstrBody_eq]
  simp only [alts, List.map_cons, List.map_nil, hmv, h4, h13, h12, pw_RType hp _ hr, pw_UType hp _ hr,
    pw_BType hp _ hr, pw_Memory hp _ hr, pw_SPseudo hp _ hr, pw_Csr hp _ hr, pw_Csri hp _ hr,
    pw_RegRegImm hp _ hr, pw_Fence hp _ hr, pw_Jal hp _ hr, pw_Env hp _ hr, map_ok, map_fail]
  rfl

end

theorem bodyP_nop (tr : List Char) (htr : AllWs tr) : pInstrBody ("nop".toList ++ tr) = .ok (.str "nop") tr := by
  have hr : MnSep tr := (lineSep_allWs tr htr).mnSep
  have hp := pseudo_nop
  have hn : caselessLit "nop" ("nop".toList ++ tr) = .ok () tr := by
    rw [kwStageW "nop" (by decide) _ hp.word _ hr]; rfl
  have h4 : pMemPseudo ("nop".toList ++ tr) = .fail := by
    have := stageW_none L4 low_4 _ hp.word (by decide) _ hr
    rw [L4] at this
    simp only [pMemPseudo, this, bind_fail]
  have h13 : pLi ("nop".toList ++ tr) = .fail := by
    simp only [pLi, kwStageW_none "li" (by decide) _ hp.word _ hr (by decide), bind_fail]
  have h14 : pMv ("nop".toList ++ tr) = .fail := by
    simp only [pMv, stageW_none ["mv"] low_mv _ hp.word (by decide) _ hr, bind_fail]
  rw [pInstrBody_eq]
  simp only [alts, List.map_cons, List.map_nil, hn, h4, h13, h14, pw_RType hp _ hr, pw_UType hp _ hr,
    pw_BType hp _ hr, pw_Memory hp _ hr, pw_SPseudo hp _ hr, pw_Csr hp _ hr, pw_Csri hp _ hr,
    pw_RegRegImm hp _ hr, pw_Fence hp _ hr, pw_Jal hp _ hr, pw_Env hp _ hr, map_ok, map_fail]
  rfl

/-- `li rd, imm` in any spelling -/
theorem parseLine_li (lead g w1 w2 tr : List Char) (hl : AllWs lead) (hg : AllWs g) (hgne : g ≠ [])
    (h1 : AllWs w1) (h2 : AllWs w2) (htr : AllWs tr) (sel : Nat → Bool) (a : Nat) (v : Int) (ha : a < 32)
    (hv : v.natAbs < 10 ^ 4300) (s1 : RegStyle) (sn : NumStyle) :
    parseLine (lead ++ (recase sel "li".toList ++ tReg g s1 a (tSep w1 ',' (tNum w2 sn v tr))))
      = some { lbl := none, item := .grp (.li a v) } :=
  parseLine_spelled_word "li" (by decide) lead hl sel _ (lineSep_tReg g s1 a _ hg hgne ha) _ tr htr
    (bodyP_li g w1 w2 tr hg hgne h1 h2 htr a v ha hv s1 sn)

/-- `mv rd, rs` in any spelling -/
theorem parseLine_mv (lead g w1 w2 tr : List Char) (hl : AllWs lead) (hg : AllWs g) (hgne : g ≠ [])
    (h1 : AllWs w1) (h2 : AllWs w2) (htr : AllWs tr) (sel : Nat → Bool) (a b : Nat) (ha : a < 32) (hb : b < 32)
    (s1 s2 : RegStyle) :
    parseLine (lead ++ (recase sel "mv".toList ++ tReg g s1 a (tSep w1 ',' (tReg w2 s2 b tr))))
      = some { lbl := none, item := .grp (.mv a b) } :=
  parseLine_spelled_word "mv" (by decide) lead hl sel _ (lineSep_tReg g s1 a _ hg hgne ha) _ tr htr
    (bodyP_mv g w1 w2 tr hg hgne h1 h2 htr a b ha hb s1 s2)

/-- `nop` in any spelling -/
theorem parseLine_nop (lead tr : List Char) (hl : AllWs lead) (htr : AllWs tr) (sel : Nat → Bool) :
    parseLine (lead ++ (recase sel "nop".toList ++ tr)) = some { lbl := none, item := .str "nop" } :=
  parseLine_spelled_word "nop" (by decide) lead hl sel tr (lineSep_allWs tr htr) _ tr htr (bodyP_nop tr htr)

end ArchSim.Lemmas.C04Spell
