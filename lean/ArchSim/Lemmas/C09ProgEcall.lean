/-
C09 (program level), part 2: the print-string service of `ecall` reads through the cache without
counting; when it succeeds the invariant `DInv` is kept, and in every case the access counter is
unchanged.
-/
import ArchSim.Lemmas.C09ProgMem

namespace ArchSim.Lemmas.C09Prog
open ArchSim ArchSim.Cache ArchSim.Rv ArchSim.Repl
open ArchSim.Spec.TagCache (Accepted)
open ArchSim.Spec.CacheAbs (CInv widthOK inWord inData logical)

theorem dAcc_read_uncounted (ms : MemSys) (bits : Nat) (a : Int) :
    dAcc (ms.read bits a false).mem = dAcc ms := by
  cases ms with
  | flat m => simp only [MemSys.read]; split <;> rfl
  | cached l ds => exact (C09.read_uncounted_frame (P := polOps l) ds bits a).2.1

/-- A successful read keeps `DInv`. -/
theorem DInv_read_ok {ms : MemSys} (h : DInv ms) {bits : Nat} (hb : widthOK bits) (a : Int)
    (counted : Bool) {v : Nat} (hv : (ms.read bits a counted).res = .ok v) :
    DInv (ms.read bits a counted).mem ∧ v < 4294967296 ∧ Accepted bits a := by
  obtain ⟨l, ds, rfl, hok⟩ := h
  have hv' : (ds.read (polOps l) bits a counted).res = .ok v := hv
  obtain ⟨hacc, hlt, hok'⟩ := read_ok_spec hok hb a counted hv'
  exact ⟨⟨l, _, rfl, hok'⟩, hlt, hacc⟩

/-- A successful write keeps `DInv`. -/
theorem DInv_write_ok {ms : MemSys} (h : DInv ms) {bits : Nat} (hb : widthOK bits) (a : Int)
    {v : Nat} (hv : v < 2 ^ bits) {x : Nat} (hr : (ms.write bits a v false).res = .ok x) :
    DInv (ms.write bits a v false).mem ∧ Accepted bits a := by
  obtain ⟨l, ds, rfl, hok⟩ := h
  have hr' : (ds.write (polOps l) bits a v false).res = .ok x := hr
  obtain ⟨hacc, hok'⟩ := write_ok_spec hok hb a hv hr'
  exact ⟨⟨l, _, rfl, hok'⟩, hacc⟩

theorem printStrLoop_dAcc : ∀ (fuel : Nat) (ms : MemSys) (a : Int) (acc : List Char),
    dAcc (printStrLoop fuel ms a acc).1 = dAcc ms
  | 0, _, _, _ => rfl
  | fuel + 1, ms, a, acc => by
    simp only [printStrLoop]
    split
    · exact dAcc_read_uncounted ms 8 a
    · split
      · exact dAcc_read_uncounted ms 8 a
      · rw [printStrLoop_dAcc fuel, dAcc_read_uncounted]

theorem printStrLoop_dinv : ∀ (fuel : Nat) (ms : MemSys) (a : Int) (acc : List Char), DInv ms →
    ∀ cs, (printStrLoop fuel ms a acc).2 = .ok cs → DInv (printStrLoop fuel ms a acc).1
  | 0, _, _, _, _, cs, h => by cases h
  | fuel + 1, ms, a, acc, hI, cs, h => by
    simp only [printStrLoop] at h ⊢
    split at h
    · cases h
    · rename_i b hb
      have h8 : widthOK 8 := Or.inl rfl
      have hI' := (DInv_read_ok hI h8 a false hb).1
      split at h
      · rename_i hb0; rw [if_pos hb0]; exact hI'
      · rename_i hb0; rw [if_neg hb0]; exact printStrLoop_dinv fuel _ _ _ hI' cs h

theorem processEcall_dAcc (s : St) : dAcc (processEcall s).1 = dAcc s.mem := by
  simp only [processEcall]
  repeat' split
  all_goals first
    | rfl
    | (rename_i heq
       have := printStrLoop_dAcc printStrFuel s.mem (s.regs 10) []
       rw [heq] at this
       exact this)

/-- The ecall service either reports a memory error or leaves a memory system satisfying `DInv`. -/
theorem processEcall_dinv (s : St) (h : DInv s.mem) :
    (∃ e, (processEcall s).2 = .err e) ∨ DInv (processEcall s).1 := by
  simp only [processEcall]
  repeat' split
  all_goals first
    | exact Or.inr h
    | exact Or.inl ⟨_, rfl⟩
    | (rename_i heq
       have := printStrLoop_dinv printStrFuel s.mem (s.regs 10) [] h
       rw [heq] at this
       exact Or.inr (this _ rfl))

end ArchSim.Lemmas.C09Prog
