/-
C03 helper lemmas, part 5: the memory system as a whole — `logical` under the cache primitives:
installing a block (`writeBlock` + write-back of the displaced block) and fetching a block
(`readBlockSys`).
-/
import ArchSim.Lemmas.C03Sets
import ArchSim.Lemmas.C03Mem

namespace ArchSim.Lemmas.C03
open ArchSim ArchSim.Cache ArchSim.Mem ArchSim.Spec.ByteStore ArchSim.Lemmas.C18 ArchSim.Spec.CacheAbs

variable {σ : Type} {P : PolicyOps σ} {WFp : σ → Prop}

/-- The decoded address under the geometry of `s`. -/
abbrev dec (s : DSys σ) (a : Int) : DAddr := decode s.geo.idxBits s.geo.blkBits a

theorem CInvS_memOK {s : DSys σ} (h : CInvS WFp s) : MemOK s.mem := ⟨h.cfg, h.wf⟩

/-! ### unfolding `logical` -/

theorem logical_of_some {s : DSys σ} {a : Int} {w : Way Nat}
    (h : lookup s.sets (dec s a).setIdx (dec s a).tag = some w) :
    logical s a = byteOf (wordAt w.vals (dec s a).blockOff) (dec s a).byteOff := by
  unfold logical; rw [h]

theorem logical_of_none {s : DSys σ} {a : Int}
    (h : lookup s.sets (dec s a).setIdx (dec s a).tag = none) :
    logical s a = s.mem.cells ((wrap32 a : Nat) : Int) := by
  unfold logical; rw [h]; rfl

/-- `logical` depends on the state only through the geometry, the lookup function and the cells. -/
theorem logical_congr (s s' : DSys σ) (hg : s'.geo = s.geo)
    (hl : ∀ k t, lookup s'.sets k t = lookup s.sets k t) (hm : s'.mem = s.mem) (a : Int) :
    logical s' a = logical s a := by
  unfold logical; rw [hg, hl, hm]

theorem CInv_transfer {s : DSys σ} (hs : CInv WFp s) (s' : DSys σ) (hg : s'.geo = s.geo)
    (hwt : s'.wt = s.wt) (hm : s'.mem = s.mem) (hsets : SetsOK s.geo WFp s'.sets)
    (hl : ∀ k t, lookup s'.sets k t = lookup s.sets k t) :
    CInv WFp s' ∧ ∀ a, logical s' a = logical s a := by
  have hlog := logical_congr s s' hg hl hm
  refine ⟨⟨⟨hg ▸ hs.geo, hg ▸ hsets, hm ▸ hs.cfg, hm ▸ hs.wf⟩, ?_⟩, hlog⟩
  intro h a
  rw [hlog, hm]
  exact hs.wtc (hwt ▸ h) a

/-- Changing only the counters changes neither the invariant nor the logical contents. -/
theorem CInv_same {s : DSys σ} (hs : CInv WFp s) (s' : DSys σ) (hg : s'.geo = s.geo)
    (hwt : s'.wt = s.wt) (hm : s'.mem = s.mem) (hsets : s'.sets = s.sets) :
    CInv WFp s' ∧ ∀ a, logical s' a = logical s a :=
  CInv_transfer hs s' hg hwt hm (hsets ▸ hs.sets) (fun k t => by rw [hsets])

/-- Replacing the backing memory by one that agrees with the logical contents on all resident
    addresses makes the logical contents equal to that memory (the write-through situation). -/
theorem logical_setMem (s s' : DSys σ) (hg : s'.geo = s.geo) (hsets : s'.sets = s.sets)
    (h : ∀ a, resident s a = true → logical s a = s'.mem.cells ((wrap32 a : Nat) : Int)) (a : Int) :
    logical s' a = s'.mem.cells ((wrap32 a : Nat) : Int) := by
  cases hl : lookup s.sets (dec s a).setIdx (dec s a).tag with
  | none =>
    apply logical_of_none
    show lookup s'.sets (decode s'.geo.idxBits s'.geo.blkBits a).setIdx
      (decode s'.geo.idxBits s'.geo.blkBits a).tag = none
    rw [hg, hsets]; exact hl
  | some w =>
    have hr : resident s a = true := by unfold resident; rw [hl]; rfl
    rw [← h a hr, logical_of_some hl]
    have : lookup s'.sets (dec s' a).setIdx (dec s' a).tag = some w := by
      show lookup s'.sets (decode s'.geo.idxBits s'.geo.blkBits a).setIdx
        (decode s'.geo.idxBits s'.geo.blkBits a).tag = some w
      rw [hg, hsets]; exact hl
    rw [logical_of_some this]
    show byteOf (wordAt w.vals (decode s'.geo.idxBits s'.geo.blkBits a).blockOff)
      (decode s'.geo.idxBits s'.geo.blkBits a).byteOff = _
    rw [hg]

/-! ### addresses of a resident / evicted block -/

/-- An address that decodes to set `k` and the tag of a valid way `w` of that set is
    `w.base + 4·blockOff + byteOff`. -/
theorem addr_in_way {g : Geo} {k : Nat} {w : Way Nat} (hw : WayOK g k w) (hv : w.valid = true)
    (a : Int) (h1 : (decode g.idxBits g.blkBits a).setIdx = k)
    (h2 : (decode g.idxBits g.blkBits a).tag = w.tag) :
    wrap32 a = w.base + 4 * (decode g.idxBits g.blkBits a).blockOff +
      (decode g.idxBits g.blkBits a).byteOff := by
  have := decode_full_eq g.idxBits g.blkBits a
  rw [← decode_base, h1, h2, ← hw.base hv] at this
  exact this

/-- An address that does not decode to `(k, w.tag)` lies outside the aligned range of `w`. -/
theorem addr_not_in_way {g : Geo} {k : Nat} (hk : k < 2 ^ g.idxBits) {w : Way Nat}
    (hw : WayOK g k w) (hv : w.valid = true) (a : Int)
    (h : ¬ ((decode g.idxBits g.blkBits a).setIdx = k ∧ (decode g.idxBits g.blkBits a).tag = w.tag)) :
    wrap32 a < w.base ∨ w.base + 2 ^ (g.blkBits + 2) ≤ wrap32 a := by
  rcases Nat.lt_or_ge (wrap32 a) w.base with h1 | h1
  · exact Or.inl h1
  · rcases Nat.lt_or_ge (wrap32 a) (w.base + 2 ^ (g.blkBits + 2)) with h2 | h2
    · exfalso
      rw [hw.base hv] at h1 h2
      obtain ⟨e1, e2⟩ := decode_of_range g.idxBits g.blkBits a w.tag k hk h1 h2
      exact h ⟨e2, e1⟩
    · exact Or.inr h2

/-! ### installing a block -/

/-- `logical` after the lookup function changed as `writeBlock` changes it, given what the backing
    memory holds afterwards at the evicted block (H1) and elsewhere (H2). -/
theorem logical_after_put (s s3 : DSys σ) (hg : s3.geo = s.geo) (d : DAddr) (new old : Way Nat)
    (hl : ∀ k tag, lookup s3.sets k tag =
        if k = d.setIdx ∧ tag = d.tag then some new
        else if k = d.setIdx ∧ old.valid = true ∧ tag = old.tag then none
        else lookup s.sets k tag)
    (H1 : ∀ a, old.valid = true → (dec s a).setIdx = d.setIdx → (dec s a).tag = old.tag →
        ¬ (dec s a).tag = d.tag → s3.mem.cells ((wrap32 a : Nat) : Int) = logical s a)
    (H2 : ∀ a, ¬ (old.valid = true ∧ (dec s a).setIdx = d.setIdx ∧ (dec s a).tag = old.tag) →
        s3.mem.cells ((wrap32 a : Nat) : Int) = s.mem.cells ((wrap32 a : Nat) : Int))
    (a : Int) :
    logical s3 a =
      if (dec s a).setIdx = d.setIdx ∧ (dec s a).tag = d.tag then
        byteOf (wordAt new.vals (dec s a).blockOff) (dec s a).byteOff
      else logical s a := by
  have hd : dec s3 a = dec s a := by show decode _ _ a = decode _ _ a; rw [hg]
  by_cases c1 : (dec s a).setIdx = d.setIdx ∧ (dec s a).tag = d.tag
  · rw [if_pos c1]
    have : lookup s3.sets (dec s3 a).setIdx (dec s3 a).tag = some new := by
      rw [hd, hl, if_pos c1]
    rw [logical_of_some this, hd]
  · rw [if_neg c1]
    by_cases c2 : (dec s a).setIdx = d.setIdx ∧ old.valid = true ∧ (dec s a).tag = old.tag
    · have : lookup s3.sets (dec s3 a).setIdx (dec s3 a).tag = none := by
        rw [hd, hl, if_neg c1, if_pos c2]
      rw [logical_of_none this]
      exact H1 a c2.2.1 c2.1 c2.2.2 (fun e => c1 ⟨c2.1, e⟩)
    · have hsame : lookup s3.sets (dec s3 a).setIdx (dec s3 a).tag =
          lookup s.sets (dec s a).setIdx (dec s a).tag := by
        rw [hd, hl, if_neg c1, if_neg c2]
      cases hlk : lookup s.sets (dec s a).setIdx (dec s a).tag with
      | none =>
        rw [hlk] at hsame
        rw [logical_of_none hsame, logical_of_none hlk]
        exact H2 a (fun h => c2 ⟨h.2.1, h.1, h.2.2⟩)
      | some w =>
        rw [hlk] at hsame
        rw [logical_of_some hsame, logical_of_some hlk, hd]

/-- Installing the block `vals` for the (valid data) address `addr`: `Cache.write_block` succeeds;
    a displaced block can be written back (`m'`); in the resulting state (backing memory `m'` under
    write-back, unchanged under write-through) the structural invariant holds and the logical
    contents are those of `s` except that the block of `addr` now reads as `vals`.
    This contains the C12 fact that an eviction never loses a written value. -/
theorem putBlock_spec {s : DSys σ} (hP : PolicyOK P s.geo.assoc WFp) (hs : CInv WFp s) (addr : Int)
    (hin : inData addr) (vals : List Nat) (hlen : vals.length = 2 ^ s.geo.blkBits)
    (hlt : ∀ x, x ∈ vals → x < 4294967296) :
    ∃ sets2 displaced m',
      writeBlock P s.sets (dec s addr) vals =
        .ok (sets2, (lookup s.sets (dec s addr).setIdx (dec s addr).tag).isSome, displaced) ∧
      ((lookup s.sets (dec s addr).setIdx (dec s addr).tag).isSome = true → displaced = none) ∧
      (displaced = none → m' = s.mem) ∧
      (∀ b ws, displaced = some (b, ws) → writeBlockToMem s.mem b ws 0 = (m', none)) ∧
      (∀ s3 : DSys σ, s3.geo = s.geo → s3.sets = sets2 →
        s3.mem = (if s.wt = true then s.mem else m') →
        CInvS WFp s3 ∧
        (∃ w, lookup s3.sets (dec s addr).setIdx (dec s addr).tag = some w ∧ w.vals = vals) ∧
        ∀ a, logical s3 a =
          if (dec s a).setIdx = (dec s addr).setIdx ∧ (dec s a).tag = (dec s addr).tag then
            byteOf (wordAt vals (dec s a).blockOff) (dec s a).byteOff
          else logical s a) := by
  have hk : (dec s addr).setIdx < 2 ^ s.geo.idxBits := decode_setIdx_lt _ _ _
  have hrange := decode_range s.geo.idxBits s.geo.blkBits addr hs.geo.blk hin
  have hnew : WayOK s.geo (dec s addr).setIdx ⟨true, true, (dec s addr).tag, (dec s addr).blockBase, vals⟩ :=
    ⟨rfl, fun _ => (decode_base _ _ _).symm, fun _ => hrange.1, fun _ => hrange.2, fun _ => hlen,
     fun _ => hlt⟩
  obtain ⟨sets', old, hw, hsets', hold_ok, hold_lk, hhit, hl⟩ :=
    writeBlock_spec hP hs.sets (dec s addr) hk vals hnew
  have hmOK := CInvS_memOK hs.toCInvS
  -- the memory after the (possible) write-back
  have hm' : ∃ m', MemOK m' ∧
      ((lookup s.sets (dec s addr).setIdx (dec s addr).tag).isSome = true ∨ old.valid = false → m' = s.mem) ∧
      ((lookup s.sets (dec s addr).setIdx (dec s addr).tag).isSome = false → old.valid = true →
        writeBlockToMem s.mem old.base old.vals 0 = (m', none) ∧
        (∀ j l, j < 2 ^ s.geo.blkBits → l < 4 →
          m'.cells ((old.base + 4 * j + l : Nat) : Int) = byteOf (wordAt old.vals j) l) ∧
        (∀ z : Int, (z < ((old.base : Nat) : Int) ∨
            ((old.base + 2 ^ (s.geo.blkBits + 2) : Nat) : Int) ≤ z) → m'.cells z = s.mem.cells z)) := by
    by_cases hc : (lookup s.sets (dec s addr).setIdx (dec s addr).tag).isSome = false ∧ old.valid = true
    · have hlen' := hold_ok.len hc.2
      have hhi := hold_ok.hi hc.2
      rw [pow_blk] at hhi
      obtain ⟨m', e1, e2, e3, e4⟩ := writeBlockToMem_ok hmOK old.base old.vals 0 (hold_ok.lo hc.2)
        (by rw [hlen']; omega)
      refine ⟨m', e2, ?_, ?_⟩
      · rintro (h | h)
        · rw [hc.1] at h; cases h
        · rw [hc.2] at h; cases h
      · intro _ _
        refine ⟨e1, ?_, ?_⟩
        · intro j l hj hl'
          have := e3 j l (by rw [hlen']; exact hj) hl'
          rw [Nat.zero_add] at this
          exact this
        · intro z hz
          apply e4
          rw [hlen', pow_blk] at *
          simp only [Nat.mul_zero, Nat.add_zero, Nat.zero_add]
          exact hz
    · refine ⟨s.mem, hmOK, fun _ => rfl, ?_⟩
      intro h1 h2
      exact absurd ⟨h1, h2⟩ hc
  obtain ⟨m', hm'OK, hm'same, hm'wb⟩ := hm'
  refine ⟨sets', _, m', hw, ?_, ?_, ?_, ?_⟩
  · intro h; rw [if_pos h]
  · intro h
    apply hm'same
    by_cases hc : (lookup s.sets (dec s addr).setIdx (dec s addr).tag).isSome = true
    · exact Or.inl hc
    · rw [if_neg hc] at h
      right
      cases hv : old.valid with
      | false => rfl
      | true => rw [if_pos hv] at h; cases h
  · intro b ws h
    by_cases hc : (lookup s.sets (dec s addr).setIdx (dec s addr).tag).isSome = true
    · rw [if_pos hc] at h; cases h
    · rw [if_neg hc] at h
      cases hv : old.valid with
      | false => rw [hv] at h; simp only [Bool.false_eq_true, if_false] at h; cases h
      | true =>
        rw [if_pos hv] at h
        cases h
        exact (hm'wb (by simpa using hc) hv).1
  · intro s3 hg hsets hmem
    have hmem3 : MemOK s3.mem := by
      rw [hmem]; split
      · exact hmOK
      · exact hm'OK
    refine ⟨⟨hg ▸ hs.geo, by rw [hg, hsets]; exact hsets', hmem3.cfg, hmem3.wf⟩, ?_, ?_⟩
    · refine ⟨⟨true, true, (dec s addr).tag, (dec s addr).blockBase, vals⟩, ?_, rfl⟩
      rw [hsets, hl, if_pos ⟨rfl, rfl⟩]
    · intro a
      rw [logical_after_put s s3 hg (dec s addr) _ old (by rw [hsets]; exact hl) ?_ ?_ a]
      · -- H1: the evicted block
        intro a hv h1 h2 h3
        have hmiss : (lookup s.sets (dec s addr).setIdx (dec s addr).tag).isSome = false := by
          cases hc : (lookup s.sets (dec s addr).setIdx (dec s addr).tag).isSome with
          | false => rfl
          | true => exact absurd (h2.trans (hhit hc).2) h3
        have hlk : lookup s.sets (dec s a).setIdx (dec s a).tag = some old := by
          rw [h1, h2]; exact hold_lk hv
        by_cases hwt : s.wt = true
        · rw [hmem, if_pos hwt]
          exact (hs.wtc hwt a).symm
        · rw [hmem, if_neg hwt, logical_of_some hlk]
          have ha := addr_in_way hold_ok hv a h1 h2
          rw [ha]
          exact (hm'wb hmiss hv).2.1 _ _ (decode_blockOff_lt _ _ _) (decode_byteOff_lt _ _ _)
      · -- H2: everything else
        intro a hne
        by_cases hwt : s.wt = true
        · rw [hmem, if_pos hwt]
        · rw [hmem, if_neg hwt]
          by_cases hc : (lookup s.sets (dec s addr).setIdx (dec s addr).tag).isSome = false ∧ old.valid = true
          · apply (hm'wb hc.1 hc.2).2.2
            have := addr_not_in_way hk hold_ok hc.2 a (fun h => hne ⟨hc.2, h.1, h.2⟩)
            omega
          · have : m' = s.mem := by
              apply hm'same
              cases h1 : (lookup s.sets (dec s addr).setIdx (dec s addr).tag).isSome with
              | true => exact Or.inl rfl
              | false =>
                right
                cases h2 : old.valid with
                | false => rfl
                | true => exact absurd ⟨h1, h2⟩ hc
            rw [this]

end ArchSim.Lemmas.C03
