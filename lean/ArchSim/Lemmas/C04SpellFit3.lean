/-
C04 (spelling independence, part 2): the body lemmas of C04SpellBody2 with the size limit only for the decimal
number style (`NumFits`). Generated from C04SpellBody2 by renaming; the proofs are the same.
-/
import ArchSim.Lemmas.C04SpellFit2

namespace ArchSim.Lemmas.C04Spell
open ArchSim ArchSim.PP ArchSim.Rv ArchSim.Asm ArchSim.Lemmas.C14

section bodies
variable (g w1 w2 w3 w4 tr : List Char) (hg : AllWs g) (hgne : g ≠ []) (h1 : AllWs w1) (h2 : AllWs w2)
  (h3 : AllWs w3) (h4 : AllWs w4) (htr : AllWs tr)

include hg hgne h1 h2 h3 h4 in
theorem bodyF_load (w5 : List Char) (h5 : AllWs w5) (op : Op) (h : cls op = .load) (a b : Nat) (v : Int)
    (ha : a < 32) (hb : b < 32)  (s1 s2 : RegStyle) (sn : NumStyle) (hv : NumFits sn v) :
    pInstrBody (mn op ++ tReg g s1 a (tSep w1 ',' (tNum w2 sn v (tSep w3 '(' (tReg w4 s2 b (tSep w5 ')' tr))))))
      = .ok (.grp (.mem op.mnemonic a v b)) tr := by
  have hr := mnSep_tReg g s1 a (tSep w1 ',' (tNum w2 sn v (tSep w3 '(' (tReg w4 s2 b (tSep w5 ')' tr))))) hg hgne
  rw [pInstrBody_eq]
  simp only [alts, List.map_cons, List.map_nil,
    chainF_MEM g w1 w2 w3 w4 tr hg hgne h1 h2 h3 h4 w5 h5 op (Or.inl h) a b v ha hb s1 s2 sn hv,
    pRType_failS op _ hr (by rw [h]; decide),
    pUType_failS op _ hr (by rw [h]; decide), pBType_failS op _ hr (by rw [h]; decide),
    pMemPseudo_failS_MEM g w1 w2 hg hgne h1 h2 op h a v ha,
    pRegRegImm_failS_MEM g w1 w2 hg hgne h1 h2 op (Or.inl h) a v ha,
    pSPseudo_failS op _ hr (by rw [h]; decide), pCsr_failS op _ hr (by rw [h]; decide),
    pCsri_failS op _ hr (by rw [h]; decide),
    pFence_failS op _ hr (by rw [h]; decide), pJal_failS op _ hr (by rw [h]; decide) (by rw [h]; decide),
    pEnv_failS op _ hr (by rw [h]; decide) (by rw [h]; decide), pNop_failS op _ hr, pLi_failS op _ hr,
    pMv_failS op _ hr, map_ok, map_fail]
  rfl

include hg hgne h1 h2 h3 h4 in
theorem bodyF_store (w5 : List Char) (h5 : AllWs w5) (op : Op) (h : cls op = .store) (a b : Nat) (v : Int)
    (ha : a < 32) (hb : b < 32)  (s1 s2 : RegStyle) (sn : NumStyle) (hv : NumFits sn v) :
    pInstrBody (mn op ++ tReg g s1 a (tSep w1 ',' (tNum w2 sn v (tSep w3 '(' (tReg w4 s2 b (tSep w5 ')' tr))))))
      = .ok (.grp (.mem op.mnemonic a v b)) tr := by
  have hr := mnSep_tReg g s1 a (tSep w1 ',' (tNum w2 sn v (tSep w3 '(' (tReg w4 s2 b (tSep w5 ')' tr))))) hg hgne
  rw [pInstrBody_eq]
  simp only [alts, List.map_cons, List.map_nil,
    chainF_MEM g w1 w2 w3 w4 tr hg hgne h1 h2 h3 h4 w5 h5 op (Or.inr h) a b v ha hb s1 s2 sn hv,
    pRType_failS op _ hr (by rw [h]; decide),
    pUType_failS op _ hr (by rw [h]; decide), pBType_failS op _ hr (by rw [h]; decide),
    pMemPseudo_failS op _ hr (by rw [h]; decide) (by rw [h]; decide),
    pSPseudo_failS_MEM g w1 w2 hg hgne h1 h2 op h a v ha,
    pRegRegImm_failS_MEM g w1 w2 hg hgne h1 h2 op (Or.inr h) a v ha,
    pCsr_failS op _ hr (by rw [h]; decide),
    pCsri_failS op _ hr (by rw [h]; decide),
    pFence_failS op _ hr (by rw [h]; decide), pJal_failS op _ hr (by rw [h]; decide) (by rw [h]; decide),
    pEnv_failS op _ hr (by rw [h]; decide) (by rw [h]; decide), pNop_failS op _ hr, pLi_failS op _ hr,
    pMv_failS op _ hr, map_ok, map_fail]
  rfl

include hg hgne h1 h2 htr in
theorem bodyF_U (op : Op) (h : cls op = .u) (a : Nat) (v : Int) (ha : a < 32) 
    (s1 : RegStyle) (sn : NumStyle) (hv : NumFits sn v) :
    pInstrBody (mn op ++ tReg g s1 a (tSep w1 ',' (tNum w2 sn v tr)))
      = .ok (.grp (.utype op.mnemonic a v)) tr := by
  have hr := mnSep_tReg g s1 a (tSep w1 ',' (tNum w2 sn v tr)) hg hgne
  rw [pInstrBody_eq]
  simp only [alts, List.map_cons, List.map_nil, chainF_U g w1 w2 tr hg hgne h1 h2 htr op h a v ha s1 sn hv,
    pRType_failS op _ hr (by rw [h]; decide), pBType_failS op _ hr (by rw [h]; decide),
    pMemory_failS op _ hr (by rw [h]; decide) (by rw [h]; decide) (by rw [h]; decide),
    pMemPseudo_failS op _ hr (by rw [h]; decide) (by rw [h]; decide),
    pSPseudo_failS op _ hr (by rw [h]; decide), pCsr_failS op _ hr (by rw [h]; decide),
    pCsri_failS op _ hr (by rw [h]; decide),
    pRegRegImm_failS op _ hr (by rw [h]; decide) (by rw [h]; decide) (by rw [h]; decide) (by rw [h]; decide)
      (by rw [h]; decide),
    pFence_failS op _ hr (by rw [h]; decide), pJal_failS op _ hr (by rw [h]; decide) (by rw [h]; decide),
    pEnv_failS op _ hr (by rw [h]; decide) (by rw [h]; decide), pNop_failS op _ hr, pLi_failS op _ hr,
    pMv_failS op _ hr, map_ok, map_fail]
  rfl

include hg hgne h1 h2 htr in
theorem bodyF_J (a : Nat) (v : Int) (ha : a < 32)  (s1 : RegStyle) (sn : NumStyle) (hv : NumFits sn v) :
    pInstrBody (mn .jal ++ tReg g s1 a (tSep w1 ',' (tNum w2 sn v tr))) = .ok (.grp (.jalImm a v)) tr := by
  have hr := mnSep_tReg g s1 a (tSep w1 ',' (tNum w2 sn v tr)) hg hgne
  rw [pInstrBody_eq]
  simp only [alts, List.map_cons, List.map_nil, chainF_J g w1 w2 tr hg hgne h1 h2 htr a v ha s1 sn hv,
    pRType_failS .jal _ hr (by decide), pUType_failS .jal _ hr (by decide), pBType_failS .jal _ hr (by decide),
    pMemory_failS .jal _ hr (by decide) (by decide) (by decide),
    pMemPseudo_failS .jal _ hr (by decide) (by decide),
    pSPseudo_failS .jal _ hr (by decide), pCsr_failS .jal _ hr (by decide),
    pCsri_failS .jal _ hr (by decide),
    pRegRegImm_failS .jal _ hr (by decide) (by decide) (by decide) (by decide) (by decide),
    pFence_failS .jal _ hr (by decide),
    pEnv_failS .jal _ hr (by decide) (by decide), pNop_failS .jal _ hr, pLi_failS .jal _ hr,
    pMv_failS .jal _ hr, map_ok, map_fail]
  rfl

include hg hgne h1 h2 h3 h4 htr in
theorem bodyF_CSR (op : Op) (h : cls op = .csr) (a b : Nat) (n : Int) (ha : a < 32) (hb : b < 32)
     (s1 s2 : RegStyle) (sn : NumStyle) (hn : NumFits sn n) :
    pInstrBody (mn op ++ tReg g s1 a (tSep w1 ',' (tNum w2 sn n (tSep w3 ',' (tReg w4 s2 b tr)))))
      = .ok (.grp (.csr op.mnemonic a n b)) tr := by
  have hr := mnSep_tReg g s1 a (tSep w1 ',' (tNum w2 sn n (tSep w3 ',' (tReg w4 s2 b tr)))) hg hgne
  rw [pInstrBody_eq]
  simp only [alts, List.map_cons, List.map_nil,
    chainF_CSR g w1 w2 w3 w4 tr hg hgne h1 h2 h3 h4 htr op h a b n ha hb s1 s2 sn hn,
    pRType_failS op _ hr (by rw [h]; decide),
    pUType_failS op _ hr (by rw [h]; decide), pBType_failS op _ hr (by rw [h]; decide),
    pMemory_failS op _ hr (by rw [h]; decide) (by rw [h]; decide) (by rw [h]; decide),
    pMemPseudo_failS op _ hr (by rw [h]; decide) (by rw [h]; decide),
    pSPseudo_failS op _ hr (by rw [h]; decide),
    pCsri_failS op _ hr (by rw [h]; decide),
    pRegRegImm_failS op _ hr (by rw [h]; decide) (by rw [h]; decide) (by rw [h]; decide) (by rw [h]; decide)
      (by rw [h]; decide),
    pFence_failS op _ hr (by rw [h]; decide), pJal_failS op _ hr (by rw [h]; decide) (by rw [h]; decide),
    pEnv_failS op _ hr (by rw [h]; decide) (by rw [h]; decide), pNop_failS op _ hr, pLi_failS op _ hr,
    pMv_failS op _ hr, map_ok, map_fail]
  rfl

include hg hgne h1 h2 h3 h4 htr in
theorem bodyF_CSRI (op : Op) (h : cls op = .csri) (a : Nat) (n v : Int) (ha : a < 32)
    (s1 : RegStyle) (sn sv : NumStyle) (hn : NumFits sn n) (hv : NumFits sv v) :
    pInstrBody (mn op ++ tReg g s1 a (tSep w1 ',' (tNum w2 sn n (tSep w3 ',' (tNum w4 sv v tr)))))
      = .ok (.grp (.csri op.mnemonic a n v)) tr := by
  have hr := mnSep_tReg g s1 a (tSep w1 ',' (tNum w2 sn n (tSep w3 ',' (tNum w4 sv v tr)))) hg hgne
  rw [pInstrBody_eq]
  simp only [alts, List.map_cons, List.map_nil,
    chainF_CSRI g w1 w2 w3 w4 tr hg hgne h1 h2 h3 h4 htr op h a n v ha s1 sn sv hn hv,
    pRType_failS op _ hr (by rw [h]; decide),
    pUType_failS op _ hr (by rw [h]; decide), pBType_failS op _ hr (by rw [h]; decide),
    pMemory_failS op _ hr (by rw [h]; decide) (by rw [h]; decide) (by rw [h]; decide),
    pMemPseudo_failS op _ hr (by rw [h]; decide) (by rw [h]; decide),
    pSPseudo_failS op _ hr (by rw [h]; decide),
    pCsr_failS op _ hr (by rw [h]; decide),
    pRegRegImm_failS op _ hr (by rw [h]; decide) (by rw [h]; decide) (by rw [h]; decide) (by rw [h]; decide)
      (by rw [h]; decide),
    pFence_failS op _ hr (by rw [h]; decide), pJal_failS op _ hr (by rw [h]; decide) (by rw [h]; decide),
    pEnv_failS op _ hr (by rw [h]; decide) (by rw [h]; decide), pNop_failS op _ hr, pLi_failS op _ hr,
    pMv_failS op _ hr, map_ok, map_fail]
  rfl

end bodies

end ArchSim.Lemmas.C04Spell
