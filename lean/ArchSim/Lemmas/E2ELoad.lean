/-
End-to-end, part 2: the program stored by a successful `Asm.load` is well formed (`ProgWF`, in the three
forms the execution theorems use) as soon as all its operations are in the supported set.
-/
import ArchSim.Lemmas.E2EInstr
import ArchSim.Lemmas.C14Loaded
import ArchSim.Lemmas.C02Compose
import ArchSim.Lemmas.C03ProgPipe
import ArchSim.Lemmas.C09ProgRun

namespace ArchSim.Lemmas.E2E
open ArchSim ArchSim.PP ArchSim.Rv ArchSim.Asm ArchSim.Lemmas.C14

/-- Every instruction of a successfully loaded program is a `BuiltObj`; the program fits. -/
theorem load_objs (s : St) (text : String) (h : (load s text).err = none) :
    (∀ i ∈ (load s text).st.imem.prog, BuiltObj i) ∧ (load s text).st.imem.prog.length ≤ 4096 := by
  obtain ⟨ls, es, hg, hb, hlen⟩ := load_ok_built s text h
  exact ⟨buildInstrs_objs ls es 0 _ hg hb, hlen⟩

/-- All operations of the program are in the supported set (no CSR form, `fence`, `ebreak`). -/
def AllSupported (prog : List Instr) : Prop := ∀ i ∈ prog, i.op.supported = true

instance (prog : List Instr) : Decidable (AllSupported prog) := by unfold AllSupported; infer_instance

theorem load_wf (s : St) (text : String) (h : (load s text).err = none)
    (hs : AllSupported (load s text).st.imem.prog) :
    ∀ i, i ∈ (load s text).st.imem.prog → i.WF :=
  fun i hi => ((load_objs s text h).1 i hi).wf (hs i hi)

theorem load_progWF_pipe (s : St) (text : String) (h : (load s text).err = none)
    (hs : AllSupported (load s text).st.imem.prog) : Pipe.ProgWF (load s text).st.imem.prog :=
  ⟨(load_objs s text h).2, load_wf s text h hs⟩

theorem load_progWF_c03 (s : St) (text : String) (h : (load s text).err = none)
    (hs : AllSupported (load s text).st.imem.prog) :
    ArchSim.Lemmas.C03Prog.ProgWF (load s text).st.imem.prog :=
  ⟨(load_objs s text h).2, load_wf s text h hs⟩

theorem load_progWF_c09 (s : St) (text : String) (h : (load s text).err = none)
    (hs : AllSupported (load s text).st.imem.prog) :
    ArchSim.Lemmas.C09Prog.ProgWF (load s text).st.imem :=
  load_wf s text h hs

end ArchSim.Lemmas.E2E
