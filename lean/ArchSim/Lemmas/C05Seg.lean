/-
C05 helper lemmas, part 7: `_segment` — the order of the `.data` and `.text` segments does not matter.
-/
import ArchSim.Model.Asm

namespace ArchSim.Lemmas.C05
open ArchSim ArchSim.Asm ArchSim.Rv

/-- the step function of `segment` (a copy of the model's local `step`) -/
def segStep (acc : Except AsmErr Seg) (e : Entry) : Except AsmErr Seg :=
  match acc with
  | .error x => .error x
  | .ok s =>
    if isDir "data" e then
      if !s.dataExists then
        let idx := idxOfLine e.1 s.text
        .ok { s with dataExists := true, data := s.text.drop (idx + 1), text := s.text.take idx }
      else .error (.parser "ParserDirectiveException" e.1 e.2.1)
    else if isDir "text" e then
      if !s.textExists then
        let idx := idxOfLine e.1 s.data
        .ok { s with textExists := true, text := s.data.drop (idx + 1), data := s.data.take idx }
      else .error (.parser "ParserDirectiveException" e.1 e.2.1)
    else .ok s

/-- the initial state of `segment` -/
def seg0 (first : Entry) (rest : List Entry) : Seg :=
  if isDir "data" first then { data := rest, text := [], dataExists := true, textExists := false }
  else if isDir "text" first then { data := [], text := rest, dataExists := false, textExists := true }
  else { data := [], text := first :: rest, dataExists := false, textExists := true }

theorem segment_cons (first : Entry) (rest : List Entry) :
    segment (first :: rest) =
      match rest.foldl segStep (.ok (seg0 first rest)) with
      | .error x => .error x
      | .ok s => .ok (s.data, s.text) := by
  rfl

/-- no entry of the list is a segment directive -/
def noDir (l : List Entry) : Prop := ∀ e ∈ l, isDir "data" e = false ∧ isDir "text" e = false

theorem foldl_noDir (l : List Entry) (s : Seg) (h : noDir l) : l.foldl segStep (.ok s) = .ok s := by
  induction l with
  | nil => rfl
  | cons e rest ih =>
    have he := h e (List.mem_cons_self ..)
    simp only [List.foldl_cons, segStep, he.1, he.2, Bool.false_eq_true, if_false]
    exact ih (fun x hx => h x (List.mem_cons_of_mem _ hx))

theorem findIdx_append_hit {α} (p : α → Bool) (l₁ l₂ : List α) (x : α) (h1 : ∀ e ∈ l₁, p e = false)
    (hx : p x = true) : (l₁ ++ x :: l₂).findIdx p = l₁.length := by
  induction l₁ with
  | nil => simp [List.findIdx_cons, hx]
  | cons a as ih =>
    simp only [List.cons_append, List.findIdx_cons, h1 a (List.mem_cons_self ..), List.length_cons]
    simp only [cond_false]
    rw [ih (fun e he => h1 e (List.mem_cons_of_mem _ he))]

theorem idxOfLine_append (l₁ l₂ : List Entry) (x : Entry) (h1 : ∀ e ∈ l₁, e.1 ≠ x.1) :
    idxOfLine x.1 (l₁ ++ x :: l₂) = l₁.length := by
  apply findIdx_append_hit
  · intro e he; simp [h1 e he]
  · simp

theorem isDir_text_not_data (e : Entry) (h : isDir "text" e = true) : isDir "data" e = false := by
  simp only [isDir, Bool.and_eq_true, beq_iff_eq] at h
  simp only [isDir, h.1, Bool.and_eq_false_iff]
  left
  decide

theorem isDir_data_not_text (e : Entry) (h : isDir "data" e = true) : isDir "text" e = false := by
  simp only [isDir, Bool.and_eq_true, beq_iff_eq] at h
  simp only [isDir, h.1, Bool.and_eq_false_iff]
  left
  decide

/-- `.data` first: `[.data] ++ data ++ [.text] ++ text` -/
theorem segment_data_first (d t : Entry) (data text : List Entry) (hd : isDir "data" d = true)
    (ht : isDir "text" t = true) (hnd : noDir data) (hnt : noDir text) (hline : ∀ e ∈ data, e.1 ≠ t.1) :
    segment (d :: (data ++ t :: text)) = .ok (data, text) := by
  rw [segment_cons, List.foldl_append, List.foldl_cons]
  simp only [seg0, hd, if_true]
  rw [foldl_noDir data _ hnd]
  simp only [segStep, isDir_text_not_data t ht, ht, Bool.false_eq_true, if_false, if_true, Bool.not_false,
    idxOfLine_append data text t hline]
  rw [foldl_noDir text _ hnt]
  simp

/-- `.text` first: `[.text] ++ text ++ [.data] ++ data` -/
theorem segment_text_first (d t : Entry) (data text : List Entry) (hd : isDir "data" d = true)
    (ht : isDir "text" t = true) (hnd : noDir data) (hnt : noDir text) (hline : ∀ e ∈ text, e.1 ≠ d.1) :
    segment (t :: (text ++ d :: data)) = .ok (data, text) := by
  rw [segment_cons, List.foldl_append, List.foldl_cons]
  simp only [seg0, isDir_text_not_data t ht, ht, Bool.false_eq_true, if_false, if_true]
  rw [foldl_noDir text _ hnt]
  simp only [segStep, hd, if_true, Bool.not_false, idxOfLine_append text data d hline]
  rw [foldl_noDir data _ hnd]
  simp

/-- no `.text` directive: `text ++ [.data] ++ data` with a non-empty `text` -/
theorem segment_text_implicit (d first : Entry) (data text' : List Entry) (hd : isDir "data" d = true)
    (hnd : noDir data) (hnt : noDir (first :: text')) (hline : ∀ e ∈ first :: text', e.1 ≠ d.1) :
    segment (first :: (text' ++ d :: data)) = .ok (data, first :: text') := by
  have hf := hnt first (List.mem_cons_self ..)
  rw [segment_cons, List.foldl_append, List.foldl_cons]
  simp only [seg0, hf.1, hf.2, Bool.false_eq_true, if_false]
  rw [foldl_noDir text' _ (fun e he => hnt e (List.mem_cons_of_mem _ he))]
  have hidx : idxOfLine d.1 (first :: (text' ++ d :: data)) = (first :: text').length := by
    rw [← List.cons_append]; exact idxOfLine_append (first :: text') data d hline
  simp only [segStep, hd, if_true, Bool.not_false, hidx]
  rw [foldl_noDir data _ hnd]
  simp

/-- no directive at all: everything is text -/
theorem segment_no_directive (first : Entry) (text' : List Entry) (hnt : noDir (first :: text')) :
    segment (first :: text') = .ok ([], first :: text') := by
  have hf := hnt first (List.mem_cons_self ..)
  rw [segment_cons]
  simp only [seg0, hf.1, hf.2, Bool.false_eq_true, if_false]
  rw [foldl_noDir text' _ (fun e he => hnt e (List.mem_cons_of_mem _ he))]

/-! ### `load` only looks at the pair `(data, text)` that `segment` returns -/

/-- everything `load` does after segmentation (a copy of the tail of the model's `load`) -/
def loadSeg (s0 : St) (data text' : List Entry) : LoadOut :=
  let pending : List (Nat × String) := text'.filterMap fun (k, _, t) => t.lbl.map fun l => (k, l)
  let tentries : List TEntry := text'.map fun (k, line, t) => (k, line, t.item)
  let d := writeData data { mem := s0.mem, vars := [], ctr := 16384, err := none }
  let s1 := { s0 with mem := d.mem }
  match d.err with
  | some e => { st := s1, err := some e }
  | none =>
    match expandAll d.vars tentries with
    | .error e => { st := s1, err := some e }
    | .ok expanded =>
      match processLabels expanded pending [] 0 with
      | .error e => { st := s1, err := some e }
      | .ok ls =>
        match buildInstrs ls expanded 0 with
        | .error e => { st := s1, err := some e }
        | .ok instrs =>
          if instrs.length > 4096 then
            { st := { s1 with imem := { s1.imem with prog := instrs.take 4096 } }, err := some (.memAddr 16384) }
          else { st := { s1 with imem := { s1.imem with prog := instrs } }, err := none }

/-- the state `load` resets to before the passes run -/
def loadReset (s : St) : St :=
  { s with mem := s.mem.reset, imem := { prog := [], cache := s.imem.cache.map ICache.reset } }

theorem load_factors (s : St) (text : String) :
    load s text =
      match tokenize (sanitize text) with
      | .error e => { st := loadReset s, err := some e }
      | .ok toks =>
        match segment toks with
        | .error e => { st := loadReset s, err := some e }
        | .ok (data, text') => loadSeg (loadReset s) data text' := by
  rfl

/-- if two sources tokenize to lists that `segment` splits into the same pair, `load` gives the same
    result -/
theorem load_eq_of_segment_eq (s : St) (t₁ t₂ : String) (toks₁ toks₂ : List Entry)
    (h₁ : tokenize (sanitize t₁) = .ok toks₁) (h₂ : tokenize (sanitize t₂) = .ok toks₂)
    (hs : segment toks₁ = segment toks₂) : load s t₁ = load s t₂ := by
  rw [load_factors, load_factors, h₁, h₂]
  simp only [hs]

end ArchSim.Lemmas.C05
