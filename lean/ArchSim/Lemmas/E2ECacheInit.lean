/-
End-to-end, part 5: the start states of the cache theorems. Loading the same text into a state with a freshly
built data cache and into the same state with the flat data memory gives `CacheRel`-related states (C03Prog),
and the cached one satisfies `StepHyp` (C09Prog / C11Prog).
-/
import ArchSim.Lemmas.E2ECache
import ArchSim.Lemmas.C03ProgInit
import ArchSim.Lemmas.C09ProgEx

namespace ArchSim.Lemmas.E2E
open ArchSim ArchSim.Rv ArchSim.Asm ArchSim.Mem ArchSim.Cache ArchSim.Spec.ByteStore ArchSim.Lemmas.C18
open ArchSim.Spec.CacheAbs (GeoOK preload)

/-- `s` with a freshly built data cache (policy `l`: LRU / PLRU, write-through flag `wt`, geometry `g`, miss
    penalty) over the empty RISC-V memory instead of its data memory. -/
def withCache (s : St) (l wt : Bool) (g : Geo) (penalty : Nat) : St :=
  { s with mem := .cached l (DSys.init (polOps l) wt g penalty (Mem.empty riscvCfg)) }

theorem load_flat_empty (s : St) (m : Mem) (hm : s.mem = .flat m) (hc : m.cfg = riscvCfg) (text : String) :
    load { s with mem := .flat (Mem.empty riscvCfg) } text = load s text := by
  apply load_congr
  simp only [resetSt, hm, MemSys.reset, Mem.reset, hc]
  rfl

/-- The cached load against the flat load of the same text: same error, and the cached result is the flat
    result with the data memory replaced by the initial cache system after the same preload `h`. -/
theorem load_withCache (s : St) (m : Mem) (hm : s.mem = .flat m) (hc : m.cfg = riscvCfg) (l wt : Bool)
    (g : Geo) (penalty : Nat) (text : String) :
    (load (withCache s l wt g penalty) text).err = (load s text).err ∧
    ∃ h : List Spec.ByteStore.Op, (load s text).st.mem = .flat (run riscvCfg h) ∧
      (load (withCache s l wt g penalty) text).st = { (load s text).st with
        mem := .cached l (preload (DSys.init (polOps l) wt g penalty (Mem.empty riscvCfg)) h) } := by
  obtain ⟨he, h, h1, h2⟩ := load_cached (withCache s l wt g penalty) l _ rfl rfl text
  have e : ({ withCache s l wt g penalty with mem := .flat (Mem.empty riscvCfg) } : St) =
      { s with mem := .flat (Mem.empty riscvCfg) } := rfl
  rw [e, load_flat_empty s m hm hc] at he h1 h2
  exact ⟨he, h, h1, h2⟩

/-- The two loaded states are related by C03Prog's `CacheRel`. -/
theorem load_cacheRel (s : St) (m : Mem) (hm : s.mem = .flat m) (hc : m.cfg = riscvCfg) (l wt : Bool)
    (g : Geo) (hg : GeoOK g) (ha : ArchSim.Lemmas.C09.AssocOK l g.assoc) (penalty : Nat) (text : String) :
    ArchSim.Lemmas.C03Prog.CacheRel (load (withCache s l wt g penalty) text).st (load s text).st := by
  obtain ⟨_, h, h1, h2⟩ := load_withCache s m hm hc l wt g penalty text
  have hr := ArchSim.Lemmas.C03Prog.cacheRel_init (load s text).st g hg l ha wt penalty h
    (load s text).st.cycles (load s text).st.stalls (load s text).st.flushes
  rw [← h2, ← h1] at hr
  exact hr

/-- The loaded state with the data cache satisfies C09Prog's `StepHyp` when the load succeeds and the program
    is in the supported set. -/
theorem load_stepHyp (s : St) (hs : ArchSim.Lemmas.C01.StOK s) (hic : s.imem.cache = none) (l wt : Bool)
    (g : Geo) (hg : GeoOK g) (ha : ArchSim.Lemmas.C09.AssocOK l g.assoc) (penalty : Nat) (text : String)
    (h : (load s text).err = none) (hsup : AllSupported (load s text).st.imem.prog) :
    ArchSim.Lemmas.C09Prog.StepHyp (load (withCache s l wt g penalty) text).st := by
  obtain ⟨m, hm, hc, _⟩ := hs.flat
  obtain ⟨_, hist, h1, h2⟩ := load_withCache s m hm hc l wt g penalty text
  have him := load_imem s text hic
  have hregs := (load_frame s text).1
  rw [h2]
  refine ⟨?_, ?_, ?_, ⟨?_, ?_⟩⟩
  · show (load s text).st.imem.cache = none
    rw [him]
  · exact (load_objs s text h).2
  · exact load_progWF_c09 s text h hsup
  · intro r
    show (load s text).st.regs r < 4294967296
    rw [hregs]; exact hs.regs_lt r
  · exact ⟨l, _, rfl, ArchSim.Lemmas.C09Prog.DOK_preload l wt g penalty hg ha hist⟩

end ArchSim.Lemmas.E2E
