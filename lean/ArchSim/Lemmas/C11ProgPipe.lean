/-
C11 (program level), part 3: the sequential reference run (`Pipe.seqRun`) does not depend on the
instruction-cache state (up to `SimP`), hence neither do the final results of the five-stage
pipeline (`final_state`).
-/
import ArchSim.Lemmas.C11ProgSingle
import ArchSim.Lemmas.C02Conv

namespace ArchSim.Lemmas.C11Prog
open ArchSim ArchSim.Cache ArchSim.Rv ArchSim.Pipe ArchSim.Lemmas.C09 ArchSim.Lemmas.C11

/-- Sequential runs from `SimP`-related states with coherent instruction memories stay related. -/
theorem seqRun_simP {s t : St} (h : SimP s t) (hs : ICoh s.imem) (ht : ICoh t.imem) :
    ∀ n, SimP (seqRun n s) (seqRun n t)
  | 0 => h
  | n + 1 =>
    (seqStep_simP (seqRun_simP h hs ht n) (ICoh_seqRun s hs n).fetchSound
      (ICoh_seqRun t ht n).fetchSound).1

theorem seqFault_run_congr {s t : St} (h : SimP s t) (hs : ICoh s.imem) (ht : ICoh t.imem) (n : Nat) :
    seqFault (seqRun n s) = seqFault (seqRun n t) :=
  (seqStep_simP (seqRun_simP h hs ht n) (ICoh_seqRun s hs n).fetchSound
    (ICoh_seqRun t ht n).fetchSound).2

theorem seqTrace_congr {s t : St} (h : SimP s t) (hs : ICoh s.imem) (ht : ICoh t.imem) :
    ∀ n, seqTrace n s = seqTrace n t
  | 0 => rfl
  | n + 1 => by
    rw [seqTrace, seqTrace, seqTrace_congr h hs ht n,
      seqLog_congr (seqRun_simP h hs ht n) (ICoh_seqRun s hs n).fetchSound
        (ICoh_seqRun t ht n).fetchSound]

/-- The first index at which a Boolean sequence is true is unique. -/
theorem first_true_unique {f : Nat → Bool} {a b : Nat} (ha : f a = true) (hb : f b = true)
    (ha' : ∀ j, j < a → f j = false) (hb' : ∀ j, j < b → f j = false) : a = b := by
  rcases Nat.lt_trichotomy a b with h | h | h
  · have := hb' a h; rw [ha] at this; cases this
  · exact h
  · have := ha' b h; rw [hb] at this; cases this

/-- Fault-free five-stage runs to completion from `SimP`-related initial states with coherent
    instruction memories end in `SimP`-related states and retire the same addresses. -/
theorem five_stage_results_congr {s t : St} (h : SimP s t) (hps : ProgOK s.imem) (hpt : ProgOK t.imem)
    (hs : ICoh s.imem) (ht : ICoh t.imem) (hx : s.exitCode = none)
    (n : Nat) (hrn : runOK n (PSt.init s true)) (hdn : isDone (pipeRun n (PSt.init s true)) = true)
    (hpn : ∀ j, j < n → isDone (pipeRun j (PSt.init s true)) = false)
    (m : Nat) (hrm : runOK m (PSt.init t true)) (hdm : isDone (pipeRun m (PSt.init t true)) = true)
    (hpm : ∀ j, j < m → isDone (pipeRun j (PSt.init t true)) = false) :
    SimP (pipeRun n (PSt.init s true)).st (pipeRun m (PSt.init t true)).st ∧
      retireLog n (PSt.init s true) = retireLog m (PSt.init t true) ∧
      ∃ k, k ≤ n ∧ k ≤ m ∧ SimP (pipeRun n (PSt.init s true)).st (seqRun k s) ∧
        SimP (pipeRun m (PSt.init t true)).st (seqRun k t) := by
  have hxt : t.exitCode = none := by rw [← h.1.exitCode]; exact hx
  obtain ⟨k, hk, hsim, hd, hnd, hlog, _⟩ := final_state_init s hps hs hx n hrn hdn hpn
  obtain ⟨k', hk', hsim', hd', hnd', hlog', _⟩ := final_state_init t hpt ht hxt m hrm hdm hpm
  have hrun := seqRun_simP h hs ht
  have hkk : k = k' := by
    apply first_true_unique (f := fun j => singleDone (seqRun j s)) hd _ hnd
    · intro j hj; show singleDone (seqRun j s) = false
      rw [singleDone_congr (hrun j)]; exact hnd' j hj
    · show singleDone (seqRun k' s) = true
      rw [singleDone_congr (hrun k')]; exact hd'
  subst hkk
  refine ⟨hsim.trans ((hrun k).trans hsim'.symm), ?_, k, hk, hk', hsim, hsim'⟩
  rw [hlog, hlog', seqTrace_congr h hs ht k]

end ArchSim.Lemmas.C11Prog

namespace ArchSim.Lemmas.C11Prog
open ArchSim ArchSim.Cache ArchSim.Rv ArchSim.Pipe ArchSim.Lemmas.C09 ArchSim.Lemmas.C11

/-- Without an instruction cache a single-cycle step leaves the instruction memory alone. -/
theorem singleStep_imem_nocache (s : St) (hc : s.imem.cache = none) : (singleStep s).st.imem = s.imem := by
  cases hi : s.imem.instrAt s.pc with
  | none => exact (singleStep_none s hi).1
  | some i =>
    rw [(singleStep_some s hi).1]
    unfold IMem.fetch; rw [hc]; simp only []
    split
    · split <;> rfl
    · rfl

theorem singleRun_imem_nocache (n : Nat) : ∀ (s : St), s.imem.cache = none → (singleRun n s).imem = s.imem := by
  induction n with
  | zero => intro s _; rfl
  | succ n ih =>
    intro s hc
    have h1 := singleStep_imem_nocache s hc
    rw [singleRun, ih _ (by rw [h1]; exact hc), h1]

/-- `singleRun` unfolds at the end as well. -/
theorem singleRun_succ' (n : Nat) : ∀ (s : St), singleRun (n + 1) s = (singleStep (singleRun n s)).st := by
  induction n with
  | zero => intro s; rfl
  | succ n ih => intro s; rw [singleRun, ih (singleStep s).st]; rfl

/-! ### Concrete objects for the non-vacuity examples of `Props/C11Prog.lean` -/

/-- A two-instruction program. -/
def exProg2 : List Instr :=
  [ { op := .addi, rd := 1, rs1 := 0, imm := 5 }, { op := .add, rd := 2, rs1 := 1, rs2 := 1 } ]
/-- A one-set instruction cache: 2-word blocks, one way. -/
def exGeo1 : Geo := { idxBits := 0, blkBits := 1, assoc := 1 }
def exCache1 : ICache := ICache.init true exGeo1 7
def exStN : St :=
  { regs := fun _ => 0, pc := 0, mem := .flat (Mem.Mem.empty Mem.riscvCfg),
    imem := { prog := exProg2, cache := none }, output := "", exitCode := none, cycles := 0, instrs := 0,
    branches := 0, procs := 0, stalls := 0, flushes := 0 }
def exStC : St := { exStN with imem := { prog := exProg2, cache := some exCache1 } }

end ArchSim.Lemmas.C11Prog
