/-
End-to-end layer, part 2 (source-level padding, step 2): the passes of `load` on SIMPLE entries. A text all of whose
lines are simple (`Lemmas/E2E2Simple.lean`) is assembled line by line: the stored program is the list of the
`lineInstr` of its entry texts — no data, no labels, nothing depends on addresses or line numbers.
-/
import ArchSim.Lemmas.E2E2Simple
import ArchSim.Lemmas.C14Load
import ArchSim.Lemmas.C05Seg
import ArchSim.Lemmas.C04SpellLoad

namespace ArchSim.Lemmas.E2E2
open ArchSim ArchSim.Rv ArchSim.Asm
open ArchSim.Lemmas.C14 (tentriesOf foldl_fixed)

/-- `es` are label-free simple entries and `is` their instructions -/
def Good2 : List Entry → List Instr → Prop
  | [], [] => True
  | e :: es, i :: is => e.2.2.lbl = none ∧ itemInstr e.2.2.item = some i ∧ Good2 es is
  | _, _ => False

/-- the text entries after pseudo-instruction expansion -/
def expEntries : List Entry → List TEntry
  | [] => []
  | (k, line, t) :: es =>
    match expItem t.item with
    | some it' => (k, line, it') :: expEntries es
    | none => expEntries es

theorem itemInstr_cases {it : Item} {i : Instr} (h : itemInstr it = some i) :
    ∃ it', expItem it = some it' ∧
      ((it' = .str "ecall" ∧ i = { op := .ecall }) ∨ (it' = .str "ebreak" ∧ i = { op := .ebreak, imm := 1 }) ∨
       ∃ pi, it' = .grp pi ∧ piInstr pi = some i) := by
  unfold itemInstr at h
  cases he : expItem it with
  | none => rw [he] at h; cases h
  | some it' =>
    rw [he] at h
    refine ⟨it', rfl, ?_⟩
    simp only [Option.bind_some] at h
    cases it' with
    | str s =>
      simp only [builtItem] at h
      split at h
      · rename_i hs; cases h; exact .inl ⟨by rw [hs], rfl⟩
      · split at h
        · rename_i hs; cases h; exact .inr (.inl ⟨by rw [hs], rfl⟩)
        · cases h
    | grp pi => exact .inr (.inr ⟨pi, rfl, h⟩)
    | varDecl _ _ _ => simp [builtItem] at h
    | strDecl _ _ => simp [builtItem] at h
    | zeroDecl _ _ => simp [builtItem] at h
    | directive _ => simp [builtItem] at h

theorem tokenize_simple (nl : List (Nat × List Char)) (h : ∀ p ∈ nl, (lineInstr p.2).isSome = true) :
    ∃ es, tokenize nl = .ok es ∧ Good2 es (nl.filterMap fun p => lineInstr p.2) := by
  induction nl with
  | nil => exact ⟨[], rfl, trivial⟩
  | cons p nl ih =>
    obtain ⟨k, l⟩ := p
    obtain ⟨es, hes, hg⟩ := ih (fun q hq => h q (List.mem_cons_of_mem _ hq))
    have hp := h (k, l) List.mem_cons_self
    simp only [lineInstr] at hp
    cases hpl : parseLine l with
    | none => rw [hpl] at hp; cases hp
    | some tok =>
      rw [hpl] at hp
      simp only at hp
      by_cases hlb : tok.lbl.isNone = true
      · simp only [hlb, if_true] at hp
        obtain ⟨i, hi⟩ := Option.isSome_iff_exists.1 hp
        refine ⟨(k, String.ofList l, tok) :: es, by simp only [tokenize, hpl, hes], ?_⟩
        have hli : lineInstr l = some i := by simp only [lineInstr, hpl, hlb, if_true, hi]
        simp only [List.filterMap_cons, hli]
        exact ⟨Option.isNone_iff_eq_none.1 hlb, hi, hg⟩
      · simp only [hlb, Bool.false_eq_true, if_false] at hp
        cases hp

/-! ### the passes on simple entries -/

theorem good2_mem {es : List Entry} {is : List Instr} (h : Good2 es is) :
    ∀ e ∈ es, e.2.2.lbl = none ∧ ∃ i, itemInstr e.2.2.item = some i := by
  induction es generalizing is with
  | nil => intro e he; cases he
  | cons e es ih =>
    cases is with
    | nil => exact absurd h (by simp [Good2])
    | cons i is =>
      obtain ⟨hl, hi, hg⟩ := h
      intro e' he'
      rcases List.mem_cons.mp he' with rfl | he'
      · exact ⟨hl, i, hi⟩
      · exact ih hg e' he'

theorem good2_not_dir {es : List Entry} {is : List Instr} (h : Good2 es is) (d : String) :
    ∀ e ∈ es, isDir d e = false := by
  intro e he
  obtain ⟨_, i, hi⟩ := good2_mem h e he
  unfold isDir
  cases hit : e.2.2.item with
  | directive d' => rw [hit] at hi; simp [itemInstr, expItem] at hi
  | _ => simp

theorem segment_good2 {es : List Entry} {is : List Instr} (h : Good2 es is) : segment es = .ok ([], es) := by
  cases es with
  | nil => rfl
  | cons e es =>
    have hd := good2_not_dir h "data"
    have ht := good2_not_dir h "text"
    unfold segment
    simp only [hd e (by simp), ht e (by simp), Bool.false_eq_true, if_false]
    rw [foldl_fixed]
    intro e' he'
    simp only [hd e' (by simp [he']), ht e' (by simp [he']), Bool.false_eq_true, if_false]

theorem pending_good2 {es : List Entry} {is : List Instr} (h : Good2 es is) :
    (es.filterMap fun (k, _, t) => t.lbl.map fun l => (k, l)) = [] := by
  induction es generalizing is with
  | nil => rfl
  | cons e es ih =>
    cases is with
    | nil => exact absurd h (by simp [Good2])
    | cons i is =>
      obtain ⟨hl, _, hg⟩ := h
      obtain ⟨k, line, t⟩ := e
      simp only at hl
      simp [hl, ih hg]

theorem expandAll_good2 (vars : Vars) {es : List Entry} {is : List Instr} (h : Good2 es is) :
    expandAll vars (tentriesOf es) = .ok (expEntries es) := by
  induction es generalizing is with
  | nil => rfl
  | cons e es ih =>
    cases is with
    | nil => exact absurd h (by simp [Good2])
    | cons i is =>
      obtain ⟨_, hi, hg⟩ := h
      obtain ⟨k, line, t⟩ := e
      obtain ⟨it', he, _⟩ := itemInstr_cases hi
      have ih' := ih hg
      simp only [tentriesOf] at ih'
      simp only [tentriesOf, List.map_cons, expandAll, expItem_spec he vars k line, ih', expEntries, he]
      rfl

theorem processLabels_good2 {es : List Entry} {is : List Instr} (h : Good2 es is) (ls : Labels) (a : Int) :
    processLabels (expEntries es) [] ls a = .ok ls := by
  induction es generalizing is a with
  | nil => rfl
  | cons e es ih =>
    cases is with
    | nil => exact absurd h (by simp [Good2])
    | cons i is =>
      obtain ⟨_, hi, hg⟩ := h
      obtain ⟨k, line, t⟩ := e
      obtain ⟨it', he, hc⟩ := itemInstr_cases hi
      have ih' := fun a => ih hg a
      simp only [expEntries, he]
      rcases hc with ⟨rfl, _⟩ | ⟨rfl, _⟩ | ⟨pi, rfl, _⟩
      · simp [processLabels, ih']
      · simp [processLabels, ih']
      · simp [processLabels, ih']

theorem buildInstrs_good2 {es : List Entry} {is : List Instr} (h : Good2 es is) (ls : Labels) (addr : Int) :
    buildInstrs ls (expEntries es) addr = .ok is := by
  induction es generalizing is addr with
  | nil =>
    cases is with
    | nil => rfl
    | cons i is => exact absurd h (by simp [Good2])
  | cons e es ih =>
    cases is with
    | nil => exact absurd h (by simp [Good2])
    | cons i is =>
      obtain ⟨_, hi, hg⟩ := h
      obtain ⟨k, line, t⟩ := e
      obtain ⟨it', he, hc⟩ := itemInstr_cases hi
      have ih' := fun a => ih hg a
      simp only [expEntries, he]
      rcases hc with ⟨rfl, rfl⟩ | ⟨rfl, rfl⟩ | ⟨pi, rfl, hp⟩
      · simp [buildInstrs, ih', Except.map]
      · simp [buildInstrs, ih', Except.map]
      · simp [buildInstrs, ih', piInstr_spec hp ls addr k line, Except.map]

theorem good2_length {es : List Entry} {is : List Instr} (h : Good2 es is) : es.length = is.length := by
  induction es generalizing is with
  | nil =>
    cases is with
    | nil => rfl
    | cons i is => exact absurd h (by simp [Good2])
  | cons e es ih =>
    cases is with
    | nil => exact absurd h (by simp [Good2])
    | cons i is => simp [ih h.2.2]

/-! ### the load of a text of simple lines -/

open ArchSim.Lemmas.C04Spell (entryTexts sanitize_texts) in
/-- every entry text of `t` is a simple line (decidable) -/
def AllSimple (t : String) : Prop := ∀ x ∈ entryTexts t, (lineInstr x).isSome = true

open ArchSim.Lemmas.C04Spell (entryTexts) in
instance (t : String) : Decidable (AllSimple t) := by unfold AllSimple; infer_instance

open ArchSim.Lemmas.C04Spell (entryTexts) in
/-- the instructions of the lines of `t` -/
def lineInstrs (t : String) : List Instr := (entryTexts t).filterMap lineInstr

open ArchSim.Lemmas.C04Spell (entryTexts sanitize_texts) in
/-- LINE-BY-LINE ASSEMBLY. If every line of `t` is simple, `load` stores the instructions of its lines, in order
    (and reports the memory error exactly when there are more than 4096); the data memory is just reset. -/
theorem load_simple (s : St) (t : String) (h : AllSimple t) :
    load s t =
      if (lineInstrs t).length > 4096 then
        { st := { s with mem := s.mem.reset,
                         imem := { prog := (lineInstrs t).take 4096, cache := s.imem.cache.map ICache.reset } },
          err := some (.memAddr 16384) }
      else
        { st := { s with mem := s.mem.reset,
                         imem := { prog := lineInstrs t, cache := s.imem.cache.map ICache.reset } },
          err := none } := by
  have hs : (sanitize t).map (·.2) = entryTexts t := sanitize_texts t
  have hall : ∀ p ∈ sanitize t, (lineInstr p.2).isSome = true := by
    intro p hp
    apply h
    rw [← hs]
    exact List.mem_map_of_mem hp
  obtain ⟨es, hes, hg⟩ := tokenize_simple (sanitize t) hall
  have hfm : ((sanitize t).filterMap fun p => lineInstr p.2) = lineInstrs t := by
    unfold lineInstrs
    rw [← hs, List.filterMap_map]
    rfl
  rw [hfm] at hg
  have h1 := segment_good2 hg
  have h2 := pending_good2 hg
  have h3 := expandAll_good2 [] hg
  have h4 := processLabels_good2 hg [] 0
  have h5 := buildInstrs_good2 hg [] 0
  simp only [tentriesOf] at h3
  unfold load
  simp only [hes, h1, h2, writeData, h3, h4, h5]

end ArchSim.Lemmas.E2E2
