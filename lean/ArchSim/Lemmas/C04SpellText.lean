/-
C04 (spelling independence), part 11: comments, blank lines and indentation. What `sanitize` keeps of a line
(`entryOf`), and what does not change it.
-/
import ArchSim.Model.Asm

namespace ArchSim.Lemmas.C04Spell
open ArchSim ArchSim.PP ArchSim.Asm

/-! ### `str.strip()` -/

def AllSpace (ws : List Char) : Prop := ∀ c ∈ ws, pyIsSpace c = true

theorem dropWhile_allSpace (ws : List Char) (h : AllSpace ws) : ws.dropWhile pyIsSpace = [] := by
  induction ws with
  | nil => rfl
  | cons a l ih => simp [h a (by simp), ih (fun c hc => h c (by simp [hc]))]

theorem pyStrip_allSpace (ws : List Char) (h : AllSpace ws) : pyStrip ws = [] := by
  simp [pyStrip, dropWhile_allSpace ws h]

theorem pyStrip_prepend (ws x : List Char) (h : AllSpace ws) : pyStrip (ws ++ x) = pyStrip x := by
  simp only [pyStrip, List.dropWhile_append_of_pos h]

theorem allSpace_reverse {ws : List Char} (h : AllSpace ws) : AllSpace ws.reverse :=
  fun c hc => h c (List.mem_reverse.mp hc)

theorem pyStrip_append (x ws : List Char) (h : AllSpace ws) : pyStrip (x ++ ws) = pyStrip x := by
  simp only [pyStrip, List.dropWhile_append]
  split
  · next he =>
    have : x.dropWhile pyIsSpace = [] := by simpa using he
    simp [this, dropWhile_allSpace ws h]
  · simp only [List.reverse_append, List.dropWhile_append_of_pos (allSpace_reverse h)]

/-- `strip` absorbs blanks on both sides. -/
theorem pyStrip_absorb (a x b : List Char) (ha : AllSpace a) (hb : AllSpace b) :
    pyStrip (a ++ x ++ b) = pyStrip x := by
  rw [pyStrip_append _ b hb, pyStrip_prepend a x ha]

theorem dropWhile_head_not {p : Char → Bool} (l : List Char) : ∀ c ∈ (l.dropWhile p).head?, p c = false := by
  induction l with
  | nil => simp
  | cons a l ih =>
    simp only [List.dropWhile_cons]
    split
    · exact ih
    · next h => intro c hc; simp at hc; subst hc; simpa using h

theorem dropWhile_fixed {p : Char → Bool} (l : List Char) (h : ∀ c ∈ l.head?, p c = false) : l.dropWhile p = l := by
  cases l with
  | nil => rfl
  | cons a l => simp [h a (by simp)]

/-- `strip` is idempotent. -/
theorem pyStrip_idem (l : List Char) : pyStrip (pyStrip l) = pyStrip l := by
  have h1 : ∀ c ∈ (pyStrip l).reverse.head?, pyIsSpace c = false := by
    simp only [pyStrip, List.reverse_reverse]
    exact dropWhile_head_not _
  have h2 : ∀ c ∈ (pyStrip l).head?, pyIsSpace c = false := by
    intro c hc
    -- the head of the stripped line is the head of `l.dropWhile sp` (unless everything is dropped)
    have hsub : ((l.dropWhile pyIsSpace).reverse.dropWhile pyIsSpace).reverse <+: l.dropWhile pyIsSpace := by
      have := List.dropWhile_suffix (l := (l.dropWhile pyIsSpace).reverse) pyIsSpace
      have := List.reverse_prefix.mpr this
      simpa using this
    obtain ⟨t, ht⟩ := hsub
    have hd := dropWhile_head_not (p := pyIsSpace) l
    rw [← ht] at hd
    apply hd
    simp only [pyStrip] at hc
    cases hx : ((l.dropWhile pyIsSpace).reverse.dropWhile pyIsSpace).reverse with
    | nil => rw [hx] at hc; simp at hc
    | cons a r => rw [hx] at hc; simpa using hc
  have e1 : (pyStrip l).dropWhile pyIsSpace = pyStrip l := dropWhile_fixed _ h2
  have e2 : (pyStrip l).reverse.dropWhile pyIsSpace = (pyStrip l).reverse := dropWhile_fixed _ h1
  show (((pyStrip l).dropWhile pyIsSpace).reverse.dropWhile pyIsSpace).reverse = pyStrip l
  rw [e1, e2, List.reverse_reverse]

/-! ### what `sanitize` keeps of a line -/

/-- the line is kept: it is not blank and its first non-blank character is not `#` -/
def keepLine (l : List Char) : Bool := !(pyStrip l).isEmpty && (pyStrip l).head? != some '#'

/-- the text of the entry: the line up to the first `#`, stripped -/
def entryText (l : List Char) : List Char := pyStrip (l.takeWhile (· != '#'))

/-- the entry a source line contributes, if any -/
def entryOf (l : List Char) : Option (List Char) := if keepLine l then some (entryText l) else none

def numberLines (ls : List (List Char)) : List (Nat × List Char) :=
  ((List.range ls.length).zip ls).map fun (k, l) => (k + 1, l)

theorem map_filter_eq_filterMap {α β : Type} (p : α → Bool) (f : α → β) (l : List α) :
    (l.filter p).map f = l.filterMap (fun x => if p x then some (f x) else none) := by
  induction l with
  | nil => rfl
  | cons a l ih =>
    by_cases h : p a = true
    · simp [h, ih]
    · simp [h, ih]

theorem filterMap_congr' {α β : Type} (f g : α → Option β) (l : List α) (h : ∀ x ∈ l, f x = g x) :
    l.filterMap f = l.filterMap g := by
  induction l with
  | nil => rfl
  | cons a l ih =>
    simp only [List.filterMap_cons, h a (by simp), ih (fun x hx => h x (by simp [hx]))]

/-- `sanitize`, line by line: number the lines from 1, keep those with an entry. -/
theorem sanitize_eq (text : String) :
    sanitize text = (numberLines (splitLines text.toList)).filterMap
      (fun p => (entryOf p.2).map (fun e => (p.1, e))) := by
  unfold sanitize
  simp only []
  rw [map_filter_eq_filterMap]
  apply filterMap_congr'
  intro p _
  obtain ⟨k, l⟩ := p
  simp only [entryOf, keepLine, entryText]
  split
  · next h => simp [h]
  · next h => simp [h]

theorem numberLines_snd (ls : List (List Char)) : (numberLines ls).map (·.2) = ls := by
  unfold numberLines
  rw [List.map_map]
  have : ((fun x : Nat × List Char => x.2) ∘ fun (x : Nat × List Char) => (x.1 + 1, x.2)) = Prod.snd := by
    funext x; rfl
  rw [this]
  exact List.map_snd_zip (by simp)

/-- The entry texts of a source text, in order: one per kept line. -/
theorem sanitize_texts (text : String) :
    (sanitize text).map (·.2) = (splitLines text.toList).filterMap entryOf := by
  rw [sanitize_eq, List.map_filterMap]
  conv => rhs; rw [← numberLines_snd (splitLines text.toList), List.filterMap_map]
  apply filterMap_congr'
  intro p _
  show ((entryOf p.2).map (fun e => (p.1, e))).map (·.2) = (entryOf ∘ fun x => x.2) p
  simp only [Function.comp]
  cases entryOf p.2 <;> rfl

theorem numberLines_fst_sorted (ls : List (List Char)) : ((numberLines ls).map (·.1)).Pairwise (· < ·) := by
  unfold numberLines
  rw [List.map_map]
  have : ((fun x : Nat × List Char => x.1) ∘ fun (x : Nat × List Char) => (x.1 + 1, x.2))
      = (fun k => k + 1) ∘ Prod.fst := by
    funext x; rfl
  rw [this, ← List.map_map, List.map_fst_zip (by simp), List.pairwise_map]
  exact List.Pairwise.imp (by intro a b h; omega) List.pairwise_lt_range

/-- The line numbers of the entries are strictly increasing. -/
theorem sanitize_sorted (text : String) : ((sanitize text).map (·.1)).Pairwise (· < ·) := by
  rw [sanitize_eq, List.map_filterMap]
  have hsub : ((numberLines (splitLines text.toList)).filterMap
      (fun p => ((entryOf p.2).map (fun e => (p.1, e))).map (·.1))).Sublist
      ((numberLines (splitLines text.toList)).map (·.1)) := by
    generalize numberLines (splitLines text.toList) = L
    induction L with
    | nil => exact List.Sublist.slnil
    | cons a L ih =>
      simp only [List.filterMap_cons, List.map_cons]
      cases entryOf a.2 with
      | none => exact List.Sublist.cons _ ih
      | some e => exact List.Sublist.cons_cons _ ih
  exact List.Pairwise.sublist hsub (numberLines_fst_sorted _)

/-! ### what does not change the entry of a line -/

def firstNonSpace (x : List Char) : Option Char := (x.dropWhile pyIsSpace).head?

theorem pyStrip_head (x : List Char) : (pyStrip x).head? = firstNonSpace x := by
  unfold pyStrip firstNonSpace
  cases hy : x.dropWhile pyIsSpace with
  | nil => rfl
  | cons a r =>
    have ha : pyIsSpace a = false := by
      have := dropWhile_head_not (p := pyIsSpace) x a
      rw [hy] at this
      exact this (by simp)
    have : ∃ z, (a :: r).reverse.dropWhile pyIsSpace = z ++ [a] := by
      rw [List.reverse_cons, List.dropWhile_append]
      split
      · exact ⟨[], by simp [ha]⟩
      · exact ⟨_, rfl⟩
    obtain ⟨z, hz⟩ := this
    rw [hz]; simp

def keepOf : Option Char → Bool
  | none => false
  | some c => c != '#'

theorem keepLine_eq (x : List Char) : keepLine x = keepOf (firstNonSpace x) := by
  unfold keepLine
  rw [← pyStrip_head]
  cases pyStrip x with
  | nil => rfl
  | cons a r =>
    simp only [List.isEmpty_cons, Bool.not_false, Bool.true_and, List.head?_cons, keepOf]
    by_cases h : a = '#'
    · subst h; rfl
    · have : (some a != some '#') = true := by simpa using h
      rw [this]; simpa using h

theorem firstNonSpace_of_empty (l : List Char) (h : (l.dropWhile pyIsSpace).isEmpty = true) :
    firstNonSpace l = none := by
  have : l.dropWhile pyIsSpace = [] := by simpa using h
  simp [firstNonSpace, this]

theorem firstNonSpace_append (l t : List Char) :
    firstNonSpace (l ++ t) = if (l.dropWhile pyIsSpace).isEmpty then firstNonSpace t else firstNonSpace l := by
  unfold firstNonSpace
  rw [List.dropWhile_append]
  split
  · rfl
  · next h =>
    cases hl : l.dropWhile pyIsSpace with
    | nil => simp [hl] at h
    | cons a r => simp

theorem firstNonSpace_allSpace (a : List Char) (h : AllSpace a) : firstNonSpace a = none := by
  simp [firstNonSpace, dropWhile_allSpace a h]

theorem firstNonSpace_prepend (a x : List Char) (h : AllSpace a) : firstNonSpace (a ++ x) = firstNonSpace x := by
  rw [firstNonSpace_append, dropWhile_allSpace a h]; rfl

theorem hash_not_space : pyIsSpace '#' = false := by decide

theorem takeWhile_noHash (l : List Char) (h : '#' ∉ l) : l.takeWhile (· != '#') = l := by
  induction l with
  | nil => rfl
  | cons a l ih =>
    have ha : a ≠ '#' := fun e => h (by simp [e])
    simp only [List.takeWhile_cons, bne_iff_ne, ne_eq, ha, not_false_eq_true, if_true]
    rw [ih (fun hm => h (by simp [hm]))]

theorem takeWhile_hash_append (l t : List Char) (h : '#' ∉ l) :
    (l ++ t).takeWhile (· != '#') = l ++ t.takeWhile (· != '#') := by
  rw [List.takeWhile_append_of_pos]
  intro c hc
  have : c ≠ '#' := fun e => h (e ▸ hc)
  simpa using this

theorem allSpace_noHash (a : List Char) (h : AllSpace a) : '#' ∉ a := by
  intro hm
  have := h '#' hm
  rw [hash_not_space] at this
  cases this

/-- A trailing comment does not change the entry of a line. -/
theorem entryOf_comment (l c : List Char) (h : '#' ∉ l) : entryOf (l ++ '#' :: c) = entryOf l := by
  have ht : entryText (l ++ '#' :: c) = entryText l := by
    simp only [entryText, takeWhile_hash_append l _ h, takeWhile_noHash l h]
    simp
  have hk : keepLine (l ++ '#' :: c) = keepLine l := by
    rw [keepLine_eq, keepLine_eq, firstNonSpace_append]
    by_cases he : (l.dropWhile pyIsSpace).isEmpty = true
    · rw [if_pos he, firstNonSpace_of_empty l he]
      simp [firstNonSpace, hash_not_space, keepOf]
    · rw [if_neg he]
  simp only [entryOf, ht, hk]

/-- Indentation and trailing blanks do not change the entry of a line. -/
theorem entryOf_indent (a l b : List Char) (ha : AllSpace a) (hb : AllSpace b) :
    entryOf (a ++ l ++ b) = entryOf l := by
  have hk : keepLine (a ++ l ++ b) = keepLine l := by
    rw [keepLine_eq, keepLine_eq, List.append_assoc, firstNonSpace_prepend a _ ha, firstNonSpace_append]
    by_cases he : (l.dropWhile pyIsSpace).isEmpty = true
    · rw [if_pos he, firstNonSpace_of_empty l he, firstNonSpace_allSpace b hb]
    · rw [if_neg he]
  have ht : entryText (a ++ l ++ b) = entryText l := by
    simp only [entryText]
    rw [List.append_assoc, takeWhile_hash_append a _ (allSpace_noHash a ha), List.takeWhile_append]
    split
    · rw [takeWhile_noHash b (allSpace_noHash b hb), ← List.append_assoc, pyStrip_absorb a l b ha hb]
      next he =>
      have : l.takeWhile (· != '#') = l := by
        have hp := List.takeWhile_prefix (l := l) (fun x => x != '#')
        exact hp.eq_of_length he
      rw [this]
    · exact pyStrip_prepend a _ ha
  simp only [entryOf, ht, hk]

/-- Blank lines contribute no entry. -/
theorem entryOf_blank (a : List Char) (ha : AllSpace a) : entryOf a = none := by
  simp [entryOf, keepLine_eq, firstNonSpace_allSpace a ha, keepOf]

/-- Comment-only lines contribute no entry. -/
theorem entryOf_commentLine (a c : List Char) (ha : AllSpace a) : entryOf (a ++ '#' :: c) = none := by
  have h1 : firstNonSpace (a ++ '#' :: c) = some '#' := by
    rw [firstNonSpace_prepend a _ ha]
    simp [firstNonSpace, hash_not_space]
  simp [entryOf, keepLine_eq, h1, keepOf]

end ArchSim.Lemmas.C04Spell
