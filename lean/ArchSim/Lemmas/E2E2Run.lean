/-
End-to-end layer, part 2 (helper lemmas for C13Asm): `RiscvSimulation.run()` against the run iterators of the property
files. While the simulation is not done, `step()` in five-stage mode is `Pipe.step` on the pipeline state and in
single-stage mode `singleStep` on the architectural state; so a `run()` that returns normally in a done state after `n`
steps is exactly a fault-free `pipeRun n` / `singleRun n` that is done at `n` and not before.
-/
import ArchSim.Lemmas.C13Life
import ArchSim.Lemmas.C02Compose
import ArchSim.Spec.PipeSeq

namespace ArchSim.Lemmas.E2E2
open ArchSim ArchSim.Rv ArchSim.Pipe

theorem simIsDone_five {s : Sim.RSim} (h5 : s.five = true) : Sim.isDone s = Pipe.isDone s.p := by
  simp [Sim.isDone, h5]

theorem simIsDone_single {s : Sim.RSim} (h5 : s.five = false) : Sim.isDone s = singleDone s.p.st := by
  simp [Sim.isDone, h5]

/-- a not-done `step()` in five-stage mode: the pipeline state afterwards, the mode, and the fault -/
theorem stepS_five {s : Sim.RSim} (h5 : s.five = true) (hd : Sim.isDone s = false) :
    (Sim.stepS s).p = (Pipe.step s.p).p ∧ (Sim.stepS s).five = true ∧
    ((Sim.step s).fault = none ↔ (Pipe.step s.p).fault = none) := by
  unfold Sim.stepS
  cases hf : (Pipe.step s.p).fault with
  | none => rw [Sim.step_five_ok hd h5 hf]; exact ⟨rfl, h5, by simp⟩
  | some f => rw [Sim.step_five_fault hd h5 hf]; exact ⟨rfl, h5, by simp⟩

/-- a not-done `step()` in single-stage mode -/
theorem stepS_single {s : Sim.RSim} (h5 : s.five = false) (hd : Sim.isDone s = false) :
    (Sim.stepS s).p.st = (singleStep s.p.st).st ∧ (Sim.stepS s).five = false ∧
    ((Sim.step s).fault = none ↔ (singleStep s.p.st).fault = none) := by
  unfold Sim.stepS
  cases hf : (singleStep s.p.st).fault with
  | none => rw [Sim.step_single_ok hd h5 hf]; exact ⟨rfl, h5, by simp⟩
  | some af => obtain ⟨a, f⟩ := af; rw [Sim.step_single_fault hd h5 hf]; exact ⟨rfl, h5, by simp⟩

/-- As long as no earlier state was done, `k` calls of `step()` in five-stage mode are `pipeRun k`. -/
theorem iter_stepS_five (s : Sim.RSim) (h5 : s.five = true) (k : Nat)
    (hnd : ∀ j, j < k → Sim.isDone (iter Sim.stepS j s) = false) :
    (iter Sim.stepS k s).p = pipeRun k s.p ∧ (iter Sim.stepS k s).five = true := by
  induction k with
  | zero => exact ⟨rfl, h5⟩
  | succ k ih =>
    obtain ⟨h1, h2⟩ := ih (fun j hj => hnd j (by omega))
    obtain ⟨e1, e2, _⟩ := stepS_five h2 (hnd k (by omega))
    rw [iter_succ']
    exact ⟨by rw [e1, h1]; rfl, e2⟩

/-- … and in single-stage mode `singleRun k` on the architectural state. -/
theorem iter_stepS_single (s : Sim.RSim) (h5 : s.five = false) (k : Nat)
    (hnd : ∀ j, j < k → Sim.isDone (iter Sim.stepS j s) = false) :
    (iter Sim.stepS k s).p.st = singleRun k s.p.st ∧ (iter Sim.stepS k s).five = false := by
  induction k with
  | zero => exact ⟨rfl, h5⟩
  | succ k ih =>
    obtain ⟨h1, h2⟩ := ih (fun j hj => hnd j (by omega))
    obtain ⟨e1, e2, _⟩ := stepS_single h2 (hnd k (by omega))
    rw [iter_succ']
    exact ⟨by rw [e1, h1]; rfl, e2⟩

/-- `run()` in five-stage mode that returns normally in a done state. -/
theorem run_five_char (s : Sim.RSim) (h5 : s.five = true) (fuel : Nat)
    (hnf : (Sim.run fuel s).2.2 = none) (hdone : Sim.isDone (Sim.run fuel s).1 = true) :
    ∃ n, n ≤ fuel ∧ (Sim.run fuel s).2.1 = n ∧ (Sim.run fuel s).1.p = pipeRun n s.p ∧
      runOK n s.p ∧ Pipe.isDone (pipeRun n s.p) = true ∧ ∀ m, m < n → Pipe.isDone (pipeRun m s.p) = false := by
  obtain ⟨k, hk, hc, hpre, hpost⟩ := Sim.run_iter fuel s
  have hnd : ∀ j, j < k → Sim.isDone (iter Sim.stepS j s) = false := fun j hj => (hpre j hj).1
  have hst : ∀ j, j ≤ k → (iter Sim.stepS j s).p = pipeRun j s.p ∧ (iter Sim.stepS j s).five = true :=
    fun j hj => iter_stepS_five s h5 j (fun i hi => hnd i (by omega))
  rcases hpost with ⟨_, hfin, _⟩ | ⟨f, hf, _⟩
  · refine ⟨k, hk, hc, by rw [hfin]; exact (hst k (Nat.le_refl k)).1, ?_, ?_, ?_⟩
    · intro m hm
      obtain ⟨e1, e2⟩ := hst m (by omega)
      have := (stepS_five e2 (hnd m hm)).2.2.1 (hpre m hm).2
      rw [e1] at this; exact this
    · obtain ⟨e1, e2⟩ := hst k (Nat.le_refl k)
      rw [hfin, simIsDone_five e2, e1] at hdone; exact hdone
    · intro m hm
      obtain ⟨e1, e2⟩ := hst m (by omega)
      have := hnd m hm
      rw [simIsDone_five e2, e1] at this; exact this
  · rw [hf] at hnf; cases hnf

/-- `run()` in single-stage mode that returns normally in a done state. -/
theorem run_single_char (s : Sim.RSim) (h5 : s.five = false) (fuel : Nat)
    (hnf : (Sim.run fuel s).2.2 = none) (hdone : Sim.isDone (Sim.run fuel s).1 = true) :
    ∃ k, k ≤ fuel ∧ (Sim.run fuel s).2.1 = k ∧ (Sim.run fuel s).1.p.st = singleRun k s.p.st ∧
      (∀ j, j < k → (singleStep (singleRun j s.p.st)).fault = none ∧ singleDone (singleRun j s.p.st) = false) ∧
      singleDone (singleRun k s.p.st) = true := by
  obtain ⟨k, hk, hc, hpre, hpost⟩ := Sim.run_iter fuel s
  have hnd : ∀ j, j < k → Sim.isDone (iter Sim.stepS j s) = false := fun j hj => (hpre j hj).1
  have hst : ∀ j, j ≤ k → (iter Sim.stepS j s).p.st = singleRun j s.p.st ∧ (iter Sim.stepS j s).five = false :=
    fun j hj => iter_stepS_single s h5 j (fun i hi => hnd i (by omega))
  rcases hpost with ⟨_, hfin, _⟩ | ⟨f, hf, _⟩
  · refine ⟨k, hk, hc, by rw [hfin]; exact (hst k (Nat.le_refl k)).1, ?_, ?_⟩
    · intro m hm
      obtain ⟨e1, e2⟩ := hst m (by omega)
      have h1 := (stepS_single e2 (hnd m hm)).2.2.1 (hpre m hm).2
      have h2 := hnd m hm
      rw [simIsDone_single e2] at h2
      rw [e1] at h1 h2; exact ⟨h1, h2⟩
    · obtain ⟨e1, e2⟩ := hst k (Nat.le_refl k)
      rw [hfin, simIsDone_single e2, e1] at hdone; exact hdone
  · rw [hf] at hnf; cases hnf

/-- Conversely: if `k` single-cycle steps are fault-free and not done and the state after them is done, `run()` in
    single-stage mode with any fuel `≥ k` returns normally after exactly `k` steps in that state. -/
theorem run_single_of_singleRun (s : Sim.RSim) (h5 : s.five = false) (k : Nat)
    (hpre : ∀ j, j < k → (singleStep (singleRun j s.p.st)).fault = none ∧ singleDone (singleRun j s.p.st) = false)
    (hd : singleDone (singleRun k s.p.st) = true) (fuel : Nat) (hfuel : k ≤ fuel) :
    (Sim.run fuel s).2.2 = none ∧ (Sim.run fuel s).2.1 = k ∧ (Sim.run fuel s).1.p.st = singleRun k s.p.st ∧
    Sim.isDone (Sim.run fuel s).1 = true := by
  obtain ⟨k', hk', hc, hpre', hpost⟩ := Sim.run_iter fuel s
  have hnd : ∀ j, j < k' → Sim.isDone (iter Sim.stepS j s) = false := fun j hj => (hpre' j hj).1
  have hst : ∀ j, j ≤ k' → (iter Sim.stepS j s).p.st = singleRun j s.p.st ∧ (iter Sim.stepS j s).five = false :=
    fun j hj => iter_stepS_single s h5 j (fun i hi => hnd i (by omega))
  have hle : k' ≤ k := by
    rcases Nat.lt_or_ge k k' with hlt | hge
    · exfalso
      obtain ⟨e1, e2⟩ := hst k (by omega)
      have := hnd k hlt
      rw [simIsDone_single e2, e1, hd] at this; cases this
    · exact hge
  obtain ⟨e1, e2⟩ := hst k' (Nat.le_refl k')
  rcases hpost with ⟨hn, hfin, hdn⟩ | ⟨f, hf, hlt, hnd', hft, _⟩
  · have hkk : k' = k := by
      rcases Nat.lt_or_ge k' k with hlt | hge
      · exfalso
        have := hdn (by omega)
        rw [simIsDone_single e2, e1, (hpre k' hlt).2] at this; cases this
      · omega
    subst hkk
    refine ⟨hn, hc, by rw [hfin]; exact e1, ?_⟩
    rw [hfin, simIsDone_single e2, e1]; exact hd
  · exfalso
    rw [simIsDone_single e2, e1] at hnd'
    rcases Nat.lt_or_ge k' k with hlt' | hge
    · have hs := (stepS_single e2 (by rw [simIsDone_single e2, e1]; exact hnd')).2.2
      have : (Sim.step (iter Sim.stepS k' s)).fault = none := hs.2 (by rw [e1]; exact (hpre k' hlt').1)
      rw [hft] at this; cases this
    · have : k' = k := by omega
      subst this
      rw [hd] at hnd'; cases hnd'

end ArchSim.Lemmas.E2E2
