/-
C04 (spelling independence), part 19: `pInstrBody` on loads, stores, U-type, `jal`, `ecall`/`ebreak` and the
CSR forms in any spelling.
-/
import ArchSim.Lemmas.C04SpellBody

namespace ArchSim.Lemmas.C04Spell
open ArchSim ArchSim.PP ArchSim.Rv ArchSim.Asm ArchSim.Lemmas.C14

section bodies
variable (g w1 w2 w3 w4 tr : List Char) (hg : AllWs g) (hgne : g ≠ []) (h1 : AllWs w1) (h2 : AllWs w2)
  (h3 : AllWs w3) (h4 : AllWs w4) (htr : AllWs tr)

include hg hgne h1 h2 h3 h4 in
theorem bodyS_load (w5 : List Char) (h5 : AllWs w5) (op : Op) (h : cls op = .load) (a b : Nat) (v : Int)
    (ha : a < 32) (hb : b < 32) (hv : v.natAbs < 10 ^ 4300) (s1 s2 : RegStyle) (sn : NumStyle) :
    pInstrBody (mn op ++ tReg g s1 a (tSep w1 ',' (tNum w2 sn v (tSep w3 '(' (tReg w4 s2 b (tSep w5 ')' tr))))))
      = .ok (.grp (.mem op.mnemonic a v b)) tr := by
  have hr := mnSep_tReg g s1 a (tSep w1 ',' (tNum w2 sn v (tSep w3 '(' (tReg w4 s2 b (tSep w5 ')' tr))))) hg hgne
  rw [pInstrBody_eq]
  simp only [alts, List.map_cons, List.map_nil,
    chainS_MEM g w1 w2 w3 w4 tr hg hgne h1 h2 h3 h4 w5 h5 op (Or.inl h) a b v ha hb hv,
    pRType_failS op _ hr (by rw [h]; decide),
    pUType_failS op _ hr (by rw [h]; decide), pBType_failS op _ hr (by rw [h]; decide),
    pMemPseudo_failS_MEM g w1 w2 hg hgne h1 h2 op h a v ha,
    pRegRegImm_failS_MEM g w1 w2 hg hgne h1 h2 op (Or.inl h) a v ha,
    pSPseudo_failS op _ hr (by rw [h]; decide), pCsr_failS op _ hr (by rw [h]; decide),
    pCsri_failS op _ hr (by rw [h]; decide),
    pFence_failS op _ hr (by rw [h]; decide), pJal_failS op _ hr (by rw [h]; decide) (by rw [h]; decide),
    pEnv_failS op _ hr (by rw [h]; decide) (by rw [h]; decide), pNop_failS op _ hr, pLi_failS op _ hr,
    pMv_failS op _ hr, map_ok, map_fail]
  rfl

include hg hgne h1 h2 h3 h4 in
theorem bodyS_store (w5 : List Char) (h5 : AllWs w5) (op : Op) (h : cls op = .store) (a b : Nat) (v : Int)
    (ha : a < 32) (hb : b < 32) (hv : v.natAbs < 10 ^ 4300) (s1 s2 : RegStyle) (sn : NumStyle) :
    pInstrBody (mn op ++ tReg g s1 a (tSep w1 ',' (tNum w2 sn v (tSep w3 '(' (tReg w4 s2 b (tSep w5 ')' tr))))))
      = .ok (.grp (.mem op.mnemonic a v b)) tr := by
  have hr := mnSep_tReg g s1 a (tSep w1 ',' (tNum w2 sn v (tSep w3 '(' (tReg w4 s2 b (tSep w5 ')' tr))))) hg hgne
  rw [pInstrBody_eq]
  simp only [alts, List.map_cons, List.map_nil,
    chainS_MEM g w1 w2 w3 w4 tr hg hgne h1 h2 h3 h4 w5 h5 op (Or.inr h) a b v ha hb hv,
    pRType_failS op _ hr (by rw [h]; decide),
    pUType_failS op _ hr (by rw [h]; decide), pBType_failS op _ hr (by rw [h]; decide),
    pMemPseudo_failS op _ hr (by rw [h]; decide) (by rw [h]; decide),
    pSPseudo_failS_MEM g w1 w2 hg hgne h1 h2 op h a v ha,
    pRegRegImm_failS_MEM g w1 w2 hg hgne h1 h2 op (Or.inr h) a v ha,
    pCsr_failS op _ hr (by rw [h]; decide),
    pCsri_failS op _ hr (by rw [h]; decide),
    pFence_failS op _ hr (by rw [h]; decide), pJal_failS op _ hr (by rw [h]; decide) (by rw [h]; decide),
    pEnv_failS op _ hr (by rw [h]; decide) (by rw [h]; decide), pNop_failS op _ hr, pLi_failS op _ hr,
    pMv_failS op _ hr, map_ok, map_fail]
  rfl

include hg hgne h1 h2 htr in
theorem bodyS_U (op : Op) (h : cls op = .u) (a : Nat) (v : Int) (ha : a < 32) (hv : v.natAbs < 10 ^ 4300)
    (s1 : RegStyle) (sn : NumStyle) :
    pInstrBody (mn op ++ tReg g s1 a (tSep w1 ',' (tNum w2 sn v tr)))
      = .ok (.grp (.utype op.mnemonic a v)) tr := by
  have hr := mnSep_tReg g s1 a (tSep w1 ',' (tNum w2 sn v tr)) hg hgne
  rw [pInstrBody_eq]
  simp only [alts, List.map_cons, List.map_nil, chainS_U g w1 w2 tr hg hgne h1 h2 htr op h a v ha hv,
    pRType_failS op _ hr (by rw [h]; decide), pBType_failS op _ hr (by rw [h]; decide),
    pMemory_failS op _ hr (by rw [h]; decide) (by rw [h]; decide) (by rw [h]; decide),
    pMemPseudo_failS op _ hr (by rw [h]; decide) (by rw [h]; decide),
    pSPseudo_failS op _ hr (by rw [h]; decide), pCsr_failS op _ hr (by rw [h]; decide),
    pCsri_failS op _ hr (by rw [h]; decide),
    pRegRegImm_failS op _ hr (by rw [h]; decide) (by rw [h]; decide) (by rw [h]; decide) (by rw [h]; decide)
      (by rw [h]; decide),
    pFence_failS op _ hr (by rw [h]; decide), pJal_failS op _ hr (by rw [h]; decide) (by rw [h]; decide),
    pEnv_failS op _ hr (by rw [h]; decide) (by rw [h]; decide), pNop_failS op _ hr, pLi_failS op _ hr,
    pMv_failS op _ hr, map_ok, map_fail]
  rfl

include hg hgne h1 h2 htr in
theorem bodyS_J (a : Nat) (v : Int) (ha : a < 32) (hv : v.natAbs < 10 ^ 4300) (s1 : RegStyle) (sn : NumStyle) :
    pInstrBody (mn .jal ++ tReg g s1 a (tSep w1 ',' (tNum w2 sn v tr))) = .ok (.grp (.jalImm a v)) tr := by
  have hr := mnSep_tReg g s1 a (tSep w1 ',' (tNum w2 sn v tr)) hg hgne
  rw [pInstrBody_eq]
  simp only [alts, List.map_cons, List.map_nil, chainS_J g w1 w2 tr hg hgne h1 h2 htr a v ha hv,
    pRType_failS .jal _ hr (by decide), pUType_failS .jal _ hr (by decide), pBType_failS .jal _ hr (by decide),
    pMemory_failS .jal _ hr (by decide) (by decide) (by decide),
    pMemPseudo_failS .jal _ hr (by decide) (by decide),
    pSPseudo_failS .jal _ hr (by decide), pCsr_failS .jal _ hr (by decide),
    pCsri_failS .jal _ hr (by decide),
    pRegRegImm_failS .jal _ hr (by decide) (by decide) (by decide) (by decide) (by decide),
    pFence_failS .jal _ hr (by decide),
    pEnv_failS .jal _ hr (by decide) (by decide), pNop_failS .jal _ hr, pLi_failS .jal _ hr,
    pMv_failS .jal _ hr, map_ok, map_fail]
  rfl

include hg hgne h1 h2 h3 h4 htr in
theorem bodyS_CSR (op : Op) (h : cls op = .csr) (a b : Nat) (n : Int) (ha : a < 32) (hb : b < 32)
    (hn : n.natAbs < 10 ^ 4300) (s1 s2 : RegStyle) (sn : NumStyle) :
    pInstrBody (mn op ++ tReg g s1 a (tSep w1 ',' (tNum w2 sn n (tSep w3 ',' (tReg w4 s2 b tr)))))
      = .ok (.grp (.csr op.mnemonic a n b)) tr := by
  have hr := mnSep_tReg g s1 a (tSep w1 ',' (tNum w2 sn n (tSep w3 ',' (tReg w4 s2 b tr)))) hg hgne
  rw [pInstrBody_eq]
  simp only [alts, List.map_cons, List.map_nil,
    chainS_CSR g w1 w2 w3 w4 tr hg hgne h1 h2 h3 h4 htr op h a b n ha hb hn,
    pRType_failS op _ hr (by rw [h]; decide),
    pUType_failS op _ hr (by rw [h]; decide), pBType_failS op _ hr (by rw [h]; decide),
    pMemory_failS op _ hr (by rw [h]; decide) (by rw [h]; decide) (by rw [h]; decide),
    pMemPseudo_failS op _ hr (by rw [h]; decide) (by rw [h]; decide),
    pSPseudo_failS op _ hr (by rw [h]; decide),
    pCsri_failS op _ hr (by rw [h]; decide),
    pRegRegImm_failS op _ hr (by rw [h]; decide) (by rw [h]; decide) (by rw [h]; decide) (by rw [h]; decide)
      (by rw [h]; decide),
    pFence_failS op _ hr (by rw [h]; decide), pJal_failS op _ hr (by rw [h]; decide) (by rw [h]; decide),
    pEnv_failS op _ hr (by rw [h]; decide) (by rw [h]; decide), pNop_failS op _ hr, pLi_failS op _ hr,
    pMv_failS op _ hr, map_ok, map_fail]
  rfl

include hg hgne h1 h2 h3 h4 htr in
theorem bodyS_CSRI (op : Op) (h : cls op = .csri) (a : Nat) (n v : Int) (ha : a < 32)
    (hn : n.natAbs < 10 ^ 4300) (hv : v.natAbs < 10 ^ 4300) (s1 : RegStyle) (sn sv : NumStyle) :
    pInstrBody (mn op ++ tReg g s1 a (tSep w1 ',' (tNum w2 sn n (tSep w3 ',' (tNum w4 sv v tr)))))
      = .ok (.grp (.csri op.mnemonic a n v)) tr := by
  have hr := mnSep_tReg g s1 a (tSep w1 ',' (tNum w2 sn n (tSep w3 ',' (tNum w4 sv v tr)))) hg hgne
  rw [pInstrBody_eq]
  simp only [alts, List.map_cons, List.map_nil,
    chainS_CSRI g w1 w2 w3 w4 tr hg hgne h1 h2 h3 h4 htr op h a n v ha hn hv,
    pRType_failS op _ hr (by rw [h]; decide),
    pUType_failS op _ hr (by rw [h]; decide), pBType_failS op _ hr (by rw [h]; decide),
    pMemory_failS op _ hr (by rw [h]; decide) (by rw [h]; decide) (by rw [h]; decide),
    pMemPseudo_failS op _ hr (by rw [h]; decide) (by rw [h]; decide),
    pSPseudo_failS op _ hr (by rw [h]; decide),
    pCsr_failS op _ hr (by rw [h]; decide),
    pRegRegImm_failS op _ hr (by rw [h]; decide) (by rw [h]; decide) (by rw [h]; decide) (by rw [h]; decide)
      (by rw [h]; decide),
    pFence_failS op _ hr (by rw [h]; decide), pJal_failS op _ hr (by rw [h]; decide) (by rw [h]; decide),
    pEnv_failS op _ hr (by rw [h]; decide) (by rw [h]; decide), pNop_failS op _ hr, pLi_failS op _ hr,
    pMv_failS op _ hr, map_ok, map_fail]
  rfl

include htr in
theorem bodyS_env (op : Op) (h : cls op = .ecall ∨ cls op = .ebreak) :
    pInstrBody (mn op ++ tr) = .ok (.str op.mnemonic) tr := by
  have hr : MnSep tr := by
    cases tr with
    | nil => exact mnSep_nil
    | cons c r => exact mnSep_ws c r (htr c (by simp))
  have hE : pEnv (mn op ++ tr) = .ok (.str op.mnemonic) tr := by
    have e1 : ∀ op, cls op = .ecall → op = .ecall := by intro op; cases op <;> decide
    have e2 : ∀ op, cls op = .ebreak → op = .ebreak := by intro op; cases op <;> decide
    rcases h with h | h
    · rw [e1 op h]; exact chainS_ecall tr htr
    · rw [e2 op h]; exact chainS_ebreak tr htr
  have hne1 : cls op ≠ .r ∧ cls op ≠ .u ∧ cls op ≠ .b ∧ cls op ≠ .load ∧ cls op ≠ .store ∧ cls op ≠ .jalr ∧
      cls op ≠ .csr ∧ cls op ≠ .csri ∧ cls op ≠ .imm3 ∧ cls op ≠ .fence ∧ cls op ≠ .jal := by
    rcases h with h | h <;> rw [h] <;> decide
  obtain ⟨n1, n2, n3, n4, n5, n6, n7, n8, n9, n10, n11⟩ := hne1
  rw [pInstrBody_eq]
  simp only [alts, List.map_cons, List.map_nil, hE, pRType_failS op tr hr n1, pUType_failS op tr hr n2,
    pBType_failS op tr hr n3, pMemory_failS op tr hr n4 n5 n6, pMemPseudo_failS op tr hr n4 n6,
    pSPseudo_failS op tr hr n5, pCsr_failS op tr hr n7, pCsri_failS op tr hr n8,
    pRegRegImm_failS op tr hr n9 n6 n4 n5 n3, pFence_failS op tr hr n10, pJal_failS op tr hr n11 n6,
    pNop_failS op tr hr, pLi_failS op tr hr, pMv_failS op tr hr, map_fail]
  rfl

end bodies

end ArchSim.Lemmas.C04Spell
