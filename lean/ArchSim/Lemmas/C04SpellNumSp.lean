/-
C04 (spelling independence), part 3: the spellings of an integer (`NumStyle`, `numSp`) and the letter-case
variants of a word (`recase`).
-/
import ArchSim.Lemmas.C04SpellNum

namespace ArchSim.Lemmas.C04Spell
open ArchSim ArchSim.PP ArchSim.Rv ArchSim.Asm ArchSim.Lemmas.C14

/-! ### choosing the case of every letter -/

/-- letter `k` of the word is written in upper case when `sel k`, in lower case otherwise -/
def recase (sel : Nat → Bool) : List Char → List Char
  | [] => []
  | c :: cs => (if sel 0 then c.toUpper else c.toLower) :: recase (fun k => sel (k + 1)) cs

theorem recase_length (sel : Nat → Bool) (l : List Char) : (recase sel l).length = l.length := by
  induction l generalizing sel with
  | nil => rfl
  | cons c cs ih => simp [recase, ih]

theorem recase_map (f : Char → β) (sel : Nat → Bool) (l : List Char)
    (h : ∀ c ∈ l, f c.toUpper = f c ∧ f c.toLower = f c) : (recase sel l).map f = l.map f := by
  induction l generalizing sel with
  | nil => rfl
  | cons c cs ih =>
    have hc := h c (by simp)
    simp only [recase, List.map_cons, ih _ (fun x hx => h x (by simp [hx]))]
    cases sel 0 <;> simp [hc.1, hc.2]

theorem recase_mem (sel : Nat → Bool) (l : List Char) :
    ∀ c ∈ recase sel l, ∃ c0 ∈ l, c = c0.toUpper ∨ c = c0.toLower := by
  induction l generalizing sel with
  | nil => intro c hc; cases hc
  | cons a cs ih =>
    intro c hc
    simp only [recase, List.mem_cons] at hc
    rcases hc with rfl | hc
    · refine ⟨a, by simp, ?_⟩
      cases sel 0 <;> simp
    · obtain ⟨c0, h0, h1⟩ := ih _ c hc
      exact ⟨c0, by simp [h0], h1⟩

theorem recase_ne_nil (sel : Nat → Bool) (l : List Char) (h : l ≠ []) : recase sel l ≠ [] := by
  cases l with
  | nil => exact absurd rfl h
  | cons c cs => simp [recase]

/-! ### the value of a digit string depends on the digit values only -/

theorem digitsVal_eq_map (base : Nat) (l : List Char) :
    digitsVal base l = (l.map digitVal).foldl (fun a o => a * base + o.getD 0) 0 := by
  simp only [digitsVal, List.foldl_map]

theorem digitsVal_congr (base : Nat) (l l' : List Char) (h : l.map digitVal = l'.map digitVal) :
    digitsVal base l = digitsVal base l' := by
  rw [digitsVal_eq_map, digitsVal_eq_map, h]

/-! ### hexadecimal and binary digits of a natural number -/

def hexDigitsU (n : Nat) : List Char := (toDigitsRev 16 (by decide) n).reverse
def binDigitsOf (n : Nat) : List Char := (toDigitsRev 2 (by decide) n).reverse

theorem hexDigit_table : ∀ d < 16, digitVal (hexDigit d) = some d ∧
    digitVal (hexDigit d).toUpper = some d ∧ digitVal (hexDigit d).toLower = some d ∧
    isHexNum (hexDigit d).toUpper = true ∧ isHexNum (hexDigit d).toLower = true := by decide

theorem binDigit_table : ∀ d < 2, digitVal (hexDigit d) = some d ∧ isBin (hexDigit d) = true := by decide

theorem hexDigitsU_mem (n : Nat) : ∀ c ∈ hexDigitsU n, ∃ d, d < 16 ∧ c = hexDigit d := by
  intro c hc
  simp only [hexDigitsU, List.mem_reverse] at hc
  exact toDigitsRev_mem 16 (by decide) n c hc

theorem hexDigitsU_ne_nil (n : Nat) : hexDigitsU n ≠ [] := by
  simp [hexDigitsU, toDigitsRev_ne_nil]

theorem validDigits_hexU (n : Nat) : ValidDigits 16 (hexDigitsU n) := by
  intro c hc
  obtain ⟨d, hd, rfl⟩ := hexDigitsU_mem n c hc
  exact ⟨d, (hexDigit_table d hd).1, hd⟩

theorem digitsVal_hexU (n : Nat) : digitsVal 16 (hexDigitsU n) = n := by
  have h1 := natOfDigits_toDigitsRev 16 (by decide) id (fun d hd => (hexDigit_table d hd).1) n
  simp only [List.map_id] at h1
  have h2 := natOfDigits_valid 16 _ (validDigits_hexU n)
  rw [hexDigitsU] at h2
  rw [h1] at h2
  exact (Option.some.inj h2).symm

theorem binDigitsOf_mem (n : Nat) : ∀ c ∈ binDigitsOf n, ∃ d, d < 2 ∧ c = hexDigit d := by
  intro c hc
  simp only [binDigitsOf, List.mem_reverse] at hc
  exact toDigitsRev_mem 2 (by decide) n c hc

theorem binDigitsOf_ne_nil (n : Nat) : binDigitsOf n ≠ [] := by
  simp [binDigitsOf, toDigitsRev_ne_nil]

theorem binDigitsOf_isBin (n : Nat) : ∀ c ∈ binDigitsOf n, isBin c = true := by
  intro c hc
  obtain ⟨d, hd, rfl⟩ := binDigitsOf_mem n c hc
  exact (binDigit_table d hd).2

theorem digitsVal_bin (n : Nat) : digitsVal 2 (binDigitsOf n) = n := by
  have h1 := natOfDigits_toDigitsRev 2 (by decide) id (fun d hd => (binDigit_table d hd).1) n
  simp only [List.map_id] at h1
  have h2 := natOfDigits_valid 2 _ (validDigits_bin _ (binDigitsOf_isBin n))
  rw [binDigitsOf] at h2
  rw [h1] at h2
  exact (Option.some.inj h2).symm

/-! ### the spellings of an integer -/

/-- how a number is written: decimal; `0x`, `zeros` leading zeros and hexadecimal digits whose letters are
    upper case where `upper k`; `0b`, `zeros` leading zeros and binary digits. A `-` comes first for a
    negative value. -/
inductive NumStyle where
  | dec
  | hex (zeros : Nat) (upper : Nat → Bool)
  | bin (zeros : Nat)

def numSp (st : NumStyle) (v : Int) : List Char :=
  match st with
  | .dec => decTxt v
  | .hex z up => signTxt (decide (v < 0)) ++ '0' :: 'x' :: (List.replicate z '0' ++ recase up (hexDigitsU v.natAbs))
  | .bin z => signTxt (decide (v < 0)) ++ '0' :: 'b' :: (List.replicate z '0' ++ binDigitsOf v.natAbs)

theorem signed_natAbs (v : Int) : signed (decide (v < 0)) v.natAbs = v := by
  unfold signed
  by_cases h : v < 0
  · simp only [h, decide_true, if_true]; omega
  · simp only [h, decide_false, Bool.false_eq_true, if_false]; omega

theorem recase_hex_isHex (up : Nat → Bool) (n : Nat) : ∀ c ∈ recase up (hexDigitsU n), isHexNum c = true := by
  intro c hc
  obtain ⟨c0, h0, h1⟩ := recase_mem up _ c hc
  obtain ⟨d, hd, rfl⟩ := hexDigitsU_mem n c0 h0
  rcases h1 with rfl | rfl
  · exact (hexDigit_table d hd).2.2.2.1
  · exact (hexDigit_table d hd).2.2.2.2

theorem recase_hex_val (up : Nat → Bool) (n : Nat) : digitsVal 16 (recase up (hexDigitsU n)) = n := by
  rw [digitsVal_congr 16 _ (hexDigitsU n), digitsVal_hexU]
  apply recase_map
  intro c hc
  obtain ⟨d, hd, rfl⟩ := hexDigitsU_mem n c hc
  have := hexDigit_table d hd
  exact ⟨by rw [this.2.1, this.1], by rw [this.2.2.1, this.1]⟩

theorem replicate_zero_isHex (z : Nat) : ∀ c ∈ List.replicate z '0', isHexNum c = true := by
  intro c hc; rw [(List.mem_replicate.mp hc).2]; decide

theorem replicate_zero_isBin (z : Nat) : ∀ c ∈ List.replicate z '0', isBin c = true := by
  intro c hc; rw [(List.mem_replicate.mp hc).2]; decide

/-- Every spelling of the integer `v` (decimal needs at most 4300 digits), after any blanks, is read as `v`
    when the next character is not a letter, digit or underscore. -/
theorem pImm_numSp (st : NumStyle) (v : Int) (ws rest : Inp) (hws : AllWs ws)
    (hv : v.natAbs < 10 ^ 4300) (hr : TokEnd rest) :
    pImm (ws ++ (numSp st v ++ rest)) = .ok v rest := by
  rw [pImm_ws ws _ hws]
  cases st with
  | dec => exact pImm_decTxt v rest hv hr.numEnd
  | hex z up =>
    have hds : ∀ c ∈ List.replicate z '0' ++ recase up (hexDigitsU v.natAbs), isHexNum c = true := by
      intro c hc
      rcases List.mem_append.mp hc with h | h
      · exact replicate_zero_isHex z c h
      · exact recase_hex_isHex up _ c h
    have hne : List.replicate z '0' ++ recase up (hexDigitsU v.natAbs) ≠ [] := by
      simp [recase_ne_nil up _ (hexDigitsU_ne_nil _)]
    have := pImm_hex_digits (decide (v < 0)) _ rest hds hne hr.hexEnd
    rw [digitsVal_zeros, recase_hex_val, signed_natAbs] at this
    simpa [numSp, List.append_assoc] using this
  | bin z =>
    have hds : ∀ c ∈ List.replicate z '0' ++ binDigitsOf v.natAbs, isBin c = true := by
      intro c hc
      rcases List.mem_append.mp hc with h | h
      · exact replicate_zero_isBin z c h
      · exact binDigitsOf_isBin _ c h
    have hne : List.replicate z '0' ++ binDigitsOf v.natAbs ≠ [] := by
      simp [binDigitsOf_ne_nil]
    have := pImm_bin_digits (decide (v < 0)) _ rest hds hne hr.binEnd
    rw [digitsVal_zeros, digitsVal_bin, signed_natAbs] at this
    simpa [numSp, List.append_assoc] using this

/-- Hexadecimal and binary spellings have no length limit. -/
theorem pImm_numSp_radix (st : NumStyle) (hst : st ≠ .dec) (v : Int) (ws rest : Inp) (hws : AllWs ws)
    (hr : TokEnd rest) : pImm (ws ++ (numSp st v ++ rest)) = .ok v rest := by
  rw [pImm_ws ws _ hws]
  cases st with
  | dec => exact absurd rfl hst
  | hex z up =>
    have hds : ∀ c ∈ List.replicate z '0' ++ recase up (hexDigitsU v.natAbs), isHexNum c = true := by
      intro c hc
      rcases List.mem_append.mp hc with h | h
      · exact replicate_zero_isHex z c h
      · exact recase_hex_isHex up _ c h
    have hne : List.replicate z '0' ++ recase up (hexDigitsU v.natAbs) ≠ [] := by
      simp [recase_ne_nil up _ (hexDigitsU_ne_nil _)]
    have := pImm_hex_digits (decide (v < 0)) _ rest hds hne hr.hexEnd
    rw [digitsVal_zeros, recase_hex_val, signed_natAbs] at this
    simpa [numSp, List.append_assoc] using this
  | bin z =>
    have hds : ∀ c ∈ List.replicate z '0' ++ binDigitsOf v.natAbs, isBin c = true := by
      intro c hc
      rcases List.mem_append.mp hc with h | h
      · exact replicate_zero_isBin z c h
      · exact binDigitsOf_isBin _ c h
    have hne : List.replicate z '0' ++ binDigitsOf v.natAbs ≠ [] := by
      simp [binDigitsOf_ne_nil]
    have := pImm_bin_digits (decide (v < 0)) _ rest hds hne hr.binEnd
    rw [digitsVal_zeros, digitsVal_bin, signed_natAbs] at this
    simpa [numSp, List.append_assoc] using this

end ArchSim.Lemmas.C04Spell
