/-
C02 (control half), part 19: termination. If the sequential machine halts (done or stuck at a
fault) after `k` steps, the pipeline is done or has faulted within `5 * (k + 2)` cycles.
-/
import ArchSim.Lemmas.C02Ex

namespace ArchSim.Pipe
open ArchSim ArchSim.Rv

/-! ### The retired counter under completions -/

theorem cWB_instrs (s : St) (l : Option Latch) (fl : Option Int) :
    (cWB s l fl).st.instrs = s.instrs + (if l.isSome then 1 else 0) := by
  unfold cWB; rw [finishC_st, wbStage_instrs]

theorem cMEM_instrs (s : St) (e : Option Latch) (fl : Option Int) :
    s.instrs ≤ (cMEM s e fl).st.instrs ∧ (cMEM s e fl).st.instrs ≤ s.instrs + 1 := by
  unfold cMEM; split
  · simp [stuckC]
  · rw [cWB_instrs, memStage_instrs]; split <;> omega

theorem cEX_instrs (s : St) (d : Option Latch) :
    s.instrs ≤ (cEX s d).st.instrs ∧ (cEX s d).st.instrs ≤ s.instrs + 1 := by
  unfold cEX; split
  · simp [stuckC]
  · have := cMEM_instrs (exStage s d none none).st (exStage s d none none).latch
      (latchFlush (exStage s d none none).latch)
    rw [exStage_instrs] at this; exact this

theorem cID_instrs (s : St) (f : Option Latch) :
    s.instrs ≤ (cID s f).st.instrs ∧ (cID s f).st.instrs ≤ s.instrs + 1 := cEX_instrs s _

theorem bind_instrs_ge (c : Comp) (f : St → Comp) (h : ∀ s, s.instrs ≤ (f s).st.instrs) :
    c.st.instrs ≤ (c.bind f).st.instrs := by
  unfold Comp.bind
  cases c.red with
  | none => exact h _
  | some a => exact Nat.le_refl _

/-- The abstraction has retired at least as many instructions as the physical state. -/
theorem abs_instrs_ge (p : PSt) : p.st.instrs ≤ (abs p).instrs := by
  show p.st.instrs ≤ (absC p).st.instrs
  unfold absC
  refine Nat.le_trans ?_ (bind_instrs_ge _ _ (fun s => (cID_instrs s _).1))
  refine Nat.le_trans ?_ (bind_instrs_ge _ _ (fun s => (cID_instrs s _).1))
  refine Nat.le_trans ?_ (bind_instrs_ge _ _ (fun s => (cEX_instrs s _).1))
  refine Nat.le_trans ?_ (bind_instrs_ge _ _ (fun s => (cMEM_instrs s _ _).1))
  rw [cWB_instrs]; omega

/-- A sequential step retires at most one instruction. -/
theorem seqStep_instrs_le (s : St) (hs : FetchSound s.imem) : (seqStep s).instrs ≤ s.instrs + 1 := by
  cases hi : s.imem.instrAt s.pc with
  | none => rw [(seqStep_noinstr s hi).1.instrs]; omega
  | some i => rw [(seqStep_cID s i hi hs).1.instrs]; exact (cID_instrs s _).2

theorem seqRun_instrs_le (s : St) (h : ICoh s.imem) : ∀ k, (seqRun k s).instrs ≤ s.instrs + k
  | 0 => Nat.le_refl _
  | k + 1 => by
    have := seqStep_instrs_le (seqRun k s) (ICoh_seqRun s h k).fetchSound
    have := seqRun_instrs_le s h k
    show (seqStep (seqRun k s)).instrs ≤ _
    omega

end ArchSim.Pipe

namespace ArchSim.Pipe
open ArchSim ArchSim.Rv

/-! ### The exit code under live completions -/

theorem cWB_live_exitCode (s : St) (l : Option Latch) (fl : Option Int) (h : (cWB s l fl).red = none) :
    (cWB s l fl).st.exitCode = s.exitCode := by
  unfold cWB at h ⊢
  rw [finishC_st]
  apply wbStage_exitCode_noexit
  rw [← wbStage_flush_isSome s l]
  cases hf : latchFlush (wbStage s l).2 with
  | none => rfl
  | some a => rw [hf] at h; simp [finishC] at h

theorem cMEM_live_exitCode (s : St) (e : Option Latch) (fl : Option Int) (h : (cMEM s e fl).red = none) :
    (cMEM s e fl).st.exitCode = s.exitCode := by
  cases hf : (memStage s e).fault with
  | some ft => unfold cMEM at h; rw [hf] at h; cases h
  | none =>
    rw [cMEM_nofault _ _ _ hf] at h ⊢
    rw [cWB_live_exitCode _ _ _ h, memStage_exitCode]

theorem cEX_live_exitCode (s : St) (d : Option Latch) (h : (cEX s d).red = none) :
    (cEX s d).st.exitCode = s.exitCode := by
  cases hf : (exStage s d none none).fault with
  | some ft => unfold cEX at h; rw [hf] at h; cases h
  | none =>
    rw [cEX_nofault _ _ hf] at h ⊢
    rw [cMEM_live_exitCode _ _ _ h, exStage_exitCode]

theorem cID_live_exitCode (s : St) (f : Option Latch) (h : (cID s f).red = none) :
    (cID s f).st.exitCode = s.exitCode := cEX_live_exitCode s _ h

theorem bind_live {c : Comp} {f : St → Comp} (h : (c.bind f).red = none) :
    c.red = none ∧ (f c.st).red = none ∧ (c.bind f).st = (f c.st).st := by
  unfold Comp.bind at h ⊢
  cases hc : c.red with
  | none => rw [hc] at h; exact ⟨rfl, h, rfl⟩
  | some a => rw [hc] at h; rw [hc] at h; cases h

/-- With nothing redirecting in flight, no exiting ECALL is in flight: the exit code of the
    abstraction is the physical one. -/
theorem abs_live_exitCode (p : PSt) (h : (absC p).red = none) : (abs p).exitCode = p.st.exitCode := by
  show (absC p).st.exitCode = _
  unfold absC at h ⊢
  obtain ⟨h4, g4, e4⟩ := bind_live h
  rw [e4, cID_live_exitCode _ _ g4]
  obtain ⟨h3, g3, e3⟩ := bind_live h4
  rw [e3, cID_live_exitCode _ _ g3]
  obtain ⟨h2, g2, e2⟩ := bind_live h3
  rw [e2, cEX_live_exitCode _ _ g2]
  obtain ⟨h1, g1, e1⟩ := bind_live h2
  rw [e1, cMEM_live_exitCode _ _ _ g1, cWB_live_exitCode _ _ _ h1]

end ArchSim.Pipe

namespace ArchSim.Pipe
open ArchSim ArchSim.Rv

theorem singleDone_congr {s t : St} (h : SimP s t) : singleDone s = singleDone t := by
  unfold singleDone
  rw [h.1.exitCode, instrAt_congr h.1.prog, h.2]

theorem fetchOK_iff (p : PSt) :
    fetchOK p = true ↔ p.stalled = none ∧ (absC p).red = none ∧ (p.st.imem.instrAt p.st.pc).isSome = true := by
  unfold fetchOK
  simp [Bool.and_eq_true, Option.isNone_iff_eq_none, and_assoc]

/-- A correct-path fetch in a pipeline that is not done happens from a sequential state that is not
    done. -/
theorem not_singleDone_of_fetchOK (p : PSt) (hf : fetchOK p = true) (hd : isDone p = false) :
    singleDone (abs p) = false := by
  obtain ⟨_, hr, hi⟩ := (fetchOK_iff p).1 hf
  have hx := exitCode_none_of_not_done p hd
  have hpc : (abs p).pc = p.st.pc := by unfold abs; exact pcOr_of_none hr _
  unfold singleDone
  rw [abs_live_exitCode p hr, hx, abs_imem, hpc]
  cases hq : p.st.imem.instrAt p.st.pc with
  | none => rw [hq] at hi; cases hi
  | some _ => rfl

theorem absF_none_of_live (p : PSt) (h : (absC p).red = none) : absF p = none := by
  unfold absF Comp.flt; rw [h]

end ArchSim.Pipe

namespace ArchSim.Pipe
open ArchSim ArchSim.Rv

/-- Refinement with a bound on the number of sequential steps: as long as the pipeline is neither
    done nor faulted, it has performed at most `kstar + 1` correct-path fetches, where `kstar` is any
    index at which the sequential machine is done or stuck at a fault. -/
theorem refine_run_bound_raw (p0 : PSt) (hI : PInv p0) (h0 : absF p0 = none)
    (kstar : Nat)
    (hh : singleDone (seqRun kstar (abs p0)) = true ∨ (seqFault (seqRun kstar (abs p0))).isSome = true) :
    ∀ n, runOK n p0 → (∀ m, m < n → RawFree (pipeRun m p0)) →
      (∀ m, m < n → isDone (pipeRun m p0) = false) →
      ∃ k, k ≤ kstar + 1 ∧ SimP (abs (pipeRun n p0)) (seqRun k (abs p0)) ∧
        (k ≤ kstar ∨ (absF (pipeRun n p0)).isSome = true)
  | 0, _, _, _ => ⟨0, Nat.zero_le _, SimP.rfl' _, Or.inl (Nat.zero_le _)⟩
  | n + 1, hr, hraw, hnd => by
    obtain ⟨hr', hf⟩ := runOK_succ hr
    obtain ⟨k, hk, hsim, hdis⟩ :=
      refine_run_bound_raw p0 hI h0 kstar hh n hr' (fun m hm => hraw m (Nat.lt_succ_of_lt hm))
        (fun m hm => hnd m (Nat.lt_succ_of_lt hm))
    have hIn := PInv_run p0 hI n hr'
    obtain ⟨a1, a2, a3⟩ := abs_step_raw (pipeRun n p0) hIn (hraw n (Nat.lt_succ_self n)) hf
    have hcA : FetchSound (abs (pipeRun n p0)).imem := by rw [abs_imem]; exact hIn.icoh.fetchSound
    have hcS : FetchSound (seqRun k (abs p0)).imem :=
      (ICoh_seqRun (abs p0) (by rw [abs_imem]; exact hI.icoh) k).fetchSound
    cases hfo : fetchOK (pipeRun n p0) with
    | false =>
      rw [hfo] at a1 a2
      simp only [Bool.false_eq_true, if_false] at a1 a2
      refine ⟨k, hk, a1.trans hsim, ?_⟩
      rcases hdis with h | h
      · exact Or.inl h
      · right; show (absF (step (pipeRun n p0)).p).isSome = true; rw [a2]; exact h
    | true =>
      rw [hfo] at a1 a2
      simp only [if_true] at a1 a2
      obtain ⟨c1, c2⟩ := seqStep_simP hsim hcA hcS
      have hlive := ((fetchOK_iff _).1 hfo).2.1
      have hkle : k ≤ kstar := by
        rcases hdis with h | h
        · exact h
        · rw [absF_none_of_live _ hlive] at h; cases h
      have hnd' := not_singleDone_of_fetchOK _ hfo (hnd n (Nat.lt_succ_self n))
      by_cases hlt : k < kstar
      · exact ⟨k + 1, by omega, a1.trans c1, Or.inl (by omega)⟩
      · have hke : k = kstar := by omega
        subst hke
        refine ⟨k + 1, by omega, a1.trans c1, Or.inr ?_⟩
        show (absF (step (pipeRun n p0)).p).isSome = true
        rw [a2, c2]
        rcases hh with h | h
        · rw [← singleDone_congr hsim, hnd'] at h; cases h
        · exact h

/-- `refine_run_bound_raw` for a pipeline with hazard detection on. -/
theorem refine_run_bound (p0 : PSt) (hI : PInv p0) (hz : p0.hazard = true) (h0 : absF p0 = none)
    (kstar : Nat)
    (hh : singleDone (seqRun kstar (abs p0)) = true ∨ (seqFault (seqRun kstar (abs p0))).isSome = true)
    (n : Nat) (hr : runOK n p0) (hnd : ∀ m, m < n → isDone (pipeRun m p0) = false) :
    ∃ k, k ≤ kstar + 1 ∧ SimP (abs (pipeRun n p0)) (seqRun k (abs p0)) ∧
      (k ≤ kstar ∨ (absF (pipeRun n p0)).isSome = true) :=
  refine_run_bound_raw p0 hI h0 kstar hh n hr (rawFree_run_of_hazard p0 hI hz n hr) hnd

end ArchSim.Pipe

namespace ArchSim.Pipe
open ArchSim ArchSim.Rv

theorem pipeRun_add (p : PSt) (n : Nat) : ∀ j, pipeRun j (pipeRun n p) = pipeRun (n + j) p
  | 0 => rfl
  | j + 1 => by rw [pipeRun, pipeRun_add p n j]; rfl

theorem runOK_add {p : PSt} {n j : Nat} (h : runOK (n + j) p) : runOK n p ∧ runOK j (pipeRun n p) :=
  ⟨fun m hm => h m (by omega), fun m hm => by rw [pipeRun_add]; exact h (n + m) (by omega)⟩

theorem instrs_mono_run (p : PSt) (hI : PInv p) : ∀ n, runOK n p → p.st.instrs ≤ (pipeRun n p).st.instrs
  | 0, _ => Nat.le_refl _
  | n + 1, h => by
    obtain ⟨h', hf⟩ := runOK_succ h
    have := instrs_mono_run p hI n h'
    have hs := step_instrs (pipeRun n p) (PInv_run p hI n h') hf
    show _ ≤ (step (pipeRun n p)).p.st.instrs
    rw [hs]; omega

/-- `5 t` cycles without fault and without reaching a done state retire at least `t` instructions. -/
theorem progress_iter (p0 : PSt) (hI : PInv p0) : ∀ t, runOK (5 * t) p0 →
    (∀ m, m ≤ 5 * t → isDone (pipeRun m p0) = false) → p0.st.instrs + t ≤ (pipeRun (5 * t) p0).st.instrs
  | 0, _, _ => Nat.le_refl _
  | t + 1, hr, hnd => by
    have he : 5 * (t + 1) = 5 * t + 5 := by omega
    rw [he] at hr hnd ⊢
    obtain ⟨hr1, hr2⟩ := runOK_add hr
    have ih := progress_iter p0 hI t hr1 (fun m hm => hnd m (by omega))
    have hIq := PInv_run p0 hI (5 * t) hr1
    obtain ⟨j, hj, hres⟩ := progress5 (pipeRun (5 * t) p0) hIq hr2
    rw [pipeRun_add] at hres
    rcases hres with h | h
    · rw [hnd (5 * t + j) (by omega)] at h; cases h
    · -- monotone from `j` to `5`
      have hsplit : 5 * t + 5 = (5 * t + j) + (5 - j) := by omega
      rw [hsplit] at hr ⊢
      obtain ⟨hra, hrb⟩ := runOK_add hr
      have hm := instrs_mono_run (pipeRun (5 * t + j) p0) (PInv_run p0 hI _ hra) (5 - j) hrb
      rw [pipeRun_add] at hm
      omega

end ArchSim.Pipe

namespace ArchSim.Pipe
open ArchSim ArchSim.Rv

/-- TERMINATION, general form (any setting of the hazard flag; decode free of read-after-write
    hazards along every fault-free run). -/
theorem terminates_raw (st : St) (hzf : Bool) (hp : ProgOK st.imem) (hc : ICoh st.imem)
    (hraw : ∀ n, runOK n (PSt.init st hzf) → ∀ m, m < n → RawFree (pipeRun m (PSt.init st hzf)))
    (kstar : Nat)
    (hh : singleDone (seqRun kstar st) = true ∨ (seqFault (seqRun kstar st)).isSome = true) :
    ∃ N, N ≤ 5 * (kstar + 2) ∧
      (¬ runOK N (PSt.init st hzf) ∨ isDone (pipeRun N (PSt.init st hzf)) = true) := by
  have hI := PInv_init st hzf hp hc
  have ha : abs (PSt.init st hzf) = st := abs_init st hzf
  by_cases hr : runOK (5 * (kstar + 2)) (PSt.init st hzf)
  · by_cases hd : ∃ m, m ≤ 5 * (kstar + 2) ∧ isDone (pipeRun m (PSt.init st hzf)) = true
    · obtain ⟨m, hm, hdm⟩ := hd
      exact ⟨m, hm, Or.inr hdm⟩
    · exfalso
      have hnd : ∀ m, m ≤ 5 * (kstar + 2) → isDone (pipeRun m (PSt.init st hzf)) = false := by
        intro m hm
        cases hq : isDone (pipeRun m (PSt.init st hzf)) with
        | false => rfl
        | true => exact absurd ⟨m, hm, hq⟩ hd
      have h1 := progress_iter _ hI (kstar + 2) hr hnd
      obtain ⟨k, hk, hsim, _⟩ := refine_run_bound_raw _ hI (absF_init st hzf) kstar (by rw [ha]; exact hh)
        (5 * (kstar + 2)) hr (hraw _ hr) (fun m hm => hnd m (Nat.le_of_lt hm))
      have h2 := abs_instrs_ge (pipeRun (5 * (kstar + 2)) (PSt.init st hzf))
      rw [hsim.1.instrs, ha] at h2
      have h3 := seqRun_instrs_le st hc k
      have h4 : (PSt.init st hzf).st.instrs = st.instrs := rfl
      omega
  · exact ⟨_, Nat.le_refl _, Or.inl hr⟩

/-- TERMINATION. If the sequential machine, started in `st`, is done or stuck at a fault after
    `kstar` steps, then the five-stage pipeline started in `st` has faulted or is done after at most
    `5 * (kstar + 2)` cycles. -/
theorem terminates_init (st : St) (hp : ProgOK st.imem) (hc : ICoh st.imem) (kstar : Nat)
    (hh : singleDone (seqRun kstar st) = true ∨ (seqFault (seqRun kstar st)).isSome = true) :
    ∃ N, N ≤ 5 * (kstar + 2) ∧
      (¬ runOK N (PSt.init st true) ∨ isDone (pipeRun N (PSt.init st true)) = true) :=
  terminates_raw st true hp hc
    (fun n hr => rawFree_run_of_hazard _ (PInv_init st true hp hc) rfl n hr) kstar hh

end ArchSim.Pipe

namespace ArchSim.Pipe
open ArchSim ArchSim.Rv

/-- Refinement, with the additional information that the sequential machine was not done at any
    earlier step (every correct-path fetch of a pipeline that is not done happens from a sequential
    state that is not done). -/
theorem refine_run_first_raw (p0 : PSt) (hI : PInv p0) :
    ∀ n, runOK n p0 → (∀ m, m < n → RawFree (pipeRun m p0)) →
      (∀ m, m < n → isDone (pipeRun m p0) = false) →
      ∃ k, k ≤ n ∧ SimP (abs (pipeRun n p0)) (seqRun k (abs p0)) ∧
        (∀ j, j < k → singleDone (seqRun j (abs p0)) = false) ∧
        retireLog n p0 ++ absLog (pipeRun n p0) = absLog p0 ++ seqTrace k (abs p0) ∧
        (∀ j, j < k → seqFault (seqRun j (abs p0)) = none ∨ (absF (pipeRun n p0)).isSome = true)
  | 0, _, _, _ => ⟨0, Nat.le_refl 0, SimP.rfl' _, fun j hj => absurd hj (Nat.not_lt_zero j),
      by simp [retireLog, seqTrace, pipeRun], fun j hj => absurd hj (Nat.not_lt_zero j)⟩
  | n + 1, hr, hraw, hnd => by
    obtain ⟨hr', hf⟩ := runOK_succ hr
    obtain ⟨k, hk, hsim, hfirst, hlog, hnf⟩ :=
      refine_run_first_raw p0 hI n hr' (fun m hm => hraw m (Nat.lt_succ_of_lt hm))
        (fun m hm => hnd m (Nat.lt_succ_of_lt hm))
    have hIn := PInv_run p0 hI n hr'
    obtain ⟨a1, a2, a3⟩ := abs_step_raw (pipeRun n p0) hIn (hraw n (Nat.lt_succ_self n)) hf
    have hcA : FetchSound (abs (pipeRun n p0)).imem := by rw [abs_imem]; exact hIn.icoh.fetchSound
    have hcS : FetchSound (seqRun k (abs p0)).imem :=
      (ICoh_seqRun (abs p0) (by rw [abs_imem]; exact hI.icoh) k).fetchSound
    have hl4 := step_l4_log (pipeRun n p0) hf
    have hrl : retireLog (n + 1) p0 ++ absLog (pipeRun (n + 1) p0) =
        retireLog n p0 ++ (latchLog (pipeRun n p0).l3 ++ absLog (step (pipeRun n p0)).p) := by
      show (retireLog n p0 ++ l4Log (step (pipeRun n p0)).p.l4) ++
        absLog (step (pipeRun n p0)).p = _
      rw [hl4, List.append_assoc]
    rw [hrl, a3, ← List.append_assoc, hlog]
    cases hfo : fetchOK (pipeRun n p0) with
    | false =>
      rw [hfo] at a1 a2
      simp only [Bool.false_eq_true, if_false] at a1 a2 ⊢
      refine ⟨k, Nat.le_succ_of_le hk, a1.trans hsim, hfirst, by simp, fun j hj => ?_⟩
      show _ ∨ (absF (step (pipeRun n p0)).p).isSome = true
      rw [a2]; exact hnf j hj
    | true =>
      rw [hfo] at a1 a2
      simp only [if_true] at a1 a2 ⊢
      obtain ⟨c1, c2⟩ := seqStep_simP hsim hcA hcS
      have hnd' := not_singleDone_of_fetchOK _ hfo (hnd n (Nat.lt_succ_self n))
      have hlive := ((fetchOK_iff _).1 hfo).2.1
      refine ⟨k + 1, Nat.succ_le_succ hk, a1.trans c1, fun j hj => ?_, ?_, fun j hj => ?_⟩
      · by_cases hjk : j < k
        · exact hfirst j hjk
        · have : j = k := by omega
          subst this
          rw [← singleDone_congr hsim]; exact hnd'
      · rw [seqLog_congr hsim hcA hcS, List.append_assoc]; rfl
      · show _ ∨ (absF (step (pipeRun n p0)).p).isSome = true
        by_cases hjk : j < k
        · rcases hnf j hjk with h | h
          · exact Or.inl h
          · rw [absF_none_of_live _ hlive] at h; cases h
        · have : j = k := by omega
          subst this
          rw [a2, c2]
          cases hq : seqFault (seqRun j (abs p0)) with
          | none => exact Or.inl rfl
          | some _ => exact Or.inr rfl

/-- `refine_run_first_raw` for a pipeline with hazard detection on. -/
theorem refine_run_first (p0 : PSt) (hI : PInv p0) (hz : p0.hazard = true) (n : Nat) (hr : runOK n p0)
    (hnd : ∀ m, m < n → isDone (pipeRun m p0) = false) :
    ∃ k, k ≤ n ∧ SimP (abs (pipeRun n p0)) (seqRun k (abs p0)) ∧
      (∀ j, j < k → singleDone (seqRun j (abs p0)) = false) ∧
      retireLog n p0 ++ absLog (pipeRun n p0) = absLog p0 ++ seqTrace k (abs p0) ∧
      (∀ j, j < k → seqFault (seqRun j (abs p0)) = none ∨ (absF (pipeRun n p0)).isSome = true) :=
  refine_run_first_raw p0 hI n hr (rawFree_run_of_hazard p0 hI hz n hr) hnd

theorem singleDone_of_isDone (p : PSt) (h : isDone p = true) : singleDone p.st = true := by
  unfold isDone at h; unfold singleDone
  simp only [Bool.or_eq_true, Bool.and_eq_true] at h ⊢
  rcases h with h | h
  · exact Or.inl h
  · exact Or.inr h.2

/-- FINAL STATE, general form (any setting of the hazard flag, decode free of read-after-write
    hazards along the run). -/
theorem final_state_raw (st : St) (hzf : Bool) (hp : ProgOK st.imem) (hc : ICoh st.imem)
    (hx : st.exitCode = none) (n : Nat) (hr : runOK n (PSt.init st hzf))
    (hraw : ∀ m, m < n → RawFree (pipeRun m (PSt.init st hzf)))
    (hd : isDone (pipeRun n (PSt.init st hzf)) = true)
    (hprev : ∀ m, m < n → isDone (pipeRun m (PSt.init st hzf)) = false) :
    ∃ k, k ≤ n ∧ SimP (pipeRun n (PSt.init st hzf)).st (seqRun k st) ∧ singleDone (seqRun k st) = true ∧
      (∀ j, j < k → singleDone (seqRun j st) = false) ∧
      retireLog n (PSt.init st hzf) = seqTrace k st ∧
      (∀ j, j < k → seqFault (seqRun j st) = none) := by
  have hI := PInv_init st hzf hp hc
  obtain ⟨k, hk, hsim, hfirst, hlog, hnf⟩ := refine_run_first_raw _ hI n hr hraw hprev
  have hdr := drained_at_first_done _ hI hx n hr hd hprev
  have hlogN := absLog_of_drained _ hdr
  have hFN : absF (pipeRun n (PSt.init st hzf)) = none := by
    unfold absF; rw [absC_of_drained _ hdr]; rfl
  rw [abs_of_drained _ hdr, abs_init] at hsim
  rw [abs_init] at hfirst hnf
  rw [hlogN, abs_init, absLog_init] at hlog
  refine ⟨k, hk, hsim, by rw [← singleDone_congr hsim]; exact singleDone_of_isDone _ hd, hfirst,
    by simpa using hlog, fun j hj => ?_⟩
  rcases hnf j hj with h | h
  · exact h
  · rw [hFN] at h; cases h

/-- FINAL STATE. When the simulation loop `while not is_done(): step()` stops after `n` cycles
    without a fault, the physical architectural state is observationally the state of the sequential
    machine after `k ≤ n` steps, and `k` is the first step at which the sequential machine is done
    (so this is exactly where the single-cycle simulation loop stops). -/
theorem final_state_init (st : St) (hp : ProgOK st.imem) (hc : ICoh st.imem) (hx : st.exitCode = none)
    (n : Nat) (hr : runOK n (PSt.init st true)) (hd : isDone (pipeRun n (PSt.init st true)) = true)
    (hprev : ∀ m, m < n → isDone (pipeRun m (PSt.init st true)) = false) :
    ∃ k, k ≤ n ∧ SimP (pipeRun n (PSt.init st true)).st (seqRun k st) ∧ singleDone (seqRun k st) = true ∧
      (∀ j, j < k → singleDone (seqRun j st) = false) ∧
      retireLog n (PSt.init st true) = seqTrace k st ∧
      (∀ j, j < k → seqFault (seqRun j st) = none) :=
  final_state_raw st true hp hc hx n hr
    (rawFree_run_of_hazard _ (PInv_init st true hp hc) rfl n hr) hd hprev

end ArchSim.Pipe
