/-
C03 (program level), part 2: the relation `CacheRel` between the architectural state of a run with the
data cache enabled and of the same run with the flat data memory, the acceptance predicate
`StepAccepted`, and the print-string loop / `process_ecall` on related memory systems.
-/
import ArchSim.Lemmas.C03ProgMem
import ArchSim.Lemmas.C02SplitMem

namespace ArchSim.Lemmas.C03Prog
open ArchSim ArchSim.Cache ArchSim.Mem ArchSim.Rv ArchSim.Spec.CacheAbs ArchSim.Spec.TagCache

/-- `sc` is a state whose data memory is a cache system, `sf` the state of the same program with the
    flat data memory the cache represents (`MRel`: invariants `CInv` and C09 `Inv`, admissible
    geometry and policy, `logical = cells`).  Registers, pc, instruction memory (including the state of
    an instruction cache, if any), output, exit code, instruction / branch / procedure counts are equal.
    NOT compared: the cycle counter (miss penalties), the data-cache counters (they live in the cache
    system), and the stall / flush counters (unused in single-cycle mode). -/
structure CacheRel (sc sf : St) : Prop where
  mem      : MRel sc.mem sf.mem
  regs     : sc.regs = sf.regs
  pc       : sc.pc = sf.pc
  imem     : sc.imem = sf.imem
  output   : sc.output = sf.output
  exitCode : sc.exitCode = sf.exitCode
  instrs   : sc.instrs = sf.instrs
  branches : sc.branches = sf.branches
  procs    : sc.procs = sf.procs

/-- `print_string` starting at `a` does not raise on the memory system `ms`.  On the flat memory this
    says: all bytes from `a` up to and including the terminating zero byte lie in the data range (a
    byte read cannot cross a word boundary, so these reads are then accepted accesses). -/
def PrintOK (ms : MemSys) (a : Int) : Prop :=
  ∃ cs, (printStrLoop printStrFuel ms a []).2 = .ok cs

/-- The data accesses instruction `i` performs in state `s` are accepted ones: a load / store accesses
    an offered width within one word of the data range (`Accepted` at the address `behavior()`
    computes), and an `ecall` print-string (a7 = 4) reads its string from the data range. -/
def AccessOK (i : Instr) (s : St) : Prop :=
  (i.op.ty = .memI → Accepted (accessBits i.op) ((s.regs i.rs1 : Int) + i.imm)) ∧
  (i.op.ty = .s →
    Accepted (accessBits i.op) (((s.regs i.rs1 + wrapU i.imm) % 4294967296 : Nat) : Int)) ∧
  (i.op = .ecall → s.regs 17 = 4 → PrintOK s.mem (s.regs 10))

/-- The instruction `singleStep` executes in state `s` (none: no instruction at pc, or the fetch
    fails).  Without instruction cache it is the instruction stored at pc (`fetched_uncached`). -/
def fetched (s : St) : Option Instr :=
  match s.imem.instrAt s.pc with
  | none => none
  | some _ =>
    match (s.imem.fetch s.pc).res with
    | .ok (some i) => some i
    | _ => none

/-- The step taken in state `s` performs accepted data accesses only. -/
def StepAccepted (s : St) : Prop := ∀ i, fetched s = some i → AccessOK i s

/-! ### the flat side rejects what is outside the data range -/

theorem flat_read_ok_inData {m : Mem.Mem} (hm : ArchSim.Lemmas.C03.MemOK m) {bits : Nat}
    (hb : widthOK bits) {a : Int} {c : Bool} {v : Nat}
    (h : ((MemSys.flat m).read bits a c).res = .ok v) : inData a := by
  unfold inData
  rcases Nat.lt_or_ge (wrap32 a) 16384 with hlt | hge
  · exfalso
    have := ArchSim.Lemmas.C03.read_riscv_bad hm bits hb a hlt
    simp [MemSys.read, this, liftMem] at h
  · exact hge

/-! ### the print-string loop -/

theorem accepted_byte {a : Int} (h : inData a) : Accepted 8 a :=
  ⟨Or.inl rfl, by omega, h⟩

/-- If the print-string loop succeeds on the flat memory, it succeeds on the cache with the same
    characters; the flat memory is unchanged and the relation is kept. -/
theorem printStr_rel : ∀ (fuel : Nat) (mc mf : MemSys) (a : Int) (acc cs : List Char), MRel mc mf →
    (printStrLoop fuel mf a acc).2 = .ok cs →
    (printStrLoop fuel mc a acc).2 = .ok cs ∧ (printStrLoop fuel mf a acc).1 = mf ∧
      MRel (printStrLoop fuel mc a acc).1 mf
  | 0, _, _, _, _, _, _, h => by simp [printStrLoop] at h
  | fuel + 1, mc, mf, a, acc, cs, hr, h => by
    have hin : inData a := by
      obtain ⟨l, s, m, rfl, rfl, hrep⟩ := hr
      cases hres : ((MemSys.flat m).read 8 a false).res with
      | error e => simp [printStrLoop, hres] at h
      | ok b => exact flat_read_ok_inData hrep.memOK (Or.inl rfl) hres
    obtain ⟨b, h1, h2, h3⟩ := hr.read (accepted_byte hin) false false
    simp only [printStrLoop, h1, h2] at h ⊢
    by_cases hb : b = 0
    · simp only [hb, if_true] at h ⊢
      exact ⟨h, trivial, h3⟩
    · simp only [hb, if_false] at h ⊢
      exact printStr_rel fuel _ mf (a + 1) _ cs h3 h

end ArchSim.Lemmas.C03Prog
