/-
C17 (tables) — helper lemmas, part 1: sorting the `_memory_repr` entries by address.
`Views.sortedEntries m bits` is `Mem.reprEntries m bits` passed through `List.mergeSort` by address.
-/
import ArchSim.Model.Views
import ArchSim.Lemmas.C18Repr

namespace ArchSim.Lemmas.C17Views
open ArchSim ArchSim.Mem ArchSim.Views ArchSim.Lemmas.C18

theorem addrLe_iff (p q : Int × Nat) : addrLe p q = true ↔ p.1 ≤ q.1 := by
  simp [addrLe]

theorem addrLe_trans (a b c : Int × Nat) (h₁ : addrLe a b = true) (h₂ : addrLe b c = true) :
    addrLe a c = true := by
  rw [addrLe_iff] at *; omega

theorem addrLe_total (a b : Int × Nat) : (addrLe a b || addrLe b a) = true := by
  rw [Bool.or_eq_true, addrLe_iff, addrLe_iff]; omega

/-- The merge sort by address yields non-descending addresses. -/
theorem mergeSort_addrLe_pairwise (l : List (Int × Nat)) :
    (l.mergeSort addrLe).Pairwise (fun p q => p.1 ≤ q.1) := by
  have h := List.pairwise_mergeSort (le := addrLe) addrLe_trans addrLe_total l
  exact h.imp (fun {p q} hpq => (addrLe_iff p q).mp hpq)

theorem mergeSort_map_fst_perm (l : List (Int × Nat)) :
    ((l.mergeSort addrLe).map Prod.fst).Perm (l.map Prod.fst) :=
  (List.mergeSort_perm l addrLe).map Prod.fst

/-- With distinct addresses the sorted addresses are strictly ascending. -/
theorem mergeSort_fst_lt (l : List (Int × Nat)) (hn : (l.map Prod.fst).Nodup) :
    ((l.mergeSort addrLe).map Prod.fst).Pairwise (· < ·) := by
  have hn' : ((l.mergeSort addrLe).map Prod.fst).Nodup :=
    (mergeSort_map_fst_perm l).nodup_iff.mpr hn
  have hle : ((l.mergeSort addrLe).map Prod.fst).Pairwise (· ≤ ·) := by
    rw [List.pairwise_map]; exact mergeSort_addrLe_pairwise l
  exact (hle.and hn').imp (fun {a b} h => by omega)

/-! ### `sortedEntries` -/

theorem sortedEntries_ok {m : Mem} {bits : Nat} {l : List (Int × Nat)}
    (h : sortedEntries m bits = .ok l) :
    ∃ r, reprEntries m bits = .ok r ∧ l = r.mergeSort addrLe := by
  unfold sortedEntries at h
  split at h
  · cases h
  · next r hr => cases h; exact ⟨r, hr, rfl⟩

theorem sortedEntries_of_ok {m : Mem} {bits : Nat} {r : List (Int × Nat)}
    (h : reprEntries m bits = .ok r) : sortedEntries m bits = .ok (r.mergeSort addrLe) := by
  unfold sortedEntries; rw [h]

theorem sortedEntries_error_iff (m : Mem) (bits : Nat) (e : AddrErr) :
    sortedEntries m bits = .error e ↔ reprEntries m bits = .error e := by
  unfold sortedEntries
  cases reprEntries m bits with
  | error e' => constructor <;> (intro h; cases h; rfl)
  | ok r => constructor <;> (intro h; cases h)

/-- The sorted addresses are a permutation of the table keys. -/
theorem sortedEntries_perm {m : Mem} {bits : Nat} {l : List (Int × Nat)}
    (h : sortedEntries m bits = .ok l) : (l.map Prod.fst).Perm (reprKeys m bits) := by
  obtain ⟨r, hr, rfl⟩ := sortedEntries_ok h
  have := (foldr_entryStep_inv m bits _ r (by rw [← reprEntries_eq]; exact hr)).1
  rw [← this]; exact mergeSort_map_fst_perm r

theorem reprKeys_nodup' (m : Mem) (bits : Nat) : (reprKeys m bits).Nodup :=
  reprKeysAux_nodup _ _ _ List.nodup_nil

/-- The sorted addresses are strictly ascending. -/
theorem sortedEntries_lt {m : Mem} {bits : Nat} {l : List (Int × Nat)}
    (h : sortedEntries m bits = .ok l) : (l.map Prod.fst).Pairwise (· < ·) := by
  obtain ⟨r, hr, rfl⟩ := sortedEntries_ok h
  have hk := (foldr_entryStep_inv m bits _ r (by rw [← reprEntries_eq]; exact hr)).1
  exact mergeSort_fst_lt r (by rw [hk]; exact reprKeys_nodup' m bits)

theorem sortedEntries_mem_fst {m : Mem} {bits : Nat} {l : List (Int × Nat)}
    (h : sortedEntries m bits = .ok l) (a : Int) : a ∈ l.map Prod.fst ↔ a ∈ reprKeys m bits :=
  (sortedEntries_perm h).mem_iff

/-- Every sorted entry carries the value `readN` returns at its address, reduced to `bits` bits. -/
theorem sortedEntries_val {m : Mem} {bits : Nat} {l : List (Int × Nat)}
    (h : sortedEntries m bits = .ok l) (p : Int × Nat) (hp : p ∈ l) :
    ∃ v, readN m p.1 (cellsOf m.cfg bits) = .ok v ∧ p.2 = v % 2 ^ bits := by
  obtain ⟨r, hr, rfl⟩ := sortedEntries_ok h
  have := (foldr_entryStep_inv m bits _ r (by rw [← reprEntries_eq]; exact hr)).2
  exact this p (List.mem_mergeSort.mp hp)

/-- Two strictly ascending lists with the same members are equal. -/
theorem eq_of_sorted_of_mem_iff (l₁ l₂ : List Int) (h₁ : l₁.Pairwise (· < ·))
    (h₂ : l₂.Pairwise (· < ·)) (h : ∀ a, a ∈ l₁ ↔ a ∈ l₂) : l₁ = l₂ := by
  have n₁ : l₁.Nodup := h₁.imp (fun {a b} hab => by omega)
  have n₂ : l₂.Nodup := h₂.imp (fun {a b} hab => by omega)
  have hp : l₁.Perm l₂ := (List.perm_ext_iff_of_nodup n₁ n₂).mpr h
  exact List.Perm.eq_of_pairwise (le := (· < ·)) (fun a b _ _ hab hba => by omega) h₁ h₂ hp

end ArchSim.Lemmas.C17Views
