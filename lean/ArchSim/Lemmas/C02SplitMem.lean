/-
C02 (data path), part 5: the families that can fault — loads, stores, ecall — over an ARBITRARY
memory system satisfying `LoadOK` at the load address / `WriteAlias` (stores: the split address is the
unwrapped sum, the memory takes it modulo 2^32), and the instances for the flat memory (C18's wrap
alias) and, for `WriteAlias`, for a cached memory.
`Agree n A B`: same fault; same state when there is none; otherwise the same state except that
single-cycle mode has already counted the instruction.
Core Lean only.
-/
import ArchSim.Lemmas.C02SplitAlu
set_option linter.unusedSimpArgs false

namespace ArchSim.Lemmas.C02Split
open ArchSim ArchSim.Rv ArchSim.Pipe

theorem load_facts (op : Op) (h : op.ty = .memI) : op ≠ .jalr ∧ op ≠ .ecall ∧ accessBits op ≤ 32 := by
  cases op <;> simp [Op.ty, accessBits] at h ⊢

/-- The Python int `memory_access` returns for a load of the raw value `v`. -/
def loadInt (op : Op) (v : Nat) : Int :=
  match op with
  | .lb => sextBits 8 v
  | .lh => sextBits 16 v
  | _ => (v : Int)

theorem wrapU_loadInt (op : Op) (v : Nat) (hty : op.ty = .memI) (hv : v < 4294967296) :
    wrapU (loadInt op v) = loadExt op v := by
  cases op <;> simp [Op.ty] at hty <;> simp only [loadInt, loadExt] <;> exact wrapU_natCast _ hv

/-- What a load needs from the memory system at its address `A`: a successful counted read returns a
    `UInt32`, and the uncounted re-read that single-cycle mode performs for the visualisation returns
    the same value and changes nothing (true of the flat memory, `loadOK_flat`; for a cached memory
    this is re-read neutrality, C09). -/
def LoadOK (ms : MemSys) (bits : Nat) (A : Int) : Prop :=
  ∀ v, (ms.read bits A true).res = .ok v →
    v < 4294967296 ∧
    (ms.read bits A true).mem.read bits A false =
      { mem := (ms.read bits A true).mem, res := .ok v, extra := 0 }

/-- What a store needs from the memory system: addresses are taken modulo 2^32. -/
def WriteAlias (ms : MemSys) : Prop :=
  ∀ (bits : Nat) (a k : Int) (v : Nat) (d : Bool),
    ms.write bits (a + k * 4294967296) v d = ms.write bits a v d

theorem memoryAccess_load_ok (i : Instr) (hty : i.op.ty = .memI) (a : Int) (w : Option Int) (ms : MemSys)
    (c : Bool) (v : Nat) (hr : (ms.read (accessBits i.op) a c).res = .ok v) :
    memoryAccess i (some a) w ms c =
      some { mem := (ms.read (accessBits i.op) a c).mem, extra := (ms.read (accessBits i.op) a c).extra,
             res := .ok (some (loadInt i.op v)) } := by
  unfold memoryAccess
  simp only [hty, hr]
  rfl

theorem memoryAccess_load_err (i : Instr) (hty : i.op.ty = .memI) (a : Int) (w : Option Int) (ms : MemSys)
    (c : Bool) (e : Cache.Err) (hr : (ms.read (accessBits i.op) a c).res = .error e) :
    memoryAccess i (some a) w ms c =
      some { mem := (ms.read (accessBits i.op) a c).mem, extra := (ms.read (accessBits i.op) a c).extra,
             res := .error e } := by
  unfold memoryAccess
  simp only [hty, hr]

theorem agree_load (i : Instr) (t : St) (a : Int) (hty : i.op.ty = .memI)
    (hregs : ∀ r, t.regs r < 4294967296)
    (hl : LoadOK t.mem (accessBits i.op) ((t.regs i.rs1 : Int) + i.imm))
    (h0 : 0 ≤ a) (h1 : a < 16384) :
    AgreeAt t.instrs t.pc a (completeIDEX (some (dAt i a t.regs)) t) (singleTail i (sAt t a)) := by
  obtain ⟨hj, he, hbits⟩ := load_facts i.op hty
  have hwa := wrapU_natCast _ (hregs i.rs1)
  have halu : aluCompute (dAt i a t.regs).instr (aluIn1 (dAt i a t.regs)) (aluIn2 (dAt i a t.regs)) =
      some (none, some ((t.regs i.rs1 : Int) + i.imm)) := by
    simp [dAt, aluCompute, aluIn1, aluIn2, ctlOf, accessRegs, hty, hwa]
  cases hr : (t.mem.read (accessBits i.op) ((t.regs i.rs1 : Int) + i.imm) true).res with
  | error e =>
    have hma := memoryAccess_load_err i hty ((t.regs i.rs1 : Int) + i.imm) (dAt i a t.regs).rr.d2 t.mem true e hr
    rw [completeIDEX_err (dAt i a t.regs) t none _ _ e he halu (by simpa [dAt] using hma) rfl]
    simp [singleTail, behavior, hty, sAt, hr, AgreeAt, memSt, dAt]
  | ok v =>
    have hma := memoryAccess_load_ok i hty ((t.regs i.rs1 : Int) + i.imm) (dAt i a t.regs).rr.d2 t.mem true v hr
    obtain ⟨hv, hre⟩ := hl v hr
    have hw := wrapU_loadInt i.op v hty hv
    have hma2 := memoryAccess_load_ok i hty ((t.regs i.rs1 : Int) + i.imm) none
      (t.mem.read (accessBits i.op) ((t.regs i.rs1 : Int) + i.imm) true).mem false v (by rw [hre])
    rw [hre] at hma2
    rw [completeIDEX_ok (dAt i a t.regs) t none _ _ _ he halu (by simpa [dAt] using hma) rfl]
    refine AgreeAt.seq ?_ ?_ ?_ ?_ <;>
      simp [singleTail, behavior, hty, sAt, hr, memSt, dAt, accessRegs, hwa, hma2,
        applyTarget, wbSt, wbRegs, wbData, memLatch, memCount, memFlush, exBase, ctlOf, writeReg, writeBack,
        St.setReg, hw]
    omega

theorem loadOK_flat (m : Mem.Mem) (bits : Nat) (hb : bits ≤ 32) (A : Int) : LoadOK (.flat m) bits A := by
  intro v hv
  rw [read_flat] at hv ⊢
  simp only at hv
  refine ⟨Nat.lt_of_lt_of_le (flatRead_lt m bits A v hv) (Nat.pow_le_pow_right (by decide) hb), ?_⟩
  rw [read_flat, hv]

theorem writeAlias_flat (m : Mem.Mem) (hov : m.cfg.overflow = true) (hab : m.cfg.addrBits = 32) :
    WriteAlias (.flat m) :=
  fun bits a k v d => write_flat_alias m hov hab bits a k v d

/-! ### Stores -/

theorem store_facts (op : Op) (h : op.ty = .s) : op ≠ .jalr ∧ op ≠ .ecall := by
  cases op <;> simp [Op.ty] at h ⊢

theorem store_val (n k : Nat) : (((n % 2 ^ k : Nat) : Int) % (2 : Int) ^ k).toNat = n % 2 ^ k := by
  have h : ((2 : Int) ^ k) = ((2 ^ k : Nat) : Int) := by simp
  have hlt : ((n % 2 ^ k : Nat) : Int) < ((2 ^ k : Nat) : Int) :=
    Int.ofNat_lt.mpr (Nat.mod_lt _ (Nat.two_pow_pos k))
  rw [h, Int.emod_eq_of_lt (Int.natCast_nonneg _) hlt, Int.toNat_natCast]

theorem memoryAccess_store_ok (i : Instr) (hty : i.op.ty = .s) (a w : Int) (ms : MemSys) (x : Nat)
    (hr : (ms.write (accessBits i.op) a ((w % (2 : Int) ^ accessBits i.op).toNat) false).res = .ok x) :
    memoryAccess i (some a) (some w) ms true =
      some { mem := (ms.write (accessBits i.op) a ((w % (2 : Int) ^ accessBits i.op).toNat) false).mem,
             extra := (ms.write (accessBits i.op) a ((w % (2 : Int) ^ accessBits i.op).toNat) false).extra,
             res := .ok none } := by
  unfold memoryAccess
  simp only [hty, Bool.not_true, hr]

theorem memoryAccess_store_err (i : Instr) (hty : i.op.ty = .s) (a w : Int) (ms : MemSys) (e : Cache.Err)
    (hr : (ms.write (accessBits i.op) a ((w % (2 : Int) ^ accessBits i.op).toNat) false).res = .error e) :
    memoryAccess i (some a) (some w) ms true =
      some { mem := (ms.write (accessBits i.op) a ((w % (2 : Int) ^ accessBits i.op).toNat) false).mem,
             extra := (ms.write (accessBits i.op) a ((w % (2 : Int) ^ accessBits i.op).toNat) false).extra,
             res := .error e } := by
  unfold memoryAccess
  simp only [hty, Bool.not_true, hr]

theorem agree_store (i : Instr) (t : St) (a : Int) (hty : i.op.ty = .s) (hwal : WriteAlias t.mem)
    (h0 : 0 ≤ a) (h1 : a < 16384) :
    AgreeAt t.instrs t.pc a (completeIDEX (some (dAt i a t.regs)) t) (singleTail i (sAt t a)) := by
  obtain ⟨hj, he⟩ := store_facts i.op hty
  obtain ⟨k, hk⟩ := store_alias (t.regs i.rs1) i.imm
  -- the address `behavior()` uses, in `simp`'s cast normal form
  have hY : (((t.regs i.rs1 + wrapU i.imm) % 4294967296 : Nat) : Int) =
      ((t.regs i.rs1 : Int) + (wrapU i.imm : Int)) % 4294967296 := by simp
  rw [hY] at hk
  have halu : aluCompute (dAt i a t.regs).instr (aluIn1 (dAt i a t.regs)) (aluIn2 (dAt i a t.regs)) =
      some (none, some ((t.regs i.rs1 : Int) + i.imm)) := by
    simp [dAt, aluCompute, aluIn1, aluIn2, ctlOf, accessRegs, hty]
  -- the store both sides perform
  have hw : t.mem.write (accessBits i.op) ((t.regs i.rs1 : Int) + i.imm)
        ((((t.regs i.rs2 % 2 ^ accessBits i.op : Nat) : Int) % (2 : Int) ^ accessBits i.op).toNat) false =
      t.mem.write (accessBits i.op) (((t.regs i.rs1 : Int) + (wrapU i.imm : Int)) % 4294967296)
        (t.regs i.rs2 % 2 ^ accessBits i.op) false := by
    rw [store_val, hk, hwal]
  have hd2 : (dAt i a t.regs).rr.d2 = some ((t.regs i.rs2 % 2 ^ accessBits i.op : Nat) : Int) := by
    simp [dAt, accessRegs, hty]
  cases hr : (t.mem.write (accessBits i.op) (((t.regs i.rs1 : Int) + (wrapU i.imm : Int)) % 4294967296)
        (t.regs i.rs2 % 2 ^ accessBits i.op) false).res with
  | error e =>
    have hma := memoryAccess_store_err i hty ((t.regs i.rs1 : Int) + i.imm)
      ((t.regs i.rs2 % 2 ^ accessBits i.op : Nat) : Int) t.mem e (by rw [hw]; exact hr)
    rw [hw] at hma
    rw [completeIDEX_err (dAt i a t.regs) t none _ _ e he halu (by rw [hd2]; simpa [dAt] using hma) rfl]
    rw [singleTail_nonLoad i _ (by simp [hty])]
    simp [behavior, hty, sAt, hr, AgreeAt, memSt, dAt]
  | ok x =>
    have hma := memoryAccess_store_ok i hty ((t.regs i.rs1 : Int) + i.imm)
      ((t.regs i.rs2 % 2 ^ accessBits i.op : Nat) : Int) t.mem x (by rw [hw]; exact hr)
    rw [hw] at hma
    rw [completeIDEX_ok (dAt i a t.regs) t none _ _ _ he halu (by rw [hd2]; simpa [dAt] using hma) rfl]
    rw [singleTail_nonLoad i _ (by simp [hty])]
    refine AgreeAt.seq ?_ ?_ ?_ ?_ <;>
      simp [behavior, hty, sAt, hr, memSt, dAt,
        applyTarget, wbSt, wbRegs, memLatch, memCount, memFlush, exBase, ctlOf, writeReg, writeBack]
    omega

/-! ### `WriteAlias` for a cached data memory over a wrapping lower memory -/

section
open ArchSim.Cache

theorem wrap32_alias (a k : Int) : wrap32 (a + k * 4294967296) = wrap32 a := by
  unfold wrap32; omega

theorem decode_alias (ib bb : Nat) (a k : Int) : decode ib bb (a + k * 4294967296) = decode ib bb a := by
  simp only [decode, wrap32_alias]

theorem mem_write_alias (m : Mem.Mem) (hov : m.cfg.overflow = true) (hab : m.cfg.addrBits = 32)
    (bits : Nat) (a k : Int) (v : Nat) :
    Mem.write m bits (a + k * 4294967296) v = Mem.write m bits a v := by
  have h := ArchSim.Lemmas.C18.writeNFrom_alias m hov a k (Mem.cellsOf m.cfg bits) 0 v
  rw [hab] at h
  have h32 : ((2 : Int) ^ 32) = 4294967296 := by decide
  rw [h32] at h
  simp only [Mem.write, Mem.writeN, h]

theorem writeWT_alias {σ : Type} (P : PolicyOps σ) (s : DSys σ) (hov : s.mem.cfg.overflow = true)
    (hab : s.mem.cfg.addrBits = 32) (bits : Nat) (a k : Int) (v : Nat) :
    s.writeWT P bits (a + k * 4294967296) v = s.writeWT P bits a v := by
  simp only [DSys.writeWT, decode_alias]
  cases readBlock P s.sets (decode s.geo.idxBits s.geo.blkBits a) with
  | error e => rfl
  | ok r =>
    obtain ⟨sets1, cached⟩ := r
    cases cached with
    | none =>
      simp only []
      cases laneErr bits (decode s.geo.idxBits s.geo.blkBits a) with
      | some e => rfl
      | none => simp only [mem_write_alias s.mem hov hab]
    | some block =>
      simp only []
      cases intoBlock bits (decode s.geo.idxBits s.geo.blkBits a) block v with
      | error e => rfl
      | ok block' =>
        simp only []
        cases writeBlock P sets1 (decode s.geo.idxBits s.geo.blkBits a) block' with
        | error e => rfl
        | ok r2 => simp only [mem_write_alias s.mem hov hab]

theorem writeAlias_cached (l : Bool) (ds : DSys Repl.Pol) (hov : ds.mem.cfg.overflow = true)
    (hab : ds.mem.cfg.addrBits = 32) : WriteAlias (.cached l ds) := by
  intro bits a k v d
  simp only [MemSys.write, DSys.write, DSys.writeDirect, DSys.writeWB, decode_alias,
    writeWT_alias _ ds hov hab, mem_write_alias ds.mem hov hab]
end

/-! ### ecall -/

theorem setReg_zero (regs : Nat → Nat) (v : Nat) : setReg regs 0 v = regs := by
  funext r; simp [setReg]

/-- ecall: EX runs `process_ecall` (nothing is in flight); output appended in EX; an exit code travels
    to WB, which sets `exit_code`, and the flush target is `pc + 4`; invalid codes and print-string
    memory errors raise in EX with the fault `behavior()` raises; WB writes `UInt32(0)` to register 0. -/
theorem agree_ecall (i : Instr) (t : St) (a : Int) (hop : i.op = .ecall) (hrd : i.rd = 0)
    (h0 : 0 ≤ a) (h1 : a < 16384) :
    AgreeAt t.instrs t.pc a (completeIDEX (some (dAt i a t.regs)) t) (singleTail i (sAt t a)) := by
  have hty : i.op.ty = .i := by rw [hop]; rfl
  have hp2 : processEcall { t with pc := a, instrs := t.instrs + 1 } = processEcall t :=
    processEcall_congr _ _ rfl rfl
  have hm1 : (dAt i a t.regs).instr.op.ty ≠ .memI := by simp [dAt, hty]
  have hm2 : (dAt i a t.regs).instr.op.ty ≠ .s := by simp [dAt, hty]
  rw [singleTail_nonLoad i _ (by simp [hty])]
  simp only [completeIDEX, exStage_ecall_run t (dAt i a t.regs) none none hop (ecallMustWait_none _), ecallRun]
  cases hp : processEcall t with
  | mk m r =>
    cases r with
    | out str =>
      simp only []
      rw [completeEXMEM_ok (exBase (dAt i a t.regs) none (some 0)) _ _ none
        (memoryAccess_other _ hm1 hm2 _ _ _ _) rfl]
      refine AgreeAt.seq ?_ ?_ ?_ ?_ <;>
        simp [behavior, hop, sAt, hp2, hp, Op.ty, memSt, dAt, hrd, setReg_zero,
          applyTarget, wbSt, wbRegs, wbData, memLatch, memCount, memFlush, exBase, ctlOf, writeReg, writeBack,
          wbLatch, firstFlush]
      omega
    | exit c =>
      simp only []
      rw [completeEXMEM_ok
        { exBase (dAt i a t.regs) none (some 0) with exitCode := some c, flush := some (dAt i a t.regs).pc4 }
        _ _ none (memoryAccess_other _ hm1 hm2 _ _ _ _) rfl]
      refine AgreeAt.jump ?_ ?_ ?_ <;>
        simp [behavior, hop, sAt, hp2, hp, Op.ty, memSt, dAt, hrd, setReg_zero,
          applyTarget, wbSt, wbRegs, wbData, memLatch, memCount, memFlush, exBase, ctlOf, writeReg, writeBack,
          wbLatch, firstFlush]
    | err e =>
      simp [behavior, hop, hp2, hp, Op.ty, AgreeAt, sAt, dAt]
    | invalid c =>
      simp [behavior, hop, hp2, hp, Op.ty, AgreeAt, sAt, dAt]

end ArchSim.Lemmas.C02Split
