/-
C01 helper lemmas, part 6: the ecall service table, and the assembled per-instruction refinement.
-/
import ArchSim.Lemmas.C01Str
namespace ArchSim.Lemmas.C01
open ArchSim ArchSim.Rv ArchSim.Spec.RvSpec ArchSim.Mem ArchSim.Cache

theorem a7_iff (s : St) (hs : StOK s) (k : Nat) (hk : k < 4294967296) :
    ((α s).get 17 = BitVec.ofNat 32 k) ↔ s.regs 17 = k := by
  rw [α_get s hs 17 (by omega)]
  exact W_inj _ _ (hs.regs_lt _) hk

theorem service_α (s : St) (hs : StOK s) :
    (processEcall s).1 = s.mem ∧ service (α s) = αSvc (processEcall s).2 ∧
      (∀ e, (processEcall s).2 = .err e → ∃ x, e = .addr x) := by
  obtain ⟨m, hm, hc, hw⟩ := hs.flat
  have h10 := hs.regs_lt 10
  have ha0 : (α s).get 10 = W (s.regs 10) := α_get s hs 10 (by omega)
  have hn0 : (W (s.regs 10)).toNat = s.regs 10 := toNat_W _ h10
  simp only [service, processEcall, BitVec.ofNat_eq_ofNat, a7_iff s hs _ (by decide : (1:Nat) < 4294967296),
    a7_iff s hs _ (by decide : (2:Nat) < 4294967296), a7_iff s hs _ (by decide : (4:Nat) < 4294967296),
    a7_iff s hs _ (by decide : (11:Nat) < 4294967296), a7_iff s hs _ (by decide : (34:Nat) < 4294967296),
    a7_iff s hs _ (by decide : (35:Nat) < 4294967296), a7_iff s hs _ (by decide : (36:Nat) < 4294967296),
    a7_iff s hs _ (by decide : (10:Nat) < 4294967296), a7_iff s hs _ (by decide : (93:Nat) < 4294967296),
    ha0, hn0, toInt_W]
  split
  · exact ⟨rfl, by simp only [αSvc, intToDec_eq], fun e h => by cases h⟩
  split
  · exact ⟨rfl, rfl, fun e h => by cases h⟩
  split
  · obtain ⟨p1, p2, p3⟩ := printStr_flat s m hm hc h10
    rw [← p2]
    cases hps : printStrLoop printStrFuel s.mem (s.regs 10 : Int) [] with
    | mk m' r =>
      rw [hps] at p1 p3
      simp only at p1 p3
      cases r with
      | ok cs => exact ⟨p1, rfl, fun e h => by cases h⟩
      | error e =>
        obtain ⟨x, rfl⟩ := p3 e rfl
        exact ⟨p1, rfl, fun e h => by cases h; exact ⟨_, rfl⟩⟩
  split
  · exact ⟨rfl, by simp only [αSvc, String.singleton_eq_ofList], fun e h => by cases h⟩
  split
  · exact ⟨rfl, by simp only [αSvc, natToBase16], fun e h => by cases h⟩
  split
  · exact ⟨rfl, by simp only [αSvc, natToBase2], fun e h => by cases h⟩
  split
  · exact ⟨rfl, by simp only [αSvc, natToBase10], fun e h => by cases h⟩
  split
  · exact ⟨rfl, rfl, fun e h => by cases h⟩
  split
  · exact ⟨rfl, rfl, fun e h => by cases h⟩
  · refine ⟨rfl, ?_, fun e h => by cases h⟩
    simp only [αSvc, α_get s hs 17 (by omega)]


theorem exec_ecall (i : Instr) (s : St) (_hi : InstrWF i) (hs : StOK s) (hop : i.op = .ecall) :
    αBeh (execOne i s) = some (exec i (α s)) := by
  obtain ⟨h1, h2, h3⟩ := service_α s hs
  simp only [exec, hop, h2]
  have hb : behavior i s = match processEcall s with
      | (m, .out str) => { st := { s with mem := m, output := s.output ++ str }, fault := none }
      | (m, .exit c) => { st := { s with mem := m, exitCode := some c }, fault := none }
      | (m, .err e) => { st := { s with mem := m }, fault := some (.mem e) }
      | (m, .invalid c) => { st := { s with mem := m }, fault := some (.ecallCode c) } := by
    simp only [behavior, hop, Op.ty]
    rfl
  cases hp : processEcall s with
  | mk m r =>
    rw [hp] at h1 h3 hb
    simp only at h1 h3
    subst h1
    cases r with
    | out t =>
      simp only [execOne, hb, αBeh, αOut, αSvc, α, pc_next]
    | exit c =>
      simp only [execOne, hb, αBeh, αOut, αSvc, α, pc_next]
    | err e =>
      obtain ⟨x, rfl⟩ := h3 e rfl
      simp only [execOne, hb, αBeh, αOut, αSvc, αFault, Option.map]
    | invalid c =>
      simp only [execOne, hb, αBeh, αOut, αSvc, αFault, Option.map]


/-- Per-instruction refinement, all supported mnemonics. -/
theorem exec_refines_all (i : Instr) (s : St) (hi : InstrWF i) (hsup : Supported i.op) (hs : StOK s) :
    αBeh (execOne i s) = some (exec i (α s)) := by
  cases hop : i.op with
  | add => exact exec_add i s hi hs hop
  | sub => exact exec_sub i s hi hs hop
  | sll => exact exec_sll i s hi hs hop
  | slt => exact exec_slt i s hi hs hop
  | sltu => exact exec_sltu i s hi hs hop
  | xor => exact exec_xor i s hi hs hop
  | srl => exact exec_srl i s hi hs hop
  | sra => exact exec_sra i s hi hs hop
  | or => exact exec_or i s hi hs hop
  | and => exact exec_and i s hi hs hop
  | addi => exact exec_addi i s hi hs hop
  | slti => exact exec_slti i s hi hs hop
  | sltiu => exact exec_sltiu i s hi hs hop
  | xori => exact exec_xori i s hi hs hop
  | ori => exact exec_ori i s hi hs hop
  | andi => exact exec_andi i s hi hs hop
  | slli => exact exec_slli i s hi hs hop
  | srli => exact exec_srli i s hi hs hop
  | srai => exact exec_srai i s hi hs hop
  | lb => exact exec_lb i s hi hs hop
  | lh => exact exec_lh i s hi hs hop
  | lw => exact exec_lw i s hi hs hop
  | lbu => exact exec_lbu i s hi hs hop
  | lhu => exact exec_lhu i s hi hs hop
  | jalr => exact exec_jalr i s hi hs hop
  | ecall => exact exec_ecall i s hi hs hop
  | sb => exact exec_sb i s hi hs hop
  | sh => exact exec_sh i s hi hs hop
  | sw => exact exec_sw i s hi hs hop
  | beq => exact exec_beq i s hi hs hop
  | bne => exact exec_bne i s hi hs hop
  | blt => exact exec_blt i s hi hs hop
  | bge => exact exec_bge i s hi hs hop
  | bltu => exact exec_bltu i s hi hs hop
  | bgeu => exact exec_bgeu i s hi hs hop
  | lui => exact exec_lui i s hi hs hop
  | auipc => exact exec_auipc i s hi hs hop
  | jal => exact exec_jal i s hi hs hop
  | mul => exact exec_mul i s hi hs hop
  | mulh => exact exec_mulh i s hi hs hop
  | mulhu => exact exec_mulhu i s hi hs hop
  | mulhsu => exact exec_mulhsu i s hi hs hop
  | div => exact exec_div i s hi hs hop
  | divu => exact exec_divu i s hi hs hop
  | rem => exact exec_rem i s hi hs hop
  | remu => exact exec_remu i s hi hs hop
  | ebreak => rw [hop] at hsup; exact absurd hsup (by decide)
  | fence => rw [hop] at hsup; exact absurd hsup (by decide)
  | csrrw => rw [hop] at hsup; exact absurd hsup (by decide)
  | csrrs => rw [hop] at hsup; exact absurd hsup (by decide)
  | csrrc => rw [hop] at hsup; exact absurd hsup (by decide)
  | csrrwi => rw [hop] at hsup; exact absurd hsup (by decide)
  | csrrsi => rw [hop] at hsup; exact absurd hsup (by decide)
  | csrrci => rw [hop] at hsup; exact absurd hsup (by decide)

end ArchSim.Lemmas.C01
