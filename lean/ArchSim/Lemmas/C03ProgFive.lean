/-
C03 (program level), part 7: five-stage mode, the composition.  Along the single-cycle runs from
related states the two implementations of every instruction agree on both sides (flat: `memOK_flat`;
cached: `memOK_cached`), so both sequential machines are the single-cycle machines up to the first done
state, which is reached after the same number of steps.
-/
import ArchSim.Lemmas.C03ProgPipe

namespace ArchSim.Lemmas.C03Prog
open ArchSim ArchSim.Cache ArchSim.Mem ArchSim.Rv ArchSim.Pipe ArchSim.Spec.CacheAbs ArchSim.Spec.TagCache
open ArchSim.Lemmas.C02Split

/-- The flat single-cycle run keeps C01's state invariant and the instruction memory. -/
theorem flat_run_inv (prog : List Instr) (hp : ArchSim.Lemmas.C01.ProgOK prog) (sf : St)
    (him : sf.imem = { prog := prog, cache := none }) (hs : ArchSim.Lemmas.C01.StOK sf) :
    ∀ j, ArchSim.Lemmas.C01.StOK (singleRun j sf) ∧
      (singleRun j sf).imem = { prog := prog, cache := none }
  | 0 => ⟨hs, him⟩
  | j + 1 => by
    obtain ⟨a, b⟩ := flat_run_inv prog hp sf him hs j
    refine ⟨ArchSim.Lemmas.C01.StOK_step prog hp _ b a, ?_⟩
    show (singleStep (singleRun j sf)).st.imem = _
    rw [(ArchSim.Lemmas.C01.step_preserves prog hp _ b a).1]
    exact b

/-- Flat side: the two implementations agree on every not-done state of the run. -/
theorem agree_flat (prog : List Instr) (hp : ProgWF prog) (sf : St)
    (him : sf.imem = { prog := prog, cache := none }) (hs : ArchSim.Lemmas.C01.StOK sf) (j : Nat)
    (hnd : singleDone (singleRun j sf) = false) : AgreeStep (singleRun j sf) := by
  obtain ⟨a, b⟩ := flat_run_inv prog hp.c01 sf him hs j
  obtain ⟨m, hm, hc, _⟩ := a.flat
  exact agreeStep_of _ prog hp b a.regs_lt hnd
    (fun i _ => memOK_flat i _ m hm (by rw [hc]; rfl) (by rw [hc]; rfl))

/-- Cached side: the same, from the relation with the flat run and the acceptance of its step. -/
theorem agree_cached (prog : List Instr) (hp : ProgWF prog) (sc sf : St)
    (him : sf.imem = { prog := prog, cache := none }) (hs : ArchSim.Lemmas.C01.StOK sf) (j : Nat)
    (hr : CacheRel (singleRun j sc) (singleRun j sf)) (hacc : StepAccepted (singleRun j sf))
    (hnd : singleDone (singleRun j sc) = false) : AgreeStep (singleRun j sc) := by
  obtain ⟨a, b⟩ := flat_run_inv prog hp.c01 sf him hs j
  have himc : (singleRun j sc).imem = { prog := prog, cache := none } := by rw [hr.imem]; exact b
  refine agreeStep_of _ prog hp himc (fun r => by rw [hr.regs]; exact a.regs_lt r) hnd (fun i hi => ?_)
  obtain ⟨l, ds, m, hmc, _, hrep⟩ := hr.mem
  refine memOK_cached hrep i _ hmc (fun hty => ?_)
  have hif : fetched (singleRun j sf) = some i := by
    rw [fetched_uncached _ (by rw [b]) (by rw [b]; exact hp.len), ← hr.imem, ← hr.pc]; exact hi
  have := (hacc i hif).1 hty
  rw [hr.regs]; exact this

/-- The address traces of the two sequential machines coincide while both coincide with the related
    single-cycle runs and do not raise. -/
theorem seqTrace_eq (sc sf : St) (k : Nat)
    (hc : ∀ j, j ≤ k → seqRun j sc = singleRun j sc) (hf : ∀ j, j ≤ k → seqRun j sf = singleRun j sf)
    (hr : ∀ j, j ≤ k → CacheRel (singleRun j sc) (singleRun j sf))
    (fc : ∀ j, j < k → seqFault (seqRun j sc) = none) (ff : ∀ j, j < k → seqFault (seqRun j sf) = none) :
    ∀ j, j ≤ k → seqTrace j sc = seqTrace j sf
  | 0, _ => rfl
  | j + 1, hj => by
    show seqTrace j sc ++ seqLog (seqRun j sc) = seqTrace j sf ++ seqLog (seqRun j sf)
    rw [seqTrace_eq sc sf k hc hf hr fc ff j (by omega)]
    congr 1
    unfold seqLog
    rw [fc j (by omega), ff j (by omega), hc j (by omega), hf j (by omega), (hr j (by omega)).imem,
      (hr j (by omega)).pc]

/-- Acceptance along the flat single-cycle run, up to where the simulation loop stops: every state
    before (and including) which the run was never done takes an accepted step. -/
def RunAccepted (sf : St) : Prop :=
  ∀ j, (∀ j', j' ≤ j → singleDone (singleRun j' sf) = false) → StepAccepted (singleRun j sf)

/-- FIVE-STAGE COMPOSITION.  Both pipelines run to completion without a fault; then both final physical
    states are (`SimP`) the states of the single-cycle runs after the same number `k` of steps, and
    these are related; the retired-address sequences coincide. -/
theorem five_stage_rel {sc sf : St} (h : CacheRel sc sf) (prog : List Instr) (hp : ProgWF prog)
    (him : sf.imem = { prog := prog, cache := none }) (hs : ArchSim.Lemmas.C01.StOK sf)
    (hx : sf.exitCode = none) (hacc : RunAccepted sf)
    (nc : Nat) (hrc : runOK nc (PSt.init sc true)) (hdc : isDone (pipeRun nc (PSt.init sc true)) = true)
    (hpc : ∀ m, m < nc → isDone (pipeRun m (PSt.init sc true)) = false)
    (nf : Nat) (hrf : runOK nf (PSt.init sf true)) (hdf : isDone (pipeRun nf (PSt.init sf true)) = true)
    (hpf : ∀ m, m < nf → isDone (pipeRun m (PSt.init sf true)) = false) :
    ∃ k, k ≤ nc ∧ k ≤ nf ∧
      SimP (pipeRun nc (PSt.init sc true)).st (singleRun k sc) ∧
      SimP (pipeRun nf (PSt.init sf true)).st (singleRun k sf) ∧
      CacheRel (singleRun k sc) (singleRun k sf) ∧
      singleDone (singleRun k sf) = true ∧
      (∀ j, j < k → singleDone (singleRun j sf) = false) ∧
      retireLog nc (PSt.init sc true) = retireLog nf (PSt.init sf true) := by
  have hicf : sf.imem.cache = none := by rw [him]
  have hlf : sf.imem.prog.length ≤ 4096 := by rw [him]; exact hp.len
  have cohf : ICoh sf.imem := ICoh_nocache sf.imem hicf hlf
  have pokf : Pipe.ProgOK sf.imem := hp.c02 sf.imem (by rw [him])
  obtain ⟨kf, hkf, sf1, sf2, sf3, sf4, _⟩ :=
    ArchSim.Props.C02.final_state sf pokf cohf hx nf hrf hdf hpf
  obtain ⟨kc, hkc, sc1, sc2, sc3, sc4, _⟩ :=
    ArchSim.Props.C02.final_state sc (by rw [h.imem]; exact pokf) (by rw [h.imem]; exact cohf)
      (by rw [h.exitCode]; exact hx) nc hrc hdc hpc
  have ef := seqRun_eq_singleRun sf kf kf sf3 sf2 (fun j _ _ hnd => agree_flat prog hp sf him hs j hnd)
  have hndf : ∀ j, j < kf → singleDone (singleRun j sf) = false :=
    fun j hj => by rw [← (ef j (by omega) (by omega)).1]; exact sf3 j hj
  have hacc' : ∀ j, j < kf → StepAccepted (singleRun j sf) :=
    fun j hj => hacc j (fun j' hj' => hndf j' (by omega))
  have hrel : ∀ j, j ≤ kf → CacheRel (singleRun j sc) (singleRun j sf) :=
    fun j hj => (singleRun_rel h j (fun j' hj' => hacc' j' (by omega))).1
  have ec := seqRun_eq_singleRun sc kc kf sc3 sc2
    (fun j _ hjf hnd => agree_cached prog hp sc sf him hs j (hrel j (by omega)) (hacc' j hjf) hnd)
  have hk : kc = kf := by
    rcases Nat.lt_trichotomy kc kf with hlt | heq | hgt
    · exfalso
      have h1 := sc2
      rw [(ec kc (Nat.le_refl _) (by omega)).1, (hrel kc (by omega)).singleDone,
        ← (ef kc (by omega) (by omega)).1, sf3 kc hlt] at h1
      cases h1
    · exact heq
    · exfalso
      have h1 := sf2
      rw [(ef kf (Nat.le_refl _) (Nat.le_refl _)).1, ← (hrel kf (Nat.le_refl _)).singleDone,
        ← (ec kf (by omega) (Nat.le_refl _)).1, sc3 kf hgt] at h1
      cases h1
  subst hk
  refine ⟨kc, hkc, hkf, ?_, ?_, hrel kc (Nat.le_refl _), ?_, hndf, ?_⟩
  · rw [← (ec kc (Nat.le_refl _) (Nat.le_refl _)).1]; exact sc1
  · rw [← (ef kc (Nat.le_refl _) (Nat.le_refl _)).1]; exact sf1
  · rw [← (ef kc (Nat.le_refl _) (Nat.le_refl _)).1]; exact sf2
  · rw [sc4, sf4]
    exact seqTrace_eq sc sf kc (fun j hj => (ec j hj hj).1) (fun j hj => (ef j hj hj).1) hrel
      (fun j hj => ((ec (j + 1) (by omega) (by omega)).2 j (by omega)).2)
      (fun j hj => ((ef (j + 1) (by omega) (by omega)).2 j (by omega)).2) kc (Nat.le_refl _)

end ArchSim.Lemmas.C03Prog
