/-
C05 helper lemmas, part 6: the data pass from its initial state, and the read-level consequences of the
layout (what the memory accessors return for elements, strings, reserved words and padding).
-/
import ArchSim.Lemmas.C05Data

namespace ArchSim.Lemmas.C05
open ArchSim ArchSim.Asm ArchSim.Rv ArchSim.Mem ArchSim.Lemmas.C18
open ArchSim.Spec.ByteStore (cellVal cellOk leSum)

/-- the state `load` starts the data pass in, on an empty flat memory -/
def dataInit : DataOut := { mem := .flat (Mem.empty riscvCfg), vars := [], ctr := 16384, err := none }

/-- the hypotheses on a data segment: every entry is a declaration without in-line label (`.zero` counts
    non-negative), names pairwise distinct, and the segment fits below 2^32 -/
structure DataOk (es : List Entry) : Prop where
  wf : ∀ e ∈ es, entryOk e = true
  names : ((itemsOf es).map declName).Nodup
  fit : layoutEnd (itemsOf es) 16384 ≤ 4294967296

theorem DataOk.decls {es : List Entry} (h : DataOk es) : ∀ it ∈ itemsOf es, isDecl it = true := by
  intro it hit
  simp only [itemsOf, List.mem_map] at hit
  obtain ⟨e, he, rfl⟩ := hit
  have := h.wf e he
  simp only [entryOk, Bool.and_eq_true] at this; exact this.2

/-- the data pass succeeds on a well-formed segment and realises the specified layout -/
theorem data_final (es : List Entry) (h : DataOk es) :
    ∃ m', writeData es dataInit =
        { mem := .flat m', vars := layoutVars (itemsOf es) 16384, ctr := layoutEnd (itemsOf es) 16384, err := none } ∧
      m'.cfg = riscvCfg ∧ (∀ x, layoutEnd (itemsOf es) 16384 ≤ x → m'.cells x = 0) ∧
      (∀ x, x < 16384 → m'.cells x = 0) ∧ LaidOut m' (itemsOf es) 16384 := by
  obtain ⟨m', hw, hc, hfr, hz, hl⟩ := writeData_layout es dataInit (Mem.empty riscvCfg) rfl rfl rfl (by decide)
    h.wf h.names (fun _ _ => rfl) h.fit (fun _ _ => rfl)
  refine ⟨m', ?_, hc, hz, ?_, hl⟩
  · rw [hw]; simp [dataInit]
  · intro x hx
    have : align4 dataInit.ctr = 16384 := by decide
    rw [hfr x (by rw [this]; exact hx)]; rfl

/-- every declaration lies between the start counter and the end counter -/
theorem addrOf_bounds (items : List Item) (ctr : Int) (hd : ∀ it ∈ items, isDecl it = true) (k : Nat)
    (hk : k < items.length) :
    ctr ≤ addrOf items ctr k ∧ align4 (addrOf items ctr k + declLen items[k]) ≤ align4 (layoutEnd items ctr) := by
  induction items generalizing ctr k with
  | nil => simp at hk
  | cons it rest ih =>
    have hdr : ∀ x ∈ rest, isDecl x = true := fun x hx => hd x (List.mem_cons_of_mem _ hx)
    have hnn := declLen_nonneg it (hd it (List.mem_cons_self ..))
    have hal := align4_spec ctr
    cases k with
    | zero =>
      simp only [addrOf, List.getElem_cons_zero, layoutEnd]
      refine ⟨hal.1, ?_⟩
      cases rest with
      | nil => exact Int.le_refl _
      | cons it2 rest2 =>
        have h2 := layoutEnd_ge rest2 (align4 (align4 ctr + declLen it) + declLen it2)
          (fun x hx => hdr x (List.mem_cons_of_mem _ hx))
        have hnn2 := declLen_nonneg it2 (hdr it2 (List.mem_cons_self ..))
        simp only [layoutEnd]
        have := align4_spec (layoutEnd rest2 (align4 (align4 ctr + declLen it) + declLen it2))
        omega
    | succ k' =>
      simp only [List.length_cons] at hk
      simp only [addrOf, List.getElem_cons_succ, layoutEnd]
      have := ih (align4 ctr + declLen it) hdr k' (by omega)
      exact ⟨by omega, this.2⟩

theorem addrOf_end (items : List Item) (ctr : Int) (hd : ∀ it ∈ items, isDecl it = true) (k : Nat)
    (hk : k < items.length) :
    addrOf items ctr k + declLen items[k] ≤ layoutEnd items ctr := by
  induction items generalizing ctr k with
  | nil => simp at hk
  | cons it rest ih =>
    have hdr : ∀ x ∈ rest, isDecl x = true := fun x hx => hd x (List.mem_cons_of_mem _ hx)
    cases k with
    | zero =>
      simp only [addrOf, List.getElem_cons_zero, layoutEnd]
      exact layoutEnd_ge rest _ hdr
    | succ k' =>
      simp only [List.length_cons] at hk
      simp only [addrOf, List.getElem_cons_succ, layoutEnd]
      exact ih _ hdr k' (by omega)

theorem toNat_emod_pow_lt (x : Int) (bits : Nat) : (x % (2 : Int) ^ bits).toNat < 2 ^ bits := by
  have hpos : (0 : Int) < (2 : Int) ^ bits := Int.pow_pos (by decide)
  have h1 := Int.emod_lt_of_pos x hpos
  have h0 := Int.emod_nonneg x (Int.ne_of_gt hpos)
  have : ((x % (2 : Int) ^ bits).toNat : Int) < ((2 ^ bits : Nat) : Int) := by
    rw [Int.toNat_of_nonneg h0]; simpa using h1
  exact_mod_cast this

/-- element `i` of a `.byte/.half/.word` declaration at `a` reads back, with the accessor of the element
    width, as the value reduced modulo the width -/
theorem DeclAt_read_elem (m : Mem) (hc : m.cfg = riscvCfg) (n ty : String) (vals : List Int) (a : Int)
    (hlo : 16384 ≤ a) (hhi : a + declLen (.varDecl n ty vals) ≤ 4294967296)
    (h : DeclAt m (.varDecl n ty vals) a) (i : Nat) (hi : i < vals.length) :
    Mem.read m (tyBits ty) (a + (i : Int) * ((tyBits ty / 8 : Nat) : Int)) =
      some (.ok ((vals[i] % (2 : Int) ^ tyBits ty).toNat)) := by
  simp only [declLen] at hhi
  have hb := tyBits_cases ty
  have hsz : 0 < tyBits ty / 8 := by omega
  have hlt := mul_add_lt_int i vals.length (tyBits ty / 8) 0 hi hsz
  have hge : 0 ≤ (i : Int) * ((tyBits ty / 8 : Nat) : Int) := Int.mul_nonneg (by omega) (by omega)
  have hle : ((i + 1 : Nat) : Int) * ((tyBits ty / 8 : Nat) : Int) ≤ (vals.length : Int) * ((tyBits ty / 8 : Nat) : Int) :=
    Int.mul_le_mul_of_nonneg_right (by omega) (by omega)
  rw [Int.natCast_succ, Int.add_mul, Int.one_mul] at hle
  rw [read_of_cells m hc (tyBits ty) hb _ (by omega) (by omega) _ (fun j hj => h.1 i hi j hj)]
  rw [Nat.mod_eq_of_lt (toNat_emod_pow_lt _ _)]

/-- … and byte `j` of element `i` is the `j`-th little-endian byte of that value -/
theorem DeclAt_read_elem_byte (m : Mem) (hc : m.cfg = riscvCfg) (n ty : String) (vals : List Int) (a : Int)
    (hlo : 16384 ≤ a) (hhi : a + declLen (.varDecl n ty vals) ≤ 4294967296)
    (h : DeclAt m (.varDecl n ty vals) a) (i : Nat) (hi : i < vals.length) (j : Nat) (hj : j < tyBits ty / 8) :
    Mem.read m 8 (a + (i : Int) * ((tyBits ty / 8 : Nat) : Int) + (j : Int)) =
      some (.ok ((vals[i] % (2 : Int) ^ tyBits ty).toNat / 2 ^ (8 * j) % 256)) := by
  simp only [declLen] at hhi
  have hlt := mul_add_lt_int i vals.length (tyBits ty / 8) j hi hj
  have hge : 0 ≤ (i : Int) * ((tyBits ty / 8 : Nat) : Int) := Int.mul_nonneg (by omega) (by omega)
  have hcell := h.1 i hi j hj
  have hcv : cellVal riscvCfg ((vals[i] % (2 : Int) ^ tyBits ty).toNat) j =
      (vals[i] % (2 : Int) ^ tyBits ty).toNat / 2 ^ (8 * j) % 256 := by
    simp only [cellVal, riscvCfg, Nat.mul_comm j 8]
  rw [flat_read_byte_cell m hc _ (by omega) (by omega) (by rw [hcell, hcv]; exact Nat.mod_lt _ (by decide))]
  rw [hcell, hcv]

/-- character `i` of a string at `a` reads back as its code point modulo 256, and the byte after the last
    character is the terminating zero -/
theorem DeclAt_read_string (m : Mem) (hc : m.cfg = riscvCfg) (n : String) (body : List Char) (a : Int)
    (hlo : 16384 ≤ a) (hhi : a + declLen (.strDecl n body) ≤ 4294967296)
    (h : DeclAt m (.strDecl n body) a) :
    (∀ (i : Nat) (hi : i < body.length), Mem.read m 8 (a + (i : Int)) = some (.ok (body[i].toNat % 256))) ∧
      Mem.read m 8 (a + (body.length : Int)) = some (.ok 0) := by
  simp only [declLen] at hhi
  refine ⟨fun i hi => ?_, ?_⟩
  · have hcell := h.1.1 i hi
    rw [flat_read_byte_cell m hc _ (by omega) (by omega) (by rw [hcell]; exact Nat.mod_lt _ (by decide)), hcell]
  · have hcell := h.1.2
    rw [flat_read_byte_cell m hc _ (by omega) (by omega) (by rw [hcell]; decide), hcell]

/-- a run of zero cells reads 0 with every accessor -/
theorem read_zero_cells (m : Mem) (hc : m.cfg = riscvCfg) (bits : Nat) (hb : bits = 8 ∨ bits = 16 ∨ bits = 32)
    (x : Int) (hlo : 16384 ≤ x) (hhi : x + ((bits / 8 : Nat) : Int) ≤ 4294967296)
    (hz : ∀ j : Nat, j < bits / 8 → m.cells (x + (j : Int)) = 0) :
    Mem.read m bits x = some (.ok 0) := by
  rw [read_of_cells m hc bits hb x hlo hhi 0 (fun j hj => by rw [hz j hj]; simp [cellVal])]
  simp

/-! ### concrete data segments for the non-vacuity examples -/

/-- ```
    a: .byte 1, -1, 256
    h: .half 0x1234, 70000
    s: .string "hi!"
    z: .zero 2
    w: .word -2, 0x11223344
    ``` -/
def exData : List Entry :=
  [ (2, "a: .byte 1, -1, 256", { lbl := none, item := .varDecl "a" "byte" [1, -1, 256] }),
    (3, "h: .half 0x1234, 70000", { lbl := none, item := .varDecl "h" "half" [0x1234, 70000] }),
    (4, "s: .string \"hi!\"", { lbl := none, item := .strDecl "s" ['h', 'i', '!'] }),
    (5, "z: .zero 2", { lbl := none, item := .zeroDecl "z" 2 }),
    (6, "w: .word -2, 0x11223344", { lbl := none, item := .varDecl "w" "word" [-2, 0x11223344] }) ]

theorem exData_ok : DataOk exData := ⟨by decide, by decide, by decide⟩

/-- a data segment larger than the address space: `z: .zero 1073741824` then `x: .word 7` -/
def exWrap : List Entry :=
  [ (2, "z: .zero 1073741824", { lbl := none, item := .zeroDecl "z" 1073741824 }),
    (3, "x: .word 7", { lbl := none, item := .varDecl "x" "word" [7] }) ]

end ArchSim.Lemmas.C05
