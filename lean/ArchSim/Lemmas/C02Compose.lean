/-
C02, composition of the two halves: the sequential reference `seqStep` (control half) is the
single-cycle step `Rv.singleStep` (data-path half, `split_agrees`) on every state the single-cycle
simulator reaches from a well-formed program on the flat RISC-V data memory.
-/
import ArchSim.Lemmas.C02Conv
import ArchSim.Props.C02Split
import ArchSim.Props.C01

namespace ArchSim.Pipe
open ArchSim ArchSim.Rv

/-- The program fits the instruction memory and consists of well-formed supported instructions
    (`Instr.WF`, the hypothesis of `split_agrees`; what `constructed_wf` shows for every instruction the
    Python constructors build). -/
structure ProgWF (prog : List Instr) : Prop where
  len : prog.length ≤ 4096
  wf : ∀ i, i ∈ prog → i.WF

/-- States of a single-cycle run: uncached instruction memory holding `prog`, and C01's `StOK` (flat
    RISC-V data memory with byte cells, 32-bit registers, `x0 = 0`, 32-bit pc). -/
def SOK (prog : List Instr) (s : St) : Prop :=
  s.imem = { prog := prog, cache := none } ∧ ArchSim.Lemmas.C01.StOK s

theorem ProgWF.toC01 {prog : List Instr} (h : ProgWF prog) : ArchSim.Lemmas.C01.ProgOK prog := by
  refine ⟨h.len, fun i hi => ?_⟩
  obtain ⟨hs, h1, h2, h3, h4, _⟩ := h.wf i hi
  refine ⟨⟨h1, h2, h3, ?_⟩, ?_⟩
  · unfold ArchSim.Lemmas.C01.ImmOK; unfold immRange at h4; exact h4
  · unfold ArchSim.Lemmas.C01.Supported
    unfold Op.supported at hs
    cases hop : i.op <;> simp_all [Op.ty]

theorem InstrOK_of_WF (i : Instr) (h : i.WF) : InstrOK i := by
  obtain ⟨_, _, _, _, h4, h5⟩ := h
  refine ⟨fun ho => (h5 ho).1, fun ho => ?_⟩
  unfold immRange at h4
  rw [ho] at h4
  exact h4.1

theorem ProgWF.toPipe {prog : List Instr} (h : ProgWF prog) (c : Option ICache) :
    ProgOK { prog := prog, cache := c } :=
  ProgOK_of_all _ (fun i hi => InstrOK_of_WF i (h.wf i hi))

end ArchSim.Pipe

namespace ArchSim.Pipe
open ArchSim ArchSim.Rv

theorem instrAt_mem {im : IMem} {pc : Int} {i : Instr} (h : im.instrAt pc = some i) :
    i ∈ im.prog ∧ 0 ≤ pc ∧ (pc / 4).toNat < im.prog.length := by
  unfold IMem.instrAt at h
  split at h
  · rename_i hpc
    exact ⟨List.mem_of_getElem? h, hpc.1, (List.getElem?_eq_some_iff.1 h).1⟩
  · cases h

/-- ONE STEP: on a state of a single-cycle run, the sequential reference machine of the control
    half raises the same fault as `singleStep`, and without a fault it produces the very same state. -/
theorem seq_eq_single (prog : List Instr) (hP : ProgWF prog) (s : St) (hS : SOK prog s) :
    seqFault s = (singleStep s).fault ∧ ((singleStep s).fault = none → seqStep s = (singleStep s).st) := by
  obtain ⟨him, hok⟩ := hS
  cases hi : s.imem.instrAt s.pc with
  | none =>
    unfold seqFault seqStep
    rw [splitStep_noinstr s hi, ArchSim.Lemmas.C01.singleStep_none s hi]
    exact ⟨rfl, fun _ => rfl⟩
  | some i =>
    obtain ⟨hmem, hpc0, hidx⟩ := instrAt_mem hi
    rw [him] at hmem hidx
    obtain ⟨m, hm, hcfg, _⟩ := hok.flat
    have hpc1 : s.pc < 16384 := by have := hP.len; simp only [] at hidx; omega
    have h := ArchSim.Props.C02Split.split_agrees s i m (hP.wf i hmem) (by rw [him]) hi hpc0 hpc1
      hok.regs_lt hm (by rw [hcfg]; rfl) (by rw [hcfg]; rfl)
    unfold seqFault seqStep
    refine ⟨h.1, fun hf => ?_⟩
    rw [h.1, hf]
    exact h.2.1 hf

/-- `k` single-cycle steps (`Pipeline.step()` in single-stage mode, iterated). -/
def singleRun : Nat → St → St
  | 0, s => s
  | n + 1, s => (singleStep (singleRun n s)).st

theorem SOK_step (prog : List Instr) (hP : ProgWF prog) (s : St) (hS : SOK prog s) :
    SOK prog (singleStep s).st := by
  obtain ⟨h1, h2, _⟩ := ArchSim.Props.C01.invariant_preserved prog hP.toC01 s hS.1 hS.2
  exact ⟨h1.trans hS.1, h2⟩

/-- As long as no step faults, the sequential reference run IS the single-cycle run. -/
theorem seqRun_eq_singleRun (prog : List Instr) (hP : ProgWF prog) (s : St) (hS : SOK prog s) :
    ∀ k, (∀ j, j < k → seqFault (seqRun j s) = none) →
      seqRun k s = singleRun k s ∧ SOK prog (singleRun k s)
  | 0, _ => ⟨rfl, hS⟩
  | k + 1, h => by
    obtain ⟨e, hok⟩ := seqRun_eq_singleRun prog hP s hS k (fun j hj => h j (Nat.lt_succ_of_lt hj))
    obtain ⟨f1, f2⟩ := seq_eq_single prog hP (singleRun k s) hok
    have hf : (singleStep (singleRun k s)).fault = none := by
      rw [← f1, ← e]; exact h k (Nat.lt_succ_self k)
    refine ⟨?_, SOK_step prog hP _ hok⟩
    show seqStep (seqRun k s) = (singleStep (singleRun k s)).st
    rw [e]; exact f2 hf

end ArchSim.Pipe

namespace ArchSim.Pipe
open ArchSim ArchSim.Rv

/-- The same, with the hypothesis on the single-cycle side. -/
theorem singleRun_eq_seqRun (prog : List Instr) (hP : ProgWF prog) (s : St) (hS : SOK prog s) :
    ∀ k, (∀ j, j < k → (singleStep (singleRun j s)).fault = none) →
      seqRun k s = singleRun k s ∧ SOK prog (singleRun k s)
  | 0, _ => ⟨rfl, hS⟩
  | k + 1, h => by
    obtain ⟨e, hok⟩ := singleRun_eq_seqRun prog hP s hS k (fun j hj => h j (Nat.lt_succ_of_lt hj))
    obtain ⟨_, f2⟩ := seq_eq_single prog hP (singleRun k s) hok
    refine ⟨?_, SOK_step prog hP _ hok⟩
    show seqStep (seqRun k s) = (singleStep (singleRun k s)).st
    rw [e]; exact f2 (h k (Nat.lt_succ_self k))

/-- The address executed by a single-cycle step (none if there is no instruction or it faults). -/
def singleLog (s : St) : List Int :=
  match s.imem.instrAt s.pc with
  | none => []
  | some _ => match (singleStep s).fault with
    | none => [s.pc]
    | some _ => []

/-- Addresses of the instructions executed by the first `n` single-cycle steps, in order. -/
def singleTrace : Nat → St → List Int
  | 0, _ => []
  | n + 1, s => singleTrace n s ++ singleLog (singleRun n s)

theorem seqLog_eq_singleLog (prog : List Instr) (hP : ProgWF prog) (s : St) (hS : SOK prog s) :
    seqLog s = singleLog s := by
  unfold seqLog singleLog
  rw [(seq_eq_single prog hP s hS).1]
  cases s.imem.instrAt s.pc with
  | none => rfl
  | some _ => cases (singleStep s).fault <;> rfl

theorem seqTrace_eq_singleTrace (prog : List Instr) (hP : ProgWF prog) (s : St) (hS : SOK prog s) :
    ∀ k, (∀ j, j < k → seqFault (seqRun j s) = none) → seqTrace k s = singleTrace k s
  | 0, _ => rfl
  | k + 1, h => by
    have hk : ∀ j, j < k → seqFault (seqRun j s) = none := fun j hj => h j (Nat.lt_succ_of_lt hj)
    obtain ⟨e, hok⟩ := seqRun_eq_singleRun prog hP s hS k hk
    show seqTrace k s ++ seqLog (seqRun k s) = singleTrace k s ++ singleLog (singleRun k s)
    rw [seqTrace_eq_singleTrace prog hP s hS k hk, e, seqLog_eq_singleLog prog hP _ hok]

theorem exists_least (P : Nat → Prop) : ∀ k0, P k0 → ∃ k, k ≤ k0 ∧ P k ∧ ∀ j, j < k → ¬ P j := by
  intro k0
  induction k0 using Nat.strongRecOn with
  | _ k0 ih =>
    intro h
    by_cases hex : ∃ j, j < k0 ∧ P j
    · obtain ⟨j, hj, hp⟩ := hex
      obtain ⟨k, hk, hpk, hmin⟩ := ih j hj hp
      exact ⟨k, by omega, hpk, hmin⟩
    · exact ⟨k0, Nat.le_refl _, h, fun j hj hp => hex ⟨j, hj, hp⟩⟩

end ArchSim.Pipe

namespace ArchSim.Pipe
open ArchSim ArchSim.Rv

theorem SOK.progOK {prog : List Instr} {s : St} (hP : ProgWF prog) (hS : SOK prog s) : ProgOK s.imem := by
  rw [hS.1]; exact hP.toPipe none

theorem SOK.icoh {prog : List Instr} {s : St} (hP : ProgWF prog) (hS : SOK prog s) : ICoh s.imem := by
  rw [hS.1]; exact ICoh_nocache _ rfl hP.len

/-- FINAL STATE, composed, general form (any hazard flag, decode free of RAW hazards along the run). -/
theorem final_state_single_raw (prog : List Instr) (hP : ProgWF prog) (st : St) (hS : SOK prog st)
    (hzf : Bool) (hx : st.exitCode = none) (n : Nat) (hr : runOK n (PSt.init st hzf))
    (hraw : ∀ m, m < n → RawFree (pipeRun m (PSt.init st hzf)))
    (hd : isDone (pipeRun n (PSt.init st hzf)) = true)
    (hprev : ∀ m, m < n → isDone (pipeRun m (PSt.init st hzf)) = false) :
    ∃ k, k ≤ n ∧
      (∀ j, j < k → (singleStep (singleRun j st)).fault = none ∧ singleDone (singleRun j st) = false) ∧
      singleDone (singleRun k st) = true ∧
      SimP (pipeRun n (PSt.init st hzf)).st (singleRun k st) ∧
      retireLog n (PSt.init st hzf) = singleTrace k st := by
  obtain ⟨k, hk, hsim, hdone, hfirst, hlog, hnf⟩ :=
    final_state_raw st hzf (hS.progOK hP) (hS.icoh hP) hx n hr hraw hd hprev
  obtain ⟨e, _⟩ := seqRun_eq_singleRun prog hP st hS k hnf
  refine ⟨k, hk, fun j hj => ?_, by rw [← e]; exact hdone, by rw [← e]; exact hsim, ?_⟩
  · obtain ⟨ej, hokj⟩ := seqRun_eq_singleRun prog hP st hS j (fun j' hj' => hnf j' (Nat.lt_trans hj' hj))
    refine ⟨?_, by rw [← ej]; exact hfirst j hj⟩
    rw [← (seq_eq_single prog hP _ hokj).1, ← ej]; exact hnf j hj
  · rw [hlog]; exact seqTrace_eq_singleTrace prog hP st hS k hnf

/-- FINAL STATE, composed: five-stage run vs single-cycle run. -/
theorem final_state_single (prog : List Instr) (hP : ProgWF prog) (st : St) (hS : SOK prog st)
    (hx : st.exitCode = none) (n : Nat) (hr : runOK n (PSt.init st true))
    (hd : isDone (pipeRun n (PSt.init st true)) = true)
    (hprev : ∀ m, m < n → isDone (pipeRun m (PSt.init st true)) = false) :
    ∃ k, k ≤ n ∧
      (∀ j, j < k → (singleStep (singleRun j st)).fault = none ∧ singleDone (singleRun j st) = false) ∧
      singleDone (singleRun k st) = true ∧
      SimP (pipeRun n (PSt.init st true)).st (singleRun k st) ∧
      retireLog n (PSt.init st true) = singleTrace k st :=
  final_state_single_raw prog hP st hS true hx n hr
    (rawFree_run_of_hazard _ (PInv_init st true (hS.progOK hP) (hS.icoh hP)) rfl n hr) hd hprev

end ArchSim.Pipe

namespace ArchSim.Pipe
open ArchSim ArchSim.Rv

/-- TERMINATION, composed, general form. -/
theorem terminates_single_raw (prog : List Instr) (hP : ProgWF prog) (st : St) (hS : SOK prog st)
    (hzf : Bool)
    (hraw : ∀ n, runOK n (PSt.init st hzf) → ∀ m, m < n → RawFree (pipeRun m (PSt.init st hzf)))
    (kstar : Nat) (hnf : ∀ j, j < kstar → (singleStep (singleRun j st)).fault = none)
    (hh : singleDone (singleRun kstar st) = true ∨ (singleStep (singleRun kstar st)).fault.isSome = true) :
    ∃ N, N ≤ 5 * (kstar + 2) ∧
      (¬ runOK N (PSt.init st hzf) ∨ isDone (pipeRun N (PSt.init st hzf)) = true) := by
  obtain ⟨e, hok⟩ := singleRun_eq_seqRun prog hP st hS kstar hnf
  apply terminates_raw st hzf (hS.progOK hP) (hS.icoh hP) hraw kstar
  rw [e, (seq_eq_single prog hP _ hok).1]
  exact hh

/-- TERMINATION, composed: if the single-cycle run reaches, without a fault, a state that is done or
    whose next step faults, after `kstar` steps, the five-stage run has faulted or is done after at
    most `5 * (kstar + 2)` cycles. -/
theorem terminates_single (prog : List Instr) (hP : ProgWF prog) (st : St) (hS : SOK prog st)
    (kstar : Nat) (hnf : ∀ j, j < kstar → (singleStep (singleRun j st)).fault = none)
    (hh : singleDone (singleRun kstar st) = true ∨ (singleStep (singleRun kstar st)).fault.isSome = true) :
    ∃ N, N ≤ 5 * (kstar + 2) ∧
      (¬ runOK N (PSt.init st true) ∨ isDone (pipeRun N (PSt.init st true)) = true) :=
  terminates_single_raw prog hP st hS true
    (fun n hr => rawFree_run_of_hazard _ (PInv_init st true (hS.progOK hP) (hS.icoh hP)) rfl n hr)
    kstar hnf hh

/-- FAULT AGREEMENT, composed, general form. -/
theorem fault_agrees_single_raw (prog : List Instr) (hP : ProgWF prog) (st : St) (hS : SOK prog st)
    (hzf : Bool) (n : Nat) (hr : runOK n (PSt.init st hzf))
    (hraw : ∀ m, m < n → RawFree (pipeRun m (PSt.init st hzf))) (ft : PFault)
    (hft : (step (pipeRun n (PSt.init st hzf))).fault = some ft) :
    ∃ k, k ≤ n ∧ (∀ j, j < k → (singleStep (singleRun j st)).fault = none) ∧
      (singleStep (singleRun k st)).fault = some (ft.addr, ft.fault) ∧ (singleRun k st).pc = ft.addr ∧
      (step (pipeRun n (PSt.init st hzf))).p.st.regs = (singleRun k st).regs ∧
      (step (pipeRun n (PSt.init st hzf))).p.st.output = (singleRun k st).output := by
  have hI := PInv_init st hzf (hS.progOK hP) (hS.icoh hP)
  obtain ⟨k0, hk0, hf0, hpc0, hregs0, hout0⟩ :=
    fault_agrees_run_raw _ hI (absF_init st hzf) n hr hraw ft hft
  rw [abs_init] at hf0 hpc0 hregs0 hout0
  -- the first sequential step that faults
  obtain ⟨k, hk, hfk, hmin⟩ :=
    exists_least (fun j => (seqFault (seqRun j st)).isSome = true) k0 (by rw [hf0]; rfl)
  have hnf : ∀ j, j < k → seqFault (seqRun j st) = none := by
    intro j hj
    cases hq : seqFault (seqRun j st) with
    | none => rfl
    | some _ => exact absurd (by rw [hq]; rfl) (hmin j hj)
  have heq : seqRun k st = seqRun k0 st := seqRun_stuck_eq st k k0 hfk (by rw [hf0]; rfl)
  obtain ⟨e, hok⟩ := seqRun_eq_singleRun prog hP st hS k hnf
  refine ⟨k, by omega, fun j hj => ?_, ?_, ?_, ?_, ?_⟩
  · obtain ⟨ej, hokj⟩ := seqRun_eq_singleRun prog hP st hS j (fun j' hj' => hnf j' (Nat.lt_trans hj' hj))
    rw [← (seq_eq_single prog hP _ hokj).1, ← ej]; exact hnf j hj
  · rw [← (seq_eq_single prog hP _ hok).1, ← e, heq]; exact hf0
  · rw [← e, heq]; exact hpc0
  · rw [← e, heq]; exact hregs0
  · rw [← e, heq]; exact hout0

/-- FAULT AGREEMENT, composed: if cycle `n + 1` is the first to report a fault, the single-cycle run
    executes some `k ≤ n` steps without fault and its next step reports the same fault for the same
    instruction address; the physical registers and output of the pipeline at the moment of the
    fault are those of the single-cycle state before the faulting instruction. -/
theorem fault_agrees_single (prog : List Instr) (hP : ProgWF prog) (st : St) (hS : SOK prog st)
    (n : Nat) (hr : runOK n (PSt.init st true)) (ft : PFault)
    (hft : (step (pipeRun n (PSt.init st true))).fault = some ft) :
    ∃ k, k ≤ n ∧ (∀ j, j < k → (singleStep (singleRun j st)).fault = none) ∧
      (singleStep (singleRun k st)).fault = some (ft.addr, ft.fault) ∧ (singleRun k st).pc = ft.addr ∧
      (step (pipeRun n (PSt.init st true))).p.st.regs = (singleRun k st).regs ∧
      (step (pipeRun n (PSt.init st true))).p.st.output = (singleRun k st).output :=
  fault_agrees_single_raw prog hP st hS true n hr
    (rawFree_run_of_hazard _ (PInv_init st true (hS.progOK hP) (hS.icoh hP)) rfl n hr) ft hft

end ArchSim.Pipe
