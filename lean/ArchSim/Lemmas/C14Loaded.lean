/-
C14 helper lemmas, part 11: the grammar's guarantees survive the passes of `load` up to the instruction
pass — tokenizing, segmenting and pseudo-instruction expansion only hand trees of the grammar to
`buildInstrs` — so the program of every successful `load` is canonical and its listing re-assembles.
-/
import ArchSim.Lemmas.C14Sound
import ArchSim.Lemmas.C05Seg

namespace ArchSim.Lemmas.C14
open ArchSim ArchSim.PP ArchSim.Rv ArchSim.Asm

/-! ### tokenize -/

theorem tokenize_form (nl : List (Nat × List Char)) : ∀ (es : List Entry), tokenize nl = .ok es →
    ∀ e ∈ es, ItemForm e.2.2.item := by
  induction nl with
  | nil =>
    intro es h e he
    simp only [tokenize, Except.ok.injEq] at h
    subst h; cases he
  | cons p rest ih =>
    obtain ⟨k, l⟩ := p
    intro es h e he
    simp only [tokenize] at h
    cases hp : parseLine l with
    | none => rw [hp] at h; cases h
    | some t =>
      rw [hp] at h
      simp only at h
      cases ht : tokenize rest with
      | error x => rw [ht] at h; cases h
      | ok es' =>
        rw [ht] at h
        simp only [Except.ok.injEq] at h
        subst h
        rcases List.mem_cons.mp he with rfl | he
        · exact parseLine_form hp
        · exact ih es' ht e he

/-! ### segment -/

/-- both parts of a segmentation state are drawn from `toks` -/
def SegSub (toks : List Entry) (s : Seg) : Prop := (∀ e ∈ s.data, e ∈ toks) ∧ (∀ e ∈ s.text, e ∈ toks)

theorem foldl_segStep_error (l : List Entry) (x : AsmErr) :
    l.foldl C05.segStep (.error x) = .error x := by
  induction l with
  | nil => rfl
  | cons e l ih => simp only [List.foldl_cons, C05.segStep, ih]

theorem segStep_sub (toks : List Entry) (s s' : Seg) (e : Entry) (hs : SegSub toks s)
    (h : C05.segStep (.ok s) e = .ok s') : SegSub toks s' := by
  simp only [C05.segStep] at h
  split at h
  · split at h
    · simp only [Except.ok.injEq] at h
      subst h
      exact ⟨fun x hx => hs.2 x (List.mem_of_mem_drop hx), fun x hx => hs.2 x (List.mem_of_mem_take hx)⟩
    · cases h
  · split at h
    · split at h
      · simp only [Except.ok.injEq] at h
        subst h
        exact ⟨fun x hx => hs.1 x (List.mem_of_mem_take hx), fun x hx => hs.1 x (List.mem_of_mem_drop hx)⟩
      · cases h
    · simp only [Except.ok.injEq] at h
      subst h; exact hs

theorem foldl_segStep_sub (toks : List Entry) (l : List Entry) : ∀ (s s' : Seg), SegSub toks s →
    l.foldl C05.segStep (.ok s) = .ok s' → SegSub toks s' := by
  induction l with
  | nil => intro s s' hs h; simp only [List.foldl_nil, Except.ok.injEq] at h; subst h; exact hs
  | cons e l ih =>
    intro s s' hs h
    simp only [List.foldl_cons] at h
    cases hstep : C05.segStep (.ok s) e with
    | error x => rw [hstep, foldl_segStep_error] at h; cases h
    | ok s1 => rw [hstep] at h; exact ih s1 s' (segStep_sub toks s s1 e hs hstep) h

/-- the text segment consists of tokenized entries -/
theorem segment_text_mem (toks data text' : List Entry) (h : segment toks = .ok (data, text')) :
    ∀ e ∈ text', e ∈ toks := by
  cases toks with
  | nil =>
    simp only [segment, Except.ok.injEq, Prod.mk.injEq] at h
    intro e he; rw [← h.2] at he; cases he
  | cons first rest =>
    rw [C05.segment_cons] at h
    cases hf : rest.foldl C05.segStep (.ok (C05.seg0 first rest)) with
    | error x => rw [hf] at h; cases h
    | ok s =>
      rw [hf] at h
      simp only [Except.ok.injEq, Prod.mk.injEq] at h
      have h0 : SegSub (first :: rest) (C05.seg0 first rest) := by
        unfold C05.seg0
        split
        · exact ⟨fun x hx => List.mem_cons_of_mem _ hx, fun x hx => by cases hx⟩
        · split
          · exact ⟨fun x hx => (by cases hx), fun x hx => List.mem_cons_of_mem _ hx⟩
          · exact ⟨fun x hx => (by cases hx), fun x hx => hx⟩
      have := foldl_segStep_sub (first :: rest) rest _ s h0 hf
      rw [← h.2]; exact this.2

/-! ### expansion of pseudo-instructions -/

theorem form_lui (a : Nat) (v : Int) (ha : a < 32) : GrammarForm (.utype "lui" a v) :=
  ⟨by decide, ha⟩

theorem form_addi (a b : Nat) (v : Int) (ha : a < 32) (hb : b < 32) : GrammarForm (.rri "addi" a b v) :=
  ⟨by decide, ha, hb⟩

theorem itemForm_grp {pi : PInstr} (h : GrammarForm pi) : ItemForm (.grp pi) := by
  intro pi' e; cases e; exact h

theorem mem_of_memPseudo : ∀ mn ∈ memIMn ++ ["la"], mn ≠ "la" → mn ∈ memIMn ++ sMn := by decide
theorem mem_of_sPseudo : ∀ mn ∈ sMn, mn ∈ memIMn ++ sMn := by decide

theorem expandOne_form (vars : Vars) (e : TEntry) (g : List TEntry) (he : ItemForm e.2.2)
    (h : expandOne vars e = .ok g) : ∀ x ∈ g, ItemForm x.2.2 := by
  obtain ⟨k, line, it⟩ := e
  unfold expandOne at h
  simp only at h
  split at h
  · simp only [Except.ok.injEq] at h
    subst h
    intro x hx
    simp only [List.mem_singleton] at hx
    subst hx
    exact itemForm_grp (form_addi 0 0 0 (by decide) (by decide))
  · next rd imm =>
    have hrd : rd < 32 := he _ rfl
    split at h
    · simp only [Except.ok.injEq] at h
      subst h
      intro x hx
      simp only [List.mem_cons, List.not_mem_nil, or_false] at hx
      rcases hx with rfl | rfl
      · exact itemForm_grp (form_lui rd _ hrd)
      · exact itemForm_grp (form_addi rd rd _ hrd hrd)
    · simp only [Except.ok.injEq] at h
      subst h
      intro x hx
      simp only [List.mem_singleton] at hx
      subst hx
      exact itemForm_grp (form_addi rd 0 _ hrd (by decide))
  · next mn r1 v idx =>
    obtain ⟨hmn, hr1⟩ : GrammarForm (.memPseudo mn r1 v idx) := he _ rfl
    split at h
    · cases h
    · split at h
      · simp only [Except.ok.injEq] at h
        subst h
        intro x hx
        simp only [List.mem_cons, List.not_mem_nil, or_false] at hx
        rcases hx with rfl | rfl
        · exact itemForm_grp (form_lui r1 _ hr1)
        · exact itemForm_grp (form_addi r1 r1 _ hr1 hr1)
      · next hla =>
        simp only [Except.ok.injEq] at h
        subst h
        intro x hx
        simp only [List.cons_append, List.nil_append, List.mem_cons, List.not_mem_nil, or_false] at hx
        rcases hx with rfl | rfl | rfl
        · exact itemForm_grp (form_lui r1 _ hr1)
        · exact itemForm_grp (form_addi r1 r1 _ hr1 hr1)
        · exact itemForm_grp ⟨mem_of_memPseudo mn hmn hla, hr1, hr1⟩
  · next mn r1 v idx r2 =>
    obtain ⟨hmn, hr1, hr2⟩ : GrammarForm (.sPseudo mn r1 v idx r2) := he _ rfl
    split at h
    · cases h
    · simp only [Except.ok.injEq] at h
      subst h
      intro x hx
      simp only [List.mem_cons, List.not_mem_nil, or_false] at hx
      rcases hx with rfl | rfl | rfl
      · exact itemForm_grp (form_lui r2 _ hr2)
      · exact itemForm_grp (form_addi r2 r2 _ hr2 hr2)
      · exact itemForm_grp ⟨mem_of_sPseudo mn hmn, hr1, hr2⟩
  · next rd rs =>
    obtain ⟨hrd, hrs⟩ : GrammarForm (.mv rd rs) := he _ rfl
    simp only [Except.ok.injEq] at h
    subst h
    intro x hx
    simp only [List.mem_singleton] at hx
    subst hx
    exact itemForm_grp (form_addi rd rs 0 hrd hrs)
  · simp only [Except.ok.injEq] at h
    subst h
    intro x hx
    simp only [List.mem_singleton] at hx
    subst hx
    exact he

theorem expandAll_form (vars : Vars) (es : List TEntry) : ∀ (R : List TEntry),
    (∀ e ∈ es, ItemForm e.2.2) → expandAll vars es = .ok R → ∀ x ∈ R, ItemForm x.2.2 := by
  induction es with
  | nil =>
    intro R _ h x hx
    simp only [expandAll, Except.ok.injEq] at h
    subst h; cases hx
  | cons e rest ih =>
    intro R hes h x hx
    simp only [expandAll] at h
    cases hg : expandOne vars e with
    | error y => rw [hg] at h; cases h
    | ok g =>
      rw [hg] at h
      simp only at h
      cases hr : expandAll vars rest with
      | error y => rw [hr] at h; cases h
      | ok more =>
        rw [hr] at h
        simp only [Except.ok.injEq] at h
        subst h
        rcases List.mem_append.mp hx with hx | hx
        · exact expandOne_form vars e g (hes e List.mem_cons_self) hg x hx
        · exact ih more (fun e' he' => hes e' (List.mem_cons_of_mem _ he')) hr x hx

/-! ### the program of a successful load -/

/-- a `loadSeg` without error: the stored program is what `buildInstrs` made of the expanded text -/
theorem loadSeg_ok_prog (s0 : St) (data text' : List Entry) (h : (C05.loadSeg s0 data text').err = none) :
    ∃ vars expanded ls,
      expandAll vars (text'.map fun (k, line, t) => ((k, line, t.item) : TEntry)) = .ok expanded ∧
      buildInstrs ls expanded 0 = .ok (C05.loadSeg s0 data text').st.imem.prog ∧
      (C05.loadSeg s0 data text').st.imem.prog.length ≤ 4096 := by
  generalize ho : C05.loadSeg s0 data text' = o at h ⊢
  unfold C05.loadSeg at ho
  simp only at ho
  split at ho
  · subst ho; simp at h
  · split at ho
    · subst ho; simp at h
    · next expanded hexp =>
      split at ho
      · subst ho; simp at h
      · next ls hls =>
        split at ho
        · subst ho; simp at h
        · next instrs hb =>
          split at ho
          · subst ho; simp at h
          · next hlen =>
            subst ho
            exact ⟨_, expanded, ls, hexp, hb, by simpa using hlen⟩

/-- The program of a successful `load` is what the instruction pass builds, from address 0 with some
    label table, from an expanded listing all of whose grouped entries are trees of the grammar; it has at
    most 4096 instructions. -/
theorem load_ok_built (s : St) (text : String) (h : (load s text).err = none) :
    ∃ ls es, GrammarEntries es ∧ buildInstrs ls es 0 = .ok (load s text).st.imem.prog ∧
      (load s text).st.imem.prog.length ≤ 4096 := by
  rw [C05.load_factors] at h ⊢
  cases htok : tokenize (sanitize text) with
  | error e => rw [htok] at h; simp at h
  | ok toks =>
    rw [htok] at h
    simp only at h ⊢
    cases hseg : segment toks with
    | error e => rw [hseg] at h; simp at h
    | ok p =>
      obtain ⟨data, text'⟩ := p
      rw [hseg] at h
      simp only at h ⊢
      obtain ⟨vars, expanded, ls, hexp, hb, hlen⟩ := loadSeg_ok_prog _ data text' h
      refine ⟨ls, expanded, ?_, hb, hlen⟩
      have hform := expandAll_form vars _ expanded ?_ hexp
      · intro e he pi hpi
        exact hform e he pi hpi
      · intro e he
        obtain ⟨x, hx, rfl⟩ := List.mem_map.mp he
        exact tokenize_form _ toks htok x (segment_text_mem toks data text' hseg x hx)

/-- The listing of every successfully loaded program whose instructions are printable re-assembles
    (in any simulator state `s'`) to the same program. -/
theorem loaded_listing (s s' : St) (text : String) (h : (load s text).err = none)
    (hp : ∀ i ∈ (load s text).st.imem.prog, Printable i) :
    (load s' (String.intercalate "\n" ((load s text).st.imem.prog.map Instr.repr))).err = none ∧
    (load s' (String.intercalate "\n" ((load s text).st.imem.prog.map Instr.repr))).st.imem.prog =
      (load s text).st.imem.prog := by
  obtain ⟨ls, es, hg, hb, hlen⟩ := load_ok_built s text h
  exact built_listing s' ls es _ hg hb hlen hp

end ArchSim.Lemmas.C14
