/-
Refinement of the TOY simulator model by the reference machine `ToyRef` (C06): abstraction
function, boundary invariant, one-step simulation lemma.
-/
import ArchSim.Lemmas.ToyExec
import ArchSim.Lemmas.ToyLife
import ArchSim.Spec.ToyRef

namespace ArchSim.Toy
open ArchSim ArchSim.ToyRef

/-! ### Abstraction and invariant -/

/-- The 4096 × 16-bit memory seen by the reference machine. -/
def absMem (m : Mem.Mem) : BitVec 12 → BitVec 16 := fun x => BitVec.ofNat 16 (m.cells (x.toNat : Int))

/-- Abstraction at an instruction boundary. The simulator has already incremented its program
    counter past the pre-loaded instruction, so the reference pc is `pc − 1` (mod 4096); the
    reference machine is halted iff no instruction is loaded; `maxPc = None` (nothing ever
    loaded) is read as −1. -/
def abs (t : TSim) : RefSt :=
  { accu := BitVec.ofNat 16 t.s.accu
    pc := BitVec.ofNat 12 (t.s.pc + 4095)
    mem := absMem t.s.mem
    maxPc := t.s.maxPc.getD (-1)
    halted := isDone t
    instrs := t.s.instrs
    cycles := t.s.cycles
    branches := t.s.branches }

/-- Boundary invariant: at an instruction boundary, with the TOY memory configuration, a 16-bit
    accumulator, a 12-bit pc, and the instruction register — if anything is loaded — holding the
    decoding of the *current* memory word at `pc − 1`. -/
def BInv (t : TSim) : Prop :=
  t.nextCycle = 1 ∧ t.s.mem.cfg = Mem.toyCfg ∧ t.s.accu < 65536 ∧ t.s.pc < 4096 ∧
  (t.s.loaded = none ∨ t.s.loaded = some (decode (rd t.s ((t.s.pc + 4095) % 4096))))

/-! ### Arithmetic -/

def opN (q : Nat) : Nat := if q ≤ 11 then q else 12

theorem aluN_lt (op a m : Nat) (ha : a < 65536) (hm : m < 65536) : aluN op a m < 65536 := by
  rcases op with _|_|_|_|_|_|_|_|_|_|_|_|_|n
  all_goals simp only [aluN, w16]
  all_goals first
    | omega
    | exact Nat.or_lt_two_pow (n := 16) ha hm
    | exact Nat.and_lt_two_pow (n := 16) _ hm
    | exact Nat.xor_lt_two_pow (n := 16) ha hm

theorem alu_abs (q a m : Nat) (hq : q < 16) :
    BitVec.ofNat 16 (aluN (opN q) a (m % 65536)) = alu q (BitVec.ofNat 16 a) (BitVec.ofNat 16 m) := by
  have hm : m % 65536 < 65536 := by omega
  have : q = 0 ∨ q = 1 ∨ q = 2 ∨ q = 3 ∨ q = 4 ∨ q = 5 ∨ q = 6 ∨ q = 7 ∨ q = 8 ∨ q = 9 ∨ q = 10 ∨
      q = 11 ∨ q = 12 ∨ q = 13 ∨ q = 14 ∨ q = 15 := by omega
  rcases this with rfl|rfl|rfl|rfl|rfl|rfl|rfl|rfl|rfl|rfl|rfl|rfl|rfl|rfl|rfl|rfl
  all_goals simp only [opN, aluN, alu, w16]
  all_goals apply BitVec.eq_of_toNat_eq
  all_goals simp
  all_goals omega

theorem opN_eq_zero (q : Nat) : opN q = 0 ↔ q = 0 := by unfold opN; split <;> omega
theorem opN_eq_two (q : Nat) : opN q = 2 ↔ q = 2 := by unfold opN; split <;> omega

theorem opN_beq_two (q : Nat) : (opN q == 2) = (q == 2) := by
  unfold opN; split
  · rfl
  · have h2 : ¬ (q = 2) := by omega
    simp [h2]

theorem ofNat16_beq_zero (a : Nat) (ha : a < 65536) : (BitVec.ofNat 16 a == 0#16) = (a == 0) := by
  rw [Bool.eq_iff_iff]; simp only [beq_iff_eq]
  constructor
  · intro h
    have := congrArg BitVec.toNat h
    simp at this; omega
  · intro h; subst h; rfl

theorem ofNat12_succ (p : Nat) : BitVec.ofNat 12 (p + 4095) + 1 = BitVec.ofNat 12 p := by
  apply BitVec.eq_of_toNat_eq
  have h1 : (1 : BitVec 12).toNat = 1 := rfl
  simp only [BitVec.toNat_add, BitVec.toNat_ofNat, h1]
  omega

theorem ofNat12_pred (p : Nat) : BitVec.ofNat 12 ((p + 1) % 4096 + 4095) = BitVec.ofNat 12 p := by
  apply BitVec.eq_of_toNat_eq
  simp only [BitVec.toNat_ofNat]
  omega

theorem decode_fields (w : Nat) (hw : w < 65536) :
    (decode w).opcode = opN (w / 4096) ∧ (decode w).addr = w % 4096 := by
  have : w / 4096 % 16 = w / 4096 := by omega
  simp [decode, opN, this]

theorem ofNat16_mod (c : Nat) : BitVec.ofNat 16 (c % 65536) = BitVec.ofNat 16 c := by
  apply BitVec.eq_of_toNat_eq; simp

theorem ofNat12_mod (c : Nat) : BitVec.ofNat 12 (c % 4096) = BitVec.ofNat 12 c := by
  apply BitVec.eq_of_toNat_eq; simp

theorem opcodeOf_ofNat (w : Nat) (hw : w < 65536) : opcodeOf (BitVec.ofNat 16 w) = w / 4096 := by
  simp [opcodeOf, Nat.mod_eq_of_lt hw]

theorem addrOf_ofNat (w : Nat) : addrOf (BitVec.ofNat 16 w) = BitVec.ofNat 12 w := by
  apply BitVec.eq_of_toNat_eq; simp [addrOf]

theorem absMem_at (m : Mem.Mem) (a : Nat) (ha : a < 4096) :
    absMem m (BitVec.ofNat 12 a) = BitVec.ofNat 16 (m.cells (a : Int)) := by
  simp [absMem, Nat.mod_eq_of_lt ha]

theorem absMem_putCell (m : Mem.Mem) (a v : Nat) (ha : a < 4096) :
    absMem (putCell m a v) = fun x => if x = BitVec.ofNat 12 a then BitVec.ofNat 16 v else absMem m x := by
  funext x
  simp only [absMem, putCell_cells]
  by_cases hx : x = BitVec.ofNat 12 a
  · subst hx
    simp [Nat.mod_eq_of_lt ha, ofNat16_mod]
  · have : ¬ ((x.toNat : Int) = (a : Int)) := by
      intro h
      apply hx
      apply BitVec.eq_of_toNat_eq
      simp [Nat.mod_eq_of_lt ha]; omega
    simp [hx, this]

/-! ### Field lemmas for `refStep` -/

section
variable {r : RefSt} (h : r.halted = false)
include h

theorem refStep_accu : (refStep r).accu = alu (opcodeOf (r.mem r.pc)) r.accu (r.mem (addrOf (r.mem r.pc))) := by
  simp [refStep, h]
theorem refStep_pc : (refStep r).pc =
    if (opcodeOf (r.mem r.pc) == 2 && r.accu == 0) = true then addrOf (r.mem r.pc) else r.pc + 1 := by
  simp [refStep, h]
theorem refStep_mem : (refStep r).mem =
    if opcodeOf (r.mem r.pc) = 0 then (fun x => if x = addrOf (r.mem r.pc) then r.accu else r.mem x)
    else r.mem := by
  simp [refStep, h]
theorem refStep_maxPc : (refStep r).maxPc = r.maxPc := by simp [refStep, h]
theorem refStep_halted : (refStep r).halted = decide (r.maxPc < ((refStep r).pc.toNat : Int)) := by
  simp [refStep, h]
theorem refStep_instrs : (refStep r).instrs = r.instrs + 1 := by simp [refStep, h]
theorem refStep_cycles : (refStep r).cycles = r.cycles + 2 := by simp [refStep, h]
theorem refStep_branches : (refStep r).branches =
    r.branches + if (opcodeOf (r.mem r.pc) == 2 && r.accu == 0) = true then 1 else 0 := by
  simp [refStep, h]
end

theorem refStep_halted_id {r : RefSt} (h : r.halted = true) : refStep r = r := by simp [refStep, h]

/-! ### One instruction -/

theorem nextMem_cfg {t : TSim} {i : TInstr} (hc : t.s.mem.cfg = Mem.toyCfg) (ha : i.addr < 4096) :
    (nextMem t i).cfg = Mem.toyCfg := by
  unfold nextMem; split
  · rw [wr_toy t.s hc i.addr ha]; exact hc
  · exact hc

/-- The simulation step: one `step()` of the simulator from a boundary state is one `refStep` of
    the reference machine, and the boundary invariant is preserved. -/
theorem step_refines {t : TSim} (h : BInv t) : abs (stepT t) = refStep (abs t) ∧ BInv (stepT t) := by
  obtain ⟨h1, hc, hacc, hpc, hir⟩ := h
  rcases hir with hl | hl
  · -- nothing loaded: both sides are the identity
    have hd := isDone_none hl
    rw [stepT_done (Inv_of_one h1) hd]
    exact ⟨(refStep_halted_id (by simp [abs, hd])).symm, h1, hc, hacc, hpc, Or.inl hl⟩
  · -- an instruction is loaded
    have hpa : (t.s.pc + 4095) % 4096 < 4096 := by omega
    generalize hwdef : rd t.s ((t.s.pc + 4095) % 4096) = w at hl
    have hwc : w = t.s.mem.cells (((t.s.pc + 4095) % 4096 : Nat) : Int) % 65536 := by
      rw [← hwdef, rd_toy t.s hc _ hpa]
    have hw : w < 65536 := by omega
    have hq : w / 4096 < 16 := by omega
    obtain ⟨hop, haddr⟩ := decode_fields w hw
    generalize hi : decode w = i at hl hop haddr
    have hia : i.addr < 4096 := by omega
    have hnh : (abs t).halted = false := by simp [abs, isDone, hl]
    -- the reference machine fetches the same word
    have hfetch : (abs t).mem (abs t).pc = BitVec.ofNat 16 w := by
      show absMem t.s.mem (BitVec.ofNat 12 (t.s.pc + 4095)) = _
      rw [← ofNat12_mod, absMem_at _ _ hpa, hwc, ofNat16_mod]
    have hopc : opcodeOf ((abs t).mem (abs t).pc) = w / 4096 := by rw [hfetch, opcodeOf_ofNat w hw]
    have hadr : addrOf ((abs t).mem (abs t).pc) = BitVec.ofNat 12 i.addr := by
      rw [hfetch, addrOf_ofNat, haddr, ofNat12_mod]
    have hacc0 : ((abs t).accu == 0) = (t.s.accu == 0) := ofNat16_beq_zero _ hacc
    have htaken : (opcodeOf ((abs t).mem (abs t).pc) == 2 && (abs t).accu == 0) = takenN i.opcode t.s.accu := by
      rw [hopc, hacc0, takenN, hop, opN_beq_two]
    have hna : nextAddr t i < 4096 := by unfold nextAddr; split <;> omega
    have hnpc : (refStep (abs t)).pc = BitVec.ofNat 12 (nextAddr t i) := by
      rw [refStep_pc hnh, htaken, hadr]
      unfold nextAddr
      split
      · rfl
      · exact ofNat12_succ _
    have hnc := nextMem_cfg (t := t) hc hia
    rw [stepT_some h1 hl]
    refine ⟨?_, ?_⟩
    · apply RefSt.ext
      · -- accu
        rw [refStep_accu hnh, hopc, hadr]
        show BitVec.ofNat 16 (secondBody (firstBody t i) i).s.accu = _
        rw [step_accu, hop, rd_toy t.s hc _ hia, alu_abs _ _ _ hq]
        have hm : (abs t).mem (BitVec.ofNat 12 i.addr) = BitVec.ofNat 16 (t.s.mem.cells (i.addr : Int)) :=
          absMem_at _ _ hia
        rw [hm]; rfl
      · -- pc
        rw [hnpc]
        show BitVec.ofNat 12 ((secondBody (firstBody t i) i).s.pc + 4095) = _
        rw [step_pc, ofNat12_pred]
      · -- mem
        rw [refStep_mem hnh, hopc, hadr]
        show absMem (secondBody (firstBody t i) i).s.mem = _
        rw [step_mem, nextMem, hop]
        by_cases h0 : w / 4096 = 0
        · have : opN (w / 4096) = 0 := (opN_eq_zero _).2 h0
          rw [if_pos this, if_pos h0, wr_toy t.s hc _ hia, absMem_putCell _ _ _ hia]
          rfl
        · have : ¬ opN (w / 4096) = 0 := by rw [opN_eq_zero]; exact h0
          rw [if_neg this, if_neg h0]
          rfl
      · -- maxPc
        rw [refStep_maxPc hnh]
        show (secondBody (firstBody t i) i).s.maxPc.getD (-1) = t.s.maxPc.getD (-1)
        rw [step_maxPc]
      · -- halted
        rw [refStep_halted hnh, hnpc]
        show isDone (secondBody (firstBody t i) i) = decide (t.s.maxPc.getD (-1) < _)
        rw [isDone, step_loaded]
        have : (BitVec.ofNat 12 (nextAddr t i)).toNat = nextAddr t i := by
          simp [Nat.mod_eq_of_lt hna]
        rw [this]
        by_cases hle : ((nextAddr t i : Nat) : Int) ≤ t.s.maxPc.getD (-1)
        · have : ¬ (t.s.maxPc.getD (-1) < ((nextAddr t i : Nat) : Int)) := by omega
          simp [hle, this]
        · have : t.s.maxPc.getD (-1) < ((nextAddr t i : Nat) : Int) := by omega
          simp [hle, this]
      · rw [refStep_instrs hnh]; exact step_instrs t i
      · rw [refStep_cycles hnh]; exact step_cycles t i
      · rw [refStep_branches hnh, htaken]; exact step_branches t i
    · refine ⟨rfl, ?_, ?_, ?_, ?_⟩
      · rw [step_mem]; exact hnc
      · rw [step_accu]
        exact aluN_lt _ _ _ hacc (by rw [rd_toy t.s hc _ hia]; omega)
      · rw [step_pc]; omega
      · rw [step_loaded]
        split
        · right
          rw [rd_eq_rdM, step_mem, step_pc]
          have : ((nextAddr t i + 1) % 4096 + 4095) % 4096 = nextAddr t i := by omega
          rw [this]
        · left; rfl

theorem BInv_iter {t : TSim} (h : BInv t) (n : Nat) : BInv (iter stepT n t) := by
  induction n generalizing t with
  | zero => exact h
  | succ n ih => exact ih (step_refines h).2

theorem iter_refines {t : TSim} (h : BInv t) (n : Nat) :
    abs (iter stepT n t) = iter refStep n (abs t) := by
  induction n generalizing t with
  | zero => rfl
  | succ n ih =>
    rw [iter_succ, iter_succ, ih (step_refines h).2, (step_refines h).1]

end ArchSim.Toy
