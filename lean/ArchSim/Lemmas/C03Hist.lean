/-
C03 / C12 helper lemmas, part 9: policies satisfying `PolicyOK`, the initial state and preloads,
one step of a history against the flat reference memory, histories, resident blocks under
write-through.
-/
import ArchSim.Lemmas.C03Top
import ArchSim.Lemmas.C10Pol

namespace ArchSim.Lemmas.C03
open ArchSim ArchSim.Cache ArchSim.Mem ArchSim.Spec.ByteStore ArchSim.Lemmas.C18 ArchSim.Spec.CacheAbs

variable {σ : Type} {P : PolicyOps σ} {WFp : σ → Prop}

/-! ### policies -/

theorem lru_ok (assoc : Nat) (ha : 0 < assoc) : PolicyOK lruOps assoc (Repl.Pol.WF assoc) where
  init := Repl.Pol.WF_init_lru assoc
  access := fun _ _ hs hi => Repl.Pol.WF.access hs hi
  victim := fun _ hs => Repl.Pol.WF.victim hs ha

theorem plru_ok (d : Nat) : PolicyOK plruOps (2 ^ d) (Repl.Pol.WF (2 ^ d)) where
  init := Repl.Pol.WF_init_plru d
  access := fun _ _ hs hi => Repl.Pol.WF.access hs hi
  victim := fun _ hs => Repl.Pol.WF.victim hs (Nat.two_pow_pos d)

theorem pol_ok (isLru : Bool) (assoc : Nat) (ha : 0 < assoc)
    (h : isLru = false → ∃ d, assoc = 2 ^ d) : PolicyOK (polOps isLru) assoc (Repl.Pol.WF assoc) := by
  cases isLru with
  | true => exact lru_ok assoc ha
  | false => obtain ⟨d, rfl⟩ := h rfl; exact plru_ok d

theorem forced_ok (assoc : Nat) (ha : 0 < assoc) : PolicyOK forcedOps assoc (fun v => v < assoc) where
  init := ha
  access := fun s _ hs _ => ⟨s, rfl, hs⟩
  victim := fun s hs => ⟨s, rfl, hs⟩

/-! ### the initial state and preloads -/

theorem lookup_initSets (g : Geo) (k t : Nat) : lookup (initSets (σ := σ) P g) k t = none := by
  unfold lookup initSets
  cases h : (List.replicate (2 ^ g.idxBits)
      ({ ways := List.replicate g.assoc Way.empty, pol := P.init g.assoc } : CSet σ Nat))[k]? with
  | none => rfl
  | some cs =>
    rw [List.getElem?_replicate] at h
    split at h
    · cases h
      simp only [Option.bind_some]
      apply (lookupWays_none_iff t).mpr
      intro i w hw
      rw [List.getElem?_replicate] at hw
      split at hw
      · cases hw
        intro hv
        exact absurd hv.1 (by simp [Way.empty])
      · cases hw
    · cases h

theorem initSets_ok (g : Geo) (hP : PolicyOK P g.assoc WFp) : SetsOK g WFp (initSets (σ := σ) P g) := by
  constructor
  · simp [initSets]
  · intro k cs h
    unfold initSets at h
    rw [List.getElem?_replicate] at h
    split at h
    · cases h
      refine ⟨by simp, hP.init, ?_, ?_⟩
      · intro i w hw
        rw [List.getElem?_replicate] at hw
        split at hw
        · cases hw
          exact ⟨rfl, (fun h => by cases h), (fun h => by cases h), (fun h => by cases h),
            (fun h => by cases h), (fun h => by cases h)⟩
        · cases hw
      · intro i j wi wj hi _ hvi
        rw [List.getElem?_replicate] at hi
        split at hi
        · cases hi; cases hvi
        · cases hi
    · cases h

/-- A state without resident blocks satisfies the invariant, and its logical contents are the
    backing memory. -/
theorem CInv_of_empty {s : DSys σ} (hg : GeoOK s.geo) (hsets : SetsOK s.geo WFp s.sets)
    (hm : MemOK s.mem) (hnone : ∀ k t, lookup s.sets k t = none) :
    CInv WFp s ∧ ∀ a, logical s a = s.mem.cells ((wrap32 a : Nat) : Int) := by
  have hl : ∀ a, logical s a = s.mem.cells ((wrap32 a : Nat) : Int) :=
    fun a => logical_of_none (hnone _ _)
  exact ⟨⟨⟨hg, hsets, hm.cfg, hm.wf⟩, fun _ => hl⟩, hl⟩

theorem MemOK_empty : MemOK (Mem.empty riscvCfg) := ⟨rfl, WF_empty _⟩

theorem MemOK_applyOp {m : Mem} (hm : MemOK m) (op : Spec.ByteStore.Op) : MemOK (applyOp m op) :=
  ⟨by rw [applyOp_cfg]; exact hm.cfg, WF_applyOp m op hm.wf⟩

theorem MemOK_run (h : List Spec.ByteStore.Op) : MemOK (run riscvCfg h) := by
  refine ⟨?_, WF_run _ _⟩
  rw [run_eq, applyCells_cfg]; rfl

/-- A direct write (parser preload) is the flat write on the backing memory. -/
theorem writeDirect_mem (s : DSys σ) (bits : Nat) (addr : Int) (v : Nat) :
    (s.writeDirect bits addr v).sys.mem = applyOp s.mem (.write bits addr v) ∧
    (s.writeDirect bits addr v).sys.sets = s.sets ∧ (s.writeDirect bits addr v).sys.geo = s.geo ∧
    (s.writeDirect bits addr v).sys.wt = s.wt := by
  simp only [DSys.writeDirect, applyOp]
  cases h : Mem.write s.mem bits addr v with
  | none => exact ⟨rfl, rfl, rfl, rfl⟩
  | some r =>
    obtain ⟨m', e⟩ := r
    cases e <;> exact ⟨rfl, rfl, rfl, rfl⟩

theorem preload_spec (s : DSys σ) (h : List Spec.ByteStore.Op) :
    (preload s h).mem = h.foldl applyOp s.mem ∧ (preload s h).sets = s.sets ∧
    (preload s h).geo = s.geo ∧ (preload s h).wt = s.wt := by
  induction h generalizing s with
  | nil => exact ⟨rfl, rfl, rfl, rfl⟩
  | cons op h ih =>
    cases op with
    | write bits addr v =>
      obtain ⟨e1, e2, e3, e4⟩ := writeDirect_mem s bits addr v
      obtain ⟨i1, i2, i3, i4⟩ := ih (s.writeDirect bits addr v).sys
      exact ⟨by rw [preload, i1, e1]; rfl, by rw [preload, i2, e2], by rw [preload, i3, e3],
        by rw [preload, i4, e4]⟩

/-! ### one step against the flat reference -/

/-- The cached state `s` represents the flat memory `m`. -/
def Repr (WFp : σ → Prop) (s : DSys σ) (m : Mem) : Prop :=
  CInv WFp s ∧ MemOK m ∧ ∀ a, logical s a = m.cells ((wrap32 a : Nat) : Int)

theorem step_agrees {s : DSys σ} (hP : PolicyOK P s.geo.assoc WFp) {m : Mem} (hr : Repr WFp s m)
    (o : Spec.CacheAbs.Op) (ho : o.wf) :
    Repr WFp (stepOp P s o).sys (flatStep m o).1 ∧ (stepOp P s o).sys.geo = s.geo ∧
      (stepOp P s o).sys.wt = s.wt ∧ agrees o (stepOp P s o).res (flatStep m o).2 := by
  obtain ⟨hs, hm, hL⟩ := hr
  cases o with
  | read bits addr counted =>
    have hb : widthOK bits := ho
    unfold stepOp flatStep agrees
    by_cases hacc : (Spec.CacheAbs.Op.read bits addr counted).accepted
    · have hacc' : inWord bits addr ∧ inData addr := hacc
      obtain ⟨hw, hin⟩ := hacc'
      obtain ⟨e1, e2, e3, e4, e5⟩ := read_accepted hP hs bits addr counted hb hw hin
      have hx := wrap32_lt addr
      have hw' : wrap32 addr % 4 + bits / 8 ≤ 4 := hw
      rw [if_pos hacc, if_pos hacc]
      refine ⟨⟨e2, hm, fun a => (e3 a).trans (hL a)⟩, e4, e5, _, e1, ?_⟩
      simp only
      rw [read_riscv hm bits hb addr hin (by omega)]
      refine congrArg some (congrArg Except.ok ?_)
      apply leSum_congr
      intro i hi
      rw [hL, wrap32_add addr i (by omega)]
    · rw [if_neg hacc, if_neg hacc]
      by_cases hin : inData addr
      · have hw : ¬ inWord bits addr := fun h => hacc ⟨h, hin⟩
        obtain ⟨e1, e2, e3, e4, e5⟩ := read_crossing hP hs bits addr counted hb hw hin
        exact ⟨⟨e2, hm, fun a => (e3 a).trans (hL a)⟩, e4, e5, _, e1⟩
      · obtain ⟨e1, e2, e3, e4, e5⟩ := read_bad hP hs bits addr counted hin
        exact ⟨⟨e2, hm, fun a => (e3 a).trans (hL a)⟩, e4, e5, _, e1⟩
  | write bits addr v =>
    obtain ⟨hb, hv⟩ : widthOK bits ∧ v < 2 ^ bits := ho
    unfold stepOp flatStep agrees DSys.write
    simp only [Bool.false_eq_true, if_false]
    by_cases hacc : (Spec.CacheAbs.Op.write bits addr v).accepted
    · have hacc' : inWord bits addr ∧ inData addr := hacc
      obtain ⟨hw, hin⟩ := hacc'
      have hx := wrap32_lt addr
      have hw' : wrap32 addr % 4 + bits / 8 ≤ 4 := hw
      rw [if_pos hacc, if_pos hacc]
      obtain ⟨m', hwr, hm'OK, c1, c2⟩ := write_riscv hm bits hb addr v hin (by omega)
      have hcells := cells_upd (m := m) (m' := m') addr (bits / 8) v hw c1 c2
      have hLf : logical s = fun a => m.cells ((wrap32 a : Nat) : Int) := funext hL
      simp only [hwr]
      have fin : ∀ o : Out σ, Eff WFp s o (.ok 0) (updBytes (logical s) addr (bits / 8) v) →
          Repr WFp o.sys m' ∧ o.sys.geo = s.geo ∧ o.sys.wt = s.wt ∧
            ∃ v, o.res = .ok v ∧ some (Except.ok (ε := AddrErr) 0) = some (.ok v) := by
        rintro o ⟨e1, e2, e3, e4, e5⟩
        refine ⟨⟨e2, hm'OK, fun a => ?_⟩, e4, e5, 0, e1, rfl⟩
        rw [e3 a, hLf, hcells a]
      by_cases hwt : s.wt = true
      · rw [if_pos hwt]
        exact fin _ (writeWT_accepted hP hs hwt bits addr v hb hw hin hv)
      · rw [if_neg hwt]
        exact fin _ (writeWB_accepted hP hs (by simpa using hwt) bits addr v hb hw hin hv)
    · rw [if_neg hacc, if_neg hacc]
      have fin : ∀ (o : Out σ) (e : Err), Eff WFp s o (.error e) (logical s) →
          Repr WFp o.sys m ∧ o.sys.geo = s.geo ∧ o.sys.wt = s.wt ∧ ∃ e, o.res = .error e := by
        rintro o e ⟨e1, e2, e3, e4, e5⟩
        exact ⟨⟨e2, hm, fun a => (e3 a).trans (hL a)⟩, e4, e5, e, e1⟩
      by_cases hwt : s.wt = true
      · rw [if_pos hwt]
        by_cases hw : inWord bits addr
        · have hin : ¬ inData addr := fun h => hacc ⟨hw, h⟩
          exact fin _ _ (writeWT_bad hP hs bits addr v hb hw hin)
        · exact fin _ _ (writeWT_crossing hP hs bits addr v hb hw)
      · rw [if_neg hwt]
        by_cases hin : inData addr
        · have hw : ¬ inWord bits addr := fun h => hacc ⟨h, hin⟩
          exact fin _ _ (writeWB_crossing hP hs bits addr v hb hw hin)
        · exact fin _ _ (writeWB_bad hP hs bits addr v hin)

/-! ### histories -/

theorem history_agrees {s : DSys σ} (hP : PolicyOK P s.geo.assoc WFp) {m : Mem} (hr : Repr WFp s m)
    (ops : List Spec.CacheAbs.Op) (ho : ∀ o, o ∈ ops → o.wf) :
    Repr WFp (runOps P s ops).1 (flatOps m ops).1 ∧ (runOps P s ops).1.geo = s.geo ∧
      (runOps P s ops).1.wt = s.wt ∧ agreesAll ops (runOps P s ops).2 (flatOps m ops).2 := by
  induction ops generalizing s m with
  | nil => exact ⟨hr, rfl, rfl, trivial⟩
  | cons o os ih =>
    obtain ⟨h1, h2, h3, h4⟩ := step_agrees hP hr o (ho o (by simp))
    obtain ⟨i1, i2, i3, i4⟩ := ih (s := (stepOp P s o).sys) (m := (flatStep m o).1) (by rw [h2]; exact hP)
      h1 (fun o' ho' => ho o' (by simp [ho']))
    exact ⟨i1, i2.trans h2, i3.trans h3, h4, i4⟩

/-! ### resident blocks under write-through -/

/-- A valid way of set `k` is what `lookup` finds for its tag. -/
theorem lookup_of_way {s : DSys σ} (hs : CInvS WFp s) {k i : Nat} {cs : CSet σ Nat} {w : Way Nat}
    (hk : s.sets[k]? = some cs) (hi : cs.ways[i]? = some w) (hv : w.valid = true) :
    lookup s.sets k w.tag = some w := by
  rw [lookup_of_get hk]
  exact (lookupWays_some_iff (hs.sets.set k cs hk).distinct _ _).mpr ⟨i, hi, hv, rfl⟩

/-- Byte `l` of word `j` of a resident way is the logical byte at `base + 4j + l`. -/
theorem logical_of_way {s : DSys σ} (hs : CInvS WFp s) {k i : Nat} {cs : CSet σ Nat} {w : Way Nat}
    (hk : s.sets[k]? = some cs) (hi : cs.ways[i]? = some w) (hv : w.valid = true) (j l : Nat)
    (hj : j < 2 ^ s.geo.blkBits) (hl : l < 4) :
    logical s ((w.base + 4 * j + l : Nat) : Int) = byteOf (wordAt w.vals j) l := by
  have hok := (hs.sets.set k cs hk).ways i w hi
  have hklt : k < 2 ^ s.geo.idxBits := by
    rw [← hs.sets.len]
    rcases Nat.lt_or_ge k s.sets.length with h | h
    · exact h
    · rw [List.getElem?_eq_none h] at hk; cases hk
  have hhi := hok.hi hv
  rw [pow_blk] at hhi
  have hwr : wrap32 ((w.base + 4 * j + l : Nat) : Int) = w.base + 4 * j + l :=
    wrap32_nat _ (by omega)
  obtain ⟨d1, d2, d3, d4⟩ := decode_in_block s.geo.idxBits s.geo.blkBits
    ((w.base + 4 * j + l : Nat) : Int) w.tag k j l hklt hj hl (by rw [hwr, hok.base hv])
  have hlk : lookup s.sets (dec s ((w.base + 4 * j + l : Nat) : Int)).setIdx
      (dec s ((w.base + 4 * j + l : Nat) : Int)).tag = some w := by
    show lookup s.sets (decode _ _ _).setIdx (decode _ _ _).tag = some w
    rw [d1, d2]; exact lookup_of_way hs hk hi hv
  rw [logical_of_some hlk]
  show byteOf (wordAt w.vals (decode _ _ _).blockOff) (decode _ _ _).byteOff = _
  rw [d3, d4]

/-- Under write-through every resident block equals its backing block: `read_word(base + 4j)` on
    the backing memory returns word `j` of the block. -/
theorem resident_backed {s : DSys σ} (hs : CInv WFp s) (hwt : s.wt = true) {k i : Nat}
    {cs : CSet σ Nat} {w : Way Nat} (hk : s.sets[k]? = some cs) (hi : cs.ways[i]? = some w)
    (hv : w.valid = true) (j : Nat) (hj : j < 2 ^ s.geo.blkBits) :
    Mem.read s.mem 32 (((w.base + 4 * j : Nat) : Int)) = some (.ok (wordAt w.vals j)) := by
  have hok := (hs.sets.set k cs hk).ways i w hi
  have hhi := hok.hi hv
  have hlo := hok.lo hv
  rw [pow_blk] at hhi
  have hwr : wrap32 ((w.base + 4 * j : Nat) : Int) = w.base + 4 * j := wrap32_nat _ (by omega)
  rw [read_word_riscv (CInvS_memOK hs.toCInvS) _ (by rw [hwr]; omega) (by rw [hwr]; omega), hwr]
  have hb : ∀ l, l < 4 → s.mem.cells ((w.base + 4 * j + l : Nat) : Int) = byteOf (wordAt w.vals j) l := by
    intro l hl
    rw [← logical_of_way hs.toCInvS hk hi hv j l hj hl, hs.wtc hwt, wrap32_nat _ (by omega)]
  have hwl : wordAt w.vals j < 4294967296 := wordAt_lt _ _ (hok.lt hv)
  unfold memWord
  rw [show w.base + 4 * j = w.base + 4 * j + 0 from rfl, hb 0 (by omega), hb 1 (by omega),
    hb 2 (by omega), hb 3 (by omega), word_eq_bytes _ hwl]

/-! ### the flat memory `flatOf s` -/

theorem logical_wrap (s : DSys σ) (a : Int) : logical s ((wrap32 a : Nat) : Int) = logical s a := by
  unfold logical; rw [decode_wrap]

theorem logical_lt {s : DSys σ} (hs : CInvS WFp s) (a : Int) : logical s a < 256 := by
  unfold logical
  split
  · exact byteOf_lt _ _
  · exact (CInvS_memOK hs).cells_lt _

/-- A read of the flat memory whose cells are the logical contents. -/
theorem read_flatOf {s : DSys σ} (hs : CInvS WFp s) (bits : Nat) (hb : widthOK bits) (addr : Int)
    (hw : inWord bits addr) (hin : inData addr) :
    Mem.read (flatOf s) bits addr =
      some (.ok (leSum riscvCfg (bits / 8) (fun i => logical s (addr + (i : Int))))) := by
  have hx := wrap32_lt addr
  have hw' : wrap32 addr % 4 + bits / 8 ≤ 4 := hw
  rw [read_riscv_cfg (m := flatOf s) rfl (fun x => logical_lt hs x) bits hb addr hin (by omega)]
  refine congrArg some (congrArg Except.ok ?_)
  apply leSum_congr
  intro i hi
  show logical s ((wrap32 addr + i : Nat) : Int) = _
  rw [← wrap32_add addr i (by omega), logical_wrap]

/-- A write to the flat memory whose cells are the logical contents. -/
theorem write_flatOf (s : DSys σ) (bits : Nat) (hb : widthOK bits) (addr : Int) (v : Nat)
    (hw : inWord bits addr) (hin : inData addr) :
    ∃ m', Mem.write (flatOf s) bits addr v = some (m', none) ∧
      ∀ a, m'.cells ((wrap32 a : Nat) : Int) = updBytes (logical s) addr (bits / 8) v a := by
  have hx := wrap32_lt addr
  have hw' : wrap32 addr % 4 + bits / 8 ≤ 4 := hw
  obtain ⟨m', e1, _, _, e4, e5⟩ := write_riscv_cfg (m := flatOf s) rfl bits hb addr v hin (by omega)
  refine ⟨m', e1, fun a => ?_⟩
  rw [cells_upd (m := flatOf s) (m' := m') addr (bits / 8) v hw e4 e5 a]
  unfold updBytes
  split
  · rfl
  · exact logical_wrap s a

/-! ### concrete geometries and a history for the non-vacuity examples -/

/-- A direct-mapped cache with two one-word sets: every second word maps to the same set, so the
    history below evicts (and under write-back writes back) repeatedly. -/
def exGeo : Geo := { idxBits := 1, blkBits := 0, assoc := 1 }
/-- A 2-way set-associative cache with 4-word blocks. -/
def exGeo2 : Geo := { idxBits := 2, blkBits := 2, assoc := 2 }

def exOps : List Spec.CacheAbs.Op :=
  [.write 32 0x4000 0x11223344, .write 8 0x4001 0xAA, .read 16 0x4000 true, .write 32 0x4008 5,
   .read 32 0x4000 true, .read 32 0x4008 false, .read 16 0x4003 true, .read 32 0x100 true,
   .write 16 (0x4002 + 4294967296) 0xBEEF, .read 32 0x4000 true, .write 32 0x4005 1,
   .write 8 0x40 1, .read 8 (-4294950911) true]


/-! ### replacement-policy states are irrelevant -/

theorem setPols_spec {s : DSys σ} (hs : SetsOK s.geo WFp s.sets) (f : Nat → σ)
    (hf : ∀ k, WFp (f k)) :
    SetsOK s.geo WFp (setPols s f).sets ∧ ∀ k t, lookup (setPols s f).sets k t = lookup s.sets k t := by
  constructor
  · constructor
    · show (s.sets.mapIdx _).length = _
      rw [List.length_mapIdx]; exact hs.len
    · intro k cs hk
      have hk' : (s.sets.mapIdx (fun k cs => ({ cs with pol := f k } : CSet σ Nat)))[k]? = some cs := hk
      rw [List.getElem?_mapIdx] at hk'
      cases hg : s.sets[k]? with
      | none => rw [hg] at hk'; cases hk'
      | some cs0 =>
        rw [hg] at hk'
        cases hk'
        have h0 := hs.set k cs0 hg
        exact ⟨h0.len, hf k, h0.ways, h0.distinct⟩
  · intro k t
    unfold lookup
    show ((s.sets.mapIdx (fun k cs => ({ cs with pol := f k } : CSet σ Nat)))[k]?).bind _ = _
    rw [List.getElem?_mapIdx]
    cases s.sets[k]? <;> rfl

/-- Overwriting all policy states by well-formed ones keeps the invariant and the logical contents. -/
theorem setPols_inv {s : DSys σ} (hs : CInv WFp s) (f : Nat → σ) (hf : ∀ k, WFp (f k)) :
    CInv WFp (setPols s f) ∧ ∀ a, logical (setPols s f) a = logical s a := by
  obtain ⟨h1, h2⟩ := setPols_spec hs.sets f hf
  exact CInv_transfer hs (setPols s f) rfl rfl rfl h1 h2

theorem history_agrees_adv {s : DSys σ} (hP : PolicyOK P s.geo.assoc WFp) {m : Mem}
    (hr : Repr WFp s m) (ops : List (Spec.CacheAbs.Op × (Nat → σ)))
    (ho : ∀ p, p ∈ ops → p.1.wf ∧ ∀ k, WFp (p.2 k)) :
    Repr WFp (runOpsAdv P s ops).1 (flatOps m (ops.map Prod.fst)).1 ∧
      agreesAll (ops.map Prod.fst) (runOpsAdv P s ops).2 (flatOps m (ops.map Prod.fst)).2 := by
  induction ops generalizing s m with
  | nil => exact ⟨hr, trivial⟩
  | cons p os ih =>
    obtain ⟨o, f⟩ := p
    obtain ⟨hs, hm, hL⟩ := hr
    obtain ⟨how, hfw⟩ := ho (o, f) (by simp)
    obtain ⟨c1, c2⟩ := setPols_inv hs f hfw
    obtain ⟨h1, h2, _, h4⟩ := step_agrees (s := setPols s f) (m := m) hP
      ⟨c1, hm, fun a => (c2 a).trans (hL a)⟩ o how
    obtain ⟨i1, i4⟩ := ih (s := (stepOp P (setPols s f) o).sys) (m := (flatStep m o).1)
      (by rw [h2]; exact hP) h1 (fun p' hp' => ho p' (by simp [hp']))
    exact ⟨i1, h4, i4⟩

end ArchSim.Lemmas.C03
