/-
C12 (memory table, program level), part 2: the word table `reprEntries m 32` of a well-formed RISC-V
memory in closed form: it never fails, its keys are the word-aligned addresses of the stored cells
(all in the data range), and the value listed at `a` is the word `memWord m a`.
-/
import ArchSim.Lemmas.C12ProgMem

namespace ArchSim.Lemmas.C12Prog
open ArchSim ArchSim.Cache ArchSim.Mem ArchSim.Spec.ByteStore ArchSim.Lemmas.C18 ArchSim.Spec.CacheAbs
open ArchSim.Lemmas.C03 ArchSim.Lemmas.C12

/-- A key of the word table is the word-aligned address of a stored cell in the data range. -/
theorem reprKeys_riscv {m : Mem} (hm : MemOK m) {a : Int} (h : a ∈ reprKeys m 32) :
    ∃ y, y ∈ m.keys ∧ a = y - y % 4 ∧ 16384 ≤ y ∧ y < 4294967296 := by
  unfold reprKeys at h
  rw [reprKeysAux_mem] at h
  rcases h with h | ⟨y, hy, e⟩
  · cases h
  · have hr := hm.wf.keys_inRange y hy
    rw [hm.cfg, riscv_inRange] at hr
    simp only [Bool.and_eq_true, decide_eq_true_eq] at hr
    refine ⟨y, hy, ?_, hr.1, hr.2⟩
    rw [e, hm.cfg]
    rfl

/-- Conversely the aligned address of every stored cell is a key of the word table. -/
theorem reprKeys_of_key {m : Mem} (hm : MemOK m) {y : Int} (hy : y ∈ m.keys) :
    y - y % 4 ∈ reprKeys m 32 := by
  unfold reprKeys
  rw [reprKeysAux_mem]
  right
  refine ⟨y, hy, ?_⟩
  rw [hm.cfg]
  rfl

/-- A table key is a word-aligned address inside the data range. -/
theorem reprKeys_range {m : Mem} (hm : MemOK m) {a : Int} (h : a ∈ reprKeys m 32) :
    16384 ≤ a ∧ a + 4 ≤ 4294967296 ∧ a % 4 = 0 ∧ ((wrap32 a : Nat) : Int) = a := by
  obtain ⟨y, _, e, h1, h2⟩ := reprKeys_riscv hm h
  have := wrap32_cast a
  omega

theorem readN_of_read {m : Mem} {bits : Nat} {a : Int} {W : Nat}
    (h : Mem.read m bits a = some (.ok W)) :
    ∃ v0, readN m a (cellsOf m.cfg bits) = .ok v0 ∧ v0 % 2 ^ bits = W := by
  unfold Mem.read at h
  split at h
  · cases h
  · cases hr : readN m a (cellsOf m.cfg bits) with
    | error e => rw [hr] at h; cases h
    | ok v0 =>
      rw [hr] at h
      refine ⟨v0, rfl, ?_⟩
      have := Option.some.inj h
      simp only [Except.map] at this
      exact Except.ok.inj this

/-- The value the word table would list at `a` (0 when the read fails — it never does on a key). -/
def rowVal (m : Mem) (a : Int) : Nat :=
  match readN m a (cellsOf m.cfg 32) with
  | .ok v => v
  | .error _ => 0

/-- The word table of a well-formed RISC-V memory never fails; it lists, for each key `a` in first-seen
    order, the word stored at `a`. -/
theorem table_eq {m : Mem} (hm : MemOK m) :
    reprEntries m 32 = .ok ((reprKeys m 32).map (fun a => (a, memWord m (wrap32 a)))) := by
  have key : ∀ a, a ∈ reprKeys m 32 →
      readN m a (cellsOf m.cfg 32) = .ok (rowVal m a) ∧ rowVal m a % 2 ^ 32 = memWord m (wrap32 a) := by
    intro a ha
    obtain ⟨r1, r2, _, r4⟩ := reprKeys_range hm ha
    have hw : Mem.read m 32 a = some (.ok (memWord m (wrap32 a))) :=
      read_word_riscv hm a (by omega) (by omega)
    obtain ⟨v0, e1, e2⟩ := readN_of_read hw
    unfold rowVal
    rw [e1]
    exact ⟨rfl, e2⟩
  rw [reprEntries_eq, foldr_entryStep_ok m 32 (rowVal m) _ (fun a ha => (key a ha).1)]
  refine congrArg Except.ok (List.map_congr_left (fun a ha => ?_))
  rw [(key a ha).2]

end ArchSim.Lemmas.C12Prog
