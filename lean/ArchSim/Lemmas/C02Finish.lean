/-
C02 (control half), part 5: `finishStep` by flush source, stall bookkeeping by mode.
-/
import ArchSim.Lemmas.C02Stage

namespace ArchSim.Pipe
open ArchSim ArchSim.Rv

/-- Stall bookkeeping of `finishStep` after pick-up and count-down. -/
def nextStall (old : Option Stall) (picked : Option Nat) (l0 l1 : Option Latch) : Option Stall :=
  let stalled1 : Option Stall := match picked with
    | none => old
    | some k =>
      match old with
      | none => some { k := k, rem := 3, p0 := setFlag l0, p1 := if k = 2 then setFlag l1 else none }
      | some o => some { o with k := k, rem := 3 }
  match stalled1 with
  | none => none
  | some st => if st.rem - 1 = 0 then none else some { st with rem := st.rem - 1 }

/-- A flush raised by EX cancels only an ID stall. -/
def dropLowStall (s : Option Stall) : Option Stall :=
  match s with
  | none => none
  | some st => if st.k < 2 then none else some st

def stallBump (picked : Option Nat) (s : St) : St :=
  if picked.isSome then { s with stalls := s.stalls + 1 } else s

def flushSt (s : St) (a : Int) : St := { s with flushes := s.flushes + 1, pc := a % 4294967296 }

theorem finishStep_flush4 (p : PSt) (s : St) (n0 n1 n2 n3 n4 : Option Latch) (a : Int)
    (h4 : latchFlush n4 = some a) :
    finishStep p s n0 n1 n2 n3 n4 =
      { p with st := flushSt (stallBump (pickStall p.stalled n1 n2) s) a,
               l0 := none, l1 := none, l2 := none, l3 := none, l4 := n4, stalled := none } := by
  unfold finishStep; simp only [h4]; rfl

theorem finishStep_flush3 (p : PSt) (s : St) (n0 n1 n2 n3 n4 : Option Latch) (a : Int)
    (h4 : latchFlush n4 = none) (h3 : latchFlush n3 = some a) :
    finishStep p s n0 n1 n2 n3 n4 =
      { p with st := flushSt (stallBump (pickStall p.stalled n1 n2) s) a,
               l0 := none, l1 := none, l2 := none, l3 := n3, l4 := n4, stalled := none } := by
  unfold finishStep; simp only [h4, h3]; rfl

theorem finishStep_flush2 (p : PSt) (s : St) (n0 n1 n2 n3 n4 : Option Latch) (a : Int)
    (h4 : latchFlush n4 = none) (h3 : latchFlush n3 = none) (h2 : latchFlush n2 = some a) :
    finishStep p s n0 n1 n2 n3 n4 =
      { p with st := flushSt (stallBump (pickStall p.stalled n1 n2) s) a,
               l0 := none, l1 := none, l2 := n2, l3 := n3, l4 := n4,
               stalled := dropLowStall (nextStall p.stalled (pickStall p.stalled n1 n2) p.l0 p.l1) } := by
  unfold finishStep; simp only [h4, h3, h2]; rfl

theorem finishStep_noflush (p : PSt) (s : St) (n0 n1 n2 n3 n4 : Option Latch)
    (h4 : latchFlush n4 = none) (h3 : latchFlush n3 = none) (h2 : latchFlush n2 = none) :
    finishStep p s n0 n1 n2 n3 n4 =
      { p with st := stallBump (pickStall p.stalled n1 n2) s,
               l0 := n0, l1 := n1, l2 := n2, l3 := n3, l4 := n4,
               stalled := nextStall p.stalled (pickStall p.stalled n1 n2) p.l0 p.l1 } := by
  unfold finishStep; simp only [h4, h3, h2]; rfl

/-! ### `pickStall` / `nextStall` by mode -/

theorem pickStall_none (n1 n2 : Option Latch) :
    pickStall none n1 n2 = if latchStall n2 then some 2 else if latchStall n1 then some 1 else none := by
  simp [pickStall]

theorem pickStall_k1 (st : Stall) (hk : st.k = 1) (n1 n2 : Option Latch) :
    pickStall (some st) n1 n2 = if latchStall n2 then some 2 else none := by
  simp [pickStall, hk]

theorem pickStall_k2 (st : Stall) (hk : st.k = 2) (n1 n2 : Option Latch) :
    pickStall (some st) n1 n2 = none := by
  simp [pickStall, hk]

@[simp] theorem nextStall_none_none (l0 l1 : Option Latch) : nextStall none none l0 l1 = none := rfl

theorem nextStall_none_some (k : Nat) (l0 l1 : Option Latch) :
    nextStall none (some k) l0 l1 =
      some { k := k, rem := 2, p0 := setFlag l0, p1 := if k = 2 then setFlag l1 else none } := rfl

theorem nextStall_some_none (st : Stall) (l0 l1 : Option Latch) :
    nextStall (some st) none l0 l1 = if st.rem - 1 = 0 then none else some { st with rem := st.rem - 1 } := rfl

end ArchSim.Pipe
