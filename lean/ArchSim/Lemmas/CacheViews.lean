/-
Helper lemmas for the cache tables of `Model/CacheViews.lean` (property theorems: `Props/C12Views.lean`).
-/
import ArchSim.Model.CacheViews

namespace ArchSim.Lemmas.CacheViews
open ArchSim ArchSim.Cache ArchSim.CacheViews

theorem blockRow_valid {α : Type} (g : Geo) (showVal : α → String) (w : Way α) (hv : w.valid = true) :
    blockRow g showVal w =
      { valid := "1", dirty := bitStr w.dirty,
        cells := w.vals.mapIdx (fun i v => (toHexStr (w.base + i * 4) 32, showVal v)),
        tag := "0x" ++ toHexStr w.tag (tagBits g) } := by
  unfold blockRow
  simp only [hv, if_true, bitStr]

theorem blockRow_invalid {α : Type} (g : Geo) (showVal : α → String) (w : Way α) (hv : w.valid = false) :
    blockRow g showVal w =
      { valid := "0", dirty := bitStr w.dirty, cells := List.replicate (2 ^ g.blkBits) ("", ""),
        tag := String.ofList (List.replicate 30 ' ') } := by
  unfold blockRow
  simp only [hv, bitStr]
  rfl

end ArchSim.Lemmas.CacheViews
