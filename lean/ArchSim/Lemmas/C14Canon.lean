/-
C14 helper lemmas, part 8: `Instr.Canon` holds for every instruction object `instantiate` builds from
a numeric-operand syntax tree the grammar can return. (The label forms are in `C14Built.lean`.)
-/
import ArchSim.Lemmas.C14Load

namespace ArchSim.Lemmas.C14
open ArchSim ArchSim.PP ArchSim.Rv ArchSim.Asm

/-- Syntax trees with numeric operands as the grammar returns them: the mnemonic is one of the
    alternative's symbols, register numbers are below 32 (all `pReg` can return), a csr number is
    not negative, an absolute `jal` target has at most 4300 digits. -/
def NumericForm : PInstr → Prop
  | .rtype mn a b c => mn ∈ rrrMn ∧ a < 32 ∧ b < 32 ∧ c < 32
  | .utype mn a _ => mn ∈ uMn ∧ a < 32
  | .mem mn a _ b => mn ∈ memIMn ++ sMn ∧ a < 32 ∧ b < 32
  | .rri mn a b _ => mn ∈ normalIMn ++ memIMn ++ bMn ++ sMn ∧ a < 32 ∧ b < 32
  | .csr mn a c b => mn ∈ csrMn ∧ a < 32 ∧ b < 32 ∧ 0 ≤ c
  | .csri mn a c _ => mn ∈ csriMn ∧ a < 32 ∧ 0 ≤ c
  | .jalImm a v => a < 32 ∧ v.natAbs < 10 ^ 4300
  | .fence _ _ => True
  | _ => False

theorem sext12_range (v : Int) : -2048 ≤ sextImm 12 v ∧ sextImm 12 v ≤ 2047 := by
  simp only [sextImm, show (2 : Int) ^ (12 - 1) = 2048 by decide]; omega

theorem sext13_range (v : Int) (h : v % 2 = 0) :
    sextImm 13 v % 2 = 0 ∧ -4096 ≤ sextImm 13 v ∧ sextImm 13 v ≤ 4094 := by
  simp only [sextImm, show (2 : Int) ^ (13 - 1) = 4096 by decide]; omega

theorem sext20_range (v : Int) : -524288 ≤ sextImm 20 v ∧ sextImm 20 v ≤ 524287 := by
  simp only [sextImm, show (2 : Int) ^ (20 - 1) = 524288 by decide]; omega

theorem ty_rrr : ∀ mn ∈ rrrMn, (Op.ofMnemonic mn).map Op.ty = some .r := by decide
theorem ty_u : ∀ mn ∈ uMn, (Op.ofMnemonic mn).map Op.ty = some .u := by decide
theorem ty_csr : ∀ mn ∈ csrMn, (Op.ofMnemonic mn).map Op.ty = some .csr := by decide
theorem ty_csri : ∀ mn ∈ csriMn, (Op.ofMnemonic mn).map Op.ty = some .csri := by decide
theorem ty_mem : ∀ mn ∈ memIMn ++ sMn,
    (Op.ofMnemonic mn).any (fun op => (op.ty == .memI || op.ty == .s || op == .jalr)) = true := by decide
theorem ty_rri : ∀ mn ∈ normalIMn ++ memIMn ++ bMn ++ sMn,
    (Op.ofMnemonic mn).any (fun op => ((op.ty == .i && op != .ecall && op != .ebreak) || op.ty == .shiftI ||
      op.ty == .memI || op.ty == .s || op.ty == .b)) = true := by decide

theorem jalr_ty : Op.jalr.ty = .i := rfl

/-- `Instr.Canon` holds for what `instantiate` (through `mkInstr`) produces from numeric forms. -/
theorem instantiate_canon (ls : Labels) (addr : Int) (k : Nat) (line : String) (pi : PInstr) (i : Instr)
    (hg : NumericForm pi) (h : instantiate ls addr k line pi = .ok i) : i.Canon addr := by
  cases pi with
  | rtype mn a b c =>
    obtain ⟨hm, ha, hb, hc⟩ := hg
    have ht := ty_rrr mn hm
    cases ho : Op.ofMnemonic mn with
    | none => simp [ho] at ht
    | some op =>
      simp only [ho, Option.map_some, Option.some.injEq] at ht
      simp only [instantiate, ho, Except.ok.injEq] at h
      subst h
      simp [Instr.Canon, mkInstr, storedImm, ht, ha, hb, hc]
  | utype mn a v =>
    obtain ⟨hm, ha⟩ := hg
    have ht := ty_u mn hm
    cases ho : Op.ofMnemonic mn with
    | none => simp [ho] at ht
    | some op =>
      simp only [ho, Option.map_some, Option.some.injEq] at ht
      simp only [instantiate, ho, Except.ok.injEq] at h
      subst h
      simp [Instr.Canon, mkInstr, storedImm, ht, ha, sext20_range v]
  | mem mn a v b =>
    obtain ⟨hm, ha, hb⟩ := hg
    have ht := ty_mem mn hm
    cases ho : Op.ofMnemonic mn with
    | none => simp [ho] at ht
    | some op =>
      simp only [ho, Option.any_some, Bool.or_eq_true, beq_iff_eq] at ht
      rcases ht with (ht | ht) | ht
      · simp only [instantiate, ho, ht, Except.ok.injEq] at h
        subst h
        have hne := ne_env_of_ty op (by rw [ht]; decide)
        simp [Instr.Canon, mkInstr, storedImm, ht, ha, hb, hne.1, hne.2, sext12_range v]
      · simp only [instantiate, ho, ht, Except.ok.injEq] at h
        subst h
        simp [Instr.Canon, mkInstr, storedImm, ht, ha, hb, sext12_range v]
      · subst ht
        simp only [instantiate, ho, jalr_ty, Except.ok.injEq] at h
        subst h
        simp [Instr.Canon, mkInstr, storedImm, jalr_ty, ha, hb, sext12_range v]
  | rri mn a b v =>
    obtain ⟨hm, ha, hb⟩ := hg
    have ht := ty_rri mn hm
    cases ho : Op.ofMnemonic mn with
    | none => simp [ho] at ht
    | some op =>
      simp only [ho, Option.any_some, Bool.or_eq_true, Bool.and_eq_true, beq_iff_eq, bne_iff_ne] at ht
      rcases ht with (((⟨⟨ht, h1⟩, h2⟩ | ht) | ht) | ht) | ht
      · simp only [instantiate, ho, ht, Except.ok.injEq] at h
        subst h
        simp [Instr.Canon, mkInstr, storedImm, ht, ha, hb, h1, h2, sext12_range v]
      · simp only [instantiate, ho, ht, Except.ok.injEq] at h
        subst h
        simp [Instr.Canon, mkInstr, storedImm, ht, ha, hb]
        omega
      · simp only [instantiate, ho, ht, Except.ok.injEq] at h
        subst h
        have hne := ne_env_of_ty op (by rw [ht]; decide)
        simp [Instr.Canon, mkInstr, storedImm, ht, ha, hb, hne.1, hne.2, sext12_range v]
      · simp only [instantiate, ho, ht, Except.ok.injEq] at h
        subst h
        simp [Instr.Canon, mkInstr, storedImm, ht, ha, hb, sext12_range v]
      · simp only [instantiate, ho, ht] at h
        by_cases hv : v % 2 = 0
        · simp only [hv, ne_eq, not_true_eq_false, if_false, Except.ok.injEq] at h
          subst h
          simp [Instr.Canon, mkInstr, storedImm, ht, ha, hb, sext13_range v hv]
        · simp [hv] at h
  | csr mn a c b =>
    obtain ⟨hm, ha, hb, hc⟩ := hg
    have ht := ty_csr mn hm
    cases ho : Op.ofMnemonic mn with
    | none => simp [ho] at ht
    | some op =>
      simp only [ho, Option.map_some, Option.some.injEq] at ht
      simp only [instantiate, ho, Except.ok.injEq] at h
      subst h
      simp [Instr.Canon, ht, ha, hb, hc]
  | csri mn a c u =>
    obtain ⟨hm, ha, hc⟩ := hg
    have ht := ty_csri mn hm
    cases ho : Op.ofMnemonic mn with
    | none => simp [ho] at ht
    | some op =>
      simp only [ho, Option.map_some, Option.some.injEq] at ht
      simp only [instantiate, ho, Except.ok.injEq] at h
      subst h
      simp [Instr.Canon, ht, ha, hc]
      omega
  | jalImm a v =>
    obtain ⟨ha, hv⟩ := hg
    simp only [instantiate] at h
    by_cases he : v % 2 = 0
    · simp only [he, ne_eq, not_true_eq_false, if_false, Except.ok.injEq] at h
      subst h
      simp [Instr.Canon, mkInstr, storedImm, Op.ty, ha, he, hv, -Nat.reducePow]
    · simp [he] at h
  | fence a b =>
    simp only [instantiate, Except.ok.injEq] at h
    subst h
    simp [Instr.Canon, Op.ty]
  | btypeLabel _ _ _ _ _ => exact absurd hg (by simp [NumericForm])
  | memPseudo _ _ _ _ => exact absurd hg (by simp [NumericForm])
  | sPseudo _ _ _ _ _ => exact absurd hg (by simp [NumericForm])
  | jalLabel _ _ _ => exact absurd hg (by simp [NumericForm])
  | li _ _ => exact absurd hg (by simp [NumericForm])
  | mv _ _ => exact absurd hg (by simp [NumericForm])

/-- The `jal` clause of `Instr.Canon` in the form "even displacement in range, `aux` the absolute
    target". -/
theorem canon_jal_of_range (addr : Int) (rd : Nat) (imm : Int) (hrd : rd < 32) (ha : addr % 2 = 0)
    (h0 : imm % 2 = 0) (h1 : -1048576 ≤ imm) (h2 : imm ≤ 1048574) (hb : (addr + imm).natAbs < 10 ^ 4300) :
    ({ op := .jal, rd := rd, imm := imm, aux := addr + imm } : Instr).Canon addr := by
  have e : addr + imm - addr = imm := by omega
  refine ⟨hrd, Nat.zero_lt_succ _, Nat.zero_lt_succ _, ?_⟩
  simp only [Op.ty, e, sext21 imm h1 (by omega), hb, and_true, true_and]
  omega

/-- All lines of the listing of a canonical program are printed lines. -/
theorem lineOk_repr (i : Instr) (addr : Int) (h : i.Canon addr) : LineOk i.repr.toList := by
  rw [repr_eq_spec]
  exact lineOk_spec i h.1 h.2.1 h.2.2.1

/-- The listing of a canonical program re-assembles to the same program. -/
theorem load_listing (s : St) (prog : List Instr) (hlen : prog.length ≤ 4096) (hc : CanonFrom 0 prog)
    (hok : ∀ i ∈ prog, LineOk i.repr.toList) :
    (load s (String.intercalate "\n" (prog.map Instr.repr))).err = none ∧
    (load s (String.intercalate "\n" (prog.map Instr.repr))).st.imem.prog = prog := by
  apply load_of_lines s _ prog ?_ hc hlen
  rw [sanitize_join, List.map_map]
  · rfl
  · intro t ht
    obtain ⟨i, hi, rfl⟩ := List.mem_map.mp ht
    exact hok i hi

end ArchSim.Lemmas.C14
