/-
C04 (spelling independence), part 15: the mnemonic stage of every alternative on a printed mnemonic followed
by ANY non-letter (a tab, a space, the end): the generalisation of the `C14Mn` lemmas.
-/
import ArchSim.Lemmas.C04SpellTok

namespace ArchSim.Lemmas.C04Spell
open ArchSim ArchSim.PP ArchSim.Rv ArchSim.Asm ArchSim.Lemmas.C14

theorem mn_caseVar (op : Op) : CaseVar (mn op) (mn op) := CaseVar.refl (mn_low op).1

theorem stage_best (L : List String) (hL : LowSyms L) (op : Op) (s : String)
    (h : isBest L (mn op) s = true) (rest : Inp) (hr : MnSep rest) :
    oneOfCaseless L (mn op ++ rest) = .ok s ((mn op).drop s.toList.length ++ rest) := by
  rw [oneOfCaseless_var L (mn op) (mn op) rest hL (mn_caseVar op) (mn_low op).2 hr, find_of_isBest L _ s h]

theorem stage_exact (L : List String) (hL : LowSyms L) (op : Op)
    (h : isBest L (mn op) op.mnemonic = true) (rest : Inp) (hr : MnSep rest) :
    oneOfCaseless L (mn op ++ rest) = .ok op.mnemonic rest := by
  rw [stage_best L hL op _ h rest hr]
  simp [mn]

theorem stage_none (L : List String) (hL : LowSyms L) (op : Op)
    (h : noMatch L (mn op) = true) (rest : Inp) (hr : MnSep rest) :
    oneOfCaseless L (mn op ++ rest) = .fail := by
  rw [oneOfCaseless_var L (mn op) (mn op) rest hL (mn_caseVar op) (mn_low op).2 hr, find_of_noMatch L _ h]

theorem stage_partI (L : List String) (hL : LowSyms L) (op : Op)
    (h : partI L (mn op) = true) (rest : Inp) (hr : MnSep rest) :
    ∃ s t, oneOfCaseless L (mn op ++ rest) = .ok s ('i' :: t) := by
  simp only [partI, List.any_eq_true, Bool.and_eq_true, beq_iff_eq] at h
  obtain ⟨s, _, hb, hh⟩ := h
  rw [List.head?_eq_some_iff] at hh
  obtain ⟨t, ht⟩ := hh
  exact ⟨s, t ++ rest, by rw [stage_best L hL op s hb rest hr, ht]; rfl⟩

theorem kwStage (kw : String) (hk : ∀ c ∈ kw.toList, isLow c = true) (op : Op) (rest : Inp) (hr : MnSep rest) :
    caselessLit kw (mn op ++ rest) =
      if kw.toList.isPrefixOf (mn op) then .ok () ((mn op).drop kw.toList.length ++ rest) else .fail :=
  caselessLit_var kw (mn op) (mn op) rest hk (mn_caseVar op) (mn_low op).2 hr

theorem kwStage_none (kw : String) (hk : ∀ c ∈ kw.toList, isLow c = true) (op : Op) (rest : Inp)
    (hr : MnSep rest) (h : kw.toList.isPrefixOf (mn op) = false) : caselessLit kw (mn op ++ rest) = .fail := by
  rw [kwStage kw hk op rest hr, h]; rfl

section fails
variable (op : Op) (rest : Inp) (hr : MnSep rest)
include hr

theorem pRType_failS (h : cls op ≠ .r) : pRType (mn op ++ rest) = .fail := by
  rcases Bool.or_eq_true _ _ |>.mp (tbl0 op h) with h1 | h2
  · simp [pRType, stage_none rrrMn low_rrr op h1 rest hr]
  · obtain ⟨s, t, hs⟩ := stage_partI rrrMn low_rrr op h2 rest hr
    simp only [pRType, hs, pReg_fail_i, bind_ok, bind_fail]

theorem pUType_failS (h : cls op ≠ .u) : pUType (mn op ++ rest) = .fail := by
  simp only [pUType, stage_none uMn low_u op (tbl1 op h) rest hr, bind_fail]

theorem pBType_failS (h : cls op ≠ .b) : pBType (mn op ++ rest) = .fail := by
  simp only [pBType, stage_none bMn low_b op (tbl2 op h) rest hr, bind_fail]

theorem pMemory_failS (h1 : cls op ≠ .load) (h2 : cls op ≠ .store) (h3 : cls op ≠ .jalr) :
    pMemory (mn op ++ rest) = .fail := by
  have := stage_none L3 low_3 op (tbl3 op h1 h2 h3) rest hr
  rw [L3] at this
  simp only [pMemory, this, bind_fail]

theorem pMemPseudo_failS (h1 : cls op ≠ .load) (h3 : cls op ≠ .jalr) : pMemPseudo (mn op ++ rest) = .fail := by
  have := stage_none L4 low_4 op (tbl4 op h1 h3) rest hr
  rw [L4] at this
  simp only [pMemPseudo, this, bind_fail]

theorem pSPseudo_failS (h : cls op ≠ .store) : pSPseudo (mn op ++ rest) = .fail := by
  simp only [pSPseudo, stage_none sMn low_s op (tbl5 op h) rest hr, bind_fail]

theorem pCsr_failS (h : cls op ≠ .csr) : pCsr (mn op ++ rest) = .fail := by
  rcases Bool.or_eq_true _ _ |>.mp (tbl6 op h) with h1 | h2
  · simp only [pCsr, stage_none csrMn low_csr op h1 rest hr, bind_fail]
  · obtain ⟨s, t, hs⟩ := stage_partI csrMn low_csr op h2 rest hr
    simp only [pCsr, hs, pReg_fail_i, bind_ok, bind_fail]

theorem pCsri_failS (h : cls op ≠ .csri) : pCsri (mn op ++ rest) = .fail := by
  simp only [pCsri, stage_none csriMn low_csri op (tbl7 op h) rest hr, bind_fail]

theorem pRegRegImm_failS (h1 : cls op ≠ .imm3) (h2 : cls op ≠ .jalr) (h3 : cls op ≠ .load)
    (h4 : cls op ≠ .store) (h5 : cls op ≠ .b) : pRegRegImm (mn op ++ rest) = .fail := by
  have := stage_none L8 low_8 op (tbl8 op h1 h2 h3 h4 h5) rest hr
  rw [L8] at this
  simp only [pRegRegImm, this, bind_fail]

theorem pFence_failS (h : cls op ≠ .fence) : pFence (mn op ++ rest) = .fail := by
  simp only [pFence, kwStage_none "fence" (by decide) op rest hr (tbl9 op h), bind_fail]

theorem pJal_failS (h1 : cls op ≠ .jal) (h2 : cls op ≠ .jalr) : pJal (mn op ++ rest) = .fail := by
  simp only [pJal, kwStage_none "jal" (by decide) op rest hr (tbl10 op h1 h2), bind_fail]

theorem pEnv_failS (h1 : cls op ≠ .ecall) (h2 : cls op ≠ .ebreak) : pEnv (mn op ++ rest) = .fail := by
  have := tbl11 op h1 h2
  simp only [pEnv, first, kwStage_none "ecall" (by decide) op rest hr this.1,
    kwStage_none "ebreak" (by decide) op rest hr this.2, map_fail]

theorem pNop_failS : (caselessLit "nop" (mn op ++ rest)).map (fun _ => Item.str "nop") = .fail := by
  simp only [kwStage_none "nop" (by decide) op rest hr (tbl12 op), map_fail]

theorem pLi_failS : pLi (mn op ++ rest) = .fail := by
  simp only [pLi, kwStage_none "li" (by decide) op rest hr (tbl13 op), bind_fail]

theorem pMv_failS : pMv (mn op ++ rest) = .fail := by
  simp only [pMv, stage_none ["mv"] low_mv op (tbl14 op) rest hr, bind_fail]

end fails

end ArchSim.Lemmas.C04Spell
