/-
End-to-end, part 4: loading with a data cache. The passes of `load` touch the data memory only through DIRECT
writes (`write … direct := true`), which act on the lower memory alone. So a load into a cached memory system
and a load into the flat memory perform the same writes, report the same error, store the same program, and
the cached system afterwards is the initial system after the preload `h` where the flat memory is `run h`.
-/
import ArchSim.Lemmas.E2EState
import ArchSim.Lemmas.C03Hist
import ArchSim.Lemmas.C05Seg

namespace ArchSim.Lemmas.E2E
open ArchSim ArchSim.Rv ArchSim.Asm ArchSim.Mem ArchSim.Cache ArchSim.Spec.ByteStore ArchSim.Lemmas.C18

/-- A way `F` of wrapping a lower memory into a memory system on which direct writes act on the lower memory
    only and report what the flat memory reports. -/
structure Carrier (F : Mem → MemSys) : Prop where
  mem : ∀ m bits a v, ((F m).write bits a v true).mem = F (applyOp m (.write bits a v))
  res : ∀ m bits a v, ((F m).write bits a v true).res = ((MemSys.flat m).write bits a v true).res

theorem carrier_flat : Carrier MemSys.flat :=
  ⟨fun m bits a v => flat_write_direct m bits a v true, fun _ _ _ _ => rfl⟩

/-- the cached memory system `ds` (policy flag `l`) with its lower memory replaced by `m` -/
def cachedOn (l : Bool) (ds : DSys Repl.Pol) (m : Mem) : MemSys := .cached l { ds with mem := m }

theorem carrier_cached (l : Bool) (ds : DSys Repl.Pol) : Carrier (cachedOn l ds) := by
  constructor
  · intro m bits a v
    simp only [cachedOn, MemSys.write, DSys.write, if_true, DSys.writeDirect, applyOp]
    cases Mem.write m bits a v with
    | none => rfl
    | some r => obtain ⟨m', e⟩ := r; cases e <;> rfl
  · intro m bits a v
    simp only [cachedOn, MemSys.write, DSys.write, if_true, DSys.writeDirect]
    cases Mem.write m bits a v with
    | none => rfl
    | some r => obtain ⟨m', e⟩ := r; cases e <;> rfl

/-- `writeSeq` on a carrier mirrors `writeSeq` on the flat memory. -/
theorem writeSeq_carrier {F : Mem → MemSys} (hF : Carrier F) (bits : Nat) (vs : List Int) :
    ∀ (m : Mem) (a : Int), ∃ m', writeSeq bits vs (F m) a = (F m', (writeSeq bits vs (.flat m) a).2) ∧
      (writeSeq bits vs (.flat m) a).1 = .flat m' := by
  induction vs with
  | nil => intro m a; exact ⟨m, rfl, rfl⟩
  | cons v vs ih =>
    intro m a
    rw [writeSeq, writeSeq]
    simp only [hF.res, hF.mem, carrier_flat.mem]
    generalize ((MemSys.flat m).write bits a ((v % (2 : Int) ^ bits).toNat) true).res = r
    rcases r with e | x
    · cases e <;> exact ⟨_, rfl, rfl⟩
    · exact ih _ _

/-- two `writeData` accumulators that differ only in how the same lower memory is wrapped -/
def DRel (F : Mem → MemSys) (oc of : DataOut) : Prop :=
  ∃ m, oc.mem = F m ∧ of.mem = .flat m ∧ oc.vars = of.vars ∧ oc.ctr = of.ctr ∧ oc.err = of.err

theorem DRel.bad {F : Mem → MemSys} {oc of : DataOut} (h : DRel F oc of) (e : AsmErr) :
    DRel F { oc with err := some e } { of with err := some e } := by
  obtain ⟨m, h1, h2, h3, h4, _⟩ := h
  exact ⟨m, h1, h2, h3, h4, rfl⟩

/-- the common shape of the three declaration cases of `writeData` -/
theorem declare_carrier {F : Mem → MemSys} (rest : List Entry)
    (ih : ∀ oc of, DRel F oc of → DRel F (writeData rest oc) (writeData rest of))
    {oc of : DataOut} (h : DRel F oc of) (name : String) (size : Int) (e0 : AsmErr)
    (rc rf : MemSys × Int × Option AsmErr) :
    (∃ m', rc = (F m', rf.2) ∧ rf.1 = .flat m') →
    DRel F
      (if (lookupVar oc.vars name).isSome then { oc with err := some e0 }
       else match rc with
        | (m, a', some e) => { oc with mem := m, ctr := a', vars := oc.vars ++ [(name, align4 oc.ctr, size)], err := some e }
        | (m, a', none) => writeData rest { oc with mem := m, ctr := a', vars := oc.vars ++ [(name, align4 oc.ctr, size)] })
      (if (lookupVar of.vars name).isSome then { of with err := some e0 }
       else match rf with
        | (m, a', some e) => { of with mem := m, ctr := a', vars := of.vars ++ [(name, align4 of.ctr, size)], err := some e }
        | (m, a', none) => writeData rest { of with mem := m, ctr := a', vars := of.vars ++ [(name, align4 of.ctr, size)] }) := by
  intro hr
  obtain ⟨m, h1, h2, h3, h4, h5⟩ := h
  obtain ⟨m', hrc, hrf⟩ := hr
  obtain ⟨mf, af, ef⟩ := rf
  simp only at hrc hrf
  subst hrc hrf
  rw [h3]
  by_cases hl : (lookupVar of.vars name).isSome = true
  · simp only [hl, if_true]
    exact ⟨m, h1, h2, rfl, h4, rfl⟩
  · simp only [hl, Bool.false_eq_true, if_false]
    cases ef with
    | some e => exact ⟨m', rfl, rfl, by simp only [h4], rfl, rfl⟩
    | none =>
      apply ih
      exact ⟨m', rfl, rfl, by simp only [h4], rfl, h5⟩

/-- `writeData` on a carrier mirrors `writeData` on the flat memory: same variables, address counter and
    error, same lower memory. -/
theorem writeData_carrier {F : Mem → MemSys} (hF : Carrier F) (es : List Entry) :
    ∀ oc of, DRel F oc of → DRel F (writeData es oc) (writeData es of) := by
  induction es with
  | nil => intro oc of h; exact h
  | cons e rest ih =>
    obtain ⟨k, line, t⟩ := e
    intro oc of h
    obtain ⟨m, h1, h2, h3, h4, h5⟩ := h
    have h' : DRel F oc of := ⟨m, h1, h2, h3, h4, h5⟩
    by_cases hl : t.lbl.isSome = true
    · simp only [writeData, hl, if_true]
      exact h'.bad _
    · cases hit : t.item with
      | varDecl name ty vals =>
        simp only [writeData, hl, Bool.false_eq_true, if_false, hit]
        have hw := writeSeq_carrier hF (if ty = "byte" then 8 else if ty = "half" then 16 else 32) vals m
          (align4 of.ctr)
        rw [← h1, ← h2] at hw
        have := declare_carrier rest ih h' name
          ((if ty = "byte" then 8 else if ty = "half" then 16 else 32 : Nat) / 8 : Nat)
          (.parser "ParserDataDuplicateException" k line) _ _ hw
        rw [h4] at this ⊢
        exact this
      | strDecl name body =>
        simp only [writeData, hl, Bool.false_eq_true, if_false, hit]
        have hw := writeSeq_carrier hF 8 (body.map (fun c => (c.toNat : Int)) ++ [0]) m (align4 of.ctr)
        rw [← h1, ← h2] at hw
        have := declare_carrier rest ih h' name 1 (.parser "ParserDataDuplicateException" k line) _ _ hw
        rw [h4] at this ⊢
        exact this
      | zeroDecl name n =>
        simp only [writeData, hl, Bool.false_eq_true, if_false, hit]
        have := declare_carrier rest ih h' name 4 (.parser "ParserDataDuplicateException" k line)
          (oc.mem, align4 of.ctr + 4 * n, none) (of.mem, align4 of.ctr + 4 * n, none) ⟨m, by rw [h1], h2⟩
        rw [h4] at this ⊢
        exact this
      | str s => simp only [writeData, hl, Bool.false_eq_true, if_false, hit]; exact h'.bad _
      | grp p => simp only [writeData, hl, Bool.false_eq_true, if_false, hit]; exact h'.bad _
      | directive d => simp only [writeData, hl, Bool.false_eq_true, if_false, hit]; exact h'.bad _

/-- The passes after segmentation on a carrier mirror those on the flat memory: same error, same resulting
    state except that the data memory is the same lower memory wrapped by the carrier. -/
theorem loadSeg_carrier {F : Mem → MemSys} (hF : Carrier F) (s0 : St) (m : Mem) (data text' : List Entry) :
    (C05.loadSeg { s0 with mem := F m } data text').err = (C05.loadSeg { s0 with mem := .flat m } data text').err ∧
    ∃ m', (C05.loadSeg { s0 with mem := F m } data text').st =
        { (C05.loadSeg { s0 with mem := .flat m } data text').st with mem := F m' } ∧
      (C05.loadSeg { s0 with mem := .flat m } data text').st.mem = .flat m' := by
  have hd := writeData_carrier hF data { mem := F m, vars := [], ctr := 16384, err := none }
    { mem := .flat m, vars := [], ctr := 16384, err := none } ⟨m, rfl, rfl, rfl, rfl, rfl⟩
  unfold C05.loadSeg
  simp only
  generalize writeData data { mem := F m, vars := [], ctr := 16384, err := none } = dc at hd
  generalize writeData data { mem := .flat m, vars := [], ctr := 16384, err := none } = df at hd
  obtain ⟨m', e1, e2, e3, e4, e5⟩ := hd
  rw [e1, e2, e3, e5]
  cases df.err with
  | some e => exact ⟨rfl, m', rfl, rfl⟩
  | none =>
    simp only
    cases expandAll df.vars (text'.map fun x => (x.1, x.2.1, x.2.2.item)) with
    | error e => exact ⟨rfl, m', rfl, rfl⟩
    | ok expanded =>
      simp only
      cases processLabels expanded (text'.filterMap fun x => x.2.2.lbl.map fun l => (x.1, l)) [] 0 with
      | error e => exact ⟨rfl, m', rfl, rfl⟩
      | ok ls =>
        simp only
        cases buildInstrs ls expanded 0 with
        | error e => exact ⟨rfl, m', rfl, rfl⟩
        | ok instrs =>
          simp only
          split <;> exact ⟨rfl, m', rfl, rfl⟩

/-- a preload changes only the lower memory -/
theorem preload_eq (ds : DSys Repl.Pol) (h : List Spec.ByteStore.Op) :
    Spec.CacheAbs.preload ds h = { ds with mem := h.foldl applyOp ds.mem } := by
  induction h generalizing ds with
  | nil => rfl
  | cons op h ih =>
    cases op with
    | write bits a v =>
      rw [Spec.CacheAbs.preload, ih]
      simp only [DSys.writeDirect, List.foldl_cons, applyOp]
      cases Mem.write ds.mem bits a v with
      | none => rfl
      | some r => obtain ⟨m', e⟩ := r; cases e <;> rfl

theorem cachedOn_run (l : Bool) (ds : DSys Repl.Pol) (hm : ds.mem = Mem.empty riscvCfg)
    (h : List Spec.ByteStore.Op) :
    cachedOn l ds (run riscvCfg h) = .cached l (Spec.CacheAbs.preload ds h) := by
  rw [preload_eq, hm]; rfl

theorem load_carrier_eq (s : St) (l : Bool) (ds : DSys Repl.Pol) (hm : s.mem = .cached l ds)
    (hc : ds.mem.cfg = riscvCfg) (text : String) :
    (load s text).err = (load { s with mem := .flat (Mem.empty riscvCfg) } text).err ∧
    ∃ m', (load s text).st = { (load { s with mem := .flat (Mem.empty riscvCfg) } text).st with
        mem := cachedOn l (ds.reset (polOps l)) m' } ∧
      (load { s with mem := .flat (Mem.empty riscvCfg) } text).st.mem = .flat m' := by
  have hds : (ds.reset (polOps l)).mem = Mem.empty riscvCfg := by
    simp only [DSys.reset, Mem.reset, hc]
  have hr1 : C05.loadReset s =
      { C05.loadReset s with mem := cachedOn l (ds.reset (polOps l)) (Mem.empty riscvCfg) } := by
    simp only [C05.loadReset, hm, MemSys.reset, cachedOn, ← hds]
  have hr2 : C05.loadReset { s with mem := .flat (Mem.empty riscvCfg) } =
      { C05.loadReset s with mem := .flat (Mem.empty riscvCfg) } := rfl
  rw [C05.load_factors, C05.load_factors, hr2, hr1]
  cases tokenize (sanitize text) with
  | error e => exact ⟨rfl, Mem.empty riscvCfg, rfl, rfl⟩
  | ok toks =>
    simp only
    cases segment toks with
    | error e => exact ⟨rfl, Mem.empty riscvCfg, rfl, rfl⟩
    | ok p =>
      obtain ⟨data, text'⟩ := p
      exact loadSeg_carrier (carrier_cached l _) (C05.loadReset s) (Mem.empty riscvCfg) data text'

/-- LOAD WITH A DATA CACHE. Let `s` have a cached data memory system `ds` over a RISC-V lower memory, and let
    `sF` be `s` with the flat empty data memory instead. Loading the same text into both reports the same
    error, and there is a write history `h` (the `.data` preload) such that the flat load leaves the memory
    `run riscvCfg h` and the cached load leaves EXACTLY the same state except that its data memory is the reset
    cache system after the preload `h`. -/
theorem load_cached (s : St) (l : Bool) (ds : DSys Repl.Pol) (hm : s.mem = .cached l ds)
    (hc : ds.mem.cfg = riscvCfg) (text : String) :
    (load s text).err = (load { s with mem := .flat (Mem.empty riscvCfg) } text).err ∧
    ∃ h : List Spec.ByteStore.Op,
      (load { s with mem := .flat (Mem.empty riscvCfg) } text).st.mem = .flat (run riscvCfg h) ∧
      (load s text).st = { (load { s with mem := .flat (Mem.empty riscvCfg) } text).st with
        mem := .cached l (Spec.CacheAbs.preload (ds.reset (polOps l)) h) } := by
  obtain ⟨h, hh⟩ := load_mem_flat { s with mem := .flat (Mem.empty riscvCfg) } text _ rfl rfl
  have hds : (ds.reset (polOps l)).mem = Mem.empty riscvCfg := by
    simp only [DSys.reset, Mem.reset, hc]
  obtain ⟨he, m', h1, h2⟩ := load_carrier_eq s l ds hm hc text
  refine ⟨he, h, hh, ?_⟩
  rw [hh] at h2
  cases h2
  rw [h1, cachedOn_run l _ hds h]

end ArchSim.Lemmas.E2E
