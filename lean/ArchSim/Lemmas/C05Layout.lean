/-
C05 helper lemmas, part 4: the data pass `writeData` — the specification of the layout (addresses,
variable table, stored cells) and the proof that the pass realises it.
-/
import ArchSim.Lemmas.C05Write

namespace ArchSim.Lemmas.C05
open ArchSim ArchSim.Asm ArchSim.Rv ArchSim.Mem ArchSim.Lemmas.C18
open ArchSim.Spec.ByteStore (cellVal cellOk leSum)

/-! ### specification vocabulary -/

/-- element width in bits of a `.byte` / `.half` / `.word` declaration (the model's inline `if`) -/
def tyBits (ty : String) : Nat := if ty = "byte" then 8 else if ty = "half" then 16 else 32

theorem tyBits_cases (ty : String) : tyBits ty = 8 ∨ tyBits ty = 16 ∨ tyBits ty = 32 := by
  simp only [tyBits]; split
  · exact Or.inl rfl
  · split
    · exact Or.inr (Or.inl rfl)
    · exact Or.inr (Or.inr rfl)

/-- a data-segment item is a declaration (`.zero` with a non-negative count, as the grammar gives) -/
def isDecl : Item → Bool
  | .varDecl .. => true
  | .strDecl .. => true
  | .zeroDecl _ n => decide (0 ≤ n)
  | _ => false

def declName : Item → String
  | .varDecl n _ _ => n
  | .strDecl n _ => n
  | .zeroDecl n _ => n
  | _ => ""

/-- the element size recorded in the variable table -/
def declSize : Item → Int
  | .varDecl _ ty _ => ((tyBits ty / 8 : Nat) : Int)
  | .strDecl .. => 1
  | .zeroDecl .. => 4
  | _ => 0

/-- the number of bytes the declaration occupies (what the address counter advances by) -/
def declLen : Item → Int
  | .varDecl _ ty vals => (vals.length : Int) * ((tyBits ty / 8 : Nat) : Int)
  | .strDecl _ body => (body.length : Int) + 1
  | .zeroDecl _ n => 4 * n
  | _ => 0

theorem declLen_nonneg (it : Item) (h : isDecl it = true) : 0 ≤ declLen it := by
  cases it with
  | varDecl n ty vals => exact Int.mul_nonneg (by omega) (by omega)
  | strDecl n body => simp only [declLen]; omega
  | zeroDecl n k => simp only [isDecl, decide_eq_true_eq] at h; simp only [declLen]; omega
  | str s => cases h
  | grp p => cases h
  | directive d => cases h

/-- address of declaration `k` when the counter stands at `ctr` before declaration 0 -/
def addrOf : List Item → Int → Nat → Int
  | [], ctr, _ => align4 ctr
  | _ :: _, ctr, 0 => align4 ctr
  | it :: rest, ctr, k + 1 => addrOf rest (align4 ctr + declLen it) k

/-- the counter after all declarations -/
def layoutEnd : List Item → Int → Int
  | [], ctr => ctr
  | it :: rest, ctr => layoutEnd rest (align4 ctr + declLen it)

/-- the variable table the pass should produce -/
def layoutVars : List Item → Int → Vars
  | [], _ => []
  | it :: rest, ctr => (declName it, align4 ctr, declSize it) :: layoutVars rest (align4 ctr + declLen it)

/-- what the memory holds for a declaration placed at `a`: the element bytes, and zeros in the padding
    up to the next 4-byte boundary (for `.zero`: zeros throughout) -/
def DeclAt (m : Mem) (it : Item) (a : Int) : Prop :=
  (match it with
   | .varDecl _ ty vals =>
     ∀ (i : Nat) (hi : i < vals.length) (j : Nat), j < tyBits ty / 8 →
       m.cells (a + (i : Int) * ((tyBits ty / 8 : Nat) : Int) + (j : Int)) =
         cellVal riscvCfg ((vals[i] % (2 : Int) ^ tyBits ty).toNat) j
   | .strDecl _ body =>
     (∀ (i : Nat) (hi : i < body.length), m.cells (a + (i : Int)) = body[i].toNat % 256) ∧
       m.cells (a + (body.length : Int)) = 0
   | .zeroDecl _ n => ∀ x, a ≤ x → x < a + 4 * n → m.cells x = 0
   | _ => True) ∧
  (∀ x, a + declLen it ≤ x → x < align4 (a + declLen it) → m.cells x = 0)

def LaidOut (m : Mem) : List Item → Int → Prop
  | [], _ => True
  | it :: rest, ctr => DeclAt m it (align4 ctr) ∧ LaidOut m rest (align4 ctr + declLen it)

theorem align4_spec (a : Int) : a ≤ align4 a ∧ align4 a < a + 4 ∧ align4 a % 4 = 0 := by
  simp only [align4]; split <;> omega

theorem align4_of_aligned (a : Int) (h : a % 4 = 0) : align4 a = a := by
  simp only [align4]; split <;> omega

/-! ### facts about the specification -/

theorem layoutEnd_ge (items : List Item) (ctr : Int) (h : ∀ it ∈ items, isDecl it = true) :
    ctr ≤ layoutEnd items ctr := by
  induction items generalizing ctr with
  | nil => exact Int.le_refl _
  | cons it rest ih =>
    simp only [layoutEnd]
    have h1 := ih (align4 ctr + declLen it) (fun x hx => h x (List.mem_cons_of_mem _ hx))
    have h2 := declLen_nonneg it (h it (List.mem_cons_self ..))
    have := (align4_spec ctr).1
    omega

theorem addrOf_zero (items : List Item) (ctr : Int) : addrOf items ctr 0 = align4 ctr := by
  cases items <;> rfl

theorem addrOf_succ (items : List Item) (ctr : Int) (k : Nat) (hk : k + 1 < items.length) :
    addrOf items ctr (k + 1) = align4 (addrOf items ctr k + declLen (items[k]'(by omega))) := by
  induction items generalizing ctr k with
  | nil => simp at hk
  | cons it rest ih =>
    cases k with
    | zero =>
      simp only [addrOf, List.getElem_cons_zero]
      exact addrOf_zero rest _
    | succ k' =>
      simp only [List.length_cons] at hk
      simp only [addrOf, List.getElem_cons_succ]
      exact ih _ k' (by omega)

theorem addrOf_aligned (items : List Item) (ctr : Int) (k : Nat) : addrOf items ctr k % 4 = 0 := by
  induction items generalizing ctr k with
  | nil => exact (align4_spec ctr).2.2
  | cons it rest ih =>
    cases k with
    | zero => exact (align4_spec ctr).2.2
    | succ k' => exact ih _ k'

theorem layoutVars_length (items : List Item) (ctr : Int) : (layoutVars items ctr).length = items.length := by
  induction items generalizing ctr with
  | nil => rfl
  | cons it rest ih => simp [layoutVars, ih]

theorem layoutVars_get (items : List Item) (ctr : Int) (k : Nat) (hk : k < items.length) :
    (layoutVars items ctr)[k]'(by rw [layoutVars_length]; exact hk) =
      (declName items[k], addrOf items ctr k, declSize items[k]) := by
  induction items generalizing ctr k with
  | nil => simp at hk
  | cons it rest ih =>
    cases k with
    | zero => simp [layoutVars, addrOf]
    | succ k' =>
      simp only [List.length_cons] at hk
      simp only [layoutVars, List.getElem_cons_succ, addrOf]
      exact ih _ k' (by omega)

theorem layoutVars_names (items : List Item) (ctr : Int) :
    (layoutVars items ctr).map (·.1) = items.map declName := by
  induction items generalizing ctr with
  | nil => rfl
  | cons it rest ih => simp [layoutVars, ih]

theorem LaidOut_get (m : Mem) (items : List Item) (ctr : Int) (h : LaidOut m items ctr) (k : Nat)
    (hk : k < items.length) : DeclAt m items[k] (addrOf items ctr k) := by
  induction items generalizing ctr k with
  | nil => simp at hk
  | cons it rest ih =>
    cases k with
    | zero => exact h.1
    | succ k' =>
      simp only [List.length_cons] at hk
      simp only [List.getElem_cons_succ, addrOf]
      exact ih _ h.2 k' (by omega)

/-! ### the variable table as a lookup -/

theorem lookupVar_none_iff (vs : Vars) (n : String) : lookupVar vs n = none ↔ n ∉ vs.map (·.1) := by
  simp only [lookupVar, Option.map_eq_none_iff, List.find?_eq_none, List.mem_map, not_exists, not_and]
  constructor
  · intro h p hp e; exact h p hp (by simp [e])
  · intro h p hp e; exact h p hp (by simpa using e)

theorem lookupVar_append_none (vs ws : Vars) (n : String) (h : lookupVar vs n = none) :
    lookupVar (vs ++ ws) n = lookupVar ws n := by
  simp only [lookupVar, Option.map_eq_none_iff] at h
  simp only [lookupVar, List.find?_append, h, Option.none_or]

theorem lookupVar_append_some (vs ws : Vars) (n : String) (r : Int × Int) (h : lookupVar vs n = some r) :
    lookupVar (vs ++ ws) n = some r := by
  simp only [lookupVar, Option.map_eq_some_iff] at h
  obtain ⟨p, hp, rfl⟩ := h
  simp only [lookupVar, List.find?_append, hp, Option.some_or, Option.map_some]

theorem lookupVar_cons_self (vs : Vars) (n : String) (r : Int × Int) : lookupVar ((n, r) :: vs) n = some r := by
  simp [lookupVar]

theorem lookupVar_cons_ne (vs : Vars) (n n' : String) (r : Int × Int) (h : n' ≠ n) :
    lookupVar ((n', r) :: vs) n = lookupVar vs n := by
  simp [lookupVar, h]

/-- with pairwise distinct names, looking up the name of declaration `k` gives its address and size -/
theorem lookupVar_layoutVars (items : List Item) (ctr : Int) (hn : (items.map declName).Nodup) (k : Nat)
    (hk : k < items.length) :
    lookupVar (layoutVars items ctr) (declName items[k]) = some (addrOf items ctr k, declSize items[k]) := by
  induction items generalizing ctr k with
  | nil => simp at hk
  | cons it rest ih =>
    simp only [List.map_cons, List.nodup_cons] at hn
    cases k with
    | zero => simp only [layoutVars, List.getElem_cons_zero, addrOf, lookupVar_cons_self]
    | succ k' =>
      simp only [List.length_cons] at hk
      simp only [layoutVars, List.getElem_cons_succ, addrOf]
      rw [lookupVar_cons_ne]
      · exact ih _ hn.2 k' (by omega)
      · intro e
        apply hn.1
        rw [e]
        exact List.mem_map_of_mem (List.getElem_mem _)

end ArchSim.Lemmas.C05
