/-
C13 (RISC-V part) — `load_program` lemmas: a load resets both memories and then only writes the
data memory *directly* (bypassing the cache) and replaces the program, so the state after any load
resets to the same state as before it; hence a load after earlier loads (successful or failed) is
the load alone. `DirectReach m m'`: `m'` is obtained from `m` by direct writes.
-/
import ArchSim.Model.Sim
namespace ArchSim.Asm
open ArchSim ArchSim.Rv

inductive DirectReach : MemSys → MemSys → Prop
  | refl (m : MemSys) : DirectReach m m
  | step {m m' : MemSys} (bits : Nat) (a : Int) (v : Nat) :
      DirectReach m m' → DirectReach m (m'.write bits a v true).mem

theorem DirectReach.trans {a b c : MemSys} (h1 : DirectReach a b) (h2 : DirectReach b c) : DirectReach a c := by
  induction h2 with
  | refl => exact h1
  | step bits x v _ ih => exact .step bits x v ih

theorem writeSeq_reach (bits : Nat) (vs : List Int) (m : MemSys) (a : Int) :
    DirectReach m (writeSeq bits vs m a).1 := by
  induction vs generalizing m a with
  | nil => exact .refl _
  | cons v vs ih =>
    rw [writeSeq]
    have h1 : DirectReach m (m.write bits a ((v % (2 : Int) ^ bits).toNat) true).mem := .step _ _ _ (.refl _)
    split
    · exact h1
    · exact h1
    · exact h1.trans (ih _ _)

theorem writeData_reach (es : List Entry) (o : DataOut) : DirectReach o.mem (writeData es o).mem := by
  fun_induction writeData es o
  case case1 => exact .refl _
  case case2 => exact .refl _
  case case6 => exact .refl _
  case case3 k line t rest o h declare name ty vals hx bits ih =>
    have hf := writeSeq_reach bits vals o.mem (align4 o.ctr)
    simp only [declare]
    split
    · exact .refl _
    · split
      · next m a' e heq => rw [heq] at hf; exact hf
      · next m a' heq => rw [heq] at hf; exact hf.trans (ih name _ m a')
  case case4 k line t rest o h declare name body hx ih =>
    have hf := writeSeq_reach 8 (List.map (fun c => (c.toNat : Int)) body ++ [0]) o.mem (align4 o.ctr)
    simp only [declare]
    split
    · exact .refl _
    · split
      · next m a' e heq => rw [heq] at hf; exact hf
      · next m a' heq => rw [heq] at hf; exact hf.trans (ih name _ m a')
  case case5 k line t rest o h declare name n hx ih =>
    simp only [declare]
    split
    · exact .refl _
    · exact ih name _ _ _

/-! ### a direct write followed by a reset is a reset -/

theorem writeCell_cfg {m m' : Mem.Mem} {a : Int} {v : Nat} (h : Mem.writeCell m a v = .ok m') : m'.cfg = m.cfg := by
  unfold Mem.writeCell at h
  dsimp only at h
  split at h
  · cases h; rfl
  · cases h

theorem writeNFrom_cfg (m : Mem.Mem) (a : Int) (n i v : Nat) : (Mem.writeNFrom m a n i v).1.cfg = m.cfg := by
  induction n generalizing m i v with
  | zero => rfl
  | succ n ih =>
    rw [Mem.writeNFrom]
    split
    · rfl
    · next m' h => rw [ih, writeCell_cfg h]

theorem Mem_write_cfg {m m' : Mem.Mem} {bits : Nat} {a : Int} {v : Nat} {e}
    (h : Mem.write m bits a v = some (m', e)) : m'.cfg = m.cfg := by
  unfold Mem.write at h
  split at h
  · cases h
  · simp only [Option.some.injEq] at h
    have := writeNFrom_cfg m a (Mem.cellsOf m.cfg bits) 0 v
    unfold Mem.writeN at h
    rw [h] at this
    exact this

theorem Mem_write_reset {m m' : Mem.Mem} {bits : Nat} {a : Int} {v : Nat} {e}
    (h : Mem.write m bits a v = some (m', e)) : m'.reset = m.reset := by
  simp [Mem.Mem.reset, Mem_write_cfg h]

/-- What `DSys.writeDirect` can change: only the lower memory, and its configuration stays. -/
theorem writeDirect_sys {σ : Type} (s : Cache.DSys σ) (bits : Nat) (a : Int) (v : Nat) :
    ∃ m', m'.cfg = s.mem.cfg ∧ (s.writeDirect bits a v).sys = { s with mem := m' } := by
  unfold Cache.DSys.writeDirect
  split
  · exact ⟨s.mem, rfl, rfl⟩
  · next m' e h => exact ⟨m', Mem_write_cfg h, rfl⟩
  · next m' h => exact ⟨m', Mem_write_cfg h, rfl⟩

theorem write_direct_reset (m : MemSys) (bits : Nat) (a : Int) (v : Nat) :
    (m.write bits a v true).mem.reset = m.reset := by
  cases m with
  | flat m =>
    unfold MemSys.write
    dsimp only
    split
    · rfl
    · next m' e h => simp [MemSys.reset, Mem_write_reset h]
    · next m' h => simp [MemSys.reset, Mem_write_reset h]
  | cached l s =>
    obtain ⟨m', hc, hs⟩ := writeDirect_sys s bits a v
    simp only [MemSys.write, Cache.DSys.write, if_true, hs, MemSys.reset, Cache.DSys.reset, Mem.Mem.reset, hc]

theorem DirectReach.reset_eq {m m' : MemSys} (h : DirectReach m m') : m'.reset = m.reset := by
  induction h with
  | refl => rfl
  | step bits a v _ ih => rw [write_direct_reset, ih]

theorem MemSys.reset_reset (m : MemSys) : m.reset.reset = m.reset := by
  cases m <;> rfl

theorem ICache.reset_reset (c : ICache) : c.reset.reset = c.reset := rfl

theorem icache_map_reset_reset (c : Option ICache) :
    (c.map ICache.reset).map ICache.reset = c.map ICache.reset := by
  cases c <;> rfl

/-! ### `load` = parser passes on the reset state -/

/-- The state `load_program` hands to the parser: both memories reset (instruction-cache counters
    included), everything else as it was. -/
def resetSt (s : St) : St :=
  { s with mem := s.mem.reset, imem := { prog := [], cache := s.imem.cache.map ICache.reset } }

/-- The parser passes of `Asm.load` on an already reset state (a copy of the body of `Asm.load`;
    `load_eq_loadFrom` is `rfl`). -/
def loadFrom (s0 : St) (text : String) : LoadOut :=
  match tokenize (sanitize text) with
  | .error e => { st := s0, err := some e }
  | .ok toks =>
    match segment toks with
    | .error e => { st := s0, err := some e }
    | .ok (data, text') =>
      let pending : List (Nat × String) := text'.filterMap fun (k, _, t) => t.lbl.map fun l => (k, l)
      let tentries : List TEntry := text'.map fun (k, line, t) => (k, line, t.item)
      let d := writeData data { mem := s0.mem, vars := [], ctr := 16384, err := none }
      let s1 := { s0 with mem := d.mem }
      match d.err with
      | some e => { st := s1, err := some e }
      | none =>
        match expandAll d.vars tentries with
        | .error e => { st := s1, err := some e }
        | .ok expanded =>
          match processLabels expanded pending [] 0 with
          | .error e => { st := s1, err := some e }
          | .ok ls =>
            match buildInstrs ls expanded 0 with
            | .error e => { st := s1, err := some e }
            | .ok instrs =>
              if instrs.length > 4096 then
                { st := { s1 with imem := { s1.imem with prog := instrs.take 4096 } }, err := some (.memAddr 16384) }
              else { st := { s1 with imem := { s1.imem with prog := instrs } }, err := none }

theorem load_eq_loadFrom (s : St) (text : String) : load s text = loadFrom (resetSt s) text := rfl

theorem resetSt_resetSt (s : St) : resetSt (resetSt s) = resetSt s := by
  simp only [resetSt, MemSys.reset_reset, icache_map_reset_reset]

/-- Shape of the result of the passes: the data memory is reached by direct writes, the program is
    replaced, nothing else changes. -/
theorem loadFrom_shape (s0 : St) (text : String) :
    ∃ m prog, DirectReach s0.mem m ∧
      (loadFrom s0 text).st = { s0 with mem := m, imem := { s0.imem with prog := prog } } := by
  unfold loadFrom
  split
  · exact ⟨s0.mem, s0.imem.prog, .refl _, rfl⟩
  · split
    · exact ⟨s0.mem, s0.imem.prog, .refl _, rfl⟩
    · next data text' _ =>
      have hd := writeData_reach data { mem := s0.mem, vars := [], ctr := 16384, err := none }
      dsimp only
      split
      · exact ⟨_, s0.imem.prog, hd, rfl⟩
      · split
        · exact ⟨_, s0.imem.prog, hd, rfl⟩
        · split
          · exact ⟨_, s0.imem.prog, hd, rfl⟩
          · split
            · exact ⟨_, s0.imem.prog, hd, rfl⟩
            · split
              · exact ⟨_, _, hd, rfl⟩
              · exact ⟨_, _, hd, rfl⟩

theorem resetSt_of_shape {s0 : St} {m : MemSys} (prog : List Instr) (h : DirectReach s0.mem m) :
    resetSt { s0 with mem := m, imem := { s0.imem with prog := prog } } = resetSt s0 := by
  simp only [resetSt, h.reset_eq]

/-- The state after a load resets to the same state as the state before it. -/
theorem resetSt_load (s : St) (text : String) : resetSt (load s text).st = resetSt s := by
  rw [load_eq_loadFrom]
  obtain ⟨m, prog, hr, he⟩ := loadFrom_shape (resetSt s) text
  rw [he, resetSt_of_shape prog hr, resetSt_resetSt]

/-- `load` depends on the state only through its reset. -/
theorem load_congr {s s' : St} (h : resetSt s = resetSt s') (text : String) : load s text = load s' text := by
  rw [load_eq_loadFrom, load_eq_loadFrom, h]

/-- A load after a load (successful or failed) is the load alone. -/
theorem load_load (s : St) (t1 t2 : String) : load (load s t1).st t2 = load s t2 :=
  load_congr (resetSt_load s t1) t2

/-- Frame: a load changes only the two memories. -/
theorem load_frame (s : St) (text : String) :
    let s' := (load s text).st
    s'.regs = s.regs ∧ s'.pc = s.pc ∧ s'.output = s.output ∧ s'.exitCode = s.exitCode ∧
    s'.cycles = s.cycles ∧ s'.instrs = s.instrs ∧ s'.branches = s.branches ∧ s'.procs = s.procs ∧
    s'.stalls = s.stalls ∧ s'.flushes = s.flushes ∧
    s'.imem.cache = s.imem.cache.map ICache.reset ∧ DirectReach s.mem.reset s'.mem := by
  intro s'
  obtain ⟨m, prog, hr, he⟩ := loadFrom_shape (resetSt s) text
  have : s' = _ := he
  rw [this]
  exact ⟨rfl, rfl, rfl, rfl, rfl, rfl, rfl, rfl, rfl, rfl, rfl, hr⟩

/-! ### data-cache counters: kept by direct writes and by `reset` -/

/-- hits, accesses and last-hit flag of the data cache (none for a flat memory) -/
def dCounters : MemSys → Option (Nat × Nat × Bool)
  | .flat _ => none
  | .cached _ s => some (s.hits, s.accesses, s.lastHit)

theorem dCounters_reset (m : MemSys) : dCounters m.reset = dCounters m := by
  cases m <;> rfl

theorem dCounters_write_direct (m : MemSys) (bits : Nat) (a : Int) (v : Nat) :
    dCounters (m.write bits a v true).mem = dCounters m := by
  cases m with
  | flat m =>
    unfold MemSys.write
    dsimp only
    split <;> rfl
  | cached l s =>
    obtain ⟨m', _, hs⟩ := writeDirect_sys s bits a v
    simp only [MemSys.write, Cache.DSys.write, if_true, hs, dCounters]

theorem DirectReach.dCounters_eq {m m' : MemSys} (h : DirectReach m m') : dCounters m' = dCounters m := by
  induction h with
  | refl => rfl
  | step bits a v _ ih => rw [dCounters_write_direct, ih]

/-- `load_program` leaves the data-cache counters as they were (unlike the instruction-cache
    counters, which `ICache.reset` clears). -/
theorem load_dCounters (s : St) (text : String) : dCounters (load s text).st.mem = dCounters s.mem := by
  have h := (load_frame s text).2.2.2.2.2.2.2.2.2.2.2
  rw [h.dCounters_eq, dCounters_reset]

end ArchSim.Asm

namespace ArchSim.Sim
open ArchSim

/-- The simulation after a sequence of `load_program` calls (each may succeed or fail). -/
def loads (s : RSim) (ts : List String) : RSim := ts.foldl (fun s t => (load s t).1) s

theorem loads_nil (s : RSim) : loads s [] = s := rfl
theorem loads_cons (s : RSim) (t : String) (ts : List String) : loads s (t :: ts) = loads (load s t).1 ts := rfl

theorem load_load (s : RSim) (t1 t2 : String) : load (load s t1).1 t2 = load s t2 := by
  simp only [load, Asm.load_load]

theorem load_loads (s : RSim) (ts : List String) (t : String) : load (loads s ts) t = load s t := by
  induction ts generalizing s with
  | nil => rfl
  | cons t1 ts ih => rw [loads_cons, ih, load_load]

/-- Loads never touch mode, `has_started`, hazard flag, latches or stall bookkeeping. -/
theorem loads_frame (s : RSim) (ts : List String) :
    (loads s ts).five = s.five ∧ (loads s ts).started = s.started ∧ (loads s ts).p.hazard = s.p.hazard ∧
    (loads s ts).p.l0 = s.p.l0 ∧ (loads s ts).p.l1 = s.p.l1 ∧ (loads s ts).p.l2 = s.p.l2 ∧
    (loads s ts).p.l3 = s.p.l3 ∧ (loads s ts).p.l4 = s.p.l4 ∧ (loads s ts).p.stalled = s.p.stalled := by
  induction ts generalizing s with
  | nil => exact ⟨rfl, rfl, rfl, rfl, rfl, rfl, rfl, rfl, rfl⟩
  | cons t ts ih => rw [loads_cons]; exact ih _

end ArchSim.Sim
