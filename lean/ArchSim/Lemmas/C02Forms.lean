/-
C02 (control half), part 12: the abstraction of the next state, by the stall mode of the next state.
-/
import ArchSim.Lemmas.C02Adv

namespace ArchSim.Pipe
open ArchSim ArchSim.Rv

/-- Completion of the three oldest entries (inputs of WB, MEM, EX). -/
def mid (p : PSt) : Comp := (older p).bind (fun s => cEX s (exInput p))

/-- What the abstraction of the next state has to be in a cycle without flush. -/
def target (p : PSt) : Comp :=
  ((mid p).bind (fun s => cID s (idInput p))).bind (fun s => cID s (ifOut p).2)

/-- Next state unstalled. -/
theorem formU {pre : List Int} (p : PSt) (s' : St) (n0 n2 n3 n4 : Option Latch)
    (hA : CSimL pre ((cWB s' n3 none).bind (fun s => cMEM s n2 none)) (mid p))
    (hid : cEX (mid p).st (idOut p) = cID (mid p).st (idInput p)) :
    CSimL pre (absC { p with st := s', l0 := n0, l1 := idOut p, l2 := n2, l3 := n3, l4 := n4, stalled := none })
      (((mid p).bind (fun s => cID s (idInput p))).bind (fun s => cID s n0)) := by
  have ho : absC { p with st := s', l0 := n0, l1 := idOut p, l2 := n2, l3 := n3, l4 := n4, stalled := none } =
      (((cWB s' n3 none).bind (fun s => cMEM s n2 none)).bind (fun s => cEX s (idOut p))).bind
        (fun s => cID s n0) := by
    simp [absC, memInput, exInput, idInput, ifEntry]
  rw [ho]
  apply bind_sim
  · apply bind_sim2 hA
    intro _
    rw [← hid]
    exact cEX_sim hA.2 _
  · intro s t hst; exact cID_sim hst _

end ArchSim.Pipe

namespace ArchSim.Pipe
open ArchSim ArchSim.Rv

/-- Next state under an ID stall. -/
theorem formK1 {pre : List Int} (p : PSt) (s' : St) (n0 n1 n2 n3 n4 : Option Latch) (st' : Stall) (hk : st'.k = 1)
    (hA : CSimL pre ((cWB s' n3 none).bind (fun s => cMEM s n2 none)) (mid p))
    (hid : ∀ s, cID s st'.p0 = cID s (idInput p)) :
    CSimL pre (absC { p with st := s', l0 := n0, l1 := n1, l2 := n2, l3 := n3, l4 := n4, stalled := some st' })
      (((mid p).bind (fun s => cID s (idInput p))).bind (fun s => cID s n0)) := by
  have ho : absC { p with st := s', l0 := n0, l1 := n1, l2 := n2, l3 := n3, l4 := n4, stalled := some st' } =
      (((cWB s' n3 none).bind (fun s => cMEM s n2 none)).bind (fun s => cID s st'.p0)).bind
        (fun s => cID s n0) := by
    simp [absC, memInput, exInput, idInput, ifEntry, hk]
  rw [ho]
  apply bind_sim
  · apply bind_sim hA
    intro s t hst
    rw [hid]
    exact cID_sim hst _
  · intro s t hst; exact cID_sim hst _

/-- Next state under an EX stall (ECALL drain). -/
theorem formK2 {pre : List Int} (p : PSt) (s' : St) (n0 n1 n2 n3 n4 : Option Latch) (st' : Stall) (hk : st'.k = 2)
    (hA : CSimL pre (cWB s' n3 none) (older p))
    (hex : ∀ s, cEX s st'.p1 = cEX s (exInput p))
    (hid : ∀ s, cID s st'.p0 = cID s (idInput p)) :
    CSimL pre (absC { p with st := s', l0 := n0, l1 := n1, l2 := n2, l3 := n3, l4 := n4, stalled := some st' })
      (((mid p).bind (fun s => cID s (idInput p))).bind (fun s => cID s n0)) := by
  have ho : absC { p with st := s', l0 := n0, l1 := n1, l2 := n2, l3 := n3, l4 := n4, stalled := some st' } =
      (((cWB s' n3 none).bind (fun s => cEX s st'.p1)).bind (fun s => cID s st'.p0)).bind
        (fun s => cID s n0) := by
    simp [absC, memInput, exInput, idInput, ifEntry, hk]
  rw [ho]
  unfold mid
  apply bind_sim
  · apply bind_sim
    · apply bind_sim hA
      intro s t hst
      rw [hex]
      exact cEX_sim hst _
    · intro s t hst
      rw [hid]
      exact cID_sim hst _
  · intro s t hst; exact cID_sim hst _

end ArchSim.Pipe

namespace ArchSim.Pipe
open ArchSim ArchSim.Rv

theorem exOut_stall_of (p : PSt) (d : Latch) (hd : exInput p = some d) (hop : d.instr.op = .ecall)
    (hw : ecallMustWait d p.l2 p.l3 = true) : latchStall (exOut p).latch = true := by
  unfold exOut; rw [hd, exStage_ecall_wait _ d _ _ hop hw]; rfl

theorem exOut_nostall_of (p : PSt) (hex : (exOut p).fault = none) (d : Latch) (hd : exInput p = some d)
    (hw : ecallMustWait d p.l2 p.l3 = false) : latchStall (exOut p).latch = false := by
  cases h : latchStall (exOut p).latch with
  | false => rfl
  | true =>
    obtain ⟨d', hd', _, hw'⟩ := exOut_stall p hex h
    rw [hd] at hd'; cases hd'; rw [hw] at hw'; cases hw'

/-- Unstalled cycle without flush. -/
theorem abs_noflush_unstalled (p : PSt) (hI : PInv p) (hz : RawFree p) (hex : (exOut p).fault = none)
    (hme : (memOut p).fault = none) (h4 : latchFlush (wbOut p).2 = none)
    (h3 : latchFlush (memOut p).latch = none) (h2 : latchFlush (exOut p).latch = none)
    (hs : p.stalled = none) (s' : St) (hs' : Sim s' (memOut p).st) (n4 : Option Latch) :
    CSimL (latchLog p.l3)
      (absC { p with st := s', l0 := (ifOut p).2, l1 := idOut p, l2 := (exOut p).latch,
                     l3 := (memOut p).latch, l4 := n4,
                     stalled := nextStall p.stalled (pickStall p.stalled (idOut p) (exOut p).latch) p.l0 p.l1 })
      (target p) := by
  have hid : idInput p = p.l0 := by simp [idInput, hs]
  have hei : exInput p = p.l1 := by simp [exInput, hs]
  rw [hs, pickStall_none]
  unfold target
  by_cases hst2 : latchStall (exOut p).latch = true
  · simp only [hst2, if_true, nextStall_none_some]
    apply formK2 _ _ _ _ _ _ _ _ rfl (ex_wait p hI hex hme h4 h3 hst2 s' hs')
    · intro s; rw [hei]; exact cEX_setFlag s _
    · intro s; rw [hid]; exact cID_setFlag s _
  · have hst2' : latchStall (exOut p).latch = false := by simpa using hst2
    simp only [hst2', Bool.false_eq_true, if_false]
    have hA := ex_advance p hI hex hme h4 h3 h2 hst2' s' hs'
    by_cases hst1 : latchStall (idOut p) = true
    · simp only [hst1, if_true, nextStall_none_some]
      apply formK1 _ _ _ _ _ _ _ _ rfl hA
      intro s; rw [hid]; exact cID_setFlag s _
    · have hst1' : latchStall (idOut p) = false := by simpa using hst1
      simp only [hst1', Bool.false_eq_true, if_false, nextStall_none_none]
      apply formU _ _ _ _ _ _ hA
      rw [hid]
      exact id_advance_unstalled p hI hz hs hst1'

end ArchSim.Pipe

namespace ArchSim.Pipe
open ArchSim ArchSim.Rv

/-- Stalled cycle without flush. -/
theorem abs_noflush_stalled (p : PSt) (hI : PInv p) (hex : (exOut p).fault = none)
    (hme : (memOut p).fault = none) (h4 : latchFlush (wbOut p).2 = none)
    (h3 : latchFlush (memOut p).latch = none) (h2 : latchFlush (exOut p).latch = none)
    (st : Stall) (hs : p.stalled = some st) (s' : St) (hs' : Sim s' (memOut p).st) (n4 : Option Latch) :
    CSimL (latchLog p.l3)
      (absC { p with st := s', l0 := (ifOut p).2, l1 := idOut p, l2 := (exOut p).latch,
                     l3 := (memOut p).latch, l4 := n4,
                     stalled := nextStall p.stalled (pickStall p.stalled (idOut p) (exOut p).latch) p.l0 p.l1 })
      (target p) := by
  have hsh := hI.shape
  unfold Shape at hsh; rw [hs] at hsh
  have hid : idInput p = st.p0 := by simp [idInput, hs]
  rw [hs]
  unfold target
  rcases hsh with ⟨hk, hrem, _⟩ | ⟨hk, hrem, ⟨e, hp1, hfl, hop⟩, _, _⟩
  · -- ID stall
    have hei : exInput p = none := by simp [exInput, hs, hk]
    have hn2 : (exOut p).latch = none := exOut_latch_of_none p hei
    have hns : latchStall (exOut p).latch = false := by rw [hn2]; rfl
    have hA := ex_advance p hI hex hme h4 h3 h2 hns s' hs'
    rw [pickStall_k1 st hk, hns]
    simp only [Bool.false_eq_true, if_false, nextStall_some_none]
    rcases hrem with hr | ⟨hr, hl2⟩
    · simp only [hr]
      refine formK1 p s' (ifOut p).2 (idOut p) (exOut p).latch (memOut p).latch n4 _ hk hA ?_
      intro s; rw [hid]
    · simp only [hr]
      apply formU _ _ _ _ _ _ hA
      apply id_advance_final p hI
      · intro r; rw [memInput_none_of_l2 p hl2]; exact writes_none r
      · intro r; rw [hei]; exact writes_none r
  · -- EX stall
    have hei : exInput p = some e := by simp [exInput, hs, hk, hp1]
    have hmi : memInput p = none := by simp [memInput, hs, hk]
    rw [pickStall_k2 st hk, nextStall_some_none]
    rcases hrem with ⟨hr, hl3⟩ | ⟨hr, hl3⟩
    · simp only [hr]
      have hw : ecallMustWait e p.l2 p.l3 = true := by simp [ecallMustWait, hfl, hl3]
      have hst2 := exOut_stall_of p e hei hop hw
      refine formK2 p s' (ifOut p).2 (idOut p) (exOut p).latch (memOut p).latch n4 _ hk (ex_wait p hI hex hme h4 h3 hst2 s' hs') ?_ ?_
      · intro s; rw [hei, hp1]
      · intro s; rw [hid]
    · simp only [hr]
      have hw : ecallMustWait e p.l2 p.l3 = false := by simp [ecallMustWait, hfl, hl3]
      have hns := exOut_nostall_of p hex e hei hw
      have hA := ex_advance p hI hex hme h4 h3 h2 hns s' hs'
      apply formU _ _ _ _ _ _ hA
      apply id_advance_final p hI
      · intro r; rw [hmi]; exact writes_none r
      · intro r; rw [hei, ← hp1]
        have hS := hI.okS st hs
        apply ecall_not_writes _ hS.2.1 hS.2.2.1
        intro x hx; rw [hp1] at hx; cases hx; exact hop

end ArchSim.Pipe

namespace ArchSim.Pipe
open ArchSim ArchSim.Rv

theorem target_stalled (p : PSt) (st : Stall) (hs : p.stalled = some st) : target p = absC p := by
  unfold target; rw [absC_eq, ifOut_stalled p st hs]; simp [ifEntry, hs, mid]

theorem target_unstalled (p : PSt) (hs : p.stalled = none) :
    target p = (absC p).bind (fun s => cID s (ifOut p).2) := by
  unfold target; rw [absC_eq]; simp [ifEntry, hs, mid]

/-- Cycle without flush: the abstraction of the next state. -/
theorem abs_noflush (p : PSt) (hI : PInv p) (hz : RawFree p) (hex : (exOut p).fault = none)
    (hme : (memOut p).fault = none) (h4 : latchFlush (wbOut p).2 = none)
    (h3 : latchFlush (memOut p).latch = none) (h2 : latchFlush (exOut p).latch = none) :
    CSimL (latchLog p.l3) (absC (finishStep p (memOut p).st (ifOut p).2 (idOut p) (exOut p).latch (memOut p).latch (wbOut p).2))
      (target p) := by
  rw [finishStep_noflush _ _ _ _ _ _ _ h4 h3 h2]
  rcases Option.eq_none_or_eq_some p.stalled with hs | ⟨st, hs⟩
  · exact abs_noflush_unstalled p hI hz hex hme h4 h3 h2 hs _ (stallBump_sim _ _) _
  · exact abs_noflush_stalled p hI hex hme h4 h3 h2 st hs _ (stallBump_sim _ _) _

end ArchSim.Pipe
