/-
C12 helper lemmas: what an eviction does to the backing memory (extracted from `putBlock_spec`),
and the backing memory along histories.
-/
import ArchSim.Lemmas.C03Hist

namespace ArchSim.Lemmas.C12
open ArchSim ArchSim.Cache ArchSim.Mem ArchSim.Spec.ByteStore ArchSim.Lemmas.C18 ArchSim.Spec.CacheAbs
open ArchSim.Lemmas.C03

variable {σ : Type} {P : PolicyOps σ} {WFp : σ → Prop}

theorem not_resident_iff (s : DSys σ) (a : Int) :
    resident s a = false ↔ lookup s.sets (dec s a).setIdx (dec s a).tag = none := by
  unfold resident
  cases lookup s.sets (dec s a).setIdx (dec s a).tag <;> simp

/-- Outside resident blocks the backing memory holds the logical contents (any write policy). -/
theorem backing_of_not_resident (s : DSys σ) (a : Int) (h : resident s a = false) :
    s.mem.cells ((wrap32 a : Nat) : Int) = logical s a :=
  (logical_of_none ((not_resident_iff s a).mp h)).symm

/-- Write-back: when installing a block displaces a valid block `(b, ws)`, writing `ws` back at `b`
    succeeds, and in the resulting state (new sets, written-back memory) the invariant's structural
    part holds, every address outside the newly installed block keeps its logical value, and every
    address that is no longer resident has its logical value in the backing memory. -/
theorem displaced_written_back {s : DSys σ} (hP : PolicyOK P s.geo.assoc WFp) (hs : CInv WFp s)
    (hwt : s.wt = false) (addr : Int) (hin : inData addr) (vals : List Nat)
    (hlen : vals.length = 2 ^ s.geo.blkBits) (hlt : ∀ x, x ∈ vals → x < 4294967296)
    (sets2 : List (CSet σ Nat)) (hit : Bool) (b : Nat) (ws : List Nat)
    (hwb : writeBlock P s.sets (dec s addr) vals = .ok (sets2, hit, some (b, ws))) :
    ∃ m', writeBlockToMem s.mem b ws 0 = (m', none) ∧
      CInvS WFp { s with sets := sets2, mem := m' } ∧
      (∀ a, ¬ ((dec s a).setIdx = (dec s addr).setIdx ∧ (dec s a).tag = (dec s addr).tag) →
        logical { s with sets := sets2, mem := m' } a = logical s a) ∧
      (∀ a, resident { s with sets := sets2, mem := m' } a = false →
        m'.cells ((wrap32 a : Nat) : Int) = logical s a) := by
  obtain ⟨sets2', displaced, m', hwb', _, _, hdsome, hall⟩ := putBlock_spec hP hs addr hin vals hlen hlt
  rw [hwb] at hwb'
  have e1 : sets2 = sets2' := by injection hwb' with h; injection h
  have e2 : some (b, ws) = displaced := by
    injection hwb' with h; injection h with _ h; injection h
  subst e1
  obtain ⟨c1, c2, c3⟩ := hall { s with sets := sets2, mem := m' } rfl rfl (by
    show m' = if s.wt = true then s.mem else m'
    rw [hwt]; rfl)
  refine ⟨m', hdsome b ws e2.symm, c1, ?_, ?_⟩
  · intro a hne
    rw [c3 a, if_neg hne]
  · intro a hr
    have hl := (not_resident_iff _ a).mp hr
    have hne : ¬ ((dec s a).setIdx = (dec s addr).setIdx ∧ (dec s a).tag = (dec s addr).tag) := by
      intro h
      obtain ⟨w, hw, _⟩ := c2
      have hl' : lookup sets2 (dec s a).setIdx (dec s a).tag = none := hl
      have hw' : lookup sets2 (dec s addr).setIdx (dec s addr).tag = some w := hw
      rw [h.1, h.2, hw'] at hl'
      cases hl'
    have := c3 a
    rw [if_neg hne, logical_of_none hl] at this
    exact this

end ArchSim.Lemmas.C12
