/-
Helper lemmas for the LRU half of C10.
-/
import ArchSim.Model.Repl
import ArchSim.Spec.LruAge

namespace ArchSim.Lemmas.C10
open ArchSim.Repl ArchSim.Spec.Lru

/-! ### `lastOcc` really is the position of the last occurrence -/

theorem lastOcc_cons_of_some {h : List Nat} {i t : Nat} (x : Nat) (hl : lastOcc h i = some t) :
    lastOcc (x :: h) i = some (t + 1) := by
  simp [lastOcc, hl]

theorem lastOcc_cons_of_none {h : List Nat} {i : Nat} (x : Nat) (hl : lastOcc h i = none) :
    lastOcc (x :: h) i = if x = i then some 0 else none := by
  simp [lastOcc, hl]

/-- Induction on lists from the right end. -/
theorem snoc_induction {α : Type} {P : List α → Prop} (nil : P [])
    (snoc : ∀ h x, P h → P (h ++ [x])) (h : List α) : P h := by
  have : ∀ r : List α, P r.reverse := by
    intro r
    induction r with
    | nil => exact nil
    | cons x r ih => simpa using snoc _ x ih
  simpa using this h.reverse

theorem lastOcc_eq_none {h : List Nat} {i : Nat} : lastOcc h i = none ↔ i ∉ h := by
  induction h with
  | nil => simp [lastOcc]
  | cons x h ih =>
    cases hl : lastOcc h i with
    | some t =>
      have : ¬ (i ∉ h) := fun hc => by rw [ih.mpr hc] at hl; cases hl
      simp only [lastOcc_cons_of_some x hl, List.mem_cons, not_or]
      simp [this]
    | none =>
      have := ih.mp hl
      rw [lastOcc_cons_of_none x hl]
      by_cases hx : x = i
      · simp [hx]
      · simp [hx, this, Ne.symm hx]

theorem lastOcc_lt {h : List Nat} {i t : Nat} (ht : lastOcc h i = some t) : t < h.length := by
  induction h generalizing t with
  | nil => simp [lastOcc] at ht
  | cons x h ih =>
    cases hl : lastOcc h i with
    | some t' =>
      rw [lastOcc_cons_of_some x hl] at ht; cases ht
      have := ih hl
      simp
      omega
    | none =>
      rw [lastOcc_cons_of_none x hl] at ht
      split at ht
      · cases ht; simp
      · cases ht

theorem lastOcc_snoc (h : List Nat) (x i : Nat) :
    lastOcc (h ++ [x]) i = if x = i then some h.length else lastOcc h i := by
  induction h with
  | nil => simp [lastOcc]
  | cons y h ih =>
    simp only [List.cons_append, lastOcc, ih, List.length_cons]
    by_cases hx : x = i
    · simp [hx]
    · simp [hx]

/-- Characterisation: `lastOcc h i = some t` iff `h[t] = i` and `i` does not occur after `t`. -/
theorem lastOcc_eq_some {h : List Nat} {i t : Nat} :
    lastOcc h i = some t ↔ h[t]? = some i ∧ ∀ t', t < t' → h[t']? ≠ some i := by
  induction h generalizing t with
  | nil => simp [lastOcc]
  | cons x h ih =>
    cases hl : lastOcc h i with
    | some t0 =>
      rw [lastOcc_cons_of_some x hl]
      have h0 := ih.mp hl
      constructor
      · intro e; cases e
        refine ⟨by simpa using h0.1, ?_⟩
        intro t' ht'
        obtain ⟨u, rfl⟩ : ∃ u, t' = u + 1 := ⟨t' - 1, by omega⟩
        simpa using h0.2 u (by omega)
      · rintro ⟨h1, h2⟩
        cases t with
        | zero =>
          have := h2 (t0 + 1) (by omega)
          simp [h0.1] at this
        | succ u =>
          have hu : lastOcc h i = some u := ih.mpr ⟨by simpa using h1, fun t' ht' => by
            simpa using h2 (t' + 1) (by omega)⟩
          rw [hl] at hu; cases hu; rfl
    | none =>
      rw [lastOcc_cons_of_none x hl]
      have hni := lastOcc_eq_none.mp hl
      constructor
      · intro e
        split at e
        · cases e
          rename_i hx
          refine ⟨by simp [hx], ?_⟩
          intro t' ht' hc
          obtain ⟨u, rfl⟩ : ∃ u, t' = u + 1 := ⟨t' - 1, by omega⟩
          simp at hc
          exact hni (List.mem_of_getElem? hc)
        · cases e
      · rintro ⟨h1, h2⟩
        cases t with
        | zero =>
          simp at h1; simp [h1]
        | succ u =>
          simp at h1
          exact absurd (List.mem_of_getElem? h1) hni

/-! ### `age` after one more access -/

theorem age_snoc_self (assoc : Nat) (h : List Nat) (i : Nat) :
    age assoc (h ++ [i]) i = assoc + h.length := by
  simp [age, lastOcc_snoc]

theorem age_snoc_ne (assoc : Nat) (h : List Nat) {x i : Nat} (hx : x ≠ i) :
    age assoc (h ++ [x]) i = age assoc h i := by
  simp [age, lastOcc_snoc, hx]

theorem age_lt (assoc : Nat) (h : List Nat) {i : Nat} (hi : i < assoc) :
    age assoc h i < assoc + h.length := by
  unfold age
  cases hl : lastOcc h i with
  | none => simp; omega
  | some t => have := lastOcc_lt hl; simp; omega

theorem age_injective (assoc : Nat) (h : List Nat) {i j : Nat} (hi : i < assoc) (hj : j < assoc)
    (e : age assoc h i = age assoc h j) : i = j := by
  unfold age at e
  cases hli : lastOcc h i with
  | none =>
    cases hlj : lastOcc h j with
    | none => simpa [hli, hlj] using e
    | some t => simp [hli, hlj] at e; omega
  | some t =>
    cases hlj : lastOcc h j with
    | none => simp [hli, hlj] at e; omega
    | some u =>
      simp [hli, hlj] at e
      subst e
      have a := (lastOcc_eq_some.mp hli).1
      have b := (lastOcc_eq_some.mp hlj).1
      rw [a] at b; cases b; rfl

/-! ### The run -/

theorem lruRunFrom_snoc (s h : List Nat) (x : Nat) :
    lruRunFrom s (h ++ [x]) = (lruRunFrom s h).bind (fun s' => lruAccess s' x) := by
  simp [lruRunFrom, List.foldlM_append]

theorem lruRun_snoc (assoc : Nat) (h : List Nat) (x : Nat) :
    lruRun assoc (h ++ [x]) = (lruRun assoc h).bind (fun s' => lruAccess s' x) :=
  lruRunFrom_snoc _ _ _

theorem lruRunFrom_cons (s h : List Nat) (x : Nat) :
    lruRunFrom s (x :: h) = (lruAccess s x).bind (fun s' => lruRunFrom s' h) := by
  simp [lruRunFrom]

/-- One access keeps the list a permutation of `range assoc`. -/
theorem lruAccess_perm {assoc : Nat} {l : List Nat} {i : Nat}
    (hl : l.Perm (List.range assoc)) (hi : i < assoc) :
    ∃ l', lruAccess l i = some l' ∧ l'.Perm (List.range assoc) := by
  have hmem : i ∈ l := hl.mem_iff.mpr (List.mem_range.mpr hi)
  refine ⟨l.erase i ++ [i], by simp [lruAccess, hmem], ?_⟩
  refine List.Perm.trans ?_ hl
  refine List.Perm.trans List.perm_append_comm ?_
  simpa using (List.perm_cons_erase hmem).symm

/-- The combined invariant of a run: permutation of `range assoc`, strictly sorted by `age`. -/
theorem lruRun_inv (assoc : Nat) (h : List Nat) (hh : ∀ x ∈ h, x < assoc) :
    ∃ s, lruRun assoc h = some s ∧ s.Perm (List.range assoc) ∧
      s.Pairwise (fun a b => age assoc h a < age assoc h b) := by
  induction h using snoc_induction with
  | nil =>
    refine ⟨List.range assoc, rfl, List.Perm.refl _, ?_⟩
    simp only [age, lastOcc]
    exact List.pairwise_lt_range
  | snoc h x ih =>
    obtain ⟨s, hs, hp, hsort⟩ := ih (fun y hy => hh y (by simp [hy]))
    have hx : x < assoc := hh x (by simp)
    obtain ⟨s', hs', hp'⟩ := lruAccess_perm hp hx
    refine ⟨s', by simp [lruRun_snoc, hs, hs'], hp', ?_⟩
    have hmem : x ∈ s := hp.mem_iff.mpr (List.mem_range.mpr hx)
    have hnd : s.Nodup := hp.nodup_iff.mpr List.nodup_range
    simp only [lruAccess, hmem, if_true, Option.some.injEq] at hs'
    subst hs'
    rw [List.pairwise_append]
    refine ⟨?_, by simp, ?_⟩
    · have h1 := List.Pairwise.sublist (List.erase_sublist (a := x)) hsort
      refine List.Pairwise.imp_of_mem ?_ h1
      intro a b ha hb hab
      have hax := ((List.Nodup.mem_erase_iff hnd).mp ha).1
      have hbx := ((List.Nodup.mem_erase_iff hnd).mp hb).1
      rw [age_snoc_ne assoc h (Ne.symm hax), age_snoc_ne assoc h (Ne.symm hbx)]
      exact hab
    · intro a ha b hb
      have hb' : b = x := by simpa using hb
      subst hb'
      have hax := (List.Nodup.mem_erase_iff hnd).mp ha
      have ha' : a < assoc := List.mem_range.mp (hp.mem_iff.mp hax.2)
      rw [age_snoc_ne assoc h (Ne.symm hax.1), age_snoc_self]
      exact age_lt assoc h ha'

/-! ### Consequences of the invariant -/

/-- In a list strictly sorted by a key, an earlier position means a smaller key. -/
theorem pairwise_idxOf_lt {f : Nat → Nat} {s : List Nat}
    (hs : s.Pairwise (fun a b => f a < f b)) {i j : Nat} (hi : i ∈ s) (hj : j ∈ s)
    (hij : s.idxOf i < s.idxOf j) : f i < f j := by
  have hil : s.idxOf i < s.length := List.idxOf_lt_length_iff.mpr hi
  have hjl : s.idxOf j < s.length := List.idxOf_lt_length_iff.mpr hj
  have := (List.pairwise_iff_getElem.mp hs) (s.idxOf i) (s.idxOf j) hil hjl hij
  simpa [List.getElem_idxOf] using this

theorem idxOf_lt_iff_key_lt {f : Nat → Nat} {s : List Nat}
    (hs : s.Pairwise (fun a b => f a < f b)) {i j : Nat} (hi : i ∈ s) (hj : j ∈ s) :
    s.idxOf i < s.idxOf j ↔ f i < f j := by
  refine ⟨pairwise_idxOf_lt hs hi hj, ?_⟩
  intro hf
  rcases Nat.lt_trichotomy (s.idxOf i) (s.idxOf j) with h | h | h
  · exact h
  · have hil : s.idxOf i < s.length := List.idxOf_lt_length_iff.mpr hi
    have hjl : s.idxOf j < s.length := List.idxOf_lt_length_iff.mpr hj
    have e : s[s.idxOf i] = s[s.idxOf j] := by simp only [h]
    rw [List.getElem_idxOf, List.getElem_idxOf] at e
    subst e; omega
  · have := pairwise_idxOf_lt hs hj hi h
    omega

theorem lruRepr_getElem? (s : List Nat) {i : Nat} (hi : i < s.length) :
    (lruRepr s)[i]? = some (s.idxOf i) := by
  simp [lruRepr, hi]

theorem lruRepr_length (s : List Nat) : (lruRepr s).length = s.length := by
  simp [lruRepr]

theorem map_idxOf_self {s : List Nat} (hnd : s.Nodup) :
    s.map (fun x => s.idxOf x) = List.range s.length := by
  apply List.ext_getElem
  · simp
  · intro k h1 h2
    simp [List.Nodup.idxOf_getElem hnd]

theorem lruRepr_perm {assoc : Nat} {s : List Nat} (hp : s.Perm (List.range assoc)) :
    (lruRepr s).Perm (List.range assoc) := by
  have hnd : s.Nodup := hp.nodup_iff.mpr List.nodup_range
  have hlen : s.length = assoc := by simpa using hp.length_eq
  have h1 : (lruRepr s).Perm (s.map (fun x => s.idxOf x)) := by
    unfold lruRepr
    rw [hlen]
    exact (List.Perm.map _ hp).symm
  rw [map_idxOf_self hnd, hlen] at h1
  exact h1

/-- Accessing way `i` twice in a row = accessing it once (any duplicate-free state). -/
theorem lruAccess_idem {l l' : List Nat} {i : Nat} (hn : l.Nodup) (h : lruAccess l i = some l') :
    lruAccess l' i = some l' := by
  unfold lruAccess at h
  split at h
  · cases h
    have hni : i ∉ l.erase i := fun hc => ((List.Nodup.mem_erase_iff hn).mp hc).1 rfl
    simp [lruAccess, List.erase_append_right _ hni]
  · cases h

/-- The head of a list that is a permutation of `range assoc` and strictly sorted by a key is the
    unique minimiser of the key among `0 … assoc-1`. -/
theorem head_minimises {f : Nat → Nat} {assoc : Nat} {s : List Nat}
    (hp : s.Perm (List.range assoc)) (hs : s.Pairwise (fun a b => f a < f b)) (ha : 0 < assoc) :
    ∃ v, lruVictim s = some v ∧ v < assoc ∧ s.idxOf v = 0 ∧
      ∀ j, j < assoc → j ≠ v → f v < f j := by
  cases s with
  | nil => have := hp.length_eq; simp at this; omega
  | cons v r =>
    refine ⟨v, rfl, List.mem_range.mp (hp.mem_iff.mp (by simp)), by simp, ?_⟩
    intro j hj hne
    have hm : j ∈ v :: r := hp.mem_iff.mpr (List.mem_range.mpr hj)
    rcases List.mem_cons.mp hm with h | h
    · exact absurd h hne
    · exact (List.pairwise_cons.mp hs).1 j h

theorem lruRepr_consistent {f : Nat → Nat} {assoc : Nat} {s : List Nat}
    (hp : s.Perm (List.range assoc)) (hs : s.Pairwise (fun a b => f a < f b))
    {i j : Nat} (hi : i < assoc) (hj : j < assoc) :
    ∃ ri rj, (lruRepr s)[i]? = some ri ∧ (lruRepr s)[j]? = some rj ∧ (ri < rj ↔ f i < f j) := by
  have hlen : s.length = assoc := by simpa using hp.length_eq
  refine ⟨s.idxOf i, s.idxOf j, lruRepr_getElem? s (hlen ▸ hi), lruRepr_getElem? s (hlen ▸ hj), ?_⟩
  exact idxOf_lt_iff_key_lt hs (hp.mem_iff.mpr (List.mem_range.mpr hi))
    (hp.mem_iff.mpr (List.mem_range.mpr hj))

end ArchSim.Lemmas.C10
