/-
C04 (spelling independence), part 12: an injective renumbering of the naturals that sends one duplicate-free
list of line numbers to another of the same length.
-/
namespace ArchSim.Lemmas.C04Spell

/-- `ks1[j] ↦ ks2[j]`, everything else is moved out of the way by `big` -/
def remap : List Nat → List Nat → Nat → Nat → Nat
  | k1 :: ks1, k2 :: ks2, big, a => if a = k1 then k2 else remap ks1 ks2 big a
  | _, _, big, a => a + big

theorem remap_map (ks1 ks2 : List Nat) (big : Nat) (hlen : ks1.length = ks2.length) (hnd : ks1.Nodup) :
    ks1.map (remap ks1 ks2 big) = ks2 := by
  induction ks1 generalizing ks2 with
  | nil =>
    cases ks2 with
    | nil => rfl
    | cons _ _ => simp at hlen
  | cons k1 ks1 ih =>
    cases ks2 with
    | nil => simp at hlen
    | cons k2 ks2 =>
      have hnd' := List.nodup_cons.mp hnd
      simp only [List.map_cons, remap, if_true, List.cons.injEq, true_and]
      rw [← ih ks2 (by simpa using hlen) hnd'.2]
      apply List.map_congr_left
      intro a ha
      have : a ≠ k1 := fun e => hnd'.1 (e ▸ ha)
      simp [this, ih ks2 (by simpa using hlen) hnd'.2]

theorem remap_not_mem (ks1 ks2 : List Nat) (big a : Nat) (hlen : ks1.length = ks2.length) (ha : a ∉ ks1) :
    remap ks1 ks2 big a = a + big := by
  induction ks1 generalizing ks2 with
  | nil => cases ks2 <;> rfl
  | cons k1 ks1 ih =>
    cases ks2 with
    | nil => rfl
    | cons k2 ks2 =>
      have h1 : a ≠ k1 := fun e => ha (by simp [e])
      simp only [remap, h1, if_false]
      exact ih ks2 (by simpa using hlen) (fun hm => ha (by simp [hm]))

theorem remap_mem (ks1 ks2 : List Nat) (big a : Nat) (hlen : ks1.length = ks2.length) (ha : a ∈ ks1) :
    remap ks1 ks2 big a ∈ ks2 := by
  induction ks1 generalizing ks2 with
  | nil => cases ha
  | cons k1 ks1 ih =>
    cases ks2 with
    | nil => simp at hlen
    | cons k2 ks2 =>
      simp only [remap]
      split
      · simp
      · next h =>
        have : a ∈ ks1 := by
          rcases List.mem_cons.mp ha with e | hm
          · exact absurd e h
          · exact hm
        exact List.mem_cons_of_mem _ (ih ks2 (by simpa using hlen) this)

theorem remap_inj_mem (ks1 ks2 : List Nat) (big a b : Nat) (hlen : ks1.length = ks2.length) (hnd : ks2.Nodup)
    (ha : a ∈ ks1) (hb : b ∈ ks1) (h : remap ks1 ks2 big a = remap ks1 ks2 big b) : a = b := by
  induction ks1 generalizing ks2 with
  | nil => cases ha
  | cons k1 ks1 ih =>
    cases ks2 with
    | nil => simp at hlen
    | cons k2 ks2 =>
      have hnd' := List.nodup_cons.mp hnd
      have hl : ks1.length = ks2.length := by simpa using hlen
      simp only [remap] at h
      by_cases ea : a = k1
      · by_cases eb : b = k1
        · rw [ea, eb]
        · exfalso
          simp only [ea, if_true, eb, if_false] at h
          have : b ∈ ks1 := by
            rcases List.mem_cons.mp hb with e | hm
            · exact absurd e eb
            · exact hm
          exact hnd'.1 (h ▸ remap_mem ks1 ks2 big b hl this)
      · have ha' : a ∈ ks1 := by
          rcases List.mem_cons.mp ha with e | hm
          · exact absurd e ea
          · exact hm
        by_cases eb : b = k1
        · exfalso
          simp only [ea, if_false, eb, if_true] at h
          exact hnd'.1 (h ▸ remap_mem ks1 ks2 big a hl ha')
        · have hb' : b ∈ ks1 := by
            rcases List.mem_cons.mp hb with e | hm
            · exact absurd e eb
            · exact hm
          simp only [ea, eb, if_false] at h
          exact ih ks2 hl hnd'.2 ha' hb' h

/-- The renumbering is injective when every target number is below `big`. -/
theorem remap_injective (ks1 ks2 : List Nat) (big : Nat) (hlen : ks1.length = ks2.length) (hnd : ks2.Nodup)
    (hbig : ∀ k ∈ ks2, k < big) (a b : Nat) (h : remap ks1 ks2 big a = remap ks1 ks2 big b) : a = b := by
  by_cases ha : a ∈ ks1
  · by_cases hb : b ∈ ks1
    · exact remap_inj_mem ks1 ks2 big a b hlen hnd ha hb h
    · rw [remap_not_mem ks1 ks2 big b hlen hb] at h
      have := hbig _ (remap_mem ks1 ks2 big a hlen ha)
      omega
  · by_cases hb : b ∈ ks1
    · rw [remap_not_mem ks1 ks2 big a hlen ha] at h
      have := hbig _ (remap_mem ks1 ks2 big b hlen hb)
      omega
    · rw [remap_not_mem ks1 ks2 big a hlen ha, remap_not_mem ks1 ks2 big b hlen hb] at h
      omega

theorem le_sum_of_mem (l : List Nat) (k : Nat) (h : k ∈ l) : k ≤ l.sum := by
  induction l with
  | nil => cases h
  | cons a l ih =>
    simp only [List.sum_cons]
    rcases List.mem_cons.mp h with e | hm
    · omega
    · have := ih hm; omega

theorem nodup_of_sorted (l : List Nat) (h : l.Pairwise (· < ·)) : l.Nodup :=
  List.Pairwise.imp (fun hab => Nat.ne_of_lt hab) h

end ArchSim.Lemmas.C04Spell
