/-
C09 helper lemmas, part 3: the data-cache systems.  The invariant `Inv` of reachable `DSys` states,
explicit forms of `readBlockSys` / `writeWB` / `writeWT` on a hit and on a miss, and the
commutation of every accepted operation with the erasure to the tag-only reference cache.
-/
import ArchSim.Lemmas.C09Set
import ArchSim.Lemmas.C09Mem

namespace ArchSim.Lemmas.C09
open ArchSim ArchSim.Cache ArchSim.Spec.TagCache

/-! ### Invariant -/

structure GeoOK (g : Geo) : Prop where
  bits  : g.idxBits + g.blkBits + 2 ≤ 32
  blk   : g.blkBits ≤ 12
  assoc : 0 < g.assoc

instance (g : Geo) : Decidable (GeoOK g) :=
  if h : g.idxBits + g.blkBits + 2 ≤ 32 ∧ g.blkBits ≤ 12 ∧ 0 < g.assoc then
    isTrue ⟨h.1, h.2.1, h.2.2⟩
  else isFalse (fun k => h ⟨k.bits, k.blk, k.assoc⟩)

/-- A way never holds more than a block, and a dirty way can be written back: its block lies
    inside the data range. -/
def WayOK (g : Geo) (w : Way Nat) : Prop :=
  w.vals.length ≤ g.words ∧
  (w.dirty = true → 16384 ≤ w.base ∧ w.base + 4 * w.vals.length ≤ 4294967296)

structure SetOK {σ : Type} (ok : σ → Prop) (g : Geo) (cs : CSet σ Nat) : Prop where
  nways : cs.ways.length = g.assoc
  pol   : ok cs.pol
  ways  : ∀ w ∈ cs.ways, WayOK g w

/-- Invariant of every data-cache system reachable from `DSys.init` over a RISC-V data memory. -/
structure Inv {σ : Type} (ok : σ → Prop) (s : DSys σ) : Prop where
  geo   : GeoOK s.geo
  nsets : s.sets.length = 2 ^ s.geo.idxBits
  sets  : ∀ cs ∈ s.sets, SetOK ok s.geo cs
  cfg   : s.mem.cfg = Mem.riscvCfg

theorem WayOK_empty (g : Geo) : WayOK g Way.empty :=
  ⟨Nat.zero_le _, fun h => by cases h⟩

theorem Inv_init {σ : Type} {P : PolicyOps σ} {ok : σ → Prop} {g : Geo} (hg : GeoOK g)
    (hP : PolicyOK P g.assoc ok) (wt : Bool) (penalty : Nat) (m : Mem.Mem)
    (hm : m.cfg = Mem.riscvCfg) : Inv ok (DSys.init P wt g penalty m) where
  geo := hg
  nsets := by simp [DSys.init, initSets]
  sets := by
    intro cs hcs
    simp only [DSys.init, initSets] at hcs
    rw [List.eq_of_mem_replicate hcs]
    exact ⟨by simp only [List.length_replicate]; rfl, hP.init, fun w hw => by rw [List.eq_of_mem_replicate hw]; exact WayOK_empty g⟩
  cfg := hm

theorem SetOK.withPol {σ : Type} {ok : σ → Prop} {g : Geo} {cs : CSet σ Nat}
    (h : SetOK ok g cs) {p : σ} (hp : ok p) : SetOK ok g { cs with pol := p } :=
  ⟨h.nways, hp, h.ways⟩

theorem SetOK.withWay {σ : Type} {ok : σ → Prop} {g : Geo} {cs : CSet σ Nat}
    (h : SetOK ok g cs) {p : σ} (hp : ok p) (v : Nat) {w : Way Nat} (hw : WayOK g w) :
    SetOK ok g { ways := cs.ways.set v w, pol := p } :=
  ⟨by simp [h.nways], hp, fun w' hw' => by
    rcases List.mem_or_eq_of_mem_set hw' with h1 | h1
    · exact h.ways w' h1
    · exact h1 ▸ hw⟩

/-- Replacing one set and the memory preserves the invariant. -/
theorem Inv.update {σ : Type} {ok : σ → Prop} {s : DSys σ} (h : Inv ok s) (idx : Nat)
    {cs' : CSet σ Nat} (hcs : SetOK ok s.geo cs') {m' : Mem.Mem} (hm : m'.cfg = Mem.riscvCfg)
    (hits accesses : Nat) (lastHit : Bool) :
    Inv ok { s with sets := s.sets.set idx cs', mem := m', hits := hits, accesses := accesses,
                    lastHit := lastHit } where
  geo := h.geo
  nsets := by simp [h.nsets]
  sets := by
    intro cs hmem
    rcases List.mem_or_eq_of_mem_set hmem with h1 | h1
    · exact h.sets cs h1
    · exact h1 ▸ hcs
  cfg := hm

theorem Inv.counters {σ : Type} {ok : σ → Prop} {s : DSys σ} (h : Inv ok s)
    (hits accesses : Nat) (lastHit : Bool) :
    Inv ok { s with hits := hits, accesses := accesses, lastHit := lastHit } :=
  ⟨h.geo, h.nsets, h.sets, h.cfg⟩

theorem Inv.withMem {σ : Type} {ok : σ → Prop} {s : DSys σ} (h : Inv ok s)
    {m' : Mem.Mem} (hm : m'.cfg = Mem.riscvCfg) : Inv ok { s with mem := m' } :=
  ⟨h.geo, h.nsets, h.sets, hm⟩

theorem Inv.getSet {σ : Type} {ok : σ → Prop} {s : DSys σ} (h : Inv ok s) (a : Int) :
    ∃ cs, s.sets[(decode s.geo.idxBits s.geo.blkBits a).setIdx]? = some cs ∧
      SetOK ok s.geo cs := by
  have hlt := decode_setIdx_lt s.geo.idxBits s.geo.blkBits a
  rw [← h.nsets] at hlt
  refine ⟨s.sets[(decode s.geo.idxBits s.geo.blkBits a).setIdx], List.getElem?_eq_getElem hlt, ?_⟩
  exact h.sets _ (List.getElem_mem hlt)

/-! ### Lane checks of an accepted access -/

theorem decode_byteOff (ib bb : Nat) (a : Int) : (decode ib bb a).byteOff = wrap32 a % 4 := rfl

theorem fromBlock_ok {bits : Nat} {a : Int} (h : Accepted bits a) (ib bb : Nat) (vals : List Nat) :
    ∃ v, fromBlock bits (decode ib bb a) vals = .ok v := by
  obtain ⟨hb, ho, _⟩ := h
  unfold fromBlock
  rw [decode_byteOff]
  rcases hb with rfl | rfl | rfl
  · exact ⟨_, rfl⟩
  · simp only [show ¬ ((16 : Nat) = 8) by decide, if_false, if_true]
    rw [if_neg (by omega)]
    exact ⟨_, rfl⟩
  · simp only [show ¬ ((32 : Nat) = 8) by decide, show ¬ ((32 : Nat) = 16) by decide, if_false]
    rw [if_neg (by omega)]
    exact ⟨_, rfl⟩

theorem intoBlock_ok {bits : Nat} {a : Int} (h : Accepted bits a) (ib bb : Nat) (block : List Nat)
    (v : Nat) :
    ∃ b', intoBlock bits (decode ib bb a) block v = .ok b' ∧ b'.length = block.length := by
  obtain ⟨hb, ho, _⟩ := h
  unfold intoBlock
  rw [decode_byteOff]
  rcases hb with rfl | rfl | rfl
  · exact ⟨_, rfl, by simp⟩
  · simp only [show ¬ ((16 : Nat) = 8) by decide, if_false, if_true]
    rw [if_neg (by omega)]
    exact ⟨_, rfl, by simp⟩
  · simp only [show ¬ ((32 : Nat) = 8) by decide, show ¬ ((32 : Nat) = 16) by decide, if_false]
    rw [if_neg (by omega)]
    exact ⟨_, rfl, by simp⟩

theorem laneErr_none {bits : Nat} {a : Int} (h : Accepted bits a) (ib bb : Nat) :
    laneErr bits (decode ib bb a) = none := by
  obtain ⟨hb, ho, _⟩ := h
  unfold laneErr
  rw [decode_byteOff]
  rcases hb with rfl | rfl | rfl
  · rfl
  · simp only [show ¬ ((16 : Nat) = 8) by decide, if_false, if_true]
    rw [if_neg (by omega)]
  · simp only [show ¬ ((32 : Nat) = 8) by decide, show ¬ ((32 : Nat) = 16) by decide, if_false]
    rw [if_neg (by omega)]

/-- The lower memory accepts the cells of an accepted access. -/
theorem memWrite_accepted {bits : Nat} {a : Int} (h : Accepted bits a) (m : Mem.Mem)
    (hc : m.cfg = Mem.riscvCfg) (v : Nat) :
    ∃ m', Mem.write m bits a v = some (m', none) ∧ m'.cfg = Mem.riscvCfg := by
  obtain ⟨hb, ho, hlo⟩ := h
  apply riscv_write_ok m hc bits a v (by rcases hb with rfl | rfl | rfl <;> omega)
  intro i hi
  unfold wrap32 at ho hlo
  rcases hb with rfl | rfl | rfl <;> omega

/-! ### Write-back of a displaced block -/

/-- The lower memory after a displaced block has (possibly) been written back. -/
def wbMem {σ : Type} (s : DSys σ) (old : Way Nat) : Mem.Mem :=
  if s.wt || !old.dirty then s.mem else (writeBlockToMem s.mem old.base old.vals 0).1

theorem wbMem_cfg {σ : Type} (s : DSys σ) (old : Way Nat) : (wbMem s old).cfg = s.mem.cfg := by
  unfold wbMem
  split
  · rfl
  · exact writeBlockToMem_cfg _ _ _ _

theorem writeBack_ok {σ : Type} {s : DSys σ} (hc : s.mem.cfg = Mem.riscvCfg) {old : Way Nat}
    {g : Geo} (ho : WayOK g old) (hd : old.dirty = true) :
    writeBlockToMem s.mem old.base old.vals 0 = ((writeBlockToMem s.mem old.base old.vals 0).1, none) := by
  obtain ⟨h1, h2⟩ := ho.2 hd
  obtain ⟨m', hm', _⟩ := writeBlockToMem_ok s.mem hc old.base old.vals 0 h1 (by omega)
  rw [hm']

/-! ### Explicit forms of the model's operations -/

section Forms
variable {σ : Type} {P : PolicyOps σ} {s : DSys σ} {d : DAddr} {cs : CSet σ Nat}

theorem readBlockSys_hit {i : Nat} {p : σ} (hs : s.sets[d.setIdx]? = some cs)
    (hf : findWay cs.ways d.tag = some i) (ha : P.access cs.pol i = some p) :
    s.readBlockSys P d =
      ({ s with sets := s.sets.set d.setIdx { cs with pol := p } },
       .ok ((cs.ways[i]?.map (·.vals)).getD [], true)) := by
  simp only [DSys.readBlockSys, readBlock_hit hs hf ha]

theorem readBlockSys_miss {v : Nat} {p : σ} {old : Way Nat} {ws : List Nat}
    (hs : s.sets[d.setIdx]? = some cs) (hf : findWay cs.ways d.tag = none)
    (hws : readBlockFromMem s.mem d.blockBase s.geo.words 0 = .ok ws)
    (hv : P.victim cs.pol = some v) (ho : cs.ways[v]? = some old) (ha : P.access cs.pol v = some p)
    (hc : s.mem.cfg = Mem.riscvCfg) {g : Geo} (hok : WayOK g old) :
    s.readBlockSys P d =
      ({ s with sets := s.sets.set d.setIdx { ways := cs.ways.set v (newWay d ws), pol := p },
                mem := wbMem s old },
       .ok (ws, false)) := by
  simp only [DSys.readBlockSys, readBlock_miss hs hf, hws, writeBlock_miss ws hs hf hv ho ha, wbMem]
  cases hwt : s.wt
  · cases hd : old.dirty
    · simp
    · simp only [Bool.false_eq_true, if_false, if_true]
      rw [writeBack_ok hc hok hd]
      simp
  · simp

/-- Counter update at the end of a counted operation. -/
def bump (s : DSys σ) (hit : Bool) : DSys σ :=
  { s with hits := s.hits + (if hit then 1 else 0), lastHit := hit, accesses := s.accesses + 1 }

theorem read_of_readBlockSys {s1 : DSys σ} {vals : List Nat} {hit : Bool} (bits : Nat) (a : Int)
    (counted : Bool)
    (h : s.readBlockSys P (decode s.geo.idxBits s.geo.blkBits a) = (s1, .ok (vals, hit))) :
    s.read P bits a counted =
      { sys := if counted then bump s1 hit else s1,
        res := fromBlock bits (decode s.geo.idxBits s.geo.blkBits a) vals,
        extra := if counted && !hit then s.penalty else 0 } := by
  simp only [DSys.read, h, bump]

theorem writeWB_hit {i : Nat} {p p2 : σ} {block' : List Nat} (bits : Nat) (a : Int) (v : Nat)
    (hd : d = decode s.geo.idxBits s.geo.blkBits a)
    (hs : s.sets[d.setIdx]? = some cs)
    (hf : findWay cs.ways d.tag = some i) (ha : P.access cs.pol i = some p)
    (ha2 : P.access p i = some p2)
    (hib : intoBlock bits d ((cs.ways[i]?.map (·.vals)).getD []) v = .ok block') :
    s.writeWB P bits a v =
      { sys := bump { s with sets := s.sets.set d.setIdx { ways := cs.ways.set i (newWay d block'), pol := p2 } } true,
        res := .ok 0, extra := 0 } := by
  subst hd
  have hs1 : (s.sets.set (decode s.geo.idxBits s.geo.blkBits a).setIdx { cs with pol := p })[(decode s.geo.idxBits s.geo.blkBits a).setIdx]? =
      some { cs with pol := p } := by
    have := (List.getElem?_eq_some_iff.mp hs).1
    simp [this]
  have hwb := writeBlock_hit (P := P) (cs := { cs with pol := p }) block' hs1 hf ha2
  simp only [List.set_set] at hwb
  simp only [DSys.writeWB, readBlock_hit hs hf ha, Option.isSome_some, hib, hwb, bump]
  simp

theorem writeWB_miss {v' : Nat} {p : σ} {old : Way Nat} {ws block' : List Nat} (bits : Nat) (a : Int)
    (v : Nat) (hd : d = decode s.geo.idxBits s.geo.blkBits a)
    (hs : s.sets[d.setIdx]? = some cs) (hf : findWay cs.ways d.tag = none)
    (hws : readBlockFromMem s.mem d.blockBase s.geo.words 0 = .ok ws)
    (hib : intoBlock bits d ws v = .ok block')
    (hv : P.victim cs.pol = some v') (ho : cs.ways[v']? = some old)
    (ha : P.access cs.pol v' = some p)
    (hc : s.mem.cfg = Mem.riscvCfg) {g : Geo} (hok : WayOK g old) :
    s.writeWB P bits a v =
      { sys := bump { s with sets := s.sets.set d.setIdx { ways := cs.ways.set v' (newWay d block'), pol := p },
                               mem := if old.dirty then (writeBlockToMem s.mem old.base old.vals 0).1 else s.mem } false,
        res := .ok 0, extra := s.penalty } := by
  subst hd
  simp only [DSys.writeWB, readBlock_miss hs hf, Option.isSome_none, hws, hib,
    writeBlock_miss block' hs hf hv ho ha, bump]
  cases hdirty : old.dirty
  · simp
  · simp only [if_true]
    rw [writeBack_ok hc hok hdirty]
    simp

/-- The state a write-through write reaches before it touches the lower memory (hit). -/
theorem writeWT_hit {i : Nat} {p p2 : σ} {block' : List Nat} (bits : Nat) (a : Int) (v : Nat)
    (hd : d = decode s.geo.idxBits s.geo.blkBits a)
    (hs : s.sets[d.setIdx]? = some cs)
    (hf : findWay cs.ways d.tag = some i) (ha : P.access cs.pol i = some p)
    (ha2 : P.access p i = some p2)
    (hib : intoBlock bits d ((cs.ways[i]?.map (·.vals)).getD []) v = .ok block')
    {m' : Mem.Mem} (hm : Mem.write s.mem bits a v = some (m', none)) :
    s.writeWT P bits a v =
      { sys := { bump { s with sets := s.sets.set d.setIdx { ways := cs.ways.set i (newWay d block'), pol := p2 } } true with mem := m' },
        res := .ok 0, extra := 0 } := by
  subst hd
  have hs1 : (s.sets.set (decode s.geo.idxBits s.geo.blkBits a).setIdx { cs with pol := p })[(decode s.geo.idxBits s.geo.blkBits a).setIdx]? =
      some { cs with pol := p } := by
    have := (List.getElem?_eq_some_iff.mp hs).1
    simp [this]
  have hwb := writeBlock_hit (P := P) (cs := { cs with pol := p }) block' hs1 hf ha2
  simp only [List.set_set] at hwb
  simp only [DSys.writeWT, readBlock_hit hs hf ha, Option.isSome_some, hib, hwb, bump, hm]
  simp

theorem writeWT_miss (bits : Nat) (a : Int) (v : Nat)
    (hd : d = decode s.geo.idxBits s.geo.blkBits a)
    (hs : s.sets[d.setIdx]? = some cs) (hf : findWay cs.ways d.tag = none)
    (hl : laneErr bits d = none)
    {m' : Mem.Mem} (hm : Mem.write s.mem bits a v = some (m', none)) :
    s.writeWT P bits a v =
      { sys := { bump s false with mem := m' }, res := .ok 0, extra := s.penalty } := by
  subst hd
  simp only [DSys.writeWT, readBlock_miss hs hf, Option.isSome_none, hl, bump, hm]
  simp

end Forms

end ArchSim.Lemmas.C09
