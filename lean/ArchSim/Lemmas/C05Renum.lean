/-
C05 helper lemmas, part 10: a successful load does not depend on the line numbers of the entries
(they are used only in error messages and to match in-line labels with their lines), so moving the data
segment before or after the text segment — which renumbers the lines — gives the same image.
-/
import ArchSim.Lemmas.C05Load
import ArchSim.Lemmas.C05Err
import ArchSim.Lemmas.C04Expand
import ArchSim.Lemmas.C04Labels
import ArchSim.Lemmas.C04Build

namespace ArchSim.Lemmas.C05
open ArchSim ArchSim.Asm ArchSim.Rv ArchSim.Lemmas.C04

/-- renumber the line of a token entry / text entry / pending in-line label -/
def renE (f : Nat → Nat) (e : Entry) : Entry := (f e.1, e.2.1, e.2.2)
def renT (f : Nat → Nat) (e : TEntry) : TEntry := (f e.1, e.2.1, e.2.2)
def renP (f : Nat → Nat) (p : Nat × String) : Nat × String := (f p.1, p.2)

/-! ### the data pass -/

theorem writeData_renum (f : Nat → Nat) (es : List Entry) (o : DataOut) (h : (writeData es o).err = none) :
    writeData (es.map (renE f)) o = writeData es o := by
  induction es generalizing o with
  | nil => rfl
  | cons e rest ih =>
    obtain ⟨k, line, t⟩ := e
    obtain ⟨h1, _, h3⟩ := writeData_no_error _ o h
    obtain ⟨hl, hk⟩ := h1 (k, line, t) (List.mem_cons_self ..)
    have hf := h3 t.item (by simp [itemsOf])
    simp only at hl hk
    simp only [List.map_cons, renE]
    rw [writeData_cons_kind k line t rest o hl hk hf] at h ⊢
    rw [writeData_cons_kind (f k) line t _ o hl hk hf]
    generalize declWrite t.item o.mem (align4 o.ctr) = r at h ⊢
    obtain ⟨m, a', e⟩ := r
    cases e with
    | some x => cases h
    | none => exact ih _ h

/-! ### expansion -/

theorem expandAll_renum (f : Nat → Nat) (vars : Vars) (es R : List TEntry) (h : expandAll vars es = .ok R) :
    expandAll vars (es.map (renT f)) = .ok (R.map (renT f)) := by
  induction es generalizing R with
  | nil => simp only [expandAll, Except.ok.injEq] at h; subst h; rfl
  | cons e rest ih =>
    obtain ⟨k, line, it⟩ := e
    simp only [expandAll] at h
    cases hg : expandOne vars (k, line, it) with
    | error x => rw [hg] at h; cases h
    | ok g =>
      cases hr : expandAll vars rest with
      | error x => rw [hg, hr] at h; cases h
      | ok Q =>
        rw [hg, hr] at h
        cases h
        obtain ⟨hrel, hline⟩ := expandOne_relocate vars k (f k) line line it g hg
        simp only [List.map_cons, renT, expandAll, hrel, ih Q hr, List.map_append]
        congr 2
        apply List.map_congr_left
        intro e he
        obtain ⟨h1, h2⟩ := hline e he
        simp only [renT, h1, h2]

/-! ### the label pass -/

theorem find_renP (f : Nat → Nat) (hf : ∀ a b, f a = f b → a = b) (pending : List (Nat × String)) (k : Nat) :
    (pending.map (renP f)).find? (fun p => p.1 == f k) = (pending.find? (fun p => p.1 == k)).map (renP f) := by
  induction pending with
  | nil => rfl
  | cons q qs ih =>
    simp only [List.map_cons, List.find?_cons, renP]
    by_cases hq : q.1 = k
    · have h1 : (q.1 == k) = true := by simp [hq]
      have h2 : (f q.1 == f k) = true := by simp [hq]
      simp only [h1, h2, Option.map_some, renP]
    · have : ¬ f q.1 = f k := fun e => hq (hf _ _ e)
      have h1 : (q.1 == k) = false := by simp [hq]
      have h2 : (f q.1 == f k) = false := by simp [this]
      simp only [h1, h2, ih]

theorem filter_renP (f : Nat → Nat) (hf : ∀ a b, f a = f b → a = b) (pending : List (Nat × String)) (k : Nat) :
    (pending.map (renP f)).filter (fun p => p.1 != f k) = (pending.filter (fun p => p.1 != k)).map (renP f) := by
  induction pending with
  | nil => rfl
  | cons q qs ih =>
    simp only [List.map_cons, List.filter_cons, renP]
    by_cases hq : q.1 = k
    · have h1 : (q.1 != k) = false := by simp [hq]
      have h2 : (f q.1 != f k) = false := by simp [hq]
      simp only [h1, h2, Bool.false_eq_true, if_false, ih]
    · have : ¬ f q.1 = f k := fun e => hq (hf _ _ e)
      have h1 : (q.1 != k) = true := by simp [hq]
      have h2 : (f q.1 != f k) = true := by simp [this]
      simp only [h1, h2, if_true, ih, List.map_cons, renP]

theorem addLabel_line (ls ls' : Labels) (n : String) (v : Int) (k k' : Nat) (line line' : String)
    (h : addLabel ls n v k line = .ok ls') : addLabel ls n v k' line' = .ok ls' := by
  simp only [addLabel] at h ⊢
  split at h
  · cases h
  · next hn => simp only [hn, Bool.false_eq_true, if_false]; exact h

theorem processLabels_renum (f : Nat → Nat) (hf : ∀ a b, f a = f b → a = b) (es : List TEntry)
    (pending : List (Nat × String)) (ls ls' : Labels) (addr : Int)
    (h : processLabels es pending ls addr = .ok ls') :
    processLabels (es.map (renT f)) (pending.map (renP f)) ls addr = .ok ls' := by
  induction es generalizing pending ls addr with
  | nil => simpa [processLabels] using h
  | cons e rest ih =>
    obtain ⟨k, line, it⟩ := e
    simp only [List.map_cons, renT]
    by_cases hl : isLabel it = true
    · obtain ⟨s, hs⟩ : ∃ s, it = .str s := by
        cases it with
        | str s => exact ⟨s, rfl⟩
        | grp pi => cases hl
        | varDecl n ty vals => cases hl
        | strDecl n b => cases hl
        | zeroDecl n c => cases hl
        | directive d => cases hl
      rw [processLabels_cons_label k line it rest pending ls addr s hs hl] at h
      rw [processLabels_cons_label (f k) line it _ _ ls addr s hs hl]
      cases ha : addLabel ls s addr k line with
      | error x => rw [ha] at h; cases h
      | ok ls1 =>
        rw [ha] at h
        rw [addLabel_line ls ls1 s addr k (f k) line line ha]
        exact ih pending ls1 addr h
    · have hl' : isLabel it = false := by simpa using hl
      rw [processLabels_cons_other k line it rest pending ls addr hl'] at h
      rw [processLabels_cons_other (f k) line it _ _ ls addr hl', find_renP f hf, filter_renP f hf]
      cases hfind : pending.find? (fun p => p.1 == k) with
      | none =>
        rw [hfind] at h
        simp only [Option.map_none]
        exact ih pending ls _ h
      | some q =>
        obtain ⟨k0, l⟩ := q
        rw [hfind] at h
        simp only [Option.map_some, renP] at h ⊢
        cases ha : addLabel ls l addr k line with
        | error x => rw [ha] at h; cases h
        | ok ls1 =>
          rw [ha] at h
          rw [addLabel_line ls ls1 l addr k (f k) line line ha]
          exact ih _ ls1 _ h

/-! ### the instruction pass -/

theorem instantiate_line (ls : Labels) (addr : Int) (k k' : Nat) (line : String) (pi : PInstr) (ins : Instr)
    (h : instantiate ls addr k line pi = .ok ins) : instantiate ls addr k' line pi = .ok ins := by
  cases pi with
  | rtype mn rd rs1 rs2 =>
    simp only [instantiate] at h ⊢
    cases ho : Op.ofMnemonic mn with
    | none => rw [ho] at h; cases h
    | some op => rw [ho] at h; exact h
  | utype mn rd imm =>
    simp only [instantiate] at h ⊢
    cases ho : Op.ofMnemonic mn with
    | none => rw [ho] at h; cases h
    | some op => rw [ho] at h; exact h
  | btypeLabel mn a b l off =>
    simp only [instantiate, labelDisp] at h ⊢
    cases ho : Op.ofMnemonic mn with
    | none => rw [ho] at h; cases h
    | some op =>
      rw [ho] at h
      cases hl : lookupLabel ls l with
      | none => rw [hl] at h; cases h
      | some L =>
        rw [hl] at h
        by_cases hodd : (L + off - addr) % 2 ≠ 0
        · simp only [if_pos hodd] at h; cases h
        · simp only [if_neg hodd] at h ⊢; exact h
  | mem mn a imm b =>
    simp only [instantiate] at h ⊢
    cases ho : Op.ofMnemonic mn with
    | none => rw [ho] at h; cases h
    | some op =>
      rw [ho] at h
      simp only at h ⊢
      cases hty : op.ty <;> rw [hty] at h <;> simp only at h ⊢ <;> first | exact h | cases h | skip
      split at h
      · cases h
      · next hodd => simp only [hodd, if_false]; exact h
  | rri mn a b imm =>
    simp only [instantiate] at h ⊢
    cases ho : Op.ofMnemonic mn with
    | none => rw [ho] at h; cases h
    | some op =>
      rw [ho] at h
      simp only at h ⊢
      cases hty : op.ty <;> rw [hty] at h <;> simp only at h ⊢ <;> first | exact h | cases h | skip
      split at h
      · cases h
      · next hodd => simp only [hodd, if_false]; exact h
  | csr mn rd c rs1 =>
    simp only [instantiate] at h ⊢
    cases ho : Op.ofMnemonic mn with
    | none => rw [ho] at h; cases h
    | some op => rw [ho] at h; exact h
  | csri mn rd c u =>
    simp only [instantiate] at h ⊢
    cases ho : Op.ofMnemonic mn with
    | none => rw [ho] at h; cases h
    | some op => rw [ho] at h; exact h
  | fence a b => exact h
  | jalImm rd imm =>
    simp only [instantiate] at h ⊢
    split at h
    · cases h
    · next hodd => simp only [hodd, if_false]; exact h
  | jalLabel rd l off =>
    simp only [instantiate, labelDisp] at h ⊢
    cases hl : lookupLabel ls l with
    | none => rw [hl] at h; cases h
    | some L =>
      rw [hl] at h
      by_cases hodd : (L + off - addr) % 2 ≠ 0
      · simp only [if_pos hodd] at h; cases h
      · simp only [if_neg hodd] at h ⊢; exact h
  | memPseudo mn r v i => simp only [instantiate] at h; cases h
  | sPseudo mn r v i r2 => simp only [instantiate] at h; cases h
  | li rd imm => simp only [instantiate] at h; cases h
  | mv rd rs => simp only [instantiate] at h; cases h

theorem buildInstrs_renum (f : Nat → Nat) (ls : Labels) (es : List TEntry) (addr : Int) (instrs : List Instr)
    (h : buildInstrs ls es addr = .ok instrs) : buildInstrs ls (es.map (renT f)) addr = .ok instrs := by
  induction es generalizing addr instrs with
  | nil => exact h
  | cons e rest ih =>
    obtain ⟨k, line, it⟩ := e
    simp only [List.map_cons, renT]
    cases it with
    | str s =>
      simp only [buildInstrs] at h ⊢
      by_cases h1 : s = "ecall"
      · simp only [h1, if_true] at h ⊢
        obtain ⟨tl, htl, rfl⟩ := (map_ok_iff _ _ _).mp h
        rw [ih _ _ htl]; rfl
      · by_cases h2 : s = "ebreak"
        · subst h2
          have hne : ("ebreak" : String) ≠ "ecall" := by decide
          simp only [if_neg hne, if_true] at h ⊢
          obtain ⟨tl, htl, rfl⟩ := (map_ok_iff _ _ _).mp h
          rw [ih _ _ htl]; rfl
        · simp only [if_neg h1, if_neg h2] at h ⊢
          exact ih _ _ h
    | grp pi =>
      simp only [buildInstrs] at h ⊢
      cases hi : instantiate ls addr k line pi with
      | error x => rw [hi] at h; cases h
      | ok i0 =>
        rw [hi] at h
        simp only at h
        obtain ⟨tl, htl, rfl⟩ := (map_ok_iff _ _ _).mp h
        rw [instantiate_line ls addr k (f k) line pi i0 hi]
        simp only
        rw [ih _ _ htl]; rfl
    | varDecl n ty vals => simp only [buildInstrs] at h; cases h
    | strDecl n b => simp only [buildInstrs] at h; cases h
    | zeroDecl n c => simp only [buildInstrs] at h; cases h
    | directive d => simp only [buildInstrs] at h; cases h

/-! ### the whole of `loadSeg` -/

/-- a `loadSeg` without error went through every pass without error -/
theorem loadSeg_ok_inv (s0 : St) (data text' : List Entry) (h : (loadSeg s0 data text').err = none) :
    ∃ expanded ls instrs,
      (writeData data { mem := s0.mem, vars := [], ctr := 16384, err := none }).err = none ∧
      expandAll (writeData data { mem := s0.mem, vars := [], ctr := 16384, err := none }).vars
        (text'.map fun (k, line, t) => (k, line, t.item)) = .ok expanded ∧
      processLabels expanded (text'.filterMap fun (k, _, t) => t.lbl.map fun l => (k, l)) [] 0 = .ok ls ∧
      buildInstrs ls expanded 0 = .ok instrs ∧ instrs.length ≤ 4096 := by
  simp only [loadSeg] at h
  split at h
  · cases h
  · next hd =>
    split at h
    · cases h
    · next expanded he =>
      split at h
      · cases h
      · next ls hl =>
        split at h
        · cases h
        · next instrs hb =>
          split at h
          · cases h
          · next hlen => exact ⟨expanded, ls, instrs, hd, he, hl, hb, by omega⟩

theorem tentries_renum (g : Nat → Nat) (text' : List Entry) :
    ((text'.map (renE g)).map fun (k, line, t) => ((k, line, t.item) : TEntry)) =
      (text'.map fun (k, line, t) => ((k, line, t.item) : TEntry)).map (renT g) := by
  simp only [List.map_map]
  apply List.map_congr_left
  intro e _
  rfl

theorem pending_renum (g : Nat → Nat) (text' : List Entry) :
    ((text'.map (renE g)).filterMap fun (k, _, t) => t.lbl.map fun l => ((k, l) : Nat × String)) =
      (text'.filterMap fun (k, _, t) => t.lbl.map fun l => ((k, l) : Nat × String)).map (renP g) := by
  induction text' with
  | nil => rfl
  | cons e rest ih =>
    obtain ⟨k, line, t⟩ := e
    simp only [List.map_cons, renE, List.filterMap_cons]
    cases hl : t.lbl with
    | none => simpa [hl] using ih
    | some l => simpa [hl, renP] using ih

/-- A load that succeeds gives exactly the same result when the lines of the data segment are renumbered
    by any `f` and the lines of the text segment by an injective `g`. -/
theorem loadSeg_renum (f g : Nat → Nat) (hg : ∀ a b, g a = g b → a = b) (s0 : St) (data text' : List Entry)
    (h : (loadSeg s0 data text').err = none) :
    loadSeg s0 (data.map (renE f)) (text'.map (renE g)) = loadSeg s0 data text' := by
  obtain ⟨expanded, ls, instrs, hd, he, hl, hb, hlen⟩ := loadSeg_ok_inv s0 data text' h
  rw [loadSeg_ok s0 data text' expanded ls instrs hd he hl hb hlen]
  have hw := writeData_renum f data _ hd
  rw [loadSeg_ok s0 (data.map (renE f)) (text'.map (renE g)) (expanded.map (renT g)) ls instrs
    (by rw [hw]; exact hd)
    (by rw [hw, tentries_renum]; exact expandAll_renum g _ _ _ he)
    (by rw [pending_renum]; exact processLabels_renum g hg _ _ _ _ _ hl)
    (buildInstrs_renum g ls expanded 0 instrs hb) hlen, hw]

/-! ### token lists for the non-vacuity examples -/

def exDDir (k : Nat) : Entry := (k, ".data", { lbl := none, item := .directive "data" })
def exTDir (k : Nat) : Entry := (k, ".text", { lbl := none, item := .directive "text" })
/-- `v: .word 5` on line 2 -/
def exSegData : List Entry := [(2, "v: .word 5", { lbl := none, item := .varDecl "v" "word" [5] })]
/-- `foo: la x5, v` on line 4, `jal x0, foo` on line 5 -/
def exSegText : List Entry :=
  [ (4, "foo: la x5, v", { lbl := some "foo", item := .grp (.memPseudo "la" 5 "v" none) }),
    (5, "jal x0, foo", { lbl := none, item := .grp (.jalLabel 0 "foo" 0) }) ]

end ArchSim.Lemmas.C05
