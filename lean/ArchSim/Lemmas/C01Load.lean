/-
C01 helper lemmas, part 3: loads.  The flat memory's multi-cell read (`readNFrom`) is unfolded into the
per-cell results `cellRes`, which correspond one-to-one to the reference semantics' `loadByte`.
-/
import ArchSim.Lemmas.C01Exec
namespace ArchSim.Lemmas.C01
open ArchSim ArchSim.Rv ArchSim.Spec.RvSpec ArchSim.Mem ArchSim.Cache

theorem readCell_riscv (m : Mem) (hc : m.cfg = riscvCfg) (A : Int) :
    readCell m A = if 16384 ≤ A % 4294967296 then .ok (m.cells (A % 4294967296))
      else .error ⟨A % 4294967296⟩ := by
  simp only [readCell, hc, C18.riscv_wrap, C18.riscv_inRange]
  have : A % 4294967296 < 4294967296 := by omega
  by_cases h : 16384 ≤ A % 4294967296 <;> simp [h, this]

/-- One cell as the model reads it, as a function of the cell index. -/
def cellRes (m : Mem) (A : Int) (k : Nat) : Except Err Nat :=
  if 16384 ≤ (A + k) % 4294967296 then .ok (m.cells ((A + k) % 4294967296))
  else .error (.addr ((A + k) % 4294967296))

/-- The value of an `n`-cell little-endian read, as the model computes it (cells read in ascending
    order, the first failing cell decides the error). -/
def rdCells (m : Mem) (A : Int) : (n k : Nat) → Except Err Nat
  | 0, _ => .ok 0
  | n + 1, k =>
    match cellRes m A k with
    | .error e => .error e
    | .ok v =>
      match rdCells m A n (k + 1) with
      | .error e => .error e
      | .ok r => .ok (v * 2 ^ (k * 8) + r)

theorem liftMem_readNFrom (m : Mem) (hc : m.cfg = riscvCfg) (A : Int) (n k : Nat) :
    liftMem (readNFrom m A n k) = rdCells m A n k := by
  induction n generalizing k with
  | zero => rfl
  | succ n ih =>
    simp only [readNFrom, rdCells, readCell_riscv m hc, cellRes, hc]
    by_cases h : 16384 ≤ (A + (k : Int)) % 4294967296
    · simp only [h, if_true, ← ih (k + 1)]
      cases readNFrom m A n (k + 1) <;> simp [liftMem, riscvCfg]
    · simp [h, liftMem]

theorem read_flat (m : Mem) (hc : m.cfg = riscvCfg) (bits : Nat) (hb : 8 ≤ bits) (A : Int) (c : Bool) :
    (MemSys.flat m).read bits A c =
      { mem := .flat m, extra := 0, res := (rdCells m A (bits / 8) 0).map (· % 2 ^ bits) } := by
  simp only [MemSys.read, Mem.read, hc, readN, cellsOf, riscvCfg, ← liftMem_readNFrom m hc]
  rw [if_neg (by omega)]
  cases readNFrom m A (bits / 8) 0 <;> simp [liftMem, Except.map]


/-- Abstraction of one cell read. -/
def αCell : Except Err Nat → Except SpecFault Byte
  | .ok v => .ok (BitVec.ofNat 8 v)
  | .error (.addr a) => .error (.access (BitVec.ofInt 32 a))
  | .error _ => .error .unsupported

theorem αMem_flat (m : Mem) (w : Word) : αMem (.flat m) w = BitVec.ofNat 8 (m.cells (w.toNat : Int)) := rfl

theorem addr_toNat (A : Int) (k : Nat) :
    ((BitVec.ofInt 32 A + BitVec.ofNat 32 k).toNat : Int) = (A + k) % 4294967296 := by
  simp only [BitVec.toNat_add, BitVec.toNat_ofInt, BitVec.toNat_ofNat]
  omega

theorem addr_eq (A : Int) (k : Nat) :
    BitVec.ofInt 32 A + BitVec.ofNat 32 k = BitVec.ofInt 32 ((A + k) % 4294967296) := by
  apply BitVec.eq_of_toNat_eq
  simp only [BitVec.toNat_add, BitVec.toNat_ofInt, BitVec.toNat_ofNat]
  omega

theorem loadByte_α (s : St) (m : Mem) (hm : s.mem = .flat m) (A : Int) (k : Nat) :
    (α s).loadByte (BitVec.ofInt 32 A + BitVec.ofNat 32 k) = αCell (cellRes m A k) := by
  have h1 := addr_toNat A k
  simp only [SpecSt.loadByte, mapped, dataBase, cellRes, α, hm, αMem_flat, h1]
  by_cases h : 16384 ≤ (A + (k : Int)) % 4294967296
  · have : 16384 ≤ (BitVec.ofInt 32 A + BitVec.ofNat 32 k).toNat := by omega
    simp only [h, this, if_true, αCell]
  · have : ¬ 16384 ≤ (BitVec.ofInt 32 A + BitVec.ofNat 32 k).toNat := by omega
    simp only [h, this, if_false, αCell]
    rw [addr_eq]

theorem loadByte_α0 (s : St) (m : Mem) (hm : s.mem = .flat m) (A : Int) :
    (α s).loadByte (BitVec.ofInt 32 A) = αCell (cellRes m A 0) := by
  have := loadByte_α s m hm A 0
  rw [show BitVec.ofInt 32 A + BitVec.ofNat 32 0 = BitVec.ofInt 32 A from BitVec.add_zero _] at this
  exact this

theorem cellRes_lt (m : Mem) (hc : m.cfg = riscvCfg) (hw : C18.WF m) (A : Int) (k v : Nat)
    (h : cellRes m A k = .ok v) : v < 256 := by
  simp only [cellRes] at h
  split at h
  · cases h
    have := hw.cells_lt ((A + (k : Int)) % 4294967296)
    rw [hc] at this; exact this
  · cases h


/-! ### loads -/

/-- Abstract outcome of a load, given what the memory returned. -/
def loadOut (s : St) (i : Instr) : Except Err Nat → Option (Except SpecFault SpecSt)
  | .error e => (αFault (.mem e)).map .error
  | .ok v => some (.ok { (α s).set i.rd (W (loadExt i.op v)) with pc := (α s).pc + 4 })

theorem α_mem_cycles (s : St) (m : Mem) (hm : s.mem = .flat m) (c : Nat) :
    α { s with mem := .flat m, cycles := c } = α s := by
  simp only [α, hm]

theorem execOne_load (i : Instr) (s : St) (m : Mem) (hm : s.mem = .flat m) (hc : m.cfg = riscvCfg)
    (hty : i.op.ty = .memI) (hrd : i.rd < 32) :
    αBeh (execOne i s) = loadOut s i
      ((rdCells m ((s.regs i.rs1 : Int) + i.imm) (accessBits i.op / 8) 0).map (· % 2 ^ accessBits i.op)) := by
  have hb8 : 8 ≤ accessBits i.op := by
    simp only [accessBits]; split <;> omega
  simp only [execOne, behavior, hty, hm, read_flat m hc _ hb8]
  cases (rdCells m ((s.regs i.rs1 : Int) + i.imm) (accessBits i.op / 8) 0).map (· % 2 ^ accessBits i.op) with
  | error e => simp only [αBeh, αOut, loadOut]
  | ok v =>
    simp only [αBeh, αOut, loadOut, α_pc, α_setReg _ _ _ hrd, α_mem_cycles s m hm]
    rw [show ∀ (t : St), (t.setReg i.rd (loadExt i.op v)).pc = t.pc from fun _ => rfl, pc_next]
    rfl


theorem addr_base (a : Nat) (imm : Int) : W a + BitVec.ofInt 32 imm = BitVec.ofInt 32 ((a : Int) + imm) := by
  apply BitVec.eq_of_toNat_eq
  simp only [BitVec.toNat_add, BitVec.toNat_ofInt, BitVec.toNat_ofNat]
  omega

theorem cellRes_err (m : Mem) (A : Int) (k : Nat) (e : Err) (h : cellRes m A k = .error e) :
    ∃ a, e = .addr a := by
  simp only [cellRes] at h
  split at h <;> cases h
  exact ⟨_, rfl⟩

/-- Abstraction of the result of a `bits`-bit read. -/
def αVal (bits : Nat) : Except Err Nat → Except SpecFault (BitVec bits)
  | .ok v => .ok (BitVec.ofNat bits v)
  | .error (.addr a) => .error (.access (BitVec.ofInt 32 a))
  | .error _ => .error .unsupported

theorem loadByte_rd (s : St) (m : Mem) (hm : s.mem = .flat m) (A : Int) :
    (α s).loadByte (BitVec.ofInt 32 A) = αVal 8 (rdCells m A 1 0) := by
  simp only [rdCells, loadByte_α0 s m hm]
  cases h0 : cellRes m A 0 with
  | error e => obtain ⟨a, rfl⟩ := cellRes_err _ _ _ _ h0; rfl
  | ok v0 => simp only [αCell, αVal]; congr 2; omega

theorem loadHalf_rd (s : St) (m : Mem) (hm : s.mem = .flat m) (hc : m.cfg = riscvCfg) (hw : C18.WF m)
    (A : Int) : (α s).loadHalf (BitVec.ofInt 32 A) = αVal 16 (rdCells m A 2 0) := by
  simp only [rdCells, SpecSt.loadHalf, BitVec.ofNat_eq_ofNat, loadByte_α0 s m hm, loadByte_α s m hm,
    Nat.reduceAdd, Nat.reduceMul, Nat.reducePow]
  cases h0 : cellRes m A 0 with
  | error e => obtain ⟨a, rfl⟩ := cellRes_err _ _ _ _ h0; rfl
  | ok v0 =>
    have hv0 := cellRes_lt m hc hw _ _ _ h0
    cases h1 : cellRes m A 1 with
    | error e => obtain ⟨a, rfl⟩ := cellRes_err _ _ _ _ h1; rfl
    | ok v1 =>
      simp only [αCell, αVal, bind, Except.bind, pure, Except.pure, le2 v0 v1 hv0]
      congr 2; omega

theorem loadWord_rd (s : St) (m : Mem) (hm : s.mem = .flat m) (hc : m.cfg = riscvCfg) (hw : C18.WF m)
    (A : Int) : (α s).loadWord (BitVec.ofInt 32 A) = αVal 32 (rdCells m A 4 0) := by
  simp only [rdCells, SpecSt.loadWord, BitVec.ofNat_eq_ofNat, loadByte_α0 s m hm, loadByte_α s m hm,
    Nat.reduceAdd, Nat.reduceMul, Nat.reducePow]
  cases h0 : cellRes m A 0 with
  | error e => obtain ⟨a, rfl⟩ := cellRes_err _ _ _ _ h0; rfl
  | ok v0 =>
    have hv0 := cellRes_lt m hc hw _ _ _ h0
    cases h1 : cellRes m A 1 with
    | error e => obtain ⟨a, rfl⟩ := cellRes_err _ _ _ _ h1; rfl
    | ok v1 =>
      have hv1 := cellRes_lt m hc hw _ _ _ h1
      cases h2 : cellRes m A 2 with
      | error e => obtain ⟨a, rfl⟩ := cellRes_err _ _ _ _ h2; rfl
      | ok v2 =>
        have hv2 := cellRes_lt m hc hw _ _ _ h2
        cases h3 : cellRes m A 3 with
        | error e => obtain ⟨a, rfl⟩ := cellRes_err _ _ _ _ h3; rfl
        | ok v3 =>
          simp only [αCell, αVal, bind, Except.bind, pure, Except.pure, le4 v0 v1 v2 v3 hv0 hv1 hv2]
          congr 2; omega


theorem rdCells_err (m : Mem) (A : Int) (n k : Nat) (e : Err) (h : rdCells m A n k = .error e) :
    ∃ a, e = .addr a := by
  induction n generalizing k with
  | zero => cases h
  | succ n ih =>
    simp only [rdCells] at h
    cases h0 : cellRes m A k with
    | error e0 =>
      rw [h0] at h; cases h
      exact cellRes_err _ _ _ _ h0
    | ok v =>
      rw [h0] at h
      cases h1 : rdCells m A n (k + 1) with
      | error e1 => rw [h1] at h; cases h; exact ih _ h1
      | ok r => rw [h1] at h; cases h

theorem ofNat_mod_pow (b v : Nat) : BitVec.ofNat b (v % 2 ^ b) = BitVec.ofNat b v := by
  apply BitVec.eq_of_toNat_eq
  simp only [BitVec.toNat_ofNat, Nat.mod_mod]

theorem exec_lb (i : Instr) (s : St) (hi : InstrWF i) (hs : StOK s) (hop : i.op = .lb) :
    αBeh (execOne i s) = some (exec i (α s)) := by
  obtain ⟨m, hm, hc, hw⟩ := hs.flat
  have himm : -2048 ≤ i.imm ∧ i.imm < 2048 := by have := hi.imm; rw [hop] at this; exact this
  rw [execOne_load i s m hm hc (by rw [hop]; rfl) hi.rd, hop]
  simp only [exec, hop, α_get s hs _ hi.rs1, immI_eq i himm, accessBits, addr_base, loadByte_rd s m hm,
    Nat.reduceDiv]
  cases hr : rdCells m ((s.regs i.rs1 : Int) + i.imm) 1 0 with
  | error e => obtain ⟨a, rfl⟩ := rdCells_err _ _ _ _ _ hr; rfl
  | ok v =>
    simp only [loadOut, hop, Except.map, αVal, bind, Except.bind, ext_lb, ofNat_mod_pow]

theorem exec_lbu (i : Instr) (s : St) (hi : InstrWF i) (hs : StOK s) (hop : i.op = .lbu) :
    αBeh (execOne i s) = some (exec i (α s)) := by
  obtain ⟨m, hm, hc, hw⟩ := hs.flat
  have himm : -2048 ≤ i.imm ∧ i.imm < 2048 := by have := hi.imm; rw [hop] at this; exact this
  rw [execOne_load i s m hm hc (by rw [hop]; rfl) hi.rd, hop]
  simp only [exec, hop, α_get s hs _ hi.rs1, immI_eq i himm, accessBits, addr_base, loadByte_rd s m hm,
    Nat.reduceDiv]
  cases hr : rdCells m ((s.regs i.rs1 : Int) + i.imm) 1 0 with
  | error e => obtain ⟨a, rfl⟩ := rdCells_err _ _ _ _ _ hr; rfl
  | ok v =>
    simp only [loadOut, hop, Except.map, αVal, bind, Except.bind,
      ext_lbu (v % 2 ^ 8) (Nat.mod_lt _ (by decide)), ofNat_mod_pow]

theorem exec_lh (i : Instr) (s : St) (hi : InstrWF i) (hs : StOK s) (hop : i.op = .lh) :
    αBeh (execOne i s) = some (exec i (α s)) := by
  obtain ⟨m, hm, hc, hw⟩ := hs.flat
  have himm : -2048 ≤ i.imm ∧ i.imm < 2048 := by have := hi.imm; rw [hop] at this; exact this
  rw [execOne_load i s m hm hc (by rw [hop]; rfl) hi.rd, hop]
  simp only [exec, hop, α_get s hs _ hi.rs1, immI_eq i himm, accessBits, addr_base,
    loadHalf_rd s m hm hc hw, Nat.reduceDiv]
  cases hr : rdCells m ((s.regs i.rs1 : Int) + i.imm) 2 0 with
  | error e => obtain ⟨a, rfl⟩ := rdCells_err _ _ _ _ _ hr; rfl
  | ok v =>
    simp only [loadOut, hop, Except.map, αVal, bind, Except.bind, ext_lh, ofNat_mod_pow]

theorem exec_lhu (i : Instr) (s : St) (hi : InstrWF i) (hs : StOK s) (hop : i.op = .lhu) :
    αBeh (execOne i s) = some (exec i (α s)) := by
  obtain ⟨m, hm, hc, hw⟩ := hs.flat
  have himm : -2048 ≤ i.imm ∧ i.imm < 2048 := by have := hi.imm; rw [hop] at this; exact this
  rw [execOne_load i s m hm hc (by rw [hop]; rfl) hi.rd, hop]
  simp only [exec, hop, α_get s hs _ hi.rs1, immI_eq i himm, accessBits, addr_base,
    loadHalf_rd s m hm hc hw, Nat.reduceDiv]
  cases hr : rdCells m ((s.regs i.rs1 : Int) + i.imm) 2 0 with
  | error e => obtain ⟨a, rfl⟩ := rdCells_err _ _ _ _ _ hr; rfl
  | ok v =>
    simp only [loadOut, hop, Except.map, αVal, bind, Except.bind,
      ext_lhu (v % 2 ^ 16) (Nat.mod_lt _ (by decide)), ofNat_mod_pow]

theorem exec_lw (i : Instr) (s : St) (hi : InstrWF i) (hs : StOK s) (hop : i.op = .lw) :
    αBeh (execOne i s) = some (exec i (α s)) := by
  obtain ⟨m, hm, hc, hw⟩ := hs.flat
  have himm : -2048 ≤ i.imm ∧ i.imm < 2048 := by have := hi.imm; rw [hop] at this; exact this
  rw [execOne_load i s m hm hc (by rw [hop]; rfl) hi.rd, hop]
  simp only [exec, hop, α_get s hs _ hi.rs1, immI_eq i himm, accessBits, addr_base,
    loadWord_rd s m hm hc hw, Nat.reduceDiv]
  cases hr : rdCells m ((s.regs i.rs1 : Int) + i.imm) 4 0 with
  | error e => obtain ⟨a, rfl⟩ := rdCells_err _ _ _ _ _ hr; rfl
  | ok v =>
    simp only [loadOut, hop, Except.map, αVal, bind, Except.bind, loadExt, ofNat_mod_pow]

end ArchSim.Lemmas.C01
