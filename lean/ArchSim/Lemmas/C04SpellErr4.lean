/-
C04 (spelling independence, part 2), error case 4: renumbering commutes with the data pass and with the whole of
`load`.
-/
import ArchSim.Lemmas.C04SpellErr3

namespace ArchSim.Lemmas.C04Spell
open ArchSim ArchSim.PP ArchSim.Asm ArchSim.Rv
open ArchSim.Lemmas.C05 (renE renT renP declWrite isDeclKind declName declSize writeData_cons_bad
  writeData_cons_dup writeData_cons_kind loadSeg load_factors loadReset tentries_renum pending_renum)

theorem writeSeq_err (bits : Nat) (vals : List Int) (m : MemSys) (a : Int) (m' : MemSys) (a' : Int) (e : AsmErr)
    (h : writeSeq bits vals m a = (m', a', some e)) : ∃ x, e = .memAddr x := by
  induction vals generalizing m a with
  | nil => simp [writeSeq] at h
  | cons v vs ih =>
    simp only [writeSeq] at h
    split at h
    · simp only [Prod.mk.injEq, Option.some.injEq] at h; exact ⟨_, h.2.2.symm⟩
    · simp only [Prod.mk.injEq, Option.some.injEq] at h; exact ⟨_, h.2.2.symm⟩
    · exact ih _ _ h

theorem declWrite_err (it : Item) (m : MemSys) (a : Int) (m' : MemSys) (a' : Int) (e : AsmErr)
    (h : declWrite it m a = (m', a', some e)) : renErr g e = e := by
  have : ∃ x, e = .memAddr x := by
    cases it with
    | varDecl n ty vals => exact writeSeq_err _ _ _ _ _ _ _ h
    | strDecl n body => exact writeSeq_err _ _ _ _ _ _ _ h
    | zeroDecl n c => simp [declWrite] at h
    | str s => simp [declWrite] at h
    | grp p => simp [declWrite] at h
    | directive d => simp [declWrite] at h
  obtain ⟨x, rfl⟩ := this
  rfl

/-- the data pass result with its error renumbered -/
def renD (g : Nat → Nat) (d : DataOut) : DataOut := { d with err := d.err.map (renErr g) }

theorem writeData_ren (g : Nat → Nat) (es : List Entry) (o : DataOut) (ho : o.err = none) :
    writeData (es.map (renE g)) o = renD g (writeData es o) := by
  induction es generalizing o with
  | nil =>
    simp only [List.map_nil, writeData, renD, ho, Option.map_none]
    cases o; simp_all
  | cons e rest ih =>
    obtain ⟨k, line, t⟩ := e
    simp only [List.map_cons, renE]
    by_cases hbad : t.lbl.isSome = true ∨ isDeclKind t.item = false
    · rw [writeData_cons_bad k line t rest o hbad, writeData_cons_bad (g k) line t _ o hbad]
      rfl
    · have hl : t.lbl = none := by
        cases h : t.lbl with
        | none => rfl
        | some l => exact absurd (Or.inl (by simp [h])) hbad
      have hk : isDeclKind t.item = true := by
        cases h : isDeclKind t.item with
        | true => rfl
        | false => exact absurd (Or.inr h) hbad
      cases hf : lookupVar o.vars (declName t.item) with
      | some r =>
        have hf' : (lookupVar o.vars (declName t.item)).isSome = true := by simp [hf]
        rw [writeData_cons_dup k line t rest o hl hk hf', writeData_cons_dup (g k) line t _ o hl hk hf']
        rfl
      | none =>
        rw [writeData_cons_kind k line t rest o hl hk hf, writeData_cons_kind (g k) line t _ o hl hk hf]
        cases hw : declWrite t.item o.mem (align4 o.ctr) with
        | mk m r =>
          obtain ⟨a', eo⟩ := r
          cases eo with
          | none => exact ih _ ho
          | some x =>
            simp only [renD, Option.map_some, declWrite_err (g := g) _ _ _ _ _ _ hw]

/-- a load result with its error renumbered -/
def renOut (g : Nat → Nat) (o : LoadOut) : LoadOut := { o with err := o.err.map (renErr g) }

theorem loadSeg_ren (g : Nat → Nat) (hg : ∀ a b, g a = g b → a = b) (s0 : St) (data text' : List Entry) :
    loadSeg s0 (data.map (renE g)) (text'.map (renE g)) = renOut g (loadSeg s0 data text') := by
  have hw := writeData_ren g data { mem := s0.mem, vars := [], ctr := 16384, err := none } rfl
  simp only [loadSeg, hw, tentries_renum, pending_renum]
  generalize writeData data { mem := s0.mem, vars := [], ctr := 16384, err := none } = d
  cases hde : d.err with
  | some e => simp only [renD, hde, Option.map_some, renOut]
  | none =>
    simp only [renD, hde, Option.map_none, expandAll_ren]
    cases expandAll d.vars (text'.map fun x => (x.1, x.2.1, x.2.2.item)) with
    | error e => rfl
    | ok expanded =>
      simp only [renX, processLabels_ren g hg]
      cases processLabels expanded (text'.filterMap fun x => x.2.2.lbl.map fun l => (x.1, l)) [] 0 with
      | error e => rfl
      | ok ls =>
        simp only [renX, id, buildInstrs_ren]
        cases buildInstrs ls expanded 0 with
        | error e => rfl
        | ok instrs =>
          simp only []
          split <;> rfl

/-- Renumbering the source lines by an injective `g` changes nothing in the result of `load` but the line number
    of the reported error. -/
theorem load_ren (s : St) (t1 t2 : String) (g : Nat → Nat) (hg : ∀ a b, g a = g b → a = b)
    (h : sanitize t2 = (sanitize t1).map (renL g)) : load s t2 = renOut g (load s t1) := by
  rw [load_factors s t1, load_factors s t2, h, tokenize_ren]
  cases tokenize (sanitize t1) with
  | error e => rfl
  | ok toks =>
    simp only [renX, segment_ren g hg]
    cases segment toks with
    | error e => rfl
    | ok p =>
      obtain ⟨d, t⟩ := p
      simp only [renPair]
      exact loadSeg_ren g hg _ d t

end ArchSim.Lemmas.C04Spell
