/-
C02 (control half), part 9: the physical state after the stages of one cycle, related to `p.st`.
-/
import ArchSim.Lemmas.C02Comp

namespace ArchSim.Pipe
open ArchSim ArchSim.Rv

theorem tick_sim (p : PSt) : Sim p.st (tick p) := ⟨rfl, rfl, rfl, rfl, rfl, rfl, rfl, rfl⟩

/-- IF does not change anything observable (only the icache, the cycle counter and the pc). -/
theorem ifOut_sim (p : PSt) (hI : PInv p) : Sim p.st (ifOut p).1 := by
  rcases Option.eq_none_or_eq_some p.stalled with hs | ⟨st, hs⟩
  · cases hi : p.st.imem.instrAt p.st.pc with
    | none => rw [ifOut_noinstr p hs hi]; exact tick_sim p
    | some i =>
      rw [ifOut_instr p hs i hi hI.icoh.fetchSound]
      exact ⟨rfl, rfl, rfl, rfl, rfl, rfl, rfl, ((hI.icoh.fetchSound _ _ hi).2).symm⟩
  · rw [ifOut_stalled p st hs]; exact tick_sim p

/-- The state after this cycle's WB is the write-back of `l3` on the old state. -/
theorem wbOut_sim (p : PSt) (hI : PInv p) : Sim (wbStage p.st p.l3).1 (wbOut p).1 :=
  (wbStage_sim (ifOut_sim p hI) p.l3).1

/-- An ECALL runs its service only when nothing older is in flight. -/
theorem exec_mode (p : PSt) (hI : PInv p) (d : Latch) (hd : exInput p = some d)
    (hw : ecallMustWait d p.l2 p.l3 = false) : memInput p = none ∧ p.l3 = none := by
  have hsh := hI.shape
  unfold Shape at hsh
  rcases Option.eq_none_or_eq_some p.stalled with hs | ⟨st, hs⟩
  · have hd1 : p.l1 = some d := by simpa [exInput, hs] using hd
    have hf := hI.f1 d hd1
    simp [ecallMustWait, hf] at hw
    exact ⟨by simp [memInput, hs, hw.1], hw.2⟩
  · rw [hs] at hsh
    rcases hsh with ⟨hk, _, _⟩ | ⟨hk, hrem, ⟨e, hp1, hfl, _⟩, _, _⟩
    · simp [exInput, hs, hk] at hd
    · have hde : d = e := by simpa [exInput, hs, hk, hp1] using hd.symm
      subst hde
      simp [ecallMustWait, hfl] at hw
      exact ⟨by simp [memInput, hs, hk], hw⟩

/-- EX either leaves the state alone or runs an ECALL with nothing older in flight. -/
theorem exOut_cases (p : PSt) (hI : PInv p) :
    (exOut p).st = (wbOut p).1 ∨
      ∃ d, exInput p = some d ∧ d.instr.op = .ecall ∧ exOut p = ecallRun (wbOut p).1 d ∧
        memInput p = none ∧ p.l3 = none := by
  rcases exStage_st (wbOut p).1 (exInput p) p.l2 p.l3 with h | ⟨d, hd, hop, hw, h⟩
  · exact Or.inl h
  · exact Or.inr ⟨d, hd, hop, h, exec_mode p hI d hd hw⟩

end ArchSim.Pipe
