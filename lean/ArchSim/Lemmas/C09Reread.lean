/-
C09 helper lemmas, part 6: uncounted reads.
* an uncounted read never changes the counters and adds no cycles (unconditionally);
* `Touched`: the block of an address is resident and was the last one the policy of its set was
  told about.  Every accepted read, write-back write and write-through write hit leaves its block
  `Touched`; an uncounted read of a `Touched` block changes nothing at all (given an idempotent
  policy `access`).
-/
import ArchSim.Lemmas.C09Commute

namespace ArchSim.Lemmas.C09
open ArchSim ArchSim.Cache ArchSim.Spec.TagCache

section
variable {σ : Type} {P : PolicyOps σ} {ok : σ → Prop} {s : DSys σ}

/-! ### Counters are only touched by the counting code -/

/-- `_read_block` changes nothing but the sets and the lower memory. -/
theorem readBlockSys_frame (s : DSys σ) (d : DAddr) :
    (s.readBlockSys P d).1.hits = s.hits ∧ (s.readBlockSys P d).1.accesses = s.accesses ∧
    (s.readBlockSys P d).1.lastHit = s.lastHit ∧ (s.readBlockSys P d).1.wt = s.wt ∧
    (s.readBlockSys P d).1.geo = s.geo ∧ (s.readBlockSys P d).1.penalty = s.penalty := by
  unfold DSys.readBlockSys
  repeat' split
  all_goals first
    | exact ⟨rfl, rfl, rfl, rfl, rfl, rfl⟩
    | (simp only; split <;> exact ⟨rfl, rfl, rfl, rfl, rfl, rfl⟩)

/-- An uncounted read — accepted or not, hit or miss, successful or raising — leaves the three
    counters alone and adds no cycles. -/
theorem read_uncounted_frame (s : DSys σ) (bits : Nat) (a : Int) :
    (s.read P bits a false).sys.hits = s.hits ∧ (s.read P bits a false).sys.accesses = s.accesses ∧
    (s.read P bits a false).sys.lastHit = s.lastHit ∧ (s.read P bits a false).extra = 0 := by
  have hfr := readBlockSys_frame (P := P) s (decode s.geo.idxBits s.geo.blkBits a)
  unfold DSys.read
  simp only
  rcases h : s.readBlockSys P (decode s.geo.idxBits s.geo.blkBits a) with ⟨s1, r⟩
  rw [h] at hfr
  cases r with
  | error e => exact ⟨hfr.1, hfr.2.1, hfr.2.2.1, rfl⟩
  | ok vh =>
    obtain ⟨vals, hit⟩ := vh
    exact ⟨hfr.1, hfr.2.1, hfr.2.2.1, rfl⟩

/-! ### `Touched` -/

/-- The block of `d` is resident in way `i` of its set with payload `vals`, and telling the policy
    about way `i` again changes nothing. -/
def Touched (P : PolicyOps σ) (s : DSys σ) (d : DAddr) (vals : List Nat) : Prop :=
  ∃ cs i, s.sets[d.setIdx]? = some cs ∧ findWay cs.ways d.tag = some i ∧
    P.access cs.pol i = some cs.pol ∧ (cs.ways[i]?.map (·.vals)).getD [] = vals

/-- Reading a touched block without counting is the identity on the whole state. -/
theorem read_of_touched {bits : Nat} {a : Int} {vals : List Nat}
    (h : Touched P s (decode s.geo.idxBits s.geo.blkBits a) vals) :
    s.read P bits a false =
      { sys := s, res := fromBlock bits (decode s.geo.idxBits s.geo.blkBits a) vals, extra := 0 } := by
  obtain ⟨cs, i, hs, hf, ha, hv⟩ := h
  have h1 := read_of_readBlockSys bits a false (readBlockSys_hit (s := s) hs hf ha)
  rw [h1, hv]
  have : s.sets.set (decode s.geo.idxBits s.geo.blkBits a).setIdx { cs with pol := cs.pol } = s.sets :=
    set_self hs
  simp [this]

theorem Touched.congr {d d' : DAddr} {vals : List Nat} (h : Touched P s d vals)
    (h1 : d'.setIdx = d.setIdx) (h2 : d'.tag = d.tag) : Touched P s d' vals := by
  obtain ⟨cs, i, hs, hf, ha, hv⟩ := h
  exact ⟨cs, i, h1 ▸ hs, h2 ▸ hf, ha, hv⟩

/-- After a way has been (re)written with the tag, `findWay` finds it, provided no earlier way
    holds the tag. -/
theorem findWay_set {α : Type} {ways : List (Way α)} {d : DAddr} {v : Nat} (vals : List α)
    (hv : v < ways.length)
    (hb : ∀ j, j < v → (ways.map eraseWay)[j]? ≠ some (some d.tag)) :
    findWay (ways.set v (newWay d vals)) d.tag = some v := by
  apply findWay_of_first
  · rw [List.map_set, List.getElem?_set_self (by simpa using hv)]
    rfl
  · intro j hj
    rw [List.map_set, List.getElem?_set_ne (by omega)]
    exact hb j hj

theorem touched_of_set {sets : List (CSet σ Nat)} {idx : Nat} {cs cs' : CSet σ Nat}
    (hs : sets[idx]? = some cs) : (sets.set idx cs')[idx]? = some cs' := by
  have := (List.getElem?_eq_some_iff.mp hs).1
  simp [this]

/-- Every accepted read leaves its block touched, holding the block it returned a value from. -/
theorem touched_read (hP : PolicyOK P s.geo.assoc ok) (hI : PolicyIdem P ok) (hinv : Inv ok s)
    {bits : Nat} {a : Int} (hacc : Accepted bits a) (counted : Bool) :
    ∃ vals, Touched P (s.read P bits a counted).sys (decode s.geo.idxBits s.geo.blkBits a) vals ∧
      (s.read P bits a counted).res = fromBlock bits (decode s.geo.idxBits s.geo.blkBits a) vals := by
  obtain ⟨cs, hs, hcs⟩ := hinv.getSet a
  cases hf : findWay cs.ways (decode s.geo.idxBits s.geo.blkBits a).tag with
  | some i =>
    have hi : i < s.geo.assoc := hcs.nways ▸ findWay_lt hf
    obtain ⟨p, hp, hokp⟩ := hP.access cs.pol i hcs.pol hi
    have hrd := read_of_readBlockSys bits a counted (readBlockSys_hit (s := s) hs hf hp)
    rw [hrd]
    refine ⟨_, ⟨{ cs with pol := p }, i, ?_, hf, hI cs.pol p i hcs.pol hp, rfl⟩, rfl⟩
    cases counted <;> exact touched_of_set hs
  | none =>
    obtain ⟨ws, hws, hlen, hb1, hb2⟩ := fetch_block hinv hacc
    obtain ⟨v, old, p, hv, ho, hp, hokp, hold⟩ := victim_way hP hcs
    have hvl : v < cs.ways.length := (List.getElem?_eq_some_iff.mp ho).1
    have hrd := read_of_readBlockSys bits a counted
      (readBlockSys_miss (s := s) hs hf hws hv ho hp hinv.cfg hold)
    rw [hrd]
    refine ⟨ws, ⟨{ ways := cs.ways.set v (newWay _ ws), pol := p }, v, ?_,
      findWay_set ws hvl (fun j _ => findWay_none hf j), hI cs.pol p v hcs.pol hp, ?_⟩, rfl⟩
    · cases counted <;> exact touched_of_set hs
    · simp [List.getElem?_set_self hvl, newWay]

/-- Every accepted write-back write leaves its block touched. -/
theorem touched_writeWB (hP : PolicyOK P s.geo.assoc ok) (hI : PolicyIdem P ok) (hinv : Inv ok s)
    {bits : Nat} {a : Int} (hacc : Accepted bits a) (v : Nat) :
    ∃ vals, Touched P (s.writeWB P bits a v).sys (decode s.geo.idxBits s.geo.blkBits a) vals := by
  obtain ⟨cs, hs, hcs⟩ := hinv.getSet a
  cases hf : findWay cs.ways (decode s.geo.idxBits s.geo.blkBits a).tag with
  | some i =>
    have hil : i < cs.ways.length := findWay_lt hf
    have hi : i < s.geo.assoc := hcs.nways ▸ hil
    obtain ⟨p, hp, hokp⟩ := hP.access cs.pol i hcs.pol hi
    have hp2 := hI cs.pol p i hcs.pol hp
    obtain ⟨b', hb', hbl⟩ := intoBlock_ok hacc s.geo.idxBits s.geo.blkBits
      ((cs.ways[i]?.map (·.vals)).getD []) v
    rw [writeWB_hit (s := s) bits a v rfl hs hf hp hp2 hb']
    exact ⟨_, _, i, touched_of_set hs, findWay_set b' hil (findWay_before hf), hp2, rfl⟩
  | none =>
    obtain ⟨ws, hws, hlen, hb1, hb2⟩ := fetch_block hinv hacc
    obtain ⟨v', old, p, hv, ho, hp, hokp, hold⟩ := victim_way hP hcs
    have hvl : v' < cs.ways.length := (List.getElem?_eq_some_iff.mp ho).1
    obtain ⟨b', hb', hbl⟩ := intoBlock_ok hacc s.geo.idxBits s.geo.blkBits ws v
    rw [writeWB_miss (s := s) bits a v rfl hs hf hws hb' hv ho hp hinv.cfg hold]
    exact ⟨_, _, v', touched_of_set hs, findWay_set b' hvl (fun j _ => findWay_none hf j),
      hI cs.pol p v' hcs.pol hp, rfl⟩

/-- An accepted write-through write that hits leaves its block touched. -/
theorem touched_writeWT_hit (hP : PolicyOK P s.geo.assoc ok) (hI : PolicyIdem P ok) (hinv : Inv ok s)
    {bits : Nat} {a : Int} (hacc : Accepted bits a) (v : Nat)
    (hhit : (s.writeWT P bits a v).sys.lastHit = true) :
    ∃ vals, Touched P (s.writeWT P bits a v).sys (decode s.geo.idxBits s.geo.blkBits a) vals := by
  obtain ⟨cs, hs, hcs⟩ := hinv.getSet a
  obtain ⟨m', hm', hc'⟩ := memWrite_accepted hacc s.mem hinv.cfg v
  cases hf : findWay cs.ways (decode s.geo.idxBits s.geo.blkBits a).tag with
  | some i =>
    have hil : i < cs.ways.length := findWay_lt hf
    have hi : i < s.geo.assoc := hcs.nways ▸ hil
    obtain ⟨p, hp, hokp⟩ := hP.access cs.pol i hcs.pol hi
    have hp2 := hI cs.pol p i hcs.pol hp
    obtain ⟨b', hb', hbl⟩ := intoBlock_ok hacc s.geo.idxBits s.geo.blkBits
      ((cs.ways[i]?.map (·.vals)).getD []) v
    rw [writeWT_hit (s := s) bits a v rfl hs hf hp hp2 hb' hm']
    exact ⟨_, _, i, touched_of_set hs, findWay_set b' hil (findWay_before hf), hp2, rfl⟩
  | none =>
    rw [writeWT_miss (P := P) (s := s) bits a v rfl hs hf (laneErr_none hacc _ _) hm'] at hhit
    cases hhit

/-! ### Same block -/

/-- Two addresses in the same cache block. -/
def SameBlock (g : Geo) (a a' : Int) : Prop :=
  wrap32 a / 2 ^ (g.blkBits + 2) = wrap32 a' / 2 ^ (g.blkBits + 2)

theorem SameBlock.decode {g : Geo} {a a' : Int} (h : SameBlock g a a') :
    (decode g.idxBits g.blkBits a').setIdx = (decode g.idxBits g.blkBits a).setIdx ∧
    (decode g.idxBits g.blkBits a').tag = (decode g.idxBits g.blkBits a).tag := by
  unfold SameBlock at h
  have hp : 2 ^ (g.idxBits + g.blkBits + 2) = 2 ^ (g.blkBits + 2) * 2 ^ g.idxBits := by
    rw [← Nat.pow_add]; congr 1; omega
  simp only [Cache.decode, hp, ← Nat.div_div_eq_div_mul, h, and_self]

/-- `DSys.read` looks at the address only through its 32-bit wrap. -/
theorem read_wrap_congr (s : DSys σ) (bits : Nat) {a a' : Int} (h : wrap32 a' = wrap32 a)
    (counted : Bool) : s.read P bits a' counted = s.read P bits a counted := by
  have : decode s.geo.idxBits s.geo.blkBits a' = decode s.geo.idxBits s.geo.blkBits a := by
    simp only [Cache.decode, h]
  unfold DSys.read
  rw [this]

/-- The geometry after a read is the geometry before. -/
theorem read_geo (s : DSys σ) (bits : Nat) (a : Int) (counted : Bool) :
    (s.read P bits a counted).sys.geo = s.geo := by
  have hfr := readBlockSys_frame (P := P) s (decode s.geo.idxBits s.geo.blkBits a)
  unfold DSys.read
  simp only
  rcases h : s.readBlockSys P (decode s.geo.idxBits s.geo.blkBits a) with ⟨s1, r⟩
  rw [h] at hfr
  cases r with
  | error e => exact hfr.2.2.2.2.1
  | ok vh =>
    obtain ⟨vals, hit⟩ := vh
    cases counted <;> exact hfr.2.2.2.2.1

/-- **Re-read neutrality.** After any accepted read at `a`, an uncounted read anywhere in the same
    block leaves the entire state unchanged and adds no cycles. -/
theorem reread_same_block (hP : PolicyOK P s.geo.assoc ok) (hI : PolicyIdem P ok) (hinv : Inv ok s)
    {bits : Nat} {a : Int} (hacc : Accepted bits a) (counted : Bool) (bits' : Nat) {a' : Int}
    (hsame : SameBlock s.geo a a') :
    ((s.read P bits a counted).sys.read P bits' a' false).sys = (s.read P bits a counted).sys ∧
    ((s.read P bits a counted).sys.read P bits' a' false).extra = 0 := by
  obtain ⟨vals, ht, _⟩ := touched_read hP hI hinv hacc counted
  have hg := read_geo (P := P) s bits a counted
  have ht' : Touched P (s.read P bits a counted).sys
      (decode (s.read P bits a counted).sys.geo.idxBits (s.read P bits a counted).sys.geo.blkBits a')
      vals := by
    rw [hg]
    exact ht.congr hsame.decode.1 hsame.decode.2
  rw [read_of_touched ht']
  exact ⟨rfl, rfl⟩

/-- Re-reading the *same* address with the same width returns the same result, too. -/
theorem reread_same_address (hP : PolicyOK P s.geo.assoc ok) (hI : PolicyIdem P ok)
    (hinv : Inv ok s) {bits : Nat} {a : Int} (hacc : Accepted bits a) (counted : Bool) {a' : Int}
    (haa : wrap32 a' = wrap32 a) :
    (s.read P bits a counted).sys.read P bits a' false =
      { sys := (s.read P bits a counted).sys, res := (s.read P bits a counted).res, extra := 0 } := by
  rw [read_wrap_congr _ bits haa]
  obtain ⟨vals, ht, hres⟩ := touched_read hP hI hinv hacc counted
  have hg := read_geo (P := P) s bits a counted
  have ht' : Touched P (s.read P bits a counted).sys
      (decode (s.read P bits a counted).sys.geo.idxBits (s.read P bits a counted).sys.geo.blkBits a)
      vals := by
    rw [hg]; exact ht
  rw [read_of_touched ht', hres, hg]

/-- The geometry after an accepted write is the geometry before. -/
theorem write_geo (hP : PolicyOK P s.geo.assoc ok) (hI : PolicyIdem P ok) (hinv : Inv ok s)
    {bits : Nat} {a : Int} (hacc : Accepted bits a) (v : Nat) :
    (s.write P bits a v false).sys.geo = s.geo := by
  have h := (write_sim hP hI hinv hacc v).1.erase_eq
  have h1 : (erase (s.write P bits a v false).sys).geo = (refWrite P (erase s) a).cache.geo := by
    rw [h]
  exact h1

/-- Re-read neutrality after a write that left the block resident: any accepted write-back write,
    or an accepted write-through write that hit. -/
theorem reread_after_write (hP : PolicyOK P s.geo.assoc ok) (hI : PolicyIdem P ok) (hinv : Inv ok s)
    {bits : Nat} {a : Int} (hacc : Accepted bits a) (v : Nat)
    (hcase : s.wt = false ∨ (s.write P bits a v false).sys.lastHit = true)
    (bits' : Nat) {a' : Int} (hsame : SameBlock s.geo a a') :
    ((s.write P bits a v false).sys.read P bits' a' false).sys = (s.write P bits a v false).sys ∧
    ((s.write P bits a v false).sys.read P bits' a' false).extra = 0 := by
  have hg := write_geo hP hI hinv hacc v
  have ht : ∃ vals, Touched P (s.write P bits a v false).sys
      (decode s.geo.idxBits s.geo.blkBits a) vals := by
    cases hwt : s.wt
    · have hw : s.write P bits a v false = s.writeWB P bits a v := by simp [DSys.write, hwt]
      rw [hw]; exact touched_writeWB hP hI hinv hacc v
    · have hw : s.write P bits a v false = s.writeWT P bits a v := by simp [DSys.write, hwt]
      rw [hw] at hcase ⊢
      rcases hcase with h | h
      · rw [hwt] at h; cases h
      · exact touched_writeWT_hit hP hI hinv hacc v h
  obtain ⟨vals, ht⟩ := ht
  have ht' : Touched P (s.write P bits a v false).sys
      (decode (s.write P bits a v false).sys.geo.idxBits (s.write P bits a v false).sys.geo.blkBits a')
      vals := by
    rw [hg]
    exact ht.congr hsame.decode.1 hsame.decode.2
  rw [read_of_touched ht']
  exact ⟨rfl, rfl⟩

end

end ArchSim.Lemmas.C09
