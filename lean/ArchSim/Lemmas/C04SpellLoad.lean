/-
C04 (spelling independence), part 13: a successful `load` depends only on the entry texts of the source, in
order — not on the line numbers, hence not on blank lines, comments or indentation.
-/
import ArchSim.Lemmas.C04SpellText
import ArchSim.Lemmas.C04SpellRenum
import ArchSim.Lemmas.C05Renum
import ArchSim.Lemmas.C14Load

namespace ArchSim.Lemmas.C04Spell
open ArchSim ArchSim.PP ArchSim.Asm ArchSim.Rv
open ArchSim.Lemmas.C05 (renE loadSeg loadSeg_renum load_factors segStep seg0 segment_cons loadReset)

/-- renumber a sanitized line -/
def renL (g : Nat → Nat) (p : Nat × List Char) : Nat × List Char := (g p.1, p.2)

theorem tokenize_renum (g : Nat → Nat) (sl : List (Nat × List Char)) (es : List Entry) (h : tokenize sl = .ok es) :
    tokenize (sl.map (renL g)) = .ok (es.map (renE g)) := by
  induction sl generalizing es with
  | nil => simp only [tokenize, Except.ok.injEq] at h; subst h; rfl
  | cons p rest ih =>
    obtain ⟨k, l⟩ := p
    simp only [tokenize] at h
    cases hp : parseLine l with
    | none => rw [hp] at h; cases h
    | some t =>
      cases hr : tokenize rest with
      | error e => rw [hp, hr] at h; cases h
      | ok es' =>
        rw [hp, hr] at h
        cases h
        simp only [List.map_cons, renL, tokenize, hp, ih es' hr]
        rfl

/-! ### `segment` -/

def renSeg (g : Nat → Nat) (s : Seg) : Seg :=
  { data := s.data.map (renE g), text := s.text.map (renE g), dataExists := s.dataExists,
    textExists := s.textExists }

theorem isDir_renE (g : Nat → Nat) (d : String) (e : Entry) : isDir d (renE g e) = isDir d e := rfl

theorem idxOfLine_renum (g : Nat → Nat) (hg : ∀ a b, g a = g b → a = b) (k : Nat) (l : List Entry) :
    idxOfLine (g k) (l.map (renE g)) = idxOfLine k l := by
  unfold idxOfLine
  rw [List.findIdx_map]
  congr 1
  funext e
  simp only [Function.comp, renE]
  rw [Bool.eq_iff_iff]
  simp only [beq_iff_eq]
  exact ⟨fun h => hg _ _ h, fun h => by rw [h]⟩

theorem segStep_renum (g : Nat → Nat) (hg : ∀ a b, g a = g b → a = b) (s s' : Seg) (e : Entry)
    (h : segStep (.ok s) e = .ok s') : segStep (.ok (renSeg g s)) (renE g e) = .ok (renSeg g s') := by
  simp only [segStep, isDir_renE] at h ⊢
  by_cases hd : isDir "data" e = true
  · simp only [hd, if_true] at h ⊢
    by_cases hx : (!s.dataExists) = true
    · simp only [hx, if_true, Except.ok.injEq] at h
      subst h
      have : (!(renSeg g s).dataExists) = true := hx
      simp only [this, if_true]
      simp only [renSeg, renE, idxOfLine_renum g hg, List.map_drop, List.map_take]
    · simp only [hx] at h; cases h
  · simp only [hd] at h ⊢
    by_cases ht : isDir "text" e = true
    · simp only [ht, if_true] at h ⊢
      by_cases hx : (!s.textExists) = true
      · simp only [hx, if_true, Except.ok.injEq, Bool.false_eq_true, if_false] at h
        subst h
        have : (!(renSeg g s).textExists) = true := hx
        simp only [this, if_true, Bool.false_eq_true, if_false]
        simp only [renSeg, renE, idxOfLine_renum g hg, List.map_drop, List.map_take]
      · simp only [hx, Bool.false_eq_true, if_false] at h; cases h
    · simp only [ht, Bool.false_eq_true, if_false, Except.ok.injEq] at h ⊢
      rw [h]

theorem foldl_segStep_error (l : List Entry) (x : AsmErr) : l.foldl segStep (.error x) = .error x := by
  induction l with
  | nil => rfl
  | cons e l ih => simpa [segStep] using ih

theorem foldl_segStep_renum (g : Nat → Nat) (hg : ∀ a b, g a = g b → a = b) (l : List Entry) (s s' : Seg)
    (h : l.foldl segStep (.ok s) = .ok s') :
    (l.map (renE g)).foldl segStep (.ok (renSeg g s)) = .ok (renSeg g s') := by
  induction l generalizing s with
  | nil => simp only [List.foldl_nil, Except.ok.injEq] at h; subst h; rfl
  | cons e l ih =>
    simp only [List.foldl_cons] at h
    cases h1 : segStep (.ok s) e with
    | error x => rw [h1, foldl_segStep_error] at h; cases h
    | ok s1 =>
      rw [h1] at h
      simp only [List.map_cons, List.foldl_cons, segStep_renum g hg s s1 e h1]
      exact ih s1 h

theorem seg0_renum (g : Nat → Nat) (first : Entry) (rest : List Entry) :
    seg0 (renE g first) (rest.map (renE g)) = renSeg g (seg0 first rest) := by
  simp only [seg0, isDir_renE]
  by_cases hd : isDir "data" first = true
  · simp only [hd, if_true]; rfl
  · by_cases ht : isDir "text" first = true
    · simp only [hd, ht, if_true, Bool.false_eq_true, if_false]; rfl
    · simp only [hd, ht, Bool.false_eq_true, if_false]; rfl

theorem segment_renum (g : Nat → Nat) (hg : ∀ a b, g a = g b → a = b) (toks d t : List Entry)
    (h : segment toks = .ok (d, t)) :
    segment (toks.map (renE g)) = .ok (d.map (renE g), t.map (renE g)) := by
  cases toks with
  | nil => simp only [segment, Except.ok.injEq, Prod.mk.injEq] at h; obtain ⟨rfl, rfl⟩ := h; rfl
  | cons first rest =>
    rw [segment_cons] at h
    rw [List.map_cons, segment_cons, seg0_renum]
    cases hf : rest.foldl segStep (.ok (seg0 first rest)) with
    | error x => rw [hf] at h; cases h
    | ok s' =>
      rw [hf] at h
      simp only [Except.ok.injEq, Prod.mk.injEq] at h
      obtain ⟨rfl, rfl⟩ := h
      rw [foldl_segStep_renum g hg rest _ s' hf]
      rfl

/-- A successful load is unchanged by an injective renumbering of the source lines. -/
theorem load_renum (s : St) (t1 t2 : String) (g : Nat → Nat) (hg : ∀ a b, g a = g b → a = b)
    (h : sanitize t2 = (sanitize t1).map (renL g)) (hok : (load s t1).err = none) : load s t2 = load s t1 := by
  rw [load_factors] at hok
  rw [load_factors s t1, load_factors s t2, h]
  cases ht : tokenize (sanitize t1) with
  | error e => rw [ht] at hok; cases hok
  | ok toks =>
    rw [ht] at hok
    simp only at hok ⊢
    rw [tokenize_renum g _ toks ht]
    simp only
    cases hs : segment toks with
    | error e => rw [hs] at hok; cases hok
    | ok p =>
      obtain ⟨d, t⟩ := p
      rw [hs] at hok
      simp only at hok ⊢
      rw [segment_renum g hg toks d t hs]
      exact loadSeg_renum g g hg _ d t hok

theorem pairs_ext {α β : Type} (l1 l2 : List (α × β)) (h1 : l1.map (·.1) = l2.map (·.1))
    (h2 : l1.map (·.2) = l2.map (·.2)) : l1 = l2 := by
  induction l1 generalizing l2 with
  | nil => cases l2 with
    | nil => rfl
    | cons _ _ => simp at h1
  | cons a l1 ih =>
    cases l2 with
    | nil => simp at h1
    | cons b l2 =>
      simp only [List.map_cons, List.cons.injEq] at h1 h2
      rw [ih l2 h1.2 h2.2, Prod.ext h1.1 h2.1]

/-- the entry texts of a source text, in order -/
def entryTexts (text : String) : List (List Char) := (splitLines text.toList).filterMap entryOf

/-- Comments, blank lines and indentation never change the result: two source texts with the same entry
    texts in the same order load to the same state whenever one of them loads without error. -/
theorem load_same_entries (s : St) (t1 t2 : String) (h : entryTexts t1 = entryTexts t2)
    (hok : (load s t1).err = none) : load s t2 = load s t1 := by
  have hsnd : (sanitize t1).map (·.2) = (sanitize t2).map (·.2) := by
    rw [sanitize_texts, sanitize_texts]; exact h
  have hlen : ((sanitize t1).map (·.1)).length = ((sanitize t2).map (·.1)).length := by
    have := congrArg List.length hsnd
    simpa using this
  have hnd2 := nodup_of_sorted _ (sanitize_sorted t2)
  have hnd1 := nodup_of_sorted _ (sanitize_sorted t1)
  let big := ((sanitize t2).map (·.1)).sum + 1
  let g := remap ((sanitize t1).map (·.1)) ((sanitize t2).map (·.1)) big
  have hg : ∀ a b, g a = g b → a = b :=
    remap_injective _ _ big hlen hnd2 (fun k hk => by have := le_sum_of_mem _ k hk; omega)
  apply load_renum s t1 t2 g hg ?_ hok
  apply pairs_ext
  · rw [List.map_map]
    have : ((fun x : Nat × List Char => x.1) ∘ renL g) = g ∘ (fun x => x.1) := by funext x; rfl
    rw [this, ← List.map_map, remap_map _ _ big hlen hnd1]
  · rw [List.map_map]
    have : ((fun x : Nat × List Char => x.2) ∘ renL g) = (fun x => x.2) := by funext x; rfl
    rw [this, hsnd]

/-! ### texts given as lists of lines -/

open ArchSim.Lemmas.C14 (NoBreak splitLines_go_line splitLines_go_nl)

/-- `str.splitlines()` gives no empty last line -/
def dropLastEmpty (ls : List (List Char)) : List (List Char) :=
  if ls.getLast? = some [] then ls.dropLast else ls

theorem dropLastEmpty_cons_cons (l l' : List Char) (ls : List (List Char)) :
    dropLastEmpty (l :: l' :: ls) = l :: dropLastEmpty (l' :: ls) := by
  simp only [dropLastEmpty, List.getLast?_cons_cons, List.dropLast_cons_cons]
  split <;> rfl

theorem splitLines_go_join' (ls : List (List Char)) (acc : List (List Char)) (hnb : ∀ l ∈ ls, NoBreak l) :
    splitLines.go (['\n'].intercalate ls) false [] acc = acc.reverse ++ dropLastEmpty ls := by
  induction ls generalizing acc with
  | nil => simp [splitLines.go, dropLastEmpty]
  | cons l ls ih =>
    cases ls with
    | nil =>
      have h := splitLines_go_line l [] [] acc (hnb l (by simp))
      simp only [List.append_nil] at h
      by_cases hl : l = []
      · subst hl; simp [splitLines.go, dropLastEmpty]
      · simp [h, splitLines.go, hl, dropLastEmpty]
    | cons l' ls' =>
      rw [List.intercalate_cons_cons, List.append_assoc, splitLines_go_line _ _ _ _ (hnb l (by simp))]
      simp only [List.singleton_append, List.append_nil, splitLines_go_nl, List.reverse_reverse]
      rw [ih (l :: acc) (fun x hx => hnb x (by simp [hx])), dropLastEmpty_cons_cons]
      simp

/-- lines joined by "\n" are split back into the same lines (without an empty last line) -/
theorem splitLines_join' (ls : List (List Char)) (hnb : ∀ l ∈ ls, NoBreak l) :
    splitLines (['\n'].intercalate ls) = dropLastEmpty ls := by
  unfold splitLines
  simpa using splitLines_go_join' ls [] hnb

theorem entryOf_nil : entryOf [] = none := entryOf_blank [] (by intro c hc; cases hc)

theorem filterMap_dropLastEmpty (ls : List (List Char)) :
    (dropLastEmpty ls).filterMap entryOf = ls.filterMap entryOf := by
  unfold dropLastEmpty
  split
  · next h =>
    obtain ⟨ys, rfl⟩ := List.getLast?_eq_some_iff.mp h
    simp [List.filterMap_append, entryOf_nil]
  · rfl

/-- the text made of the lines `ls` -/
def joinLines (ls : List (List Char)) : String := String.ofList (['\n'].intercalate ls)

/-- The entry texts of a text given by its lines: one per line that has an entry. -/
theorem entryTexts_joinLines (ls : List (List Char)) (hnb : ∀ l ∈ ls, NoBreak l) :
    entryTexts (joinLines ls) = ls.filterMap entryOf := by
  simp only [entryTexts, joinLines, String.toList_ofList, splitLines_join' ls hnb, filterMap_dropLastEmpty]

end ArchSim.Lemmas.C04Spell
