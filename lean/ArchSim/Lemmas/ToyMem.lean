/-
Facts about `Mem.read` / `Mem.write` / `Mem.writeN` for the TOY configuration (`Mem.toyCfg`):
a 16-bit access is exactly one cell, never fails for `0 ≤ a < 4096`, and read-after-write.
-/
import ArchSim.Model.Toy

namespace ArchSim.Toy
open ArchSim

/-- One-cell write of the TOY memory, as an explicit record. -/
def putCell (m : Mem.Mem) (a : Nat) (v : Nat) : Mem.Mem :=
  { m with cells := fun x => if x = (a : Int) then v % 65536 else m.cells x,
           keys := if (a : Int) ∈ m.keys then m.keys else m.keys ++ [(a : Int)] }

theorem inRange_toy (a : Nat) (ha : a < 4096) : Mem.inRange Mem.toyCfg (a : Int) = true := by
  show (decide ((0:Int) ≤ a) && decide ((a:Int) < 4096)) = true
  simp; omega

theorem inRange_toy_ge (a : Nat) (ha : 4096 ≤ a) : Mem.inRange Mem.toyCfg (a : Int) = false := by
  show (decide ((0:Int) ≤ a) && decide ((a:Int) < 4096)) = false
  simp; omega

theorem wrapAddr_toy (a : Int) : Mem.wrapAddr Mem.toyCfg a = a := rfl

theorem writeCell_toy (m : Mem.Mem) (hc : m.cfg = Mem.toyCfg) (a : Nat) (ha : a < 4096) (v : Nat) :
    Mem.writeCell m (a : Int) v =
      .ok { m with cells := fun x => if x = (a : Int) then v else m.cells x,
                   keys := if (a : Int) ∈ m.keys then m.keys else m.keys ++ [(a : Int)] } := by
  unfold Mem.writeCell
  simp only [hc, wrapAddr_toy, inRange_toy a ha, if_true]

theorem writeCell_toy_err (m : Mem.Mem) (hc : m.cfg = Mem.toyCfg) (a : Nat) (ha : 4096 ≤ a) (v : Nat) :
    Mem.writeCell m (a : Int) v = .error ⟨(a : Int)⟩ := by
  unfold Mem.writeCell
  simp [hc, wrapAddr_toy, inRange_toy_ge a ha]

theorem readCell_toy (m : Mem.Mem) (hc : m.cfg = Mem.toyCfg) (a : Nat) (ha : a < 4096) :
    Mem.readCell m (a : Int) = .ok (m.cells (a : Int)) := by
  unfold Mem.readCell
  simp only [hc, wrapAddr_toy, inRange_toy a ha, if_true]

theorem cellsOf_toy : Mem.cellsOf Mem.toyCfg 16 = 1 := by decide
theorem cellBits_toy : Mem.toyCfg.cellBits = 16 := rfl

/-- A halfword read of the TOY memory is exactly one cell and never fails in range. -/
theorem read_toy (m : Mem.Mem) (hc : m.cfg = Mem.toyCfg) (a : Nat) (ha : a < 4096) :
    Mem.read m 16 (a : Int) = some (.ok (m.cells (a : Int) % 65536)) := by
  have h3 := readCell_toy m hc a ha
  unfold Mem.read Mem.readN Mem.readNFrom Mem.readNFrom
  simp only [hc, cellsOf_toy, cellBits_toy]
  simp [h3, Except.map]

/-- A one-cell `writeN` of the TOY memory in range. -/
theorem writeN_toy (m : Mem.Mem) (hc : m.cfg = Mem.toyCfg) (a : Nat) (ha : a < 4096) (v : Nat) :
    Mem.writeN m (a : Int) 1 v = (putCell m a v, none) := by
  have h3 := writeCell_toy m hc a ha (v % 65536)
  unfold Mem.writeN Mem.writeNFrom Mem.writeNFrom
  simp only [hc, cellBits_toy]
  simp [h3, putCell]

/-- A one-cell `writeN` outside the TOY range raises and leaves the memory as it was. -/
theorem writeN_toy_err (m : Mem.Mem) (hc : m.cfg = Mem.toyCfg) (a : Nat) (ha : 4096 ≤ a) (v : Nat) :
    Mem.writeN m (a : Int) 1 v = (m, some ⟨(a : Int)⟩) := by
  have h3 := writeCell_toy_err m hc a ha (v % 65536)
  unfold Mem.writeN Mem.writeNFrom
  simp only [hc, cellBits_toy]
  simp [h3]

theorem write_toy (m : Mem.Mem) (hc : m.cfg = Mem.toyCfg) (a : Nat) (ha : a < 4096) (v : Nat) :
    Mem.write m 16 (a : Int) v = some (putCell m a v, none) := by
  have h := writeN_toy m hc a ha v
  unfold Mem.write
  simp only [hc, cellsOf_toy, cellBits_toy]
  simp [h]

@[simp] theorem putCell_cfg (m : Mem.Mem) (a v : Nat) : (putCell m a v).cfg = m.cfg := rfl

theorem putCell_cells (m : Mem.Mem) (a v : Nat) (x : Int) :
    (putCell m a v).cells x = if x = (a : Int) then v % 65536 else m.cells x := rfl

/-- `rd` in range: the cell, reduced to 16 bits. -/
theorem rd_toy (s : TSt) (hc : s.mem.cfg = Mem.toyCfg) (a : Nat) (ha : a < 4096) :
    rd s a = s.mem.cells (a : Int) % 65536 := by
  simp [rd, read_toy s.mem hc a ha]

/-- `wr` in range: one cell replaced. -/
theorem wr_toy (s : TSt) (hc : s.mem.cfg = Mem.toyCfg) (a : Nat) (ha : a < 4096) (v : Nat) :
    wr s a v = putCell s.mem a v := by
  simp [wr, write_toy s.mem hc a ha]

/-- `writeN` never changes the configuration. -/
theorem writeN_one_cfg (m : Mem.Mem) (a : Int) (v : Nat) : (Mem.writeN m a 1 v).1.cfg = m.cfg := by
  unfold Mem.writeN Mem.writeNFrom Mem.writeNFrom Mem.writeCell
  simp only
  split <;> rename_i h
  · rfl
  · split at h
    · cases h; rfl
    · cases h

/-- Read-after-write for the TOY memory (same cell: the stored halfword; other cell: unchanged). -/
theorem rd_wr_toy (s : TSt) (hc : s.mem.cfg = Mem.toyCfg) (a b : Nat) (ha : a < 4096) (hb : b < 4096)
    (v : Nat) :
    rd { s with mem := wr s a v } b = if b = a then v % 65536 else rd s b := by
  rw [rd_toy _ (by simp [wr_toy s hc a ha]; exact hc) b hb, rd_toy s hc b hb, wr_toy s hc a ha]
  simp only [putCell_cells]
  by_cases h : b = a
  · simp [h]
  · have : ¬ ((b : Int) = (a : Int)) := by omega
    simp [h, this]

end ArchSim.Toy
