/-
C02 (data path), part 1: the five stage functions on a NON-EMPTY input, as explicit records, and the
"completion" formulation of `Pipe.splitStep`.

Stable names exported for the pipeline-control proof:
  `idLatch`, `exBase`, `memLatch`, `memCount`, `memSt`, `wbLatch`, `wbSt`            (explicit results)
  `idStage_some`, `exStage_nonEcall`, `exStage_ecall_wait`, `exStage_ecall_run`
  (`exStage_ecall_out/_exit/_err/_invalid`), `memStage_some`, `memStage_error`, `memStage_assert`,
  `wbStage_some`, and the `*_none` lemmas for empty inputs,
  `completeMEMWB`, `completeEXMEM`, `completeIDEX`, `splitStep_eq_complete`.
Further by-products in the later files (same namespace `ArchSim.Lemmas.C02Split`):
  `C02SplitFamilies`: `completeEXMEM_ok/_err`, `completeIDEX_ok/_err/_noMem` (explicit result of the
     completion of ANY latch / state from the ALU result and the memory access), `dAt`, `sAt`, `singleTail`,
     `singleStep_eq`, `AgreeAt`;
  `C02SplitArith`: `Instr.WF`, `aluCompute_r/_i/_shift/_b` (ALU result vs `aluRR`/`aluRI`/`branchCond`);
  `C02SplitMain`: `agree_all_at`, `agree_all_latch` (completion of a latch in general position =
     single-cycle mode at that address), `completeIDEX_core`, `MemOK`, `memOK_flat`.
Core Lean only.
-/
import ArchSim.Model.Pipe

namespace ArchSim.Lemmas.C02Split
open ArchSim ArchSim.Rv ArchSim.Pipe

/-! ### ID -/

/-- The ID/EX register the ID stage produces from a non-empty IF/ID register `f`. -/
def idLatch (hazard : Bool) (regs : Nat → Nat) (f : Latch) (l1 l2 : Option Latch) : Latch :=
  { instr := f.instr, addr := f.addr, pc4 := f.pc4, rr := accessRegs f.instr regs,
    wreg := writeReg f.instr, stall := idStall hazard (accessRegs f.instr regs) l1 l2 }

theorem idStage_some (hazard : Bool) (regs : Nat → Nat) (f : Latch) (l1 l2 : Option Latch) :
    idStage hazard regs (some f) l1 l2 = some (idLatch hazard regs f l1 l2) := rfl

theorem idStage_none (hazard : Bool) (regs : Nat → Nat) (l1 l2 : Option Latch) :
    idStage hazard regs none l1 l2 = none := rfl

/-- Without hazard detection, or with nothing in flight, ID never stalls. -/
theorem idStall_none (hazard : Bool) (rr : RegRead) : idStall hazard rr none none = false := by
  simp [idStall, hazardWith]

theorem idStall_off (rr : RegRead) (l1 l2 : Option Latch) : idStall false rr l1 l2 = false := by
  simp [idStall]

/-! ### EX -/

/-- The EX/MEM register of a non-stalling, non-exiting instruction. -/
def exBase (d : Latch) (cmp : Option Bool) (result : Option Int) : Latch :=
  { instr := d.instr, addr := d.addr, pc4 := d.pc4, rr := d.rr, wreg := d.wreg,
    result := result, cmp := cmp, pcImm := d.rr.imm.map (· + d.addr) }

theorem exStage_none (s : St) (l2 l3 : Option Latch) :
    exStage s none l2 l3 = { st := s, latch := none, fault := none } := rfl

/-- `alu_compute` hit a failed `assert` (a `None` operand): the stage raises. -/
theorem exStage_assert (s : St) (d : Latch) (l2 l3 : Option Latch)
    (halu : aluCompute d.instr (aluIn1 d) (aluIn2 d) = none) :
    exStage s (some d) l2 l3 = { st := s, latch := none, fault := some ⟨d.addr, d.instr, .mem .policy⟩ } := by
  simp [exStage, halu]

/-- EX on anything but an ecall: pure ALU work, the architectural state is untouched. -/
theorem exStage_nonEcall (s : St) (d : Latch) (l2 l3 : Option Latch) (cmp : Option Bool)
    (result : Option Int) (hop : d.instr.op ≠ .ecall)
    (halu : aluCompute d.instr (aluIn1 d) (aluIn2 d) = some (cmp, result)) :
    exStage s (some d) l2 l3 = { st := s, latch := some (exBase d cmp result), fault := none } := by
  simp [exStage, halu, hop, exBase]

theorem aluCompute_ecall (i : Instr) (h : i.op = .ecall) (x y : Option Int) :
    aluCompute i x y = some (none, some 0) := by
  simp [aluCompute, h, Op.ty]

/-- EX on an ecall that still has to wait for older instructions: stall signal, nothing else. -/
theorem exStage_ecall_wait (s : St) (d : Latch) (l2 l3 : Option Latch) (hop : d.instr.op = .ecall)
    (hw : ecallMustWait d l2 l3 = true) :
    exStage s (some d) l2 l3 =
      { st := s, latch := some { exBase d none (some 0) with stall := true }, fault := none } := by
  simp [exStage, aluCompute_ecall d.instr hop, hop, hw, exBase]

/-- What the EX stage does with a drained ecall, by the result of `process_ecall`. -/
def ecallRun (s : St) (d : Latch) : ExOut :=
  match processEcall s with
  | (m, .out str) =>
    { st := { s with mem := m, output := s.output ++ str }, latch := some (exBase d none (some 0)),
      fault := none }
  | (m, .exit c) =>
    { st := { s with mem := m },
      latch := some { exBase d none (some 0) with exitCode := some c, flush := some d.pc4 }, fault := none }
  | (m, .err e) => { st := { s with mem := m }, latch := none, fault := some ⟨d.addr, d.instr, .mem e⟩ }
  | (m, .invalid c) =>
    { st := { s with mem := m }, latch := none, fault := some ⟨d.addr, d.instr, .ecallCode c⟩ }

/-- EX on an ecall with the later registers drained: the service runs in EX. -/
theorem exStage_ecall_run (s : St) (d : Latch) (l2 l3 : Option Latch) (hop : d.instr.op = .ecall)
    (hw : ecallMustWait d l2 l3 = false) :
    exStage s (some d) l2 l3 = ecallRun s d := by
  simp only [exStage, aluCompute_ecall d.instr hop, hop, hw, ecallRun, exBase]
  rfl

theorem ecallMustWait_none (d : Latch) : ecallMustWait d none none = false := by
  simp [ecallMustWait]

theorem exStage_ecall_out (s : St) (d : Latch) (l2 l3 : Option Latch) (hop : d.instr.op = .ecall)
    (hw : ecallMustWait d l2 l3 = false) (m : MemSys) (str : String) (hp : processEcall s = (m, .out str)) :
    exStage s (some d) l2 l3 =
      { st := { s with mem := m, output := s.output ++ str }, latch := some (exBase d none (some 0)),
        fault := none } := by
  rw [exStage_ecall_run s d l2 l3 hop hw]; simp [ecallRun, hp]

theorem exStage_ecall_exit (s : St) (d : Latch) (l2 l3 : Option Latch) (hop : d.instr.op = .ecall)
    (hw : ecallMustWait d l2 l3 = false) (m : MemSys) (c : Int) (hp : processEcall s = (m, .exit c)) :
    exStage s (some d) l2 l3 =
      { st := { s with mem := m },
        latch := some { exBase d none (some 0) with exitCode := some c, flush := some d.pc4 },
        fault := none } := by
  rw [exStage_ecall_run s d l2 l3 hop hw]; simp [ecallRun, hp]

theorem exStage_ecall_err (s : St) (d : Latch) (l2 l3 : Option Latch) (hop : d.instr.op = .ecall)
    (hw : ecallMustWait d l2 l3 = false) (m : MemSys) (e : Cache.Err) (hp : processEcall s = (m, .err e)) :
    exStage s (some d) l2 l3 =
      { st := { s with mem := m }, latch := none, fault := some ⟨d.addr, d.instr, .mem e⟩ } := by
  rw [exStage_ecall_run s d l2 l3 hop hw]; simp [ecallRun, hp]

theorem exStage_ecall_invalid (s : St) (d : Latch) (l2 l3 : Option Latch) (hop : d.instr.op = .ecall)
    (hw : ecallMustWait d l2 l3 = false) (m : MemSys) (c : Nat) (hp : processEcall s = (m, .invalid c)) :
    exStage s (some d) l2 l3 =
      { st := { s with mem := m }, latch := none, fault := some ⟨d.addr, d.instr, .ecallCode c⟩ } := by
  rw [exStage_ecall_run s d l2 l3 hop hw]; simp [ecallRun, hp]

/-- Whatever EX does, a fault it raises carries the address of its input register … -/
theorem exStage_fault_addr (s : St) (d : Latch) (l2 l3 : Option Latch) (ft : PFault)
    (h : (exStage s (some d) l2 l3).fault = some ft) : ft.addr = d.addr := by
  cases halu : aluCompute d.instr (aluIn1 d) (aluIn2 d) with
  | none => rw [exStage_assert s d l2 l3 halu] at h; simp at h; rw [← h]
  | some cr =>
    obtain ⟨cmp, result⟩ := cr
    by_cases hop : d.instr.op = .ecall
    · by_cases hw : ecallMustWait d l2 l3 = true
      · rw [exStage_ecall_wait s d l2 l3 hop hw] at h; simp at h
      · rw [exStage_ecall_run s d l2 l3 hop (by simpa using hw)] at h
        unfold ecallRun at h
        split at h <;> simp at h <;> rw [← h]
    · rw [exStage_nonEcall s d l2 l3 cmp result hop halu] at h; simp at h

/-- … and a register it outputs carries the address of its input register. -/
theorem exStage_latch_addr (s : St) (d : Latch) (l2 l3 : Option Latch) (x : Latch)
    (h : (exStage s (some d) l2 l3).latch = some x) : x.addr = d.addr := by
  cases halu : aluCompute d.instr (aluIn1 d) (aluIn2 d) with
  | none => rw [exStage_assert s d l2 l3 halu] at h; simp at h
  | some cr =>
    obtain ⟨cmp, result⟩ := cr
    by_cases hop : d.instr.op = .ecall
    · by_cases hw : ecallMustWait d l2 l3 = true
      · rw [exStage_ecall_wait s d l2 l3 hop hw] at h; simp at h; rw [← h]; rfl
      · rw [exStage_ecall_run s d l2 l3 hop (by simpa using hw)] at h
        unfold ecallRun at h
        split at h <;> simp at h <;> rw [← h] <;> rfl
    · rw [exStage_nonEcall s d l2 l3 cmp result hop halu] at h; simp at h; rw [← h]; rfl

/-! ### MEM -/

/-- The MEM/WB register. -/
def memLatch (e : Latch) (rd : Option Int) : Latch :=
  { instr := e.instr, addr := e.addr, pc4 := e.pc4, rr := e.rr, wreg := e.wreg,
    result := e.result, cmp := e.cmp, pcImm := e.pcImm, exitCode := e.exitCode,
    memRead := rd, flush := memFlush e }

/-- Branch / procedure counters, bumped by the MEM stage when it flushes. -/
def memCount (e : Latch) (s : St) : St :=
  if (memFlush e).isSome then
    if e.instr.op.ty = .b then { s with branches := s.branches + 1 }
    else if e.instr.op = .jal then { s with procs := s.procs + 1 }
    else s
  else s

/-- The architectural state after the memory access `o` of the MEM stage. -/
def memSt (s : St) (o : MaOut) : St := { s with mem := o.mem, cycles := s.cycles + o.extra }

theorem memStage_none (s : St) : memStage s none = { st := s, latch := none, fault := none } := rfl

theorem memStage_some (s : St) (e : Latch) (o : MaOut) (rd : Option Int)
    (hma : memoryAccess e.instr e.result e.rr.d2 s.mem true = some o) (hres : o.res = .ok rd) :
    memStage s (some e) =
      { st := memCount e (memSt s o), latch := some (memLatch e rd), fault := none } := by
  simp only [memStage, hma, hres, memCount, memSt, memLatch]

theorem memStage_error (s : St) (e : Latch) (o : MaOut) (err : Cache.Err)
    (hma : memoryAccess e.instr e.result e.rr.d2 s.mem true = some o) (hres : o.res = .error err) :
    memStage s (some e) = { st := memSt s o, latch := none, fault := some ⟨e.addr, e.instr, .mem err⟩ } := by
  simp [memStage, hma, hres, memSt]

theorem memStage_assert (s : St) (e : Latch)
    (hma : memoryAccess e.instr e.result e.rr.d2 s.mem true = none) :
    memStage s (some e) = { st := s, latch := none, fault := some ⟨e.addr, e.instr, .mem .policy⟩ } := by
  simp [memStage, hma]

theorem memStage_fault_addr (s : St) (e : Latch) (ft : PFault)
    (h : (memStage s (some e)).fault = some ft) : ft.addr = e.addr := by
  cases hma : memoryAccess e.instr e.result e.rr.d2 s.mem true with
  | none => rw [memStage_assert s e hma] at h; simp at h; rw [← h]
  | some o =>
    cases hres : o.res with
    | error err => rw [memStage_error s e o err hma hres] at h; simp at h; rw [← h]
    | ok rd => rw [memStage_some s e o rd hma hres] at h; simp at h

/-- Memory access of everything that is neither a load nor a store: nothing happens. -/
theorem memoryAccess_other (i : Instr) (h1 : i.op.ty ≠ .memI) (h2 : i.op.ty ≠ .s)
    (a w : Option Int) (ms : MemSys) (c : Bool) :
    memoryAccess i a w ms c = some { mem := ms, extra := 0, res := .ok none } := by
  unfold memoryAccess
  split <;> simp_all

/-! ### WB -/

/-- The register displayed after WB. -/
def wbLatch (m : Latch) : Latch :=
  { instr := m.instr, addr := m.addr, pc4 := m.pc4, wreg := m.wreg, wdata := wbData m,
    memRead := m.memRead, result := m.result, rr := m.rr,
    flush := if m.exitCode.isSome then some m.pc4 else none }

/-- The register file after WB. -/
def wbRegs (m : Latch) (regs : Nat → Nat) : Nat → Nat :=
  (writeBack m.instr m.wreg (wbData m) regs).getD regs

/-- The architectural state after WB: instruction count, register write, exit code. -/
def wbSt (m : Latch) (s : St) : St :=
  { s with instrs := s.instrs + 1, regs := wbRegs m s.regs,
           exitCode := match m.exitCode with | some c => some c | none => s.exitCode }

theorem wbStage_none (s : St) : wbStage s none = (s, none) := rfl

theorem wbStage_some (s : St) (m : Latch) : wbStage s (some m) = (wbSt m s, some (wbLatch m)) := by
  simp only [wbStage, wbSt, wbRegs, wbLatch]
  cases m.exitCode <;> rfl

/-! ### Completion functions -/

/-- Set the pc to a flush target (32-bit register). -/
def applyTarget (s : St) : Option Int → St
  | some a => { s with pc := a % 4294967296 }
  | none => s

/-- The flush signal of the highest register wins (`WB` output, then `MEM/WB`, then `EX/MEM`). -/
def firstFlush (w m x : Option Int) : Option Int :=
  match w with
  | some a => some a
  | none => match m with
    | some a => some a
    | none => x

/-- Finish an instruction sitting in the MEM/WB register: WB only. `exFlush` is the flush signal
    its EX/MEM register carried (only an exiting ecall has one, and it is repeated by WB). -/
def completeMEMWB (m : Option Latch) (exFlush : Option Int) (s : St) : Rv.StepOut :=
  { st := applyTarget (wbStage s m).1 (firstFlush (latchFlush (wbStage s m).2) (latchFlush m) exFlush),
    fault := none }

/-- Finish an instruction sitting in the EX/MEM register: MEM, then WB. A fault leaves the pc at
    the faulting instruction (as `splitStep` does). -/
def completeEXMEM (x : Option Latch) (s : St) : Rv.StepOut :=
  match (memStage s x).fault with
  | some ft => { st := { (memStage s x).st with pc := ft.addr }, fault := some (ft.addr, ft.fault) }
  | none => completeMEMWB (memStage s x).latch (latchFlush x) (memStage s x).st

/-- Finish an instruction sitting in the ID/EX register with nothing older in flight: EX, MEM, WB. -/
def completeIDEX (d : Option Latch) (s : St) : Rv.StepOut :=
  match (exStage s d none none).fault with
  | some ft => { st := { (exStage s d none none).st with pc := ft.addr }, fault := some (ft.addr, ft.fault) }
  | none => completeEXMEM (exStage s d none none).latch (exStage s d none none).st

theorem completeMEMWB_none (fl : Option Int) (s : St) :
    completeMEMWB none fl s = { st := applyTarget s fl, fault := none } := by
  simp [completeMEMWB, wbStage_none, latchFlush, firstFlush]

theorem completeMEMWB_some (m : Latch) (fl : Option Int) (s : St) :
    completeMEMWB (some m) fl s =
      { st := applyTarget (wbSt m s) (firstFlush (wbLatch m).flush m.flush fl), fault := none } := by
  simp [completeMEMWB, wbStage_some, latchFlush]

theorem completeEXMEM_none (s : St) : completeEXMEM none s = { st := s, fault := none } := by
  simp [completeEXMEM, memStage_none, completeMEMWB_none, latchFlush, applyTarget]

theorem completeIDEX_none (s : St) : completeIDEX none s = { st := s, fault := none } := by
  simp [completeIDEX, exStage_none, completeEXMEM_none]

/-- `splitStep` = cycle tick, IF, ID, then the completion of the decoded instruction. -/
theorem splitStep_eq_complete (s : St) :
    splitStep s =
      completeIDEX
        (idStage false (ifStage { s with cycles := s.cycles + 1 }).1.regs
          (ifStage { s with cycles := s.cycles + 1 }).2 none none)
        (ifStage { s with cycles := s.cycles + 1 }).1 := by
  simp only [splitStep]
  generalize ifStage { s with cycles := s.cycles + 1 } = r
  obtain ⟨s1, f⟩ := r
  cases f with
  | none => simp [idStage_none, completeIDEX_none]
  | some f =>
    simp only [idStage_some, completeIDEX]
    cases hex : (exStage s1 (some (idLatch false s1.regs f none none)) none none).fault with
    | some ft =>
      have := exStage_fault_addr _ _ _ _ _ hex
      simp only [this]; rfl
    | none =>
      simp only [completeEXMEM]
      cases hl : (exStage s1 (some (idLatch false s1.regs f none none)) none none).latch with
      | none => simp [memStage_none, completeMEMWB, wbStage_none, latchFlush, firstFlush, applyTarget]
      | some x =>
        have hx := exStage_latch_addr _ _ _ _ _ hl
        cases hme : (memStage (exStage s1 (some (idLatch false s1.regs f none none)) none none).st (some x)).fault with
        | some ft =>
          have := memStage_fault_addr _ _ _ hme
          simp only [this, hx]; rfl
        | none =>
          simp only [completeMEMWB]
          generalize latchFlush (wbStage _ _).snd = a
          generalize latchFlush (memStage _ _).latch = b
          generalize latchFlush (some x) = c
          cases a <;> cases b <;> cases c <;> rfl

end ArchSim.Lemmas.C02Split
