/-
C03 helper lemmas, part 1: byte lanes of a 32-bit word (`fromBlock`, `mergeLane`, `intoBlock`,
`laneErr`) against the little-endian composition `leSum` of the flat memory.
-/
import ArchSim.Spec.CacheAbs

namespace ArchSim.Lemmas.C03
open ArchSim ArchSim.Cache ArchSim.Mem ArchSim.Spec.ByteStore ArchSim.Lemmas.C18 ArchSim.Spec.CacheAbs

/-! ### `leSum` for 1, 2 and 4 byte cells -/

theorem leSum1 (f : Nat → Nat) : leSum riscvCfg 1 f = f 0 := by
  simp [leSum, riscvCfg]

theorem leSum2 (f : Nat → Nat) : leSum riscvCfg 2 f = f 0 + f 1 * 256 := by
  simp [leSum, riscvCfg, List.range_succ]

theorem leSum4 (f : Nat → Nat) :
    leSum riscvCfg 4 f = f 0 + f 1 * 256 + f 2 * 65536 + f 3 * 16777216 := by
  rw [leSum_succ, leSum_succ, leSum_succ, leSum_succ]
  simp [leSum, riscvCfg]

/-! ### bytes of a word -/

theorem byteOf_lt (w i : Nat) : byteOf w i < 256 := Nat.mod_lt _ (by decide)

theorem byteOf_eq_cellVal (v i : Nat) : byteOf v i = cellVal riscvCfg v i := rfl

theorem byteOf0 (w : Nat) : byteOf w 0 = w % 256 := by simp [byteOf]
theorem byteOf1 (w : Nat) : byteOf w 1 = w / 256 % 256 := by simp [byteOf]
theorem byteOf2 (w : Nat) : byteOf w 2 = w / 65536 % 256 := by simp [byteOf]
theorem byteOf3 (w : Nat) : byteOf w 3 = w / 16777216 % 256 := by simp [byteOf]

theorem word_eq_bytes (w : Nat) (hw : w < 4294967296) :
    byteOf w 0 + byteOf w 1 * 256 + byteOf w 2 * 65536 + byteOf w 3 * 16777216 = w := by
  rw [byteOf0, byteOf1, byteOf2, byteOf3]; omega

/-- A word composed of four bytes has those bytes. -/
theorem byteOf_compose (b0 b1 b2 b3 i : Nat) (h0 : b0 < 256) (h1 : b1 < 256) (h2 : b2 < 256)
    (h3 : b3 < 256) (hi : i < 4) :
    byteOf (b0 + b1 * 256 + b2 * 65536 + b3 * 16777216) i =
      (if i = 0 then b0 else if i = 1 then b1 else if i = 2 then b2 else b3) := by
  have h : i = 0 ∨ i = 1 ∨ i = 2 ∨ i = 3 := by omega
  rcases h with rfl | rfl | rfl | rfl
  · rw [byteOf0]; simp only [if_true]; omega
  · rw [byteOf1]; simp only [Nat.reduceEqDiff, if_true, if_false]; omega
  · rw [byteOf2]; simp only [Nat.reduceEqDiff, if_true, if_false]; omega
  · rw [byteOf3]; simp only [Nat.reduceEqDiff, if_false]; omega

theorem compose_lt (b0 b1 b2 b3 : Nat) (h0 : b0 < 256) (h1 : b1 < 256) (h2 : b2 < 256)
    (h3 : b3 < 256) : b0 + b1 * 256 + b2 * 65536 + b3 * 16777216 < 4294967296 := by omega

/-! ### reading a lane: `fromBlock` -/

/-- An accepted read of a resident word returns the little-endian composition of its byte lanes. -/
theorem fromBlock_ok (bits : Nat) (d : DAddr) (block : List Nat) (hb : widthOK bits)
    (hoff : d.byteOff + bits / 8 ≤ 4) (hw : wordAt block d.blockOff < 4294967296) :
    fromBlock bits d block =
      .ok (leSum riscvCfg (bits / 8) (fun i => byteOf (wordAt block d.blockOff) (d.byteOff + i))) := by
  rcases hb with rfl | rfl | rfl
  · simp only [fromBlock, if_true, Nat.reduceDiv, leSum1, byteOf, Nat.add_zero]
  · have h : d.byteOff = 0 ∨ d.byteOff = 1 ∨ d.byteOff = 2 := by omega
    simp only [fromBlock, Nat.reduceEqDiff, if_false, if_true, Nat.reduceDiv, leSum2,
      show ¬ d.byteOff > 2 by omega]
    congr 1
    rcases h with h | h | h <;> rw [h] <;>
      simp only [byteOf, Nat.reduceMul, Nat.reducePow, Nat.reduceAdd, Nat.div_one] <;> omega
  · have h : d.byteOff = 0 := by omega
    simp only [fromBlock, Nat.reduceEqDiff, if_false, Nat.reduceDiv, leSum4, h, ne_eq,
      not_true_eq_false, Nat.zero_add]
    rw [word_eq_bytes _ hw]

/-- A read that would cross the word boundary is rejected. -/
theorem fromBlock_crossing (bits : Nat) (d : DAddr) (block : List Nat) (hb : widthOK bits)
    (hoff : ¬ d.byteOff + bits / 8 ≤ 4) (h4 : d.byteOff < 4) :
    fromBlock bits d block = .error (.byteOffset d.byteOff (if bits = 16 then 2 else 0)) := by
  rcases hb with rfl | rfl | rfl
  · omega
  · simp only [fromBlock, Nat.reduceEqDiff, if_false, if_true, show d.byteOff > 2 by omega]
  · simp only [fromBlock, Nat.reduceEqDiff, if_false, ne_eq, show ¬ d.byteOff = 0 by omega,
      not_false_eq_true, if_true]

/-! ### replacing a lane: `mergeLane`, `intoBlock` -/

/-- The word `intoBlock` stores at the addressed position. -/
def newWord (bits off w v : Nat) : Nat :=
  if bits = 8 then mergeLane w 8 (off * 8) v
  else if bits = 16 then mergeLane w 16 (off * 8) v
  else v

theorem merge8 (w v off i : Nat) (hw : w < 4294967296) (hv : v < 256) (hoff : off < 4) (hi : i < 4) :
    byteOf (mergeLane w 8 (off * 8) v) i = (if i = off then v else byteOf w i) ∧
      mergeLane w 8 (off * 8) v < 4294967296 := by
  have h1 : off = 0 ∨ off = 1 ∨ off = 2 ∨ off = 3 := by omega
  have h2 : i = 0 ∨ i = 1 ∨ i = 2 ∨ i = 3 := by omega
  rcases h1 with rfl | rfl | rfl | rfl <;> rcases h2 with rfl | rfl | rfl | rfl <;>
    simp only [byteOf, mergeLane, Nat.reduceMul, Nat.reducePow, Nat.reduceEqDiff, if_true,
      if_false, Nat.div_one] <;> omega

theorem merge16 (w v off i : Nat) (hw : w < 4294967296) (hv : v < 65536) (hoff : off ≤ 2)
    (hi : i < 4) :
    byteOf (mergeLane w 16 (off * 8) v) i =
        (if i = off then v % 256 else if i = off + 1 then v / 256 else byteOf w i) ∧
      mergeLane w 16 (off * 8) v < 4294967296 := by
  have h1 : off = 0 ∨ off = 1 ∨ off = 2 := by omega
  have h2 : i = 0 ∨ i = 1 ∨ i = 2 ∨ i = 3 := by omega
  rcases h1 with rfl | rfl | rfl <;> rcases h2 with rfl | rfl | rfl | rfl <;>
    simp only [byteOf, mergeLane, Nat.reduceMul, Nat.reducePow, Nat.reduceEqDiff, if_true,
      if_false, Nat.div_one, Nat.reduceAdd] <;> omega

theorem newWord_lt (bits off w v : Nat) (hb : widthOK bits) (hoff : off + bits / 8 ≤ 4)
    (hw : w < 4294967296) (hv : v < 2 ^ bits) : newWord bits off w v < 4294967296 := by
  rcases hb with rfl | rfl | rfl
  · exact (merge8 w v off 0 hw hv (by omega) (by omega)).2
  · exact (merge16 w v off 0 hw hv (by omega) (by omega)).2
  · simpa [newWord] using hv

/-- The stored word has the bytes of `v` in the addressed lanes and keeps the other lanes. -/
theorem byteOf_newWord (bits off w v i : Nat) (hb : widthOK bits) (hoff : off + bits / 8 ≤ 4)
    (hw : w < 4294967296) (hv : v < 2 ^ bits) (hi : i < 4) :
    byteOf (newWord bits off w v) i =
      if off ≤ i ∧ i < off + bits / 8 then byteOf v (i - off) else byteOf w i := by
  rcases hb with rfl | rfl | rfl
  · simp only [newWord, if_true, Nat.reduceDiv]
    rw [(merge8 w v off i hw hv (by omega) hi).1]
    by_cases h : i = off
    · subst h; simp only [if_true, Nat.le_refl, Nat.lt_add_one, and_self, Nat.sub_self, byteOf0]
      omega
    · rw [if_neg h, if_neg (by omega)]
  · simp only [newWord, Nat.reduceEqDiff, if_false, if_true, Nat.reduceDiv]
    rw [(merge16 w v off i hw hv (by omega) hi).1]
    by_cases h : i = off
    · subst h
      rw [if_pos rfl, if_pos (by omega), Nat.sub_self, byteOf0]
    · by_cases h' : i = off + 1
      · subst h'
        rw [if_neg h, if_pos rfl, if_pos (by omega), show off + 1 - off = 1 by omega, byteOf1]
        omega
      · rw [if_neg h, if_neg h', if_neg (by omega)]
  · have h0 : off = 0 := by omega
    subst h0
    simp only [newWord, Nat.reduceEqDiff, if_false, Nat.reduceDiv, Nat.zero_le, Nat.zero_add,
      true_and, Nat.sub_zero, if_pos hi]

theorem intoBlock_ok (bits : Nat) (d : DAddr) (block : List Nat) (v : Nat) (hb : widthOK bits)
    (hoff : d.byteOff + bits / 8 ≤ 4) :
    intoBlock bits d block v =
      .ok (block.set d.blockOff (newWord bits d.byteOff (wordAt block d.blockOff) v)) := by
  rcases hb with rfl | rfl | rfl
  · simp only [intoBlock, newWord, if_true]
  · simp only [intoBlock, newWord, Nat.reduceEqDiff, if_false, if_true,
      show ¬ d.byteOff > 2 by omega]
  · simp only [intoBlock, newWord, Nat.reduceEqDiff, if_false, ne_eq,
      show d.byteOff = 0 by omega, not_true_eq_false]

theorem intoBlock_crossing (bits : Nat) (d : DAddr) (block : List Nat) (v : Nat) (hb : widthOK bits)
    (hoff : ¬ d.byteOff + bits / 8 ≤ 4) (h4 : d.byteOff < 4) :
    intoBlock bits d block v = .error (.byteOffset d.byteOff (if bits = 16 then 2 else 0)) := by
  rcases hb with rfl | rfl | rfl
  · omega
  · simp only [intoBlock, Nat.reduceEqDiff, if_false, if_true, show d.byteOff > 2 by omega]
  · simp only [intoBlock, Nat.reduceEqDiff, if_false, ne_eq, show ¬ d.byteOff = 0 by omega,
      not_false_eq_true, if_true]

theorem laneErr_ok (bits : Nat) (d : DAddr) (hb : widthOK bits) (hoff : d.byteOff + bits / 8 ≤ 4) :
    laneErr bits d = none := by
  rcases hb with rfl | rfl | rfl
  · simp only [laneErr, if_true]
  · simp only [laneErr, Nat.reduceEqDiff, if_false, if_true, show ¬ d.byteOff > 2 by omega]
  · simp only [laneErr, Nat.reduceEqDiff, if_false, ne_eq, show d.byteOff = 0 by omega,
      not_true_eq_false]

theorem laneErr_crossing (bits : Nat) (d : DAddr) (hb : widthOK bits)
    (hoff : ¬ d.byteOff + bits / 8 ≤ 4) (h4 : d.byteOff < 4) :
    laneErr bits d = some (.byteOffset d.byteOff (if bits = 16 then 2 else 0)) := by
  rcases hb with rfl | rfl | rfl
  · omega
  · simp only [laneErr, Nat.reduceEqDiff, if_false, if_true, show d.byteOff > 2 by omega]
  · simp only [laneErr, Nat.reduceEqDiff, if_false, ne_eq, show ¬ d.byteOff = 0 by omega,
      not_false_eq_true, if_true]

/-! ### `wordAt` of an updated block -/

theorem wordAt_set (block : List Nat) (j j' w : Nat) (hj : j < block.length) :
    wordAt (block.set j w) j' = if j = j' then w else wordAt block j' := by
  simp only [wordAt, List.getD_eq_getElem?_getD, List.getElem?_set]
  by_cases h : j = j'
  · subst h; simp [hj]
  · simp [h]

theorem wordAt_lt (block : List Nat) (j : Nat) (h : ∀ x, x ∈ block → x < 4294967296) :
    wordAt block j < 4294967296 := by
  simp only [wordAt, List.getD_eq_getElem?_getD]
  cases hj : block[j]? with
  | none => simp
  | some x => simpa using h x (List.mem_of_getElem? hj)

theorem mem_set_lt (block : List Nat) (j w : Nat) (h : ∀ x, x ∈ block → x < 4294967296)
    (hw : w < 4294967296) : ∀ x, x ∈ block.set j w → x < 4294967296 := by
  intro x hx
  rcases List.mem_or_eq_of_mem_set hx with hx | rfl
  · exact h x hx
  · exact hw

end ArchSim.Lemmas.C03
