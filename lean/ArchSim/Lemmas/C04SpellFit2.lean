/-
C04 (spelling independence, part 2): the body lemmas of C04SpellBody with the size limit only for the decimal
number style (`NumFits`). Generated from C04SpellBody by renaming; the proofs are the same.
-/
import ArchSim.Lemmas.C04SpellFit

namespace ArchSim.Lemmas.C04Spell
open ArchSim ArchSim.PP ArchSim.Rv ArchSim.Asm ArchSim.Lemmas.C14

section bodies
variable (g w1 w2 w3 w4 tr : List Char) (hg : AllWs g) (hgne : g ≠ []) (h1 : AllWs w1) (h2 : AllWs w2)
  (h3 : AllWs w3) (h4 : AllWs w4) (htr : AllWs tr)

include hg hgne h1 h2 h3 h4 htr in
theorem bodyF_I (op : Op) (h : cls op = .imm3) (a b : Nat) (v : Int) (ha : a < 32) (hb : b < 32)
     (s1 s2 : RegStyle) (sn : NumStyle) (hv : NumFits sn v) :
    pInstrBody (mn op ++ tReg g s1 a (tSep w1 ',' (tReg w2 s2 b (tSep w3 ',' (tNum w4 sn v tr)))))
      = .ok (.grp (.rri op.mnemonic a b v)) tr := by
  have hr := mnSep_tReg g s1 a (tSep w1 ',' (tReg w2 s2 b (tSep w3 ',' (tNum w4 sn v tr)))) hg hgne
  rw [pInstrBody_eq]
  simp only [alts, List.map_cons, List.map_nil,
    chainF_RRI g w1 w2 w3 w4 tr hg hgne h1 h2 h3 h4 htr op (Or.inl h) a b v ha hb s1 s2 sn hv,
    pRType_failS op _ hr (by rw [h]; decide),
    pUType_failS op _ hr (by rw [h]; decide), pBType_failS op _ hr (by rw [h]; decide),
    pMemory_failS op _ hr (by rw [h]; decide) (by rw [h]; decide) (by rw [h]; decide),
    pMemPseudo_failS op _ hr (by rw [h]; decide) (by rw [h]; decide),
    pSPseudo_failS op _ hr (by rw [h]; decide), pCsr_failS op _ hr (by rw [h]; decide),
    pCsri_failS op _ hr (by rw [h]; decide),
    pFence_failS op _ hr (by rw [h]; decide), pJal_failS op _ hr (by rw [h]; decide) (by rw [h]; decide),
    pEnv_failS op _ hr (by rw [h]; decide) (by rw [h]; decide), pNop_failS op _ hr, pLi_failS op _ hr,
    pMv_failS op _ hr, map_ok, map_fail]
  rfl

include hg hgne h1 h2 h3 h4 htr in
theorem bodyF_B (op : Op) (h : cls op = .b) (a b : Nat) (v : Int) (ha : a < 32) (hb : b < 32)
     (s1 s2 : RegStyle) (sn : NumStyle) (hv : NumFits sn v) :
    pInstrBody (mn op ++ tReg g s1 a (tSep w1 ',' (tReg w2 s2 b (tSep w3 ',' (tNum w4 sn v tr)))))
      = .ok (.grp (.rri op.mnemonic a b v)) tr := by
  have hr := mnSep_tReg g s1 a (tSep w1 ',' (tReg w2 s2 b (tSep w3 ',' (tNum w4 sn v tr)))) hg hgne
  rw [pInstrBody_eq]
  simp only [alts, List.map_cons, List.map_nil,
    chainF_RRI g w1 w2 w3 w4 tr hg hgne h1 h2 h3 h4 htr op (Or.inr (Or.inr h)) a b v ha hb s1 s2 sn hv,
    pRType_failS op _ hr (by rw [h]; decide),
    pUType_failS op _ hr (by rw [h]; decide),
    pBType_failS_RRI g w1 w2 w3 hg hgne h1 h2 h3 w4 h4 op h a b v ha hb,
    pMemory_failS op _ hr (by rw [h]; decide) (by rw [h]; decide) (by rw [h]; decide),
    pMemPseudo_failS op _ hr (by rw [h]; decide) (by rw [h]; decide),
    pSPseudo_failS op _ hr (by rw [h]; decide), pCsr_failS op _ hr (by rw [h]; decide),
    pCsri_failS op _ hr (by rw [h]; decide),
    pFence_failS op _ hr (by rw [h]; decide), pJal_failS op _ hr (by rw [h]; decide) (by rw [h]; decide),
    pEnv_failS op _ hr (by rw [h]; decide) (by rw [h]; decide), pNop_failS op _ hr, pLi_failS op _ hr,
    pMv_failS op _ hr, map_ok, map_fail]
  rfl

include hg hgne h1 h2 h3 h4 htr in
theorem bodyF_jalr (a b : Nat) (v : Int) (ha : a < 32) (hb : b < 32) 
    (s1 s2 : RegStyle) (sn : NumStyle) (hv : NumFits sn v) :
    pInstrBody (mn .jalr ++ tReg g s1 a (tSep w1 ',' (tReg w2 s2 b (tSep w3 ',' (tNum w4 sn v tr)))))
      = .ok (.grp (.rri "jalr" a b v)) tr := by
  have hr := mnSep_tReg g s1 a (tSep w1 ',' (tReg w2 s2 b (tSep w3 ',' (tNum w4 sn v tr)))) hg hgne
  have hj : pJal (mn .jalr ++ tReg g s1 a (tSep w1 ',' (tReg w2 s2 b (tSep w3 ',' (tNum w4 sn v tr))))) = .fail :=
    pJal_failS_jalr g hg hgne _
  have hlen : tr.length < (tSep w3 ',' (tNum w4 sn v tr)).length := by
    simp only [tSep, tNum, List.length_append, List.length_cons]; omega
  rw [pInstrBody_eq]
  simp only [alts, List.map_cons, List.map_nil,
    chainF_RRI g w1 w2 w3 w4 tr hg hgne h1 h2 h3 h4 htr .jalr (Or.inr (Or.inl rfl)) a b v ha hb s1 s2 sn hv,
    pMemPseudo_okS_jalr g w1 w2 w3 hg hgne h1 h2 h3 a b ha hb,
    pRType_failS .jalr _ hr (by decide),
    pUType_failS .jalr _ hr (by decide), pBType_failS .jalr _ hr (by decide),
    pMemory_failS_jalr g w1 w2 hg hgne h1 h2 a b ha hb,
    pSPseudo_failS .jalr _ hr (by decide), pCsr_failS .jalr _ hr (by decide),
    pCsri_failS .jalr _ hr (by decide),
    pFence_failS .jalr _ hr (by decide), hj,
    pEnv_failS .jalr _ hr (by decide) (by decide), pNop_failS .jalr _ hr, pLi_failS .jalr _ hr,
    pMv_failS .jalr _ hr, map_ok, map_fail]
  simp [orStep, isAbort, hlen]
  rfl

end bodies

end ArchSim.Lemmas.C04Spell
