/-
C17 (tables) — helper lemmas, part 4: the TOY memory table (16-bit words, one cell per word),
the instruction text and the cycle mark.
-/
import ArchSim.Lemmas.C17ViewsVal

namespace ArchSim.Lemmas.C17Views
open ArchSim ArchSim.Mem ArchSim.Views ArchSim.Toy ArchSim.Spec.ByteStore ArchSim.Lemmas.C18

/-! ### rows with distinct keys -/

/-- In a list whose keys are strictly ascending, an element is determined by its key. -/
theorem eq_of_key_eq {α : Type} (f : α → Int) :
    ∀ (l : List α), (l.map f).Pairwise (· < ·) → ∀ x y, x ∈ l → y ∈ l → f x = f y → x = y
  | [], _, _, _, hx, _, _ => by cases hx
  | a :: l, hp, x, y, hx, hy, hxy => by
    rw [List.map_cons, List.pairwise_cons] at hp
    rcases List.mem_cons.mp hx with rfl | hx' <;> rcases List.mem_cons.mp hy with rfl | hy'
    · rfl
    · have := hp.1 (f y) (List.mem_map_of_mem hy'); omega
    · have := hp.1 (f x) (List.mem_map_of_mem hx'); omega
    · exact eq_of_key_eq f l hp.2 x y hx' hy' hxy

/-! ### the TOY word table -/

/-- Keys of the 16-bit table of a TOY memory: exactly the stored addresses. -/
theorem toy_reprKeys_ok (m : Mem) (hc : m.cfg = toyCfg) (a : Int) :
    a ∈ reprKeys m 16 ↔ a ∈ m.keys := by
  have hk : cellsOf m.cfg 16 = 1 := by rw [hc]; rfl
  rw [reprKeys_aligned_iff m 16 (by omega), hk]
  constructor
  · rintro ⟨_, i, hi, hmem⟩
    have : i = 0 := by omega
    subst this; simpa using hmem
  · intro h; exact ⟨by omega, 0, by omega, by simpa using h⟩

theorem toy_key_range (m : Mem) (hc : m.cfg = toyCfg) (hwf : WF m) (a : Int) (ha : a ∈ m.keys) :
    0 ≤ a ∧ a < 4096 := by
  have := hwf.keys_inRange a ha
  rw [hc, toy_inRange] at this
  simpa only [Bool.and_eq_true, decide_eq_true_eq] using this

theorem toy_readN_one (m : Mem) (hc : m.cfg = toyCfg) (a : Int) (h0 : 0 ≤ a) (h1 : a < 4096) :
    readN m a 1 = .ok (m.cells a) := by
  rw [readN_ok m a 1 (by intro i hi; rw [hc, toy_cellOk_iff]; omega)]
  rw [show (1 : Nat) = 0 + 1 from rfl, leSum_succ, leSum_zero]
  simp [hc, toy_wrap]

theorem toy_sortedEntries_exists (m : Mem) (hc : m.cfg = toyCfg) (hwf : WF m) :
    ∃ l, sortedEntries m 16 = .ok l := by
  apply sortedEntries_exists
  intro a ha
  have hk : cellsOf m.cfg 16 = 1 := by rw [hc]; rfl
  have hr := toy_key_range m hc hwf a ((toy_reprKeys_ok m hc a).mp ha)
  rw [hk]
  exact ⟨_, toy_readN_one m hc a hr.1 hr.2⟩

/-- The word shown at `a` is the stored cell `a`. -/
theorem toy_sortedEntries_cell {m : Mem} (hc : m.cfg = toyCfg) (hwf : WF m)
    {l : List (Int × Nat)} (h : sortedEntries m 16 = .ok l) (p : Int × Nat) (hp : p ∈ l) :
    p.1 ∈ m.keys ∧ 0 ≤ p.1 ∧ p.1 < 4096 ∧ p.2 = m.cells p.1 := by
  have hk : cellsOf m.cfg 16 = 1 := by rw [hc]; rfl
  have hmem : p.1 ∈ m.keys :=
    (toy_reprKeys_ok m hc p.1).mp ((sortedEntries_mem_fst h p.1).mp (List.mem_map_of_mem hp))
  have hr := toy_key_range m hc hwf p.1 hmem
  obtain ⟨v, hv, hpv⟩ := sortedEntries_val h p hp
  rw [hk, toy_readN_one m hc p.1 hr.1 hr.2] at hv
  cases hv
  have hlt := hwf.cells_lt p.1
  rw [hc] at hlt
  refine ⟨hmem, hr.1, hr.2, ?_⟩
  rw [hpv]; exact Nat.mod_eq_of_lt hlt

end ArchSim.Lemmas.C17Views
