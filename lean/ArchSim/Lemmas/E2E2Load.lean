/-
End-to-end layer, part 2 (helper lemmas): what the loader establishes for the C07 / C08 / C15 theorems — plain
instructions (`PlainInstr`), the start of a straight-line run (`LineStart`), the latch invariant of C15 (`PipeOK`),
a flat data memory, and membership of a fetched instruction in the stored program.
-/
import ArchSim.Lemmas.E2E2Pipe
import ArchSim.Lemmas.E2EICache
import ArchSim.Lemmas.E2ECacheInit

namespace ArchSim.Lemmas.E2E2
open ArchSim ArchSim.Rv ArchSim.Asm ArchSim.Pipe ArchSim.Lemmas.C07 ArchSim.Lemmas.E2E

/-- All operations of the program are plain: register / immediate arithmetic, shifts, `lui`, `auipc` — no load,
    store, branch, jump, `ecall`, `ebreak`, `fence`, CSR instruction. -/
def PlainOps (prog : List Instr) : Prop := ∀ i ∈ prog, plainOp i.op = true

instance (prog : List Instr) : Decidable (PlainOps prog) := by unfold PlainOps; infer_instance

/-- In a loaded program a plain operation gives a plain instruction: the assembler stores a non-negative shift
    amount for `srai`. -/
theorem load_plain (s : St) (text : String) (h : (load s text).err = none)
    (hp : PlainOps (load s text).st.imem.prog) : ∀ i ∈ (load s text).st.imem.prog, PlainInstr i := by
  intro i hi
  refine ⟨hp i hi, fun ho => ?_⟩
  rcases (load_objs s text h).1 i hi with hf | rfl | rfl
  · have := hf.2.2.2.1
    unfold immRange at this
    rw [ho] at this
    exact this.1
  · cases ho
  · cases ho

/-- Plain operations are supported ones. -/
theorem plainOps_supported {prog : List Instr} (hp : PlainOps prog) : AllSupported prog := by
  intro i hi
  have := hp i hi
  revert this
  cases i.op <;> decide

/-- The start of a straight-line run: loaded into a state at pc 0 that has not exited and has no instruction
    cache, the empty pipeline is a `LineStart` for the stored program (any data memory system, any registers). -/
theorem load_lineStart (s : St) (text : String) (hpc : s.pc = 0) (hx : s.exitCode = none)
    (hc : s.imem.cache = none) (hz : Bool) :
    LineStart (load s text).st.imem.prog (PSt.init (load s text).st hz) where
  stl := rfl
  pc := by show (load s text).st.pc = 0; rw [(load_frame s text).2.1]; exact hpc
  imem := load_imem s text hc
  exit := by show (load s text).st.exitCode = none; rw [load_exitCode]; exact hx
  e0 := rfl
  e1 := rfl
  e2 := rfl
  e3 := rfl

/-- Loading into a state with a flat data memory leaves a flat data memory. -/
theorem load_isFlat (s : St) (text : String) (hs : ArchSim.Lemmas.C01.StOK s) : IsFlat (load s text).st.mem := by
  obtain ⟨m, hm, hc, _⟩ := hs.flat
  obtain ⟨h, hh⟩ := load_mem_flat s text m hm hc
  exact ⟨_, hh⟩

theorem load_nocache (s : St) (text : String) (hc : s.imem.cache = none) : (load s text).st.imem.cache = none := by
  rw [load_imem s text hc]

/-- The instruction cache of the state (if it has one) has an associativity that suits its policy: positive, and a
    power of two for PLRU — what the Python constructor asserts. Holds trivially without instruction cache. -/
def ICacheOK (s : St) : Prop := ∀ c, s.imem.cache = some c → ArchSim.Lemmas.C09.AssocOK c.isLru c.geo.assoc

theorem icacheOK_none {s : St} (h : s.imem.cache = none) : ICacheOK s := fun c hc => by rw [h] at hc; cases hc

/-- The latch invariant of C15 holds for the empty pipeline over ANY loaded state (whatever the text, accepted or
    not; any data memory system; any admissible instruction cache). -/
theorem load_pipeOK (s : St) (text : String) (hc : ICacheOK s) (hz : Bool) :
    ArchSim.Lemmas.C15.PipeOK (PSt.init (load s text).st hz) :=
  ArchSim.Lemmas.C15.init_ok (ArchSim.Lemmas.C15.load_imemOK s text hc) hz

/-- Along any run from a loaded state the stored program is the loaded one. -/
theorem load_pipeRun_prog (s : St) (text : String) (hc : ICacheOK s) (hz : Bool) (n : Nat) :
    (pipeRun n (PSt.init (load s text).st hz)).st.imem.prog = (load s text).st.imem.prog :=
  pipeRun_prog n _ (load_pipeOK s text hc hz)

/-! ### single-cycle runs of a loaded supported program without caches -/

theorem singleRun_sok (prog : List Instr) (hP : ProgWF prog) (s : St) (hS : SOK prog s) (n : Nat) :
    SOK prog (singleRun n s) := by
  induction n with
  | zero => exact hS
  | succ n ih => exact SOK_step prog hP _ ih

theorem singleRun_cycles_plain (prog : List Instr) (hP : ProgWF prog) (s : St) (hS : SOK prog s) (n : Nat) :
    (singleRun n s).cycles = s.cycles + n := by
  induction n with
  | zero => rfl
  | succ n ih =>
    have hS' := singleRun_sok prog hP s hS n
    obtain ⟨m, hm, _⟩ := hS'.2.flat
    show (singleStep (singleRun n s)).st.cycles = _
    rw [singleStep_cycles, singleExtra_flat _ m hm (by rw [hS'.1]), ih]
    omega

end ArchSim.Lemmas.E2E2
