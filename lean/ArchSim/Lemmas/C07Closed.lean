/-
C07 helper lemmas: closed forms for single cycles in explicit configurations — a cycle without
fault and flush, the start and the two bubble cycles of a decode interlock, a redirect from MEM.
Core Lean only.
-/
import ArchSim.Lemmas.C07Book
import ArchSim.Lemmas.C07Cycle
import ArchSim.Lemmas.C08Stall

namespace ArchSim.Lemmas.C07
open ArchSim ArchSim.Rv ArchSim.Pipe ArchSim.Lemmas.C02Split

/-- No stage raises in this cycle. -/
def NoFault (p : PSt) : Prop := (exO p).fault = none ∧ (meO p).fault = none
/-- No register produced in this cycle carries a flush signal. -/
def NoFlush (p : PSt) : Prop :=
  latchFlush (nWB p) = none ∧ latchFlush (meO p).latch = none ∧ latchFlush (exO p).latch = none

instance (p : PSt) : Decidable (NoFault p) := by unfold NoFault; infer_instance
instance (p : PSt) : Decidable (NoFlush p) := by unfold NoFlush; infer_instance

/-- A cycle without fault and flush: every register takes its stage's output. -/
theorem step_quiet (p : PSt) (hf : NoFault p) (hfl : NoFlush p) :
    step p =
      { p := { p with st := sPick p (meO p).st (nID p) (exO p).latch, l0 := nIF p, l1 := nID p,
                      l2 := (exO p).latch, l3 := (meO p).latch, l4 := nWB p,
                      stalled := countDown (stalled1 p (nID p) (exO p).latch) },
        fault := none } := by
  rw [step_ok p hf.1 hf.2, finishStep_noFlush _ _ _ _ _ _ _ hfl.1 hfl.2.1 hfl.2.2]

/-! ### E1. decode interlock -/

/-- The cycle in which ID detects the hazard (unstalled, EX raises no stall): an ID stall with two
    cycles to go is recorded, IF/ID is preserved (flagged), the `stalls` counter goes up. -/
theorem interlock_start (p : PSt) (hf : NoFault p) (hfl : NoFlush p) (hs : p.stalled = none)
    (hid : latchStall (nID p) = true) (hex : latchStall (exO p).latch = false) :
    (step p).p.stalled = some { k := 1, rem := 2, p0 := setFlag p.l0, p1 := none } ∧
    (step p).p.l0 = nIF p ∧ (step p).p.l1 = nID p ∧ (step p).p.l2 = (exO p).latch ∧
    (step p).p.st.stalls = p.st.stalls + 1 := by
  have hpick : pickStall p.stalled (nID p) (exO p).latch = some 1 := by
    unfold pickStall; simp [hs, hid, hex]
  rw [step_quiet p hf hfl]
  refine ⟨?_, rfl, rfl, rfl, ?_⟩
  · simp only [stalled1_some _ _ _ 1 hpick]
    unfold stallPicked countDown; rw [hs]; simp
  · have h := finishStep_stalls p (meO p).st (nIF p) (nID p) (exO p).latch (meO p).latch (nWB p)
    rw [finishStep_noFlush _ _ _ _ _ _ _ hfl.1 hfl.2.1 hfl.2.2, hpick] at h
    simp only at h
    rw [h, C08.meO_stalls]; rfl

theorem exInput_idStall (p : PSt) (st : Stall) (hs : p.stalled = some st) (hk : st.k = 1) :
    exInput p = none ∧ idInput p = st.p0 ∧ nIF p = p.l0 ∧ memInput p = p.l2 := by
  unfold exInput idInput nIF memInput
  rw [hs]; simp [hk]

theorem exO_bubble (p : PSt) (h : exInput p = none) :
    (exO p).latch = none ∧ (exO p).fault = none ∧ (exO p).st = sWB p := by
  unfold exO; rw [h]; exact ⟨rfl, rfl, rfl⟩

/-- A cycle inside a decode stall: EX is fed a bubble, IF/ID is kept, ID re-decodes the preserved
    instruction, the stall counts down (and ends when one cycle was left). -/
theorem interlock_bubble (p : PSt) (st : Stall) (hs : p.stalled = some st) (hk : st.k = 1)
    (hf : NoFault p) (hfl : NoFlush p) :
    exInput p = none ∧ idInput p = st.p0 ∧
    (step p).p.l0 = p.l0 ∧ (step p).p.l1 = nID p ∧ (step p).p.l2 = none ∧
    (step p).p.stalled = (if st.rem - 1 = 0 then none else some { st with rem := st.rem - 1 }) ∧
    (step p).p.st.stalls = p.st.stalls := by
  obtain ⟨hex, hid, hif, _⟩ := exInput_idStall p st hs hk
  obtain ⟨hl, _, _⟩ := exO_bubble p hex
  have hpick : pickStall p.stalled (nID p) (exO p).latch = none := by
    unfold pickStall; rw [hl, hs]; simp [latchStall, hk]
  have h := finishStep_stalls p (meO p).st (nIF p) (nID p) (exO p).latch (meO p).latch (nWB p)
  rw [step_quiet p hf hfl]
  rw [finishStep_noFlush _ _ _ _ _ _ _ hfl.1 hfl.2.1 hfl.2.2, hpick] at h
  refine ⟨hex, hid, hif, rfl, hl, ?_, ?_⟩
  · simp only [stalled1_none _ _ _ hpick, hs]; rfl
  · simp only at h; rw [h, C08.meO_stalls]; rfl

/-- ID raises its stall signal exactly when its (non-empty) input fails the hazard test. -/
theorem nID_stall_iff (p : PSt) :
    latchStall (nID p) = true ↔
      ∃ f, idInput p = some f ∧ idStall p.hazard (accessRegs f.instr (sWB p).regs) p.l1 p.l2 = true := by
  unfold nID
  cases h : idInput p with
  | none => simp [idStage_none, latchStall]
  | some f => simp [idStage_some, latchStall, idLatch]

/-- The decode interlock costs exactly two bubbles: three cycles after the detection cycle the
    pipeline is unstalled again and EX receives the consumer as decoded in the last stalled cycle;
    in the two cycles in between EX received bubbles, ID kept the consumer and IF/ID kept the
    instruction fetched in the detection cycle. -/
theorem interlock_three_cycles (p : PSt) (hs : p.stalled = none)
    (hid : latchStall (nID p) = true) (hex : latchStall (exO p).latch = false)
    (q0 : NoFault p ∧ NoFlush p) (q1 : NoFault (step p).p ∧ NoFlush (step p).p)
    (q2 : NoFault (step (step p).p).p ∧ NoFlush (step (step p).p).p) :
    exInput (step p).p = none ∧ exInput (step (step p).p).p = none ∧
    idInput (step p).p = setFlag p.l0 ∧ idInput (step (step p).p).p = setFlag p.l0 ∧
    (step p).p.l0 = nIF p ∧ (step (step p).p).p.l0 = nIF p ∧ (step (step (step p).p).p).p.l0 = nIF p ∧
    (step (step (step p).p).p).p.stalled = none ∧
    exInput (step (step (step p).p).p).p = nID (step (step p).p).p ∧
    (step (step (step p).p).p).p.st.stalls = p.st.stalls + 1 := by
  obtain ⟨a1, a2, _, _, a5⟩ := interlock_start p q0.1 q0.2 hs hid hex
  obtain ⟨b1, b2, b3, _, _, b6, b7⟩ := interlock_bubble (step p).p _ a1 rfl q1.1 q1.2
  simp only [Nat.add_one_sub_one, Nat.succ_ne_zero, if_false] at b6
  obtain ⟨c1, c2, c3, c4, _, c6, c7⟩ := interlock_bubble (step (step p).p).p _ b6 rfl q2.1 q2.2
  simp only [Nat.sub_self, if_true] at c6
  refine ⟨b1, c1, b2, c2, a2, by rw [b3, a2], by rw [c3, b3, a2], c6, ?_, by rw [c7, b7, a5]⟩
  unfold exInput; rw [c6]; exact c4

/-! ### E2. redirect from the MEM stage -/

theorem memStage_ok_latch (s : St) (e : Latch) (h : (memStage s (some e)).fault = none) :
    ∃ rd, (memStage s (some e)).latch = some (memLatch e rd) := by
  cases hma : memoryAccess e.instr e.result e.rr.d2 s.mem true with
  | none => rw [memStage_assert s e hma] at h; simp at h
  | some o =>
    cases hres : o.res with
    | error err => rw [memStage_error s e o err hma hres] at h; simp at h
    | ok rd => exact ⟨rd, by rw [memStage_some s e o rd hma hres]⟩

theorem sIF_flushes (p : PSt) : (sIF p).flushes = p.st.flushes := by
  unfold sIF
  cases p.stalled with
  | none => simp only [(ifStage_frame _).2.2.2.2.2.2.2.2]; rfl
  | some st => rfl

theorem meO_flushes (p : PSt) : (meO p).st.flushes = p.st.flushes := by
  unfold meO exO sWB
  rw [(memStage_frame _ _).2.2.2.2.2.2.2, (exStage_frame _ _ _ _).2.2.2.2.2.2.2.2.2,
    (wbStage_frame _ _).2.2.2.2.2.2.2.2, sIF_flushes]

theorem sPick_flushes (p : PSt) (s : St) (n1 n2 : Option Latch) : (sPick p s n1 n2).flushes = s.flushes := by
  unfold sPick; split <;> rfl

/-- A control transfer resolved in MEM: the three younger registers are squashed, any stall is
    cancelled, the pc is the target and one flush is counted; the transfer itself moves on to WB. -/
theorem redirect_from_mem (p : PSt) (e : Latch) (a : Int) (hin : memInput p = some e)
    (hfl : memFlush e = some a) (hf : NoFault p) (hwb : latchFlush (nWB p) = none) :
    (step p).p.l0 = none ∧ (step p).p.l1 = none ∧ (step p).p.l2 = none ∧ (step p).p.stalled = none ∧
    (step p).p.st.pc = a % 4294967296 ∧ (step p).p.st.flushes = p.st.flushes + 1 ∧
    ∃ rd, (step p).p.l3 = some (memLatch e rd) := by
  have hf2 := hf.2
  unfold meO at hf2
  rw [hin] at hf2
  obtain ⟨rd, hl⟩ := memStage_ok_latch _ e hf2
  have hl' : (meO p).latch = some (memLatch e rd) := by unfold meO; rw [hin]; exact hl
  have h3 : latchFlush (meO p).latch = some a := by rw [hl']; exact hfl
  rw [step_ok p hf.1 hf.2, finishStep_flush3 _ _ _ _ _ _ _ a hwb h3]
  refine ⟨rfl, rfl, rfl, rfl, rfl, ?_, rd, hl'⟩
  show (sPick p (meO p).st (nID p) (exO p).latch).flushes + 1 = _
  rw [sPick_flushes, meO_flushes]

/-- Which instructions redirect, and where to. -/
theorem memFlush_jal (e : Latch) (h : e.instr.op = .jal) : memFlush e = e.pcImm := by
  unfold memFlush ctlOf; simp [h, Op.ty]

theorem memFlush_jalr (e : Latch) (h : e.instr.op = .jalr) : memFlush e = e.result := by
  unfold memFlush ctlOf; simp [h, Op.ty]

theorem memFlush_branch_taken (e : Latch) (h : e.instr.op.ty = .b) (hc : e.cmp = some true) :
    memFlush e = e.pcImm := by
  unfold memFlush ctlOf; simp [h, hc]

theorem memFlush_branch_not_taken (e : Latch) (h : e.instr.op.ty = .b) (hc : e.cmp = some false)
    (hx : e.exitCode = none) : memFlush e = none := by
  unfold memFlush ctlOf; simp [h, hc, hx]

/-- The latch IF produces carries the pc it fetched from. -/
theorem ifStage_addr (s : St) (x : Latch) (h : (ifStage s).2 = some x) : x.addr = s.pc := by
  unfold ifStage at h
  split at h
  · simp at h
  · simp only at h
    split at h
    · simp at h; rw [← h]
    · simp at h

/-- After a redirect the pipeline is unstalled, so the next cycle fetches at the target. -/
theorem fetch_after_redirect (p' : PSt) (hs : p'.stalled = none) (x : Latch) (h : nIF p' = some x) :
    x.addr = p'.st.pc := by
  unfold nIF at h; rw [hs] at h
  exact ifStage_addr (tick p'.st) x h

end ArchSim.Lemmas.C07
