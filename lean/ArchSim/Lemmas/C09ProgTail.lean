/-
C09 (program level), part 4: the display re-read of the single-cycle stage after a load is neutral
on every state satisfying `RunInv`, so `singleStep` faults exactly when `behavior` does, leaves the
memory system `behavior` left, and keeps `RunInv` when it does not fault.
-/
import ArchSim.Lemmas.C09ProgStep
import ArchSim.Lemmas.C02SplitFamilies

namespace ArchSim.Lemmas.C09Prog
open ArchSim ArchSim.Cache ArchSim.Rv ArchSim.Repl
open ArchSim.Spec.TagCache (Accepted)
open ArchSim.Spec.CacheAbs (widthOK)
open ArchSim.Lemmas.C02Split

/-- The uncounted re-read after a successful counted load. -/
theorem reread_after_load (i : Instr) (s : St) (h : RunInv s) (hty : i.op.ty = .memI) {v : Nat}
    (hr : (s.mem.read (accessBits i.op) ((s.regs i.rs1 : Int) + i.imm) true).res = .ok v) :
    memoryAccess i (some ((wrapU (s.regs i.rs1 : Int) : Int) + i.imm)) none
        (s.mem.read (accessBits i.op) ((s.regs i.rs1 : Int) + i.imm) true).mem false =
      some { mem := (s.mem.read (accessBits i.op) ((s.regs i.rs1 : Int) + i.imm) true).mem, extra := 0,
             res := .ok (some (loadInt i.op v)) } := by
  obtain ⟨l, ds, hm, hok⟩ := h.mem
  have hv' : (ds.read (polOps l) (accessBits i.op) ((s.regs i.rs1 : Int) + i.imm) true).res = .ok v := by
    rw [hm] at hr; exact hr
  obtain ⟨hacc, _, _⟩ := read_ok_spec hok (widthOK_accessBits i.op) _ true hv'
  have hre := C09.memsys_reread hok.assoc hok.inv hacc true (C09.wrap32_wrapU_add (s.regs i.rs1) i.imm)
  rw [← hm, hr] at hre
  have := memoryAccess_load_ok i hty ((wrapU (s.regs i.rs1 : Int) : Int) + i.imm) none
    (s.mem.read (accessBits i.op) ((s.regs i.rs1 : Int) + i.imm) true).mem false v (by rw [hre])
  rw [this, hre]

/-- The part of `singleStep` after the fetch, on a state satisfying `RunInv`: it faults exactly when
    `behavior` does, and leaves the registers and the memory system `behavior` left. -/
theorem singleTail_facts (i : Instr) (s : St) (h : RunInv s) :
    ((singleTail i s).fault = none ↔ (behavior i s).fault = none) ∧
    (singleTail i s).st.mem = (behavior i s).st.mem ∧
    (singleTail i s).st.regs = (behavior i s).st.regs := by
  cases hbf : (behavior i s).fault with
  | some ft =>
    simp only [singleTail, hbf]
    exact ⟨by simp, trivial, trivial⟩
  | none =>
    by_cases hty : i.op.ty = .memI
    · cases hr : (s.mem.read (accessBits i.op) ((s.regs i.rs1 : Int) + i.imm) true).res with
      | error e => rw [behavior_load_err i s hty hr] at hbf; cases hbf
      | ok v =>
        have hre := reread_after_load i s h hty hr
        have hb := behavior_load_ok i s hty hr
        have hbm : (behavior i s).st.mem =
            (s.mem.read (accessBits i.op) ((s.regs i.rs1 : Int) + i.imm) true).mem := by rw [hb]; rfl
        rw [← hbm] at hre
        have hrr : (accessRegs i s.regs).d1 = some (s.regs i.rs1 : Int) ∧
            (accessRegs i s.regs).imm = some i.imm := by simp [accessRegs, hty]
        simp only [singleTail, hbf, hty, if_true, hrr.1, hrr.2, hre]
        exact ⟨by simp, trivial, trivial⟩
    · rw [singleTail_nonLoad i s hty]
      simp only [hbf]
      exact ⟨by simp, trivial, trivial⟩

/-- A non-faulting `singleTail` keeps `RunInv`. -/
theorem singleTail_runinv (i : Instr) (s : St) (h : RunInv s) (hf : (singleTail i s).fault = none) :
    RunInv (singleTail i s).st := by
  obtain ⟨h1, h2, h3⟩ := singleTail_facts i s h
  exact (behavior_runinv i s h (h1.1 hf)).of_eq h2 h3

end ArchSim.Lemmas.C09Prog
