/-
C07 helper lemmas: one cycle of a straight-line run preserves the explicit invariant `LineInv`
(no fault, no stall, no flush), hence the run takes exactly `n + 4` cycles.
Core Lean only.
-/
import ArchSim.Lemmas.C07Line
import ArchSim.Spec.Iter

namespace ArchSim.Lemmas.C07
open ArchSim ArchSim.Rv ArchSim.Pipe ArchSim.Lemmas.C02Split

theorem pickStall_none_of (old : Option Stall) (n1 n2 : Option Latch) (h1 : latchStall n1 = false)
    (h2 : latchStall n2 = false) : pickStall old n1 n2 = none := by
  unfold pickStall; simp [h1, h2]

theorem line_step (prog : List Instr) (hplain : ∀ i ∈ prog, PlainInstr i) (hfree : HazardFree prog)
    (hlen : prog.length ≤ 4096) (c0 i0 k : Nat) (p : PSt) (h : LineInv prog c0 i0 k p) :
    (step p).fault = none ∧ LineInv prog c0 i0 (k + 1) (step p).p := by
  obtain ⟨hIFpc, hIFim, hIFslot⟩ := line_IF prog c0 i0 k p hlen h
  -- WB
  have hWBf := wbStage_frame (sIF p) p.l3
  obtain ⟨hWBexit, hWBinstrs, hWBflush⟩ := slot_wb prog (sIF p) p.l3 _ h.s3
  -- ID
  obtain ⟨hIDslot, hIDstall⟩ := slot_id prog hfree p.hazard (sWB p).regs _ _ _ p.l0 p.l1 p.l2 _ _ _
    h.s0 h.s1 h.s2
    (fun a b ha hb => slotIdx_rel _ k 0 1 a b (by omega) (by omega) ha hb)
    (fun a b ha hb => slotIdx_rel _ k 0 2 a b (by omega) (by omega) ha hb)
  -- EX
  obtain ⟨hEXst, hEXf, hEXslot, hEXstall, hEXflush⟩ := slot_ex prog hplain (sWB p) p.l1 p.l2 p.l3 _ h.s1
  -- MEM
  obtain ⟨hMEst, hMEf, hMEslot, hMEflush⟩ := slot_mem prog hplain (exO p).st p.l2 _ h.s2
  have hexI : exInput p = p.l1 := by unfold exInput; rw [h.stl]
  have hmeI : memInput p = p.l2 := by unfold memInput; rw [h.stl]
  have hidI : idInput p = p.l0 := by unfold idInput; rw [h.stl]
  have hexO : exO p = exStage (sWB p) p.l1 p.l2 p.l3 := by unfold exO; rw [hexI]
  have hmeO : meO p = memStage (exO p).st p.l2 := by unfold meO; rw [hmeI]
  have hnID : nID p = idStage p.hazard (sWB p).regs p.l0 p.l1 p.l2 := by unfold nID; rw [hidI]
  rw [← hexO] at hEXst hEXf hEXslot hEXstall hEXflush
  rw [← hmeO] at hMEst hMEf hMEslot hMEflush
  rw [← hnID] at hIDslot hIDstall
  have hpick := pickStall_none_of p.stalled (nID p) (exO p).latch hIDstall hEXstall
  rw [step_ok p hEXf hMEf]
  refine ⟨rfl, ?_⟩
  simp only
  have hWBflush' : latchFlush (nWB p) = none := hWBflush
  rw [finishStep_noFlush _ _ _ _ _ _ _ hWBflush' hMEflush hEXflush]
  have hst : sPick p (meO p).st (nID p) (exO p).latch = sWB p := by
    unfold sPick; rw [hpick, hMEst, hEXst]; rfl
  have hstalled : countDown (stalled1 p (nID p) (exO p).latch) = none := by
    rw [stalled1_none _ _ _ hpick, h.stl]; rfl
  rw [hst, hstalled]
  have hcyc : (sWB p).cycles = p.st.cycles + 1 := by
    rw [sWB_cycles, fetchExtra_none p h.cch]
  have hsIFi : (sIF p).instrs = p.st.instrs := by
    unfold sIF; rw [h.stl]; exact (ifStage_frame _).2.2.2.2.1
  have hsIFe : (sIF p).exitCode = p.st.exitCode := by
    unfold sIF; rw [h.stl]; exact (ifStage_frame _).2.2.2.1
  constructor
  · rfl
  · show (sWB p).pc = _
    unfold sWB; rw [hWBf.1, hIFpc]
  · show (sWB p).imem.prog = _
    unfold sWB; rw [hWBf.2.2.1, hIFim, h.prg]
  · show (sWB p).imem.cache = _
    unfold sWB; rw [hWBf.2.2.1, hIFim, h.cch]
  · show (sWB p).exitCode = _
    unfold sWB; rw [hWBexit, hsIFe, h.exit]
  · show (sWB p).instrs = _
    unfold sWB; rw [hWBinstrs, hsIFi, h.instrs]
    unfold slotIdx
    split <;> simp <;> omega
  · show (sWB p).cycles = _
    rw [hcyc, h.cycles]; omega
  · exact hIFslot
  · show Slot prog Q1 (nID p) _
    rw [slotIdx_succ]; exact hIDslot
  · show Slot prog Q2 (exO p).latch _
    rw [slotIdx_succ]; exact hEXslot
  · show Slot prog Q2 (meO p).latch _
    rw [slotIdx_succ]; exact hMEslot

/-- One `Pipeline.step()`, forgetting the (absent) exception. -/
def stepP (p : PSt) : PSt := (step p).p

theorem line_run (prog : List Instr) (hplain : ∀ i ∈ prog, PlainInstr i) (hfree : HazardFree prog)
    (hlen : prog.length ≤ 4096) (c0 i0 : Nat) (p0 : PSt) (h0 : LineInv prog c0 i0 0 p0) (k : Nat) :
    LineInv prog c0 i0 k (iter stepP k p0) ∧ (step (iter stepP k p0)).fault = none := by
  induction k with
  | zero => exact ⟨h0, (line_step prog hplain hfree hlen c0 i0 0 p0 h0).1⟩
  | succ k ih =>
    rw [iter_succ']
    have h1 := (line_step prog hplain hfree hlen c0 i0 k _ ih.1).2
    exact ⟨h1, (line_step prog hplain hfree hlen c0 i0 (k + 1) _ h1).1⟩

theorem slot_isNone (prog : List Instr) (Q : Latch → Prop) (l : Option Latch) (o : Option Nat)
    (h : Slot prog Q l o) : l.isNone = o.isNone := by
  cases o with
  | none => have : l = none := h; subst this; rfl
  | some m => obtain ⟨x, rfl, _⟩ := h; rfl

theorem line_isDone (prog : List Instr) (c0 i0 k : Nat) (p : PSt) (h : LineInv prog c0 i0 k p) :
    isDone p = true ↔ (prog.length = 0 ∨ prog.length + 4 ≤ k) := by
  unfold isDone
  rw [h.exit, slot_isNone _ _ _ _ h.s0, slot_isNone _ _ _ _ h.s1, slot_isNone _ _ _ _ h.s2,
    slot_isNone _ _ _ _ h.s3, h.pc, instrAt_word, h.prg]
  unfold slotIdx
  simp only [Option.isSome_none, Bool.false_or, Bool.and_eq_true, Option.isNone_iff_eq_none,
    List.getElem?_eq_none_iff]
  constructor
  · rintro ⟨⟨⟨⟨a0, a1⟩, a2⟩, a3⟩, a4⟩
    split at a0 <;> split at a1 <;> split at a2 <;> split at a3 <;> simp at a0 a1 a2 a3 <;> omega
  · intro hk
    refine ⟨⟨⟨⟨?_, ?_⟩, ?_⟩, ?_⟩, ?_⟩
    any_goals (rw [if_neg (by omega)])
    omega

/-- Start of a straight-line run: empty pipeline at pc 0, uncached program `prog`, not exited. -/
structure LineStart (prog : List Instr) (p0 : PSt) : Prop where
  stl : p0.stalled = none
  pc : p0.st.pc = 0
  imem : p0.st.imem = { prog := prog, cache := none }
  exit : p0.st.exitCode = none
  e0 : p0.l0 = none
  e1 : p0.l1 = none
  e2 : p0.l2 = none
  e3 : p0.l3 = none

theorem lineInv_start (prog : List Instr) (p0 : PSt) (h : LineStart prog p0) :
    LineInv prog p0.st.cycles p0.st.instrs 0 p0 where
  stl := h.stl
  pc := by rw [h.pc]; simp
  prg := by rw [h.imem]
  cch := by rw [h.imem]
  exit := h.exit
  instrs := by simp
  cycles := rfl
  s0 := h.e0
  s1 := h.e1
  s2 := h.e2
  s3 := h.e3

end ArchSim.Lemmas.C07
