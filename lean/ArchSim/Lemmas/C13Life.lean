/-
C13 (RISC-V part) — lifecycle lemmas about `Sim.step`, `Sim.run`, `Sim.isDone`:
done is a fixed point of `step` and `run`; `step` returns `not is_done()`; `run` is `step` iterated;
fuel independence; empty programs are done.
-/
import ArchSim.Model.Sim
import ArchSim.Spec.Iter

namespace ArchSim.Sim
open ArchSim

/-! ### calls on a simulation -/

/-- The state after one `step()` call (whether or not it raised). -/
def stepS (s : RSim) : RSim := (step s).sim

/-- Does `step()` raise on `s`? -/
def stepFaults (s : RSim) : Bool := (step s).fault.isSome

/-- The state after `run()` with fuel `n`. -/
def runS (n : Nat) (s : RSim) : RSim := (run n s).1

/-- An API call that can advance a simulation: `step()` or `run()` (with the fuel of the model). -/
inductive Call where
  | step
  | run (fuel : Nat)
deriving Repr, DecidableEq

/-- The simulation after one call. -/
def call (s : RSim) : Call → RSim
  | .step => stepS s
  | .run n => runS n s

/-- The simulation after a sequence of calls. -/
def calls (s : RSim) (cs : List Call) : RSim := cs.foldl call s

/-- `step` applied while the simulation is not done and no step has raised, at most `n` times. -/
def iterStep : Nat → RSim → RSim
  | 0, s => s
  | n + 1, s =>
    if isDone s then s
    else if stepFaults s then stepS s
    else iterStep n (stepS s)

/-! ### done is stable -/

theorem step_done {s : RSim} (h : isDone s = true) : step s = { sim := s, ret := false, fault := none } := by
  simp [step, h]

theorem stepS_done {s : RSim} (h : isDone s = true) : stepS s = s := by
  simp [stepS, step_done h]

theorem run_done {s : RSim} (h : isDone s = true) (n : Nat) : run n s = (s, 0, none) := by
  cases n <;> simp [run, h]

theorem runS_done {s : RSim} (h : isDone s = true) (n : Nat) : runS n s = s := by
  simp [runS, run_done h]

theorem call_done {s : RSim} (h : isDone s = true) (c : Call) : call s c = s := by
  cases c <;> simp [call, stepS_done h, runS_done h]

theorem calls_done {s : RSim} (h : isDone s = true) (cs : List Call) : calls s cs = s := by
  induction cs with
  | nil => rfl
  | cons c cs ih => simp only [calls, List.foldl_cons, call_done h c]; exact ih

theorem iter_stepS_done {s : RSim} (h : isDone s = true) (n : Nat) : iter stepS n s = s :=
  iter_fixed stepS s (stepS_done h) n

/-! ### the return value of `step` -/

theorem step_five_ok {s : RSim} (h : isDone s = false) (h5 : s.five = true)
    (hf : (Pipe.step s.p).fault = none) :
    step s = { sim := { s with p := (Pipe.step s.p).p, started := true },
               ret := !isDone { s with p := (Pipe.step s.p).p, started := true }, fault := none } := by
  simp [step, h, h5, hf]

theorem step_five_fault {s : RSim} (h : isDone s = false) (h5 : s.five = true) {f}
    (hf : (Pipe.step s.p).fault = some f) :
    step s = { sim := { s with p := (Pipe.step s.p).p, started := true }, ret := false,
               fault := some (f.addr, some f.instr, f.fault) } := by
  simp [step, h, h5, hf]

theorem step_single_ok {s : RSim} (h : isDone s = false) (h5 : s.five = false)
    (hf : (Rv.singleStep s.p.st).fault = none) :
    step s = { sim := { s with p := { s.p with st := (Rv.singleStep s.p.st).st }, started := true },
               ret := !isDone { s with p := { s.p with st := (Rv.singleStep s.p.st).st }, started := true },
               fault := none } := by
  simp [step, h, h5, hf]

theorem step_single_fault {s : RSim} (h : isDone s = false) (h5 : s.five = false) {a f}
    (hf : (Rv.singleStep s.p.st).fault = some (a, f)) :
    step s = { sim := { s with p := { s.p with st := (Rv.singleStep s.p.st).st }, started := true },
               ret := false, fault := some (a, s.p.st.imem.instrAt a, f) } := by
  simp [step, h, h5, hf]

/-- case analysis on a step -/
theorem step_cases (s : RSim) :
    (isDone s = true ∧ step s = { sim := s, ret := false, fault := none }) ∨
    (isDone s = false ∧ ∃ s', s'.five = s.five ∧ s'.started = true ∧
        (step s = { sim := s', ret := !isDone s', fault := none } ∨
         ∃ f, step s = { sim := s', ret := false, fault := some f })) := by
  cases hd : isDone s with
  | true => left; simp [step, hd]
  | false =>
    right; refine ⟨rfl, ?_⟩
    rcases Bool.eq_false_or_eq_true s.five with h5 | h5
    · cases hf : (Pipe.step s.p).fault with
      | none => exact ⟨{ s with p := (Pipe.step s.p).p, started := true }, rfl, rfl, Or.inl (step_five_ok hd h5 hf)⟩
      | some f =>
        exact ⟨{ s with p := (Pipe.step s.p).p, started := true }, rfl, rfl, Or.inr ⟨_, step_five_fault hd h5 hf⟩⟩
    · cases hf : (Rv.singleStep s.p.st).fault with
      | none =>
        exact ⟨{ s with p := { s.p with st := (Rv.singleStep s.p.st).st }, started := true }, rfl, rfl,
          Or.inl (step_single_ok hd h5 hf)⟩
      | some af =>
        obtain ⟨a, f⟩ := af
        exact ⟨{ s with p := { s.p with st := (Rv.singleStep s.p.st).st }, started := true }, rfl, rfl,
          Or.inr ⟨_, step_single_fault hd h5 hf⟩⟩

theorem step_ret (s : RSim) (hf : (step s).fault = none) : (step s).ret = !isDone (step s).sim := by
  rcases step_cases s with ⟨hd, h⟩ | ⟨hd, s', _, _, h | ⟨f, h⟩⟩
  · rw [h]; simp [hd]
  · rw [h]
  · rw [h] at hf; simp at hf

theorem step_ret_fault (s : RSim) (hf : (step s).fault ≠ none) : (step s).ret = false := by
  rcases step_cases s with ⟨hd, h⟩ | ⟨hd, s', _, _, h | ⟨f, h⟩⟩
  · rw [h]
  · rw [h] at hf; simp at hf
  · rw [h]

theorem step_five (s : RSim) : (step s).sim.five = s.five := by
  rcases step_cases s with ⟨hd, h⟩ | ⟨hd, s', h5, _, h | ⟨f, h⟩⟩ <;> rw [h] <;> simp [h5]

theorem step_started (s : RSim) (hd : isDone s = false) : (step s).sim.started = true := by
  rcases step_cases s with ⟨hd', h⟩ | ⟨_, s', _, hs, h | ⟨f, h⟩⟩
  · simp [hd] at hd'
  · rw [h]; exact hs
  · rw [h]; exact hs

/-! ### `run` is iterated `step` -/

theorem run_zero (s : RSim) : run 0 s = (s, 0, none) := rfl

theorem run_succ_done {s : RSim} (h : isDone s = true) (n : Nat) : run (n + 1) s = (s, 0, none) :=
  run_done h _

theorem run_succ_fault {s : RSim} (h : isDone s = false) {f} (hf : (step s).fault = some f) (n : Nat) :
    run (n + 1) s = ((step s).sim, 0, some f) := by
  simp [run, h, hf]

theorem run_succ_ok {s : RSim} (h : isDone s = false) (hf : (step s).fault = none) (n : Nat) :
    run (n + 1) s = ((run n (step s).sim).1, (run n (step s).sim).2.1 + 1, (run n (step s).sim).2.2) := by
  simp [run, h, hf]

theorem run_eq_iterStep (n : Nat) (s : RSim) : (run n s).1 = iterStep n s := by
  induction n generalizing s with
  | zero => rfl
  | succ n ih =>
    cases hd : isDone s with
    | true => simp [run_done hd, iterStep, hd]
    | false =>
      cases hf : (step s).fault with
      | some f => simp [run_succ_fault hd hf, iterStep, hd, stepFaults, hf, stepS]
      | none => simp [run_succ_ok hd hf, iterStep, hd, stepFaults, hf, stepS, ih]

/-- Full description of `run n s`: it is `step` applied `k ≤ n` times, `k` is the returned count,
    no state before the `k`-th is done and none of the first `k` steps raises; and afterwards either
    the `k`-th state is done (no exception), or the next step raises (that exception is returned,
    with the state after the raising step), or the fuel ran out (`k = n`). -/
theorem run_iter (n : Nat) (s : RSim) :
    ∃ k, k ≤ n ∧ (run n s).2.1 = k ∧
      (∀ j, j < k → isDone (iter stepS j s) = false ∧ (step (iter stepS j s)).fault = none) ∧
      (((run n s).2.2 = none ∧ (run n s).1 = iter stepS k s ∧ (k < n → isDone (iter stepS k s) = true)) ∨
       (∃ f, (run n s).2.2 = some f ∧ k < n ∧ isDone (iter stepS k s) = false ∧
          (step (iter stepS k s)).fault = some f ∧ (run n s).1 = iter stepS (k + 1) s)) := by
  induction n generalizing s with
  | zero => exact ⟨0, Nat.le_refl _, rfl, by intro j hj; omega, Or.inl ⟨rfl, rfl, by intro h; omega⟩⟩
  | succ n ih =>
    cases hd : isDone s with
    | true =>
      refine ⟨0, Nat.zero_le _, by simp [run_done hd], by intro j hj; omega, Or.inl ?_⟩
      simp [run_done hd, hd]
    | false =>
      cases hf : (step s).fault with
      | some f =>
        refine ⟨0, Nat.zero_le _, by simp [run_succ_fault hd hf], by intro j hj; omega, Or.inr ⟨f, ?_⟩⟩
        simp [run_succ_fault hd hf, hd, hf, iter, stepS]
      | none =>
        obtain ⟨k, hk, hc, hpre, hpost⟩ := ih (step s).sim
        refine ⟨k + 1, by omega, by simp [run_succ_ok hd hf, hc], ?_, ?_⟩
        · intro j hj
          cases j with
          | zero => exact ⟨hd, hf⟩
          | succ j => rw [iter_succ]; exact hpre j (by omega)
        · rw [run_succ_ok hd hf]
          rcases hpost with ⟨h1, h2, h3⟩ | ⟨f, h1, h2, h3, h4, h5⟩
          · exact Or.inl ⟨h1, by rw [iter_succ]; exact h2, fun h => by rw [iter_succ]; exact h3 (by omega)⟩
          · exact Or.inr ⟨f, h1, by omega, by rw [iter_succ]; exact h3, by rw [iter_succ]; exact h4,
              by rw [iter_succ]; exact h5⟩

/-- Fuel independence: once a run has ended in a done state without an exception, more fuel gives
    the same result (state, count, no exception). -/
theorem run_fuel {n : Nat} {s : RSim} (hd : isDone (run n s).1 = true) (hf : (run n s).2.2 = none)
    {m : Nat} (hm : n ≤ m) : run m s = run n s := by
  induction n generalizing s m with
  | zero =>
    have : isDone s = true := hd
    rw [run_done this, run_done this]
  | succ n ih =>
    obtain ⟨m, rfl⟩ : ∃ m', m = m' + 1 := ⟨m - 1, by omega⟩
    cases hds : isDone s with
    | true => rw [run_done hds, run_done hds]
    | false =>
      cases hfs : (step s).fault with
      | some f => rw [run_succ_fault hds hfs, run_succ_fault hds hfs]
      | none =>
        rw [run_succ_ok hds hfs] at hd hf ⊢
        rw [run_succ_ok hds hfs]
        rw [ih hd hf (by omega)]

/-- A run that raised is fuel-independent as well. -/
theorem run_fuel_fault {n : Nat} {s : RSim} {f} (hf : (run n s).2.2 = some f)
    {m : Nat} (hm : n ≤ m) : run m s = run n s := by
  induction n generalizing s m with
  | zero => simp [run] at hf
  | succ n ih =>
    obtain ⟨m, rfl⟩ : ∃ m', m = m' + 1 := ⟨m - 1, by omega⟩
    cases hds : isDone s with
    | true => rw [run_done hds, run_done hds]
    | false =>
      cases hfs : (step s).fault with
      | some f => rw [run_succ_fault hds hfs, run_succ_fault hds hfs]
      | none =>
        rw [run_succ_ok hds hfs] at hf ⊢
        rw [run_succ_ok hds hfs]
        rw [ih hf (by omega)]

/-- `run` stops in a done state, at a raised exception, or because the fuel ran out with exactly
    `n` steps taken. -/
theorem run_stops (n : Nat) (s : RSim) :
    isDone (run n s).1 = true ∨ (run n s).2.2 ≠ none ∨ (run n s).2.1 = n := by
  induction n generalizing s with
  | zero => simp [run]
  | succ n ih =>
    cases hds : isDone s with
    | true => simp [run_done hds, hds]
    | false =>
      cases hfs : (step s).fault with
      | some f => simp [run_succ_fault hds hfs]
      | none =>
        rw [run_succ_ok hds hfs]
        rcases ih (step s).sim with h | h | h
        · exact Or.inl h
        · exact Or.inr (Or.inl h)
        · exact Or.inr (Or.inr (by simp [h]))

/-- `run` after `run`: a second `run()` on the result of a finished run changes nothing. -/
theorem run_run {n : Nat} {s : RSim} (hd : isDone (run n s).1 = true) (m : Nat) :
    run m (run n s).1 = ((run n s).1, 0, none) := run_done hd m

/-! ### empty programs -/

theorem instrAt_nil (im : Rv.IMem) (h : im.prog = []) (pc : Int) : im.instrAt pc = none := by
  unfold Rv.IMem.instrAt
  rw [h]
  split <;> simp

/-- A simulation with an empty instruction memory whose pipeline registers are empty is done
    (five-stage mode needs the latches empty; single-stage mode needs nothing else). -/
theorem isDone_of_prog_nil (s : RSim) (hp : s.p.st.imem.prog = [])
    (hl : s.five = true → s.p.l0 = none ∧ s.p.l1 = none ∧ s.p.l2 = none ∧ s.p.l3 = none) :
    isDone s = true := by
  unfold isDone
  cases h5 : s.five with
  | true =>
    obtain ⟨h0, h1, h2, h3⟩ := hl h5
    simp [Pipe.isDone, h0, h1, h2, h3, instrAt_nil _ hp]
  | false => simp [Rv.singleDone, instrAt_nil _ hp]

/-- The initial architectural state of a new simulation over the given memory systems
    (mirrors `Driver.freshSt`). -/
def freshSt (ms : Rv.MemSys) (ic : Option Rv.ICache) : Rv.St :=
  { regs := fun _ => 0, pc := 0, mem := ms, imem := { prog := [], cache := ic }, output := "",
    exitCode := none, cycles := 0, instrs := 0, branches := 0, procs := 0, stalls := 0, flushes := 0 }

/-- A new `RiscvSimulation`: mode, hazard detection flag, data memory system, instruction cache. -/
def fresh (five hazard : Bool) (ms : Rv.MemSys) (ic : Option Rv.ICache) : RSim :=
  { five := five, p := Pipe.PSt.init (freshSt ms ic) hazard, started := false }

theorem fresh_isDone (five hazard : Bool) (ms : Rv.MemSys) (ic : Option Rv.ICache) :
    isDone (fresh five hazard ms ic) = true :=
  isDone_of_prog_nil _ rfl (fun _ => ⟨rfl, rfl, rfl, rfl⟩)

/-- `load` touches only the architectural state: mode, latches, stall bookkeeping, `has_started`
    are unchanged. -/
theorem load_frame_sim (s : RSim) (t : String) :
    (load s t).1.five = s.five ∧ (load s t).1.started = s.started ∧ (load s t).1.p.hazard = s.p.hazard ∧
    (load s t).1.p.l0 = s.p.l0 ∧ (load s t).1.p.l1 = s.p.l1 ∧ (load s t).1.p.l2 = s.p.l2 ∧
    (load s t).1.p.l3 = s.p.l3 ∧ (load s t).1.p.l4 = s.p.l4 ∧ (load s t).1.p.stalled = s.p.stalled :=
  ⟨rfl, rfl, rfl, rfl, rfl, rfl, rfl, rfl, rfl⟩

theorem load_st (s : RSim) (t : String) : (load s t).1.p.st = (Asm.load s.p.st t).st := rfl
theorem load_err (s : RSim) (t : String) : (load s t).2 = (Asm.load s.p.st t).err := rfl

/-- Loading an empty program into a simulation whose latches are empty gives a done simulation. -/
theorem load_empty_done (s : RSim) (t : String) (hp : (Asm.load s.p.st t).st.imem.prog = [])
    (hl : s.five = true → s.p.l0 = none ∧ s.p.l1 = none ∧ s.p.l2 = none ∧ s.p.l3 = none) :
    isDone (load s t).1 = true :=
  isDone_of_prog_nil _ hp hl

/-! ### concrete simulations for the non-vacuity examples -/

/-- an empty flat RISC-V data memory -/
def flat0 : Rv.MemSys := .flat (Mem.Mem.empty Mem.riscvCfg)

/-- a new simulation (hazard detection on, flat memory, no caches) with the given program in its
    instruction memory, i.e. the state after a successful `load_program` -/
def withProg (five : Bool) (prog : List Rv.Instr) : RSim :=
  let s := fresh five true flat0 none
  { s with p := { s.p with st := { s.p.st with imem := { prog := prog, cache := none } } } }

/-- `nop` -/
def nopSim (five : Bool) : RSim := withProg five [{ op := .addi }]

/-- `li a7, 10; ecall; nop; nop` — exits through the ecall with younger instructions behind it -/
def exitSim (five : Bool) : RSim :=
  withProg five [{ op := .addi, rd := 17, imm := 10 }, { op := .ecall }, { op := .addi }, { op := .addi }]

/-- a five-stage state that is done only because of the exit code: all four latches are occupied -/
def exitFull : RSim :=
  let l : Pipe.Latch := { instr := { op := .addi }, addr := 8, pc4 := 12 }
  let s := exitSim true
  { s with started := true,
           p := { s.p with st := { s.p.st with exitCode := some 0, pc := 8 },
                           l0 := some l, l1 := some l, l2 := some l, l3 := some l } }

end ArchSim.Sim
