/-
C07/C08 helper lemmas: the static register-dependence relation between instructions, the ID hazard
test expressed with it, and `HazardFree` programs (no dependence at distance 1 or 2).
Core Lean only.
-/
import ArchSim.Lemmas.C07Step

namespace ArchSim.Lemmas.C07
open ArchSim ArchSim.Rv ArchSim.Pipe ArchSim.Lemmas.C02Split

/-- Does instruction `i` read register `r` (per the read addresses of `access_register_file`)? -/
def readsReg (i : Instr) (r : Nat) : Bool :=
  (accessRegs i (fun _ => 0)).a1 == some r || (accessRegs i (fun _ => 0)).a2 == some r

/-- `c` reads a non-x0 register that `w` writes. -/
def conflict (c w : Instr) : Bool :=
  match writeReg w with
  | none => false
  | some r => r != 0 && readsReg c r

theorem accessRegs_a1 (i : Instr) (regs regs' : Nat → Nat) :
    (accessRegs i regs).a1 = (accessRegs i regs').a1 := by
  unfold accessRegs; split <;> rfl

theorem accessRegs_a2 (i : Instr) (regs regs' : Nat → Nat) :
    (accessRegs i regs).a2 = (accessRegs i regs').a2 := by
  unfold accessRegs; split <;> rfl

/-- The ID hazard test against a non-empty later register is the static `conflict` test. -/
theorem hazardWith_some (c : Instr) (regs : Nat → Nat) (x : Latch) :
    hazardWith (accessRegs c regs) (some x) = conflict c x.instr := by
  unfold hazardWith conflict readsReg
  rw [accessRegs_a1 c regs (fun _ => 0), accessRegs_a2 c regs (fun _ => 0)]
  rfl

theorem hazardWith_none (rr : RegRead) : hazardWith rr none = false := rfl

/-- No instruction reads a non-x0 register written by one of the two instructions before it. -/
def HazardFree (prog : List Instr) : Prop :=
  ∀ j k : Nat, ∀ c w : Instr, prog[j]? = some c → prog[k]? = some w → k < j → j ≤ k + 2 →
    conflict c w = false

instance (prog : List Instr) : Decidable (HazardFree prog) :=
  decidable_of_iff
    (∀ j : Fin prog.length, ∀ k : Fin prog.length, k.1 < j.1 → j.1 ≤ k.1 + 2 →
      conflict prog[j.1] prog[k.1] = false)
    (by
      unfold HazardFree
      constructor
      · intro h j k c w hj hk h1 h2
        obtain ⟨hjl, rfl⟩ := List.getElem?_eq_some_iff.1 hj
        obtain ⟨hkl, rfl⟩ := List.getElem?_eq_some_iff.1 hk
        exact h ⟨j, hjl⟩ ⟨k, hkl⟩ h1 h2
      · intro h j k h1 h2
        exact h j.1 k.1 _ _ (List.getElem?_eq_getElem j.2) (List.getElem?_eq_getElem k.2) h1 h2)

end ArchSim.Lemmas.C07
