/-
C17 helper lemmas, part 2: characterisation of `Fmt.groupify` (separator after every `g`
characters counted from the right).
-/
import ArchSim.Model.Fmt
import ArchSim.Spec.Digits

namespace ArchSim.Lemmas.C17
open ArchSim.Fmt ArchSim.Spec.Digits

/-! ### joining with single spaces -/

/-- `" ".join(L)` written by plain recursion. -/
def joinSp : List (List Char) → List Char
  | [] => []
  | [x] => x
  | x :: y :: r => x ++ ' ' :: joinSp (y :: r)

theorem intercalate_eq_joinSp (L : List (List Char)) : List.intercalate [' '] L = joinSp L := by
  fun_induction joinSp L with
  | case1 => simp [List.intercalate]
  | case2 x => simp [List.intercalate]
  | case3 x y r ih =>
    simp only [List.intercalate] at ih ⊢
    simp [List.intersperse, ih]

theorem joinSp_cons_of_ne_nil (x : List Char) (L : List (List Char)) (h : L ≠ []) :
    joinSp (x :: L) = x ++ ' ' :: joinSp L := by
  cases L with
  | nil => exact absurd rfl h
  | cons y r => rfl

theorem joinSp_append_singleton (A : List (List Char)) (x : List Char) (h : A ≠ []) :
    joinSp (A ++ [x]) = joinSp A ++ ' ' :: x := by
  induction A with
  | nil => exact absurd rfl h
  | cons a A ih =>
    cases A with
    | nil => simp [joinSp]
    | cons b B =>
      have := ih (by simp)
      simp only [List.cons_append] at this ⊢
      simp [joinSp, this]

theorem reverse_joinSp (L : List (List Char)) :
    (joinSp L).reverse = joinSp ((L.map List.reverse).reverse) := by
  induction L with
  | nil => simp [joinSp]
  | cons a A ih =>
    cases A with
    | nil => simp [joinSp]
    | cons b B =>
      rw [joinSp_cons_of_ne_nil a (b :: B) (by simp)]
      rw [List.map_cons, List.reverse_cons,
        joinSp_append_singleton _ _ (by simp), ← ih]
      simp

/-! ### reading a joined string -/

theorem stripSpaces_append (a b : List Char) : stripSpaces (a ++ b) = stripSpaces a ++ stripSpaces b := by
  simp [stripSpaces]

theorem stripSpaces_of_no_space (s : List Char) (h : ' ' ∉ s) : stripSpaces s = s := by
  unfold stripSpaces
  rw [List.filter_eq_self]
  intro c hc
  have : c ≠ ' ' := fun e => h (e ▸ hc)
  simpa using this

theorem stripSpaces_joinSp (L : List (List Char)) : stripSpaces (joinSp L) = stripSpaces L.flatten := by
  fun_induction joinSp L with
  | case1 => rfl
  | case2 x => simp
  | case3 x y r ih =>
    rw [List.flatten_cons, stripSpaces_append, stripSpaces_append, ← ih]
    simp [stripSpaces]

theorem splitSpaces_ne_nil (s : List Char) : splitSpaces s ≠ [] := by
  induction s with
  | nil => simp [splitSpaces]
  | cons c cs ih =>
    unfold splitSpaces
    split
    · simp
    · split <;> simp

theorem splitSpaces_of_no_space (x : List Char) (h : ' ' ∉ x) : splitSpaces x = [x] := by
  induction x with
  | nil => rfl
  | cons c cs ih =>
    have hc : c ≠ ' ' := fun e => h (by simp [e])
    have hcs : ' ' ∉ cs := fun e => h (by simp [e])
    simp [splitSpaces, hc, ih hcs]

theorem splitSpaces_append_space (x rest : List Char) (h : ' ' ∉ x) :
    splitSpaces (x ++ ' ' :: rest) = x :: splitSpaces rest := by
  induction x with
  | nil => simp [splitSpaces]
  | cons c cs ih =>
    have hc : c ≠ ' ' := fun e => h (by simp [e])
    have hcs : ' ' ∉ cs := fun e => h (by simp [e])
    simp [splitSpaces, hc, ih hcs]

/-- Splitting a space-joined list of space-free pieces gives the pieces back. -/
theorem splitSpaces_joinSp (L : List (List Char)) (hne : L ≠ []) (hsp : ∀ x ∈ L, ' ' ∉ x) :
    splitSpaces (joinSp L) = L := by
  fun_induction joinSp L with
  | case1 => exact absurd rfl hne
  | case2 x => exact splitSpaces_of_no_space x (hsp x (by simp))
  | case3 x y r ih =>
    rw [splitSpaces_append_space x _ (hsp x (by simp)),
      ih (by simp) (fun z hz => hsp z (List.mem_cons_of_mem _ hz))]

/-! ### `chunks` -/

theorem chunks_of_ne_nil (g fuel : Nat) (l : List Char) (h : l ≠ []) :
    chunks g (fuel + 1) l = l.take g :: chunks g fuel (l.drop g) := by
  cases l with
  | nil => exact absurd rfl h
  | cons a l => simp [chunks]

theorem chunks_nil (g fuel : Nat) : chunks g fuel [] = [] := by
  cases fuel <;> simp [chunks]

theorem chunks_flatten (g : Nat) (hg : 1 ≤ g) (fuel : Nat) (l : List Char) (hf : l.length < fuel) :
    (chunks g fuel l).flatten = l := by
  induction fuel generalizing l with
  | zero => omega
  | succ fuel ih =>
    by_cases hl : l = []
    · subst hl; simp [chunks]
    · rw [chunks_of_ne_nil g fuel l hl, List.flatten_cons, ih]
      · exact List.take_append_drop g l
      · have : 0 < l.length := List.length_pos_iff.mpr hl
        simp only [List.length_drop]; omega

theorem chunks_ne_nil (g fuel : Nat) (l : List Char) (hl : l ≠ []) (hf : l.length < fuel) :
    chunks g fuel l ≠ [] := by
  cases fuel with
  | zero => omega
  | succ fuel => rw [chunks_of_ne_nil g fuel l hl]; simp

theorem chunks_mem_length (g : Nat) (hg : 1 ≤ g) (fuel : Nat) (l : List Char) :
    ∀ c ∈ chunks g fuel l, 1 ≤ c.length ∧ c.length ≤ g := by
  induction fuel generalizing l with
  | zero => simp [chunks]
  | succ fuel ih =>
    by_cases hl : l = []
    · subst hl; simp [chunks]
    · rw [chunks_of_ne_nil g fuel l hl]
      intro c hc
      rcases List.mem_cons.mp hc with rfl | hc
      · have : 0 < l.length := List.length_pos_iff.mpr hl
        simp only [List.length_take]; omega
      · exact ih _ c hc

/-- Every chunk but the last is full. -/
theorem chunks_dropLast_length (g : Nat) (fuel : Nat) (l : List Char) :
    ∀ c ∈ (chunks g fuel l).dropLast, c.length = g := by
  induction fuel generalizing l with
  | zero => simp [chunks]
  | succ fuel ih =>
    by_cases hl : l = []
    · subst hl; simp [chunks]
    · rw [chunks_of_ne_nil g fuel l hl]
      by_cases hr : chunks g fuel (l.drop g) = []
      · simp [hr]
      · rw [List.dropLast_cons_of_ne_nil hr]
        intro c hc
        rcases List.mem_cons.mp hc with rfl | hc
        · have hd : l.drop g ≠ [] := by
            intro e; rw [e, chunks_nil] at hr; exact hr rfl
          have : 0 < (l.drop g).length := List.length_pos_iff.mpr hd
          simp only [List.length_drop] at this
          simp only [List.length_take]; omega
        · exact ih _ c hc

/-! ### `groupify` -/

/-- `groupify` as a join of the reversed chunks of the reversed string. -/
theorem groupify_eq_joinSp (g : Nat) (s : List Char) :
    groupify g s =
      joinSp (((chunks g (s.reverse.length + 1) s.reverse).map List.reverse).reverse) := by
  unfold groupify
  simp only [intercalate_eq_joinSp, reverse_joinSp]

/-- The pieces of `groupify g s`. -/
def groupsOf (g : Nat) (s : List Char) : List (List Char) :=
  ((chunks g (s.reverse.length + 1) s.reverse).map List.reverse).reverse

theorem groupsOf_flatten (g : Nat) (hg : 1 ≤ g) (s : List Char) : (groupsOf g s).flatten = s := by
  unfold groupsOf
  rw [← List.reverse_flatten, chunks_flatten g hg _ _ (by omega), List.reverse_reverse]

theorem groupsOf_isRightGrouping (g : Nat) (hg : 1 ≤ g) (s : List Char) (hs : s ≠ []) :
    IsRightGrouping g s (groupsOf g s) := by
  have hfl := groupsOf_flatten g hg s
  unfold groupsOf at hfl ⊢
  generalize hcs : chunks g (s.reverse.length + 1) s.reverse = cs at hfl ⊢
  have hne : cs ≠ [] := by
    rw [← hcs]; exact chunks_ne_nil g _ _ (by simpa using hs) (by omega)
  have hmem := chunks_mem_length g hg (s.reverse.length + 1) s.reverse
  have hdl := chunks_dropLast_length g (s.reverse.length + 1) s.reverse
  rw [hcs] at hmem hdl
  have hsplit : cs = cs.dropLast ++ [cs.getLast hne] := (List.dropLast_concat_getLast hne).symm
  refine ⟨(cs.getLast hne).reverse, (cs.dropLast.map List.reverse).reverse, ?_, ?_, ?_, ?_, ?_⟩
  · conv => lhs; rw [hsplit]
    simp
  · rw [← hfl]
    conv => rhs; rw [hsplit]
    simp
  · simpa using (hmem _ (List.getLast_mem hne)).1
  · simpa using (hmem _ (List.getLast_mem hne)).2
  · intro c hc
    simp only [List.mem_reverse, List.mem_map] at hc
    obtain ⟨d, hd, rfl⟩ := hc
    simpa using hdl d hd

theorem groupsOf_no_space (g : Nat) (hg : 1 ≤ g) (s : List Char) (hsp : ' ' ∉ s) :
    ∀ x ∈ groupsOf g s, ' ' ∉ x := by
  intro x hx hc
  apply hsp
  rw [← groupsOf_flatten g hg s]
  exact List.mem_flatten.mpr ⟨x, hx, hc⟩

theorem groupsOf_ne_nil (g : Nat) (hg : 1 ≤ g) (s : List Char) (hs : s ≠ []) : groupsOf g s ≠ [] := by
  obtain ⟨h, t, e, _⟩ := groupsOf_isRightGrouping g hg s hs
  rw [e]; simp

/-- **Characterisation of `groupify`, part (a)**: removing the separators gives the input back
(for any input; if the input has no spaces, it is returned unchanged). -/
theorem stripSpaces_groupify (g : Nat) (hg : 1 ≤ g) (s : List Char) :
    stripSpaces (groupify g s) = stripSpaces s := by
  rw [groupify_eq_joinSp, stripSpaces_joinSp]
  exact congrArg stripSpaces (groupsOf_flatten g hg s)

theorem stripSpaces_groupify_of_no_space (g : Nat) (hg : 1 ≤ g) (s : List Char) (hsp : ' ' ∉ s) :
    stripSpaces (groupify g s) = s := by
  rw [stripSpaces_groupify g hg, stripSpaces_of_no_space s hsp]

/-- **Characterisation of `groupify`, part (b)**: for a non-empty space-free input, splitting the
output at the spaces gives a right-aligned grouping of the input in groups of `g`. -/
theorem splitSpaces_groupify (g : Nat) (hg : 1 ≤ g) (s : List Char) (hs : s ≠ []) (hsp : ' ' ∉ s) :
    IsRightGrouping g s (splitSpaces (groupify g s)) := by
  rw [groupify_eq_joinSp]
  show IsRightGrouping g s (splitSpaces (joinSp (groupsOf g s)))
  rw [splitSpaces_joinSp _ (groupsOf_ne_nil g hg s hs) (groupsOf_no_space g hg s hsp)]
  exact groupsOf_isRightGrouping g hg s hs

/-- A right-aligned grouping of `s` is unique: the number of groups and every group are determined
by `s` and `g`. -/
theorem IsRightGrouping.length_eq {g : Nat} {s : List Char} {L : List (List Char)}
    (h : IsRightGrouping g s L) :
    ∃ k, L.length = k + 1 ∧ g * k < s.length ∧ s.length ≤ g * (k + 1) := by
  obtain ⟨hd, t, rfl, rfl, h1, h2, ht⟩ := h
  refine ⟨t.length, by simp, ?_, ?_⟩
  all_goals
    have hsum : t.flatten.length = g * t.length := by
      clear h1 h2
      induction t with
      | nil => simp
      | cons a t ih =>
        have ha := ht a (by simp)
        have := ih (fun c hc => ht c (List.mem_cons_of_mem _ hc))
        simp only [List.flatten_cons, List.length_append, List.length_cons, this, ha,
          Nat.mul_add, Nat.mul_one]
        omega
    simp only [List.length_append, hsum, Nat.mul_add, Nat.mul_one]
    omega

end ArchSim.Lemmas.C17
