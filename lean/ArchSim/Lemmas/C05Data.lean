/-
C05 helper lemmas, part 5: `writeData` realises the layout specification of `C05Layout`.
-/
import ArchSim.Lemmas.C05Layout

namespace ArchSim.Lemmas.C05
open ArchSim ArchSim.Asm ArchSim.Rv ArchSim.Mem ArchSim.Lemmas.C18
open ArchSim.Spec.ByteStore (cellVal cellOk leSum)

/-- the writes one declaration performs, from address `a` -/
def declWrite (it : Item) (ms : MemSys) (a : Int) : MemSys × Int × Option AsmErr :=
  match it with
  | .varDecl _ ty vals => writeSeq (tyBits ty) vals ms a
  | .strDecl _ body => writeSeq 8 (body.map (fun (c : Char) => (c.toNat : Int)) ++ [0]) ms a
  | .zeroDecl _ n => (ms, a + 4 * n, none)
  | _ => (ms, a, none)

/-- a data entry is well formed: no in-line label, and a declaration -/
def entryOk (e : Entry) : Bool := e.2.2.lbl.isNone && isDecl e.2.2.item

def itemsOf (es : List Entry) : List Item := es.map (·.2.2.item)

/-- one step of `writeData` on a well-formed entry with a fresh name -/
theorem writeData_cons (k : Nat) (line : String) (t : Tok) (rest : List Entry) (o : DataOut)
    (hok : entryOk (k, line, t) = true) (hf : lookupVar o.vars (declName t.item) = none) :
    writeData ((k, line, t) :: rest) o =
      match declWrite t.item o.mem (align4 o.ctr) with
      | (m, a', some e) =>
        { o with mem := m, ctr := a', vars := o.vars ++ [(declName t.item, align4 o.ctr, declSize t.item)], err := some e }
      | (m, a', none) =>
        writeData rest { o with mem := m, ctr := a', vars := o.vars ++ [(declName t.item, align4 o.ctr, declSize t.item)] } := by
  obtain ⟨lbl, item⟩ := t
  simp only [entryOk, Bool.and_eq_true, Option.isNone_iff_eq_none] at hok
  obtain ⟨hl, hd⟩ := hok
  simp only at hl hd hf
  subst hl
  cases item with
  | varDecl n ty vals =>
    simp only [declName] at hf
    simp only [writeData, Option.isSome_none, Bool.false_eq_true, if_false, hf, declWrite, declName, declSize, tyBits]
    generalize writeSeq _ vals o.mem (align4 o.ctr) = r
    obtain ⟨m, a', e⟩ := r
    cases e <;> rfl
  | strDecl n body =>
    simp only [declName] at hf
    simp only [writeData, Option.isSome_none, Bool.false_eq_true, if_false, hf, declWrite, declName, declSize]
    generalize writeSeq 8 _ o.mem (align4 o.ctr) = r
    obtain ⟨m, a', e⟩ := r
    cases e <;> rfl
  | zeroDecl n c =>
    simp only [declName] at hf
    simp only [writeData, Option.isSome_none, Bool.false_eq_true, if_false, hf, declWrite, declName, declSize]
  | str s => cases hd
  | grp p => cases hd
  | directive d => cases hd

theorem mul_add_lt (i len sz j : Nat) (hi : i < len) (hj : j < sz) : i * sz + j < len * sz := by
  have : (i + 1) * sz ≤ len * sz := Nat.mul_le_mul_right sz hi
  rw [Nat.add_mul, Nat.one_mul] at this
  omega

theorem mul_add_lt_int (i len sz j : Nat) (hi : i < len) (hj : j < sz) :
    (i : Int) * (sz : Int) + (j : Int) < (len : Int) * (sz : Int) := by
  have := mul_add_lt i len sz j hi hj
  have h2 : ((i * sz + j : Nat) : Int) < ((len * sz : Nat) : Int) := by exact_mod_cast this
  simpa using h2

/-- the writes of one declaration on a flat memory whose cells from `a` on are still zero -/
theorem declWrite_flat (it : Item) (hd : isDecl it = true) (m : Mem) (hc : m.cfg = riscvCfg) (a : Int)
    (hlo : 16384 ≤ a) (hhi : a + declLen it ≤ 4294967296) (hzero : ∀ x, a ≤ x → m.cells x = 0) :
    ∃ m', declWrite it (.flat m) a = (.flat m', a + declLen it, none) ∧ m'.cfg = riscvCfg ∧
      (∀ x, x < a → m'.cells x = m.cells x) ∧ (∀ x, a + declLen it ≤ x → m'.cells x = 0) ∧
      DeclAt m' it a := by
  cases it with
  | varDecl n ty vals =>
    simp only [declLen] at hhi
    obtain ⟨m', hw, hc', hfr, hst⟩ := writeSeq_flat (tyBits ty) (tyBits_cases ty) vals m hc a hlo hhi
    have hnn : 0 ≤ (vals.length : Int) * ((tyBits ty / 8 : Nat) : Int) := Int.mul_nonneg (by omega) (by omega)
    refine ⟨m', hw, hc', fun x hx => hfr x (Or.inl hx), ?_, hst, ?_⟩
    · intro x hx
      simp only [declLen] at hx
      rw [hfr x (Or.inr hx)]; exact hzero x (by omega)
    · intro x hx _
      simp only [declLen] at hx
      rw [hfr x (Or.inr hx)]; exact hzero x (by omega)
  | strDecl n body =>
    simp only [declLen] at hhi
    have hlen : ((body.map (fun (c : Char) => (c.toNat : Int)) ++ [0]).length : Int) = (body.length : Int) + 1 := by simp
    obtain ⟨m', hw, hc', hfr, hst⟩ := writeSeq_flat 8 (Or.inl rfl) (body.map (fun (c : Char) => (c.toNat : Int)) ++ [0]) m hc a hlo
      (by rw [hlen]; simp; omega)
    rw [hlen] at hw hfr
    have h81 : ((8 / 8 : Nat) : Int) = 1 := rfl
    simp only [h81, Int.mul_one] at hw hfr hst
    refine ⟨m', hw, hc', fun x hx => hfr x (Or.inl hx), ?_, ⟨?_, ?_⟩, ?_⟩
    · intro x hx
      simp only [declLen] at hx
      rw [hfr x (Or.inr hx)]; exact hzero x (by omega)
    · intro i hi
      have := hst i (by simp; omega) 0 (by decide)
      simp only [Int.natCast_zero, Int.add_zero] at this
      rw [this, C18.cellVal_zero]
      simp only [List.getElem_append_left (show i < (body.map (fun (c : Char) => (c.toNat : Int))).length by simpa using hi),
        List.getElem_map]
      show ((body[i].toNat : Int) % 2 ^ 8).toNat % 2 ^ 8 = body[i].toNat % 256
      omega
    · have := hst body.length (by simp) 0 (by decide)
      simp only [Int.natCast_zero, Int.add_zero] at this
      rw [this, C18.cellVal_zero]
      have e : (body.map (fun (c : Char) => (c.toNat : Int)) ++ [0])[body.length]'(by simp) = 0 := by
        rw [List.getElem_append_right (by simp)]; simp
      rw [e]; rfl
    · intro x hx _
      simp only [declLen] at hx
      rw [hfr x (Or.inr hx)]; exact hzero x (by omega)
  | zeroDecl n c =>
    simp only [isDecl, decide_eq_true_eq] at hd
    refine ⟨m, rfl, hc, fun _ _ => rfl, ?_, ?_, ?_⟩
    · intro x hx
      simp only [declLen] at hx
      exact hzero x (by omega)
    · intro x hx _; exact hzero x hx
    · intro x hx _
      simp only [declLen] at hx
      exact hzero x (by omega)
  | str s => cases hd
  | grp p => cases hd
  | directive d => cases hd

/-- `DeclAt` only looks at the cells from `a` up to the next boundary after the declaration -/
theorem DeclAt_congr (m1 m' : Mem) (it : Item) (hdecl : isDecl it = true) (a : Int)
    (h : ∀ x, a ≤ x → x < align4 (a + declLen it) → m'.cells x = m1.cells x) (hd : DeclAt m1 it a) :
    DeclAt m' it a := by
  have hal := (align4_spec (a + declLen it)).1
  have hnn := declLen_nonneg it hdecl
  refine ⟨?_, fun x hx hx2 => by rw [h x (by omega) hx2]; exact hd.2 x hx hx2⟩
  have hd1 := hd.1
  cases it with
  | varDecl n ty vals =>
    simp only [declLen] at h hal
    intro i hi j hj
    have hlt := mul_add_lt_int i vals.length (tyBits ty / 8) j hi hj
    have hge : 0 ≤ (i : Int) * ((tyBits ty / 8 : Nat) : Int) := Int.mul_nonneg (by omega) (by omega)
    rw [h _ (by omega) (by omega)]
    exact hd1 i hi j hj
  | strDecl n body =>
    simp only [declLen] at h hal
    refine ⟨fun i hi => ?_, ?_⟩
    · rw [h _ (by omega) (by omega)]; exact hd1.1 i hi
    · rw [h _ (by omega) (by omega)]; exact hd1.2
  | zeroDecl n c =>
    simp only [declLen] at h hal
    intro x hx hx2
    rw [h x hx (by omega)]; exact hd1 x hx hx2
  | str s => cases hdecl
  | grp p => cases hdecl
  | directive d => cases hdecl

/-- Main induction: from any state of the pass whose memory is flat, whose counter is in the data range
    and above which the memory is still zero, well-formed declarations with fresh, pairwise distinct
    names that fit below 2^32 are laid out as specified, without error. -/
theorem writeData_layout (es : List Entry) (o : DataOut) (m : Mem) (hm : o.mem = .flat m) (hc : m.cfg = riscvCfg)
    (herr : o.err = none) (hlo : 16384 ≤ o.ctr)
    (hwf : ∀ e ∈ es, entryOk e = true)
    (hnames : ((itemsOf es).map declName).Nodup)
    (hfresh : ∀ it ∈ itemsOf es, lookupVar o.vars (declName it) = none)
    (hfit : layoutEnd (itemsOf es) o.ctr ≤ 4294967296)
    (hzero : ∀ x, o.ctr ≤ x → m.cells x = 0) :
    ∃ m', writeData es o =
        { mem := .flat m', vars := o.vars ++ layoutVars (itemsOf es) o.ctr,
          ctr := layoutEnd (itemsOf es) o.ctr, err := none } ∧
      m'.cfg = riscvCfg ∧ (∀ x, x < align4 o.ctr → m'.cells x = m.cells x) ∧
      (∀ x, layoutEnd (itemsOf es) o.ctr ≤ x → m'.cells x = 0) ∧ LaidOut m' (itemsOf es) o.ctr := by
  induction es generalizing o m with
  | nil =>
    refine ⟨m, ?_, hc, fun _ _ => rfl, hzero, trivial⟩
    obtain ⟨mem, vars, ctr, err⟩ := o
    simp only at hm herr
    subst hm herr
    simp [writeData, itemsOf, layoutVars, layoutEnd]
  | cons e rest ih =>
    obtain ⟨k, line, t⟩ := e
    have hok := hwf _ (List.mem_cons_self ..)
    have hdecl : isDecl t.item = true := by
      simp only [entryOk, Bool.and_eq_true] at hok; exact hok.2
    simp only [itemsOf, List.map_cons, List.nodup_cons] at hnames
    have hit : itemsOf ((k, line, t) :: rest) = t.item :: itemsOf rest := rfl
    rw [hit] at hfresh hfit ⊢
    simp only [layoutEnd, layoutVars, LaidOut] at hfit ⊢
    have hal := align4_spec o.ctr
    have hwfr : ∀ e ∈ rest, entryOk e = true := fun e he => hwf e (List.mem_cons_of_mem _ he)
    have hdr : ∀ it ∈ itemsOf rest, isDecl it = true := by
      intro it hit
      simp only [itemsOf, List.mem_map] at hit
      obtain ⟨e, he, rfl⟩ := hit
      have := hwfr e he
      simp only [entryOk, Bool.and_eq_true] at this; exact this.2
    have hge := layoutEnd_ge (itemsOf rest) (align4 o.ctr + declLen t.item) hdr
    have hnn := declLen_nonneg t.item hdecl
    obtain ⟨m1, hw1, hc1, hfr1, hz1, hd1⟩ := declWrite_flat t.item hdecl m hc (align4 o.ctr) (by omega) (by omega)
      (fun x hx => hzero x (by omega))
    rw [writeData_cons k line t rest o hok (hfresh _ (List.mem_cons_self ..)), hm, hw1]
    simp only
    obtain ⟨m', hw', hc', hfr', hz', hl'⟩ := ih
      { o with mem := .flat m1, ctr := align4 o.ctr + declLen t.item,
               vars := o.vars ++ [(declName t.item, align4 o.ctr, declSize t.item)] }
      m1 rfl hc1 herr (by simp only; omega) hwfr hnames.2
      (by
        intro it hit
        simp only
        rw [lookupVar_append_none _ _ _ (hfresh it (List.mem_cons_of_mem _ hit))]
        rw [lookupVar_cons_ne]
        · rfl
        · intro e
          apply hnames.1
          rw [e]
          exact List.mem_map_of_mem hit)
      hfit hz1
    simp only at hw' hfr' hz' hl'
    have hal2 := align4_spec (align4 o.ctr + declLen t.item)
    refine ⟨m', ?_, hc', ?_, hz', ?_, hl'⟩
    · rw [hw']; simp
    · intro x hx
      rw [hfr' x (by omega), hfr1 x hx]
    · exact DeclAt_congr m1 m' t.item hdecl (align4 o.ctr) (fun x _ hx2 => hfr' x hx2) hd1

end ArchSim.Lemmas.C05
