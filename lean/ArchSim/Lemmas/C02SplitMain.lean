/-
C02 (data path), part 6: dispatch over the instruction families, the observation record, and the
corollaries used by `ArchSim/Props/C02Split.lean`.
Core Lean only.
-/
import ArchSim.Lemmas.C02SplitMem

namespace ArchSim.Lemmas.C02Split
open ArchSim ArchSim.Rv ArchSim.Pipe

/-- What the theorem needs from the data memory system, for instruction `i` in state `s`: stores are
    taken modulo 2^32, and a load's uncounted re-read is neutral (`LoadOK`). -/
def MemOK (i : Instr) (s : St) : Prop :=
  WriteAlias s.mem ∧
  (i.op.ty = .memI → LoadOK s.mem (accessBits i.op) ((s.regs i.rs1 : Int) + i.imm))

theorem memOK_flat (i : Instr) (s : St) (m : Mem.Mem) (hmem : s.mem = .flat m)
    (hov : m.cfg.overflow = true) (hab : m.cfg.addrBits = 32) : MemOK i s := by
  rw [MemOK, hmem]
  exact ⟨writeAlias_flat m hov hab, fun hty => loadOK_flat m _ (load_facts i.op hty).2.2 _⟩

/-- GENERAL POSITION (exported for the pipeline-control proof). Every well-formed supported
    instruction `i`, sitting at any address `0 ≤ a < 16384`, whose ID/EX register `dAt i a t.regs` holds
    operands read from the registers of `t`: completing it from `t` through EX, MEM, WB (whatever the pc
    of `t` is) agrees — in the sense of `AgreeAt` — with single-cycle mode run on `t` with the pc at `a`. -/
theorem agree_all_at (i : Instr) (t : St) (a : Int) (hwf : i.WF)
    (hregs : ∀ r, t.regs r < 4294967296) (hm : MemOK i t) (h0 : 0 ≤ a) (h1 : a < 16384) :
    AgreeAt t.instrs t.pc a (completeIDEX (some (dAt i a t.regs)) t) (singleTail i (sAt t a)) := by
  obtain ⟨hsup, _, _, _, himm, hec⟩ := hwf
  unfold immRange at himm
  unfold Op.supported at hsup
  cases hty : i.op.ty <;> simp only [hty] at himm hsup
  case r => exact agree_r i t a hty hregs h0 h1
  case i =>
    by_cases hj : i.op = .jalr
    · exact agree_jalr i t a hj hregs himm.1 himm.2
    · by_cases he : i.op = .ecall
      · exact agree_ecall i t a he (hec he).1 h0 h1
      · have hb : i.op ≠ .ebreak := by simpa using hsup
        exact agree_i i t a (isAluI_of i.op hty hj he hb) hregs h0 h1
  case memI => exact agree_load i t a hty hregs (hm.2 hty) h0 h1
  case shiftI => exact agree_shift i t a hty hregs himm.1 himm.2 h0 h1
  case s => exact agree_store i t a hty hm.1 h0 h1
  case b => exact agree_b i t a hty hregs h0 h1
  case u =>
    obtain ⟨_, _, _, hl | ha⟩ := u_facts i.op hty
    · exact agree_lui i t a hl h0 h1
    · exact agree_auipc i t a ha h0 h1
  case j => exact agree_jal i t a hty
  all_goals simp at hsup

/-- The completion depends on the ID/EX register only through the instruction, its address, the
    incremented pc, the register read and the write register (not on `stall` / `flagged`). -/
theorem completeIDEX_core (d : Latch) (s : St) :
    completeIDEX (some d) s =
      completeIDEX (some { instr := d.instr, addr := d.addr, pc4 := d.pc4, rr := d.rr, wreg := d.wreg }) s := by
  have h : exStage s (some d) none none =
      exStage s (some { instr := d.instr, addr := d.addr, pc4 := d.pc4, rr := d.rr, wreg := d.wreg }) none none := by
    simp only [exStage, aluIn1, aluIn2, ecallMustWait_none]
  simp only [completeIDEX, h]

/-- `agree_all_at` for an arbitrary ID/EX register with the right five fields. -/
theorem agree_all_latch (d : Latch) (t : St) (hwf : d.instr.WF)
    (hpc4 : d.pc4 = d.addr + 4) (hrr : d.rr = accessRegs d.instr t.regs) (hwr : d.wreg = writeReg d.instr)
    (hregs : ∀ r, t.regs r < 4294967296) (hm : MemOK d.instr t) (h0 : 0 ≤ d.addr) (h1 : d.addr < 16384) :
    AgreeAt t.instrs t.pc d.addr (completeIDEX (some d) t) (singleTail d.instr (sAt t d.addr)) := by
  rw [completeIDEX_core, hpc4, hrr, hwr]
  exact agree_all_at d.instr t d.addr hwf hregs hm h0 h1

/-- The instance right after IF (nothing else in flight). -/
theorem agree_all (i : Instr) (s : St) (hwf : i.WF)
    (hregs : ∀ r, s.regs r < 4294967296) (hm : MemOK i s) (h0 : 0 ≤ s.pc) (h1 : s.pc < 16384) :
    Agree s.instrs (completeIDEX (some (dOf i s)) (sIF s)) (singleTail i (sSingle s)) :=
  (agree_all_at i (sIF s) s.pc hwf hregs hm h0 h1).toAgree

/-- The whole step over any memory system satisfying `MemOK`. -/
theorem agree_step_anymem (s : St) (i : Instr) (hwf : i.WF)
    (hic : s.imem.cache = none) (hi : s.imem.instrAt s.pc = some i)
    (h0 : 0 ≤ s.pc) (h1 : s.pc < 16384)
    (hregs : ∀ r, s.regs r < 4294967296) (hm : MemOK i s) :
    Agree s.instrs (splitStep s) (singleStep s) := by
  rw [splitStep_eq s i hic hi h0 h1, singleStep_eq s i hic hi h0 h1]
  exact agree_all i s hwf hregs hm h0 h1

/-- The whole step, flat memory: `splitStep` agrees with `singleStep`. -/
theorem agree_step (s : St) (i : Instr) (m : Mem.Mem) (hwf : i.WF)
    (hic : s.imem.cache = none) (hi : s.imem.instrAt s.pc = some i)
    (h0 : 0 ≤ s.pc) (h1 : s.pc < 16384)
    (hregs : ∀ r, s.regs r < 4294967296) (hmem : s.mem = .flat m)
    (hov : m.cfg.overflow = true) (hab : m.cfg.addrBits = 32) :
    Agree s.instrs (splitStep s) (singleStep s) :=
  agree_step_anymem s i hwf hic hi h0 h1 hregs (memOK_flat i s m hmem hov hab)

/-- `instrAt` answers only at non-negative word-aligned addresses. -/
theorem instrAt_some_aligned (im : IMem) (pc : Int) (i : Instr) (h : im.instrAt pc = some i) :
    0 ≤ pc ∧ pc % 4 = 0 := by
  unfold IMem.instrAt at h
  split at h
  · assumption
  · cases h

/-! ### Observations -/

/-- Everything the property compares after a step that did not fault. -/
structure Obs where
  regs     : Nat → Nat
  mem      : MemSys
  output   : String
  exitCode : Option Int
  pc       : Int
  branches : Nat
  procs    : Nat
  instrs   : Nat
  cycles   : Nat

def obs (s : St) : Obs :=
  { regs := s.regs, mem := s.mem, output := s.output, exitCode := s.exitCode, pc := s.pc,
    branches := s.branches, procs := s.procs, instrs := s.instrs, cycles := s.cycles }

/-- What is compared after a fault: registers, memory, output, exit code, pc, counters other than
    the instruction count. -/
structure FaultObs where
  regs     : Nat → Nat
  mem      : MemSys
  output   : String
  exitCode : Option Int
  pc       : Int
  branches : Nat
  procs    : Nat
  cycles   : Nat

def faultObs (s : St) : FaultObs :=
  { regs := s.regs, mem := s.mem, output := s.output, exitCode := s.exitCode, pc := s.pc,
    branches := s.branches, procs := s.procs, cycles := s.cycles }

theorem Agree.obs {n : Nat} {A B : Rv.StepOut} (h : Agree n A B) (hf : B.fault = none) :
    obs A.st = obs B.st := by rw [h.2.1 hf]

theorem Agree.faultObs {n : Nat} {A B : Rv.StepOut} (h : Agree n A B) : faultObs A.st = faultObs B.st := by
  cases hf : B.fault with
  | none => rw [h.2.1 hf]
  | some ft => rw [h.2.2 (by simp [hf])]; rfl

/-! ### The instruction count when a step faults -/

theorem behavior_instrs (i : Instr) (s : St) : (behavior i s).st.instrs = s.instrs := by
  unfold behavior
  simp only []
  split <;> (try split) <;> (try split) <;> (try split) <;> (try split) <;> simp [St.setReg]

theorem singleTail_fault_instrs (i : Instr) (s2 : St) (h : (singleTail i s2).fault ≠ none) :
    (singleTail i s2).st.instrs = s2.instrs := by
  have hb := behavior_instrs i s2
  unfold singleTail at h ⊢
  simp only [] at h ⊢
  split
  · exact hb
  · split
    · rename_i heq
      split at heq
      · split at heq
        · simp at heq; rw [← heq.1]; exact hb
        · split at heq <;> simp at heq <;> rw [← heq.1] <;> exact hb
      · simp at heq
    · rename_i hbn _ _ heq
      simp [hbn, heq] at h

/-- When the step faults, single-cycle mode has counted the instruction (it counts before
    executing), the split path has not (it counts in WB, which is never reached). -/
theorem fault_instrs (s : St) (i : Instr) (m : Mem.Mem) (hwf : i.WF)
    (hic : s.imem.cache = none) (hi : s.imem.instrAt s.pc = some i)
    (h0 : 0 ≤ s.pc) (h1 : s.pc < 16384)
    (hregs : ∀ r, s.regs r < 4294967296) (hmem : s.mem = .flat m)
    (hov : m.cfg.overflow = true) (hab : m.cfg.addrBits = 32)
    (hf : (singleStep s).fault ≠ none) :
    (singleStep s).st.instrs = s.instrs + 1 ∧ (splitStep s).st.instrs = s.instrs := by
  have ha := agree_step s i m hwf hic hi h0 h1 hregs hmem hov hab
  refine ⟨?_, by rw [ha.2.2 hf]⟩
  rw [singleStep_eq s i hic hi h0 h1] at hf ⊢
  rw [singleTail_fault_instrs i _ hf]; rfl

end ArchSim.Lemmas.C02Split
