/-
C07 helper lemmas: "plain" instructions (register/immediate arithmetic, shifts, lui/auipc) and what
the EX and MEM stages do with them: no fault, no stall, no flush, no architectural effect.
Core Lean only.
-/
import ArchSim.Lemmas.C07Hazard

namespace ArchSim.Lemmas.C07
open ArchSim ArchSim.Rv ArchSim.Pipe ArchSim.Lemmas.C02Split

/-- Opcodes without control transfer, memory access or environment call. -/
def plainOp (op : Op) : Bool :=
  match op.ty with
  | .r | .shiftI | .u => true
  | .i => op != .jalr && op != .ecall && op != .ebreak
  | _ => false

/-- A plain instruction; `srai` must carry the non-negative shift amount its constructor stores. -/
def PlainInstr (i : Instr) : Prop := plainOp i.op = true ∧ (i.op = .srai → 0 ≤ i.imm)

instance (i : Instr) : Decidable (PlainInstr i) := by unfold PlainInstr; infer_instance

theorem plain_not_ecall (i : Instr) (h : PlainInstr i) : i.op ≠ .ecall := by
  intro he; have := h.1; rw [he] at this; simp [plainOp, Op.ty] at this

theorem plain_ty (i : Instr) (h : PlainInstr i) : i.op.ty ≠ .memI ∧ i.op.ty ≠ .s ∧ i.op.ty ≠ .b := by
  have := h.1
  unfold plainOp at this
  refine ⟨?_, ?_, ?_⟩ <;> intro he <;> rw [he] at this <;> simp at this

/-- The ALU never hits a failed assertion on a plain instruction decoded by ID. -/
theorem plain_alu (d : Latch) (h : PlainInstr d.instr) (regs : Nat → Nat)
    (hrr : d.rr = accessRegs d.instr regs) :
    ∃ cmp res, aluCompute d.instr (aluIn1 d) (aluIn2 d) = some (cmp, res) := by
  obtain ⟨hp, hs⟩ := h
  unfold aluIn1 aluIn2 ctlOf
  rw [hrr]
  unfold accessRegs aluCompute
  generalize d.instr = i at *
  obtain ⟨op, rd, rs1, rs2, imm, aux⟩ := i
  cases op <;> simp [plainOp, Op.ty] at hp ⊢
  all_goals simp at hs
  all_goals omega

/-- A plain instruction that carries no exit code asks for no flush in MEM. -/
theorem plain_memFlush (e : Latch) (h : PlainInstr e.instr) (hx : e.exitCode = none) :
    memFlush e = none := by
  have hp := h.1
  unfold memFlush ctlOf
  rw [hx]
  generalize e.instr = i at *
  obtain ⟨op, rd, rs1, rs2, imm, aux⟩ := i
  cases op <;> simp [plainOp, Op.ty] at hp ⊢

/-- EX on a plain instruction: no fault, state untouched, output carries the instruction on. -/
theorem exStage_plain (s : St) (d : Latch) (l2 l3 : Option Latch) (h : PlainInstr d.instr)
    (regs : Nat → Nat) (hrr : d.rr = accessRegs d.instr regs) :
    ∃ cmp res, exStage s (some d) l2 l3 = { st := s, latch := some (exBase d cmp res), fault := none } := by
  obtain ⟨cmp, res, halu⟩ := plain_alu d h regs hrr
  exact ⟨cmp, res, exStage_nonEcall s d l2 l3 cmp res (plain_not_ecall _ h) halu⟩

/-- MEM on a plain instruction without exit code: nothing happens, no flush. -/
theorem memStage_plain (s : St) (e : Latch) (h : PlainInstr e.instr) (hx : e.exitCode = none) :
    memStage s (some e) = { st := s, latch := some (memLatch e none), fault := none } := by
  have hty := plain_ty _ h
  have hma := memoryAccess_other e.instr hty.1 hty.2.1 e.result e.rr.d2 s.mem true
  rw [memStage_some s e _ none hma rfl]
  unfold memCount
  rw [plain_memFlush e h hx]
  rfl

theorem memLatch_flush_plain (e : Latch) (h : PlainInstr e.instr) (hx : e.exitCode = none) :
    (memLatch e none).flush = none := by
  unfold memLatch; simp only; exact plain_memFlush e h hx

end ArchSim.Lemmas.C07
